package main

// Generators of C07 cases. Every random choice comes from the run's Rng.

import (
	"fmt"
	"strings"
	"time"
	. "vh/kit"

	"github.com/opencontainers/go-digest"
)

type generator struct {
	rng  *Rng
	tier string
}

var formats = []string{MtJWS, MtCOSE}

var mediaTypes = []string{
	"application/vnd.oci.image.manifest.v1+json",
	"application/vnd.docker.distribution.manifest.v2+json",
	"application/vnd.oci.image.index.v1+json",
	"application/octet-stream",
	"text/plain; charset=utf-8",
	"application/vnd.example.thing+json; version=2",
	"image/png",
}

var metaKeys = []string{"k", "a=b", " lead", "dots.in.key", "io.wabbit-networks.buildId", "releasedBy", "a b", "key\"quoted\"", "<html>&", "ключ", "x/y", "emoji\U0001F600", "line sep", "", "io.cncf.notar", "Io.cncf.notary.upper"}
var metaVals = []string{"", "v", "123", "Mo says \"hi\"", "<b>&amp;</b>", "значение", "tab\there", "new\nline", "  ", "a\\b", "\U0001F680 launch", "\x7f", "0123456789012345678901234567890123456789"}

func (g *generator) metaMap(n int, avoid map[string]string) map[string]string {
	if n == 0 {
		return nil
	}
	m := map[string]string{}
	for tries := 0; len(m) < n && tries < 50; tries++ {
		k := Pick(g.rng, metaKeys)
		if g.rng.Chance(1, 3) {
			k = fmt.Sprintf("%s%d", k, g.rng.Intn(100))
		}
		if _, clash := avoid[k]; clash {
			continue
		}
		m[k] = Pick(g.rng, metaVals)
	}
	return m
}

func (g *generator) digestOf(alg digest.Algorithm) string {
	b := make([]byte, 16)
	for i := range b {
		b[i] = byte(g.rng.U64())
	}
	return string(alg.FromBytes(b))
}

// descriptor: valid digest (the registry reference must parse), random extras
func (g *generator) descriptor(rich bool) *c07Desc {
	alg := digest.SHA256
	if g.rng.Chance(1, 6) {
		alg = digest.SHA512
	} else if g.rng.Chance(1, 10) {
		alg = digest.SHA384
	}
	d := &c07Desc{MT: Pick(g.rng, mediaTypes), Digest: g.digestOf(alg), Size: int64(g.rng.Intn(1 << 20))}
	if g.rng.Chance(1, 8) {
		d.Size = int64(g.rng.U64() >> 12) // up to 2^52: exact in float64
	}
	if g.rng.Chance(1, 12) {
		d.Size = 0
	}
	if g.rng.Chance(1, 10) {
		d.MT = ""
	}
	if rich {
		if g.rng.Bool() {
			d.URLs = []string{"https://example.com/blob", "https://mirror.example/x?y=<z>"}[:1+g.rng.Intn(2)]
		}
		if g.rng.Bool() {
			d.Data = Pick(g.rng, []string{"e30=", "{}", "\x00\x01\xfe\xff", "embedded"})
		}
		if g.rng.Bool() {
			d.Platform = Pick(g.rng, []string{"linux/amd64", "linux/arm64", "windows/amd64"})
		}
		if g.rng.Bool() {
			d.AType = Pick(g.rng, []string{"application/vnd.example.sbom.v1", "application/spdx+json"})
		}
	}
	if g.rng.Chance(2, 3) {
		d.Anns = map[string]string{}
		n := g.rng.Intn(4)
		annKeys := []string{"org.opencontainers.image.created", "org.opencontainers.image.title", "io.cncf.notary.x509chain.thumbprint#S256", "identity", "foo", "<k>", "ünï"}
		for i := 0; i < n; i++ {
			d.Anns[Pick(g.rng, annKeys)] = Pick(g.rng, metaVals)
		}
	}
	return d
}

func cloneDesc(d *c07Desc) *c07Desc {
	c := *d
	if d.Anns != nil {
		c.Anns = map[string]string{}
		for k, v := range d.Anns {
			c.Anns[k] = v
		}
	}
	c.URLs = append([]string(nil), d.URLs...)
	return &c
}

var hour = int64(time.Hour)

func (g *generator) duration() int64 {
	switch g.rng.Intn(6) {
	case 0:
		return 0
	case 1:
		return hour
	case 2:
		return 24 * hour
	case 3:
		return int64(3600+g.rng.Intn(1000000)) * int64(time.Second)
	case 4:
		return 100 * 365 * 24 * hour
	}
	return int64(3600+g.rng.Intn(86400*365)) * int64(time.Second)
}

var blobSizesQuick = []int{0, 1, 31, 32, 33, 63, 64, 65, 127, 128, 129, 1000, 4095, 4096, 4097, 65536}

func (g *generator) blob() *c07Blob {
	b := &c07Blob{Seed: g.rng.U64(), Size: Pick(g.rng, blobSizesQuick), MT: Pick(g.rng, mediaTypes[3:])}
	if g.rng.Chance(1, 4) {
		b.Size = g.rng.Intn(20000)
	}
	return b
}

type sk struct {
	signer         string
	capSig, capEnv bool
}

var signerKinds = []sk{{"local", false, false}, {"plugin", true, false}, {"plugin", false, true}}

// base builds a legal, positive case.
func (g *generator) base(family, key, format, kind string, s sk) *c07Case {
	c := &c07Case{Family: family, Kind: kind, Signer: s.signer, CapSig: s.capSig, CapEnv: s.capEnv, Key: key, Format: format, Trusted: true}
	if s.signer != "local" {
		c.Desc = key
	}
	c.DurNs = g.duration()
	if g.rng.Chance(1, 3) {
		c.Agent = Pick(g.rng, []string{"my-tool/2.0", "agent with \"quotes\"", "агент", "x"})
	}
	if kind == "oci" {
		c.OCI = g.descriptor(g.rng.Chance(2, 3))
		c.Meta = g.metaMap(g.rng.Intn(4), c.OCI.Anns)
		c.VOCI = cloneDesc(c.OCI)
	} else {
		c.Blob = g.blob()
		c.Meta = g.metaMap(g.rng.Intn(4), nil)
		vb := *c.Blob
		c.VBlob = &vb
		if g.rng.Chance(1, 4) {
			c.VBlob.MT = ""
		}
	}
	// metadata demanded at verification: a subset of what was signed
	if g.rng.Chance(1, 3) {
		all := map[string]string{}
		for k, v := range c.Meta {
			all[k] = v
		}
		if c.OCI != nil && g.rng.Bool() {
			for k, v := range c.OCI.Anns {
				all[k] = v
			}
		}
		for k, v := range all {
			if g.rng.Bool() {
				if c.VMeta == nil {
					c.VMeta = map[string]string{}
				}
				c.VMeta[k] = v
			}
		}
		if kind == "blob" {
			// a reserved key cannot be demanded of a blob (descriptor generation rejects it)
			for k := range c.VMeta {
				if len(k) >= 14 && k[:14] == "io.cncf.notary" {
					delete(c.VMeta, k)
				}
			}
			if len(c.VMeta) == 0 {
				c.VMeta = nil
			}
		}
	}
	return c
}

func (g *generator) all(run func(*c07Case)) {
	thorough := g.tier == "thorough"
	// F1: the full grid of positive cases
	reps := 2
	if thorough {
		reps = 30
	}
	for r := 0; r < reps; r++ {
		for _, key := range specNames {
			for _, f := range formats {
				for _, kind := range []string{"oci", "blob"} {
					for _, s := range signerKinds {
						run(g.base("grid", key, f, kind, s))
					}
				}
			}
		}
	}
	pickKey := func() string {
		// EC keys and RSA-2048 are cheap; the large RSA keys are covered by the grid
		if g.rng.Chance(1, 8) {
			return Pick(g.rng, specNames[1:3])
		}
		return Pick(g.rng, []string{"RSA-2048", "EC-256", "EC-384", "EC-521"})
	}
	rnd := func(family string) *c07Case {
		return g.base(family, pickKey(), Pick(g.rng, formats), Pick(g.rng, []string{"oci", "blob"}), Pick(g.rng, signerKinds))
	}
	n := func(q, t int) int {
		if thorough {
			return t
		}
		return q
	}
	// F2: more random positive cases (descriptors with extras, metadata, durations, agents)
	for i := 0; i < n(100, 4000); i++ {
		run(rnd("positive"))
	}
	// F3: blob sizes and media types
	sizes := append([]int(nil), blobSizesQuick...)
	sizes = append(sizes, 1<<20)
	if thorough {
		sizes = append(sizes, 1<<20+1, 2<<20, 4<<20)
	}
	for _, sz := range sizes {
		for _, key := range []string{"EC-256", "EC-384", "EC-521"} {
			c := g.base("blob-size", key, Pick(g.rng, formats), "blob", Pick(g.rng, signerKinds))
			c.Blob.Size = sz
			vb := *c.Blob
			vb.MT = c.VBlob.MT
			c.VBlob = &vb
			run(c)
		}
	}
	for _, mt := range []string{"", "bad/", " a", "text/plain;", "a/b; c=d; e=\"f g\"", "TEXT/Plain", "text/plain; charset", "x", "text/plain; a=1; a=2", "té/x"} {
		c := g.base("media-type", pickKey(), Pick(g.rng, formats), "blob", Pick(g.rng, signerKinds))
		c.Blob.MT = mt
		vb := *c.Blob
		c.VBlob = &vb
		run(c)
	}
	// F4: illegal arguments and metadata
	for i := 0; i < n(6, 100); i++ {
		for _, mut := range []string{"neg", "subsec", "fmt-empty", "fmt-bad", "reserved", "reserved-exact", "clash"} {
			c := rnd("illegal-" + mut)
			switch mut {
			case "neg":
				c.DurNs = -int64(1+g.rng.Intn(5000)) * int64(time.Second)
			case "subsec":
				c.DurNs = hour + int64(1+g.rng.Intn(999999999))
			case "fmt-empty":
				c.Format = ""
			case "fmt-bad":
				c.Format = Pick(g.rng, []string{"application/jose", "application/cose+json", "application/JOSE+json"})
			case "reserved":
				if c.Meta == nil {
					c.Meta = map[string]string{}
				}
				c.Meta["io.cncf.notary."+Pick(g.rng, []string{"x", "verificationPlugin", ""})] = "v"
			case "reserved-exact":
				if c.Meta == nil {
					c.Meta = map[string]string{}
				}
				c.Meta[Pick(g.rng, []string{"io.cncf.notary", "io.cncf.notaryX"})] = "v"
			case "clash":
				if c.Kind != "oci" {
					c = g.base("illegal-clash", pickKey(), Pick(g.rng, formats), "oci", Pick(g.rng, signerKinds))
				}
				if c.OCI.Anns == nil {
					c.OCI.Anns = map[string]string{}
				}
				c.OCI.Anns["dup"] = "1"
				c.VOCI = cloneDesc(c.OCI)
				if c.Meta == nil {
					c.Meta = map[string]string{}
				}
				c.Meta["dup"] = Pick(g.rng, []string{"1", "2"})
			}
			run(c)
		}
	}
	// F5: verification that must fail, and verification-time variations that must not matter
	for i := 0; i < n(8, 150); i++ {
		for _, mut := range []string{"untrusted", "tamper", "vmt", "vmeta-wrong", "vmeta-missing", "vmeta-reserved", "vextras"} {
			c := rnd("verify-" + mut)
			switch mut {
			case "untrusted":
				c.Trusted = false
			case "tamper":
				if c.Kind == "oci" {
					switch g.rng.Intn(3) {
					case 0:
						c.VOCI.Digest = g.digestOf(digest.SHA256)
					case 1:
						c.VOCI.Size++
					case 2:
						c.VOCI.MT = c.VOCI.MT + "x"
					}
				} else {
					switch g.rng.Intn(3) {
					case 0:
						if c.VBlob.Size == 0 {
							c.VBlob.Extra = 1
						} else {
							c.VBlob.Flip = true
						}
					case 1:
						c.VBlob.Extra = 1 + g.rng.Intn(3)
					case 2:
						c.VBlob.Seed++
						if c.VBlob.Size == 0 {
							c.VBlob.Extra = 2
						}
					}
				}
			case "vmt":
				if c.Kind == "blob" {
					c.VBlob.MT = Pick(g.rng, []string{"application/x-other", "", "bad/", "text/plain", c.Blob.MT + "; q=1"})
				} else {
					c.VOCI.MT = Pick(g.rng, mediaTypes)
				}
			case "vmeta-wrong":
				c.VMeta = map[string]string{}
				for k, v := range c.Meta {
					c.VMeta[k] = v + "!"
					break
				}
				if len(c.VMeta) == 0 {
					c.VMeta["absent"] = ""
				}
			case "vmeta-missing":
				c.VMeta = map[string]string{"not-signed": Pick(g.rng, metaVals)}
				for k, v := range c.Meta {
					c.VMeta[k] = v
				}
			case "vmeta-reserved":
				c.VMeta = map[string]string{"io.cncf.notary.x": "1"}
				if c.Kind == "oci" && g.rng.Bool() {
					c.OCI.Anns = map[string]string{"io.cncf.notary.x": "1"}
					delete(c.Meta, "io.cncf.notary.x")
					c.VOCI = cloneDesc(c.OCI)
				}
			case "vextras":
				// the descriptor the reference resolves to at verification time differs only
				// in fields the signature does not cover
				if c.Kind == "oci" {
					c.VOCI.Anns = map[string]string{"added-later": "x"}
					c.VOCI.URLs = []string{"https://other.example/"}
					c.VOCI.AType = "application/vnd.other"
					c.VOCI.Platform = "linux/riscv64"
				} else {
					c.VBlob.MT = ""
				}
			}
			run(c)
		}
	}
	// F6: plugins that misdescribe the key or cannot sign
	for i := 0; i < n(3, 50); i++ {
		for _, mut := range []string{"junk", "empty", "wrong", "nocaps", "bothcaps", "case"} {
			c := g.base("plugin-"+mut, pickKey(), Pick(g.rng, formats), Pick(g.rng, []string{"oci", "blob"}), signerKinds[1+g.rng.Intn(2)])
			switch mut {
			case "junk":
				c.Desc = Pick(g.rng, []string{"RSA-1024", "EC-512", "RSA2048", "ED25519", "RSA-2048 "})
			case "empty":
				c.Desc = ""
			case "wrong":
				for c.Desc == c.Key {
					c.Desc = Pick(g.rng, specNames)
				}
			case "nocaps":
				c.CapSig, c.CapEnv = false, false
			case "bothcaps":
				c.CapSig, c.CapEnv = true, true
			case "case":
				c.Desc = Pick(g.rng, []string{"rsa-2048", "ec-256", "Ec-384"})
			}
			run(c)
		}
	}
	// F13: the SHAPE of the io.Reader, for signing and verifying independently; the descriptor must
	// be that of the complete content (digest, size) whatever the shape
	shapes := []string{"", "plain", "dataerr", "gzip", "onebyte", "half", "zeronil"}
	chunkSizes := []int{0, 1, 32767, 32768, 32769, 65535, 65536, 65537}
	rot := 0
	for _, ss := range shapes {
		for _, vs := range shapes {
			szs := []int{chunkSizes[rot%len(chunkSizes)]}
			rot += 3
			if thorough {
				szs = chunkSizes
			}
			for _, sz := range szs {
				c := g.base("reader-shape", Pick(g.rng, []string{"EC-256", "EC-384", "EC-521"}), Pick(g.rng, formats), "blob", Pick(g.rng, signerKinds))
				c.Blob.Size, c.Blob.Reader = sz, ss
				vb := *c.Blob
				vb.MT, vb.Reader = c.VBlob.MT, vs
				c.VBlob = &vb
				run(c)
			}
		}
	}
	for _, side := range []string{"sign", "verify"} {
		for _, shape := range []string{"fail", "fail-data"} {
			for _, sz := range []int{1, 32769, 65536} {
				for _, at := range []int{0, sz / 2, sz - 1} {
					if shape == "fail-data" && at == 0 {
						continue
					}
					c := g.base("reader-fails", Pick(g.rng, []string{"EC-256", "EC-384"}), Pick(g.rng, formats), "blob", Pick(g.rng, signerKinds))
					c.Blob.Size = sz
					vb := *c.Blob
					vb.MT = c.VBlob.MT
					c.VBlob = &vb
					if side == "sign" {
						c.Blob.Reader, c.Blob.FailAt = shape, at
					} else {
						c.VBlob.Reader, c.VBlob.FailAt = shape, at
					}
					run(c)
				}
			}
		}
	}
	// F14: a changed blob / descriptor must not verify even when the demanded metadata matches
	for i := 0; i < n(2, 30); i++ {
		for _, kind := range []string{"blob", "oci"} {
			for _, vm := range []string{"one", "all"} {
				c := g.base("tamper-with-matching-metadata", pickKey(), Pick(g.rng, formats), kind, Pick(g.rng, signerKinds))
				c.Meta = map[string]string{"releasedBy": "me", "n": fmt.Sprint(g.rng.Intn(100))}
				c.VMeta = map[string]string{"releasedBy": "me"}
				if vm == "all" {
					c.VMeta["n"] = c.Meta["n"]
				}
				if kind == "blob" {
					if c.VBlob.Size == 0 {
						c.VBlob.Extra = 1
					} else if g.rng.Bool() {
						c.VBlob.Flip = true
					} else {
						c.VBlob.Extra = 1
					}
				} else {
					switch g.rng.Intn(3) {
					case 0:
						c.VOCI.Digest = g.digestOf(digest.SHA256)
					case 1:
						c.VOCI.Size++
					default:
						c.VOCI.MT += "x"
					}
				}
				run(c)
			}
		}
	}
	// F9: verification with options LESS specific than what was signed (no content media type,
	// no / part of the metadata): what comes back must still be what was SIGNED
	for i := 0; i < n(1, 12); i++ {
		for _, kind := range []string{"blob", "oci"} {
			for _, vm := range []string{"nil", "one", "all", "empty-map"} {
				for _, vmtEmpty := range []bool{true, false} {
					if kind == "oci" && !vmtEmpty {
						continue
					}
					c := g.base("less-specific", pickKey(), Pick(g.rng, formats), kind, Pick(g.rng, signerKinds))
					c.Meta = map[string]string{"releasedBy": "me", "buildId": fmt.Sprint(g.rng.Intn(1000)), "empty": ""}
					c.VMeta = nil
					switch vm {
					case "one":
						c.VMeta = map[string]string{Pick(g.rng, []string{"releasedBy", "empty"}): ""}
						for k := range c.VMeta {
							c.VMeta[k] = c.Meta[k]
						}
					case "all":
						c.VMeta = map[string]string{}
						for k, v := range c.Meta {
							c.VMeta[k] = v
						}
					case "empty-map":
						c.VMetaEmpty = true
					}
					if kind == "blob" {
						c.Blob.MT = Pick(g.rng, []string{"text/plain; charset=utf-8", "application/vnd.example.thing+json; version=2"})
						vb := *c.Blob
						c.VBlob = &vb
						if vmtEmpty {
							c.VBlob.MT = ""
						}
					} else {
						if c.OCI.Anns == nil {
							c.OCI.Anns = map[string]string{}
						}
						delete(c.OCI.Anns, "empty")
						c.OCI.Anns["org.opencontainers.image.title"] = "app"
						c.VOCI = cloneDesc(c.OCI)
					}
					run(c)
				}
			}
		}
	}
	// F10: empty vs absent vs nil maps and values
	for i := 0; i < n(1, 10); i++ {
		for _, kind := range []string{"blob", "oci"} {
			for _, v := range []string{"meta-empty-map", "anns-empty-map", "both-empty-maps", "empty-value", "empty-key", "vmeta-empty-value"} {
				c := g.base("empty-"+v, pickKey(), Pick(g.rng, formats), kind, Pick(g.rng, signerKinds))
				c.VMeta = nil
				switch v {
				case "meta-empty-map":
					c.Meta, c.MetaEmpty = nil, true
				case "anns-empty-map":
					if kind == "oci" {
						c.OCI.Anns, c.OCI.EmptyAnn = nil, true
						c.VOCI = cloneDesc(c.OCI)
					}
				case "both-empty-maps":
					c.Meta, c.MetaEmpty = nil, true
					if kind == "oci" {
						c.OCI.Anns, c.OCI.EmptyAnn = nil, true
						c.VOCI = cloneDesc(c.OCI)
					}
				case "empty-value":
					c.Meta = map[string]string{"k": ""}
				case "empty-key":
					c.Meta = map[string]string{"": "v"}
					c.VMeta = map[string]string{"": "v"}
				case "vmeta-empty-value":
					// demanded: key present with the empty value; signed: key absent
					c.Meta = map[string]string{"other": "x"}
					c.VMeta = map[string]string{"k": ""}
				}
				run(c)
			}
		}
	}
	// F11: history — ONE signer instance signs three different things in sequence (an illegal
	// request in the middle); every step is judged on its own input
	for i := 0; i < n(2, 12); i++ {
		for si, s := range signerKinds {
			grp := fmt.Sprintf("h%d-%d", i, si)
			key, f := pickKey(), Pick(g.rng, formats)
			kinds := []string{"oci", "blob", "oci", "blob"}
			if g.rng.Bool() {
				kinds = []string{"blob", "oci", "blob", "oci"}
			}
			shared := (i+si)%2 == 0
			sharedMeta := map[string]string{"common": "v", "releasedBy": "me", "n": fmt.Sprint(g.rng.Intn(100))}
			for step, kind := range kinds {
				c := g.base("history", key, f, kind, s)
				c.Group = grp
				c.SharedMaps = shared
				c.VMeta = nil
				if shared {
					// the SAME map objects at every step (contents therefore equal); the middle step is
					// made illegal through the duration
					c.Meta = map[string]string{}
					for k, v := range sharedMeta {
						c.Meta[k] = v
					}
					c.VMeta = map[string]string{"common": "v", "n": sharedMeta["n"]}
					if c.OCI != nil {
						delete(c.OCI.Anns, "common")
						delete(c.OCI.Anns, "releasedBy")
						delete(c.OCI.Anns, "n")
						c.VOCI = cloneDesc(c.OCI)
					}
					if step == 1 {
						c.DurNs = -int64(time.Second)
					}
				} else {
					c.Meta = map[string]string{fmt.Sprintf("step%d", step): fmt.Sprint(g.rng.Intn(100)), "common": fmt.Sprint("v", step)}
					if step == 1 {
						c.Meta["io.cncf.notary.x"] = "reserved" // this step must fail, the next must not be affected
					}
					if step == 3 {
						c.Meta = nil
					}
				}
				run(c)
			}
		}
	}
	// F12: the repository lists other signatures next to the genuine one (before / after / both
	// sides): the outcome is the genuine signature's
	for i := 0; i < n(1, 10); i++ {
		for _, pos := range []string{"before", "after", "both"} {
			for _, ds := range [][]string{{"other-desc"}, {"untrusted"}, {"other-desc", "untrusted"}, {"untrusted", "other-desc", "other-desc"}} {
				c := g.base("decoys", pickKey(), Pick(g.rng, formats), "oci", Pick(g.rng, signerKinds))
				c.Meta = map[string]string{"releasedBy": "me", "n": fmt.Sprint(g.rng.Intn(100))}
				c.Decoys, c.DecoyPos = ds, pos
				if g.rng.Bool() {
					c.VMeta = map[string]string{"releasedBy": "me"}
				} else {
					c.VMeta = nil
				}
				run(c)
			}
		}
	}
	// F8: descriptor sizes at and beyond the float64 integer range (the JWS envelope of
	// notation-core-go re-encodes the payload through float64: KNOWN finding, footprint 1)
	bigSizes := []int64{1 << 53, 1<<53 + 1, 1<<53 - 1, 1 << 60, 4260165850628664065, 9223372036854775807, 1<<53 + 2}
	for i := 0; i < n(0, 150); i++ {
		bigSizes = append(bigSizes, int64(g.rng.U64()>>1), int64(g.rng.U64()>>uint(2+g.rng.Intn(9))))
	}
	for i, sz := range bigSizes {
		for _, f := range formats {
			c := g.base("big-size", pickKey(), f, "oci", signerKinds[i%3])
			c.OCI.Size = sz
			c.VOCI = cloneDesc(c.OCI)
			run(c)
		}
	}
	// F7: text that JSON cannot carry unchanged (invalid UTF-8)
	bad := []string{"\xff", "a\xc3", "\xc3\x28", "\xe2\x82", "\xed\xa0\x80", "\xf0\x9f\x98", "\xf4\x90\x80\x80", "\xc0\xaf", "ok\xfe\xffok", "\xe0\x9f\xbf", "\xf0\x8f\xbf\xbf", "\xef\xbf\xbd", "\xf4\x8f\xbf\xbf", "\xe0\xa0\x80", "\xc2\x80", "\xed\x9f\xbf"}
	for i := 0; i < n(4, 80); i++ {
		for _, where := range []string{"meta-value", "meta-key", "meta-collide", "ann", "oci-mt"} {
			c := rnd("non-utf8-" + where)
			if where == "ann" || where == "oci-mt" {
				c = g.base("non-utf8-"+where, pickKey(), Pick(g.rng, formats), "oci", Pick(g.rng, signerKinds))
			}
			if c.Meta == nil {
				c.Meta = map[string]string{}
			}
			switch where {
			case "meta-value":
				c.Meta["m"] = Pick(g.rng, bad)
			case "meta-key":
				c.Meta["k"+Pick(g.rng, bad)] = "v"
			case "meta-collide":
				c.Meta["c\xff"] = "first"
				c.Meta["c\xfe"] = "second"
				if g.rng.Bool() {
					c.Meta["c\xef\xbf\xbd"] = "third"
				}
			case "ann":
				if c.OCI.Anns == nil {
					c.OCI.Anns = map[string]string{}
				}
				c.OCI.Anns["bad"+Pick(g.rng, []string{"", "\xff"})] = Pick(g.rng, bad)
				c.VOCI = cloneDesc(c.OCI)
			case "oci-mt":
				c.OCI.MT = "application/x" + Pick(g.rng, bad)
				c.VOCI = cloneDesc(c.OCI)
			}
			run(c)
		}
	}
	// F15 (GoLite round): the demanded metadata value is a NEAR MISS of the signed one — empty,
	// a proper suffix / prefix of it, it plus a character, another case; or something demanded
	// where the empty value was signed. verifyUserMetadata compares whole values (submap).
	// Appended last so that the cases above keep their ids and random draws.
	for i := 0; i < n(1, 6); i++ {
		for _, kind := range []string{"oci", "blob"} {
			for _, near := range []string{"empty", "suffix", "prefix", "longer", "longer-front", "case", "for-empty", "exact"} {
				c := g.base("vmeta-near-"+near, pickKey(), Pick(g.rng, formats), kind, Pick(g.rng, signerKinds))
				signed := "Release-" + fmt.Sprint(10+g.rng.Intn(90))
				c.Meta = map[string]string{"k": signed, "e": ""}
				if c.OCI != nil {
					delete(c.OCI.Anns, "k")
					delete(c.OCI.Anns, "e")
					c.VOCI = cloneDesc(c.OCI)
				}
				switch near {
				case "empty":
					c.VMeta = map[string]string{"k": ""}
				case "suffix":
					c.VMeta = map[string]string{"k": signed[1+g.rng.Intn(len(signed)-1):]}
				case "prefix":
					c.VMeta = map[string]string{"k": signed[:1+g.rng.Intn(len(signed)-1)]}
				case "longer":
					c.VMeta = map[string]string{"k": signed + "0"}
				case "longer-front":
					c.VMeta = map[string]string{"k": "x" + signed}
				case "case":
					c.VMeta = map[string]string{"k": "r" + signed[1:]}
				case "for-empty":
					c.VMeta = map[string]string{"e": "x", "k": signed}
				case "exact":
					c.VMeta = map[string]string{"e": "", "k": signed}
				}
				run(c)
			}
		}
	}
	// F16 (GoLite round): signing agents of every length — the caller's agent is used whatever it
	// looks like (GenericSigner.Sign: `opts.SigningAgent != ""` is the only test)
	for i := 0; i < n(1, 4); i++ {
		for _, ln := range []int{1, 24, 25, 64, 65, 100, 300, 4096} {
			for _, kind := range []string{"oci", "blob"} {
				c := g.base("agent-length", pickKey(), Pick(g.rng, formats), kind, signerKinds[0])
				c.Agent = strings.Repeat("a", ln-1) + fmt.Sprint(g.rng.Intn(10))
				run(c)
			}
		}
	}
}
