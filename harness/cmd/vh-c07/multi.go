package main

// Multi-signature family: ONE artifact is signed k >= 2 times with notation.SignOCI
// (same signer instance / same certificate chain, or different signers), every
// signature with its own user metadata and expiry, and then verified ONCE with
// notation.Verify under options that only the signature at one listing position
// satisfies (every position), against three repositories: the harness's mock
// (which lists the manifest annotations as real repositories do), a
// registry.Repository over an oras memory store, and an OCI layout on disk
// written through registry.NewOCIRepository and re-opened for verification.
// Expected: success with the outcome of the first listed satisfying signature.
// Model: C07_Multi.v (notation.Verify's loop, verifier.Verify's expiry check).

import (
	"context"
	"encoding/json"
	"errors"
	"fmt"
	"os"
	"path/filepath"
	"sort"
	"strings"
	"time"
	. "vh/kit"

	"github.com/notaryproject/notation-go"
	"github.com/notaryproject/notation-go/registry"
	"github.com/notaryproject/notation-go/signer"
	"github.com/notaryproject/notation-go/verifier/trustpolicy"
	pluginfw "github.com/notaryproject/notation-plugin-framework-go/plugin"
	"github.com/opencontainers/go-digest"
	ocispec "github.com/opencontainers/image-spec/specs-go/v1"
	"oras.land/oras-go/v2"
	"oras.land/oras-go/v2/content/memory"
	"oras.land/oras-go/v2/content/oci"
)

const multiBase = 600000

type mStep struct {
	Key    string            `json:"key"`    // key spec name, or "untrusted" (EC-256 leaf under a root the policy does not trust)
	Signer string            `json:"signer"` // local | plugin
	CapSig bool              `json:"plugin_cap_signature,omitempty"`
	CapEnv bool              `json:"plugin_cap_envelope,omitempty"`
	Format string            `json:"format"`
	Meta   map[string]string `json:"user_metadata,omitempty"`
	DurNs  int64             `json:"expiry_duration_ns"`
	Agent  string            `json:"signing_agent,omitempty"`
	Why    string            `json:"role"` // satisfies | fails:<reason>
}

type c07Multi struct {
	Family    string            `json:"family"`
	Repo      string            `json:"repository"` // mock | mem | oci
	OCI       *c07Desc          `json:"descriptor,omitempty"`
	VOCI      *c07Desc          `json:"verify_descriptor,omitempty"`
	Steps     []mStep           `json:"sign_steps"`
	Order     []int             `json:"listing_order"` // step indices in the order the repository lists their signatures
	VMeta     map[string]string `json:"verify_user_metadata,omitempty"`
	Max       int               `json:"max_signature_attempts"`
	OneSigner bool              `json:"steps_with_equal_key_share_one_signer_instance,omitempty"`
	Obs       map[string]any    `json:"obs,omitempty"`
}

// ---------- repository and verifier wrappers ----------

// orderedRepo lists the signature manifests of the inner repository (descriptors as the inner
// repository returns them, annotations included) in the order the case prescribes, and records
// which signature blobs are downloaded.
type orderedRepo struct {
	inner   registry.Repository
	pos     map[digest.Digest]int // manifest digest -> listing position
	step    map[digest.Digest]int // manifest digest -> step index
	fetched []int
	unknown int
}

func (r *orderedRepo) Resolve(ctx context.Context, ref string) (ocispec.Descriptor, error) {
	return r.inner.Resolve(ctx, ref)
}

func (r *orderedRepo) ListSignatures(ctx context.Context, desc ocispec.Descriptor, fn func([]ocispec.Descriptor) error) error {
	var all []ocispec.Descriptor
	if err := r.inner.ListSignatures(ctx, desc, func(ms []ocispec.Descriptor) error {
		for _, m := range ms {
			if _, ok := r.pos[m.Digest]; ok {
				all = append(all, m)
			} else {
				r.unknown++
			}
		}
		return nil
	}); err != nil {
		return err
	}
	sort.SliceStable(all, func(i, j int) bool { return r.pos[all[i].Digest] < r.pos[all[j].Digest] })
	return fn(all)
}

func (r *orderedRepo) FetchSignatureBlob(ctx context.Context, desc ocispec.Descriptor) ([]byte, ocispec.Descriptor, error) {
	if i, ok := r.step[desc.Digest]; ok {
		r.fetched = append(r.fetched, i)
	} else {
		r.fetched = append(r.fetched, 999)
	}
	return r.inner.FetchSignatureBlob(ctx, desc)
}

func (r *orderedRepo) PushSignature(ctx context.Context, mediaType string, blob []byte, subject ocispec.Descriptor, annotations map[string]string) (ocispec.Descriptor, ocispec.Descriptor, error) {
	return r.inner.PushSignature(ctx, mediaType, blob, subject, annotations)
}

type skipper interface {
	SkipVerify(context.Context, notation.VerifierVerifyOptions) (bool, *trustpolicy.VerificationLevel, error)
}

// verifierShim records every verifier.Verify call notation.Verify makes.
type verifierShim struct {
	inner notation.Verifier
	step  map[string]int // signature bytes -> step index
	tried [][2]int64
}

func (s *verifierShim) Verify(ctx context.Context, desc ocispec.Descriptor, sig []byte, opts notation.VerifierVerifyOptions) (*notation.VerificationOutcome, error) {
	out, err := s.inner.Verify(ctx, desc, sig, opts)
	i, ok := s.step[string(sig)]
	if !ok {
		i = 999
	}
	s.tried = append(s.tried, [2]int64{int64(i), verifyClass(err)})
	return out, err
}

func (s *verifierShim) SkipVerify(ctx context.Context, opts notation.VerifierVerifyOptions) (bool, *trustpolicy.VerificationLevel, error) {
	return s.inner.(skipper).SkipVerify(ctx, opts)
}

func multiVerifyClass(err error) int64 {
	if err == nil {
		return 0
	}
	m := err.Error()
	var rf notation.ErrorSignatureRetrievalFailed
	var vf notation.ErrorVerificationFailed
	switch {
	case errors.As(err, &rf) && strings.Contains(m, "no signature is associated"):
		return 12
	case errors.As(err, &rf) && strings.Contains(m, "MaxSignatureAttempts expects a positive number"):
		return 13
	case strings.Contains(m, "signature evaluation stopped"):
		return 11
	case errors.As(err, &vf):
		return 10
	}
	return 9
}

// ---------- one history ----------

type mRun struct {
	c       *c07Multi
	id      int64
	dir     string
	signRep registry.Repository
	mock    *mockRepo
	ref     string
	desc    ocispec.Descriptor
	signs   []int64
	mans    []digest.Digest
	blobs   [][]byte
	nows    []int64
	expiry  []time.Time
	metaIn  []map[string]string
	viol    []string
	frame   []string
}

func (m *mRun) keyOf(e *env, s *mStep) *keyInfo {
	if s.Key == "untrusted" {
		return e.untrusted
	}
	return e.keys[s.Key]
}

func must(err error) {
	if err != nil {
		panic("c07 multi: " + err.Error())
	}
}

// packArtifact stores a small artifact manifest in the store and returns its descriptor.
func packArtifact(ctx context.Context, t oras.Target, id int64) ocispec.Descriptor {
	d, err := oras.PackManifest(ctx, t, oras.PackManifestVersion1_1, "application/vnd.vh.c07.artifact",
		oras.PackManifestOptions{ManifestAnnotations: map[string]string{ocispec.AnnotationCreated: "2024-01-01T00:00:00Z", "vh.history": fmt.Sprint(id)}})
	must(err)
	must(t.Tag(ctx, d, "v1"))
	return d
}

// signAll makes the SignOCI calls of the history, in order.
func (m *mRun) signAll(ctx context.Context, e *env, a *Args) {
	c := m.c
	switch c.Repo {
	case "mock":
		m.mock = &mockRepo{desc: c.OCI.toOCI()}
		m.signRep = m.mock
		m.ref = c.OCI.Digest
	case "mem":
		st := memory.New()
		d := packArtifact(ctx, st, m.id)
		must(st.Tag(ctx, d, string(d.Digest))) // the memory store resolves tags only
		m.signRep = registry.NewRepository(st)
		m.ref = string(d.Digest)
	case "oci":
		m.dir = filepath.Join(a.Out, fmt.Sprintf("multi_oci_%d", m.id))
		os.RemoveAll(m.dir)
		must(os.MkdirAll(m.dir, 0o755))
		st, err := oci.New(m.dir)
		must(err)
		d := packArtifact(ctx, st, m.id)
		m.ref = string(d.Digest)
		r, err := registry.NewOCIRepository(m.dir, registry.RepositoryOptions{})
		must(err)
		m.signRep = r
	}
	var err error
	m.desc, err = m.signRep.Resolve(ctx, m.ref)
	must(err)
	type inst struct {
		sg   signerBoth
		plug *scriptPlugin
	}
	insts := map[string]*inst{}
	pcfg := map[string]string{"vh.config": "sign"}
	var lastMeta map[string]string
	for i := range c.Steps {
		s := &c.Steps[i]
		k := m.keyOf(e, s)
		ik := fmt.Sprintf("%s/%s/%v/%v", s.Key, s.Signer, s.CapSig, s.CapEnv)
		in := insts[ik]
		if in == nil || !c.OneSigner {
			in = &inst{}
			if s.Signer == "local" {
				g, err := signer.NewGenericSigner(k.Key, k.Chain)
				must(err)
				in.sg = g
			} else {
				in.plug = &scriptPlugin{key: k, describe: k.Name}
				if s.CapSig {
					in.plug.caps = append(in.plug.caps, pluginfw.CapabilitySignatureGenerator)
				}
				if s.CapEnv {
					in.plug.caps = append(in.plug.caps, pluginfw.CapabilityEnvelopeGenerator)
				}
				g, err := signer.NewPluginSigner(in.plug, plugKeyID, nil)
				must(err)
				in.sg = g
			}
			insts[ik] = in
		}
		if in.plug != nil {
			in.plug.sigReq, in.plug.envReq, in.plug.envTime = nil, nil, time.Time{}
		}
		// equal metadata of consecutive steps: the SAME map object is passed again
		meta := cpMap(s.Meta)
		if i > 0 && lastMeta != nil && fmt.Sprint(lastMeta) == fmt.Sprint(meta) {
			meta = lastMeta
		}
		lastMeta = meta
		metaSnap, pcfgSnap := cpMap(meta), cpMap(pcfg)
		m.metaIn = append(m.metaIn, metaSnap)
		before := time.Now()
		_, manDesc, serr := notation.SignOCI(ctx, in.sg, m.signRep, notation.SignOptions{
			SignerSignOptions: notation.SignerSignOptions{SignatureMediaType: s.Format, ExpiryDuration: time.Duration(s.DurNs), SigningAgent: s.Agent, PluginConfig: pcfg},
			ArtifactReference: m.ref, UserMetadata: meta})
		if fmt.Sprint(metaSnap) != fmt.Sprint(meta) || fmt.Sprint(pcfgSnap) != fmt.Sprint(pcfg) {
			m.frame = append(m.frame, fmt.Sprintf("library mutated caller-owned SignOptions.UserMetadata / PluginConfig (during SignOCI of step %d)", i))
		}
		m.signs = append(m.signs, signClass(serr))
		now := before
		var blob []byte
		var ex time.Time
		var man digest.Digest
		if serr == nil {
			man = manDesc.Digest
			b, bd, err := m.signRep.FetchSignatureBlob(ctx, manDesc)
			if err != nil || bd.MediaType != s.Format {
				m.viol = append(m.viol, fmt.Sprintf("step %d: the signature SignOCI reported as stored cannot be fetched back with its media type: %v", i, err))
			} else {
				blob = b
				ct, err := CoreVerify(s.Format, b)
				if err != nil {
					m.viol = append(m.viol, fmt.Sprintf("step %d: the stored envelope does not verify with notation-core-go: %v", i, err))
				} else {
					st := ct.SignerInfo.SignedAttributes.SigningTime
					ex = ct.SignerInfo.SignedAttributes.Expiry
					ref := before
					if in.plug != nil && !in.plug.envTime.IsZero() {
						ref = in.plug.envTime
					}
					if ref.Unix() == st.Unix() {
						now = ref
					} else {
						now = time.Unix(st.Unix(), 0)
					}
				}
			}
		}
		m.mans = append(m.mans, man)
		m.blobs = append(m.blobs, blob)
		m.nows = append(m.nows, now.UnixNano())
		m.expiry = append(m.expiry, ex)
	}
}

// lastShortExpiry: the latest expiry of a signature meant to have expired at verification.
func (m *mRun) lastShortExpiry() time.Time {
	var t time.Time
	for i, ex := range m.expiry {
		if !ex.IsZero() && m.c.Steps[i].DurNs < int64(time.Minute) && ex.After(t) {
			t = ex
		}
	}
	return t
}

func (m *mRun) verifyAndEmit(ctx context.Context, e *env, w *CaseWriter) {
	c := m.c
	defer func() {
		if m.dir != "" {
			os.RemoveAll(m.dir)
		}
	}()
	var vrep registry.Repository
	switch c.Repo {
	case "mock":
		vd := c.OCI
		if c.VOCI != nil {
			vd = c.VOCI
		}
		vrep = &mockRepo{desc: vd.toOCI(), sigs: m.mock.sigs}
	case "mem":
		vrep = m.signRep
	case "oci":
		// a fresh repository over the layout on disk
		r, err := registry.NewOCIRepository(m.dir, registry.RepositoryOptions{})
		must(err)
		vrep = r
	}
	vdesc, err := vrep.Resolve(ctx, m.ref)
	must(err)
	or := &orderedRepo{inner: vrep, pos: map[digest.Digest]int{}, step: map[digest.Digest]int{}}
	for p, si := range c.Order {
		if si < len(m.mans) && m.mans[si] != "" {
			or.pos[m.mans[si]] = p
			or.step[m.mans[si]] = si
		}
	}
	vs := &verifierShim{inner: e.vTrusted, step: map[string]int{}}
	for i, b := range m.blobs {
		if b != nil {
			vs.step[string(b)] = i
		}
	}
	var vmeta map[string]string
	if c.VMeta != nil {
		vmeta = cpMap(c.VMeta)
	}
	vpcfg := map[string]string{"vh.config": "verify"}
	vdescSnap := descSnap(&vdesc)
	t0 := time.Now()
	ret, outs, verr := notation.Verify(ctx, vs, or, notation.VerifyOptions{ArtifactReference: scopedRepo + "@" + m.ref, MaxSignatureAttempts: c.Max, UserMetadata: vmeta, PluginConfig: vpcfg})
	t1 := time.Now()
	if fmt.Sprint(vmeta) != fmt.Sprint(c.VMeta) || (vmeta == nil) != (c.VMeta == nil) || len(vpcfg) != 1 || vpcfg["vh.config"] != "verify" {
		m.frame = append(m.frame, "library mutated caller-owned VerifyOptions.UserMetadata / PluginConfig (during Verify)")
	}
	if fmt.Sprint(vdescSnap) != fmt.Sprint(descSnap(&vdesc)) {
		m.frame = append(m.frame, "library mutated the descriptor resolved at verification (during Verify)")
	}
	for i, ex := range m.expiry {
		if !ex.IsZero() && t0.Before(ex) != t1.Before(ex) {
			m.viol = append(m.viol, fmt.Sprintf("harness: the signature of step %d expired while Verify was running (case not decidable)", i))
		}
	}
	if or.unknown > 0 {
		m.viol = append(m.viol, fmt.Sprintf("the repository lists %d signature manifests that no SignOCI call of this history reported", or.unknown))
	}
	code := multiVerifyClass(verr)
	obs := map[string]any{"sign": m.signs, "verify": code, "fetched": or.fetched, "tried": vs.tried}
	if verr != nil {
		obs["verify_error"] = Short(verr.Error(), 400)
	}
	winner, retTerm, metaTerm := "None", "None", "None"
	if verr == nil {
		retTerm = CSome(descTerm(ret))
		if len(outs) == 1 && outs[0] != nil {
			if i, ok := vs.step[string(outs[0].RawSignature)]; ok {
				winner = CSome(CN(int64(i)))
				obs["winner"] = i
			}
			if mm, err := outs[0].UserMetadata(); err == nil {
				metaTerm = CSome(CMap(mm))
				obs["user_metadata"] = mm
			}
		} else {
			m.viol = append(m.viol, fmt.Sprintf("notation.Verify succeeded with %d outcomes", len(outs)))
		}
	} else if ret.Digest != "" || ret.Size != 0 || ret.MediaType != "" {
		retTerm = CSome(descTerm(ret))
	}
	c.Obs = obs
	// ----- terms
	var steps, signs, order, fetched, tried []string
	for i := range c.Steps {
		s := &c.Steps[i]
		k := m.keyOf(e, s)
		sg := "Local"
		if s.Signer != "local" {
			sg = CApp("Plug", CBool(s.CapSig), CBool(s.CapEnv), CStr(k.Name))
		}
		steps = append(steps, CApp("mk_mstep", sg, CApp("mk_ks", k.Type, CN(int64(k.Size))), CStr(s.Format), CMap(m.metaIn[i]), CZ(s.DurNs), CStr(s.Agent),
			CZ(m.nows[i]), CBool(s.Key != "untrusted")))
		signs = append(signs, CN(m.signs[i]))
	}
	for _, si := range c.Order {
		order = append(order, CN(int64(si)))
	}
	for _, f := range or.fetched {
		fetched = append(fetched, CN(int64(f)))
	}
	for _, t := range vs.tried {
		tried = append(tried, CPair(CN(t[0]), CN(t[1])))
	}
	in := CApp("mk_minput", descTerm(m.desc), CApp("mk_consts", CStr(e.agent0), CStr(plugName), CStr(plugVer), CStr(penvAgent)),
		CList(steps), CList(order), descTerm(vdesc), CMap(vmeta), CZ(t0.UnixNano()), CZ(int64(c.Max)))
	ob := CApp("mk_mobs", CList(signs), CN(code), CList(fetched), CList(tried), winner, retTerm, metaTerm)
	term := "(XM " + CApp("mk_mcase", CN(m.id), in, ob) + ")"
	cc := *c
	cc.Obs = nil
	kb, _ := json.Marshal(cc)
	for _, v := range m.viol {
		w.ImplViolation(m.id, v, c, "")
	}
	for _, v := range m.frame {
		w.ImplViolation(m.id, v, c, "frame")
	}
	w.Add(m.id, term, c, string(kb), len(vs.tried) > 0)
	w.Count("family", c.Family)
	w.Count("multi_repository", c.Repo)
	w.Count("multi_signatures", fmt.Sprint(len(c.Steps)))
	w.Count("multi_verify_class", fmt.Sprint(code))
	if code == 0 && len(vs.tried) > 0 {
		w.Count("multi_winner_listing_position", fmt.Sprint(len(vs.tried)-1))
	}
}

// ---------- generation ----------

var multiKeys = []string{"EC-256", "EC-384", "EC-521", "RSA-2048"}

func genMulti(seed uint64, tier string) []*c07Multi {
	rng := NewRng(seed*7919 + 17)
	g := &generator{rng: rng, tier: tier}
	var out []*c07Multi
	n := 0
	mockDesc := func() *c07Desc {
		d := g.descriptor(rng.Chance(2, 3))
		delete(d.Anns, "stage")
		return d
	}
	perm := func(k, kind int) []int {
		o := make([]int, k)
		for i := range o {
			switch kind % 3 {
			case 0:
				o[i] = i
			case 1:
				o[i] = k - 1 - i
			default:
				o[i] = (i + 1) % k
			}
		}
		return o
	}
	longDur := func() int64 { return Pick(rng, []int64{0, hour, 24 * hour}) }
	good := func(key string, s sk, f string, q int) mStep {
		return mStep{Key: key, Signer: s.signer, CapSig: s.capSig, CapEnv: s.capEnv, Format: f, DurNs: longDur(),
			Meta: map[string]string{"stage": "prod", "build": fmt.Sprint(q)}, Why: "satisfies"}
	}
	// a signature that fails for a reason of its own
	bad := func(key string, s sk, f string, q int, reason string) mStep {
		st := good(key, s, f, q)
		st.Why = "fails:" + reason
		switch reason {
		case "stage-dev":
			st.Meta["stage"] = "dev"
		case "no-stage":
			delete(st.Meta, "stage")
		case "no-metadata":
			st.Meta = nil
		case "stage-other-value":
			st.Meta["stage"] = Pick(rng, []string{"prod ", "Prod", "", "production"})
		case "expired":
			st.DurNs = int64(time.Second)
		case "untrusted":
			st.Key, st.Signer, st.CapSig, st.CapEnv = "untrusted", "local", false, false
		}
		return st
	}
	metaReasons := []string{"stage-dev", "no-stage", "no-metadata", "stage-other-value"}
	build := func(family, repo string, k int, sat []int, mode string, same bool, max int) *c07Multi {
		n++
		key := multiKeys[n%len(multiKeys)]
		s := signerKinds[(n/2)%len(signerKinds)]
		f := formats[(n/3)%2]
		c := &c07Multi{Family: family, Repo: repo, Max: max, OneSigner: same, Order: perm(k, n)}
		if repo == "mock" {
			c.OCI = mockDesc()
		}
		isSat := map[int]bool{}
		for _, p := range sat {
			isSat[c.Order[p]] = true
		}
		for q := 0; q < k; q++ {
			kq, sq, fq := key, s, f
			if !same {
				kq = multiKeys[(n+q)%len(multiKeys)]
				sq = signerKinds[(n+q)%len(signerKinds)]
				if q%2 == 1 {
					fq = formats[(n/3+1)%2]
				}
			}
			if isSat[q] {
				c.Steps = append(c.Steps, good(kq, sq, fq, q))
				continue
			}
			reason := ""
			switch mode {
			case "meta":
				reason = metaReasons[(n+q)%len(metaReasons)]
			case "expiry":
				reason = "expired"
			default:
				reason = []string{"expired", metaReasons[(n+q)%len(metaReasons)], "untrusted"}[(n+q)%3]
				if same && reason == "untrusted" {
					reason = "expired"
				}
			}
			c.Steps = append(c.Steps, bad(kq, sq, fq, q, reason))
		}
		c.VMeta = map[string]string{"stage": "prod"}
		if mode == "expiry" && n%2 == 0 {
			c.VMeta = nil
		}
		return c
	}
	// F-M1: k signatures, exactly one satisfies, at every listing position; per-signature reason:
	// user metadata / expiry / mixed; same signer (one instance, one chain) or different signers
	for _, repo := range []string{"mock", "mem", "oci"} {
		for k := 2; k <= 4; k++ {
			for p := 0; p < k; p++ {
				for _, mode := range []string{"meta", "expiry", "mixed"} {
					for _, same := range []bool{true, false} {
						out = append(out, build("multi-one-satisfies", repo, k, []int{p}, mode, same, 10))
					}
				}
			}
		}
	}
	for _, repo := range []string{"mock", "mem", "oci"} {
		// F-M2: two satisfy (the first listed wins), none satisfies, the attempt limit at and below the
		// position of the satisfying signature, no signature at all, an illegal limit
		for _, same := range []bool{true, false} {
			out = append(out, build("multi-two-satisfy", repo, 3, []int{0, 2}, "meta", same, 10))
			out = append(out, build("multi-two-satisfy", repo, 3, []int{1, 2}, "expiry", same, 10))
			out = append(out, build("multi-none-satisfies", repo, 2, nil, "meta", same, 10))
			out = append(out, build("multi-none-satisfies", repo, 3, nil, "mixed", same, 10))
			out = append(out, build("multi-limit", repo, 3, []int{2}, "meta", same, 3))
			out = append(out, build("multi-limit", repo, 3, []int{2}, "mixed", same, 2))
			out = append(out, build("multi-limit", repo, 2, nil, "meta", same, 2))
			out = append(out, build("multi-limit", repo, 3, []int{1}, "expiry", same, 1))
		}
		out = append(out, build("multi-no-signature", repo, 0, nil, "meta", true, 10))
		out = append(out, build("multi-limit", repo, 2, []int{0}, "meta", true, 0))
		// F-M3: a SignOCI call in the middle is refused (reserved metadata key): nothing is stored for it
		c := build("multi-refused-step", repo, 3, []int{2}, "meta", true, 10)
		c.Steps[c.Order[1]].Meta = map[string]string{"io.cncf.notary.x": "reserved", "stage": "prod"}
		c.Steps[c.Order[1]].Why = "fails:signing-refused"
		out = append(out, c)
	}
	// F-M4 (mock): the reference resolves, at verification, to a descriptor that differs in fields the
	// signature does not cover / in the size
	for _, same := range []bool{true, false} {
		c := build("multi-vextras", "mock", 3, []int{1}, "meta", same, 10)
		c.VOCI = cloneDesc(c.OCI)
		c.VOCI.Anns = map[string]string{"added-later": "x"}
		c.VOCI.URLs = []string{"https://other.example/"}
		c.VOCI.AType = "application/vnd.other"
		out = append(out, c)
		c = build("multi-other-size", "mock", 2, []int{1}, "meta", same, 10)
		c.VOCI = cloneDesc(c.OCI)
		c.VOCI.Size++
		for i := range c.Steps {
			c.Steps[i].Why = "fails:descriptor"
		}
		out = append(out, c)
	}
	if tier == "thorough" {
		for i := 0; i < 400; i++ {
			k := 1 + rng.Intn(6)
			var sat []int
			for p := 0; p < k; p++ {
				if rng.Chance(1, 3) {
					sat = append(sat, p)
				}
			}
			c := build("multi-random", Pick(rng, []string{"mock", "mem", "oci"}), k, sat, Pick(rng, []string{"meta", "expiry", "mixed"}), rng.Bool(), Pick(rng, []int{1, 2, 3, 10, 10, 10}))
			Shuffle(rng, c.Order)
			out = append(out, c)
		}
	}
	return out
}

// multiSign: the sign phase of every wanted history (run before the other families, so that the
// signatures made with a one-second expiry have expired when the verify phase starts).
func multiSign(a *Args, e *env, w *CaseWriter) []*mRun {
	if a.Only >= 0 && (a.Only < multiBase || a.Only >= concBase) {
		return nil
	}
	ctx := context.Background()
	var runs []*mRun
	for i, c := range genMulti(a.Seed, a.Tier) {
		id := int64(multiBase + i)
		if !w.Want(id) {
			continue
		}
		m := &mRun{c: c, id: id}
		m.signAll(ctx, e, a)
		runs = append(runs, m)
	}
	return runs
}

// multiVerify: waits (if still necessary) until the short-lived signatures have expired, then
// verifies every history once.
func multiVerify(runs []*mRun, e *env, w *CaseWriter) {
	var last time.Time
	for _, m := range runs {
		if t := m.lastShortExpiry(); t.After(last) {
			last = t
		}
	}
	if d := time.Until(last.Add(30 * time.Millisecond)); !last.IsZero() && d > 0 {
		time.Sleep(d)
	}
	for _, m := range runs {
		m.verifyAndEmit(context.Background(), e, w)
	}
}

// ---------- timed family: one signature, the verification clock is an input ----------

const timedBase = 500000

// timedCases: short-lived signatures (1 s) verified after their expiry, and (2 s) before it; OCI and
// blob, every signer kind; plus requests that are refused before the expiry is looked at.
func timedCases(seed uint64, tier string) []*c07Case {
	rng := NewRng(seed*104729 + 5)
	g := &generator{rng: rng, tier: tier}
	var out []*c07Case
	n := 0
	mk := func(fam, kind string, s sk, after bool) *c07Case {
		n++
		c := g.base(fam, multiKeys[n%len(multiKeys)], formats[(n/2)%2], kind, s)
		c.Timed = true
		c.VMeta = nil
		if after {
			c.DurNs, c.WaitExpiry = int64(time.Second), true
		} else {
			c.DurNs = 2 * int64(time.Second)
		}
		return c
	}
	for _, kind := range []string{"oci", "blob"} {
		for _, s := range signerKinds {
			out = append(out, mk("expired", kind, s, true))
			out = append(out, mk("short-lived-not-expired", kind, s, false))
		}
		c := mk("expired-untrusted", kind, signerKinds[0], true)
		c.Trusted = false
		out = append(out, c)
		c = mk("expired-metadata-demanded", kind, signerKinds[1], true)
		c.Meta = map[string]string{"stage": "prod"}
		c.VMeta = map[string]string{"stage": "prod"}
		out = append(out, c)
		c = mk("expired-tampered", kind, signerKinds[2], true)
		if kind == "oci" {
			c.VOCI.Size++
		} else {
			c.VBlob.Extra = 1
		}
		out = append(out, c)
	}
	c := mk("expired-bad-media-type", "blob", signerKinds[0], true)
	c.VBlob.MT = "bad/"
	out = append(out, c)
	c = mk("expired-no-media-type", "blob", signerKinds[0], true)
	c.VBlob.MT = ""
	out = append(out, c)
	return out
}

// timedStart runs the timed cases in goroutines (each waits for its own signature to expire) while the
// other families run; the returned function waits for them and records the cases in id order.
func timedStart(a *Args, w *CaseWriter, exec func(*c07Case, int64, bool, *override) *execResult) func(add func(int64, *c07Case, *execResult)) {
	if a.Only >= 0 && (a.Only < timedBase || a.Only >= multiBase) {
		return func(func(int64, *c07Case, *execResult)) {}
	}
	cases := timedCases(a.Seed, a.Tier)
	results := make([]*execResult, len(cases))
	done := make(chan int, len(cases))
	started := 0
	for i, c := range cases {
		id := int64(timedBase + i)
		if !w.Want(id) {
			continue
		}
		started++
		go func(i int, c *c07Case, id int64) {
			defer func() {
				if r := recover(); r != nil {
					results[i] = &execResult{viol: []string{fmt.Sprint("panic in the library or the harness: ", r)}}
				}
				done <- i
			}()
			results[i] = exec(c, id, true, nil)
		}(i, c, id)
	}
	return func(add func(int64, *c07Case, *execResult)) {
		for ; started > 0; started-- {
			<-done
		}
		for i, c := range cases {
			if results[i] != nil {
				add(int64(timedBase+i), c, results[i])
			}
		}
	}
}
