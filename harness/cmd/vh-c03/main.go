package main

// C03 driver: runs the real verifier.Verify over placements of the signer's
// root / intermediate / leaf / twin / unrelated certificates into named trust
// stores of the three types, statement lists with duplicates, several types,
// unknown names and several statements, both schemes and both envelope
// formats, with an instrumented trust store (scripted, or the real
// truststore.NewX509TrustStore on a directory), and prints
// (input, observation) cases for C03_Model.

import (
	"bytes"
	"context"
	"crypto/x509"
	"encoding/json"
	"encoding/pem"
	"errors"
	"fmt"
	"os"
	"os/exec"
	"path/filepath"
	"regexp"
	"runtime"
	"sort"
	"strconv"
	"strings"
	"sync"
	"time"

	. "vh/kit"

	"github.com/notaryproject/notation-core-go/signature"
	"github.com/notaryproject/notation-go"
	"github.com/notaryproject/notation-go/dir"
	nlog "github.com/notaryproject/notation-go/log"
	"github.com/notaryproject/notation-go/verifier"
	"github.com/notaryproject/notation-go/verifier/trustpolicy"
	"github.com/notaryproject/notation-go/verifier/truststore"
	pluginfw "github.com/notaryproject/notation-plugin-framework-go/plugin"
	"github.com/opencontainers/go-digest"
	ocispec "github.com/opencontainers/image-spec/specs-go/v1"
)

func main() { Main("c03", runC03) }

// ---------- certificate pool: ids are decided by x509.Certificate.Equal ----------

type certPool struct {
	certs  []*x509.Certificate
	labels []string
}

func (p *certPool) id(c *x509.Certificate, label string) int64 {
	if c == nil {
		return 0
	}
	for i, x := range p.certs {
		if x.Equal(c) {
			return int64(i + 1)
		}
	}
	p.certs = append(p.certs, c)
	p.labels = append(p.labels, label)
	return int64(len(p.certs))
}

func (p *certPool) get(id int64) *x509.Certificate {
	if id == 0 {
		return nil // a nil element in the slice a store returns
	}
	return p.certs[id-1]
}

// ---------- recording trust store ----------

type recStore struct {
	inner truststore.X509TrustStore
	calls []StoreKey
}

// callLogKey: a concurrent call carries its own call log in its context
type callLogKey struct{}

func (r *recStore) GetCertificates(ctx context.Context, t truststore.Type, n string) ([]*x509.Certificate, error) {
	if l, ok := ctx.Value(callLogKey{}).(*[]StoreKey); ok {
		*l = append(*l, StoreKey{Type: t, Name: n})
		runtime.Gosched() // let another goroutine run inside the window
		defer runtime.Gosched()
		return r.inner.GetCertificates(ctx, t, n)
	}
	r.calls = append(r.calls, StoreKey{Type: t, Name: n})
	return r.inner.GetCertificates(ctx, t, n)
}

// yieldLogger is a context logger whose every call yields the processor
type yieldLogger struct{}

func (yieldLogger) Debug(args ...interface{})                 { runtime.Gosched() }
func (yieldLogger) Debugf(format string, args ...interface{}) { runtime.Gosched() }
func (yieldLogger) Debugln(args ...interface{})               { runtime.Gosched() }
func (yieldLogger) Info(args ...interface{})                  { runtime.Gosched() }
func (yieldLogger) Infof(format string, args ...interface{})  { runtime.Gosched() }
func (yieldLogger) Infoln(args ...interface{})                { runtime.Gosched() }
func (yieldLogger) Warn(args ...interface{})                  { runtime.Gosched() }
func (yieldLogger) Warnf(format string, args ...interface{})  { runtime.Gosched() }
func (yieldLogger) Warnln(args ...interface{})                { runtime.Gosched() }
func (yieldLogger) Error(args ...interface{})                 { runtime.Gosched() }
func (yieldLogger) Errorf(format string, args ...interface{}) { runtime.Gosched() }
func (yieldLogger) Errorln(args ...interface{})               { runtime.Gosched() }

// nestLogger is a context logger that counts its calls and, at the n-th one, runs fire()
// synchronously (a COMPLETE other verification on the same verifier) before returning
type nestLogger struct {
	count int
	n     int
	fire  func()
}

func (l *nestLogger) tick() {
	l.count++
	if l.count == l.n && l.fire != nil {
		f := l.fire
		l.fire = nil
		f()
	}
}
func (l *nestLogger) Debug(args ...interface{})                 { l.tick() }
func (l *nestLogger) Debugf(format string, args ...interface{}) { l.tick() }
func (l *nestLogger) Debugln(args ...interface{})               { l.tick() }
func (l *nestLogger) Info(args ...interface{})                  { l.tick() }
func (l *nestLogger) Infof(format string, args ...interface{})  { l.tick() }
func (l *nestLogger) Infoln(args ...interface{})                { l.tick() }
func (l *nestLogger) Warn(args ...interface{})                  { l.tick() }
func (l *nestLogger) Warnf(format string, args ...interface{})  { l.tick() }
func (l *nestLogger) Warnln(args ...interface{})                { l.tick() }
func (l *nestLogger) Error(args ...interface{})                 { l.tick() }
func (l *nestLogger) Errorf(format string, args ...interface{}) { l.tick() }
func (l *nestLogger) Errorln(args ...interface{})               { l.tick() }

// obsOpt: how a concurrent call is observed (own context, own call log, own sink)
type obsOpt struct {
	ctx   context.Context
	calls *[]StoreKey
	sink  func(in, obs string, nontriv bool, frame []string)
}

// concRecord is what the child process of the concurrency family reports for one call
type concRecord struct {
	In      string   `json:"in"`
	Obs     string   `json:"obs"`
	Nontriv bool     `json:"nontrivial"`
	Case    *c03Case `json:"case"`
	Anomaly string   `json:"anomaly,omitempty"`
	Frame   []string `json:"frame,omitempty"`
}

type storeFactsT struct {
	fs     []string
	errKey map[string]StoreKey
}

type concReport struct {
	Calls   int          `json:"calls"`
	Records []concRecord `json:"records"`
}

// ---------- environments ----------

type chainEnv struct {
	name    string
	chain   Chain
	ids     []int64           // chain as parsed back by notation-core-go, leaf first
	env     map[string][]byte // format|scheme|ts
	tokOK   map[string]bool
	expired bool
	twins   []int64
}

type storeDesc struct {
	Type  string  `json:"type"`
	Name  string  `json:"name"`
	Certs []int64 `json:"certs"` // 0 = a nil certificate pointer
	Fail  bool    `json:"fail,omitempty"`
	Kind  string  `json:"kind,omitempty"` // family fs-symlink: what the named store is on disk
	Nil   bool    `json:"nil_slice,omitempty"` // the store answers (nil, nil)
}

// pluginDesc: the signature names a verification plugin (critical extended attributes); the
// installed plugin reports Caps (in this order) and answers the verdicts below
type pluginDesc struct {
	Caps  []string `json:"capabilities"` // "TI", "Rev", "Gen" (a non-verification capability)
	TIOK  bool     `json:"trusted_identity_verdict"`
	RevOK bool     `json:"revocation_verdict"`
}

type stmtDesc struct {
	Name    string   `json:"name"`
	Scopes  []string `json:"scopes"`
	Stores  []string `json:"stores"`
	Level   string   `json:"level"`
	AuthLog bool     `json:"auth_log,omitempty"`
	RevOn   bool     `json:"revocation_not_skipped,omitempty"` // only with a plugin that has the revocation capability
	TSOpt   string   `json:"ts_opt,omitempty"`
	Global  bool     `json:"global_policy,omitempty"` // blob statements only
}

type c03Case struct {
	Family string   `json:"family"`
	Repo   string   `json:"repository,omitempty"` // artifact path of the reference (default TestScope)
	Before []string `json:"earlier_calls_on_same_verifier,omitempty"`
	// entry point VerifyBlob: the verifier also holds a blob document; this call names
	// PolicyName ("" = the global statement)
	Blob       bool        `json:"verify_blob,omitempty"`
	BlobStmts  []stmtDesc  `json:"blob_statements,omitempty"`
	PolicyName string      `json:"trust_policy_name,omitempty"`
	Chain      string      `json:"chain"`
	Format     string      `json:"format"`
	SA         bool        `json:"signing_authority"`
	TS         int         `json:"timestamp_variant"`
	Stmts      []stmtDesc  `json:"statements"`
	Stores     []storeDesc `json:"stores"`
	Real       bool        `json:"real_store,omitempty"`
	Layout     bool        `json:"fs_layout,omitempty"` // real directory store on a tree the driver built; Stores says what every named store IS (ground truth by construction, not asked from the store)
	Plugin     *pluginDesc `json:"verification_plugin,omitempty"`
	Mutate     []string    `json:"mutated_stores,omitempty"` // replaces the stores of statement "sel" after validation
	Labels     []string    `json:"labels,omitempty"`
	ChainID    []int64     `json:"chain_ids"`
	// observation
	Auth     string   `json:"obs_auth"`
	Calls    []string `json:"obs_calls"`
	Stop     bool     `json:"obs_stop"`
	VerifyEr string   `json:"obs_verify_error_class"`
}

var c03Types = []string{"ca", "signingAuthority", "tsa"}

const c03PluginName = "c03-verification-plugin"

var c03QuotedRe = regexp.MustCompile(`"(?:[^"\\]|\\.)*"`)

func allQuoted(msg string) []string {
	var out []string
	for _, q := range c03QuotedRe.FindAllString(msg, -1) {
		if s, err := strconv.Unquote(q); err == nil {
			out = append(out, s)
		}
	}
	return out
}

func runC03(a *Args) error {
	rng := NewRng(a.Seed)
	prelude := "From NV Require Import Base C03_Model C03_PluginModel.\nOpen Scope string_scope.\n"
	w := NewCaseWriter(a, "C03", prelude, "xcase", "xrun")
	w.Rule = "placements of the signing chain's root/intermediate/leaf, of twin certificates (same subject and key, other serial), of unrelated and TSA certificates into named stores of the types ca/signingAuthority/tsa; statement trust-store lists with duplicates, several types, unknown and failing stores; 1-4 statements with exact/wildcard/foreign/case-variant scopes; both schemes, both envelope formats, with and without a timestamp countersignature (in-process TSA). Families: exhaustive (all lists of length<=2 (thorough <=3) over {ca:a,signingAuthority:a,tsa:a,ca:b} x 5 root placements x 2 schemes x 4 failure patterns); random scenarios (right store / wrong type / unlisted / other statement / tsa / load error); real truststore.NewX509TrustStore on a directory (fs asked from the store itself); malformed lists injected after validation (correspondence only); rare-names (store names differing by case only, leading dots, type words as names; empty vs nil slice vs nil element answers); positions (the trusted store at every list position x 13 kinds of odd element at every other position, matched chain certificate and its place inside the store rotating); statement-positions (all 24 orders of exact/wildcard/foreign/case-variant statements x which one lists the trusted store x 7 references incl. upper-case host and port); history (ONE verifier and ONE store object, 2-4 Verify calls with the store content, scheme, chain or repository changed in between; every operator after every start state in both directions plus random sequences; each step its own case); namespaces (one verifier holding an OCI and a blob document whose statements share names, Verify and VerifyBlob alternating); blob-selection (three blob statements named P / p / P2 in every order, the trusted store listed by one of them, the global flag on none or each, called by each name, by a name nobody has, and without a name); plugin (the signature names a verification plugin: capabilities none / non-verification / TI / Rev / TI+Rev / Rev+TI x trusted-identity verdict x level strict / audit / strict with authenticity=log / permissive x trust situation anchored / not anchored / other-type store only / unloadable listed store with the good store at every position x both schemes; observed: the authenticity result the outcome FINALLY reports); fs-symlink (the REAL directory store on a tree built by the driver: the listed store of the scheme's type is a real directory / a symlink to a store of the other type, to a tsa store, to an unlisted store of the same type, to a directory outside the tree (relative, absolute) / a real directory with a symlinked certificate file / missing, alone and at both positions next to a loadable store, before the real store, after a tsa store; the model's trust store is the CONSTRUCTION (only a real directory of that type loads), not what the store answers); nested (ONE verifier, no goroutines: verification A, already verified once on that verifier, runs with a context logger that at its n-th log call - every n = 1..K, K = the log calls of that Verify - runs a COMPLETE verification B scoped to another statement with other trust stores on the same verifier and then lets A continue; A and B each judged on their own input with their own call log; both roles, both schemes, B = A's reference as control). Each case runs the real verifier.Verify or VerifyBlob. non-trivial = an authenticity result exists and some chain certificate sits in some store; distinct = distinct canonical inputs"
	w.Assumptions = []string{
		"certificate identity is x509.Certificate.Equal (ids assigned by Equal); notation-core-go VerifyAuthenticity is an input-independent dependency (some chain certificate Equal some trust certificate)",
		"the trust store is a function of (type, name) during one Verify; for the real directory store its answers are obtained by direct calls before Verify",
		"i_token is asked from tspclient-go (ParseSignedToken, Info, Validate) and chain expiry from the certificates; trusted identities are '*', signatures are intact and unexpired; a verification plugin is named only in family plugin (installed, valid version, answers every capability asked; no tsa store listed and a live chain, so that expiry and timestamp steps pass - checked on the outcome)",
		"VerifyBlob cases are rendered as scoped statements (scope = statement name, the global statement = \"*\" when no policy is named, repository = policy name); coq/props/C03_WithC08.v proves that rendering selection-preserving w.r.t. C08's model of BlobDocument.GetApplicableTrustPolicy / GetGlobalTrustPolicy when no blob statement is named \"*\" or \"\" (the generator never does)",
		"an unrecognized signing scheme cannot reach loadX509TrustStores through Verify (notation-core-go rejects the envelope); that branch is covered by the theorem only",
	}
	now := time.Now()
	pool := &certPool{}
	desc := ocispec.Descriptor{MediaType: "application/vnd.oci.image.manifest.v1+json", Digest: digest.Digest(strings.TrimPrefix(TestRef, TestScope+"@")), Size: 528,
		Annotations: map[string]string{"c03.meta": "v", "c03.other": "w"}}

	// TSA
	tsaRoot := Mint(CertSpec{Subject: Name("c03 tsa root"), NotBefore: now.Add(-400 * time.Hour), NotAfter: now.Add(400 * time.Hour), IsCA: true}, nil)
	tsaLeaf := Mint(CertSpec{Subject: Name("c03 tsa leaf"), NotBefore: now.Add(-400 * time.Hour), NotAfter: now.Add(400 * time.Hour), TSA: true}, tsaRoot)
	tsaRoot2 := Mint(CertSpec{Subject: Name("c03 tsa root2"), NotBefore: now.Add(-400 * time.Hour), NotAfter: now.Add(400 * time.Hour), IsCA: true}, nil)
	idTSARoot := pool.id(tsaRoot.C, "tsa root")
	idTSARoot2 := pool.id(tsaRoot2.C, "tsa root2")
	idTSALeaf := pool.id(tsaLeaf.C, "tsa leaf")
	unrelRoot := Mint(CertSpec{Subject: Name("c03 unrelated root"), IsCA: true}, nil)
	unrelLeaf := Mint(CertSpec{Subject: Name("c03 unrelated self-signed"), Leaf: true}, nil)
	idUnrelRoot := pool.id(unrelRoot.C, "unrelated root")
	idUnrelLeaf := pool.id(unrelLeaf.C, "unrelated leaf")

	schemes := []signature.SigningScheme{signature.SigningSchemeX509, signature.SigningSchemeX509SigningAuthority}
	formats := []string{MtJWS, MtCOSE}
	mkEnv := func(name string, n int, nb, na, signAt time.Time) *chainEnv {
		e := &chainEnv{name: name, env: map[string][]byte{}, tokOK: map[string]bool{}}
		e.chain = NewChain("c03"+name, n, nb, na)
		for _, f := range formats {
			for _, sc := range schemes {
				b, err := SignEnvelope(EnvSpec{Format: f, Chain: e.chain, Payload: PayloadFor(desc), Scheme: sc, SigningTime: signAt})
				if err != nil {
					panic(err)
				}
				content, err := CoreVerify(f, b)
				if err != nil {
					panic(fmt.Sprintf("c03: core rejects fresh envelope: %v", err))
				}
				if e.ids == nil {
					for i, c := range content.SignerInfo.CertificateChain {
						e.ids = append(e.ids, pool.id(c, fmt.Sprintf("%s chain[%d]", name, i)))
					}
				}
				key := f + "|" + string(sc) + "|"
				e.env[key+"0"] = b
				if name == "n3" || name == "n2" {
					// the same signature naming a verification plugin (no countersignature)
					pb, err := SignEnvelope(EnvSpec{Format: f, Chain: e.chain, Payload: PayloadFor(desc), Scheme: sc, SigningTime: signAt,
						ExtAttrs: []signature.Attribute{
							{Key: "io.cncf.notary.verificationPlugin", Critical: true, Value: c03PluginName},
							{Key: "io.cncf.notary.verificationPluginMinVersion", Critical: true, Value: "1.0.0"}}})
					if err != nil {
						panic(err)
					}
					if _, err := CoreVerify(f, pb); err != nil {
						panic(fmt.Sprintf("c03: core rejects fresh plugin envelope: %v", err))
					}
					e.env[key+"0p"] = pb
					e.tokOK[key+"0p"] = false
				}
				sig := content.SignerInfo.Signature
				for v, msg := range map[int][]byte{1: sig, 2: append([]byte("not the signature"), sig...)} {
					tok := makeToken(msg, signAt.Add(time.Minute), tsaLeaf, []*x509.Certificate{tsaRoot.C})
					b2, err := attachToken(f, b, tok)
					if err != nil {
						panic(err)
					}
					c2, err := CoreVerify(f, b2)
					if err != nil {
						// the dependency does not accept this variant: fall back to the plain envelope
						e.env[key+strconv.Itoa(v)] = b
						e.tokOK[key+strconv.Itoa(v)] = false
						continue
					}
					e.env[key+strconv.Itoa(v)] = b2
					e.tokOK[key+strconv.Itoa(v)] = c03TokenOK(c2.SignerInfo.UnsignedAttributes.TimestampSignature, c2.SignerInfo.Signature)
				}
				e.tokOK[key+"0"] = false
			}
		}
		for _, c := range e.chain.Certs() {
			if time.Now().After(c.NotAfter) {
				e.expired = true
			}
		}
		// twins: same subject and key, different serial number (different DER)
		last := len(e.chain) - 1
		for i := last; i >= 0; i-- {
			x := e.chain[i]
			spec := CertSpec{Subject: x.C.Subject, RawSubject: x.C.RawSubject, NotBefore: nb, NotAfter: na, Key: x.Key, IsCA: x.C.IsCA, Leaf: !x.C.IsCA}
			var parent *Cert
			if i < last {
				parent = e.chain[i+1]
			}
			tw := Mint(spec, parent)
			if tw.C.Equal(x.C) || tw.C.Subject.String() != x.C.Subject.String() {
				panic("c03: twin construction")
			}
			e.twins = append(e.twins, pool.id(tw.C, fmt.Sprintf("%s twin of chain[%d]", name, i)))
		}
		return e
	}
	live := func(name string, n int) *chainEnv {
		return mkEnv(name, n, now.Add(-48*time.Hour), now.Add(48*time.Hour), now.Add(-time.Hour))
	}
	envs := map[string]*chainEnv{
		"n3": live("n3", 3), "n1": live("n1", 1), "n2": live("n2", 2), "n4": live("n4", 4),
		"x3": mkEnv("x3", 3, now.Add(-96*time.Hour), now.Add(-2*time.Hour), now.Add(-3*time.Hour)),
	}
	envNames := []string{"n3", "n3", "n3", "n3", "n2", "n1", "n4", "x3"}
	w.Set("certificate_pool", pool.labels)

	// ---------- the real directory store ----------
	realRoot := filepath.Join(a.Out, "realstore")
	writeCert := func(t, n, file string, pemEnc bool, ids ...int64) {
		d := filepath.Join(realRoot, "truststore", "x509", t, n)
		if err := os.MkdirAll(d, 0o755); err != nil {
			panic(err)
		}
		if file == "" {
			return
		}
		var b []byte
		for _, id := range ids {
			if pemEnc {
				b = append(b, pem.EncodeToMemory(&pem.Block{Type: "CERTIFICATE", Bytes: pool.get(id).Raw})...)
			} else {
				b = append(b, pool.get(id).Raw...)
			}
		}
		if err := os.WriteFile(filepath.Join(d, file), b, 0o644); err != nil {
			panic(err)
		}
	}
	n3, n2, n1 := envs["n3"], envs["n2"], envs["n1"]
	writeCert("ca", "a", "root.pem", true, n3.ids[2])
	writeCert("ca", "b", "u.crt", false, idUnrelRoot)
	writeCert("ca", "b", "twin.pem", true, n3.twins[0])
	writeCert("ca", "c", "inter.pem", true, n3.ids[1])
	writeCert("ca", "empty", "", true)
	writeCert("ca", "bad", "leaf.pem", true, n3.ids[0]) // neither CA nor self-signed: the store refuses to load
	writeCert("ca", "multi", "two.pem", true, idUnrelRoot, n2.ids[1])
	writeCert("ca", "self", "leaf.crt", false, n1.ids[0])
	writeCert("ca", "d", "root2.pem", true, n2.ids[1])
	writeCert("signingAuthority", "a", "u.pem", true, idUnrelRoot)
	writeCert("signingAuthority", "b", "root.pem", true, n3.ids[2])
	writeCert("signingAuthority", "c", "root2.pem", true, n2.ids[1])
	writeCert("signingAuthority", "self", "leaf.crt", false, n1.ids[0])
	writeCert("tsa", "a", "tsa.pem", true, idTSARoot)
	writeCert("tsa", "b", "root.pem", true, n3.ids[2])
	writeCert("tsa", "c", "root2.pem", true, n2.ids[1], idTSARoot2)
	writeCert("tsa", "bad", "leaf.pem", true, idTSALeaf) // not a root: refused
	writeCert("ca", ".dot", "root.pem", true, n3.ids[2])
	writeCert("ca", "A", "u.pem", true, idUnrelRoot) // differs from ca/a by case only
	writeCert("signingAuthority", "A", "root.pem", true, n3.ids[2])
	writeCert("signingAuthority", "...", "root2.pem", true, n2.ids[1])
	writeCert("ca", "tsa", "root2.pem", true, n2.ids[1])
	os.Symlink(filepath.Join(realRoot, "truststore", "x509", "ca", "a"), filepath.Join(realRoot, "truststore", "x509", "ca", "link"))
	os.WriteFile(filepath.Join(realRoot, "truststore", "x509", "ca", "file"), []byte("x"), 0o644)
	realNames := []string{"a", "b", "c", "d", "empty", "bad", "multi", "self", "link", "file", "nonexistent", ".dot", "A", "...", "tsa"}
	realInner := truststore.NewX509TrustStore(dir.NewSysFS(realRoot))

	// ---------- a second real tree: named stores that are symbolic links (family fs-symlink) ----------
	layoutRoot := filepath.Join(a.Out, "layoutstore")
	lx := filepath.Join(layoutRoot, "truststore", "x509")
	lwrite := func(dirPath, file string, ids ...int64) {
		if err := os.MkdirAll(dirPath, 0o755); err != nil {
			panic(err)
		}
		var b []byte
		for _, cid := range ids {
			b = append(b, pem.EncodeToMemory(&pem.Block{Type: "CERTIFICATE", Bytes: pool.get(cid).Raw})...)
		}
		if err := os.WriteFile(filepath.Join(dirPath, file), b, 0o644); err != nil {
			panic(err)
		}
	}
	lsym := func(target, link string) {
		if err := os.MkdirAll(filepath.Dir(link), 0o755); err != nil {
			panic(err)
		}
		if err := os.Symlink(target, link); err != nil {
			panic(err)
		}
	}
	layoutTrust := n3.ids[2]
	var layoutStores []storeDesc
	lwrite(filepath.Join(layoutRoot, "outside"), "root.pem", layoutTrust)
	lwrite(filepath.Join(lx, "tsa", "roots"), "root.pem", layoutTrust, idTSARoot)
	layoutStores = append(layoutStores, storeDesc{Type: "tsa", Name: "roots", Certs: []int64{layoutTrust, idTSARoot}, Kind: "real directory"})
	for _, t := range []string{"ca", "signingAuthority"} {
		o := map[string]string{"ca": "signingAuthority", "signingAuthority": "ca"}[t]
		lwrite(filepath.Join(lx, t, "real"), "root.pem", layoutTrust)
		lwrite(filepath.Join(lx, t, "unlisted"), "root.pem", layoutTrust)
		lwrite(filepath.Join(lx, t, "noise"), "u.pem", idUnrelRoot)
		lsym(filepath.Join("..", o, "real"), filepath.Join(lx, t, "to-othertype"))
		lsym(filepath.Join("..", "tsa", "roots"), filepath.Join(lx, t, "to-tsa"))
		lsym("unlisted", filepath.Join(lx, t, "to-unlisted"))
		lsym(filepath.Join("..", "..", "..", "outside"), filepath.Join(lx, t, "to-outside-rel"))
		lsym(filepath.Join(layoutRoot, "outside"), filepath.Join(lx, t, "to-outside-abs"))
		if err := os.MkdirAll(filepath.Join(lx, t, "filelink"), 0o755); err != nil {
			panic(err)
		}
		lsym(filepath.Join("..", "real", "root.pem"), filepath.Join(lx, t, "filelink", "root.pem"))
		layoutStores = append(layoutStores,
			storeDesc{Type: t, Name: "real", Certs: []int64{layoutTrust}, Kind: "real directory"},
			storeDesc{Type: t, Name: "unlisted", Certs: []int64{layoutTrust}, Kind: "real directory (never listed)"},
			storeDesc{Type: t, Name: "noise", Certs: []int64{idUnrelRoot}, Kind: "real directory"},
			storeDesc{Type: t, Name: "to-othertype", Fail: true, Kind: "symlink to " + o + "/real"},
			storeDesc{Type: t, Name: "to-tsa", Fail: true, Kind: "symlink to tsa/roots"},
			storeDesc{Type: t, Name: "to-unlisted", Fail: true, Kind: "symlink to " + t + "/unlisted"},
			storeDesc{Type: t, Name: "to-outside-rel", Fail: true, Kind: "relative symlink to a directory outside the trust store tree"},
			storeDesc{Type: t, Name: "to-outside-abs", Fail: true, Kind: "absolute symlink to a directory outside the trust store tree"},
			storeDesc{Type: t, Name: "filelink", Fail: true, Kind: "real directory whose certificate file is a symlink"},
			storeDesc{Type: t, Name: "missing", Fail: true, Kind: "no such directory"})
	}
	layoutInner := truststore.NewX509TrustStore(dir.NewSysFS(layoutRoot))

	// ---------- running one case ----------
	var id int64
	digestPart := strings.TrimPrefix(TestRef, TestScope)
	type session struct {
		v      notation.Verifier
		bv     notation.BlobVerifier
		rec    *recStore
		inner  truststore.X509TrustStore
		mock   *MockStore
		mgr    *MockManager
		selIdx int
		doc    *trustpolicy.OCIDocument
		bdoc   *trustpolicy.BlobDocument
		// caller-owned option maps; a history hands the SAME objects to consecutive calls
		userMeta  map[string]string
		pluginCfg map[string]string
		shared    bool
		facts     *storeFactsT // set when the store content is fixed for the whole session (concurrency family)
	}
	sentinel := unrelLeaf.C // sits in the spare capacity behind every slice the scripted store hands out
	fillMock := func(m *MockStore, stores []storeDesc) {
		for k := range m.Certs {
			delete(m.Certs, k)
		}
		for k := range m.Fail {
			delete(m.Fail, k)
		}
		for _, s := range stores {
			k := StoreKey{Type: truststore.Type(s.Type), Name: s.Name}
			if s.Nil {
				m.Certs[k] = nil
			} else {
				// spare capacity with a sentinel: an append in place by the library is visible
				back := make([]*x509.Certificate, 0, len(s.Certs)+1)
				for _, cid := range s.Certs {
					back = append(back, pool.get(cid))
				}
				back = append(back, sentinel)
				m.Certs[k] = back[:len(s.Certs)]
			}
			if s.Fail {
				m.Fail[k] = true
			}
		}
	}
	setup := func(my int64, c *c03Case) *session {
		ss := &session{selIdx: -1}
		if c.Layout {
			ss.inner = layoutInner
		} else if c.Real {
			ss.inner = realInner
		} else {
			ss.mock = NewMockStore()
			fillMock(ss.mock, c.Stores)
			ss.inner = ss.mock
		}
		ss.rec = &recStore{inner: ss.inner}
		doc := &trustpolicy.OCIDocument{Version: "1.0"}
		for i, s := range c.Stmts {
			var override map[trustpolicy.ValidationType]trustpolicy.ValidationAction
			if s.Level != "skip" {
				override = map[trustpolicy.ValidationType]trustpolicy.ValidationAction{}
				if !s.RevOn {
					override[trustpolicy.TypeRevocation] = trustpolicy.ActionSkip
				}
				if s.AuthLog {
					override[trustpolicy.TypeAuthenticity] = trustpolicy.ActionLog
				}
			}
			p := trustpolicy.OCITrustPolicy{Name: s.Name, RegistryScopes: s.Scopes,
				SignatureVerification: trustpolicy.SignatureVerification{VerificationLevel: s.Level, Override: override, VerifyTimestamp: trustpolicy.TimestampOption(s.TSOpt)},
				TrustStores:           append([]string(nil), s.Stores...)}
			if s.Level != "skip" {
				p.TrustedIdentities = []string{"*"}
			}
			doc.TrustPolicies = append(doc.TrustPolicies, p)
			if s.Name == "sel" {
				ss.selIdx = i
			}
		}
		var bdoc *trustpolicy.BlobDocument
		if len(c.BlobStmts) > 0 {
			bdoc = &trustpolicy.BlobDocument{Version: "1.0"}
			for _, s := range c.BlobStmts {
				override := map[trustpolicy.ValidationType]trustpolicy.ValidationAction{trustpolicy.TypeRevocation: trustpolicy.ActionSkip}
				if s.AuthLog {
					override[trustpolicy.TypeAuthenticity] = trustpolicy.ActionLog
				}
				bdoc.TrustPolicies = append(bdoc.TrustPolicies, trustpolicy.BlobTrustPolicy{Name: s.Name, GlobalPolicy: s.Global,
					SignatureVerification: trustpolicy.SignatureVerification{VerificationLevel: s.Level, Override: override, VerifyTimestamp: trustpolicy.TimestampOption(s.TSOpt)},
					TrustStores:           append([]string(nil), s.Stores...), TrustedIdentities: []string{"*"}})
			}
		}
		ss.mgr = &MockManager{Plugins: map[string]*MockPlugin{}}
		v, err := verifier.NewVerifierWithOptions(ss.rec, verifier.VerifierOptions{OCITrustPolicy: doc, BlobTrustPolicy: bdoc, PluginManager: ss.mgr})
		if err != nil {
			panic(fmt.Sprintf("c03: case %d: generated policy rejected: %v", my, err))
		}
		ss.v, ss.bv, ss.doc, ss.bdoc = v, v, doc, bdoc
		if c.Mutate != nil && ss.selIdx >= 0 {
			doc.TrustPolicies[ss.selIdx].TrustStores = append([]string(nil), c.Mutate...)
		}
		return ss
	}
	// what the store answers, asked from the store itself (fs of the model, and the error
	// text that identifies a failing store)
	storeFacts := func(c *c03Case, inner truststore.X509TrustStore, finalStores func(int) []string) ([]string, map[string]StoreKey) {
		// what the store answers, asked from the store itself (fs of the model, and the
		// error text that identifies a failing store)
		typeSet := map[string]bool{"ca": true, "signingAuthority": true, "tsa": true}
		nameSet := map[string]bool{}
		for i := range c.Stmts {
			for _, s := range finalStores(i) {
				if t, n, ok := strings.Cut(s, ":"); ok {
					typeSet[t] = true
					nameSet[n] = true
				}
			}
		}
		for _, bs := range c.BlobStmts {
			for _, s := range bs.Stores {
				if t, n, ok := strings.Cut(s, ":"); ok {
					typeSet[t] = true
					nameSet[n] = true
				}
			}
		}
		for _, s := range c.Stores {
			typeSet[s.Type] = true
			nameSet[s.Name] = true
		}
		if c.Real {
			for _, n := range realNames {
				nameSet[n] = true
			}
		}
		var tys, nms []string
		for t := range typeSet {
			tys = append(tys, t)
		}
		for n := range nameSet {
			nms = append(nms, n)
		}
		sort.Strings(tys)
		sort.Strings(nms)
		errKey := map[string]StoreKey{}
		var fsTerms []string
		for _, t := range tys {
			for _, n := range nms {
				certs, err := inner.GetCertificates(context.Background(), truststore.Type(t), n)
				if err != nil {
					if _, dup := errKey[err.Error()]; dup {
						errKey[err.Error()] = StoreKey{Type: "?", Name: "ambiguous"}
					} else {
						errKey[err.Error()] = StoreKey{Type: truststore.Type(t), Name: n}
					}
					// missing entries of the association list mean LoadError; print some explicitly
					if (len(t)+len(n))%2 == 0 {
						fsTerms = append(fsTerms, CPair(CPair(CStr(t), CStr(n)), "LoadError"))
					}
					continue
				}
				ids := make([]string, len(certs))
				for i, x := range certs {
					ids[i] = CN(pool.id(x, "from store"))
				}
				fsTerms = append(fsTerms, CPair(CPair(CStr(t), CStr(n)), CApp("Certs", CList(ids))))
			}
		}
		return fsTerms, errKey
	}
	observe := func(my int64, c *c03Case, ss *session, emit bool, opt *obsOpt) {
		e := envs[c.Chain]
		c.ChainID = e.ids
		scheme := schemes[0]
		if c.SA {
			scheme = schemes[1]
		}
		if c.Repo == "" {
			c.Repo = TestScope
		}
		ekey := c.Format + "|" + string(scheme) + "|" + strconv.Itoa(c.TS)
		var plug *MockPlugin
		if opt == nil {
			ss.mgr.Plugins = map[string]*MockPlugin{}
		}
		if c.Plugin != nil {
			if c.TS != 0 || e.env[ekey+"p"] == nil || opt != nil {
				panic("c03: plugin cases use the envelopes without countersignature of chains n3 / n2, sequentially")
			}
			ekey += "p"
			var caps []pluginfw.Capability
			vr := map[pluginfw.Capability]*pluginfw.VerificationResult{}
			for _, pc := range c.Plugin.Caps {
				switch pc {
				case "TI":
					caps = append(caps, pluginfw.CapabilityTrustedIdentityVerifier)
					vr[pluginfw.CapabilityTrustedIdentityVerifier] = &pluginfw.VerificationResult{Success: c.Plugin.TIOK, Reason: "mock identity verdict"}
				case "Rev":
					caps = append(caps, pluginfw.CapabilityRevocationCheckVerifier)
					vr[pluginfw.CapabilityRevocationCheckVerifier] = &pluginfw.VerificationResult{Success: c.Plugin.RevOK, Reason: "mock revocation verdict"}
				default:
					caps = append(caps, pluginfw.CapabilitySignatureGenerator)
				}
			}
			plug = &MockPlugin{
				Meta: &pluginfw.GetMetadataResponse{Name: c03PluginName, Version: "1.2.0", Capabilities: caps, Description: "d", URL: "u", SupportedContractVersions: []string{"1.0"}},
				Resp: &pluginfw.VerifySignatureResponse{VerificationResults: vr},
			}
			ss.mgr.Plugins[c03PluginName] = plug
		}
		inner, rec, selIdx, v := ss.inner, ss.rec, ss.selIdx, ss.v
		vctx := context.Background()
		if opt == nil {
			rec.calls = nil
		} else {
			vctx = opt.ctx
		}
		finalStores := func(i int) []string {
			if i == selIdx && c.Mutate != nil {
				return c.Mutate
			}
			return c.Stmts[i].Stores
		}
		var fsTerms []string
		var errKey map[string]StoreKey
		if ss.facts != nil {
			fsTerms, errKey = ss.facts.fs, ss.facts.errKey
		} else if c.Layout {
			// ground truth by construction: a named store loads iff it is a REAL directory of its type
			// holding regular certificate files; the store is asked only for the text of its errors
			errKey = map[string]StoreKey{}
			for _, sd := range c.Stores {
				if sd.Fail {
					fsTerms = append(fsTerms, CPair(CPair(CStr(sd.Type), CStr(sd.Name)), "LoadError"))
					if _, err := inner.GetCertificates(context.Background(), truststore.Type(sd.Type), sd.Name); err != nil {
						errKey[err.Error()] = StoreKey{Type: truststore.Type(sd.Type), Name: sd.Name}
					}
					continue
				}
				ids := make([]string, len(sd.Certs))
				for i, x := range sd.Certs {
					ids[i] = CN(x)
				}
				fsTerms = append(fsTerms, CPair(CPair(CStr(sd.Type), CStr(sd.Name)), CApp("Certs", CList(ids))))
			}
		} else {
			fsTerms, errKey = storeFacts(c, inner, finalStores)
		}
		// run
		// FRAME CHECK: everything the caller owns and hands to the library by reference is
		// snapshotted deeply before the call and compared after it
		if ss.userMeta == nil || !ss.shared {
			ss.userMeta = map[string]string{"c03.meta": "v"}
			ss.pluginCfg = map[string]string{"cfg": "x", "other": "y"}
		}
		type storeSnap struct {
			elems []*x509.Certificate
			full  []*x509.Certificate
		}
		snapDoc, _ := json.Marshal(ss.doc)
		snapBDoc, _ := json.Marshal(ss.bdoc)
		snapDesc, _ := json.Marshal(desc)
		snapEnv := append([]byte(nil), e.env[ekey]...)
		snapMeta, _ := json.Marshal(ss.userMeta)
		snapCfg, _ := json.Marshal(ss.pluginCfg)
		snapStores := map[StoreKey]storeSnap{}
		if ss.mock != nil {
			for k, sl := range ss.mock.Certs {
				snapStores[k] = storeSnap{elems: append([]*x509.Certificate(nil), sl...), full: append([]*x509.Certificate(nil), sl[:cap(sl)]...)}
			}
		}
		var poolRaw [][]byte
		for _, pc := range pool.certs {
			poolRaw = append(poolRaw, pc.Raw)
		}
		opts := notation.VerifierVerifyOptions{ArtifactReference: c.Repo + digestPart, SignatureMediaType: c.Format, PluginConfig: ss.pluginCfg, UserMetadata: ss.userMeta}
		var outcome *notation.VerificationOutcome
		var verr error
		if c.Blob {
			gen := func(digest.Algorithm) (ocispec.Descriptor, error) { return desc, nil }
			outcome, verr = ss.bv.VerifyBlob(vctx, gen, e.env[ekey], notation.BlobVerifierVerifyOptions{SignatureMediaType: c.Format,
				PluginConfig: ss.pluginCfg, UserMetadata: ss.userMeta, TrustPolicyName: c.PolicyName})
		} else {
			outcome, verr = v.Verify(vctx, desc, e.env[ekey], opts)
		}
		madeCalls := rec.calls
		if opt != nil {
			madeCalls = *opt.calls
		}
		var frame []string
		if d, _ := json.Marshal(ss.doc); !bytes.Equal(d, snapDoc) {
			frame = append(frame, "trust policy document")
		}
		if d, _ := json.Marshal(ss.bdoc); !bytes.Equal(d, snapBDoc) {
			frame = append(frame, "blob trust policy document")
		}
		if d, _ := json.Marshal(desc); !bytes.Equal(d, snapDesc) {
			frame = append(frame, "target descriptor")
		}
		if !bytes.Equal(snapEnv, e.env[ekey]) {
			frame = append(frame, "signature envelope bytes")
		}
		if d, _ := json.Marshal(ss.userMeta); !bytes.Equal(d, snapMeta) {
			frame = append(frame, "VerifierVerifyOptions.UserMetadata")
		}
		if d, _ := json.Marshal(ss.pluginCfg); !bytes.Equal(d, snapCfg) {
			frame = append(frame, "VerifierVerifyOptions.PluginConfig")
		}
		if ss.mock != nil {
			changed := len(ss.mock.Certs) != len(snapStores)
			for k, sn := range snapStores {
				sl, ok := ss.mock.Certs[k]
				if !ok || len(sl) != len(sn.elems) || cap(sl) != len(sn.full) {
					changed = true
					continue
				}
				for j, x := range sl[:cap(sl)] {
					if x != sn.full[j] {
						changed = true
					}
				}
			}
			if changed {
				frame = append(frame, "certificate slice returned by the trust store")
			}
		}
		for j, pc := range pool.certs {
			if j < len(poolRaw) && (len(pc.Raw) != len(poolRaw[j]) || (len(pc.Raw) > 0 && &pc.Raw[0] != &poolRaw[j][0])) {
				frame = append(frame, "certificate object of the trust store")
				break
			}
		}
		if !emit {
			return
		}
		if opt == nil {
			for _, what := range frame {
				w.ImplViolation(my, "library mutated caller-owned "+what, c, "frame:"+strings.ReplaceAll(what, " ", "-"))
			}
			w.Count("frame_check", fmt.Sprint(len(frame) == 0))
			w.Count("shared_option_objects", fmt.Sprint(ss.shared))
		}
		// observation
		authTerm := "None"
		c.Auth = "absent"
		var authErr error
		if r, n := FindResult(outcome, trustpolicy.TypeAuthenticity); r != nil {
			authErr = r.Error
			var sae *signature.SignatureAuthenticityError
			var inc notation.ErrorVerificationInconclusive
			var tse truststore.TrustStoreError
			switch {
			case n > 1:
				c.Auth, authTerm = "duplicated", "(Some AOtherErr)"
			case r.Error == nil:
				c.Auth, authTerm = "APass", "(Some APass)"
			case c.Plugin != nil && strings.Contains(r.Error.Error(), "trusted identify verification by plugin"):
				c.Auth, authTerm = "FPluginIdentity", "FPluginIdentity"
			case errKey[r.Error.Error()].Type != "" && errKey[r.Error.Error()].Type != "?":
				k := errKey[r.Error.Error()]
				c.Auth, authTerm = "ALoad:"+string(k.Type)+":"+k.Name, CSome(CApp("ALoad", CStr(string(k.Type)), CStr(k.Name)))
			case errors.As(r.Error, &sae):
				c.Auth, authTerm = "ANoMatch", "(Some ANoMatch)"
			case errors.As(r.Error, &inc) && strings.Contains(r.Error.Error(), "no trusted certificates are found"):
				c.Auth, authTerm = "AEmpty", "(Some AEmpty)"
			case errors.As(r.Error, &tse) && strings.Contains(r.Error.Error(), "is missing separator in trust store value"):
				q := allQuoted(r.Error.Error())
				val := ""
				if len(q) > 0 {
					val = q[len(q)-1]
				}
				c.Auth, authTerm = "AFormat:"+val, CSome(CApp("AFormat", CStr(val)))
			case errors.As(r.Error, &tse) && strings.Contains(r.Error.Error(), "unrecognized signing scheme"):
				c.Auth, authTerm = "AScheme", "(Some AScheme)"
			default:
				c.Auth, authTerm = "AOtherErr:"+Short(r.Error.Error(), 80), "(Some AOtherErr)"
			}
		}
		var callTerms []string
		for _, k := range madeCalls {
			callTerms = append(callTerms, CPair(CStr(string(k.Type)), CStr(k.Name)))
			c.Calls = append(c.Calls, string(k.Type)+":"+k.Name)
		}
		c.Stop = verr != nil && authErr != nil && verr.Error() == authErr.Error()
		c.VerifyEr = ErrClass(verr)
		// input
		sch := "SX509"
		if c.SA {
			sch = "SSA"
		}
		var stmtTerms []string
		stmtsOfEntry, repoOfEntry := c.Stmts, c.Repo
		if c.Blob {
			// the statement applicable to this entry point: by name among the blob statements
			// (rendered as scope = name), or the global one (rendered as the wildcard)
			stmtsOfEntry, repoOfEntry = nil, c.PolicyName
			// (this rendering is [enc] of coq/theories/C03_WithC08.v; it is selection-preserving
			// only if no blob statement is named "*" or "", and the policy name is not blank)
			if c.PolicyName != "" && strings.TrimSpace(c.PolicyName) == "" {
				panic("c03: blank policy names are outside the rendering of blob statements")
			}
			for _, s := range c.BlobStmts {
				if s.Name == "*" || s.Name == "" {
					panic("c03: a blob statement named \"*\" or \"\" is outside the rendering of blob statements")
				}
				s.Scopes = []string{s.Name}
				if c.PolicyName == "" && s.Global {
					s.Scopes = []string{"*"}
				}
				stmtsOfEntry = append(stmtsOfEntry, s)
			}
		}
		for i, s := range stmtsOfEntry {
			act := "Enforce"
			switch {
			case s.Level == "skip":
				act = "SkipLevel"
			case s.Level == "audit" || s.AuthLog:
				act = "Log"
			}
			demands := s.TSOpt != string(trustpolicy.OptionAfterCertExpiry) || e.expired
			stl := s.Stores
			if !c.Blob {
				stl = finalStores(i)
			}
			stmtTerms = append(stmtTerms, CApp("mk_stmt", CStr(s.Name), CStrList(s.Scopes), CStrList(stl), act, CBool(demands)))
		}
		chainTerms := make([]string, len(e.ids))
		for i, x := range e.ids {
			chainTerms[i] = CN(x)
		}
		// the extended observation: the authenticity result the outcome FINALLY reports
		switch {
		case authTerm == "None":
		case authTerm == "FPluginIdentity":
			authTerm = "(Some FPluginIdentity)"
		default:
			authTerm = "(Some (FStore " + strings.TrimSuffix(strings.TrimPrefix(authTerm, "(Some "), ")") + "))"
		}
		plugTerm := "None"
		if c.Plugin != nil {
			var capTerms []string
			for _, pc := range c.Plugin.Caps {
				switch pc {
				case "TI":
					capTerms = append(capTerms, "CTI")
				case "Rev":
					capTerms = append(capTerms, "CRev")
				}
			}
			// action of revocation in the applicable statement's level (skip unless RevOn)
			revAct := "SkipLevel"
			var appl *stmtDesc
			for i := range stmtsOfEntry {
				s := &stmtsOfEntry[i]
				for _, sc := range s.Scopes {
					if sc == repoOfEntry || (sc == "*" && appl == nil) {
						appl = s
					}
				}
			}
			if appl != nil && appl.RevOn {
				revAct = map[string]string{"strict": "Enforce", "permissive": "Log", "audit": "Log"}[appl.Level]
			}
			plugTerm = CSome(CApp("mk_plugin", CList(capTerms), CBool(c.Plugin.TIOK), CBool(c.Plugin.RevOK), revAct))
			// the assumptions of the plugin model, checked on the outcome: nothing between the
			// authenticity step and the plugin ended the verification
			if outcome != nil {
				for _, r := range outcome.VerificationResults {
					if r != nil && (r.Type == trustpolicy.TypeExpiry || r.Type == trustpolicy.TypeAuthenticTimestamp) && r.Error != nil {
						panic(fmt.Sprintf("c03: plugin case %d: the %s step failed (%v): outside the plugin model", my, r.Type, r.Error))
					}
				}
			}
			w.Count("plugin_caps", strings.Join(c.Plugin.Caps, "+"))
			w.Count("plugin_ti_verdict", fmt.Sprint(c.Plugin.TIOK))
			w.Count("plugin_executed", fmt.Sprint(len(plug.VerifyReq) > 0))
		}
		in := CApp("mk_xinput", CApp("mk_input", sch, CList(stmtTerms), CStr(repoOfEntry), CList(fsTerms), CList(chainTerms), CBool(e.tokOK[ekey])), plugTerm)
		obs := CApp("mk_xobs", authTerm, CList(callTerms), CBool(c.Stop))
		term := CApp("mk_xcase", CN(my), in, obs)
		placed := c.Real
		for _, s := range c.Stores {
			for _, x := range s.Certs {
				for _, y := range e.ids {
					if x == y {
						placed = true
					}
				}
			}
		}
		nontriv := c.Auth != "absent" && placed
		if opt != nil {
			opt.sink(in, obs, nontriv, frame)
			return
		}
		w.Add(my, term, c, in, nontriv)
		w.Count("family", c.Family)
		w.Count("entry_point", map[bool]string{false: "Verify", true: "VerifyBlob"}[c.Blob])
		w.Count("chain", c.Chain)
		w.Count("scheme", sch)
		w.Count("format", c.Format)
		w.Count("timestamp_variant", strconv.Itoa(c.TS))
		w.Count("obs_auth", strings.SplitN(c.Auth, ":", 2)[0])
		w.Count("obs_stop", fmt.Sprint(c.Stop))
		w.Count("n_statements", strconv.Itoa(len(c.Stmts)))
		w.Count("n_calls", strconv.Itoa(len(c.Calls)))
		tsaCalled := false
		for _, k := range madeCalls {
			if k.Type == truststore.TypeTSA {
				tsaCalled = true
			}
		}
		w.Count("tsa_store_called", fmt.Sprint(tsaCalled))
		for _, l := range c.Labels {
			w.Count("scenario", l)
		}
	}
	runCase := func(c *c03Case) {
		my := id
		id++
		if !w.Want(my) {
			return
		}
		observe(my, c, setup(my, c), true, nil)
	}
	// a history: ONE verifier and ONE trust store object, several Verify calls in sequence;
	// between calls the store content, the scheme, the chain and the repository change.
	// Every step is its own case, judged on its own input (the property has no memory).
	runHistory := func(steps []*c03Case) {
		first := id
		id += int64(len(steps))
		last := -1
		for k := range steps {
			if w.Want(first + int64(k)) {
				last = k
			}
		}
		if last < 0 {
			return
		}
		ss := setup(first, steps[0])
		ss.shared = (first/2)%2 == 0 || len(steps) > 2
		var before []string
		for k := 0; k <= last; k++ {
			if k > 0 {
				fillMock(ss.mock, steps[k].Stores)
			}
			steps[k].Before = append([]string(nil), before...)
			observe(first+int64(k), steps[k], ss, w.Want(first+int64(k)), nil)
			before = append(before, fmt.Sprintf("chain=%s sa=%v repo=%s auth=%s", steps[k].Chain, steps[k].SA, steps[k].Repo, steps[k].Auth))
		}
	}

	// ---------- concurrency: ONE verifier shared by goroutines (runs in a child process) ----------
	runConc := func() *concReport {
		const K = 8
		N := 600
		if a.Tier == "thorough" {
			N = 3000
		}
		n3e, n2e, n4e := envs["n3"], envs["n2"], envs["n4"]
		noiseC := []int64{n3e.twins[0], idUnrelRoot}
		stores := []storeDesc{
			{Type: "ca", Name: "c0", Certs: append([]int64{n3e.ids[2]}, noiseC...)},
			{Type: "signingAuthority", Name: "c0", Certs: noiseC},
			{Type: "signingAuthority", Name: "c1", Certs: noiseC},
			{Type: "ca", Name: "c2", Certs: []int64{n2e.ids[1]}, Fail: true},
			{Type: "ca", Name: "c3a", Certs: noiseC},
			{Type: "ca", Name: "c3b", Certs: []int64{idUnrelLeaf, n3e.ids[1]}},
			{Type: "signingAuthority", Name: "c3b", Certs: []int64{n2e.ids[1]}},
			{Type: "tsa", Name: "t", Certs: []int64{idTSARoot, n3e.ids[2]}},
			{Type: "ca", Name: "c6", Certs: []int64{n4e.ids[3]}},
			{Type: "signingAuthority", Name: "c6", Certs: []int64{n4e.ids[0]}},
			{Type: "signingAuthority", Name: "c7", Certs: []int64{n3e.ids[2]}},
			{Type: "ca", Name: "c7", Certs: []int64{n3e.twins[1]}},
		}
		lists := [][]string{
			{"ca:c0"},
			{"signingAuthority:c1", "ca:c0"},
			{"ca:c3a", "ca:c2", "ca:c0"},
			{"ca:c3a", "ca:c3b", "signingAuthority:c3b"},
			{"ca:c0", "tsa:t"},
			{"tsa:t", "ca:c0", "ca:c0", "signingAuthority:c0"},
			{"ca:c6", "signingAuthority:c6"}, // the wildcard statement
			{"signingAuthority:c7", "ca:c7"},
		}
		var stmts []stmtDesc
		for g := 0; g < K; g++ {
			st := stmtDesc{Name: "g" + strconv.Itoa(g), Scopes: []string{"reg.example/conc" + strconv.Itoa(g)}, Stores: lists[g], Level: []string{"strict", "audit", "permissive"}[g%3]}
			if g == 6 {
				st.Scopes = []string{"*"}
			}
			stmts = append(stmts, st)
		}
		chains := []string{"n3", "n3", "n2", "n3", "n3", "n3", "n4", "n3"}
		// every goroutine alternates between two inputs of its own (same statement, both schemes)
		inputs := make([][2]*c03Case, K)
		for g := 0; g < K; g++ {
			for v := 0; v < 2; v++ {
				c := &c03Case{Family: "concurrent", Chain: chains[g], Format: formats[(g+v)%2], SA: (g+v)%2 == 1, TS: (g + v) % 2, Repo: "reg.example/conc" + strconv.Itoa(g),
					Stmts: stmts, Stores: stores, Labels: []string{fmt.Sprintf("goroutine-%d-input-%d", g, v)}}
				if g == 5 {
					c.SA, c.TS = false, 1-v // notary.x509 with and without a countersignature: tsa store on the timestamp path
				}
				if g == 6 {
					c.Repo = "reg.example/none"
				}
				inputs[g][v] = c
			}
		}
		call := func(ss *session, c *c03Case) (in, obs string, nontriv bool, frame []string, cc *c03Case) {
			x := *c
			cc = &x
			defer func() { // a panic of one call is an anomaly of that call, the other goroutines go on
				if r := recover(); r != nil {
					in, obs = "", "PANIC: "+Short(fmt.Sprint(r), 200)
				}
			}()
			x.Labels = append([]string(nil), c.Labels...)
			x.Calls = nil
			calls := []StoreKey{}
			ctx := context.WithValue(nlog.WithLogger(context.Background(), yieldLogger{}), callLogKey{}, &calls)
			observe(0, &x, ss, true, &obsOpt{ctx: ctx, calls: &calls, sink: func(i, o string, nt bool, fr []string) { in, obs, nontriv, frame = i, o, nt, fr }})
			return in, obs, nontriv, frame, &x
		}
		newSession := func() *session {
			ss := setup(0, inputs[0][0])
			ss.shared = true
			ss.userMeta = map[string]string{"c03.meta": "v"}
			ss.pluginCfg = map[string]string{"cfg": "x", "other": "y"}
			fs, ek := storeFacts(inputs[0][0], ss.inner, func(i int) []string { return inputs[0][0].Stmts[i].Stores })
			ss.facts = &storeFactsT{fs: fs, errKey: ek}
			return ss
		}
		// reference: every input alone, on a verifier of its own
		ref := make([][2]string, K)
		rep := &concReport{}
		for g := 0; g < K; g++ {
			for v := 0; v < 2; v++ {
				in, obs, nt, fr, cc := call(newSession(), inputs[g][v])
				ref[g][v] = obs
				cc.Labels = append(cc.Labels, "sequential-reference")
				rep.Records = append(rep.Records, concRecord{In: in, Obs: obs, Nontriv: nt, Case: cc, Frame: fr})
			}
		}
		shared := newSession()
		var mu sync.Mutex
		anomalies := 0
		start := make(chan struct{})
		var wg sync.WaitGroup
		for g := 0; g < K; g++ {
			wg.Add(1)
			go func(g int) {
				defer wg.Done()
				<-start
				for j := 0; j < N; j++ {
					v := j % 2
					in, obs, nt, fr, cc := call(shared, inputs[g][v])
					bad := ""
					if strings.HasPrefix(obs, "PANIC: ") {
						bad = fmt.Sprintf("concurrent use of one verifier: call %d of goroutine %d panicked (%s), the same input alone gives %s", j, g, obs, ref[g][v])
					} else if obs != ref[g][v] {
						bad = fmt.Sprintf("concurrent use of one verifier: call %d of goroutine %d observed %s, the same input alone gives %s", j, g, obs, ref[g][v])
					} else if len(fr) > 0 {
						bad = "concurrent use of one verifier: library mutated caller-owned " + strings.Join(fr, ", ")
					}
					mu.Lock()
					rep.Calls++
					if bad != "" {
						anomalies++
						if anomalies <= 12 {
							cc.Labels = append(cc.Labels, fmt.Sprintf("overlapping-call-%d", j))
							rep.Records = append(rep.Records, concRecord{In: in, Obs: obs, Nontriv: nt, Case: cc, Anomaly: bad, Frame: fr})
						}
					} else if j < 2 || j == N/2 || j >= N-2 {
						cc.Labels = append(cc.Labels, fmt.Sprintf("overlapping-call-%d", j))
						rep.Records = append(rep.Records, concRecord{In: in, Obs: obs, Nontriv: nt, Case: cc})
					}
					mu.Unlock()
				}
			}(g)
		}
		close(start)
		wg.Wait()
		return rep
	}
	if outFile := os.Getenv("C03_CONC_CHILD"); outFile != "" {
		b, err := json.Marshal(runConc())
		if err != nil {
			return err
		}
		return os.WriteFile(outFile, b, 0o644)
	}

	levels := []string{"strict", "permissive", "audit"}
	tsopts := []string{"", "always", "afterCertExpiry"}

	// ---------- family 1: exhaustive small lists ----------
	exhEntries := []string{"ca:a", "signingAuthority:a", "tsa:a", "ca:b"}
	maxLen := 2
	if a.Tier == "thorough" {
		maxLen = 3
	}
	var lists [][]string
	var rec func(cur []string)
	rec = func(cur []string) {
		if len(cur) > 0 {
			lists = append(lists, append([]string(nil), cur...))
		}
		if len(cur) == maxLen {
			return
		}
		for _, x := range exhEntries {
			rec(append(cur, x))
		}
	}
	rec(nil)
	for _, l := range lists {
		for place := 0; place <= 4; place++ { // 0 = root nowhere, k = root in exhEntries[k-1]
			for _, sa := range []bool{false, true} {
				for fail := 0; fail < 4; fail++ { // 0 none, 1 ca:a fails, 2 ca:b missing, 3 signingAuthority:a fails
					e := envs["n3"]
					c := &c03Case{Family: "exhaustive", Chain: "n3", Format: Pick(rng, formats), SA: sa, TS: rng.Intn(2)}
					for k, ent := range exhEntries {
						t, n, _ := strings.Cut(ent, ":")
						sd := storeDesc{Type: t, Name: n, Certs: []int64{e.twins[0]}}
						if t == "tsa" {
							sd.Certs = append(sd.Certs, idTSARoot)
						}
						if place == k+1 {
							sd.Certs = append(sd.Certs, e.ids[2])
						}
						if (fail == 1 && ent == "ca:a") || (fail == 3 && ent == "signingAuthority:a") {
							sd.Fail = true
						}
						if fail == 2 && ent == "ca:b" {
							continue
						}
						c.Stores = append(c.Stores, sd)
					}
					c.Stmts = []stmtDesc{{Name: "sel", Scopes: []string{TestScope}, Stores: l, Level: Pick(rng, []string{"strict", "audit"})}}
					runCase(c)
				}
			}
		}
	}
	w.Set("exhaustive_part", fmt.Sprintf("all trust-store lists of length 1..%d over %v x 5 placements of the root x 2 schemes x 4 failure patterns", maxLen, exhEntries))

	// ---------- family 2: random scenarios on the scripted store ----------
	names := []string{"a", "b", "c", "d", "e.1", "f-2_"}
	genRandom := func() *c03Case {
		c := &c03Case{Family: "random", Chain: Pick(rng, envNames), Format: Pick(rng, formats), SA: rng.Bool(), TS: Pick(rng, []int{0, 1, 1, 1, 1, 2})}
		e := envs[c.Chain]
		req := "ca"
		others := []string{"signingAuthority", "tsa"}
		if c.SA {
			req = "signingAuthority"
			others = []string{"ca", "tsa"}
		}
		noise := append([]int64{idUnrelRoot, idUnrelLeaf, idTSARoot, idTSARoot2}, e.twins...)
		for _, o := range []string{"n2", "n4"} {
			if o != c.Chain {
				noise = append(noise, envs[o].ids...)
			}
		}
		stores := map[string]*storeDesc{}
		var order []string
		get := func(t, n string) *storeDesc {
			k := t + ":" + n
			if s, ok := stores[k]; ok {
				return s
			}
			s := &storeDesc{Type: t, Name: n, Certs: []int64{}}
			stores[k] = s
			order = append(order, k)
			return s
		}
		for k := 1 + rng.Intn(5); k > 0; k-- {
			s := get(Pick(rng, c03Types), Pick(rng, names))
			for j := rng.Intn(3); j > 0; j-- {
				s.Certs = append(s.Certs, Pick(rng, noise))
			}
			if rng.Chance(1, 10) {
				s.Fail = true
			}
		}
		var sel, otherStores []string
		bgListed := ""
		if rng.Chance(3, 5) { // a listed store of the required type holding foreign certificates only
			st := get(req, Pick(rng, names))
			st.Certs = append(st.Certs, Pick(rng, noise))
			bgListed = req + ":" + st.Name
		}
		listed := func(k string) bool {
			for _, x := range sel {
				if x == k {
					return true
				}
			}
			return false
		}
		insert := func(k string) {
			p := rng.Intn(len(sel) + 1)
			sel = append(sel, "")
			copy(sel[p+1:], sel[p:])
			sel[p] = k
		}
		ensure := func(k string) {
			if !listed(k) {
				insert(k)
			}
		}
		for k := rng.Intn(4); k > 0; k-- {
			if rng.Chance(5, 6) {
				insert(Pick(rng, order))
			} else {
				insert(Pick(rng, c03Types) + ":" + Pick(rng, names))
			}
		}
		if bgListed != "" {
			ensure(bgListed)
		}
		chainCert := func() int64 {
			if rng.Chance(1, 2) {
				return e.ids[len(e.ids)-1]
			}
			return Pick(rng, e.ids)
		}
		needOther := false
		for np := Pick(rng, []int{0, 1, 1, 1, 1, 2}); np > 0; np-- {
			cert := chainCert()
			switch rng.Intn(7) {
			case 0, 1, 6:
				s := get(req, Pick(rng, names))
				s.Certs = append(s.Certs, cert)
				ensure(req + ":" + s.Name)
				c.Labels = append(c.Labels, "right-store")
			case 2:
				t := Pick(rng, others)
				s := get(t, Pick(rng, names))
				s.Certs = append(s.Certs, cert)
				ensure(t + ":" + s.Name)
				if rng.Bool() {
					get(req, s.Name)
					ensure(req + ":" + s.Name)
				}
				c.Labels = append(c.Labels, "wrong-type")
			case 3:
				s := get(req, "u"+strconv.Itoa(np))
				s.Certs = append(s.Certs, cert)
				c.Labels = append(c.Labels, "unlisted")
			case 4:
				s := get(req, "o"+strconv.Itoa(np))
				s.Certs = append(s.Certs, cert)
				otherStores = append(otherStores, req+":"+s.Name)
				needOther = true
				c.Labels = append(c.Labels, "other-statement")
			case 5:
				s := get("tsa", Pick(rng, names))
				s.Certs = append(s.Certs, cert)
				ensure("tsa:" + s.Name)
				c.Labels = append(c.Labels, "in-tsa-store")
			}
		}
		if rng.Chance(1, 4) { // a twin where the real certificate would be expected
			s := get(req, Pick(rng, names))
			s.Certs = append(s.Certs, Pick(rng, e.twins))
			ensure(req + ":" + s.Name)
			c.Labels = append(c.Labels, "twin-listed")
		}
		if rng.Chance(1, 2) {
			n := Pick(rng, names)
			s := get("tsa", n)
			if rng.Chance(2, 3) {
				s.Certs = append(s.Certs, idTSARoot)
			}
			ensure("tsa:" + n)
			c.Labels = append(c.Labels, "tsa-configured")
		}
		if rng.Chance(1, 4) {
			var cand []string
			for _, k := range sel {
				if strings.HasPrefix(k, req+":") {
					cand = append(cand, k)
				}
			}
			if len(cand) > 0 {
				k := Pick(rng, cand)
				if rng.Bool() {
					t, n, _ := strings.Cut(k, ":")
					get(t, n).Fail = true
				} else {
					delete(stores, k)
				}
				c.Labels = append(c.Labels, "required-store-fails")
			}
		}
		if rng.Chance(1, 8) {
			var cand []string
			for _, k := range sel {
				if !strings.HasPrefix(k, req+":") {
					cand = append(cand, k)
				}
			}
			if len(cand) > 0 {
				k := Pick(rng, cand)
				if s, ok := stores[k]; ok {
					s.Fail = true
				}
				c.Labels = append(c.Labels, "other-type-store-fails")
			}
		}
		if rng.Chance(1, 3) && len(sel) > 0 {
			insert(Pick(rng, sel))
			c.Labels = append(c.Labels, "duplicate")
		}
		if rng.Chance(1, 3) {
			Shuffle(rng, sel)
		}
		if len(sel) == 0 {
			sel = []string{Pick(rng, c03Types) + ":" + Pick(rng, names)}
		}
		// statements
		st := stmtDesc{Name: "sel", Stores: sel, Level: Pick(rng, levels), TSOpt: Pick(rng, tsopts)}
		if st.Level != "audit" && rng.Chance(1, 6) {
			st.AuthLog = true
		}
		if rng.Chance(1, 40) {
			st.Level, st.Stores, st.AuthLog = "skip", nil, false
		}
		otherList := func() []string {
			l := append([]string(nil), otherStores...)
			for k := rng.Intn(3); k > 0 || len(l) == 0; k-- {
				if len(order) > 0 && rng.Chance(3, 4) {
					l = append(l, Pick(rng, order))
				} else {
					l = append(l, Pick(rng, c03Types)+":"+Pick(rng, names))
				}
			}
			return l
		}
		mode := rng.Intn(8)
		if needOther && (mode == 0 || mode == 3) {
			mode = 1
		}
		switch mode {
		case 0: // only the selected statement, exact scope
			st.Scopes = []string{TestScope}
			c.Stmts = []stmtDesc{st}
		case 1: // exact + a wildcard statement that must lose
			st.Scopes = []string{TestScope}
			c.Stmts = []stmtDesc{st, {Name: "wild", Scopes: []string{"*"}, Stores: otherList(), Level: "strict"}}
		case 2: // selected through the wildcard, another statement scoped elsewhere
			st.Scopes = []string{"*"}
			c.Stmts = []stmtDesc{st, {Name: "elsewhere", Scopes: []string{"reg.example/other", "other.example/repo"}, Stores: otherList(), Level: "strict"}}
		case 3: // wildcard only
			st.Scopes = []string{"*"}
			c.Stmts = []stmtDesc{st}
		case 4: // three statements
			st.Scopes = []string{"reg.example/also", TestScope}
			c.Stmts = []stmtDesc{st, {Name: "wild", Scopes: []string{"*"}, Stores: otherList(), Level: "audit"},
				{Name: "elsewhere", Scopes: []string{"reg.example/repo2"}, Stores: otherList(), Level: "permissive"}}
		case 5: // exact + elsewhere
			st.Scopes = []string{TestScope}
			c.Stmts = []stmtDesc{st, {Name: "elsewhere", Scopes: []string{"reg.example/repo/sub"}, Stores: otherList(), Level: "strict"}}
		case 6: // exact + wildcard at audit level
			st.Scopes = []string{TestScope}
			c.Stmts = []stmtDesc{st, {Name: "wild", Scopes: []string{"*"}, Stores: otherList(), Level: "audit", TSOpt: Pick(rng, tsopts)}}
		case 7:
			if rng.Chance(1, 5) { // no applicable statement
				st.Scopes = []string{"reg.example/other"}
				c.Stmts = []stmtDesc{st}
				c.Labels = append(c.Labels, "no-applicable-statement")
			} else {
				st.Scopes = []string{TestScope}
				c.Stmts = []stmtDesc{st, {Name: "elsewhere", Scopes: []string{"reg.example/other"}, Stores: otherList(), Level: "strict"}}
			}
		}
		Shuffle(rng, c.Stmts)
		for _, k := range order {
			if s, ok := stores[k]; ok {
				c.Stores = append(c.Stores, *s)
			}
		}
		return c
	}
	nRandom := 2500
	if a.Tier == "thorough" {
		nRandom = 40000
	}
	for k := 0; k < nRandom; k++ {
		runCase(genRandom())
	}

	// ---------- family 3: the real directory trust store ----------
	nReal := 400
	if a.Tier == "thorough" {
		nReal = 5000
	}
	for k := 0; k < nReal; k++ {
		c := &c03Case{Family: "real-store", Real: true, Chain: Pick(rng, []string{"n3", "n3", "n2", "n1"}), Format: Pick(rng, formats), SA: rng.Bool(), TS: Pick(rng, []int{0, 1, 1})}
		var sel []string
		for j := 1 + rng.Intn(4); j > 0; j-- {
			t := Pick(rng, c03Types)
			if rng.Chance(1, 2) {
				t = "ca"
				if c.SA {
					t = "signingAuthority"
				}
			}
			sel = append(sel, t+":"+Pick(rng, realNames))
		}
		if rng.Chance(1, 4) {
			sel = append(sel, Pick(rng, sel))
			Shuffle(rng, sel)
		}
		st := stmtDesc{Name: "sel", Scopes: []string{TestScope}, Stores: sel, Level: Pick(rng, levels), TSOpt: Pick(rng, tsopts)}
		c.Stmts = []stmtDesc{st}
		if rng.Chance(1, 3) {
			c.Stmts = append(c.Stmts, stmtDesc{Name: "wild", Scopes: []string{"*"}, Stores: []string{"ca:a", "signingAuthority:b", "ca:d", "signingAuthority:c", "ca:self", "signingAuthority:self"}, Level: "strict"})
			Shuffle(rng, c.Stmts)
		}
		runCase(c)
	}

	// ---------- family 4: lists no validated statement can carry (correspondence only) ----------
	bad := []string{"ca", "", "ca:", ":a", "CA:a", "ca:a:b", "x:y", "tsa", "ca :a", " ca:a", "signingauthority:a", "tsa:", ":", "signingAuthority", "ca;a"}
	nBad := 200
	if a.Tier == "thorough" {
		nBad = 3000
	}
	for k := 0; k < nBad; k++ {
		c := genRandom()
		c.Family = "malformed"
		var sel *stmtDesc
		for i := range c.Stmts {
			if c.Stmts[i].Name == "sel" {
				sel = &c.Stmts[i]
			}
		}
		if sel.Level == "skip" {
			sel.Level, sel.Stores = "strict", []string{"ca:a"}
		}
		mut := append([]string(nil), sel.Stores...)
		for j := 1 + rng.Intn(2); j > 0; j-- {
			p := rng.Intn(len(mut) + 1)
			mut = append(mut, "")
			copy(mut[p+1:], mut[p:])
			mut[p] = Pick(rng, bad)
		}
		c.Mutate = mut
		if rng.Bool() {
			t := "ca"
			if c.SA {
				t = "signingAuthority"
			}
			c.Stores = append(c.Stores, storeDesc{Type: t, Name: Pick(rng, []string{"a:b", "", "a"}), Certs: []int64{envs[c.Chain].ids[len(envs[c.Chain].ids)-1]}})
		}
		runCase(c)
	}
	// ---------- family 5: rarely used legal store names (case pairs, leading dots, type words) ----------
	saveNames := names
	names = []string{"a", "A", "b", "B", ".a", "..a", "...", "-", "_", "ca", "tsa", "signingAuthority", "a.b", "0"}
	nRare := 400
	if a.Tier == "thorough" {
		nRare = 5000
	}
	for k := 0; k < nRare; k++ {
		c := genRandom()
		c.Family = "rare-names"
		if rng.Chance(1, 6) && len(c.Stores) > 0 { // empty vs nil vs a nil element
			j := rng.Intn(len(c.Stores))
			switch rng.Intn(3) {
			case 0:
				c.Stores[j].Certs, c.Stores[j].Nil = nil, true
			case 1:
				c.Stores[j].Certs = []int64{}
			case 2:
				// not for tsa stores: verifyTimestamp hands every element to x509.CertPool.AddCert,
				// which panics on nil (outside this property; reported to the coordinator for C12)
				if c.Stores[j].Type != "tsa" {
					c.Stores[j].Certs = append([]int64{0}, c.Stores[j].Certs...)
				}
			}
			c.Labels = append(c.Labels, "empty-nil-variant")
		}
		runCase(c)
	}
	names = saveNames

	// ---------- family 6: positions, systematically ----------
	// the store holding the trusted certificate at every position p of the list, the odd
	// element at every other position q, fillers elsewhere; the matched chain certificate
	// and its position inside the store's own certificate list rotate
	posKinds := []string{"req-fails", "req-missing", "othertype-samename-fails", "only-in-tsa", "only-in-othertype", "dup-good",
		"req-empty", "req-nil-slice", "req-nil-cert", "case-variant-fails", "case-variant-noise", "case-variant-good", "twin-only"}
	insertAt := func(l []int64, p int, x int64) []int64 {
		if p > len(l) {
			p = len(l)
		}
		out := append([]int64(nil), l[:p]...)
		out = append(out, x)
		return append(out, l[p:]...)
	}
	pk := 0
	for _, sa := range []bool{false, true} {
		for L := 3; L <= 4; L++ {
			for p := 0; p < L; p++ {
				for q := 0; q < L; q++ {
					if p == q {
						continue
					}
					for _, kind := range posKinds {
						pk++
						chainName := []string{"n3", "n4", "n2", "n3", "n1"}[pk%5]
						e := envs[chainName]
						cert := e.ids[pk%len(e.ids)]
						req, oth := "ca", "signingAuthority"
						if sa {
							req, oth = oth, req
						}
						c := &c03Case{Family: "positions", Chain: chainName, Format: formats[pk%2], SA: sa, TS: (pk / 2) % 2,
							Labels: []string{"pos:" + kind, fmt.Sprintf("good@%d-odd@%d-of-%d", p, q, L)}}
						noise := []int64{e.twins[0], idUnrelRoot}
						good := storeDesc{Type: req, Name: "g", Certs: insertAt(noise, pk%3, cert)}
						list := make([]string, L)
						list[p] = req + ":g"
						fi := 0
						for j := range list {
							if j != p && j != q {
								fi++
								n := "f" + strconv.Itoa(fi)
								list[j] = req + ":" + n
								c.Stores = append(c.Stores, storeDesc{Type: req, Name: n, Certs: []int64{idUnrelLeaf}})
							}
						}
						odd := storeDesc{Type: req, Name: "o", Certs: []int64{idUnrelRoot}}
						addOdd := true
						switch kind {
						case "req-fails":
							odd.Fail, odd.Certs = true, []int64{cert}
						case "req-missing":
							addOdd = false
						case "othertype-samename-fails":
							odd = storeDesc{Type: oth, Name: "g", Certs: []int64{cert}, Fail: true}
						case "only-in-tsa":
							good.Certs = noise
							odd = storeDesc{Type: "tsa", Name: "g", Certs: []int64{cert, idTSARoot}}
						case "only-in-othertype":
							good.Certs = noise
							odd = storeDesc{Type: oth, Name: "g", Certs: []int64{cert}}
						case "dup-good":
							odd, addOdd = good, false
						case "req-empty":
							odd.Certs = []int64{}
						case "req-nil-slice":
							odd.Certs, odd.Nil = nil, true
						case "req-nil-cert":
							odd.Certs = []int64{0}
						case "case-variant-fails":
							odd = storeDesc{Type: req, Name: "G", Certs: []int64{cert}, Fail: true}
						case "case-variant-noise":
							odd = storeDesc{Type: req, Name: "G", Certs: noise}
						case "case-variant-good":
							good.Certs = noise
							odd = storeDesc{Type: req, Name: "G", Certs: insertAt(noise, pk%3, cert)}
						case "twin-only":
							good.Certs = insertAt([]int64{idUnrelRoot}, pk%2, e.twins[len(e.twins)-1-pk%len(e.twins)])
						}
						list[q] = odd.Type + ":" + odd.Name
						c.Stores = append(c.Stores, good)
						if addOdd {
							c.Stores = append(c.Stores, odd)
						}
						lvl := "strict"
						if pk%3 == 0 {
							lvl = "audit"
						}
						c.Stmts = []stmtDesc{{Name: "sel", Scopes: []string{TestScope}, Stores: list, Level: lvl}}
						runCase(c)
					}
				}
			}
		}
	}

	// ---------- family 7: which statement is the applicable one, at every position ----------
	type stmtKind struct {
		name   string
		scopes []string
	}
	kindsAll := []stmtKind{{"exact", []string{TestScope}}, {"wild", []string{"*"}}, {"foreign", []string{"reg.example/other", "reg.example/repo/sub"}},
		{"casevar", []string{"Reg.Example/repo", "reg.example:5000/repo"}}}
	refs := []string{TestScope, "reg.example/other", "reg.example/none", "Reg.Example/repo", "reg.example:5000/repo", "REG.EXAMPLE/repo", "reg.example/repo/sub"}
	var perms [][]int
	var permRec func(cur []int, used int)
	permRec = func(cur []int, used int) {
		if len(cur) == 4 {
			perms = append(perms, append([]int(nil), cur...))
			return
		}
		for x := 0; x < 4; x++ {
			if used&(1<<x) == 0 {
				permRec(append(cur, x), used|1<<x)
			}
		}
	}
	permRec(nil, 0)
	sk := 0
	for _, perm := range perms {
		for goodAt := 0; goodAt < 4; goodAt++ { // which statement lists the store with the root
			for _, sa := range []bool{false, true} {
				sk++
				e := envs["n3"]
				req := "ca"
				if sa {
					req = "signingAuthority"
				}
				c := &c03Case{Family: "statement-positions", Chain: "n3", Format: formats[sk%2], SA: sa, TS: sk % 2, Repo: refs[sk%len(refs)]}
				c.Stores = []storeDesc{{Type: req, Name: "good", Certs: []int64{e.ids[2]}}, {Type: req, Name: "noise", Certs: []int64{e.twins[0], idUnrelRoot}}}
				drop := -1
				if sk%4 == 0 { // no exact statement: the wildcard must be selected for TestScope
					drop = 0
				}
				for _, x := range perm {
					if x == drop {
						continue
					}
					st := stmtDesc{Name: kindsAll[x].name, Scopes: kindsAll[x].scopes, Stores: []string{req + ":noise"}, Level: []string{"strict", "audit", "permissive"}[(sk+x)%3]}
					if x == goodAt {
						st.Stores = []string{req + ":noise", req + ":good"}
					}
					c.Stmts = append(c.Stmts, st)
				}
				c.Labels = []string{"good-listed-by:" + kindsAll[goodAt].name, "ref:" + c.Repo}
				runCase(c)
			}
		}
	}

	// ---------- family 8: histories on ONE verifier and ONE trust store object ----------
	type hstate struct {
		sa     bool
		repo   string
		chain  string
		rootAt map[string]bool // stores that hold the root of n3
		fail   map[string]bool
	}
	hStores := []string{"ca:a", "signingAuthority:a", "ca:b", "signingAuthority:b", "ca:w", "signingAuthority:w", "tsa:t"}
	hStmts := func(lvl string) []stmtDesc {
		return []stmtDesc{
			{Name: "A", Scopes: []string{TestScope}, Stores: []string{"ca:a", "signingAuthority:a", "tsa:t"}, Level: lvl},
			{Name: "B", Scopes: []string{"reg.example/other"}, Stores: []string{"signingAuthority:b", "ca:b"}, Level: "strict"},
			{Name: "W", Scopes: []string{"*"}, Stores: []string{"ca:w", "signingAuthority:w"}, Level: lvl},
		}
	}
	hRepos := []string{TestScope, "reg.example/other", "reg.example/third"}
	snapshot := func(h *hstate, k int, lvl string, label string) *c03Case {
		c := &c03Case{Family: "history", Chain: h.chain, Format: formats[k%2], SA: h.sa, TS: k % 2, Repo: h.repo, Stmts: hStmts(lvl), Labels: []string{label}}
		for _, sv := range hStores {
			t, n, _ := strings.Cut(sv, ":")
			sd := storeDesc{Type: t, Name: n, Certs: []int64{idUnrelRoot}, Fail: h.fail[sv]}
			if t == "tsa" {
				sd.Certs = []int64{idTSARoot}
			}
			if h.rootAt[sv] {
				sd.Certs = append(sd.Certs, envs["n3"].ids[2])
			}
			c.Stores = append(c.Stores, sd)
		}
		return c
	}
	applyOp := func(h *hstate, op int) string {
		switch op {
		case 0:
			return "repeat"
		case 1:
			k := "ca:a"
			if h.sa {
				k = "signingAuthority:a"
			}
			h.rootAt[k] = !h.rootAt[k]
			return "toggle-root-in-" + k
		case 2:
			k := "ca:a"
			if h.sa {
				k = "signingAuthority:a"
			}
			h.fail[k] = !h.fail[k]
			return "toggle-fail-of-" + k
		case 3:
			h.sa = !h.sa
			return "switch-scheme"
		case 4:
			for j, r := range hRepos {
				if r == h.repo {
					h.repo = hRepos[(j+1)%len(hRepos)]
					break
				}
			}
			return "switch-repository"
		case 5:
			if h.chain == "n3" {
				h.chain = "n2"
			} else {
				h.chain = "n3"
			}
			return "switch-chain"
		case 6:
			k := "ca:w"
			if h.sa {
				k = "signingAuthority:w"
			}
			h.rootAt[k] = !h.rootAt[k]
			return "toggle-root-in-" + k
		case 7:
			k := "signingAuthority:b"
			if h.sa {
				k = "ca:b"
			}
			h.rootAt[k] = !h.rootAt[k]
			return "toggle-root-in-othertype-" + k
		}
		return "?"
	}
	newState := func(sa bool, start int) *hstate {
		h := &hstate{sa: sa, repo: TestScope, chain: "n3", rootAt: map[string]bool{}, fail: map[string]bool{}}
		switch start {
		case 0: // passes for A under both schemes
			h.rootAt["ca:a"], h.rootAt["signingAuthority:a"] = true, true
		case 1: // passes under x509 only
			h.rootAt["ca:a"], h.rootAt["signingAuthority:b"] = true, true
		case 2: // nothing trusted anywhere A looks
			h.rootAt["ca:b"], h.rootAt["signingAuthority:w"] = true, true
		}
		return h
	}
	hk := 0
	// every operator after every start, in both directions (X then op(X), op(X) then X)
	for start := 0; start < 3; start++ {
		for op := 0; op < 8; op++ {
			for _, sa := range []bool{false, true} {
				for dir := 0; dir < 2; dir++ {
					hk++
					lvl := []string{"strict", "audit"}[hk%2]
					h := newState(sa, start)
					c0 := snapshot(h, hk, lvl, "start")
					lab := applyOp(h, op)
					c1 := snapshot(h, hk+1, lvl, lab)
					if dir == 0 {
						runHistory([]*c03Case{c0, c1})
					} else {
						c1.Labels, c0.Labels = []string{"start"}, []string{"undo:" + lab}
						runHistory([]*c03Case{c1, c0})
					}
				}
			}
		}
	}
	nHist := 60
	if a.Tier == "thorough" {
		nHist = 1500
	}
	for k := 0; k < nHist; k++ {
		hk++
		lvl := Pick(rng, []string{"strict", "audit", "permissive"})
		h := newState(rng.Bool(), rng.Intn(3))
		steps := []*c03Case{snapshot(h, hk, lvl, "start")}
		for j := 1 + rng.Intn(3); j > 0; j-- {
			lab := applyOp(h, rng.Intn(8))
			if rng.Chance(1, 3) {
				lab += "+" + applyOp(h, rng.Intn(8))
			}
			hk++
			steps = append(steps, snapshot(h, hk, lvl, lab))
		}
		runHistory(steps)
	}
	// ---------- family 8b: the same statement NAME in two namespaces (OCI document / blob document) ----------
	// ONE verifier holds both documents; their statements share names but differ in the
	// trust-store list (or level / verifyTimestamp / tsa store); Verify and VerifyBlob
	// alternate. Also two OCI statements with different lists, alternately.
	nsKinds := []string{"oci-good/blob-noise", "oci-noise/blob-good", "oci-good/blob-fails", "oci-fails/blob-good", "oci-reqtype/blob-othertype",
		"same-stores/levels-differ", "blob-adds-tsa", "tsopt-differs"}
	nsOrders := [][]bool{{false, true}, {true, false}, {false, true, false}, {true, false, true}} // true = VerifyBlob
	nk := 0
	for _, kind := range nsKinds {
		for _, sa := range []bool{false, true} {
			for _, order := range nsOrders {
				nk++
				req, oth := "ca", "signingAuthority"
				if sa {
					req, oth = oth, req
				}
				e := envs["n3"]
				stores := []storeDesc{
					{Type: req, Name: "good", Certs: []int64{idUnrelRoot, e.ids[2]}},
					{Type: req, Name: "noise", Certs: []int64{e.twins[0], idUnrelRoot}},
					{Type: req, Name: "fails", Certs: []int64{e.ids[2]}, Fail: true},
					{Type: oth, Name: "good", Certs: []int64{e.ids[2]}},
					{Type: "tsa", Name: "t", Certs: []int64{idTSARoot}},
				}
				o := stmtDesc{Name: "P", Scopes: []string{TestScope}, Level: "strict"}
				b := stmtDesc{Name: "P", Level: "strict", Global: nk%3 == 0}
				ts := 0
				switch kind {
				case "oci-good/blob-noise":
					o.Stores, b.Stores = []string{req + ":good"}, []string{req + ":noise"}
				case "oci-noise/blob-good":
					o.Stores, b.Stores = []string{req + ":noise"}, []string{req + ":noise", req + ":good"}
				case "oci-good/blob-fails":
					o.Stores, b.Stores = []string{req + ":good"}, []string{req + ":good", req + ":fails"}
				case "oci-fails/blob-good":
					o.Stores, b.Stores = []string{req + ":fails", req + ":good"}, []string{req + ":good"}
				case "oci-reqtype/blob-othertype":
					o.Stores, b.Stores = []string{req + ":good"}, []string{oth + ":good"}
				case "same-stores/levels-differ":
					o.Stores, b.Stores = []string{req + ":noise"}, []string{req + ":noise"}
					b.Level = "audit"
				case "blob-adds-tsa":
					o.Stores, b.Stores = []string{req + ":good"}, []string{req + ":good", "tsa:t"}
					ts = 1
				case "tsopt-differs":
					o.Stores, b.Stores = []string{req + ":good", "tsa:t"}, []string{req + ":good", "tsa:t"}
					o.TSOpt, b.TSOpt = "always", "afterCertExpiry"
					ts = 1
				}
				// a second pair of same-named statements with the contents exchanged
				o2, b2 := b, o
				o2.Name, b2.Name = "Q", "Q"
				o2.Scopes, o2.Global, b2.Scopes, b2.Global = []string{"reg.example/other"}, false, nil, false
				var steps []*c03Case
				for k, blob := range order {
					c := &c03Case{Family: "namespaces", Chain: "n3", Format: formats[(nk+k)%2], SA: sa, TS: ts, Repo: TestScope, Stmts: []stmtDesc{o, o2}, BlobStmts: []stmtDesc{b, b2},
						Stores: stores, Blob: blob, PolicyName: "P", Labels: []string{"ns:" + kind, map[bool]string{false: "entry:Verify", true: "entry:VerifyBlob"}[blob]}}
					if blob && b.Global && k%2 == 1 {
						c.PolicyName = ""
					}
					if nk%2 == 0 { // use the exchanged pair
						c.Repo, c.PolicyName = "reg.example/other", "Q"
					}
					steps = append(steps, c)
				}
				runHistory(steps)
			}
		}
	}
	// two OCI statements with different lists, verified alternately on one verifier
	for ki, kind := range nsKinds[:5] {
		for _, sa := range []bool{false, true} {
			for ord := 0; ord < 2; ord++ {
				req, oth := "ca", "signingAuthority"
				if sa {
					req, oth = oth, req
				}
				e := envs["n3"]
				stores := []storeDesc{
					{Type: req, Name: "good", Certs: []int64{e.ids[2]}},
					{Type: req, Name: "noise", Certs: []int64{e.twins[0], idUnrelRoot}},
					{Type: req, Name: "fails", Certs: []int64{e.ids[2]}, Fail: true},
					{Type: oth, Name: "good", Certs: []int64{e.ids[2]}},
				}
				la := [][]string{{req + ":good"}, {req + ":noise"}, {req + ":good"}, {req + ":fails", req + ":good"}, {req + ":good"}}[ki]
				lb := [][]string{{req + ":noise"}, {req + ":good"}, {req + ":good", req + ":fails"}, {req + ":good"}, {oth + ":good"}}[ki]
				st := []stmtDesc{{Name: "A", Scopes: []string{TestScope}, Stores: la, Level: "strict"}, {Name: "B", Scopes: []string{"reg.example/other"}, Stores: lb, Level: "strict"}}
				var steps []*c03Case
				for k := 0; k < 4; k++ {
					repo := []string{TestScope, "reg.example/other"}[(k+ord)%2]
					steps = append(steps, &c03Case{Family: "namespaces", Chain: "n3", Format: formats[k%2], SA: sa, Repo: repo, Stmts: st, Stores: stores,
						Labels: []string{"two-oci:" + kind, "entry:Verify"}})
				}
				runHistory(steps)
			}
		}
	}

	// ---------- family 8c: which BLOB statement is the applicable one ----------
	// (C03_WithC08: the rendering of blob statements as scoped statements is selection-preserving
	// w.r.t. BlobDocument.GetApplicableTrustPolicy / GetGlobalTrustPolicy.) ONE verifier; the blob
	// document holds three statements whose names differ by case / by a suffix ("P", "p", "P2"), in
	// every order; exactly one of them lists the store with the root, the others a noise store of
	// the same type; the global flag sits on none or on each of them in turn. Calls name each
	// statement, a name nobody has, and no name (the global statement), with one Verify on the
	// OCI document (a statement "P" with the noise list) in between.
	{
		perms := [][3]int{{0, 1, 2}, {0, 2, 1}, {1, 0, 2}, {1, 2, 0}, {2, 0, 1}, {2, 1, 0}}
		bnames := []string{"P", "p", "P2"}
		bk := 0
		for pi, perm := range perms {
			for gk := 0; gk < 3; gk++ { // which statement lists the good store
				for gi := -1; gi < 3; gi++ { // which statement is global (-1: none)
					if a.Tier != "thorough" && gi != (pi+gk)%4-1 {
						continue
					}
					bk++
					sa := bk%2 == 1
					req, oth := "ca", "signingAuthority"
					if sa {
						req, oth = oth, req
					}
					e := envs["n3"]
					stores := []storeDesc{
						{Type: req, Name: "good", Certs: []int64{idUnrelRoot, e.ids[2]}},
						{Type: req, Name: "noise", Certs: []int64{e.twins[0], idUnrelRoot}},
						{Type: oth, Name: "noise", Certs: []int64{e.ids[2]}},
						{Type: "tsa", Name: "noise", Certs: []int64{e.ids[2]}},
					}
					var bst []stmtDesc
					for pos := 0; pos < 3; pos++ {
						j := perm[pos]
						s := stmtDesc{Name: bnames[j], Level: []string{"strict", "permissive", "audit"}[(j+bk)%3], Global: j == gi, Stores: []string{req + ":noise", oth + ":noise"}}
						if j == gk {
							s.Stores = []string{req + ":noise", req + ":good"}
						}
						bst = append(bst, s)
					}
					ost := []stmtDesc{{Name: "P", Scopes: []string{TestScope}, Stores: []string{req + ":noise"}, Level: "strict"}}
					calls := []string{"P", "PP", "p", "\x00oci", "", "P2", "P"}
					var steps []*c03Case
					for k, pn := range calls {
						c := &c03Case{Family: "blob-selection", Chain: "n3", Format: formats[(bk+k)%2], SA: sa, Repo: TestScope, Stmts: ost, BlobStmts: bst, Stores: stores,
							Blob: pn != "\x00oci", Labels: []string{"blobsel:good-in=" + bnames[gk], fmt.Sprintf("blobsel:global=%d", gi)}}
						if c.Blob {
							c.PolicyName = pn
							c.Labels = append(c.Labels, "blobsel:call="+map[bool]string{true: "<global>", false: pn}[pn == ""])
						} else {
							c.Labels = append(c.Labels, "blobsel:call=<Verify>")
						}
						steps = append(steps, c)
					}
					runHistory(steps)
				}
			}
		}
	}

	// ---------- family 8b: the signature names a verification plugin ----------
	// capabilities {none, a non-verification one, TI, Rev, TI+Rev, Rev+TI} x trusted-identity verdict x
	// level {strict, audit, strict with authenticity=log, permissive} x trust situation {anchored, not
	// anchored, only a store of the other type, an unloadable listed store of the required type with the
	// good store at every list position} x both schemes. The observation is the authenticity result the
	// outcome FINALLY reports: a plugin verdict may add an identity failure, never clear a store failure.
	{
		type situation struct {
			label string
			list  func(req, oth string) []string
		}
		sits := []situation{
			{"anchored", func(req, oth string) []string { return []string{oth + ":g", req + ":g"} }},
			{"not-anchored", func(req, oth string) []string { return []string{req + ":u", oth + ":g"} }},
			{"othertype-only", func(req, oth string) []string { return []string{oth + ":g", oth + ":h"} }},
		}
		for p := 0; p < 3; p++ {
			for q := 0; q < 3; q++ {
				if p == q {
					continue
				}
				p, q := p, q
				sits = append(sits, situation{fmt.Sprintf("unloadable@%d-good@%d", q, p), func(req, oth string) []string {
					l := []string{req + ":u", req + ":u", req + ":u"}
					l[p], l[q] = req+":g", req+":bad"
					l[3-p-q] = oth + ":g"
					return l
				}})
			}
		}
		capSets := [][]string{{}, {"Gen"}, {"TI"}, {"Rev"}, {"TI", "Rev"}, {"Rev", "TI"}}
		type lvl struct {
			level   string
			authLog bool
		}
		lvls := []lvl{{"strict", false}, {"audit", false}, {"strict", true}, {"permissive", false}}
		plk := 0
		for _, sa := range []bool{false, true} {
			for _, sit := range sits {
				for _, caps := range capSets {
					for _, tiOK := range []bool{true, false} {
						for _, lv := range lvls {
							plk++
							chainName := []string{"n3", "n2"}[plk%2]
							e := envs[chainName]
							root := e.ids[len(e.ids)-1]
							req, oth := "ca", "signingAuthority"
							if sa {
								req, oth = oth, req
							}
							hasRev := false
							for _, x := range caps {
								hasRev = hasRev || x == "Rev"
							}
							sel := stmtDesc{Name: "sel", Scopes: []string{TestScope}, Stores: sit.list(req, oth), Level: lv.level, AuthLog: lv.authLog,
								RevOn: hasRev && plk%4 != 0}
							// the wildcard statement lists the good store of the required type: never applicable here
							other := stmtDesc{Name: "other", Scopes: []string{"*"}, Stores: []string{req + ":g"}, Level: "strict"}
							stmts := []stmtDesc{sel, other}
							if plk%3 == 0 {
								stmts = []stmtDesc{other, sel}
							}
							c := &c03Case{Family: "plugin", Chain: chainName, Format: formats[plk%2], SA: sa, TS: 0, Stmts: stmts,
								Plugin: &pluginDesc{Caps: caps, TIOK: tiOK, RevOK: plk%5 != 0},
								Labels: []string{"plugin:" + sit.label, "plugin-level:" + lv.level + map[bool]string{true: "+authenticity=log", false: ""}[lv.authLog]},
								Stores: []storeDesc{
									{Type: req, Name: "g", Certs: []int64{e.twins[0], root, idUnrelRoot}},
									{Type: oth, Name: "g", Certs: []int64{root}},
									{Type: oth, Name: "h", Certs: []int64{e.ids[0], root}},
									{Type: req, Name: "u", Certs: []int64{idUnrelRoot, e.twins[0]}},
									{Type: req, Name: "bad", Certs: []int64{root}, Fail: true},
								}}
							runCase(c)
						}
					}
				}
			}
		}
	}

	// ---------- family 8c: the REAL directory store with named stores that are symbolic links ----------
	// the listed store of the scheme's type is a real directory (control), a symlink to a store of the other
	// type / to a tsa store / to an unlisted store of the same type / to a directory outside the tree, a
	// real directory with a symlinked certificate file, or missing; alone, before and after a loadable
	// store without chain certificate, and before the real store. Ground truth is the construction: only a
	// real directory of that type loads.
	{
		fk := 0
		for _, sa := range []bool{false, true} {
			req := "ca"
			if sa {
				req = "signingAuthority"
			}
			for _, kind := range []string{"real", "to-othertype", "to-tsa", "to-unlisted", "to-outside-rel", "to-outside-abs", "filelink", "missing"} {
				lists := [][]string{{req + ":" + kind}, {req + ":noise", req + ":" + kind}, {req + ":" + kind, req + ":noise"}, {req + ":" + kind, req + ":real"}, {"tsa:roots", req + ":" + kind}}
				for li, list := range lists {
					for _, lv := range []string{"strict", "audit"} {
						fk++
						c := &c03Case{Family: "fs-symlink", Layout: true, Chain: "n3", Format: formats[fk%2], SA: sa, TS: 0,
							Stmts:  []stmtDesc{{Name: "sel", Scopes: []string{TestScope}, Stores: list, Level: lv, TSOpt: string(trustpolicy.OptionAfterCertExpiry)}},
							Stores: layoutStores, Labels: []string{"fs:" + kind, fmt.Sprintf("fs-list-%d", li)}}
						runCase(c)
					}
				}
			}
		}
	}

	// ---------- family 8d: nested verifications on ONE verifier, deterministically ----------
	// Verification A runs with a context logger that, at its n-th log call (every n = 1..K, K = the
	// number of log calls of that Verify), runs a COMPLETE verification B on the SAME verifier - B's
	// artifact is scoped to ANOTHER statement with other trust stores - and then lets A continue. A was
	// verified once before on that verifier (whatever the verifier remembers is about A). A and B are
	// each judged on their OWN input; each has its own call log (carried by its context), so the calls
	// recorded during A minus those of B must be exactly the model's calls for A's statement. Both roles,
	// both schemes, and B = A's reference as the control. No goroutines: replays exactly.
	{
		type nestOut struct {
			in, obs string
			nontriv bool
			frame   []string
		}
		for _, sa := range []bool{false, true} {
			req, oth := "ca", "signingAuthority"
			if sa {
				req, oth = oth, req
			}
			e := envs["n3"]
			root := e.ids[2]
			repoGood, repoBad := "reg.example/nest-good", "reg.example/nest-bad"
			stmts := []stmtDesc{
				{Name: "good", Scopes: []string{repoGood}, Stores: []string{req + ":ng", oth + ":nx"}, Level: "strict"},
				{Name: "bad", Scopes: []string{repoBad}, Stores: []string{req + ":nu", oth + ":ng", req + ":nv"}, Level: "audit"},
				{Name: "wild", Scopes: []string{"*"}, Stores: []string{req + ":ng"}, Level: "strict"},
			}
			stores := []storeDesc{
				{Type: req, Name: "ng", Certs: []int64{e.twins[0], root}},
				{Type: oth, Name: "ng", Certs: []int64{root}},
				{Type: oth, Name: "nx", Certs: []int64{idUnrelRoot}},
				{Type: req, Name: "nu", Certs: []int64{idUnrelRoot, e.twins[0]}},
				{Type: req, Name: "nv", Certs: []int64{idUnrelLeaf}},
			}
			for _, roles := range [][2]string{{repoGood, repoBad}, {repoBad, repoGood}, {repoGood, repoGood}, {repoBad, repoBad}} {
				mk := func(repo, label string, n, K int) *c03Case {
					return &c03Case{Family: "nested", Chain: "n3", Format: formats[(n+len(repo))%2], SA: sa, TS: 0, Repo: repo, Stmts: stmts, Stores: stores,
						Labels: []string{label, fmt.Sprintf("nested:A=%s,B=%s", strings.TrimPrefix(roles[0], "reg.example/nest-"), strings.TrimPrefix(roles[1], "reg.example/nest-")), fmt.Sprintf("nested-at-log-call-%d-of-%d", n, K)}}
				}
				runNested := func(ss *session, myA, myB int64, cA, cB *c03Case, n int) (oa, ob nestOut, count int) {
					callsA, callsB := []StoreKey{}, []StoreKey{}
					lg := &nestLogger{n: n}
					if cB != nil {
						lg.fire = func() {
							ctxB := context.WithValue(context.Background(), callLogKey{}, &callsB)
							observe(myB, cB, ss, true, &obsOpt{ctx: ctxB, calls: &callsB, sink: func(i, o string, nt bool, fr []string) { ob = nestOut{i, o, nt, fr} }})
						}
					}
					ctxA := context.WithValue(nlog.WithLogger(context.Background(), lg), callLogKey{}, &callsA)
					observe(myA, cA, ss, true, &obsOpt{ctx: ctxA, calls: &callsA, sink: func(i, o string, nt bool, fr []string) { oa = nestOut{i, o, nt, fr} }})
					return oa, ob, lg.count
				}
				// K: the log calls of A's second Verify on a verifier that has verified A before
				ss0 := setup(id, mk(roles[0], "nested-count", 0, 0))
				ss0.shared = true
				runNested(ss0, id, id, mk(roles[0], "nested-prime", 0, 0), nil, 0)
				_, _, K := runNested(ss0, id, id, mk(roles[0], "nested-count", 0, 0), nil, 0)
				w.Count("nested_log_calls_of_one_verify", strconv.Itoa(K))
				for n := 1; n <= K; n++ {
					myP, myA, myB := id, id+1, id+2
					id += 3
					if !w.Want(myP) && !w.Want(myA) && !w.Want(myB) {
						continue
					}
					ss := setup(myP, mk(roles[0], "nested-prime", n, K))
					ss.shared = true
					cP, cA, cB := mk(roles[0], "nested-prime", n, K), mk(roles[0], "nested-outer", n, K), mk(roles[1], "nested-inner", n, K)
					oP, _, _ := runNested(ss, myP, myP, cP, nil, 0)
					oA, oB, _ := runNested(ss, myA, myB, cA, cB, n)
					for _, x := range []struct {
						my int64
						o  nestOut
						c  *c03Case
					}{{myP, oP, cP}, {myA, oA, cA}, {myB, oB, cB}} {
						if !w.Want(x.my) {
							continue
						}
						if x.o.in == "" {
							w.ImplViolation(x.my, "nested verification on one verifier: the inner verification did not run or produced no observation", x.c, "nested:no-observation")
							continue
						}
						w.Add(x.my, CApp("mk_xcase", CN(x.my), x.o.in, x.o.obs), x.c, x.o.in+x.o.obs, x.o.nontriv)
						w.Count("family", "nested")
						w.Count("obs_auth", strings.SplitN(x.c.Auth, ":", 2)[0])
						for _, what := range x.o.frame {
							w.ImplViolation(x.my, "library mutated caller-owned "+what, x.c, "frame:"+strings.ReplaceAll(what, " ", "-"))
						}
					}
				}
			}
		}
	}

	// ---------- family 9: concurrent use of ONE verifier (child process; last family: ids are stable before it) ----------
	firstConc := id
	if a.Only < 0 || a.Only >= firstConc {
		exe, err := os.Executable()
		if err != nil {
			return err
		}
		outFile := filepath.Join(a.Out, "conc_report.json")
		ctx, cancel := context.WithTimeout(context.Background(), 150*time.Second)
		cmd := exec.CommandContext(ctx, exe, "--tier", a.Tier, "--seed", strconv.FormatUint(a.Seed, 10), "--out", filepath.Join(a.Out, "conc_child"), "--repo", a.Repo)
		cmd.Env = append(os.Environ(), "C03_CONC_CHILD="+outFile)
		out, runErr := cmd.CombinedOutput()
		cancel()
		os.RemoveAll(filepath.Join(a.Out, "conc_child"))
		var rep concReport
		b, readErr := os.ReadFile(outFile)
		if runErr == nil && readErr == nil {
			readErr = json.Unmarshal(b, &rep)
		}
		if runErr != nil || readErr != nil {
			what := "exit: " + fmt.Sprint(runErr)
			for _, line := range strings.Split(string(out), "\n") {
				if strings.Contains(line, "fatal error") || strings.HasPrefix(line, "panic:") {
					what = strings.TrimSpace(line)
					break
				}
			}
			my := id
			id++
			w.ImplViolation(my, "8 goroutines sharing one verifier: the process died ("+what+")", map[string]any{"family": "concurrent", "output_tail": Short(string(out), 3000)}, "concurrency:crash")
			w.Count("family", "concurrent-crash")
		}
		w.Set("concurrent_calls_on_one_verifier", rep.Calls)
		for _, r := range rep.Records {
			my := id
			id++
			if !w.Want(my) {
				continue
			}
			if r.In != "" {
				w.Add(my, CApp("mk_xcase", CN(my), r.In, r.Obs), r.Case, r.In+r.Obs, r.Nontriv)
				w.Count("family", "concurrent")
				w.Count("obs_auth", strings.SplitN(r.Case.Auth, ":", 2)[0])
			}
			if r.Anomaly != "" {
				w.ImplViolation(my, r.Anomaly, r.Case, "concurrency:wrong-result")
				w.Count("concurrent_anomaly", "true")
			}
		}
	}
	return w.Close()
}
