package main

// Registry family (part 1, evaluated in Coq against C12_Registry): the size
// caps of registry/repository.go. The real registry client
// (registry.NewRepository over a scripted oras.GraphTarget) is asked for
// FetchSignatureBlob / ListSignatures; the target logs the declared size of
// every descriptor handed to its Fetch (content.FetchAll allocates exactly that
// many bytes before it reads). What the dependency makes of a descriptor
// (fetch fails / not JSON of the struct / the fields read) is asked from the
// dependency on a second, non-logging target and given to the model as a fact.

import (
	"context"
	"encoding/json"
	"errors"
	"fmt"
	"io"
	"math"
	"strings"
	. "vh/kit"

	"bytes"

	"github.com/notaryproject/notation-go/registry"
	"github.com/opencontainers/go-digest"
	ocispec "github.com/opencontainers/image-spec/specs-go/v1"
	"oras.land/oras-go/v2/content"
)

const (
	mtArtifactManifest = "application/vnd.oci.artifact.manifest.v1+json"
	artNotationType    = "application/vnd.cncf.notary.signature"
	capManifest        = 4 << 20
	capBlob            = 32 << 20
)

// artifactView: the fields registry/internal/artifactspec.Artifact reads (own declaration:
// the package is internal).
type artifactView struct {
	MediaType    string               `json:"mediaType"`
	ArtifactType string               `json:"artifactType"`
	Blobs        []ocispec.Descriptor `json:"blobs,omitempty"`
	Subject      *ocispec.Descriptor  `json:"subject,omitempty"`
	Annotations  map[string]string    `json:"annotations,omitempty"`
}

var errPreds = errors.New("c12: predecessors fail")

// logTarget: a read-only oras.GraphTarget; every Fetch is logged with the declared size.
type logTarget struct {
	blobs    map[digest.Digest][]byte
	preds    []ocispec.Descriptor
	predsErr bool
	log      *[]int64
}

func (f *logTarget) Fetch(ctx context.Context, d ocispec.Descriptor) (io.ReadCloser, error) {
	if f.log != nil {
		*f.log = append(*f.log, d.Size)
	}
	b, ok := f.blobs[d.Digest]
	if !ok {
		return nil, errors.New("c12: not found")
	}
	return io.NopCloser(bytes.NewReader(b)), nil
}
func (f *logTarget) Exists(ctx context.Context, d ocispec.Descriptor) (bool, error) {
	_, ok := f.blobs[d.Digest]
	return ok, nil
}
func (f *logTarget) Push(ctx context.Context, d ocispec.Descriptor, c io.Reader) error {
	return errors.New("read only")
}
func (f *logTarget) Resolve(ctx context.Context, ref string) (ocispec.Descriptor, error) {
	return ocispec.Descriptor{}, errors.New("c12: not found")
}
func (f *logTarget) Tag(ctx context.Context, d ocispec.Descriptor, ref string) error {
	return errors.New("read only")
}
func (f *logTarget) Predecessors(ctx context.Context, d ocispec.Descriptor) ([]ocispec.Descriptor, error) {
	if f.predsErr {
		return nil, errPreds
	}
	return f.preds, nil
}

// rcase: replay / description format of one registry case.
type rcase struct {
	Fam      string               `json:"fam"`
	Op       string               `json:"op"` // fetch | list
	Note     string               `json:"note,omitempty"`
	Blobs    map[string]string    `json:"blobs"` // digest -> content
	Desc     ocispec.Descriptor   `json:"desc"`  // fetch: the signature manifest descriptor; list: the artifact
	Preds    []ocispec.Descriptor `json:"preds,omitempty"`
	PredsErr bool                 `json:"preds_err,omitempty"`
	Obs      string               `json:"obs,omitempty"`
	Panic    string               `json:"panic,omitempty"`
}

func mtTerm(mt string) string {
	switch mt {
	case mtArtifactManifest:
		return "MTArtifact"
	case ocispec.MediaTypeImageManifest:
		return "MTImage"
	}
	return "MTOther"
}

func rdTerm(d ocispec.Descriptor) string { return CApp("mk_rd", mtTerm(d.MediaType), CZ(d.Size)) }

// viewOf asks the dependency what fetching and decoding d gives (non-logging target).
func viewOf(ctx context.Context, t *logTarget, d, subject ocispec.Descriptor) (term string, blobs []ocispec.Descriptor) {
	// every stored content is small: a declared size beyond 64 MiB cannot be read in full
	// (content.ReadAll fails on the short read) and is not offered to the dependency's make()
	if d.Size < 0 || d.Size > 64<<20 {
		return "MVFetchErr", nil
	}
	b, err := content.FetchAll(ctx, t, d)
	if err != nil {
		return "MVFetchErr", nil
	}
	var subj *ocispec.Descriptor
	var atype string
	if d.MediaType == ocispec.MediaTypeImageManifest {
		var m ocispec.Manifest
		if json.Unmarshal(b, &m) != nil {
			return "MVBadJSON", nil
		}
		blobs, subj, atype = m.Layers, m.Subject, m.Config.MediaType
	} else {
		var m artifactView
		if json.Unmarshal(b, &m) != nil {
			return "MVBadJSON", nil
		}
		blobs, subj, atype = m.Blobs, m.Subject, m.ArtifactType
	}
	var bt []string
	for _, x := range blobs {
		bt = append(bt, CApp("mk_rd", "MTOther", CZ(x.Size)))
	}
	seq := subj != nil && content.Equal(*subj, subject)
	return CApp("MVManifest", CList(bt), CBool(seq), CBool(atype == artNotationType)), blobs
}

func regErrClass(err error) int64 {
	var se *json.SyntaxError
	var te *json.UnmarshalTypeError
	msg := err.Error()
	switch {
	case errors.Is(err, errPreds):
		return 7
	case strings.Contains(msg, "sigManifestDesc.MediaType requires"):
		return 1
	case strings.Contains(msg, "signature manifest too large"), strings.Contains(msg, "referrer node too large"):
		return 2
	case strings.Contains(msg, "exactly one signature envelope blob"):
		return 5
	case strings.Contains(msg, "signature blob too large"):
		return 6
	case errors.As(err, &se), errors.As(err, &te), strings.Contains(msg, "unexpected end of JSON input"):
		return 4
	}
	return 3
}

func reqsTerm(log []int64, firstBlob int) string {
	var rs []string
	for i, s := range log {
		k := "KManifest"
		if firstBlob >= 0 && i >= firstBlob {
			k = "KBlob"
		}
		rs = append(rs, CPair(k, CZ(s)))
	}
	return CList(rs)
}

// execReg runs one registry case on the real client; returns the Gallina term of the case.
func execReg(id int64, c *rcase) string {
	ctx := context.Background()
	mk := func(log *[]int64) *logTarget {
		t := &logTarget{blobs: map[digest.Digest][]byte{}, preds: c.Preds, predsErr: c.PredsErr, log: log}
		for k, v := range c.Blobs {
			t.blobs[digest.Digest(k)] = []byte(v)
		}
		return t
	}
	var log []int64
	quiet := mk(nil)
	repo := registry.NewRepository(mk(&log))
	obs := "RPanic"
	func() {
		defer func() {
			if r := recover(); r != nil {
				c.Panic = fmt.Sprint(r)
			}
		}()
		if c.Op == "fetch" {
			blob, bd, err := repo.FetchSignatureBlob(ctx, c.Desc)
			res := "RBlob"
			if err != nil {
				res = CApp("RErr", CN(regErrClass(err)))
			} else if want, ok := quiet.blobs[bd.Digest]; !ok || !bytes.Equal(want, blob) || int64(len(blob)) != bd.Size {
				res = CApp("RErr", CN(99)) // success with bytes that are not the blob's
			}
			// the first request is the manifest's, a second one the blob's
			obs = CApp("RO", reqsTerm(log, 1), res)
			return
		}
		var got []ocispec.Descriptor
		calls := 0
		err := repo.ListSignatures(ctx, c.Desc, func(ms []ocispec.Descriptor) error {
			calls++
			got = append(got, ms...)
			return nil
		})
		res := ""
		if err != nil {
			res = CApp("RErr", CN(regErrClass(err)))
		} else if calls != 1 {
			res = CApp("RErr", CN(98))
		} else {
			var ids []string
			for _, g := range got {
				idx := int64(97)
				for i, p := range c.Preds {
					if p.Digest == g.Digest && p.Size == g.Size && p.MediaType == g.MediaType {
						idx = int64(i)
						break
					}
				}
				ids = append(ids, CN(idx))
			}
			res = CApp("RList", CList(ids))
		}
		obs = CApp("RO", reqsTerm(log, -1), res)
	}()
	c.Obs = obs
	if c.Op == "fetch" {
		view, blobs := viewOf(ctx, quiet, c.Desc, ocispec.Descriptor{})
		blobOK := false
		if len(blobs) == 1 && blobs[0].Size >= 0 && blobs[0].Size <= 64<<20 {
			_, err := content.FetchAll(ctx, quiet, blobs[0])
			blobOK = err == nil
		}
		return CApp("mk_fcase", CN(id), CApp("mk_freq", rdTerm(c.Desc), view, CBool(blobOK)), obs)
	}
	var nodes []string
	for i, p := range c.Preds {
		nid := int64(i)
		for j := 0; j < i; j++ {
			if q := c.Preds[j]; q.Digest == p.Digest && q.Size == p.Size && q.MediaType == p.MediaType {
				nid = int64(j)
				break
			}
		}
		view := "MVFetchErr"
		if mtTerm(p.MediaType) != "MTOther" {
			view, _ = viewOf(ctx, quiet, p, c.Desc)
		}
		nodes = append(nodes, CApp("mk_ln", CN(nid), rdTerm(p), view))
	}
	return CApp("mk_lcase", CN(id), CApp("mk_lreq", CBool(c.PredsErr), CList(nodes)), obs)
}

// ---------- generators ----------

type regBuilder struct {
	blobs map[string]string
	nonce int
}

func (b *regBuilder) put(mt string, data []byte) ocispec.Descriptor {
	d := ocispec.Descriptor{MediaType: mt, Digest: digest.FromBytes(data), Size: int64(len(data))}
	b.blobs[string(d.Digest)] = string(data)
	return d
}

// manifest of media type mt with the given layers / blobs, subject and artifact type;
// shape: 0 well-formed, 1 not JSON, 2 truncated, 3 "null", 4 layers of the wrong JSON type,
// 5 layers null, 6 a layer entry null, 7 the other manifest kind's member names
func (b *regBuilder) manifest(mt string, layers []ocispec.Descriptor, subject *ocispec.Descriptor, atype string, shape int) ocispec.Descriptor {
	b.nonce++
	m := map[string]any{"mediaType": mt, "annotations": map[string]string{"nonce": fmt.Sprint(b.nonce)}}
	var ls any = layers
	if layers == nil {
		ls = []ocispec.Descriptor{}
	}
	switch shape {
	case 4:
		ls = "x"
	case 5:
		ls = nil
	case 6:
		ls = []any{nil}
	}
	image := mt == ocispec.MediaTypeImageManifest
	if shape == 7 {
		image = !image
	}
	if image {
		m["schemaVersion"] = 2
		m["config"] = map[string]any{"mediaType": atype, "digest": ocispec.DescriptorEmptyJSON.Digest, "size": 2}
		m["layers"] = ls
	} else {
		m["artifactType"] = atype
		m["blobs"] = ls
	}
	if subject != nil {
		m["subject"] = subject
	}
	data, _ := json.Marshal(m)
	switch shape {
	case 1:
		data = []byte("<<not json " + fmt.Sprint(b.nonce))
	case 2:
		data = data[:len(data)/2]
	case 3:
		data = []byte("null" + strings.Repeat(" ", b.nonce%7))
	}
	return b.put(mt, data)
}

var hostileManifestSizes = []int64{-1, math.MinInt64, 0, capManifest, capManifest + 1, 6 << 20, 1 << 62, math.MaxInt64}
var hostileBlobSizes = []int64{-1, math.MinInt64, 0, capManifest + 1, capBlob, capBlob + 1, 40 << 20, 1 << 62, math.MaxInt64}

func genRegistry(a *Args, w *CaseWriter, id *int64) {
	r := NewRng(a.Seed + 7919)
	thorough := a.Tier == "thorough"
	emit := func(c *rcase, nontrivial bool) {
		my := *id
		*id++
		if !w.Want(my) {
			return
		}
		term := execReg(my, c)
		cc := *c
		cc.Obs, cc.Panic = "", ""
		kb, _ := json.Marshal(cc)
		w.Add(my, term, c, string(kb), nontrivial)
		w.Count("family", c.Fam)
		w.Count("entry", "registry."+c.Op)
		switch {
		case c.Obs == "RPanic":
			w.Count("observation", "panic (registry)")
		case strings.Contains(c.Obs, "RErr"):
			w.Count("observation", "returned an error")
		default:
			w.Count("observation", "returned without error")
		}
	}
	mts := []string{ocispec.MediaTypeImageManifest, mtArtifactManifest}
	otherMts := []string{"", "text/plain", ocispec.MediaTypeImageIndex, "application/vnd.cncf.oras.artifact.manifest.v1+json", strings.ToUpper(ocispec.MediaTypeImageManifest)}
	subject := ocispec.Descriptor{MediaType: ocispec.MediaTypeImageManifest, Digest: digest.FromString("artifact"), Size: 8}
	otherSubject := subject
	otherSubject.Size = 9

	// ---- FetchSignatureBlob: manifest kind x shape x number of blobs x declared sizes ----
	for _, mt := range mts {
		for shape := 0; shape <= 7; shape++ {
			for nb := 0; nb <= 3; nb++ {
				if shape != 0 && nb != 1 && !thorough && (shape+nb)%2 == 0 {
					continue
				}
				b := &regBuilder{blobs: map[string]string{}}
				var layers []ocispec.Descriptor
				for j := 0; j < nb; j++ {
					layers = append(layers, b.put(MtJWS, []byte(fmt.Sprintf("envelope-%d-%d", shape, j))))
				}
				md := b.manifest(mt, layers, &subject, artNotationType, shape)
				emit(&rcase{Fam: "registry", Op: "fetch", Note: fmt.Sprintf("shape %d, %d blobs", shape, nb), Blobs: b.blobs, Desc: md}, shape != 0 || nb != 1)
			}
		}
		// the manifest descriptor lies about its size / digest / media type
		for _, sz := range hostileManifestSizes {
			b := &regBuilder{blobs: map[string]string{}}
			layer := b.put(MtJWS, []byte("envelope"))
			md := b.manifest(mt, []ocispec.Descriptor{layer}, &subject, artNotationType, 0)
			real := md.Size
			md.Size = sz
			emit(&rcase{Fam: "registry", Op: "fetch", Note: "manifest size declared", Blobs: b.blobs, Desc: md}, true)
			for _, d := range []int64{-1, 1} {
				md.Size = real + d
				emit(&rcase{Fam: "registry", Op: "fetch", Note: "manifest size off by one", Blobs: b.blobs, Desc: md}, true)
			}
		}
		for _, omt := range otherMts {
			for _, sz := range []int64{0, 100, capManifest + 1, math.MaxInt64} {
				b := &regBuilder{blobs: map[string]string{}}
				layer := b.put(MtJWS, []byte("envelope"))
				md := b.manifest(mt, []ocispec.Descriptor{layer}, &subject, artNotationType, 0)
				md.MediaType = omt
				if sz != 100 {
					md.Size = sz
				}
				emit(&rcase{Fam: "registry", Op: "fetch", Note: "other media type", Blobs: b.blobs, Desc: md}, true)
			}
		}
		for _, dg := range []string{"", "sha256:zz", "md5:00", "sha256:" + strings.Repeat("0", 64)} {
			b := &regBuilder{blobs: map[string]string{}}
			layer := b.put(MtJWS, []byte("envelope"))
			md := b.manifest(mt, []ocispec.Descriptor{layer}, &subject, artNotationType, 0)
			md.Digest = digest.Digest(dg)
			emit(&rcase{Fam: "registry", Op: "fetch", Note: "manifest digest", Blobs: b.blobs, Desc: md}, true)
		}
		// the blob descriptor inside the manifest lies
		for _, sz := range hostileBlobSizes {
			if sz == capBlob && mt == mtArtifactManifest && !thorough {
				continue // one 32 MiB allocation per run is enough
			}
			b := &regBuilder{blobs: map[string]string{}}
			layer := b.put(MtCOSE, []byte("envelope bytes"))
			real := layer.Size
			layer.Size = sz
			md := b.manifest(mt, []ocispec.Descriptor{layer}, &subject, artNotationType, 0)
			emit(&rcase{Fam: "registry", Op: "fetch", Note: "blob size declared", Blobs: b.blobs, Desc: md}, true)
			// next to a second blob: the count test comes first
			layer2 := layer
			md2 := b.manifest(mt, []ocispec.Descriptor{layer, layer2}, &subject, artNotationType, 0)
			emit(&rcase{Fam: "registry", Op: "fetch", Note: "two blobs, declared sizes", Blobs: b.blobs, Desc: md2}, true)
			layer.Size = real + 1
			md3 := b.manifest(mt, []ocispec.Descriptor{layer}, &subject, artNotationType, 0)
			emit(&rcase{Fam: "registry", Op: "fetch", Note: "blob size off by one", Blobs: b.blobs, Desc: md3}, true)
		}
		for _, dg := range []string{"", "sha256:zz", "sha256:" + strings.Repeat("0", 64)} {
			b := &regBuilder{blobs: map[string]string{}}
			layer := b.put(MtJWS, []byte("envelope"))
			layer.Digest = digest.Digest(dg)
			md := b.manifest(mt, []ocispec.Descriptor{layer}, &subject, artNotationType, 0)
			emit(&rcase{Fam: "registry", Op: "fetch", Note: "blob digest", Blobs: b.blobs, Desc: md}, true)
		}
	}

	// ---- ListSignatures: one deviating node at every position among good ones ----
	good := func(b *regBuilder, mt string) ocispec.Descriptor {
		return b.manifest(mt, nil, &subject, artNotationType, 0)
	}
	type devFn func(b *regBuilder, mt string) ocispec.Descriptor
	devs := []devFn{
		func(b *regBuilder, mt string) ocispec.Descriptor { d := good(b, mt); d.Size = capManifest + 1; return d },
		func(b *regBuilder, mt string) ocispec.Descriptor { d := good(b, mt); d.Size = math.MaxInt64; return d },
		func(b *regBuilder, mt string) ocispec.Descriptor { d := good(b, mt); d.Size = 6 << 20; return d },
		func(b *regBuilder, mt string) ocispec.Descriptor { d := good(b, mt); d.Size = capManifest; return d },
		func(b *regBuilder, mt string) ocispec.Descriptor { d := good(b, mt); d.Size = -1; return d },
		func(b *regBuilder, mt string) ocispec.Descriptor { d := good(b, mt); d.Size++; return d },
		func(b *regBuilder, mt string) ocispec.Descriptor { d := good(b, mt); d.Digest = "sha256:zz"; return d },
		func(b *regBuilder, mt string) ocispec.Descriptor { return b.manifest(mt, nil, &subject, artNotationType, 1) },
		func(b *regBuilder, mt string) ocispec.Descriptor { return b.manifest(mt, nil, &subject, artNotationType, 2) },
		func(b *regBuilder, mt string) ocispec.Descriptor { return b.manifest(mt, nil, &subject, artNotationType, 3) },
		func(b *regBuilder, mt string) ocispec.Descriptor { return b.manifest(mt, nil, &subject, artNotationType, 7) },
		func(b *regBuilder, mt string) ocispec.Descriptor { return b.manifest(mt, nil, nil, artNotationType, 0) },
		func(b *regBuilder, mt string) ocispec.Descriptor { return b.manifest(mt, nil, &otherSubject, artNotationType, 0) },
		func(b *regBuilder, mt string) ocispec.Descriptor { return b.manifest(mt, nil, &subject, "application/vnd.example", 0) },
		func(b *regBuilder, mt string) ocispec.Descriptor { return b.manifest(mt, nil, &subject, "", 0) },
		func(b *regBuilder, mt string) ocispec.Descriptor { d := good(b, mt); d.MediaType = ocispec.MediaTypeImageIndex; return d },
		func(b *regBuilder, mt string) ocispec.Descriptor {
			d := good(b, mt)
			d.MediaType, d.Size = "text/plain", math.MaxInt64 // not a manifest: skipped whatever its size
			return d
		},
	}
	for di, dev := range devs {
		for pos := 0; pos < 3; pos++ {
			for mi, mt := range mts {
				if !thorough && (di+pos+mi)%2 == 1 && pos == 1 {
					continue
				}
				b := &regBuilder{blobs: map[string]string{}}
				var preds []ocispec.Descriptor
				for k := 0; k < 3; k++ {
					if k == pos {
						preds = append(preds, dev(b, mt))
					} else {
						preds = append(preds, good(b, mts[(k+mi)%2]))
					}
				}
				emit(&rcase{Fam: "registry", Op: "list", Note: fmt.Sprintf("deviation %d at %d", di, pos), Blobs: b.blobs, Desc: subject, Preds: preds}, true)
			}
		}
	}
	// nothing listed, Predecessors fails, the same node twice
	{
		b := &regBuilder{blobs: map[string]string{}}
		emit(&rcase{Fam: "registry", Op: "list", Note: "no referrer", Blobs: b.blobs, Desc: subject}, true)
		g := good(b, mts[0])
		emit(&rcase{Fam: "registry", Op: "list", Note: "predecessors fail", Blobs: b.blobs, Desc: subject, Preds: []ocispec.Descriptor{g}, PredsErr: true}, true)
		emit(&rcase{Fam: "registry", Op: "list", Note: "same node twice", Blobs: b.blobs, Desc: subject, Preds: []ocispec.Descriptor{g, good(b, mts[1]), g}}, true)
	}
	// random listings
	nRand := 150
	if thorough {
		nRand = 6000
	}
	for k := 0; k < nRand; k++ {
		b := &regBuilder{blobs: map[string]string{}}
		var preds []ocispec.Descriptor
		for j := r.Intn(6); j > 0; j-- {
			mt := Pick(r, mts)
			if r.Chance(1, 3) {
				preds = append(preds, Pick(r, devs)(b, mt))
			} else {
				preds = append(preds, good(b, mt))
			}
		}
		emit(&rcase{Fam: "registry", Op: "list", Note: "random", Blobs: b.blobs, Desc: subject, Preds: preds}, len(preds) > 0)
	}
}
