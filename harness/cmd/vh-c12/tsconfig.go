package main

// tsconfig: the configuration family around the timestamping revocation validator.
//
// verifier constructions {OCI-only, blob-only, both documents} x tsa store listed in {no statement, OCI statement,
// blob statement, both} x verifyTimestamp {unset, always, afterCertExpiry} x RevocationTimestampingValidator
// {injected, default} x entry point {Verify, VerifyBlob} x envelope {no countersignature, valid countersignature
// of the in-harness TSA, countersignature over another message} x signing chain {valid now, expired} x {JWS, COSE}.
// A VALID countersignature is what reaches step 5 of verifyTimestamp (the revocation check of the TSA chain through
// v.revocationTimestampingValidator); every other family of this harness stops before it. Every call runs under
// recover. Judged on the Go side (w.ImplViolation): the call returns, no error means an outcome without error, an
// error next to an outcome means that outcome's Error is set. The certificates of the in-harness TSA carry no
// OCSP / CRL pointers, so the default validator answers without any network access.
//
// The RFC 3161 token is CMS SignedData over a TSTInfo assembled with encoding/asn1 (as harness/cmd/vh-c06/tsa.go);
// what tspclient-go / crypto/x509 / notation-core-go make of it is observed (histogram tsconfig_result), never assumed.

import (
	"context"
	"crypto"
	"crypto/rand"
	"crypto/sha256"
	"crypto/x509/pkix"
	"encoding/asn1"
	"encoding/base64"
	"encoding/json"
	"fmt"
	"math/big"
	"strings"
	"time"
	. "vh/kit"

	"github.com/notaryproject/notation-core-go/revocation"
	revresult "github.com/notaryproject/notation-core-go/revocation/result"
	"github.com/notaryproject/notation-core-go/signature"
	"github.com/notaryproject/notation-go"
	"github.com/notaryproject/notation-go/verifier"
	"github.com/notaryproject/notation-go/verifier/trustpolicy"
	"github.com/notaryproject/notation-go/verifier/truststore"
	"github.com/notaryproject/tspclient-go"
	ocispec "github.com/opencontainers/image-spec/specs-go/v1"
	"github.com/veraison/go-cose"
)

var (
	tsOidSignedData    = asn1.ObjectIdentifier{1, 2, 840, 113549, 1, 7, 2}
	tsOidTSTInfo       = asn1.ObjectIdentifier{1, 2, 840, 113549, 1, 9, 16, 1, 4}
	tsOidContentType   = asn1.ObjectIdentifier{1, 2, 840, 113549, 1, 9, 3}
	tsOidMsgDigest     = asn1.ObjectIdentifier{1, 2, 840, 113549, 1, 9, 4}
	tsOidSigningCertV2 = asn1.ObjectIdentifier{1, 2, 840, 113549, 1, 9, 16, 2, 47}
	tsOidSHA256        = asn1.ObjectIdentifier{2, 16, 840, 1, 101, 3, 4, 2, 1}
	tsOidECDSASHA256   = asn1.ObjectIdentifier{1, 2, 840, 10045, 4, 3, 2}
	tsOidPolicy        = asn1.ObjectIdentifier{1, 3, 6, 1, 4, 1, 99999, 1}
)

type tsContentInfo struct {
	ContentType asn1.ObjectIdentifier
	Content     asn1.RawValue `asn1:"explicit,tag:0"`
}
type tsEncap struct {
	ContentType asn1.ObjectIdentifier
	Content     []byte `asn1:"explicit,optional,tag:0"`
}
type tsIssuerAndSerial struct {
	Issuer       asn1.RawValue
	SerialNumber *big.Int
}
type tsAttribute struct {
	Type   asn1.ObjectIdentifier
	Values asn1.RawValue `asn1:"set"`
}
type tsSignerInfo struct {
	Version            int
	SID                tsIssuerAndSerial
	DigestAlgorithm    pkix.AlgorithmIdentifier
	SignedAttributes   asn1.RawValue `asn1:"optional,tag:0"`
	SignatureAlgorithm pkix.AlgorithmIdentifier
	Signature          []byte
}
type tsSignedData struct {
	Version          int
	DigestAlgorithms []pkix.AlgorithmIdentifier `asn1:"set"`
	EncapContentInfo tsEncap
	Certificates     asn1.RawValue  `asn1:"optional,tag:0"`
	SignerInfos      []tsSignerInfo `asn1:"set"`
}
type tsEssCertIDv2 struct{ CertHash []byte }
type tsSigningCertV2 struct{ Certs []tsEssCertIDv2 }

func tsMust[T any](v T, err error) T {
	if err != nil {
		panic(err)
	}
	return v
}

func tsSetOf(der []byte) asn1.RawValue {
	return asn1.RawValue{Class: asn1.ClassUniversal, Tag: asn1.TagSet, IsCompound: true, Bytes: der}
}

// tsToken: an RFC 3161 token of the TSA chain (leaf first) over message, generated at genTime.
func tsToken(message []byte, genTime time.Time, tsa Chain) []byte {
	h := sha256.Sum256(message)
	info := tspclient.TSTInfo{Version: 1, Policy: tsOidPolicy,
		MessageImprint: tspclient.MessageImprint{HashAlgorithm: pkix.AlgorithmIdentifier{Algorithm: tsOidSHA256}, HashedMessage: h[:]},
		SerialNumber:   big.NewInt(42), GenTime: genTime.UTC().Truncate(time.Second), Accuracy: tspclient.Accuracy{Seconds: 1}}
	infoDER := tsMust(asn1.Marshal(info))
	md := sha256.Sum256(infoDER)
	ch := sha256.Sum256(tsa[0].C.Raw)
	a1 := tsMust(asn1.Marshal(tsAttribute{Type: tsOidContentType, Values: tsSetOf(tsMust(asn1.Marshal(tsOidTSTInfo)))}))
	a2 := tsMust(asn1.Marshal(tsAttribute{Type: tsOidMsgDigest, Values: tsSetOf(tsMust(asn1.Marshal(md[:])))}))
	a3 := tsMust(asn1.Marshal(tsAttribute{Type: tsOidSigningCertV2, Values: tsSetOf(tsMust(asn1.Marshal(tsSigningCertV2{Certs: []tsEssCertIDv2{{CertHash: ch[:]}}})))}))
	attrs := append(append(append([]byte{}, a1...), a2...), a3...)
	d := sha256.Sum256(tsMust(asn1.Marshal(tsSetOf(attrs))))
	sig := tsMust(tsa[0].Key.Sign(rand.Reader, d[:], crypto.SHA256))
	var certs []byte
	for _, c := range tsa {
		certs = append(certs, c.C.Raw...)
	}
	sd := tsSignedData{Version: 3, DigestAlgorithms: []pkix.AlgorithmIdentifier{{Algorithm: tsOidSHA256}},
		EncapContentInfo: tsEncap{ContentType: tsOidTSTInfo, Content: infoDER},
		Certificates:     asn1.RawValue{Class: asn1.ClassContextSpecific, Tag: 0, IsCompound: true, Bytes: certs},
		SignerInfos: []tsSignerInfo{{Version: 1, SID: tsIssuerAndSerial{Issuer: asn1.RawValue{FullBytes: tsa[0].C.RawIssuer}, SerialNumber: tsa[0].C.SerialNumber},
			DigestAlgorithm:    pkix.AlgorithmIdentifier{Algorithm: tsOidSHA256},
			SignedAttributes:   asn1.RawValue{Class: asn1.ClassContextSpecific, Tag: 0, IsCompound: true, Bytes: attrs},
			SignatureAlgorithm: pkix.AlgorithmIdentifier{Algorithm: tsOidECDSASHA256}, Signature: sig}}}
	sdDER := tsMust(asn1.Marshal(sd))
	return tsMust(asn1.Marshal(tsContentInfo{ContentType: tsOidSignedData, Content: asn1.RawValue{Class: asn1.ClassContextSpecific, Tag: 0, IsCompound: true, Bytes: sdDER}}))
}

// tsAttach puts the countersignature into the unsigned part of the envelope.
func tsAttach(format string, env, token []byte) []byte {
	if format == MtJWS {
		var m map[string]json.RawMessage
		tsMust(0, json.Unmarshal(env, &m))
		var h map[string]any
		tsMust(0, json.Unmarshal(m["header"], &h))
		h["io.cncf.notary.timestampSignature"] = base64.StdEncoding.EncodeToString(token)
		m["header"] = tsMust(json.Marshal(h))
		return tsMust(json.Marshal(m))
	}
	var msg cose.Sign1Message
	tsMust(0, msg.UnmarshalCBOR(env))
	msg.Headers.Unprotected["io.cncf.notary.timestampSignature"] = token
	msg.Headers.RawUnprotected = nil
	return tsMust(msg.MarshalCBOR())
}

type tsCase struct {
	Part     string `json:"part"`
	Cons     string `json:"construction"`       // oci | blob | both
	TSAIn    string `json:"tsa_store_in"`       // none | oci | blob | both
	Opt      string `json:"verify_timestamp"`   // "" | always | afterCertExpiry
	Injected bool   `json:"validator_injected"` // RevocationTimestampingValidator given to the constructor
	Entry    string `json:"entry"`              // Verify | VerifyBlob
	Env      string `json:"envelope"`           // none | valid | wrong
	Expired  bool   `json:"signing_chain_expired"`
	Format   string `json:"format"`
	Result   string `json:"result,omitempty"`
	Viol     string `json:"violation,omitempty"`
}

type tsOKValidator struct{}

func (tsOKValidator) ValidateContext(ctx context.Context, o revocation.ValidateContextOptions) ([]*revresult.CertRevocationResult, error) {
	out := make([]*revresult.CertRevocationResult, len(o.CertChain))
	for i := range out {
		out[i] = &revresult.CertRevocationResult{Result: revresult.ResultOK}
	}
	return out, nil
}

type tsWorld struct {
	now      time.Time
	signNow  Chain // valid now
	signOld  Chain // expired an hour ago
	tsa      Chain
	store    *MockStore
	desc     ocispec.Descriptor
	envCache map[string][]byte
}

func newTSWorld(e *env) *tsWorld {
	now := time.Now()
	w := &tsWorld{now: now, desc: e.desc, envCache: map[string][]byte{}}
	w.signNow = NewChain("c12 ts signer", 2, now.Add(-96*time.Hour), now.Add(96*time.Hour))
	w.signOld = NewChain("c12 ts old signer", 2, now.Add(-96*time.Hour), now.Add(-time.Hour))
	root := Mint(CertSpec{Subject: Name("c12 tsa root"), NotBefore: now.Add(-960 * time.Hour), NotAfter: now.Add(960 * time.Hour), IsCA: true}, nil)
	leaf := Mint(CertSpec{Subject: Name("c12 tsa leaf"), NotBefore: now.Add(-960 * time.Hour), NotAfter: now.Add(960 * time.Hour), TSA: true}, root)
	w.tsa = Chain{leaf, root}
	w.store = NewMockStore()
	w.store.Put(truststore.TypeCA, "signers", w.signNow[1].C, w.signOld[1].C)
	w.store.Put(truststore.TypeTSA, "stamps", root.C)
	return w
}

func (w *tsWorld) envelope(c *tsCase) []byte {
	key := fmt.Sprintf("%s|%s|%v", c.Format, c.Env, c.Expired)
	if b, ok := w.envCache[key]; ok {
		return b
	}
	chain, at := w.signNow, w.now.Add(-2*time.Hour)
	if c.Expired {
		chain = w.signOld
	}
	env := tsMust(SignEnvelope(EnvSpec{Format: c.Format, Chain: chain, Payload: PayloadFor(w.desc), Scheme: signature.SigningSchemeX509, SigningTime: at}))
	if c.Env != "none" {
		content := tsMust(CoreVerify(c.Format, env))
		msg := content.SignerInfo.Signature
		if c.Env == "wrong" {
			msg = append([]byte("not the signature value"), msg...)
		}
		env = tsAttach(c.Format, env, tsToken(msg, at.Add(time.Minute), w.tsa))
		tsMust(CoreVerify(c.Format, env)) // still an envelope that verifies
	}
	w.envCache[key] = env
	return env
}

func (w *tsWorld) exec(e *env, c *tsCase) {
	stores := func(withTSA bool) []string {
		if withTSA {
			return []string{"ca:signers", "tsa:stamps"}
		}
		return []string{"ca:signers"}
	}
	sv := trustpolicy.SignatureVerification{VerificationLevel: "strict", VerifyTimestamp: trustpolicy.TimestampOption(c.Opt)}
	var opts verifier.VerifierOptions
	if c.Cons != "blob" {
		opts.OCITrustPolicy = &trustpolicy.OCIDocument{Version: "1.0", TrustPolicies: []trustpolicy.OCITrustPolicy{{
			Name: "p", RegistryScopes: []string{TestScope}, SignatureVerification: sv,
			TrustStores: stores(c.TSAIn == "oci" || c.TSAIn == "both"), TrustedIdentities: []string{"*"}}}}
	}
	if c.Cons != "oci" {
		opts.BlobTrustPolicy = &trustpolicy.BlobDocument{Version: "1.0", TrustPolicies: []trustpolicy.BlobTrustPolicy{{
			Name: "b", SignatureVerification: sv,
			TrustStores: stores(c.TSAIn == "blob" || c.TSAIn == "both"), TrustedIdentities: []string{"*"}}}}
	}
	opts.RevocationCodeSigningValidator = tsOKValidator{}
	if c.Injected {
		opts.RevocationTimestampingValidator = tsOKValidator{}
	}
	defer func() {
		if r := recover(); r != nil {
			c.Viol = "panic: " + Short(fmt.Sprint(r), 200)
		}
	}()
	v, err := verifier.NewVerifierWithOptions(w.store, opts)
	if err != nil {
		c.Viol = "constructor refused a valid configuration: " + err.Error()
		return
	}
	sig := w.envelope(c)
	ctx := context.Background()
	var o *notation.VerificationOutcome
	if c.Entry == "Verify" {
		o, err = v.Verify(ctx, w.desc, sig, notation.VerifierVerifyOptions{ArtifactReference: e.ref, SignatureMediaType: c.Format})
	} else {
		o, err = v.VerifyBlob(ctx, e.descGen(okSc()), sig, notation.BlobVerifierVerifyOptions{SignatureMediaType: c.Format, TrustPolicyName: "b"})
	}
	switch {
	case err == nil && o == nil:
		c.Viol = "no error and a nil outcome"
	case err == nil && o.Error != nil:
		c.Viol = "no error next to an outcome whose Error is set: " + o.Error.Error()
	case err != nil && o != nil && o.Error == nil:
		c.Viol = "an error next to an outcome without Error: " + err.Error()
	}
	switch {
	case err == nil:
		c.Result = "verified"
	case strings.Contains(err.Error(), "ociTrustPolicyDoc is nil"), strings.Contains(err.Error(), "blobTrustPolicyDoc is nil"):
		c.Result = "wrong kind of verifier"
	case strings.Contains(err.Error(), "no timestamp countersignature"):
		c.Result = "countersignature missing"
	case strings.Contains(err.Error(), "failed to get timestamp from timestamp countersignature"):
		c.Result = "countersignature over another message"
	case strings.Contains(err.Error(), "validity period"):
		c.Result = "signing chain not valid at the time of verification"
	default:
		c.Result = "other: " + Short(err.Error(), 80)
	}
}

// runTSConfig emits nothing into the Coq case files: the family is judged on the Go side.
func runTSConfig(a *Args, w *CaseWriter, id *int64, e *env) {
	tw := newTSWorld(e)
	n, reached := 0, 0
	for _, cons := range []string{"oci", "blob", "both"} {
		for _, tsaIn := range []string{"none", "oci", "blob", "both"} {
			if (cons == "oci" && (tsaIn == "blob" || tsaIn == "both")) || (cons == "blob" && (tsaIn == "oci" || tsaIn == "both")) {
				continue // the statement does not exist
			}
			for _, opt := range []string{"", "always", "afterCertExpiry"} {
				for _, injected := range []bool{true, false} {
					for _, entry := range []string{"Verify", "VerifyBlob"} {
						for _, envk := range []string{"none", "valid", "wrong"} {
							for _, expired := range []bool{false, true} {
								for _, format := range []string{MtJWS, MtCOSE} {
									if a.Tier != "thorough" && format == MtCOSE && (envk != "valid" || expired) {
										continue
									}
									*id++
									my := *id
									if !w.Want(my) {
										continue
									}
									c := &tsCase{Part: "tsconfig", Cons: cons, TSAIn: tsaIn, Opt: opt, Injected: injected, Entry: entry, Env: envk, Expired: expired, Format: format}
									tw.exec(e, c)
									n++
									w.Count("tsconfig_result", c.Result)
									if c.Result == "verified" && envk == "valid" && tsaIn != "none" {
										reached++
									}
									if c.Viol != "" {
										w.ImplViolation(my, "tsconfig "+c.Entry+": "+c.Viol, c, "")
									}
								}
							}
						}
					}
				}
			}
		}
	}
	w.Set("tsconfig_cases", n)
	w.Set("tsconfig_reached_tsa_revocation_check", reached)
	w.Set("tsconfig_rule", "Go-side family (not evaluated in Coq): constructions {OCI-only, blob-only, both} x tsa store listed in {no statement, OCI, blob, both} x verifyTimestamp {unset, always, afterCertExpiry} x timestamping validator {injected, default} x {Verify, VerifyBlob} x envelope {no countersignature, valid countersignature of the in-harness TSA, countersignature over another message} x signing chain {valid, expired} x {JWS, COSE}; every call under recover; expected: returns, (outcome, error) consistent")
}
