package main

// crlentry: CRL cache entries made of hand-built CRLs.
//
// x509.CreateRevocationList always writes a CRL Number and an authority key identifier; crypto/x509 PARSES much
// more than that. The TBSCertList is assembled here with encoding/asn1 and signed with the harness CA key: no
// extensions at all, v1, no CRL Number, Number = 0, a 20-byte Number, a negative-looking INTEGER, no NextUpdate,
// ThisUpdate in the future, an unknown critical extension, empty revoked list vs absent vs one entry, duplicate
// extensions, a proper delta CRL indicator; issuers A / B. Base x delta combinations (incl. different issuers) go
// through three routes: FileCache.Set then Get, a planted cache file then Get, and notation-core-go's HTTPFetcher
// (cache in front of an in-process HTTP transport serving the same CRLs; cold = empty cache first). Every call under
// recover; judged on the Go side (w.ImplViolation): the call returns (bundle, miss or error) and no error means a
// bundle with a base CRL. Nothing checks a CRL signature before it is cached, so every such entry is attacker
// reachable (plain-HTTP CRL answer, or write access to the cache directory).

import (
	"bytes"
	"context"
	"crypto"
	"crypto/rand"
	"crypto/sha256"
	"crypto/x509"
	"crypto/x509/pkix"
	"encoding/asn1"
	"encoding/hex"
	"encoding/json"
	"fmt"
	"io"
	"math/big"
	"net/http"
	"os"
	"path/filepath"
	"time"
	. "vh/kit"

	corecrl "github.com/notaryproject/notation-core-go/revocation/crl"
	"github.com/notaryproject/notation-go/verifier/crl"
)

var (
	crlOidNumber    = asn1.ObjectIdentifier{2, 5, 29, 20}
	crlOidDelta     = asn1.ObjectIdentifier{2, 5, 29, 27}
	crlOidAKI       = asn1.ObjectIdentifier{2, 5, 29, 35}
	crlOidUnknown   = asn1.ObjectIdentifier{1, 3, 6, 1, 4, 1, 99999, 12}
	crlOidECDSA256  = asn1.ObjectIdentifier{1, 2, 840, 10045, 4, 3, 2}
	crlShapeNames   = []string{"as CreateRevocationList makes it", "v2 without extensions", "v1", "extensions without CRL Number", "Number = 0", "20-byte Number", "negative-looking Number", "no NextUpdate", "ThisUpdate in the future", "unknown critical extension", "empty revoked list", "one revoked entry", "CRL Number twice", "delta CRL indicator, Number above the base", "delta CRL indicator without CRL Number", "expired"}
	crlDeltaShapes  = []int{-1, 0, 1, 3, 13, 14}
	crlOtherIssuerD = []int{0, 3, 13}
)

func crlSeq(parts ...[]byte) []byte {
	return tsMust(asn1.Marshal(asn1.RawValue{Class: asn1.ClassUniversal, Tag: asn1.TagSequence, IsCompound: true, Bytes: bytes.Join(parts, nil)}))
}

func crlRawInt(b []byte) []byte {
	return tsMust(asn1.Marshal(asn1.RawValue{Class: asn1.ClassUniversal, Tag: asn1.TagInteger, Bytes: b}))
}

func crlExt(oid asn1.ObjectIdentifier, critical bool, value []byte) []byte {
	return tsMust(asn1.Marshal(pkix.Extension{Id: oid, Critical: critical, Value: value}))
}

// handCRL builds and signs one CRL of the given shape for the issuer.
func handCRL(shape int, ca *Cert, now time.Time) []byte {
	number := func(n int64) []byte { return crlExt(crlOidNumber, false, tsMust(asn1.Marshal(big.NewInt(n)))) }
	aki := crlExt(crlOidAKI, false, crlSeq(tsMust(asn1.Marshal(asn1.RawValue{Class: asn1.ClassContextSpecific, Tag: 0, Bytes: ca.C.SubjectKeyId}))))
	this, next := now.Add(-time.Hour), now.Add(24*time.Hour)
	version, withNext := true, true
	var revoked []byte // nil = absent
	exts := [][]byte{aki, number(5)}
	switch shape {
	case 1:
		exts = nil
	case 2:
		version, exts = false, nil
	case 3:
		exts = [][]byte{aki}
	case 4:
		exts = [][]byte{aki, number(0)}
	case 5:
		exts = [][]byte{aki, crlExt(crlOidNumber, false, crlRawInt(bytes.Repeat([]byte{0x7f}, 20)))}
	case 6:
		exts = [][]byte{aki, crlExt(crlOidNumber, false, crlRawInt([]byte{0x80, 0x01}))}
	case 7:
		withNext = false
	case 8:
		this = now.Add(2 * time.Hour)
	case 9:
		exts = append(exts, crlExt(crlOidUnknown, true, []byte{0x05, 0x00}))
	case 10:
		revoked = crlSeq()
	case 11:
		revoked = crlSeq(crlSeq(tsMust(asn1.Marshal(big.NewInt(77))), tsMust(asn1.Marshal(now.Add(-2*time.Hour).UTC().Truncate(time.Second)))))
	case 12:
		exts = [][]byte{aki, number(5), number(6)}
	case 13:
		exts = [][]byte{aki, number(9), crlExt(crlOidDelta, true, tsMust(asn1.Marshal(big.NewInt(5))))}
	case 14:
		exts = [][]byte{aki, crlExt(crlOidDelta, true, tsMust(asn1.Marshal(big.NewInt(5))))}
	case 15:
		this, next = now.Add(-48*time.Hour), now.Add(-time.Minute)
	}
	alg := tsMust(asn1.Marshal(pkix.AlgorithmIdentifier{Algorithm: crlOidECDSA256}))
	var tbs [][]byte
	if version {
		tbs = append(tbs, tsMust(asn1.Marshal(1)))
	}
	tbs = append(tbs, alg, ca.C.RawSubject, tsMust(asn1.Marshal(this.UTC().Truncate(time.Second))))
	if withNext {
		tbs = append(tbs, tsMust(asn1.Marshal(next.UTC().Truncate(time.Second))))
	}
	if revoked != nil {
		tbs = append(tbs, revoked)
	}
	if exts != nil {
		tbs = append(tbs, tsMust(asn1.Marshal(asn1.RawValue{Class: asn1.ClassContextSpecific, Tag: 0, IsCompound: true, Bytes: crlSeq(exts...)})))
	}
	tbsDER := crlSeq(tbs...)
	d := sha256.Sum256(tbsDER)
	sig := tsMust(ca.Key.Sign(rand.Reader, d[:], crypto.SHA256))
	return crlSeq(tbsDER, alg, tsMust(asn1.Marshal(asn1.BitString{Bytes: sig, BitLength: 8 * len(sig)})))
}

type crlCase struct {
	Part        string `json:"part"`
	Route       string `json:"route"` // set | file | fetch | fetch-cold
	Base        string `json:"base_crl"`
	Delta       string `json:"delta_crl,omitempty"`
	OtherIssuer bool   `json:"delta_of_another_issuer,omitempty"`
	BaseParses  bool   `json:"base_parses"`
	DeltaParses bool   `json:"delta_parses,omitempty"`
	Result      string `json:"result,omitempty"`
	Viol        string `json:"violation,omitempty"`
}

type crlTransport struct{ served map[string][]byte }

func (t crlTransport) RoundTrip(r *http.Request) (*http.Response, error) {
	b, ok := t.served[r.URL.String()]
	if !ok {
		return &http.Response{StatusCode: 404, Status: "404 Not Found", Body: io.NopCloser(bytes.NewReader(nil)), Request: r, Header: http.Header{}}, nil
	}
	return &http.Response{StatusCode: 200, Status: "200 OK", Body: io.NopCloser(bytes.NewReader(b)), ContentLength: int64(len(b)), Request: r, Header: http.Header{}}, nil
}

func runCRLEntries(a *Args, w *CaseWriter, id *int64) {
	tmp, err := os.MkdirTemp("", "vh-c12-crlentry-")
	if err != nil {
		panic(err)
	}
	defer os.RemoveAll(tmp)
	now := time.Now()
	mkCA := func(cn string) *Cert {
		ca := Mint(CertSpec{Subject: Name(cn), IsCA: true}, nil)
		if len(ca.C.SubjectKeyId) == 0 {
			ca.C.SubjectKeyId = []byte{1, 2, 3, 4}
		}
		return ca
	}
	caA, caB := mkCA("c12 crlentry ca A"), mkCA("c12 crlentry ca B")
	ctx := context.Background()
	url := "http://crl.example/entry.crl"
	n, parsed := 0, 0
	one := func(c *crlCase, base, delta []byte) {
		*id++
		my := *id
		if !w.Want(my) {
			return
		}
		n++
		root := filepath.Join(tmp, fmt.Sprint(my))
		func() {
			defer func() {
				if r := recover(); r != nil {
					c.Viol = "panic: " + Short(fmt.Sprint(r), 200)
				}
			}()
			cache, err := crl.NewFileCache(root)
			if err != nil {
				panic(err)
			}
			pb, perr := x509.ParseRevocationList(base)
			c.BaseParses = perr == nil
			var pd *x509.RevocationList
			if delta != nil {
				var derr error
				pd, derr = x509.ParseRevocationList(delta)
				c.DeltaParses = derr == nil
			}
			if c.BaseParses {
				parsed++
			}
			plant := func() {
				m := map[string]any{"baseCRL": base}
				if delta != nil {
					m["deltaCRL"] = delta
				}
				sum := sha256.Sum256([]byte(url))
				if err := os.WriteFile(filepath.Join(root, hex.EncodeToString(sum[:])), tsMust(json.Marshal(m)), 0o600); err != nil {
					panic(err)
				}
			}
			var b *corecrl.Bundle
			switch c.Route {
			case "set":
				if !c.BaseParses || (delta != nil && !c.DeltaParses) {
					c.Result = "not storable: crypto/x509 does not parse it"
					return
				}
				if err := cache.Set(ctx, url, &corecrl.Bundle{BaseCRL: pb, DeltaCRL: pd}); err != nil {
					c.Result = "Set refused"
					return
				}
				b, err = cache.Get(ctx, url)
			case "file":
				plant()
				b, err = cache.Get(ctx, url)
			default:
				if c.Route == "fetch" {
					plant()
				}
				f, ferr := corecrl.NewHTTPFetcher(&http.Client{Transport: crlTransport{served: map[string][]byte{url: base}}, Timeout: 2 * time.Second})
				if ferr != nil {
					panic(ferr)
				}
				f.Cache = cache
				b, err = f.Fetch(ctx, url)
				if err == nil && c.Route == "fetch-cold" {
					b, err = cache.Get(ctx, url) // what the download stored
				}
			}
			switch {
			case err == nil && (b == nil || b.BaseCRL == nil):
				c.Viol = "no error and no bundle / no base CRL"
			case err == nil:
				c.Result = "bundle"
			case err == corecrl.ErrCacheMiss:
				c.Result = "miss"
			default:
				c.Result = "error"
			}
		}()
		w.Count("crlentry_result", c.Route+": "+c.Result)
		if c.Viol != "" {
			w.ImplViolation(my, "crlentry "+c.Route+": "+c.Viol, c, "")
		}
	}
	for _, route := range []string{"set", "file", "fetch", "fetch-cold"} {
		for bs := range crlShapeNames {
			base := handCRL(bs, caA, now)
			for _, ds := range crlDeltaShapes {
				if route == "fetch-cold" && ds != -1 {
					continue // the transport serves the base only
				}
				c := &crlCase{Part: "crlentry", Route: route, Base: crlShapeNames[bs]}
				var delta []byte
				if ds >= 0 {
					delta = handCRL(ds, caA, now)
					c.Delta = crlShapeNames[ds]
				}
				one(c, base, delta)
			}
		}
		if route == "fetch-cold" {
			continue
		}
		// a normal base with every delta shape; deltas of another issuer
		for ds := range crlShapeNames {
			one(&crlCase{Part: "crlentry", Route: route, Base: crlShapeNames[0], Delta: crlShapeNames[ds]}, handCRL(0, caA, now), handCRL(ds, caA, now))
		}
		for _, bs := range []int{0, 3} {
			for _, ds := range crlOtherIssuerD {
				one(&crlCase{Part: "crlentry", Route: route, Base: crlShapeNames[bs], Delta: crlShapeNames[ds], OtherIssuer: true}, handCRL(bs, caA, now), handCRL(ds, caB, now))
			}
		}
	}
	w.Set("crlentry_cases", n)
	w.Set("crlentry_base_parsed_by_crypto_x509", parsed)
	w.Set("crlentry_rule", "Go-side family (not evaluated in Coq): hand-built CRLs (TBSCertList assembled with encoding/asn1, signed by the harness CA) of 16 shapes x delta {none, 5 shapes} + a normal base x every delta shape + deltas of another issuer, through FileCache.Set+Get, a planted cache file + Get, HTTPFetcher.Fetch over the planted cache, and a cold HTTPFetcher.Fetch (in-process transport) + Get; every call under recover; expected: returns (bundle, miss or error), no error means a bundle with a base CRL")
}
