package main

// Concurrency family (HOWTO lesson 7): K goroutines share ONE verifier (and one
// process); each call has its own input and is judged against its own
// expectation. The whole family runs in a re-executed child process, so that a
// fatal runtime error ("concurrent map writes" is not recoverable) shows as
// exit status + stderr and is recorded with ImplViolation instead of killing
// the driver. A sample of the calls is handed back and emitted as ordinary
// cases (evaluated in Coq against the model).

import (
	"bufio"
	"bytes"
	"context"
	"crypto/x509"
	"encoding/json"
	"fmt"
	"os"
	"os/exec"
	"runtime"
	"strings"
	"sync"
	"time"
	. "vh/kit"

	"github.com/notaryproject/notation-go"
	"github.com/notaryproject/notation-go/verifier"
	"github.com/notaryproject/notation-go/verifier/trustpolicy"
	"github.com/notaryproject/notation-go/verifier/truststore"
	"github.com/opencontainers/go-digest"
	ocispec "github.com/opencontainers/image-spec/specs-go/v1"
)

const (
	concEnv        = "VH_C12_CONCURRENCY_CHILD"
	concGoroutines = 16
	concCalls      = 300
	concSample     = 12 // calls per goroutine handed back as ordinary cases
)

// yieldingStore lets another goroutine run inside the window of a call.
type yieldingStore struct{ inner truststore.X509TrustStore }

func (y yieldingStore) GetCertificates(ctx context.Context, t truststore.Type, n string) ([]*x509.Certificate, error) {
	runtime.Gosched()
	c, err := y.inner.GetCertificates(ctx, t, n)
	runtime.Gosched()
	return c, err
}

type concLine struct {
	G    int    `json:"g"`
	I    int    `json:"i"`
	Case *lcase `json:"case,omitempty"`
	Obs  string `json:"obs,omitempty"`
	Viol string `json:"violation,omitempty"`
}

// concChild is the body of the child process: it writes one JSON line per
// sampled call / per violated expectation to the file named by the environment.
func concChild(spec string) {
	parts := strings.SplitN(spec, "|", 3) // seed | round | output file
	var seed uint64
	var round int
	fmt.Sscan(parts[0], &seed)
	fmt.Sscan(parts[1], &round)
	out, err := os.Create(parts[2])
	if err != nil {
		fmt.Fprintln(os.Stderr, err)
		os.Exit(3)
	}
	bw := bufio.NewWriter(out)
	var mu sync.Mutex
	emit := func(l concLine) {
		b, _ := json.Marshal(l)
		mu.Lock()
		bw.Write(b)
		bw.WriteByte('\n')
		mu.Unlock()
	}
	e := newEnv()
	ctx := context.Background()
	// ONE verifier: wildcard strict statement, a skip statement, two exact scopes; OCI + blob (round 1: OCI only)
	stmt := func(name, level string, scopes ...string) trustpolicy.OCITrustPolicy {
		p := trustpolicy.OCITrustPolicy{Name: name, RegistryScopes: scopes, SignatureVerification: trustpolicy.SignatureVerification{VerificationLevel: level}}
		if level != "skip" {
			p.TrustStores, p.TrustedIdentities = []string{"ca:s"}, []string{"*"}
		}
		return p
	}
	oci := &trustpolicy.OCIDocument{Version: "1.0", TrustPolicies: []trustpolicy.OCITrustPolicy{
		stmt("wild", "strict", "*"), stmt("skipped", "skip", "reg.example/skipped"),
		stmt("exact", "permissive", TestScope, "reg.example/second"), stmt("aud", "audit", "reg.example/b"),
	}}
	levelOf := func(repo string) string {
		switch repo {
		case "reg.example/skipped":
			return "skip"
		case TestScope, "reg.example/second":
			return "permissive"
		case "reg.example/b":
			return "audit"
		}
		return "strict"
	}
	opts := verifier.VerifierOptions{OCITrustPolicy: oci}
	withBlob := round != 1
	if withBlob {
		opts.BlobTrustPolicy = &trustpolicy.BlobDocument{Version: "1.0", TrustPolicies: []trustpolicy.BlobTrustPolicy{
			{Name: "bp", SignatureVerification: trustpolicy.SignatureVerification{VerificationLevel: "permissive"}, TrustStores: []string{"ca:s"}, TrustedIdentities: []string{"*"}, GlobalPolicy: true},
			{Name: "sk", SignatureVerification: trustpolicy.SignatureVerification{VerificationLevel: "skip"}},
		}}
	}
	ms := NewMockStore()
	ms.Put(truststore.TypeCA, "s", e.good[len(e.good)-1].C)
	script, _ := NewRevScript(nil, nil)
	e.scriptRev(script, okSc())
	opts.RevocationCodeSigningValidator = script.Validator()
	v, err := verifier.NewVerifierWithOptions(yieldingStore{ms}, opts)
	if err != nil {
		fmt.Fprintln(os.Stderr, "construct:", err)
		os.Exit(3)
	}
	// envelopes are minted before the goroutines start (the cache of env is not shared state under test)
	envs := map[string][]byte{}
	for _, f := range []string{MtJWS, MtCOSE} {
		for _, sg := range []int{1, 2} {
			s := okSc()
			s.Format, s.Sig = f, sg
			envs[fmt.Sprintf("%s|%d", f, sg)] = e.envelope(s)
		}
	}
	fixedRepos := []string{TestScope, "reg.example/second", "reg.example/b", "reg.example/skipped"}
	var wg sync.WaitGroup
	for g := 0; g < concGoroutines; g++ {
		wg.Add(1)
		go func(g int) {
			defer wg.Done()
			r := NewRng(seed*1000 + uint64(round)*100 + uint64(g))
			for i := 0; i < concCalls; i++ {
				// many different repositories, so that scopes not seen before keep appearing
				repo := fmt.Sprintf("reg.example/g%d/r%d", g, i)
				if r.Chance(1, 3) {
					repo = Pick(r, fixedRepos)
				}
				lvl := levelOf(repo)
				ref := repo + "@" + e.desc.Digest.String()
				s := okSc()
				s.Format = Pick(r, []string{MtJWS, MtCOSE})
				s.Sig = Pick(r, []int{2, 2, 1})
				sig := envs[fmt.Sprintf("%s|%d", s.Format, s.Sig)]
				c := &lcase{Fam: "concurrency", OCI: docCfg{Kind: 2, Level: lvl}, PM: pmCfg{Kind: 0}, Impl: implCfg{Kind: 1}, Sc: s, N: okN()}
				if withBlob {
					c.Blob = docCfg{Kind: 2, Level: "permissive", Global: true}
				}
				entries := []string{"Verify", "SkipVerify", "NVerify"}
				if withBlob {
					entries = append(entries, "VerifyBlob")
				}
				c.Entry = Pick(r, entries)
				fail := func(format string, a ...any) {
					emit(concLine{Case: c, Viol: fmt.Sprintf("goroutine %d call %d %s %s: ", g, i, c.Entry, ref) + fmt.Sprintf(format, a...)})
				}
				var obs string
				func() {
					defer func() {
						if p := recover(); p != nil {
							obs = "OPanic"
							fail("panic: %v", p)
						}
					}()
					switch c.Entry {
					case "Verify":
						o, err := v.Verify(ctx, e.desc, sig, notation.VerifierVerifyOptions{ArtifactReference: ref, SignatureMediaType: s.Format})
						obs = retTerm(false, "None", []*notation.VerificationOutcome{o}, o != nil, err)
						switch {
						case o == nil:
							fail("nil outcome (err %v)", err)
						case !sameErr(o.Error, err):
							fail("outcome.Error %v is not the returned error %v", o.Error, err)
						case o.VerificationLevel == nil || o.VerificationLevel.Name != lvl:
							fail("outcome level %v, the statement of this repository says %s", o.VerificationLevel, lvl)
						case (err == nil) != (lvl == "skip" || s.Sig == 2):
							fail("verdict %v does not belong to this signature (valid=%v, level %s)", err, s.Sig == 2, lvl)
						case !bytes.Equal(o.RawSignature, sig):
							fail("outcome carries another call's signature")
						}
					case "SkipVerify":
						skip, l, err := v.SkipVerify(ctx, notation.VerifierVerifyOptions{ArtifactReference: ref})
						obs = CApp("ORet", CBool(skip), levelName(l), "[]", errClass(err, nil))
						if err != nil || l == nil || l.Name != lvl || skip != (lvl == "skip") {
							fail("got (%v, %v, %v), the statement of this repository says %s", skip, l, err, lvl)
						}
					case "VerifyBlob":
						name := Pick(r, []string{"", "bp", "sk"})
						want := "permissive"
						c.Blob = docCfg{Kind: 2, Level: "permissive", Global: name == ""}
						if name == "sk" {
							want = "skip"
							c.Blob = docCfg{Kind: 2, Level: "skip"}
						}
						o, err := v.VerifyBlob(ctx, e.descGen(s), sig, notation.BlobVerifierVerifyOptions{SignatureMediaType: s.Format, TrustPolicyName: name})
						obs = retTerm(false, "None", []*notation.VerificationOutcome{o}, o != nil, err)
						switch {
						case o == nil:
							fail("nil outcome (err %v)", err)
						case !sameErr(o.Error, err):
							fail("outcome.Error %v is not the returned error %v", o.Error, err)
						case o.VerificationLevel == nil || o.VerificationLevel.Name != want:
							fail("outcome level %v, statement %q says %s", o.VerificationLevel, name, want)
						case (err == nil) != (want == "skip" || s.Sig == 2):
							fail("verdict %v does not belong to this signature", err)
						}
					case "NVerify":
						bad := s
						bad.Sig = 1
						items := []scCfg{bad, s}
						c.N = nreqCfg{Max: 3, Ref: 2, Items: items}
						c.Sc = okSc()
						repoM := &mockRepo{e: e, n: c.N, blobs: map[digest.Digest][]byte{}, formats: map[digest.Digest]string{}}
						for k, it := range items {
							md := ocispec.Descriptor{MediaType: ocispec.MediaTypeImageManifest, Digest: digest.FromString(fmt.Sprintf("sigmanifest-%d", k)), Size: 100}
							repoM.list = append(repoM.list, md)
							repoM.blobs[md.Digest] = envs[fmt.Sprintf("%s|%d", it.Format, it.Sig)]
							repoM.formats[md.Digest] = it.Format
						}
						d, outs, err := notation.Verify(ctx, v, repoM, notation.VerifyOptions{ArtifactReference: ref, MaxSignatureAttempts: 3})
						obs = retTerm(descSet(d), "None", outs, true, err)
						ok := lvl == "skip" || s.Sig == 2
						switch {
						case (err == nil) != ok:
							fail("verdict %v does not belong to these signatures (level %s, second valid=%v)", err, lvl, s.Sig == 2)
						case err == nil && (len(outs) != 1 || outs[0] == nil || outs[0].Error != nil || outs[0].VerificationLevel == nil || outs[0].VerificationLevel.Name != lvl):
							fail("no error but outcomes %v do not fit level %s", outs, lvl)
						case err != nil && len(outs) != 0:
							fail("an error next to %d outcomes", len(outs))
						}
					}
				}()
				if i < concSample && round == 0 {
					cc := *c
					emit(concLine{G: g, I: i, Case: &cc, Obs: obs})
				}
				if i%7 == 0 {
					runtime.Gosched()
				}
			}
		}(g)
	}
	wg.Wait()
	bw.Flush()
	out.Close()
	os.Exit(0)
}

// runConcurrency re-executes the harness binary as child (rounds times),
// records crashes and violated expectations and emits the sampled calls.
func runConcurrency(a *Args, w *CaseWriter, id *int64, emitObserved func(id int64, c *lcase, obs string)) {
	rounds := 3
	self, err := os.Executable()
	if err != nil {
		panic(err)
	}
	total, crashes, viols := 0, 0, 0
	for round := 0; round < rounds; round++ {
		my := *id
		*id++
		// round 0 also hands back a sample: concGoroutines*concSample ordinary cases with fixed ids
		first := *id
		if round == 0 {
			*id += concGoroutines * concSample
		}
		if a.Only >= 0 && a.Only != my && !(round == 0 && a.Only >= first && a.Only < *id) {
			continue
		}
		outFile := fmt.Sprintf("%s/concurrency_%d.jsonl", a.Out, round)
		cmd := exec.Command(self)
		cmd.Env = append(os.Environ(), fmt.Sprintf("%s=%d|%d|%s", concEnv, a.Seed, round, outFile), "GOMAXPROCS=16")
		var stderr bytes.Buffer
		cmd.Stderr = &stderr
		done := make(chan error, 1)
		if err := cmd.Start(); err != nil {
			panic(err)
		}
		go func() { done <- cmd.Wait() }()
		var werr error
		select {
		case werr = <-done:
		case <-time.After(90 * time.Second):
			cmd.Process.Kill()
			werr = fmt.Errorf("no exit within 90s (deadlock?)")
		}
		total += concGoroutines * concCalls
		desc := map[string]any{"part": "concurrency", "round": round, "goroutines": concGoroutines, "calls_each": concCalls,
			"verifier": "one verifier from NewVerifierWithOptions: wildcard strict, skip statement, exact scopes; rounds 0 and 2 also with a blob policy document"}
		if werr != nil {
			crashes++
			msg := stderr.String()
			first := msg
			if i := strings.Index(first, "\n\n"); i > 0 {
				first = first[:i]
			}
			desc["exit"] = werr.Error()
			desc["stderr_head"] = Short(first, 1500)
			if w.Want(my) {
				w.ImplViolation(my, "concurrent use of one verifier killed the process: "+Short(strings.SplitN(msg, "\n", 2)[0], 200), desc, "concurrency")
			}
		}
		f, err := os.Open(outFile)
		if err != nil {
			continue
		}
		sc := bufio.NewScanner(f)
		sc.Buffer(make([]byte, 1<<20), 1<<24)
		for sc.Scan() {
			var l concLine
			if json.Unmarshal(sc.Bytes(), &l) != nil {
				continue
			}
			if l.Viol != "" {
				viols++
				if viols <= 20 && w.Want(my) {
					w.ImplViolation(my, "concurrent calls on one verifier: "+l.Viol, l.Case, "concurrency")
				}
				continue
			}
			if round == 0 && l.Case != nil && l.G < concGoroutines && l.I < concSample {
				// stable ids: goroutine-major (the inputs of a goroutine are a function of the seed)
				emitObserved(first+int64(l.G*concSample+l.I), l.Case, l.Obs)
			}
		}
		f.Close()
		os.Remove(outFile)
	}
	w.Set("concurrency", fmt.Sprintf("%d child processes, each %d goroutines x %d calls (Verify / SkipVerify / VerifyBlob / notation.Verify over fresh and fixed repository references, valid and corrupted JWS/COSE) on ONE verifier with a yielding trust store; every call judged on its own input; %d sampled calls evaluated in Coq", rounds, concGoroutines, concCalls, concGoroutines*concSample))
	w.Set("concurrency_calls", total)
	w.Set("concurrency_process_crashes", crashes)
	w.Set("concurrency_expectation_violations", viols)
}
