package main

// C12 driver.
//
// Part 1 (correspondence, evaluated inside Coq against C12_Model): the
// nil-ability lattice. Every case fixes a verifier construction (OCI-only,
// blob-only, both, none), a level, a plugin-manager / plugin situation, what
// the injected components answer, and one entry point
// {verifier.Verify, VerifyBlob, SkipVerify, notation.Verify, notation.VerifyBlob,
// outcome.UserMetadata}; the real code is run under recover and the
// canonicalised (outcomes, error) observation is printed as a Gallina term.
//
// Part 2 (exploration, Go side only; see explore.go): every exported entry
// point that decodes untrusted bytes is run under recover, a deadline and an
// allocation bound on random and mutated inputs. A recovered panic, a hang or
// an allocation blow-up is recorded with ImplViolation.

import (
	"bytes"
	"context"
	"crypto/sha256"
	"encoding/json"
	"errors"
	"fmt"
	"io"
	"os"
	"path/filepath"
	"reflect"
	"sort"
	"strings"
	"time"
	. "vh/kit"

	revresult "github.com/notaryproject/notation-core-go/revocation/result"
	"github.com/notaryproject/notation-core-go/signature"
	"github.com/notaryproject/notation-go"
	"github.com/notaryproject/notation-go/plugin"
	"github.com/notaryproject/notation-go/verifier"
	"github.com/notaryproject/notation-go/verifier/trustpolicy"
	"github.com/notaryproject/notation-go/verifier/truststore"
	pluginfw "github.com/notaryproject/notation-plugin-framework-go/plugin"
	"github.com/opencontainers/go-digest"
	ocispec "github.com/opencontainers/image-spec/specs-go/v1"
)

func main() {
	if spec := os.Getenv(concEnv); spec != "" {
		concChild(spec) // the re-executed child of the concurrency family
		return
	}
	if spec := os.Getenv(shapeEnv); spec != "" {
		shapeChild(spec) // the re-executed child of the shape family
		return
	}
	Main("c12", run)
}

// ---------- concrete description of one lattice case (JSON = replay / corpus format) ----------

type docCfg struct {
	Kind   int               `json:"kind"`            // 0 nil document, 1 no applicable statement, 2 statement selected, 3 selected but its level made invalid after construction
	Level  string            `json:"level,omitempty"` // strict | permissive | audit | skip
	Ov     map[string]string `json:"override,omitempty"`
	Global bool              `json:"global,omitempty"` // blob: the statement is the global one and no name is given
	// NoneKind: how "no applicable statement" is realised. OCI: 0/1 another repository, 2 empty reference,
	// 3 tag reference without '@', 4 upper-case host, 5 several '@'. Blob: 0 unknown name (or no global statement),
	// 1 unknown name, 2 blank name
	NoneKind int `json:"none_kind,omitempty"`
	// SameName (blob): the blob statement carries the SAME NAME as the OCI statement ("p")
	SameName bool `json:"same_name,omitempty"`
	// AltLevel (OCI): the document holds a second statement (scope reg.example/second) with this level;
	// UseAlt: the request addresses that one
	AltLevel string            `json:"alt_level,omitempty"`
	AltOv    map[string]string `json:"alt_override,omitempty"`
	UseAlt   bool              `json:"use_alt,omitempty"`
	// BadKind (Kind 3): which error branch of GetVerificationLevel the edit after construction reaches:
	// 0 unknown level name (OCI) / empty level (blob), 1 empty level, 2 unknown level name, 3 skip level with an
	// override, 4 override of an unknown type, 5 override with an unknown action, 6 integrity overridden,
	// 7 authenticity skipped
	BadKind int `json:"bad_kind,omitempty"`
}

func invalidateLevel(sv *trustpolicy.SignatureVerification, kind int, dflt string) {
	switch kind {
	case 0:
		sv.VerificationLevel = dflt
	case 1:
		sv.VerificationLevel = ""
	case 2:
		sv.VerificationLevel = "no such level"
	case 3:
		sv.VerificationLevel = "skip"
		sv.Override = map[trustpolicy.ValidationType]trustpolicy.ValidationAction{trustpolicy.TypeRevocation: trustpolicy.ActionLog}
	case 4:
		sv.Override = map[trustpolicy.ValidationType]trustpolicy.ValidationAction{"nosuchtype": trustpolicy.ActionLog}
	case 5:
		sv.Override = map[trustpolicy.ValidationType]trustpolicy.ValidationAction{trustpolicy.TypeRevocation: "nosuchaction"}
	case 6:
		sv.Override = map[trustpolicy.ValidationType]trustpolicy.ValidationAction{trustpolicy.TypeIntegrity: trustpolicy.ActionLog}
	case 7:
		sv.Override = map[trustpolicy.ValidationType]trustpolicy.ValidationAction{trustpolicy.TypeAuthenticity: trustpolicy.ActionSkip}
	}
}

type pmCfg struct {
	Kind     int      `json:"kind"`           // 0 nil manager, 1 Get fails, 2 plugin installed
	Meta     int      `json:"meta,omitempty"` // 0 GetMetadata error, 1 (nil, nil), 2 metadata
	VerValid bool     `json:"ver_valid,omitempty"`
	VerKind  int      `json:"ver_kind,omitempty"` // which valid (or invalid) version text the plugin reports
	Caps     []string `json:"caps,omitempty"`     // TI | Rev | Other
}

type scCfg struct {
	Sig       int    `json:"sig"` // 0 empty, 1 integrity fails, 2 verifies
	Format    string `json:"format"`
	PAttr     int    `json:"pattr"`     // 0 absent, 1 invalid, 2 names plugin "plug"
	PInvKind  int    `json:"pinv_kind"` // 0 not critical, 1 not a string, 2 blank, 3 empty string
	Minver    int    `json:"minver"`    // 0 absent, 1 valid and satisfied, 2 invalid, 3 valid but above the plugin version
	NonStr    bool   `json:"nonstr_crit"`
	Crit      bool   `json:"crit"`
	Auth      int    `json:"auth"` // 0 trusted, 1 store load error, 2 not anchored
	IdentFail bool   `json:"ident_fail"`
	ExpFail   bool   `json:"exp_fail"`
	TsFail    bool   `json:"ts_fail"`
	Rev       int    `json:"rev"`  // 0 ok, 1 revoked, 2 validator error, 3 too many results, 4 nil result entry, 5 too few results, 6 (nil, nil), 7 empty slice, 8 one result per certificate with a nil entry among the ServerResults of one of them
	Resp      int    `json:"resp"` // 0 error, 1 (nil, nil), 2 response
	AllProc   bool   `json:"all_processed"`
	TI        int    `json:"ti"`          // 0 missing, 1 success, 2 failure
	RevV      int    `json:"rev_verdict"` // 0 missing, 1 success, 2 failure
	Payload   int    `json:"payload"`     // 0 not a payload, 1 no annotations, 2 annotations k=v, 3 annotations k=other
	DescMatch bool   `json:"desc_match"`
	MetaReq   bool   `json:"meta_req"`
	DescGen   bool   `json:"descgen_err"`
	// RespJSON, when set, is the stdout text of the plugin's verify-signature command: the response handed to the
	// verifier is what json.Unmarshal makes of it (as plugin.CLIPlugin does) and Resp/AllProc/TI/RevV are derived from it
	RespJSON string `json:"resp_json,omitempty"`
	// Variant selects among realisations the property does not distinguish (empty vs nil vs absent):
	// bit0 empty signature as nil slice; bit1 empty (non-nil) user metadata map when none is required;
	// bit2 payload with an empty annotation map instead of none; bit3 empty (non-nil) processedAttributes /
	// verificationResults instead of nil; bit4 empty (non-nil) plugin config
	Variant int `json:"variant,omitempty"`
	// further realisation choices the model's facts do not depend on
	NonCritAttr   bool `json:"noncrit_attr,omitempty"`   // a non-critical extended attribute (string key) no plugin lists as processed
	NonStrNonCrit bool `json:"nonstr_noncrit,omitempty"` // a non-critical extended attribute under an integer label (COSE)
	AttrOrder     int  `json:"attr_order,omitempty"`     // 0 as built, 1 reversed, 2 rotated by one
	IntKeyKind    int  `json:"int_key_kind,omitempty"`   // the integer labels used: 0 small positive int64, 1 negative, 2 large int64, 3 Go uint64 value
}

type implCfg struct {
	Kind     int  `json:"kind"` // 0 nil, 1 library verifier, 2 custom
	HasOut   bool `json:"has_out,omitempty"`
	OutErr   bool `json:"out_err,omitempty"`
	Content  int  `json:"content,omitempty"` // 0 nil, 1 payload not JSON, 2 payload JSON
	ErrorSet bool `json:"err,omitempty"`
}

type nreqCfg struct {
	RepoNil  bool    `json:"repo_nil,omitempty"`
	Max      int     `json:"max"`
	Ref      int     `json:"ref"` // 0 unparsable, 1 no tag or digest, 2 digest reference
	Resolve  bool    `json:"resolve_err,omitempty"`
	Mismatch bool    `json:"digest_mismatch,omitempty"`
	ListErr  bool    `json:"list_err,omitempty"`
	Items    []scCfg `json:"items,omitempty"` // Sig == -1: FetchSignatureBlob fails
}

type breqCfg struct {
	ReaderNil bool `json:"reader_nil,omitempty"`
	CTypeBad  bool `json:"ctype_bad,omitempty"`
	STypeBad  bool `json:"stype_bad,omitempty"`
}

type lcase struct {
	Fam   string   `json:"family"`
	Entry string   `json:"entry"`
	TSNil bool     `json:"truststore_nil,omitempty"`
	OCI   docCfg   `json:"oci"`
	Blob  docCfg   `json:"blob"`
	PM    pmCfg    `json:"pm"`
	Impl  implCfg  `json:"impl"`
	Sc    scCfg    `json:"sc"`
	N     nreqCfg  `json:"n"`
	B     breqCfg  `json:"b"`
	UM    int      `json:"um,omitempty"`
	Obs   string   `json:"obs,omitempty"`
	Panic string   `json:"panic,omitempty"`
	Frame []string `json:"mutated_caller_objects,omitempty"` // frame check: caller-owned objects the library changed
}

// decodeResp is what plugin.CLIPlugin.VerifySignature makes of a plugin's stdout.
func decodeResp(text string) (*pluginfw.VerifySignatureResponse, error) {
	var resp pluginfw.VerifySignatureResponse
	err := json.Unmarshal([]byte(text), &resp)
	return &resp, err
}

// deriveResp computes the model facts of a verify-signature answer given as
// JSON text (independently of notation-go: own traversal of the decoded value).
func deriveResp(s *scCfg) {
	if s.RespJSON == "" {
		return
	}
	resp, err := decodeResp(s.RespJSON)
	if err != nil {
		s.Resp, s.AllProc, s.TI, s.RevV = 0, true, 0, 0
		return
	}
	s.Resp = 2
	s.AllProc = !s.Crit
	for _, x := range resp.ProcessedAttributes {
		if str, ok := x.(string); ok && str == critKey {
			s.AllProc = true
		}
	}
	verdict := func(c pluginfw.Capability) int {
		v, ok := resp.VerificationResults[c]
		if !ok || v == nil {
			return 0
		}
		if v.Success {
			return 1
		}
		return 2
	}
	s.TI, s.RevV = verdict(pluginfw.CapabilityTrustedIdentityVerifier), verdict(pluginfw.CapabilityRevocationCheckVerifier)
}

func okSc() scCfg {
	return scCfg{Sig: 2, Format: MtJWS, Resp: 2, AllProc: true, TI: 1, RevV: 1, Payload: 1, DescMatch: true}
}

func okN() nreqCfg { return nreqCfg{Max: 1, Ref: 2} }

// ---------- Gallina printing ----------

var actName = map[trustpolicy.ValidationAction]string{trustpolicy.ActionEnforce: "Enforce", trustpolicy.ActionLog: "Log", trustpolicy.ActionSkip: "Skip"}

// levelTerm asks the real GetVerificationLevel what the statement's level is.
func levelTerm(d docCfg) string {
	if d.UseAlt {
		d.Level, d.Ov = d.AltLevel, d.AltOv
	}
	sv := trustpolicy.SignatureVerification{VerificationLevel: d.Level, Override: ovMap(d.Ov)}
	vl, err := sv.GetVerificationLevel()
	if err != nil || vl == nil {
		panic(fmt.Sprintf("c12: level %v refused: %v", d, err))
	}
	switch vl.Name {
	case "strict":
		return "LStrict"
	case "permissive":
		return "LPermissive"
	case "audit":
		return "LAudit"
	case "skip":
		return "LSkip"
	}
	e := vl.Enforcement
	if e[trustpolicy.TypeIntegrity] != trustpolicy.ActionEnforce {
		panic("c12: custom level without enforced integrity")
	}
	return CApp("LCustom", actName[e[trustpolicy.TypeAuthenticity]], actName[e[trustpolicy.TypeAuthenticTimestamp]], actName[e[trustpolicy.TypeExpiry]], actName[e[trustpolicy.TypeRevocation]])
}

func ovMap(m map[string]string) map[trustpolicy.ValidationType]trustpolicy.ValidationAction {
	if len(m) == 0 {
		return nil
	}
	out := map[trustpolicy.ValidationType]trustpolicy.ValidationAction{}
	for k, v := range m {
		out[trustpolicy.ValidationType(k)] = trustpolicy.ValidationAction(v)
	}
	return out
}

func docTerm(d docCfg) string {
	switch d.Kind {
	case 0:
		return "None"
	case 1:
		return "(Some SelNone)"
	case 3:
		return "(Some SelBadLevel)"
	}
	return "(Some (SelLevel " + levelTerm(d) + "))"
}

func capsTerm(caps []string) string {
	items := make([]string, len(caps))
	for i, c := range caps {
		items[i] = "Cap" + c
	}
	return CList(items)
}

func pmTerm(p pmCfg, sc scCfg) string {
	switch p.Kind {
	case 0:
		return "PMNil"
	case 1:
		return "PMGetErr"
	}
	switch p.Meta {
	case 0:
		return "(PMPlugin MetaErr)"
	case 1:
		return "(PMPlugin MetaNil)"
	}
	return "(PMPlugin " + CApp("Meta", CBool(p.VerValid), capsTerm(p.Caps)) + ")"
}

func optBool(k int) string {
	switch k {
	case 1:
		return "(Some true)"
	case 2:
		return "(Some false)"
	}
	return "None"
}

func scTerm(s scCfg) string {
	s.Variant, s.RespJSON, s.NonCritAttr, s.NonStrNonCrit, s.AttrOrder, s.IntKeyKind = 0, "", false, false, 0, 0
	if s.PInvKind == 3 {
		s.PInvKind = 2
	}
	if s == okSc() {
		return "sc0"
	}
	resp := "PRErr"
	switch s.Resp {
	case 1:
		resp = "PRNil"
	case 2:
		resp = CApp("PResp", CBool(s.AllProc), optBool(s.TI), optBool(s.RevV))
	}
	return CApp("mk_sc",
		[]string{"SigEmpty", "SigBad", "SigOK"}[s.Sig],
		[]string{"PAbsent", "PInvalid", "PName"}[s.PAttr],
		CBool(s.Minver == 2), CBool(s.Minver == 3), CBool(s.NonStr), CBool(s.Crit || (s.PAttr == 0 && s.Minver != 0)),
		CBool(s.Auth != 0), CBool(s.IdentFail), CBool(s.ExpFail), CBool(s.TsFail),
		[]string{"RevOK", "RevFail", "RevErr", "RevBadShape", "RevBadShape", "RevBadShape", "RevBadShape", "RevBadShape", "RevNilServer"}[s.Rev],
		resp,
		CBool(s.Payload >= 1), CBool(s.Payload >= 2), CBool(s.DescMatch), CBool(s.MetaReq), CBool(s.Payload == 2), CBool(s.DescGen))
}

func implTerm(m implCfg) string {
	switch m.Kind {
	case 0:
		return "VNil"
	case 1:
		return "VLib"
	}
	out := "None"
	if m.HasOut {
		out = CSome(CApp("mk_cout", CBool(m.OutErr), []string{"CCNone", "CCBad", "CCGood"}[m.Content]))
	}
	return CApp("VCustom", out, CBool(m.ErrorSet))
}

func nTerm(n nreqCfg) string {
	if !n.RepoNil && n.Max == 1 && n.Ref == 2 && !n.Resolve && !n.Mismatch && !n.ListErr && len(n.Items) == 0 {
		return "n0"
	}
	items := make([]string, len(n.Items))
	for i, it := range n.Items {
		if it.Sig < 0 {
			items[i] = "FetchErr"
		} else {
			items[i] = "(Sig " + scTerm(it) + ")"
		}
	}
	return CApp("mk_nreq", CBool(n.RepoNil), CZ(int64(n.Max)), []string{"RefBad", "RefNoTag", "RefOK"}[n.Ref], CBool(n.Resolve), CBool(n.Mismatch), CBool(n.ListErr), CList(items))
}

func bTerm(b breqCfg) string {
	if b == (breqCfg{}) {
		return "b0"
	}
	return CApp("mk_breq", CBool(b.ReaderNil), CBool(b.CTypeBad), CBool(b.STypeBad))
}

func inputTerm(c *lcase) string {
	return CApp("mk_input", "E"+c.Entry, CBool(c.TSNil),
		CApp("mk_v", docTerm(c.OCI), docTerm(c.Blob), pmTerm(c.PM, c.Sc)),
		implTerm(c.Impl), scTerm(c.Sc), nTerm(c.N), bTerm(c.B), []string{"CCNone", "CCBad", "CCGood"}[c.UM])
}

const prelude = `From NV Require Import Base C12_Registry C12_Model.
Open Scope string_scope.
Definition sc0 := mk_sc SigOK PAbsent false false false false false false false false RevOK (PResp true (Some true) (Some true)) true false true false false false.
Definition n0 := mk_nreq false 1 RefOK false false false [].
Definition b0 := mk_breq false false false.
`

// ---------- the environment: certificates, envelopes, stores ----------

const (
	hdrPlugin = "io.cncf.notary.verificationPlugin"
	hdrMinVer = "io.cncf.notary.verificationPluginMinVersion"
	critKey   = "io.example.critical"
)

var blobContent = []byte("C12 blob content: the artifact that is signed and verified\n")

type libVerifier interface {
	notation.Verifier
	notation.BlobVerifier
	SkipVerify(ctx context.Context, opts notation.VerifierVerifyOptions) (bool, *trustpolicy.VerificationLevel, error)
}

type env struct {
	shared      libVerifier // history groups: the one verifier instance all steps use
	sharedParts *parts
	// caller-owned objects handed to consecutive steps of a history as the SAME object
	shareObjs  bool
	histCount  int
	sharedMeta map[string]string
	sharedCfg  map[string]string
	sharedAnn  map[string]string
	now        time.Time
	good       Chain
	other      Chain
	desc       ocispec.Descriptor // what the payloads describe (also the digest of blobContent)
	ref        string
	envCache   map[string][]byte
}

func newEnv() *env {
	e := &env{now: time.Now(), envCache: map[string][]byte{}}
	e.good = NewChain("c12 good", 3, e.now.Add(-96*time.Hour), e.now.Add(96*time.Hour))
	e.other = NewChain("c12 unrelated", 2, e.now.Add(-96*time.Hour), e.now.Add(96*time.Hour))
	sum := sha256.Sum256(blobContent)
	e.desc = ocispec.Descriptor{MediaType: "application/vnd.oci.image.manifest.v1+json", Digest: digest.NewDigestFromBytes(digest.SHA256, sum[:]), Size: int64(len(blobContent))}
	e.ref = TestScope + "@" + e.desc.Digest.String()
	return e
}

func (e *env) payload(kind int) []byte {
	d := e.desc
	switch kind {
	case 12:
		// the member spelled differently (the signer's unknown-attribute check, fix 3e50767)
		b, _ := json.Marshal(map[string]any{"TargetArtifact": d})
		return b
	case 13:
		// duplicated member, the second one with foreign fields
		b, _ := json.Marshal(d)
		return []byte(`{"targetArtifact":` + string(b) + `,"targetArtifact":{"mediaType":"` + d.MediaType + `","digest":"` + d.Digest.String() + `","size":` + fmt.Sprint(d.Size) + `,"urls":["x"],"extra":{"a":[1]}}}`)
	case 11:
		d.Annotations = map[string]string{}
		b, _ := json.Marshal(map[string]any{"targetArtifact": map[string]any{"mediaType": d.MediaType, "digest": d.Digest, "size": d.Size, "annotations": map[string]string{}}})
		return b
	case 0:
		return []byte(`{"targetArtifact":"not a descriptor"}`)
	case 2:
		d.Annotations = map[string]string{"k": "v"}
	case 3:
		d.Annotations = map[string]string{"k": "other"}
	}
	return PayloadFor(d)
}

// intKey: an attribute key that is not a string (a COSE integer label).
func intKey(kind, n int) any {
	switch kind {
	case 1:
		return int64(-70000 - n)
	case 2:
		return int64(1)<<62 + int64(n)
	case 3:
		return uint64(3000 + n)
	}
	return int64(1000 + 1000*n)
}

// envelope returns the signature bytes realising the envelope-borne facts of s.
func (e *env) envelope(s scCfg) []byte {
	if s.Sig == 0 {
		if s.Variant&1 != 0 {
			return nil
		}
		return []byte{}
	}
	pk := s.Payload
	if pk == 1 && s.Variant&4 != 0 {
		pk = 11
	}
	key := fmt.Sprintf("%s|%d|%d|%d|%v|%v|%v|%d|%d|%v|%v|%d", s.Format, s.PAttr, s.PInvKind, s.Minver, s.NonStr, s.Crit, s.ExpFail, pk, s.Sig, s.NonCritAttr, s.NonStrNonCrit, s.AttrOrder*10+s.IntKeyKind)
	if b, ok := e.envCache[key]; ok {
		return b
	}
	var attrs []signature.Attribute
	switch s.PAttr {
	case 1:
		switch s.PInvKind {
		case 0:
			attrs = append(attrs, signature.Attribute{Key: hdrPlugin, Critical: false, Value: "plug"})
		case 1:
			attrs = append(attrs, signature.Attribute{Key: hdrPlugin, Critical: true, Value: 42})
		case 3:
			attrs = append(attrs, signature.Attribute{Key: hdrPlugin, Critical: true, Value: ""})
		default:
			attrs = append(attrs, signature.Attribute{Key: hdrPlugin, Critical: true, Value: "  "})
		}
	case 2:
		attrs = append(attrs, signature.Attribute{Key: hdrPlugin, Critical: true, Value: "plug"})
	}
	switch s.Minver {
	case 1:
		attrs = append(attrs, signature.Attribute{Key: hdrMinVer, Critical: true, Value: "1.0.0"})
	case 2:
		attrs = append(attrs, signature.Attribute{Key: hdrMinVer, Critical: true, Value: "not.a.version"})
	case 3:
		attrs = append(attrs, signature.Attribute{Key: hdrMinVer, Critical: true, Value: "9.0.0"})
	}
	if s.Crit {
		attrs = append(attrs, signature.Attribute{Key: critKey, Critical: true, Value: "must be processed"})
	}
	if s.NonStr {
		attrs = append(attrs, signature.Attribute{Key: intKey(s.IntKeyKind, 0), Critical: true, Value: "int-labelled"})
	}
	if s.NonCritAttr {
		attrs = append(attrs, signature.Attribute{Key: "io.example.optional", Critical: false, Value: ""})
	}
	if s.NonStrNonCrit {
		attrs = append(attrs, signature.Attribute{Key: intKey(s.IntKeyKind, 1), Critical: false, Value: "int-labelled, optional"})
	}
	switch {
	case s.AttrOrder == 1:
		for i, j := 0, len(attrs)-1; i < j; i, j = i+1, j-1 {
			attrs[i], attrs[j] = attrs[j], attrs[i]
		}
	case s.AttrOrder == 2 && len(attrs) > 1:
		attrs = append(attrs[1:], attrs[0])
	}
	st := e.now.Add(-2 * time.Hour)
	var exp time.Time
	if s.ExpFail {
		exp = st.Add(30 * time.Minute)
	}
	b, err := SignEnvelope(EnvSpec{Format: s.Format, Chain: e.good, Payload: e.payload(pk), SigningTime: st, Expiry: exp, ExtAttrs: attrs})
	if err != nil {
		panic(fmt.Sprintf("c12: sign %+v: %v", s, err))
	}
	if s.Sig == 1 {
		c := append([]byte(nil), b...)
		c[len(c)-20] ^= 0x01
		if _, err := CoreVerify(s.Format, c); err == nil {
			c = []byte("not an envelope")
		}
		b = c
	} else if _, err := CoreVerify(s.Format, b); err != nil {
		// ground truth from notation-core-go
		panic(fmt.Sprintf("c12: the oracle rejects a fresh envelope: %v", err))
	}
	e.envCache[key] = b
	return b
}

// ---------- injected components ----------

var errStub = errors.New("c12: scripted error")

type customVerifier struct {
	out *notation.VerificationOutcome
	err error
}

func (c *customVerifier) Verify(ctx context.Context, desc ocispec.Descriptor, sig []byte, opts notation.VerifierVerifyOptions) (*notation.VerificationOutcome, error) {
	return c.fresh(), c.err
}
func (c *customVerifier) VerifyBlob(ctx context.Context, gen notation.BlobDescriptorGenerator, sig []byte, opts notation.BlobVerifierVerifyOptions) (*notation.VerificationOutcome, error) {
	return c.fresh(), c.err
}
func (c *customVerifier) fresh() *notation.VerificationOutcome {
	if c.out == nil {
		return nil
	}
	o := *c.out
	return &o
}

func (e *env) customOutcome(m implCfg) *notation.VerificationOutcome {
	if !m.HasOut {
		return nil
	}
	o := &notation.VerificationOutcome{}
	if m.OutErr {
		o.Error = errStub
	}
	switch m.Content {
	case 1:
		o.EnvelopeContent = &signature.EnvelopeContent{Payload: signature.Payload{ContentType: MtPayload, Content: []byte("not json")}}
	case 2:
		o.EnvelopeContent = &signature.EnvelopeContent{Payload: signature.Payload{ContentType: MtPayload, Content: e.payload(1)}}
	}
	return o
}

type mockRepo struct {
	e       *env
	n       nreqCfg
	blobs   map[digest.Digest][]byte
	formats map[digest.Digest]string
	list    []ocispec.Descriptor
}

func (r *mockRepo) Resolve(ctx context.Context, reference string) (ocispec.Descriptor, error) {
	if r.n.Resolve {
		return ocispec.Descriptor{}, errors.New("c12: resolve fails")
	}
	d := r.e.desc
	if r.n.Mismatch {
		d.Digest = digest.FromString("something else")
	}
	return d, nil
}

func (r *mockRepo) ListSignatures(ctx context.Context, desc ocispec.Descriptor, fn func([]ocispec.Descriptor) error) error {
	if r.n.ListErr {
		return errors.New("c12: listing fails")
	}
	return fn(r.list)
}

func (r *mockRepo) FetchSignatureBlob(ctx context.Context, desc ocispec.Descriptor) ([]byte, ocispec.Descriptor, error) {
	b, ok := r.blobs[desc.Digest]
	if !ok {
		return nil, ocispec.Descriptor{}, errors.New("c12: blob cannot be fetched")
	}
	return b, ocispec.Descriptor{MediaType: r.formats[desc.Digest], Digest: digest.FromBytes(b), Size: int64(len(b))}, nil
}

func (r *mockRepo) PushSignature(ctx context.Context, mediaType string, blob []byte, subject ocispec.Descriptor, annotations map[string]string) (ocispec.Descriptor, ocispec.Descriptor, error) {
	return ocispec.Descriptor{}, ocispec.Descriptor{}, errors.New("c12: not a writable repository")
}

// ---------- canonicalisation ----------

// sameErr: the two error values are the same value (an error whose dynamic
// type is not comparable, e.g. a struct holding a map, is compared deeply).
func sameErr(a, b error) (eq bool) {
	defer func() {
		if recover() != nil {
			eq = reflect.DeepEqual(a, b)
		}
	}()
	return a == b
}

var guardMsgs = map[string]bool{
	"ociTrustPolicyDoc is nil": true, "blobTrustPolicyDoc is nil": true, "verifier cannot be nil": true, "repo cannot be nil": true,
	"blobVerifier cannot be nil": true, "blobReader cannot be nil": true, "signature cannot be nil or empty": true,
}

var vtName = map[trustpolicy.ValidationType]string{
	trustpolicy.TypeIntegrity: "TInt", trustpolicy.TypeAuthenticity: "TAuth", trustpolicy.TypeAuthenticTimestamp: "TTs",
	trustpolicy.TypeExpiry: "TExp", trustpolicy.TypeRevocation: "TRev",
}

// errClass maps an error to the model's error classes; results are those of
// the outcome returned next to it (identity with a result's Error comes first).
func errClass(err error, results []*notation.ValidationResult) string {
	if err == nil {
		return "None"
	}
	for _, r := range results {
		if r != nil && r.Error != nil && sameErr(r.Error, err) {
			if n, ok := vtName[r.Type]; ok {
				return "(Some (XResult " + n + "))"
			}
		}
	}
	var e1 notation.ErrorNoApplicableTrustPolicy
	var e2 notation.ErrorSignatureRetrievalFailed
	var e3 notation.ErrorVerificationFailed
	var e4 notation.ErrorVerificationInconclusive
	var e5 notation.ErrorUserMetadataVerificationFailed
	switch {
	case errors.As(err, &e1):
		return "(Some XNoPolicy)"
	case errors.As(err, &e2):
		return "(Some XRetrieval)"
	case errors.As(err, &e3):
		return "(Some XFailed)"
	case errors.As(err, &e4):
		return "(Some XInconclusive)"
	case errors.As(err, &e5):
		return "(Some XMetadata)"
	}
	msg := err.Error()
	if guardMsgs[msg] {
		return "(Some XNil)"
	}
	if msg == "content descriptor mismatch" || msg == "integrity check failed. signature does not match the given blob" {
		return "(Some XMismatch)"
	}
	return "(Some XOther)"
}

func levelName(l *trustpolicy.VerificationLevel) string {
	if l == nil {
		return "None"
	}
	switch l.Name {
	case "strict":
		return "(Some NStrict)"
	case "permissive":
		return "(Some NPermissive)"
	case "audit":
		return "(Some NAudit)"
	case "skip":
		return "(Some NSkip)"
	}
	return "(Some NCustom)"
}

// callUM runs outcome.UserMetadata() under recover.
func callUM(o *notation.VerificationOutcome) (term string) {
	defer func() {
		if recover() != nil {
			term = "UMPanic"
		}
	}()
	m, err := o.UserMetadata()
	if err != nil {
		return "UMErr"
	}
	return CApp("UMOk", CBool(len(m) > 0))
}

func outcomeTerm(o *notation.VerificationOutcome, ret error) string {
	if o == nil {
		return "None"
	}
	var rs []string
	for _, r := range o.VerificationResults {
		if r == nil {
			rs = append(rs, "(TInt, true)")
			continue
		}
		rs = append(rs, CPair(vtName[r.Type], CBool(r.Error != nil)))
	}
	return CSome(CApp("mk_outc", errClass(o.Error, o.VerificationResults), CBool(sameErr(o.Error, ret)), CBool(o.EnvelopeContent != nil),
		levelName(o.VerificationLevel), CList(rs), callUM(o)))
}

func descSet(d ocispec.Descriptor) bool {
	return d.MediaType != "" || d.Digest != "" || d.Size != 0 || len(d.Annotations) > 0
}

// ---------- realisation of one case on the real code ----------

type failingReader struct{}

func (failingReader) Read(p []byte) (int, error) { return 0, errors.New("c12: reader fails") }

func (e *env) policyParts(s scCfg) (stores, identities []string) {
	stores = []string{"ca:s"}
	if s.TsFail {
		stores = append(stores, "tsa:t")
	}
	identities = []string{"*"}
	if s.IdentFail {
		identities = []string{"x509.subject: CN=somebody else,O=Verif,ST=WA,C=US"}
	}
	return
}

// build constructs the verifier the case describes. The policy statement is
// shaped after the scenario sc (the single-signature entry points) or the
// first listed signature.
// parts are the injected components of a verifier; they can be re-scripted
// between the calls of a history (the verifier instance stays the same).
type parts struct {
	rev   *RevScript
	mgr   *MockManager
	store *MockStore
	oci   *trustpolicy.OCIDocument
	blob  *trustpolicy.BlobDocument
}

// ---------- frame check: caller-owned objects must come back as they went in ----------

type frameItem struct {
	what string
	get  func() string
	snap string
}
type frame struct{ items []frameItem }

func deepText(v any) string {
	b, err := json.Marshal(v)
	if err != nil {
		return fmt.Sprintf("%#v", v)
	}
	return string(b)
}

// watch snapshots v (a map, slice or pointer the library only has to read) deeply.
func (f *frame) watch(what string, v any) {
	f.watchFn(what, func() string { return deepText(v) })
}
func (f *frame) watchFn(what string, get func() string) {
	f.items = append(f.items, frameItem{what, get, get()})
}
func (f *frame) changed() []string {
	var out []string
	for _, it := range f.items {
		if now := it.get(); now != it.snap {
			out = append(out, fmt.Sprintf("%s: %s -> %s", it.what, Short(it.snap, 200), Short(now, 200)))
		}
	}
	return out
}

// watchParts: the documents, the trust store's certificate slices, the validator's
// result slice and the plugin's response object belong to the caller / the injected component.
func (f *frame) watchParts(pt *parts) {
	if pt == nil {
		return
	}
	if pt.oci != nil {
		f.watch("OCI trust policy document", pt.oci)
	}
	if pt.blob != nil {
		f.watch("blob trust policy document", pt.blob)
	}
	if pt.store != nil {
		f.watchFn("certificate slices of the trust store", func() string {
			var keys []string
			for k, cs := range pt.store.Certs {
				t := fmt.Sprintf("%s:%s[", k.Type, k.Name)
				for _, c := range cs {
					t += fmt.Sprintf("%p ", c)
				}
				keys = append(keys, t+"]")
			}
			sort.Strings(keys)
			return strings.Join(keys, ";")
		})
	}
	if pt.rev != nil {
		f.watchFn("result slice of the revocation validator", func() string {
			t := ""
			for _, r := range pt.rev.Results {
				if r == nil {
					t += "nil "
				} else {
					t += fmt.Sprintf("%p:%d ", r, r.Result)
				}
			}
			return t
		})
	}
	if pt.mgr != nil {
		for name, p := range pt.mgr.Plugins {
			if p.Resp != nil {
				f.watch("verify-signature response of plugin "+name, p.Resp)
			}
			if p.Meta != nil {
				f.watch("metadata of plugin "+name, p.Meta)
			}
		}
	}
}

func (e *env) scriptRev(rs *RevScript, sc scCfg) {
	var results []*revresult.CertRevocationResult
	mk := func(r revresult.Result) *revresult.CertRevocationResult {
		return &revresult.CertRevocationResult{Result: r}
	}
	for i := 0; i < len(e.good); i++ {
		results = append(results, mk(revresult.ResultOK))
	}
	var verr error
	switch sc.Rev {
	case 1:
		results[0] = mk(revresult.ResultRevoked)
	case 2:
		results, verr = nil, errors.New("c12: validator fails")
	case 3:
		results = append(results, mk(revresult.ResultOK))
	case 4:
		results[1] = nil
	case 5:
		results = results[:len(results)-1] // fewer results than certificates
	case 6:
		results = nil // (nil, nil)
	case 7:
		results = []*revresult.CertRevocationResult{}
	case 8:
		// passes checkRevocationResults; before fix a146158 revocationFinalResult dereferenced every server result
		results[len(results)-1] = &revresult.CertRevocationResult{Result: revresult.ResultOK,
			ServerResults: []*revresult.ServerResult{{Result: revresult.ResultOK}, nil}}
	}
	rs.Results, rs.Err = results, verr
}

func scriptManager(mgr *MockManager, pm pmCfg, sc scCfg) {
	if mgr == nil {
		return
	}
	for k := range mgr.Plugins {
		delete(mgr.Plugins, k)
	}
	if pm.Kind != 2 {
		return
	}
	p := &MockPlugin{}
	switch pm.Meta {
	case 0:
		p.MetaErr = errors.New("c12: get-plugin-metadata fails")
	case 2:
		ver := []string{"1.2.0", "1.2.0+build.5", "1.2.0-rc.1+x"}[pm.VerKind%3]
		if !pm.VerValid {
			ver = []string{"1.2", "v1.2.0", ""}[pm.VerKind%3]
		}
		var caps []pluginfw.Capability
		for _, k := range pm.Caps {
			switch k {
			case "TI":
				caps = append(caps, pluginfw.CapabilityTrustedIdentityVerifier)
			case "Rev":
				caps = append(caps, pluginfw.CapabilityRevocationCheckVerifier)
			default:
				caps = append(caps, pluginfw.CapabilitySignatureGenerator)
			}
		}
		p.Meta = &pluginfw.GetMetadataResponse{Name: "plug", Description: "scripted", Version: ver, URL: "https://example", SupportedContractVersions: []string{"1.0"}, Capabilities: caps}
	}
	switch {
	case sc.RespJSON != "":
		resp, err := decodeResp(sc.RespJSON)
		p.Resp = resp
		if err != nil {
			p.VerifyErr = fmt.Errorf("c12: malformed verify-signature response: %w", err)
		}
	case sc.Resp == 0:
		p.VerifyErr = errors.New("c12: verify-signature fails")
	case sc.Resp == 2:
		resp := &pluginfw.VerifySignatureResponse{}
		if sc.Variant&8 != 0 || sc.TI != 0 || sc.RevV != 0 {
			resp.VerificationResults = map[pluginfw.Capability]*pluginfw.VerificationResult{}
		}
		if sc.Variant&8 != 0 {
			resp.ProcessedAttributes = []interface{}{}
		}
		if sc.AllProc {
			resp.ProcessedAttributes = []interface{}{critKey}
		}
		if sc.TI != 0 {
			resp.VerificationResults[pluginfw.CapabilityTrustedIdentityVerifier] = &pluginfw.VerificationResult{Success: sc.TI == 1, Reason: "scripted"}
		}
		if sc.RevV != 0 {
			resp.VerificationResults[pluginfw.CapabilityRevocationCheckVerifier] = &pluginfw.VerificationResult{Success: sc.RevV == 1, Reason: "scripted"}
		}
		p.Resp = resp
	}
	mgr.Plugins["plug"] = p
}

func (e *env) scriptStore(ms *MockStore, sc scCfg) {
	if ms == nil {
		return
	}
	k := StoreKey{Type: truststore.TypeCA, Name: "s"}
	delete(ms.Certs, k)
	delete(ms.Fail, k)
	switch sc.Auth {
	case 0:
		ms.Put(truststore.TypeCA, "s", e.good[len(e.good)-1].C)
	case 1:
		ms.Fail[k] = true
	case 2:
		ms.Put(truststore.TypeCA, "s", e.other[len(e.other)-1].C)
	}
}

// rescript makes the injected components of the shared verifier answer as the case says.
func (e *env) rescript(c *lcase, sc scCfg) {
	if e.sharedParts == nil {
		return
	}
	e.scriptRev(e.sharedParts.rev, sc)
	scriptManager(e.sharedParts.mgr, c.PM, sc)
	e.scriptStore(e.sharedParts.store, sc)
}

// build constructs the verifier the case describes. The policy statement is
// shaped after the scenario sc (the single-signature entry points) or the
// first listed signature.
func (e *env) build(c *lcase, sc scCfg) (v libVerifier, pt *parts, err error) {
	stores, identities := e.policyParts(sc)
	opts := verifier.VerifierOptions{}
	if c.OCI.Kind != 0 {
		st, id := stores, identities
		if c.OCI.Level == "skip" {
			st, id = nil, nil
		}
		opts.OCITrustPolicy = OCIPolicy(c.OCI.Level, ovMap(c.OCI.Ov), st, id, "")
		// more than one scope, not in sorted order (an in-place normalisation of the caller's document shows)
		opts.OCITrustPolicy.TrustPolicies[0].RegistryScopes = []string{TestScope, "a.example/first", "reg.example/b"}
		if c.OCI.AltLevel != "" {
			alt := trustpolicy.OCITrustPolicy{Name: "p2", RegistryScopes: []string{"reg.example/second"},
				SignatureVerification: trustpolicy.SignatureVerification{VerificationLevel: c.OCI.AltLevel, Override: ovMap(c.OCI.AltOv)}}
			if c.OCI.AltLevel != "skip" {
				alt.TrustStores, alt.TrustedIdentities = stores, identities
			}
			opts.OCITrustPolicy.TrustPolicies = append(opts.OCITrustPolicy.TrustPolicies, alt)
		}
	}
	if c.Blob.Kind != 0 {
		st, id := stores, identities
		if c.Blob.Level == "skip" {
			st, id = nil, nil
		}
		opts.BlobTrustPolicy = &trustpolicy.BlobDocument{Version: "1.0", TrustPolicies: []trustpolicy.BlobTrustPolicy{{
			Name:                  blobStatementName(c.Blob),
			SignatureVerification: trustpolicy.SignatureVerification{VerificationLevel: c.Blob.Level, Override: ovMap(c.Blob.Ov)},
			TrustStores:           st, TrustedIdentities: id, GlobalPolicy: c.Blob.Global && c.Blob.Kind >= 2,
		}}}
	}
	pt = &parts{oci: opts.OCITrustPolicy, blob: opts.BlobTrustPolicy}
	pt.rev, _ = NewRevScript(nil, nil)
	e.scriptRev(pt.rev, sc)
	opts.RevocationCodeSigningValidator = pt.rev.Validator()
	if c.PM.Kind != 0 {
		pt.mgr = &MockManager{Plugins: map[string]*MockPlugin{}}
		scriptManager(pt.mgr, c.PM, sc)
		opts.PluginManager = pt.mgr
	}
	var store truststore.X509TrustStore
	if !c.TSNil {
		pt.store = NewMockStore()
		e.scriptStore(pt.store, sc)
		store = pt.store
	}
	vv, err := verifier.NewVerifierWithOptions(store, opts)
	if err != nil {
		return nil, pt, err
	}
	// the caller edits the document it handed over, after the constructor validated it
	if c.OCI.Kind == 3 {
		invalidateLevel(&opts.OCITrustPolicy.TrustPolicies[0].SignatureVerification, c.OCI.BadKind, "no such level")
	}
	if c.Blob.Kind == 3 {
		invalidateLevel(&opts.BlobTrustPolicy.TrustPolicies[0].SignatureVerification, c.Blob.BadKind, "")
	}
	return vv, pt, nil
}

var _ plugin.Manager = (*MockManager)(nil)

func (e *env) ociRef(d docCfg) string {
	if d.Kind == 1 {
		switch d.NoneKind {
		case 2:
			return ""
		case 3:
			return TestScope + ":v1"
		case 4:
			return "REG.EXAMPLE/repo@" + e.desc.Digest.String()
		case 5:
			return TestScope + "@x@" + e.desc.Digest.String()
		}
		return "reg.example/elsewhere@" + e.desc.Digest.String()
	}
	if d.UseAlt {
		return "reg.example/second@" + e.desc.Digest.String()
	}
	return e.ref
}

func blobStatementName(d docCfg) string {
	if d.SameName {
		return "p" // the name kit.OCIPolicy gives the OCI statement
	}
	return "bp"
}

func blobPolicyName(d docCfg) string {
	if d.Kind == 1 {
		switch d.NoneKind {
		case 1:
			return "no-such-statement"
		case 2:
			return " "
		}
		if d.Global {
			return "" // the global statement is asked for; the document has none
		}
		return "no-such-statement"
	}
	if d.Global {
		return ""
	}
	return blobStatementName(d)
}

func (e *env) userMeta(s scCfg) map[string]string {
	if s.MetaReq {
		if e.shareObjs {
			return e.sharedMeta
		}
		return map[string]string{"k": "v"}
	}
	if s.Variant&2 != 0 {
		return map[string]string{}
	}
	return nil
}

func (e *env) pluginConfig(s scCfg) map[string]string {
	if e.shareObjs {
		return e.sharedCfg
	}
	if s.Variant&16 != 0 {
		return map[string]string{}
	}
	return nil
}

// execCase runs the entry point of c on the real code and returns the
// observation as a Gallina term of type obs.
func (e *env) execCase(c *lcase) (term string) {
	ctx := context.Background()
	defer func() {
		if r := recover(); r != nil {
			c.Panic = fmt.Sprint(r)
			term = "OPanic"
		}
	}()
	if c.Entry == "UserMeta" {
		o := &notation.VerificationOutcome{}
		switch c.UM {
		case 1:
			o.EnvelopeContent = &signature.EnvelopeContent{Payload: signature.Payload{ContentType: MtPayload, Content: []byte("not json")}}
		case 2:
			k := 1
			if c.Sc.Payload >= 2 {
				k = 2
			}
			o.EnvelopeContent = &signature.EnvelopeContent{Payload: signature.Payload{ContentType: MtPayload, Content: e.payload(k)}}
		}
		return CApp("ORet", "false", "None", CList([]string{outcomeTerm(o, nil)}), "None")
	}
	fr := &frame{}
	defer func() { c.Frame = fr.changed() }()
	lib := c.Entry == "Verify" || c.Entry == "VerifyBlob" || c.Entry == "SkipVerify" || c.Impl.Kind == 1
	sc := c.Sc
	if c.Entry == "NVerify" {
		// the statement is shaped after the first listed signature that is fetched
		sc = okSc()
		for _, it := range c.N.Items {
			if it.Sig >= 0 {
				sc = it
				break
			}
		}
	}
	var v interface {
		notation.Verifier
		notation.BlobVerifier
		SkipVerify(ctx context.Context, opts notation.VerifierVerifyOptions) (bool, *trustpolicy.VerificationLevel, error)
	}
	if lib && e.shared != nil {
		v = e.shared
		e.rescript(c, sc)
		fr.watchParts(e.sharedParts)
	} else if lib {
		var err error
		var pt *parts
		v, pt, err = e.build(c, sc)
		if err != nil {
			return "OConstruct"
		}
		fr.watchParts(pt)
	}
	// the caller-owned request objects
	um, pc := e.userMeta(sc), e.pluginConfig(sc)
	var sig []byte
	if c.Entry != "NVerify" && c.Entry != "SkipVerify" {
		sig = e.envelope(sc)
		if sig != nil {
			sig = append(make([]byte, 0, len(sig)+64), sig...) // spare capacity: an append by the library would show in the caller's array
			spare := sig[:cap(sig)]
			fr.watch("signature bytes (including spare capacity)", spare)
		}
	}
	fr.watch("UserMetadata map", um)
	fr.watch("PluginConfig map", pc)
	switch c.Entry {
	case "Verify":
		d := e.desc
		d.Annotations = map[string]string{"caller": "owned", "k": "v"}
		if e.shareObjs {
			d.Annotations = e.sharedAnn
		}
		d.URLs = []string{"https://b.example", "https://a.example"}
		if !sc.DescMatch {
			d.Size++
		}
		fr.watch("descriptor handed to Verify (annotations, urls)", &d)
		o, err := v.Verify(ctx, d, sig, notation.VerifierVerifyOptions{ArtifactReference: e.ociRef(c.OCI), SignatureMediaType: sc.Format, UserMetadata: um, PluginConfig: pc})
		return retTerm(false, "None", []*notation.VerificationOutcome{o}, o != nil, err)
	case "VerifyBlob":
		gen := e.descGen(sc)
		o, err := v.VerifyBlob(ctx, gen, sig, notation.BlobVerifierVerifyOptions{SignatureMediaType: sc.Format, UserMetadata: um, TrustPolicyName: blobPolicyName(c.Blob), PluginConfig: pc})
		return retTerm(false, "None", []*notation.VerificationOutcome{o}, o != nil, err)
	case "SkipVerify":
		skip, lvl, err := v.SkipVerify(ctx, notation.VerifierVerifyOptions{ArtifactReference: e.ociRef(c.OCI)})
		return CApp("ORet", CBool(skip), levelName(lvl), "[]", errClass(err, nil))
	case "NVerify":
		var nv notation.Verifier
		switch c.Impl.Kind {
		case 1:
			nv = v
		case 2:
			cv := &customVerifier{out: e.customOutcome(c.Impl)}
			if c.Impl.ErrorSet {
				cv.err = errStub
			}
			nv = cv
		}
		var repo *mockRepo
		ref := e.ociRef(c.OCI)
		switch c.N.Ref {
		case 0:
			ref = strings.SplitN(ref, "@", 2)[0] + "@notadigest"
		case 1:
			ref = strings.SplitN(ref, "@", 2)[0]
		}
		repo = &mockRepo{e: e, n: c.N, blobs: map[digest.Digest][]byte{}, formats: map[digest.Digest]string{}}
		for i, it := range c.N.Items {
			md := ocispec.Descriptor{MediaType: ocispec.MediaTypeImageManifest, Digest: digest.FromString(fmt.Sprintf("sigmanifest-%d", i)), Size: 100}
			repo.list = append(repo.list, md)
			if it.Sig >= 0 {
				repo.blobs[md.Digest] = e.envelope(it)
				repo.formats[md.Digest] = it.Format
			}
		}
		vo := notation.VerifyOptions{ArtifactReference: ref, MaxSignatureAttempts: c.N.Max, UserMetadata: um, PluginConfig: pc}
		fr.watch("signature manifests listed by the repository", repo.list)
		fr.watch("signature blobs served by the repository", repo.blobs)
		var d ocispec.Descriptor
		var outs []*notation.VerificationOutcome
		var err error
		if c.N.RepoNil {
			d, outs, err = notation.Verify(ctx, nv, nil, vo)
		} else {
			d, outs, err = notation.Verify(ctx, nv, repo, vo)
		}
		return retTerm(descSet(d), "None", outs, true, err)
	case "NVerifyBlob":
		var bv notation.BlobVerifier
		switch c.Impl.Kind {
		case 1:
			bv = v
		case 2:
			cv := &customVerifier{out: e.customOutcome(c.Impl)}
			if c.Impl.ErrorSet {
				cv.err = errStub
			}
			bv = cv
		}
		var rd io.Reader
		if !c.B.ReaderNil {
			content := blobContent
			if !sc.DescMatch {
				content = append([]byte("tampered "), blobContent...)
			}
			rd = bytes.NewReader(content)
			if sc.DescGen {
				rd = failingReader{}
			}
		}
		o := notation.VerifyBlobOptions{BlobVerifierVerifyOptions: notation.BlobVerifierVerifyOptions{SignatureMediaType: sc.Format, UserMetadata: um, TrustPolicyName: blobPolicyName(c.Blob), PluginConfig: pc}}
		if c.B.CTypeBad {
			o.ContentMediaType = "not a / media type;;"
		}
		if c.B.STypeBad {
			o.SignatureMediaType = "application/unknown"
		}
		d, out, err := notation.VerifyBlob(ctx, bv, rd, sig, o)
		t := retTerm(descSet(d), "None", []*notation.VerificationOutcome{out}, out != nil, err)
		if out == nil {
			// the outcome is dropped on failure: only the coarse class of the error is observable
			for _, k := range []string{"XInconclusive", "XMismatch", "XMetadata"} {
				t = strings.Replace(t, "(Some "+k+"))", "(Some XOther))", 1)
			}
		}
		return t
	}
	panic("c12: unknown entry " + c.Entry)
}

func (e *env) descGen(sc scCfg) notation.BlobDescriptorGenerator {
	return func(alg digest.Algorithm) (ocispec.Descriptor, error) {
		if sc.DescGen {
			return ocispec.Descriptor{}, errors.New("c12: descriptor generation fails")
		}
		content := blobContent
		if !sc.DescMatch {
			content = append([]byte("tampered "), blobContent...)
		}
		return ocispec.Descriptor{MediaType: e.desc.MediaType, Digest: alg.FromBytes(content), Size: int64(len(content))}, nil
	}
}

// retTerm prints ORet; a nil outcome of a single-outcome entry point is the
// empty list (keep = false), a nil element of notation.Verify's slice is None.
func retTerm(flag bool, lvl string, outs []*notation.VerificationOutcome, keep bool, err error) string {
	var items []string
	if keep {
		for _, o := range outs {
			items = append(items, outcomeTerm(o, err))
		}
	}
	var rs []*notation.ValidationResult
	if len(outs) == 1 && outs[0] != nil {
		rs = outs[0].VerificationResults
	}
	return CApp("ORet", CBool(flag), lvl, CList(items), errClass(err, rs))
}

// ---------- the driver ----------

func run(a *Args) error {
	rng := NewRng(a.Seed)
	w := NewCaseWriter(a, "C12", prelude, "case", "run")
	w.Rule = "PART 1 (correspondence, evaluated in Coq): the nil-ability lattice run on the real code under recover. Families: lattice = every construction {OCI-only, blob-only, both} x {no applicable statement, strict, permissive, audit, skip, two custom levels} x plugin manager {nil, plugin missing, installed} x entry point {verifier.Verify, VerifyBlob, SkipVerify, notation.Verify, notation.VerifyBlob} x signature {verifies, corrupted, empty, untrusted, plugin demanded, payload not a descriptor}; single = every single deviation from the all-good scenario x level x entry; scen = random scenarios (plugin header states, manager/metadata/capability/response states including the contract violations (nil,nil), native failures, revocation answers including malformed vectors, payload/metadata/descriptor variants, both envelope formats); loop = notation.Verify with nil/custom/library verifier, nil repository, attempt limits <=0..5, reference/resolve/listing failures and lists of 0..4 signatures; blob = notation.VerifyBlob guards x implementations; construct = constructor refusals; usermeta = UserMetadata on hand-made outcomes; corpus = the two fixed panics (00e9a29, 87f7f59) and corpus/C12/*.json; refuted = the witnesses of C12_failure_outcome_notation_refuted; registry = the real registry client (FetchSignatureBlob / ListSignatures) over a scripted oras.GraphTarget that logs the declared size of every descriptor handed to Fetch: manifest kind x content shape x number of blobs x declared sizes (negative, 0, at / above the caps, 2^62, MaxInt64, real +-1) x digests x media types, listings with one deviating referrer at every position (evaluated against C12_Registry: requests and result; oracle = no request above its cap). Every outcome returned is also asked for UserMetadata(). non-trivial = a nil-able field is nil, a guard or early return is taken, or a validation fails; distinct = distinct case descriptions. PART 2 (exploration, Go side only, NOT part of the theorem): see exploration_* keys"
	w.Assumptions = []string{
		"contracts of injected components (wf): a caller-supplied Verifier / BlobVerifier returns an error-free outcome when it returns no error (since the fixes d78db00, a146158 and 686cc56 there is no contract on the revocation validator or on the verification plugin: result vectors of the wrong shape, nil entries among the server results of a result, and (nil, nil) answers to get-plugin-metadata / verify-signature are ordinary inputs). Cases violating them are still run and must agree with the model (which predicts the panic); only the property oracle is not applied to them",
		"a typed-nil pointer wrapped in an interface (verifier, repository, plugin manager, validator) is a caller error outside the lattice",
		"the trust policy documents are not mutated after the verifier was constructed (GetVerificationLevel cannot fail on a validated statement)",
		"notation-core-go returns a non-empty certificate chain and a supported signature algorithm for an envelope it verified",
		"crash-freedom of third-party decoders on arbitrary bytes is explored (part 2), not proved",
	}
	e := newEnv()

	var id int64
	// emitMode runs and records one case; with force the case is executed even
	// when it is not the one asked for (earlier steps of a history group)
	emitMode := func(c *lcase, force bool) {
		my := id
		id++
		if !w.Want(my) {
			if force {
				e.execCase(c)
			}
			return
		}
		obs := e.execCase(c)
		c.Obs = obs
		if len(c.Frame) > 0 {
			w.ImplViolation(my, "library mutated caller-owned "+strings.Join(c.Frame, " | "), c, "")
			w.Count("frame_check", "mutation")
		} else {
			w.Count("frame_check", "unchanged")
		}
		term := CApp("mk_case", CN(my), inputTerm(c), obs)
		cc := *c
		cc.Obs, cc.Panic, cc.Frame = "", "", nil
		kb, _ := json.Marshal(cc)
		w.Add(my, term, c, string(kb), nontrivial(c))
		w.Count("family", c.Fam)
		w.Count("entry", c.Entry)
		w.Count("observation", obsKind(obs))
		w.Count("construction", construction(c))
	}
	emit := func(c *lcase) { emitMode(c, false) }
	// history runs the steps on ONE verifier instance built from base
	history := func(base lcase, steps []func(c *lcase)) {
		start, end := id, id+int64(len(steps))
		if a.Only >= 0 && (a.Only < start || a.Only >= end) {
			id = end
			return
		}
		base.Entry = "Verify"
		normalize(&base)
		v, pt, err := e.build(&base, base.Sc)
		if err != nil {
			panic(fmt.Sprintf("c12: history base refused: %v", err))
		}
		e.shared, e.sharedParts = v, pt
		e.histCount++
		e.shareObjs = e.histCount%2 == 1
		e.sharedMeta, e.sharedCfg, e.sharedAnn = map[string]string{"k": "v"}, map[string]string{"pc": "1", "a": "b"}, map[string]string{"caller": "owned", "k": "v"}
		for _, st := range steps {
			c := base
			c.N.Items = nil
			st(&c)
			normalize(&c)
			emitMode(&c, true)
		}
		e.shared, e.sharedParts, e.shareObjs = nil, nil, false
	}

	// corpus first
	if a.Corpus != "" {
		files, _ := filepath.Glob(filepath.Join(a.Corpus, "*.json"))
		sort.Strings(files)
		for _, f := range files {
			b, err := os.ReadFile(f)
			if err != nil {
				continue
			}
			var c lcase
			if json.Unmarshal(b, &c) != nil || c.Entry == "" {
				continue
			}
			c.Fam = "corpus"
			normalize(&c)
			emit(&c)
		}
	}
	genLattice(a, rng, emit, history)
	// concurrency family: observed in a child process, sampled calls emitted as ordinary cases
	runConcurrency(a, w, &id, func(my int64, c *lcase, obs string) {
		if !w.Want(my) {
			return
		}
		normalize(c)
		c.Obs = obs
		term := CApp("mk_case", CN(my), inputTerm(c), obs)
		kb, _ := json.Marshal(c)
		w.Add(my, term, c, string(kb), true)
		w.Count("family", c.Fam)
		w.Count("entry", c.Entry)
		w.Count("observation", obsKind(obs))
		w.Count("construction", construction(c))
	})
	// the witnesses of C12_failure_outcome_notation_refuted on the real code: a strict statement is
	// selected, every signature fails; notation.Verify / VerifyBlob return no outcome, verifier.Verify does
	{
		bad := okSc()
		bad.Sig = 1
		strictDoc := docCfg{Kind: 2, Level: "strict"}
		for _, c := range []lcase{
			{Fam: "refuted", Entry: "NVerify", OCI: strictDoc, Blob: strictDoc, PM: pmCfg{Kind: 0}, Impl: implCfg{Kind: 1}, Sc: okSc(), N: nreqCfg{Max: 3, Ref: 2, Items: []scCfg{bad, bad}}},
			{Fam: "refuted", Entry: "NVerifyBlob", OCI: strictDoc, Blob: strictDoc, PM: pmCfg{Kind: 0}, Impl: implCfg{Kind: 1}, Sc: bad},
			{Fam: "refuted", Entry: "Verify", OCI: strictDoc, Blob: strictDoc, PM: pmCfg{Kind: 0}, Impl: implCfg{Kind: 1}, Sc: bad},
		} {
			c := c
			normalize(&c)
			emit(&c)
		}
	}
	// registry family: the size caps of registry/repository.go (own random stream: later families keep theirs)
	genRegistry(a, w, &id)
	// shape family (exploration, own child process): systematic structurally valid documents
	runShapes(a, w, &id)
	// configuration family around the timestamping revocation validator (Go side, valid RFC 3161 countersignatures)
	runTSConfig(a, w, &id, e)
	// CRL cache entries made of hand-built CRLs (shapes crypto/x509 parses but never produces)
	runCRLEntries(a, w, &id)
	w.Set("partial", "the theorems cover the nil-ability lattice of notation-go's own structures (configuration x level x entry point x what the dependencies answer) and the size caps of the registry client; crash-freedom of the third-party decoders (notation-core-go JWS/COSE, encoding/json, fxamacker/cbor, crypto/x509, oras-go, tspclient-go) on arbitrary bytes is a runtime fact that is explored (exploration_* keys), not proved")
	w.Set("part1", "nil-ability lattice: evaluated in Coq against C12_Model (model = implementation, and the oracle spec_ok on the implementation's observation)")
	if err := explore(a, rng, w, id); err != nil {
		return err
	}
	return w.Close()
}

func obsKind(obs string) string {
	switch {
	case obs == "OPanic":
		return "panic (contract violation cases)"
	case obs == "OConstruct":
		return "constructor refused"
	case strings.HasSuffix(obs, " None)"):
		return "returned without error"
	}
	return "returned an error"
}

func construction(c *lcase) string {
	switch {
	case c.OCI.Kind != 0 && c.Blob.Kind != 0:
		return "both"
	case c.OCI.Kind != 0:
		return "oci-only"
	case c.Blob.Kind != 0:
		return "blob-only"
	}
	return "none"
}

func nontrivial(c *lcase) bool {
	if c.OCI.Kind != 2 || c.Blob.Kind != 2 || c.PM.Kind != 2 || c.Impl.Kind != 1 || c.TSNil {
		return true
	}
	return c.Sc != okSc() || c.OCI.Level == "skip" || c.Blob.Level == "skip" || len(c.N.Items) > 0
}
