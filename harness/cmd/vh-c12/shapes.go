package main

// Shape family (part 2, exploration; Go side only): STRUCTURALLY VALID documents for
// every JSON-backed public entry point, enumerated systematically instead of mutated at
// random: for every object the library decodes, every SUBSET of its members (including
// the empty one and unknown members only), with valid values, with null values, with
// empty values ("" / [] / {}), and every member with values of the wrong JSON type, alone
// and next to the other members; plus in-memory values of the exported configuration
// types with nil embedded pointers / nil slices / nil maps handed to the public
// methods. Targets: signingkeys.json and config.json (package config), OCI and blob trust
// policy documents, CRL file-cache entries, get-plugin-metadata replies (in process and
// through a CLI plugin stub) and the replies of verify-signature, describe-key,
// generate-signature and generate-envelope.
//
// The whole family runs in ONE re-executed child process: a recovered panic is written
// down with the document; a fatal runtime error (stack overflow, out of memory, ...)
// kills only the child and the parent attributes it to the document that was being
// processed. Every case has a stable id (its index in the enumeration).

import (
	"bufio"
	"bytes"
	"context"
	"crypto/rand"
	"crypto/sha256"
	"crypto/x509"
	"encoding/base64"
	"encoding/hex"
	"encoding/json"
	"errors"
	"fmt"
	"math/big"
	"os"
	"os/exec"
	"path/filepath"
	"strconv"
	"strings"
	"time"
	. "vh/kit"

	"github.com/notaryproject/notation-go"
	"github.com/notaryproject/notation-go/config"
	"github.com/notaryproject/notation-go/dir"
	"github.com/notaryproject/notation-go/plugin"
	"github.com/notaryproject/notation-go/signer"
	"github.com/notaryproject/notation-go/verifier"
	"github.com/notaryproject/notation-go/verifier/crl"
	"github.com/notaryproject/notation-go/verifier/trustpolicy"
	"github.com/notaryproject/notation-go/verifier/truststore"
	pluginfw "github.com/notaryproject/notation-plugin-framework-go/plugin"
)

const shapeEnv = "VH_C12_SHAPES_CHILD"

type shapeCase struct {
	Part   string `json:"part"`
	Target string `json:"target"`
	Note   string `json:"note,omitempty"`
	Doc    string `json:"document,omitempty"`
	Panic  string `json:"panic,omitempty"`
	mem    func(ctx context.Context) // in-memory cases
}

// ---------- systematic object variants ----------

type member struct {
	name  string
	valid string   // JSON text of a valid value
	empty string   // JSON text of the empty value of the right type
	alts  []string // JSON texts of other values (wrong type, odd content)
}

func objText(names, vals []string) string {
	var parts []string
	for i := range names {
		parts = append(parts, strconv.Quote(names[i])+":"+vals[i])
	}
	return "{" + strings.Join(parts, ",") + "}"
}

type variant struct{ note, text string }

// objectVariants: every subset of ms with valid / null / empty values; every member with
// every alternative value, alone and next to all other members; unknown members only.
func objectVariants(ms []member) []variant {
	var out []variant
	n := len(ms)
	for mask := 0; mask < 1<<n; mask++ {
		for mode := 0; mode < 3; mode++ {
			if mask == 0 && mode > 0 {
				continue
			}
			var names, vals []string
			for i, m := range ms {
				if mask&(1<<i) == 0 {
					continue
				}
				names = append(names, m.name)
				vals = append(vals, []string{m.valid, "null", m.empty}[mode])
			}
			out = append(out, variant{fmt.Sprintf("members %v, %s values", names, []string{"valid", "null", "empty"}[mode]), objText(names, vals)})
		}
	}
	for i, m := range ms {
		for _, alt := range m.alts {
			out = append(out, variant{fmt.Sprintf("only %s = %s", m.name, alt), objText([]string{m.name}, []string{alt})})
			var names, vals []string
			for j, o := range ms {
				names = append(names, o.name)
				if j == i {
					vals = append(vals, alt)
				} else {
					vals = append(vals, o.valid)
				}
			}
			out = append(out, variant{fmt.Sprintf("%s = %s, others valid", m.name, alt), objText(names, vals)})
		}
	}
	out = append(out,
		variant{"unknown members only", `{"zz":1,"Zz":{"a":[null]}}`},
		variant{"upper-case member names", strings.ToUpper(objText(memberNames(ms), memberValid(ms)))},
		variant{"every member twice (last: null)", objText(append(memberNames(ms), memberNames(ms)...), append(memberValid(ms), nulls(len(ms))...))})
	if n > 0 {
		out = append(out, variant{"unknown member next to the first member", objText([]string{ms[0].name, "zz"}, []string{ms[0].valid, `[1]`})})
	}
	return out
}

func memberNames(ms []member) (out []string) {
	for _, m := range ms {
		out = append(out, m.name)
	}
	return
}
func memberValid(ms []member) (out []string) {
	for _, m := range ms {
		out = append(out, m.valid)
	}
	return
}
func nulls(n int) (out []string) {
	for i := 0; i < n; i++ {
		out = append(out, "null")
	}
	return
}

var strAlts = []string{`1`, `true`, `[]`, `{}`, `["x"]`, `" "`}
var listAlts = []string{`"x"`, `1`, `{}`, `[null]`, `[1]`, `[[]]`, `[""]`, `["x","x"]`}
var mapAlts = []string{`"x"`, `1`, `[]`, `{"a":1}`, `{"a":null}`, `{"":""}`, `{"a":{}}`}

// ---------- the enumeration ----------

type shapeEnvT struct {
	e       *env
	ctx     context.Context
	tmp     string
	cfgDir  string
	store   *MockStore
	cache   *crl.FileCache
	crlPath string
	crlURL  string
	cli     pluginfw.Plugin
	cliPath string
	sigPlug []byte // an envelope that demands plugin "plug" and carries a critical attribute
	chain   [][]byte
}

var shapeRefs = []string{"reg.example/repo@sha256:" + strings.Repeat("a", 64), "reg.example/repo:tag", "x", ""}

func shapeCases(freshCRL string) []shapeCase {
	var cs []shapeCase
	add := func(target, note, doc string) {
		cs = append(cs, shapeCase{Part: "exploration-shapes", Target: target, Note: note, Doc: doc})
	}
	// ---- signingkeys.json ----
	keyEntry := []member{
		{"name", `"k"`, `""`, strAlts},
		{"keyPath", `"/a/k.key"`, `""`, strAlts},
		{"certPath", `"/a/k.crt"`, `""`, strAlts},
		{"id", `"kid"`, `""`, strAlts},
		{"pluginName", `"plug"`, `""`, strAlts},
		{"pluginConfig", `{"a":"b"}`, `{}`, mapAlts},
	}
	const goodPair, goodPlugin = `{"name":"g1","keyPath":"/a/g1.key","certPath":"/a/g1.crt"}`, `{"name":"g2","id":"kid","pluginName":"plug"}`
	for _, v := range objectVariants(keyEntry) {
		add("signingkeys.json", "single key entry, default names it; "+v.note, `{"default":"k","keys":[`+v.text+`]}`)
		add("signingkeys.json", "single key entry, no default; "+v.note, `{"keys":[`+v.text+`]}`)
		if strings.Contains(v.note, "valid values") || strings.Contains(v.note, "unknown") {
			add("signingkeys.json", "first of three; "+v.note, `{"default":"g1","keys":[`+v.text+`,`+goodPair+`,`+goodPlugin+`]}`)
			add("signingkeys.json", "middle of three; "+v.note, `{"default":"g2","keys":[`+goodPair+`,`+v.text+`,`+goodPlugin+`]}`)
			add("signingkeys.json", "last of three; "+v.note, `{"keys":[`+goodPair+`,`+goodPlugin+`,`+v.text+`]}`)
		}
	}
	for _, v := range objectVariants([]member{
		{"default", `"g1"`, `""`, append([]string{`"zz"`, `"g2"`}, strAlts...)},
		{"keys", `[` + goodPair + `,` + goodPlugin + `]`, `[]`, []string{`"x"`, `1`, `{}`, `[null]`, `[1]`, `[[]]`, `["g1"]`, `[{}]`, `[{},{}]`, `[null,` + goodPair + `]`, `[` + goodPair + `,` + goodPair + `]`}},
	}) {
		add("signingkeys.json", "top level; "+v.note, v.text)
	}
	for _, t := range []string{`null`, `[]`, `""`, `0`, `{"keys":[{"name":"k","keyPath":null,"certPath":null,"id":null,"pluginName":null,"pluginConfig":null}]}`} {
		add("signingkeys.json", "other JSON value", t)
	}
	// ---- config.json ----
	for _, v := range objectVariants([]member{
		{"insecureRegistries", `["reg.example"]`, `[]`, listAlts},
		{"credsStore", `"x"`, `""`, strAlts},
		{"credHelpers", `{"reg.example":"h"}`, `{}`, mapAlts},
		{"signatureFormat", `"cose"`, `""`, strAlts},
	}) {
		add("config.json", v.note, v.text)
	}
	for _, t := range []string{`null`, `[]`, `""`, `0`} {
		add("config.json", "other JSON value", t)
	}
	// ---- trust policy documents ----
	sv := []member{
		{"level", `"strict"`, `""`, append([]string{`"skip"`, `"audit"`, `"STRICT"`}, strAlts...)},
		{"override", `{"revocation":"skip"}`, `{}`, append([]string{`{"integrity":"skip"}`, `{"revocation":"bogus"}`, `{"bogus":"log"}`, `{"revocation":null}`}, mapAlts...)},
		{"verifyTimestamp", `"afterCertExpiry"`, `""`, append([]string{`"always"`, `"bogus"`}, strAlts...)},
	}
	const goodSV = `{"level":"strict"}`
	ociStmt := []member{
		{"name", `"a"`, `""`, strAlts},
		{"registryScopes", `["reg.example/repo"]`, `[]`, append([]string{`["*"]`, `["*","reg.example/repo"]`}, listAlts...)},
		{"signatureVerification", goodSV, `{}`, []string{`"strict"`, `1`, `[]`, `{"level":null}`, `{"level":"skip"}`}},
		{"trustStores", `["ca:s"]`, `[]`, append([]string{`["ca"]`, `[":"]`, `["ca:"]`}, listAlts...)},
		{"trustedIdentities", `["*"]`, `[]`, append([]string{`["x509.subject"]`, `["x509.subject:"]`, `["*","x509.subject: CN=x,O=o,C=US"]`}, listAlts...)},
	}
	const goodOCIStmt = `{"name":"w","registryScopes":["*"],"signatureVerification":{"level":"audit"},"trustStores":["ca:s"],"trustedIdentities":["*"]}`
	for _, v := range objectVariants(ociStmt) {
		add("trustpolicy.oci", "single statement; "+v.note, `{"version":"1.0","trustPolicies":[`+v.text+`]}`)
		if strings.Contains(v.note, "valid values") {
			add("trustpolicy.oci", "before a wildcard statement; "+v.note, `{"version":"1.0","trustPolicies":[`+v.text+`,`+goodOCIStmt+`]}`)
			add("trustpolicy.oci", "after a wildcard statement; "+v.note, `{"version":"1.0","trustPolicies":[`+goodOCIStmt+`,`+v.text+`]}`)
		}
	}
	for _, v := range objectVariants(sv) {
		add("trustpolicy.oci", "signatureVerification; "+v.note, `{"version":"1.0","trustPolicies":[{"name":"a","registryScopes":["reg.example/repo"],"signatureVerification":`+v.text+`,"trustStores":["ca:s"],"trustedIdentities":["*"]}]}`)
		add("trustpolicy.blob", "signatureVerification; "+v.note, `{"version":"1.0","trustPolicies":[{"name":"bp","signatureVerification":`+v.text+`,"trustStores":["ca:s"],"trustedIdentities":["*"],"globalPolicy":true}]}`)
	}
	topAlts := []string{`"x"`, `1`, `{}`, `[null]`, `[1]`, `[[]]`, `[{}]`, `[{},{}]`}
	for _, v := range objectVariants([]member{{"version", `"1.0"`, `""`, append([]string{`"2.0"`, `"1"`}, strAlts...)}, {"trustPolicies", `[` + goodOCIStmt + `]`, `[]`, topAlts}}) {
		add("trustpolicy.oci", "top level; "+v.note, v.text)
	}
	blobStmt := []member{
		{"name", `"bp"`, `""`, strAlts},
		{"signatureVerification", goodSV, `{}`, []string{`"strict"`, `1`, `[]`, `{"level":null}`, `{"level":"skip"}`}},
		{"trustStores", `["ca:s"]`, `[]`, listAlts},
		{"trustedIdentities", `["*"]`, `[]`, listAlts},
		{"globalPolicy", `true`, `false`, []string{`"true"`, `1`, `[]`, `{}`}},
	}
	const goodBlobStmt = `{"name":"g","signatureVerification":{"level":"audit"},"trustStores":["ca:s"],"trustedIdentities":["*"]}`
	for _, v := range objectVariants(blobStmt) {
		add("trustpolicy.blob", "single statement; "+v.note, `{"version":"1.0","trustPolicies":[`+v.text+`]}`)
		if strings.Contains(v.note, "valid values") {
			add("trustpolicy.blob", "next to another statement; "+v.note, `{"version":"1.0","trustPolicies":[`+goodBlobStmt+`,`+v.text+`]}`)
		}
	}
	for _, v := range objectVariants([]member{{"version", `"1.0"`, `""`, append([]string{`"2.0"`}, strAlts...)}, {"trustPolicies", `[` + goodBlobStmt + `]`, `[]`, topAlts}}) {
		add("trustpolicy.blob", "top level; "+v.note, v.text)
	}
	for _, t := range []string{`null`, `[]`, `""`, `0`} {
		add("trustpolicy.oci", "other JSON value", t)
		add("trustpolicy.blob", "other JSON value", t)
	}
	// ---- CRL cache entries ----
	q := strconv.Quote(freshCRL)
	derAlts := []string{`1`, `[]`, `{}`, `"!!"`, `"AAAA"`, `[48,0]`, `true`}
	for _, v := range objectVariants([]member{{"baseCRL", q, `""`, derAlts}, {"deltaCRL", q, `""`, derAlts}}) {
		add("crl-cache", v.note, v.text)
	}
	for _, t := range []string{`null`, `[]`, `""`, `0`} {
		add("crl-cache", "other JSON value", t)
	}
	// ---- plugin metadata ----
	meta := []member{
		{"name", `"plug"`, `""`, append([]string{`"other"`}, strAlts...)},
		{"description", `"d"`, `""`, strAlts},
		{"version", `"1.0.0"`, `""`, append([]string{`"1.0"`, `"v1.0.0"`, `"1.0.0+b"`}, strAlts...)},
		{"url", `"https://example"`, `""`, strAlts},
		{"supportedContractVersions", `["1.0"]`, `[]`, append([]string{`["2.0"]`, `["1"]`, `["1.0","1.0"]`}, listAlts...)},
		{"capabilities", `["SIGNATURE_VERIFIER.TRUSTED_IDENTITY","SIGNATURE_VERIFIER.REVOCATION_CHECK","SIGNATURE_GENERATOR.RAW"]`, `[]`,
			append([]string{`["SIGNATURE_GENERATOR.ENVELOPE"]`, `["SIGNATURE_GENERATOR.RAW","SIGNATURE_GENERATOR.ENVELOPE"]`, `["bogus"]`}, listAlts...)},
	}
	for _, v := range objectVariants(meta) {
		add("plugin-metadata", v.note, v.text)
		if strings.Contains(v.note, "valid values") || strings.Contains(v.note, "unknown") {
			add("plugin-metadata-cli", v.note, v.text)
		}
	}
	for _, t := range []string{`null`, `[]`, `""`, `0`} {
		add("plugin-metadata", "other JSON value", t)
		add("plugin-metadata-cli", "other JSON value", t)
	}
	// ---- plugin replies ----
	const ti, rv = `"SIGNATURE_VERIFIER.TRUSTED_IDENTITY"`, `"SIGNATURE_VERIFIER.REVOCATION_CHECK"`
	okRes := `{` + ti + `:{"success":true},` + rv + `:{"success":true}}`
	for _, v := range objectVariants([]member{
		{"verificationResults", okRes, `{}`, []string{`{` + ti + `:null}`, `{` + ti + `:{}}`, `{` + rv + `:null,` + ti + `:{"success":true}}`, `[]`, `1`, `"x"`, `{"bogus":{"success":true}}`}},
		{"processedAttributes", `["` + critKey + `"]`, `[]`, []string{`[null]`, `[1]`, `[[]]`, `"x"`, `{}`, `1`}},
	}) {
		add("plugin-reply.verify-signature", v.note, v.text)
	}
	for _, v := range objectVariants([]member{{"success", `true`, `false`, []string{`"yes"`, `1`, `[]`, `{}`}}, {"reason", `"r"`, `""`, strAlts}}) {
		add("plugin-reply.verify-signature", "result object; "+v.note, `{"verificationResults":{`+ti+`:`+v.text+`,`+rv+`:`+v.text+`},"processedAttributes":["`+critKey+`"]}`)
	}
	for _, v := range objectVariants([]member{{"keyId", `"kid"`, `""`, append([]string{`"other"`}, strAlts...)}, {"keySpec", `"EC-256"`, `""`, append([]string{`"RSA-2048"`, `"bogus"`}, strAlts...)}}) {
		add("plugin-reply.describe-key", v.note, v.text)
	}
	for _, v := range objectVariants([]member{
		{"keyId", `"kid"`, `""`, append([]string{`"other"`}, strAlts...)},
		{"signature", `"AAAA"`, `""`, []string{`1`, `[]`, `{}`, `"!!"`, `true`}},
		{"signingAlgorithm", `"ECDSA-SHA-256"`, `""`, append([]string{`"RSASSA-PSS-SHA-256"`, `"bogus"`}, strAlts...)},
		{"certificateChain", `"$CHAIN"`, `[]`, []string{`[null]`, `[""]`, `["AAAA"]`, `"x"`, `1`, `{}`, `[[]]`}},
	}) {
		add("plugin-reply.generate-signature", v.note, v.text)
	}
	for _, v := range objectVariants([]member{
		{"signatureEnvelope", `"$ENVELOPE"`, `""`, []string{`1`, `[]`, `{}`, `"!!"`, `"AAAA"`, `true`}},
		{"signatureEnvelopeType", `"application/jose+json"`, `""`, append([]string{`"application/cose"`, `"bogus"`}, strAlts...)},
		{"annotations", `{"a":"b"}`, `{}`, mapAlts},
	}) {
		add("plugin-reply.generate-envelope", v.note, v.text)
	}
	for _, tgt := range []string{"plugin-reply.verify-signature", "plugin-reply.describe-key", "plugin-reply.generate-signature", "plugin-reply.generate-envelope"} {
		for _, t := range []string{`null`, `[]`, `""`, `0`} {
			add(tgt, "other JSON value", t)
		}
	}
	// ---- in-memory values of the exported configuration types ----
	cs = append(cs, memoryCases()...)
	return cs
}

func strp(s string) *string { return &s }

func memoryCases() []shapeCase {
	var cs []shapeCase
	add := func(target, note string, f func(ctx context.Context)) {
		cs = append(cs, shapeCase{Part: "exploration-shapes", Target: target, Note: note, mem: f})
	}
	type ksv struct {
		note string
		mk   func() []config.KeySuite
	}
	suites := []ksv{
		{"Keys nil", func() []config.KeySuite { return nil }},
		{"Keys empty", func() []config.KeySuite { return []config.KeySuite{} }},
		{"one suite, both embedded pointers nil", func() []config.KeySuite { return []config.KeySuite{{Name: "x"}} }},
		{"one suite, empty key pair", func() []config.KeySuite { return []config.KeySuite{{Name: "x", X509KeyPair: &config.X509KeyPair{}}} }},
		{"one suite, empty external key", func() []config.KeySuite { return []config.KeySuite{{Name: "x", ExternalKey: &config.ExternalKey{}}} }},
		{"one suite, key pair", func() []config.KeySuite {
			return []config.KeySuite{{Name: "x", X509KeyPair: &config.X509KeyPair{KeyPath: "/a/k", CertificatePath: "/a/c"}}}
		}},
		{"one suite, external key", func() []config.KeySuite {
			return []config.KeySuite{{Name: "x", ExternalKey: &config.ExternalKey{ID: "i", PluginName: "p"}}}
		}},
		{"one suite, both", func() []config.KeySuite {
			return []config.KeySuite{{Name: "x", X509KeyPair: &config.X509KeyPair{KeyPath: "/a/k", CertificatePath: "/a/c"}, ExternalKey: &config.ExternalKey{ID: "i", PluginName: "p"}}}
		}},
		{"one suite, half a key pair and half an external key", func() []config.KeySuite {
			return []config.KeySuite{{Name: "x", X509KeyPair: &config.X509KeyPair{KeyPath: "/a/k"}, ExternalKey: &config.ExternalKey{PluginName: "p"}}}
		}},
		{"nameless suite", func() []config.KeySuite { return []config.KeySuite{{}} }},
		{"bare suite between complete ones", func() []config.KeySuite {
			return []config.KeySuite{{Name: "a", X509KeyPair: &config.X509KeyPair{KeyPath: "/a/k", CertificatePath: "/a/c"}}, {Name: "x"}, {Name: "b", ExternalKey: &config.ExternalKey{ID: "i", PluginName: "p"}}}
		}},
		{"duplicate bare suites", func() []config.KeySuite { return []config.KeySuite{{Name: "x"}, {Name: "x"}} }},
	}
	defaults := []struct {
		note string
		mk   func() *string
	}{{"Default nil", func() *string { return nil }}, {"Default x", func() *string { return strp("x") }}, {"Default empty", func() *string { return strp("") }}, {"Default unknown", func() *string { return strp("zz") }}}
	ops := []struct {
		note string
		f    func(ctx context.Context, s *config.SigningKeys)
	}{
		{"Save", func(ctx context.Context, s *config.SigningKeys) { s.Save() }},
		{"Get", func(ctx context.Context, s *config.SigningKeys) {
			for _, n := range []string{"x", "", "zz", "a"} {
				if k, err := s.Get(n); err == nil {
					k.Is(n)
				}
			}
			s.GetDefault()
		}},
		{"UpdateDefault, Remove, Save", func(ctx context.Context, s *config.SigningKeys) {
			s.UpdateDefault("x")
			s.Save()
			s.Remove("x")
			s.Remove("", "x")
			s.Save()
		}},
		{"Add, AddPlugin, Save", func(ctx context.Context, s *config.SigningKeys) {
			s.Add("y", "/nonexistent/k", "/nonexistent/c", true)
			s.Add("", "", "", false)
			s.AddPlugin(ctx, "y", "id", "no-such-plugin", nil, true)
			s.AddPlugin(ctx, "x", "", "", map[string]string{}, false)
			s.Save()
		}},
		{"LoadExecSaveSigningKeys", func(ctx context.Context, s *config.SigningKeys) {
			os.Remove(filepath.Join(dir.UserConfigDir, dir.PathSigningKeys))
			config.LoadExecSaveSigningKeys(func(k *config.SigningKeys) error {
				k.Keys, k.Default = s.Keys, s.Default
				return nil
			})
			config.LoadSigningKeys()
		}},
	}
	for _, su := range suites {
		for _, d := range defaults {
			for _, op := range ops {
				su, d, op := su, d, op
				add("memory:config.SigningKeys", op.note+"; "+su.note+"; "+d.note, func(ctx context.Context) {
					op.f(ctx, &config.SigningKeys{Default: d.mk(), Keys: su.mk()})
				})
			}
		}
	}
	for i, c := range []config.Config{{}, {InsecureRegistries: []string{}}, {InsecureRegistries: []string{""}, CredentialHelpers: map[string]string{}}, {CredentialHelpers: map[string]string{"": ""}, SignatureFormat: "bogus"}} {
		c := c
		add("memory:config.Config", fmt.Sprintf("Save, value %d", i), func(ctx context.Context) {
			c.Save()
			config.LoadConfig()
		})
	}
	add("memory:config.Config", "NewConfig().Save, NewSigningKeys().Save", func(ctx context.Context) {
		config.NewConfig().Save()
		config.NewSigningKeys().Save()
	})
	// trust policy documents built in memory: nil slices, nil / empty override maps, zero statements
	type svT = trustpolicy.SignatureVerification
	svs := []svT{{}, {VerificationLevel: "strict"}, {VerificationLevel: "strict", Override: map[trustpolicy.ValidationType]trustpolicy.ValidationAction{}},
		{VerificationLevel: "skip"}, {VerificationLevel: "audit", Override: map[trustpolicy.ValidationType]trustpolicy.ValidationAction{"": ""}}, {VerificationLevel: "permissive", VerifyTimestamp: "bogus"}}
	for i, s := range svs {
		for j, lists := range [][3][]string{{nil, nil, nil}, {{}, {}, {}}, {{"*"}, {"ca:s"}, {"*"}}, {{"*"}, nil, nil}, {nil, {"ca:s"}, {"*"}}, {{"reg.example/repo"}, {"ca:s"}, nil}, {{""}, {""}, {""}}} {
			s, lists := s, lists
			add("memory:trustpolicy.OCIDocument", fmt.Sprintf("signatureVerification %d, lists %d", i, j), func(ctx context.Context) {
				doc := &trustpolicy.OCIDocument{Version: "1.0", TrustPolicies: []trustpolicy.OCITrustPolicy{{Name: "a", RegistryScopes: lists[0], SignatureVerification: s, TrustStores: lists[1], TrustedIdentities: lists[2]}}}
				useOCIDoc(ctx, shapeE, doc)
			})
			add("memory:trustpolicy.BlobDocument", fmt.Sprintf("signatureVerification %d, lists %d", i, j), func(ctx context.Context) {
				doc := &trustpolicy.BlobDocument{Version: "1.0", TrustPolicies: []trustpolicy.BlobTrustPolicy{{Name: "bp", SignatureVerification: s, TrustStores: lists[1], TrustedIdentities: lists[2], GlobalPolicy: j%2 == 0}}}
				useBlobDoc(ctx, shapeE, doc)
			})
		}
	}
	add("memory:trustpolicy.OCIDocument", "zero document, nil and empty statements", func(ctx context.Context) {
		useOCIDoc(ctx, shapeE, &trustpolicy.OCIDocument{})
		useOCIDoc(ctx, shapeE, &trustpolicy.OCIDocument{Version: "1.0"})
		useOCIDoc(ctx, shapeE, &trustpolicy.OCIDocument{Version: "1.0", TrustPolicies: []trustpolicy.OCITrustPolicy{{}}})
		useBlobDoc(ctx, shapeE, &trustpolicy.BlobDocument{})
		useBlobDoc(ctx, shapeE, &trustpolicy.BlobDocument{Version: "1.0", TrustPolicies: []trustpolicy.BlobTrustPolicy{{}}})
	})
	return cs
}

// ---------- execution ----------

var shapeE *shapeEnvT

func useOCIDoc(ctx context.Context, se *shapeEnvT, doc *trustpolicy.OCIDocument) {
	doc.Validate()
	for _, ref := range shapeRefs {
		if p, err := doc.GetApplicableTrustPolicy(ref); err == nil && p != nil {
			p.SignatureVerification.GetVerificationLevel()
		}
	}
	v, err := verifier.NewVerifierWithOptions(se.store, verifier.VerifierOptions{OCITrustPolicy: doc})
	if err != nil {
		return
	}
	for _, ref := range shapeRefs[:3] {
		o, err := v.Verify(ctx, se.e.desc, se.e.envelope(okSc()), notation.VerifierVerifyOptions{ArtifactReference: ref, SignatureMediaType: MtJWS})
		checkPair(o, err, o != nil)
		v.SkipVerify(ctx, notation.VerifierVerifyOptions{ArtifactReference: ref})
	}
}

func useBlobDoc(ctx context.Context, se *shapeEnvT, doc *trustpolicy.BlobDocument) {
	doc.Validate()
	doc.GetGlobalTrustPolicy()
	for _, nm := range []string{"bp", "g", "", " ", "nope"} {
		if p, err := doc.GetApplicableTrustPolicy(nm); err == nil && p != nil {
			p.SignatureVerification.GetVerificationLevel()
		}
	}
	v, err := verifier.NewVerifierWithOptions(se.store, verifier.VerifierOptions{BlobTrustPolicy: doc})
	if err != nil {
		return
	}
	for _, nm := range []string{"bp", "g", ""} {
		o, err := v.VerifyBlob(ctx, se.e.descGen(okSc()), se.e.envelope(okSc()), notation.BlobVerifierVerifyOptions{SignatureMediaType: MtJWS, TrustPolicyName: nm})
		checkPair(o, err, o != nil)
		_, o2, err2 := notation.VerifyBlob(ctx, v, bytes.NewReader(blobContent), se.e.envelope(okSc()), notation.VerifyBlobOptions{BlobVerifierVerifyOptions: notation.BlobVerifierVerifyOptions{SignatureMediaType: MtJWS, TrustPolicyName: nm}})
		checkPair(o2, err2, false)
	}
}

func newShapeEnv(tmp string) *shapeEnvT {
	se := &shapeEnvT{e: newEnv(), ctx: context.Background(), tmp: tmp, cfgDir: filepath.Join(tmp, "config"), store: NewMockStore()}
	os.MkdirAll(se.cfgDir, 0o755)
	dir.UserConfigDir = se.cfgDir
	dir.UserLibexecDir = filepath.Join(tmp, "libexec")
	se.store.Put(truststore.TypeCA, "s", se.e.good[len(se.e.good)-1].C)
	var err error
	if se.cache, err = crl.NewFileCache(filepath.Join(tmp, "crl")); err != nil {
		panic(err)
	}
	se.crlURL = "http://crl.example/ca.crl"
	pdir := filepath.Join(tmp, "plugins", "plug")
	os.MkdirAll(pdir, 0o755)
	se.cliPath = filepath.Join(pdir, "notation-plug")
	script := "#!/bin/sh\ncat >/dev/null\ncat \"$0.$1.out\"\nexit 0\n"
	if err := os.WriteFile(se.cliPath, []byte(script), 0o755); err != nil {
		panic(err)
	}
	if se.cli, err = plugin.NewCLIPlugin(se.ctx, "plug", se.cliPath); err != nil {
		panic(err)
	}
	os.WriteFile(se.cliPath+".verify-signature.out", []byte(`{"verificationResults":{"SIGNATURE_VERIFIER.TRUSTED_IDENTITY":{"success":true},"SIGNATURE_VERIFIER.REVOCATION_CHECK":{"success":true}},"processedAttributes":["`+critKey+`"]}`), 0o644)
	s := okSc()
	s.PAttr, s.Crit = 2, true
	se.sigPlug = se.e.envelope(s)
	for _, c := range se.e.good.Certs() {
		se.chain = append(se.chain, c.Raw)
	}
	return se
}

func freshCRLBase64() string {
	ca := Mint(CertSpec{Subject: Name("c12 shapes crl ca"), IsCA: true}, nil)
	issuer := *ca.C
	issuer.KeyUsage = x509.KeyUsageCRLSign | x509.KeyUsageCertSign
	tpl := &x509.RevocationList{Number: big.NewInt(7), ThisUpdate: time.Now().Add(-time.Hour), NextUpdate: time.Now().Add(24 * time.Hour)}
	der, err := x509.CreateRevocationList(rand.Reader, tpl, &issuer, ca.Key)
	if err != nil {
		panic(err)
	}
	return base64.StdEncoding.EncodeToString(der)
}

func (se *shapeEnvT) withPlugin(p *MockPlugin) {
	mgr := &MockManager{Plugins: map[string]*MockPlugin{"plug": p}}
	v, err := verifier.NewVerifierWithOptions(se.store, verifier.VerifierOptions{OCITrustPolicy: OCIPolicy("strict", nil, []string{"ca:s"}, []string{"*"}, ""), PluginManager: mgr})
	if err != nil {
		return
	}
	o, err := v.Verify(se.ctx, se.e.desc, se.sigPlug, notation.VerifierVerifyOptions{ArtifactReference: se.e.ref, SignatureMediaType: MtJWS})
	checkPair(o, err, true)
}

var okMeta = pluginfw.GetMetadataResponse{Name: "plug", Description: "d", Version: "1.0.0", URL: "u", SupportedContractVersions: []string{"1.0"},
	Capabilities: []pluginfw.Capability{pluginfw.CapabilityTrustedIdentityVerifier, pluginfw.CapabilityRevocationCheckVerifier}}

func (se *shapeEnvT) sign(p *scriptedSignPlugin) {
	ps, err := signer.NewPluginSigner(p, "kid", map[string]string{"c": "d"})
	if err != nil {
		return
	}
	for _, format := range []string{MtJWS, MtCOSE} {
		sig, info, err := ps.Sign(se.ctx, se.e.desc, notation.SignerSignOptions{SignatureMediaType: format, ExpiryDuration: time.Hour})
		if err == nil && (len(sig) == 0 || info == nil) {
			panic("inconsistent: Sign without error and without signature")
		}
	}
	ps.SignBlob(se.ctx, se.e.descGen(okSc()), notation.SignerSignOptions{SignatureMediaType: MtJWS})
	ps.PluginAnnotations()
}

// runShape executes one case (under recover by the caller).
func (se *shapeEnvT) runShape(c *shapeCase) {
	ctx := se.ctx
	if c.mem != nil {
		c.mem(ctx)
		return
	}
	doc := []byte(c.Doc)
	switch c.Target {
	case "signingkeys.json":
		os.WriteFile(filepath.Join(se.cfgDir, dir.PathSigningKeys), doc, 0o600)
		ks, err := config.LoadSigningKeys()
		if err == nil && ks == nil {
			panic("inconsistent: LoadSigningKeys without error and without keys")
		}
		if err == nil {
			ks.GetDefault()
			for _, nm := range []string{"k", "g1", "g2", "", "zz"} {
				if k, err := ks.Get(nm); err == nil {
					k.Is(nm)
				}
			}
			ks.Save()
			ks.UpdateDefault("k")
			ks.UpdateDefault("g2")
			ks.Save()
			ks.Remove("k")
			ks.Remove("g1", "k")
			ks.GetDefault()
			ks.Save()
		}
		os.WriteFile(filepath.Join(se.cfgDir, dir.PathSigningKeys), doc, 0o600)
		config.LoadExecSaveSigningKeys(func(k *config.SigningKeys) error {
			if k == nil {
				panic("inconsistent: LoadExecSaveSigningKeys hands a nil value to the function")
			}
			return nil
		})
		config.LoadSigningKeys()
	case "config.json":
		os.WriteFile(filepath.Join(se.cfgDir, dir.PathConfigFile), doc, 0o600)
		c, err := config.LoadConfig()
		if err == nil && c == nil {
			panic("inconsistent: LoadConfig without error and without config")
		}
		if err == nil {
			c.Save()
			config.LoadConfig()
		}
	case "trustpolicy.oci":
		os.WriteFile(filepath.Join(se.cfgDir, dir.PathOCITrustPolicy), doc, 0o600)
		if d, err := trustpolicy.LoadOCIDocument(); err == nil && d == nil {
			panic("inconsistent: LoadOCIDocument without error and without document")
		}
		verifier.NewOCIVerifierFromConfig()
		verifier.NewFromConfig()
		os.Remove(filepath.Join(se.cfgDir, dir.PathOCITrustPolicy))
		d := &trustpolicy.OCIDocument{}
		if json.Unmarshal(doc, d) == nil {
			useOCIDoc(ctx, se, d)
		}
	case "trustpolicy.blob":
		os.WriteFile(filepath.Join(se.cfgDir, dir.PathBlobTrustPolicy), doc, 0o600)
		if d, err := trustpolicy.LoadBlobDocument(); err == nil && d == nil {
			panic("inconsistent: LoadBlobDocument without error and without document")
		}
		verifier.NewBlobVerifierFromConfig()
		os.Remove(filepath.Join(se.cfgDir, dir.PathBlobTrustPolicy))
		d := &trustpolicy.BlobDocument{}
		if json.Unmarshal(doc, d) == nil {
			useBlobDoc(ctx, se, d)
		}
	case "crl-cache":
		if se.crlPath == "" {
			se.crlPath = filepath.Join(se.tmp, "crl", crlFileName(se.crlURL))
		}
		os.WriteFile(se.crlPath, doc, 0o600)
		b, err := se.cache.Get(ctx, se.crlURL)
		if err == nil && (b == nil || b.BaseCRL == nil) {
			panic("inconsistent: no error and no bundle")
		}
	case "plugin-metadata":
		var m *pluginfw.GetMetadataResponse // "null": the (nil, nil) answer of an in-process plugin
		if json.Unmarshal(doc, &m) != nil {
			return
		}
		se.withPlugin(&MockPlugin{Meta: m, Resp: &pluginfw.VerifySignatureResponse{
			VerificationResults: map[pluginfw.Capability]*pluginfw.VerificationResult{pluginfw.CapabilityTrustedIdentityVerifier: {Success: true}, pluginfw.CapabilityRevocationCheckVerifier: {Success: true}},
			ProcessedAttributes: []interface{}{critKey}}})
		se.sign(&scriptedSignPlugin{meta: m, key: &pluginfw.DescribeKeyResponse{KeyID: "kid", KeySpec: pluginfw.KeySpecEC256},
			sigResp: &pluginfw.GenerateSignatureResponse{KeyID: "kid", Signature: []byte{1, 2, 3}, SigningAlgorithm: pluginfw.SignatureAlgorithmECDSA_SHA256, CertificateChain: se.chain},
			envResp: &pluginfw.GenerateEnvelopeResponse{SignatureEnvelope: se.e.envelope(okSc()), SignatureEnvelopeType: MtJWS}})
	case "plugin-metadata-cli":
		os.WriteFile(se.cliPath+".get-plugin-metadata.out", doc, 0o644)
		c2, cancel := context.WithTimeout(ctx, 10*time.Second)
		defer cancel()
		m, err := se.cli.GetMetadata(c2, &pluginfw.GetMetadataRequest{})
		if err == nil && m == nil {
			panic("inconsistent: no error and no metadata")
		}
		mgr := plugin.NewCLIManager(dir.NewSysFS(filepath.Join(se.tmp, "plugins")))
		if p, err := mgr.Get(c2, "plug"); err == nil && p == nil {
			panic("inconsistent: CLIManager.Get without error and without plugin")
		}
		mgr.List(c2)
		v, err := verifier.NewVerifierWithOptions(se.store, verifier.VerifierOptions{OCITrustPolicy: OCIPolicy("strict", nil, []string{"ca:s"}, []string{"*"}, ""), PluginManager: mgr})
		if err == nil {
			o, err := v.Verify(c2, se.e.desc, se.sigPlug, notation.VerifierVerifyOptions{ArtifactReference: se.e.ref, SignatureMediaType: MtJWS})
			checkPair(o, err, true)
		}
	case "plugin-reply.verify-signature":
		// decoded into a pointer: "null" gives the (nil, nil) answer of an in-process plugin
		// (fix 686cc56: an error, not a panic); every other text decodes as the CLI plugin decodes it
		var r *pluginfw.VerifySignatureResponse
		if json.Unmarshal(doc, &r) != nil {
			return
		}
		m := okMeta
		se.withPlugin(&MockPlugin{Meta: &m, Resp: r})
	case "plugin-reply.describe-key", "plugin-reply.generate-signature", "plugin-reply.generate-envelope":
		chainJSON, _ := json.Marshal(se.chain)
		envJSON, _ := json.Marshal(se.e.envelope(okSc()))
		text := strings.ReplaceAll(strings.ReplaceAll(c.Doc, `"$CHAIN"`, string(chainJSON)), `"$ENVELOPE"`, string(envJSON))
		m := okMeta
		p := &scriptedSignPlugin{meta: &m, key: &pluginfw.DescribeKeyResponse{KeyID: "kid", KeySpec: pluginfw.KeySpecEC256},
			sigResp: &pluginfw.GenerateSignatureResponse{KeyID: "kid", Signature: []byte{1, 2, 3}, SigningAlgorithm: pluginfw.SignatureAlgorithmECDSA_SHA256, CertificateChain: se.chain},
			envResp: &pluginfw.GenerateEnvelopeResponse{SignatureEnvelope: se.e.envelope(okSc()), SignatureEnvelopeType: MtJWS}}
		var derr error
		switch c.Target {
		case "plugin-reply.describe-key":
			p.key = nil
			derr = json.Unmarshal([]byte(text), &p.key)
		case "plugin-reply.generate-signature":
			p.sigResp = nil
			derr = json.Unmarshal([]byte(text), &p.sigResp)
		default:
			p.envResp = nil
			derr = json.Unmarshal([]byte(text), &p.envResp)
		}
		if derr != nil {
			return
		}
		for _, caps := range [][]pluginfw.Capability{{pluginfw.CapabilitySignatureGenerator}, {pluginfw.CapabilityEnvelopeGenerator}} {
			m.Capabilities = caps
			se.sign(p)
		}
	default:
		panic("c12: unknown shape target " + c.Target)
	}
}

// crlFileName: the cache names the file of a URL by the hex SHA-256 of the URL.
func crlFileName(url string) string {
	sum := sha256.Sum256([]byte(url))
	return hex.EncodeToString(sum[:])
}

type shapeLine struct {
	K     int    `json:"k"`
	Start bool   `json:"start,omitempty"`
	Viol  string `json:"violation,omitempty"`
}

// shapeChild: the body of the child process. spec = from|to|outfile
func shapeChild(spec string) {
	parts := strings.SplitN(spec, "|", 3)
	from, _ := strconv.Atoi(parts[0])
	to, _ := strconv.Atoi(parts[1])
	out, err := os.OpenFile(parts[2], os.O_CREATE|os.O_WRONLY|os.O_TRUNC, 0o644)
	if err != nil {
		os.Exit(3)
	}
	tmp, err := os.MkdirTemp("", "vh-c12-shapes-")
	if err != nil {
		os.Exit(3)
	}
	defer os.RemoveAll(tmp)
	se := newShapeEnv(tmp)
	shapeE = se
	cs := shapeCases(freshCRLBase64())
	bw := bufio.NewWriter(out)
	put := func(l shapeLine) {
		b, _ := json.Marshal(l)
		bw.Write(b)
		bw.WriteByte('\n')
		bw.Flush()
	}
	for k := from; k < to && k < len(cs); k++ {
		put(shapeLine{K: k, Start: true})
		what := ""
		done := make(chan string, 1)
		go func() {
			defer func() {
				if r := recover(); r != nil {
					done <- fmt.Sprintf("panic: %v", r)
					return
				}
				done <- ""
			}()
			se.runShape(&cs[k])
		}()
		select {
		case what = <-done:
		case <-time.After(20 * time.Second):
			what = "no return within 20s"
		}
		put(shapeLine{K: k, Viol: what})
	}
	out.Close()
	os.RemoveAll(tmp)
	os.Exit(0)
}

// runShapes: the parent side. Ids first..first+N-1 belong to the cases of the enumeration.
func runShapes(a *Args, w *CaseWriter, id *int64) {
	cs := shapeCases("CRL")
	first := *id
	*id += int64(len(cs))
	from, to := 0, len(cs)
	if a.Only >= 0 {
		if a.Only < first || a.Only >= *id {
			return
		}
		from = int(a.Only - first)
		to = from + 1
	}
	self, err := os.Executable()
	if err != nil {
		panic(err)
	}
	t0 := time.Now()
	byTarget := map[string]int{}
	viols, crashes := 0, 0
	for from < to {
		outFile := fmt.Sprintf("%s/shapes_%d.jsonl", a.Out, from)
		cmd := exec.Command(self)
		cmd.Env = append(os.Environ(), fmt.Sprintf("%s=%d|%d|%s", shapeEnv, from, to, outFile))
		var stderr bytes.Buffer
		cmd.Stderr = &stderr
		done := make(chan error, 1)
		if err := cmd.Start(); err != nil {
			panic(err)
		}
		go func() { done <- cmd.Wait() }()
		var werr error
		select {
		case werr = <-done:
		case <-time.After(300 * time.Second):
			cmd.Process.Kill()
			werr = errors.New("no exit within 300s")
		}
		started, finished := -1, -1
		if f, err := os.Open(outFile); err == nil {
			sc := bufio.NewScanner(f)
			sc.Buffer(make([]byte, 1<<20), 1<<24)
			for sc.Scan() {
				var l shapeLine
				if json.Unmarshal(sc.Bytes(), &l) != nil {
					continue
				}
				if l.Start {
					started = l.K
					continue
				}
				finished = l.K
				byTarget[cs[l.K].Target]++
				w.Count("exploration_family", "shapes:"+cs[l.K].Target)
				if l.Viol != "" {
					viols++
					c := cs[l.K]
					c.Panic = l.Viol
					w.ImplViolation(first+int64(l.K), c.Target+": "+l.Viol, c, "")
				}
			}
			f.Close()
			os.Remove(outFile)
		}
		if werr == nil {
			break
		}
		// the child died: the case that was being processed is the failing input
		crashes++
		if started > finished && started >= 0 {
			c := cs[started]
			head := stderr.String()
			if i := strings.Index(head, "\n\n"); i > 0 {
				head = head[:i]
			}
			c.Panic = "process killed (" + werr.Error() + "): " + Short(head, 1200)
			viols++
			w.ImplViolation(first+int64(started), c.Target+": the process died: "+Short(strings.SplitN(head, "\n", 2)[0], 200), c, "")
			from = started + 1 // go on behind it
			continue
		}
		w.ImplViolation(first+int64(from), "shape family: child process failed before its first case: "+werr.Error(), map[string]any{"stderr": Short(stderr.String(), 1500)}, "")
		break
	}
	w.Set("shapes", "systematic structurally valid documents: every subset of the members of every decoded object x {valid, null, empty} values, every member with wrong-typed values alone and next to the others, unknown members only, duplicate / upper-case member names, every position among complete entries; in-memory values with nil embedded pointers / nil slices / nil maps through the public methods; one child process (a fatal error is attributed to the document in progress)")
	w.Set("shapes_inputs", len(cs))
	w.Set("shapes_inputs_by_target", byTarget)
	w.Set("shapes_violations", viols)
	w.Set("shapes_process_crashes", crashes)
	w.Set("shapes_seconds", float64(time.Since(t0).Milliseconds())/1000)
}
