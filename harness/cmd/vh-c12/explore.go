package main

import (
	. "vh/kit"
)

func explore(a *Args, r *Rng, w *CaseWriter, firstID int64) error { return nil }
