package main

// Part 2 of the C12 driver: exploration (supports the theorem, is not part of
// it). Every exported entry point that decodes untrusted bytes is run under
// recover, a deadline and an allocation bound on random inputs and on
// structure-aware mutations of valid ones. A recovered panic, a hang or an
// allocation above the bound is a concrete failing input (ImplViolation).

import (
	"bytes"
	"context"
	"crypto/rand"
	"crypto/sha256"
	"crypto/x509"
	"encoding/base64"
	"encoding/hex"
	"encoding/json"
	"errors"
	"fmt"
	"io"
	"math/big"
	"os"
	"path/filepath"
	"runtime/debug"
	"runtime/metrics"
	"strings"
	"time"
	. "vh/kit"

	"github.com/fxamacker/cbor/v2"
	"github.com/notaryproject/notation-go"
	"github.com/notaryproject/notation-go/config"
	"github.com/notaryproject/notation-go/dir"
	"github.com/notaryproject/notation-go/plugin"
	"github.com/notaryproject/notation-go/registry"
	"github.com/notaryproject/notation-go/signer"
	"github.com/notaryproject/notation-go/verifier"
	"github.com/notaryproject/notation-go/verifier/crl"
	"github.com/notaryproject/notation-go/verifier/trustpolicy"
	"github.com/notaryproject/notation-go/verifier/truststore"
	pluginfw "github.com/notaryproject/notation-plugin-framework-go/plugin"
	"github.com/opencontainers/go-digest"
	ocispec "github.com/opencontainers/image-spec/specs-go/v1"
)

// ---------- the guarded runner ----------

type xcase struct {
	Part   string `json:"part"`
	Family string `json:"family"`
	Entry  string `json:"entry"`
	Note   string `json:"note,omitempty"`
	Input  string `json:"input_base64,omitempty"`
	Panic  string `json:"panic,omitempty"`
	Alloc  uint64 `json:"allocated_bytes,omitempty"`
}

type xrun struct {
	w             *CaseWriter
	id            int64
	n             int
	viol          int
	byFam         map[string]int
	deadline      time.Duration
	maxAlloc      uint64
	famAlloc      map[string]uint64
	pluginReached int
	sample        []metrics.Sample
}

func (x *xrun) allocs() uint64 {
	metrics.Read(x.sample)
	return x.sample[0].Value.Uint64()
}

// call runs f guarded. bound = allocation bound in bytes for this call.
func (x *xrun) call(family, entry, note string, input []byte, bound uint64, f func()) {
	my := x.id
	x.id++
	if !x.w.Want(my) {
		return
	}
	x.n++
	x.byFam[family]++
	x.w.Count("exploration_family", family)
	done := make(chan string, 1)
	inputCopy := append([]byte(nil), input...)
	before := x.allocs()
	go func() {
		defer func() {
			if r := recover(); r != nil {
				done <- fmt.Sprintf("panic: %v", r)
				return
			}
			done <- ""
		}()
		f()
	}()
	var what string
	select {
	case what = <-done:
	case <-time.After(x.deadline):
		what = fmt.Sprintf("no return within %v", x.deadline)
	}
	alloc := x.allocs() - before
	if alloc > x.maxAlloc {
		x.maxAlloc = alloc
	}
	if alloc > x.famAlloc[family] {
		x.famAlloc[family] = alloc
	}
	if what == "" && !bytes.Equal(inputCopy, input) {
		what = "library mutated caller-owned input bytes"
	}
	if what == "" && alloc > bound {
		what = fmt.Sprintf("runaway allocation: %d bytes allocated during the call (bound %d)", alloc, bound)
	}
	if what != "" {
		x.viol++
		in := input
		if len(in) > 1<<16 {
			in = in[:1<<16]
		}
		c := xcase{Part: "exploration", Family: family, Entry: entry, Note: note, Input: base64.StdEncoding.EncodeToString(in), Panic: what, Alloc: alloc}
		x.w.ImplViolation(my, entry+": "+what, c, "")
	}
}

const (
	boundSmall  = 24 << 20 // inputs of a few KiB never need more
	boundGraph  = 5 << 20  // content declared above a cap (6 MiB manifests, 40 MiB blobs) must be refused unread
	boundLayout = 16 << 20 // oras-go's own loading of a layout reads manifests up to their declared size
)

// ---------- mutators ----------

func randBytes(r *Rng, n int) []byte {
	b := make([]byte, n)
	for i := range b {
		b[i] = byte(r.U64())
	}
	return b
}

var interesting = [][]byte{
	{0x00}, {0xff}, {0x7f}, {0x80}, []byte("null"), []byte("{}"), []byte("[]"), []byte(`""`), []byte("-1"), []byte("1e999"),
	{0x9b, 0xff, 0xff, 0xff, 0xff, 0xff, 0xff, 0xff, 0xff}, {0x5b, 0x7f, 0xff, 0xff, 0xff, 0xff, 0xff, 0xff, 0xff},
	{0xbb, 0x00, 0x00, 0x00, 0x01, 0x00, 0x00, 0x00, 0x00}, {0x9f}, {0xbf}, {0x5f}, {0xd8, 0x12}, {0xf9, 0x7e, 0x00},
	{0x30, 0x84, 0x7f, 0xff, 0xff, 0xff}, {0x30, 0x80},
}

func mutateBytes(r *Rng, b []byte) []byte {
	c := append([]byte(nil), b...)
	for k := 1 + r.Intn(3); k > 0; k-- {
		if len(c) == 0 {
			return randBytes(r, 1+r.Intn(16))
		}
		p := r.Intn(len(c))
		switch r.Intn(9) {
		case 0:
			c[p] ^= 1 << uint(r.Intn(8))
		case 1:
			c[p] = byte(r.U64())
		case 2:
			c = c[:p]
		case 3:
			c = c[p:]
		case 4:
			ins := Pick(r, interesting)
			c = append(c[:p], append(append([]byte(nil), ins...), c[p:]...)...)
		case 5:
			q := p + r.Intn(len(c)-p)
			c = append(c[:p], c[q:]...)
		case 6:
			q := p + r.Intn(len(c)-p)
			c = append(c[:q], append(append([]byte(nil), c[p:q]...), c[q:]...)...)
		case 7:
			ins := Pick(r, interesting)
			for i := 0; i < len(ins) && p+i < len(c); i++ {
				c[p+i] = ins[i]
			}
		case 8:
			c = append(c, randBytes(r, 1+r.Intn(32))...)
		}
	}
	return c
}

func confused(r *Rng, depth int) any {
	switch r.Intn(14) {
	case 0:
		return nil
	case 1:
		return true
	case 2:
		return float64(r.Intn(1000)) - 500
	case 3:
		return 1e308
	case 4:
		return ""
	case 5:
		return strings.Repeat("A", 1+r.Intn(5000))
	case 6:
		return []any{}
	case 7:
		return map[string]any{}
	case 8:
		return []any{nil, 1.0, "x", []any{}, map[string]any{"a": nil}}
	case 9:
		var v any = "deep"
		for i := 0; i < 50+r.Intn(400); i++ {
			if r.Bool() {
				v = []any{v}
			} else {
				v = map[string]any{"k": v}
			}
		}
		return v
	case 10:
		return "\x00\xff\xfe bad utf8 \xc3\x28"
	case 11:
		return json.Number("123456789012345678901234567890")
	case 12:
		return -1.0
	}
	return string(randBytes(r, r.Intn(40)))
}

// mutateTree applies one edit somewhere inside a decoded JSON value.
func mutateTree(r *Rng, v any, depth int) any {
	switch t := v.(type) {
	case map[string]any:
		if len(t) == 0 || r.Chance(1, 6) {
			if r.Bool() {
				return confused(r, depth)
			}
			t[Pick(r, []string{"", "level", "name", "version", "extra", "Name", "trustPolicies", "keys"})] = confused(r, depth)
			return t
		}
		keys := make([]string, 0, len(t))
		for k := range t {
			keys = append(keys, k)
		}
		sortStrings(keys)
		k := Pick(r, keys)
		switch r.Intn(6) {
		case 0:
			delete(t, k)
		case 1:
			t[k] = confused(r, depth)
		case 2:
			t[strings.ToUpper(k)] = t[k]
		default:
			t[k] = mutateTree(r, t[k], depth+1)
		}
		return t
	case []any:
		if len(t) == 0 || r.Chance(1, 6) {
			if r.Bool() {
				return confused(r, depth)
			}
			return append(t, confused(r, depth))
		}
		i := r.Intn(len(t))
		switch r.Intn(6) {
		case 0:
			return append(t[:i], t[i+1:]...)
		case 1:
			t[i] = confused(r, depth)
		case 2:
			return append(t, t[i])
		default:
			t[i] = mutateTree(r, t[i], depth+1)
		}
		return t
	case string:
		switch r.Intn(5) {
		case 0:
			return confused(r, depth)
		case 1:
			return t + string(Pick(r, interesting))
		case 2:
			if len(t) > 0 {
				return t[:r.Intn(len(t))]
			}
			return "x"
		case 3:
			if k := 2 + r.Intn(50); len(t)*k <= 1<<16 {
				return strings.Repeat(t, k)
			}
			return t
		}
		return Pick(r, []string{"*", "", " ", "skip", "strict", "ca:", ":", "x509.subject:", "x509.subject: CN=", "ca:..", "tsa:x", "a:b:c", "../x", "1.0", "2.0"})
	}
	return confused(r, depth)
}

func sortStrings(xs []string) {
	for i := 1; i < len(xs); i++ {
		for j := i; j > 0 && xs[j] < xs[j-1]; j-- {
			xs[j], xs[j-1] = xs[j-1], xs[j]
		}
	}
}

// mutateJSON returns a mutated document: tree edits on the decoded value, or
// byte-level edits, or plain random bytes.
func mutateJSON(r *Rng, doc []byte) []byte {
	switch r.Intn(10) {
	case 0:
		return randBytes(r, r.Intn(200))
	case 1, 2:
		return mutateBytes(r, doc)
	case 3:
		// duplicate members / trailing data
		return append(append([]byte(nil), doc...), doc...)
	}
	var v any
	dec := json.NewDecoder(bytes.NewReader(doc))
	dec.UseNumber()
	if dec.Decode(&v) != nil {
		return mutateBytes(r, doc)
	}
	for k := 1 + r.Intn(2); k > 0; k-- {
		v = mutateTree(r, v, 0)
	}
	b, err := json.Marshal(v)
	if err != nil {
		return mutateBytes(r, doc)
	}
	return b
}

// mutateJWS edits a JWS envelope with knowledge of its structure.
func mutateJWS(r *Rng, env []byte) []byte {
	var m map[string]any
	if json.Unmarshal(env, &m) != nil || r.Chance(1, 4) {
		return mutateJSON(r, env)
	}
	field := Pick(r, []string{"protected", "payload", "signature", "header"})
	switch field {
	case "header":
		m["header"] = mutateTree(r, m["header"], 0)
	default:
		s, _ := m[field].(string)
		raw, err := base64.RawURLEncoding.DecodeString(s)
		if err != nil || r.Chance(1, 5) {
			m[field] = mutateTree(r, m[field], 0)
			break
		}
		if field == "signature" {
			raw = mutateBytes(r, raw)
		} else {
			raw = mutateJSON(r, raw)
		}
		m[field] = base64.RawURLEncoding.EncodeToString(raw)
	}
	b, err := json.Marshal(m)
	if err != nil {
		return mutateBytes(r, env)
	}
	return b
}

func cborConfused(r *Rng) any {
	switch r.Intn(10) {
	case 0:
		return nil
	case 1:
		return int64(-1)
	case 2:
		return uint64(1) << 63
	case 3:
		return []byte{}
	case 4:
		return randBytes(r, r.Intn(64))
	case 5:
		return []any{}
	case 6:
		return map[any]any{int64(1): nil}
	case 7:
		return cbor.Tag{Number: uint64(r.Intn(40)), Content: "tagged"}
	case 8:
		return strings.Repeat("s", r.Intn(300))
	}
	return 1.5
}

func mutateCBORTree(r *Rng, v any) any {
	switch t := v.(type) {
	case map[any]any:
		if len(t) == 0 || r.Chance(1, 5) {
			t[Pick(r, []any{int64(1), int64(2), int64(3), int64(33), "io.cncf.notary.signingScheme", "crit", int64(-70000)})] = cborConfused(r)
			return t
		}
		i, n := 0, r.Intn(len(t))
		for k, val := range t {
			if i == n {
				switch r.Intn(4) {
				case 0:
					delete(t, k)
				case 1:
					t[k] = cborConfused(r)
				default:
					t[k] = mutateCBORTree(r, val)
				}
				break
			}
			i++
		}
		return t
	case []any:
		if len(t) == 0 || r.Chance(1, 5) {
			return append(t, cborConfused(r))
		}
		i := r.Intn(len(t))
		switch r.Intn(4) {
		case 0:
			return append(t[:i], t[i+1:]...)
		case 1:
			t[i] = cborConfused(r)
		default:
			t[i] = mutateCBORTree(r, t[i])
		}
		return t
	case []byte:
		if r.Bool() {
			return mutateBytes(r, t)
		}
		return cborConfused(r)
	}
	return cborConfused(r)
}

// mutateCOSE edits a COSE_Sign1 envelope: tag, the four array fields, the
// protected header map (re-encoded), the unprotected header tree.
func mutateCOSE(r *Rng, env []byte) []byte {
	if r.Chance(1, 3) {
		return mutateBytes(r, env)
	}
	var tag cbor.Tag
	if cbor.Unmarshal(env, &tag) != nil {
		return mutateBytes(r, env)
	}
	arr, ok := tag.Content.([]any)
	if !ok || len(arr) != 4 {
		return mutateBytes(r, env)
	}
	switch r.Intn(7) {
	case 0:
		tag.Number = uint64(r.Intn(100))
	case 1:
		if p, ok := arr[0].([]byte); ok {
			var pm map[any]any
			if cbor.Unmarshal(p, &pm) == nil {
				pm2 := mutateCBORTree(r, pm)
				if b, err := cbor.Marshal(pm2); err == nil {
					arr[0] = b
					break
				}
			}
			arr[0] = mutateBytes(r, p)
		}
	case 2:
		arr[1] = mutateCBORTree(r, arr[1])
	case 3:
		if p, ok := arr[2].([]byte); ok {
			arr[2] = mutateJSON(r, p)
		}
	case 4:
		arr[3] = mutateCBORTree(r, arr[3])
	case 5:
		i := r.Intn(4)
		arr[i] = cborConfused(r)
	case 6:
		if r.Bool() {
			arr = arr[:r.Intn(4)]
		} else {
			arr = append(arr, cborConfused(r))
		}
	}
	tag.Content = arr
	b, err := cbor.Marshal(tag)
	if err != nil {
		return mutateBytes(r, env)
	}
	return b
}

// ---------- the families ----------

func explore(a *Args, r *Rng, w *CaseWriter, firstID int64) error {
	debug.SetMemoryLimit(3 << 30)
	x := &xrun{w: w, id: firstID, byFam: map[string]int{}, famAlloc: map[string]uint64{}, deadline: 20 * time.Second,
		sample: []metrics.Sample{{Name: "/gc/heap/allocs:bytes"}}}
	thorough := a.Tier == "thorough"
	scale := func(quick, thor int) int {
		if thorough {
			return thor
		}
		return quick
	}
	tmp, err := os.MkdirTemp("", "vh-c12-")
	if err != nil {
		return err
	}
	defer os.RemoveAll(tmp)
	e := newEnv()
	ctx := context.Background()

	secs := map[string]float64{}
	timed := func(name string, f func()) {
		t := time.Now()
		f()
		secs[name] = float64(time.Since(t).Milliseconds()) / 1000
	}
	timed("envelope", func() { exploreEnvelopes(x, r, e, ctx, scale(9000, 400000)) })
	timed("document", func() { exploreDocuments(x, r, e, ctx, tmp, scale(9000, 300000)) })
	timed("crl-cache", func() { exploreCRL(x, r, ctx, tmp, scale(1500, 60000)) })
	timed("registry-graph", func() { exploreGraph(x, r, e, ctx, scale(2500, 100000)) })
	timed("oci-layout", func() { exploreLayouts(x, r, e, ctx, tmp, scale(150, 4000)) })
	timed("plugin-answers", func() { exploreSignerPlugin(x, r, e, ctx, scale(1500, 60000)) })
	timed("plugin-process", func() { explorePluginProcess(x, r, e, ctx, tmp, scale(120, 3000)) })
	w.Set("exploration_seconds_by_family", secs)

	w.Set("part2", "exploration (Go side only; supports the theorem, is not part of it): exported entry points under recover + deadline + allocation bound on random and mutated inputs")
	w.Set("exploration_inputs", x.n)
	w.Set("exploration_inputs_by_family", x.byFam)
	w.Set("exploration_violations", x.viol)
	w.Set("exploration_cli_plugin_answers_inspected_by_verifier", x.pluginReached)
	w.Set("exploration_max_allocation_bytes_in_one_call", x.maxAlloc)
	w.Set("exploration_max_allocation_bytes_by_family", x.famAlloc)
	w.Set("exploration_guards", fmt.Sprintf("recover around every call; deadline %v per call; allocation bound %d MiB per call (5 MiB for scripted registry content, 16 MiB for on-disk layouts: manifests declared at 6 MiB and blobs declared at 40 MiB, above the 4 MiB / 32 MiB caps, must be refused unread); soft memory limit 3 GiB", x.deadline, boundSmall>>20))
	return nil
}

// (i) signature envelopes through the verifier and notation.VerifyBlob
func exploreEnvelopes(x *xrun, r *Rng, e *env, ctx context.Context, n int) {
	var bases [][2]any
	for _, f := range []string{MtJWS, MtCOSE} {
		for k := 0; k < 4; k++ {
			s := okSc()
			s.Format = f
			switch k {
			case 1:
				s.PAttr, s.Minver, s.Crit = 2, 1, true
			case 2:
				s.ExpFail, s.Payload = true, 2
			case 3:
				s.NonStr = f == MtCOSE
				s.Crit = true
			}
			bases = append(bases, [2]any{f, e.envelope(s)})
		}
	}
	mk := func(level string, pm bool) notation.Verifier {
		c := &lcase{OCI: docCfg{Kind: 2, Level: level}, Blob: docCfg{Kind: 2, Level: level, Global: true}, PM: pmCfg{Kind: 0}, Sc: okSc()}
		if pm {
			c.PM = pmOK("TI", "Rev")
		}
		v, _, err := e.build(c, okSc())
		if err != nil {
			panic(err)
		}
		return v
	}
	vs := []notation.Verifier{mk("strict", true), mk("permissive", false), mk("audit", true)}
	for k := 0; k < n; k++ {
		b := Pick(r, bases)
		format, valid := b[0].(string), b[1].([]byte)
		var in []byte
		note := "mutated " + format
		switch r.Intn(12) {
		case 0:
			in, note = randBytes(r, r.Intn(300)), "random bytes"
		case 1:
			in, note = valid, "valid envelope"
		default:
			if format == MtJWS {
				in = mutateJWS(r, valid)
			} else {
				in = mutateCOSE(r, valid)
			}
		}
		mt := format
		if r.Chance(1, 10) {
			mt = Pick(r, []string{MtJWS, MtCOSE, "", "application/unknown"})
		}
		v := Pick(r, vs)
		switch r.Intn(3) {
		case 0:
			x.call("envelope", "verifier.Verify", note, in, boundSmall, func() {
				o, err := v.Verify(ctx, e.desc, in, notation.VerifierVerifyOptions{ArtifactReference: e.ref, SignatureMediaType: mt, UserMetadata: map[string]string{"k": "v"}})
				checkPair(o, err, true)
				if o != nil {
					o.UserMetadata()
				}
			})
		case 1:
			x.call("envelope", "verifier.VerifyBlob", note, in, boundSmall, func() {
				bv := v.(notation.BlobVerifier)
				o, err := bv.VerifyBlob(ctx, e.descGen(okSc()), in, notation.BlobVerifierVerifyOptions{SignatureMediaType: mt})
				checkPair(o, err, true)
				if o != nil {
					o.UserMetadata()
				}
			})
		case 2:
			x.call("envelope", "notation.VerifyBlob", note, in, boundSmall, func() {
				bv := v.(notation.BlobVerifier)
				_, o, err := notation.VerifyBlob(ctx, bv, bytes.NewReader(blobContent), in, notation.VerifyBlobOptions{BlobVerifierVerifyOptions: notation.BlobVerifierVerifyOptions{SignatureMediaType: mt}, ContentMediaType: "application/octet-stream"})
				checkPair(o, err, false)
			})
		}
	}
}

// checkPair panics (and is thereby recorded) when an (outcome, error) pair is
// inconsistent: no error without an error-free outcome, or (afterSel) an error
// with an outcome whose Error is not that error.
func checkPair(o *notation.VerificationOutcome, err error, afterSel bool) {
	if err == nil {
		if o == nil {
			panic("inconsistent: no error and no outcome")
		}
		if o.Error != nil {
			panic("inconsistent: no error but outcome.Error is set")
		}
		return
	}
	if o != nil && o.Error == nil {
		panic("inconsistent: an error next to an outcome without error")
	}
	if afterSel && o == nil {
		panic("inconsistent: an error after policy selection without outcome")
	}
	if afterSel && !sameErr(o.Error, err) {
		panic("inconsistent: outcome.Error is not the error returned")
	}
}

var ociPolicyBase = []byte(`{"version":"1.0","trustPolicies":[{"name":"a","registryScopes":["reg.example/repo","reg.example/b"],"signatureVerification":{"level":"strict","override":{"revocation":"skip"},"verifyTimestamp":"afterCertExpiry"},"trustStores":["ca:s","tsa:t"],"trustedIdentities":["x509.subject: CN=x,O=Verif,C=US","x509.subject: CN=y,O=Verif,C=US"]},{"name":"w","registryScopes":["*"],"signatureVerification":{"level":"audit"},"trustStores":["signingAuthority:s"],"trustedIdentities":["*"]},{"name":"s","registryScopes":["reg.example/skipped"],"signatureVerification":{"level":"skip"}}]}`)
var blobPolicyBase = []byte(`{"version":"1.0","trustPolicies":[{"name":"bp","signatureVerification":{"level":"permissive","override":{"expiry":"enforce"}},"trustStores":["ca:s"],"trustedIdentities":["x509.subject: CN=x,O=Verif,C=US"],"globalPolicy":true},{"name":"sk","signatureVerification":{"level":"skip"}}]}`)
var keysBase = []byte(`{"default":"k1","keys":[{"name":"k1","keyPath":"/a/k1.key","certPath":"/a/k1.crt"},{"name":"k2","id":"kid","pluginName":"plug","pluginConfig":{"a":"b"}}]}`)
var configBase = []byte(`{"insecureRegistries":["reg.example"],"credsStore":"x","credHelpers":{"reg.example":"h"},"signatureFormat":"cose"}`)

// (ii) JSON documents: trust policies, signing keys, config
func exploreDocuments(x *xrun, r *Rng, e *env, ctx context.Context, tmp string, n int) {
	cfgDir := filepath.Join(tmp, "config")
	os.MkdirAll(cfgDir, 0o755)
	oldCfg := dir.UserConfigDir
	dir.UserConfigDir = cfgDir
	defer func() { dir.UserConfigDir = oldCfg }()
	refs := []string{"reg.example/repo@sha256:" + strings.Repeat("a", 64), "reg.example/skipped@sha256:" + strings.Repeat("a", 64), "x", "", "reg.example/repo:tag", "@", "reg.example/../x@sha256:00"}
	store := NewMockStore()
	for k := 0; k < n; k++ {
		viaFile := r.Chance(1, 8)
		switch r.Intn(9) {
		case 0, 1, 2:
			in := mutateJSON(r, ociPolicyBase)
			x.call("document", "trustpolicy.OCIDocument", fmt.Sprintf("file=%v", viaFile), in, boundSmall, func() {
				var doc *trustpolicy.OCIDocument
				if viaFile {
					os.WriteFile(filepath.Join(cfgDir, dir.PathOCITrustPolicy), in, 0o600)
					d, err := trustpolicy.LoadOCIDocument()
					if err != nil {
						verifier.NewOCIVerifierFromConfig()
						return
					}
					doc = d
					verifier.NewOCIVerifierFromConfig()
				} else {
					doc = &trustpolicy.OCIDocument{}
					if json.Unmarshal(in, doc) != nil {
						return
					}
				}
				verr := doc.Validate()
				for _, ref := range refs {
					p, err := doc.GetApplicableTrustPolicy(ref)
					if err == nil && p != nil {
						p.SignatureVerification.GetVerificationLevel()
					}
				}
				// a document the constructor accepts (or not) drives every entry point
				v, err := verifier.NewVerifierWithOptions(store, verifier.VerifierOptions{OCITrustPolicy: doc})
				if err != nil {
					return
				}
				_ = verr
				for _, ref := range refs[:3] {
					o, err := v.Verify(ctx, e.desc, e.envelope(okSc()), notation.VerifierVerifyOptions{ArtifactReference: ref, SignatureMediaType: MtJWS})
					checkPair(o, err, o != nil)
					v.SkipVerify(ctx, notation.VerifierVerifyOptions{ArtifactReference: ref})
				}
			})
		case 3, 4:
			in := mutateJSON(r, blobPolicyBase)
			x.call("document", "trustpolicy.BlobDocument", fmt.Sprintf("file=%v", viaFile), in, boundSmall, func() {
				var doc *trustpolicy.BlobDocument
				if viaFile {
					os.WriteFile(filepath.Join(cfgDir, dir.PathBlobTrustPolicy), in, 0o600)
					d, err := trustpolicy.LoadBlobDocument()
					verifier.NewBlobVerifierFromConfig()
					if err != nil {
						return
					}
					doc = d
				} else {
					doc = &trustpolicy.BlobDocument{}
					if json.Unmarshal(in, doc) != nil {
						return
					}
				}
				doc.Validate()
				doc.GetGlobalTrustPolicy()
				for _, nm := range []string{"bp", "sk", "", " ", "nope"} {
					p, err := doc.GetApplicableTrustPolicy(nm)
					if err == nil && p != nil {
						p.SignatureVerification.GetVerificationLevel()
					}
				}
				v, err := verifier.NewVerifierWithOptions(store, verifier.VerifierOptions{BlobTrustPolicy: doc})
				if err != nil {
					return
				}
				for _, nm := range []string{"bp", "sk", ""} {
					o, err := v.VerifyBlob(ctx, e.descGen(okSc()), e.envelope(okSc()), notation.BlobVerifierVerifyOptions{SignatureMediaType: MtJWS, TrustPolicyName: nm})
					checkPair(o, err, o != nil)
					_, o2, err2 := notation.VerifyBlob(ctx, v, bytes.NewReader(blobContent), e.envelope(okSc()), notation.VerifyBlobOptions{BlobVerifierVerifyOptions: notation.BlobVerifierVerifyOptions{SignatureMediaType: MtJWS, TrustPolicyName: nm}})
					checkPair(o2, err2, false)
				}
			})
		case 5, 6:
			in := mutateJSON(r, keysBase)
			x.call("document", "config.LoadSigningKeys", "", in, boundSmall, func() {
				os.WriteFile(filepath.Join(cfgDir, dir.PathSigningKeys), in, 0o600)
				ks, err := config.LoadSigningKeys()
				if err != nil || ks == nil {
					return
				}
				ks.GetDefault()
				for _, nm := range []string{"k1", "k2", "", "zz"} {
					k, err := ks.Get(nm)
					if err == nil {
						_ = k.Is(nm)
					}
				}
				ks.UpdateDefault("k2")
				ks.Remove("k1")
				ks.Remove("k2", "k1")
				ks.GetDefault()
			})
		default:
			in := mutateJSON(r, configBase)
			x.call("document", "config.LoadConfig", "", in, boundSmall, func() {
				os.WriteFile(filepath.Join(cfgDir, dir.PathConfigFile), in, 0o600)
				config.LoadConfig()
			})
		}
	}
	os.Remove(filepath.Join(cfgDir, dir.PathOCITrustPolicy))
	os.Remove(filepath.Join(cfgDir, dir.PathBlobTrustPolicy))
}

// (ii, continued) CRL cache entries
func exploreCRL(x *xrun, r *Rng, ctx context.Context, tmp string, n int) {
	root := filepath.Join(tmp, "crl")
	cache, err := crl.NewFileCache(root)
	if err != nil {
		panic(err)
	}
	ca := Mint(CertSpec{Subject: Name("c12 crl ca"), IsCA: true}, nil)
	ca.C.KeyUsage |= x509.KeyUsageCRLSign
	mkCRL := func(next time.Time) []byte {
		tpl := &x509.RevocationList{Number: big.NewInt(5), ThisUpdate: time.Now().Add(-time.Hour), NextUpdate: next}
		issuer := *ca.C
		issuer.KeyUsage = x509.KeyUsageCRLSign | x509.KeyUsageCertSign
		der, err := x509.CreateRevocationList(rand.Reader, tpl, &issuer, ca.Key)
		if err != nil {
			panic(err)
		}
		return der
	}
	fresh, stale := mkCRL(time.Now().Add(24*time.Hour)), mkCRL(time.Now().Add(-time.Minute))
	entry := func(base, delta []byte) []byte {
		m := map[string]any{"baseCRL": base}
		if delta != nil {
			m["deltaCRL"] = delta
		}
		b, _ := json.Marshal(m)
		return b
	}
	bases := [][]byte{entry(fresh, nil), entry(fresh, fresh), entry(stale, nil), entry(fresh, stale)}
	url := "http://crl.example/ca.crl"
	sum := sha256.Sum256([]byte(url))
	path := filepath.Join(root, hex.EncodeToString(sum[:]))
	for k := 0; k < n; k++ {
		var in []byte
		base := Pick(r, bases)
		switch r.Intn(6) {
		case 0:
			in = base
		case 1:
			// valid JSON around a corrupted DER
			var m map[string][]byte
			json.Unmarshal(base, &m)
			m["baseCRL"] = mutateBytes(r, m["baseCRL"])
			if r.Bool() {
				m["deltaCRL"] = mutateBytes(r, m["baseCRL"])
			}
			in, _ = json.Marshal(m)
		default:
			in = mutateJSON(r, base)
		}
		x.call("crl-cache", "crl.FileCache.Get", "", in, boundSmall, func() {
			os.WriteFile(path, in, 0o600)
			b, err := cache.Get(ctx, url)
			if err == nil && (b == nil || b.BaseCRL == nil) {
				panic("inconsistent: no error and no bundle")
			}
		})
	}
}

// (iii) hostile registry content, in memory: an oras.GraphTarget whose
// referrers, manifests and blobs are scripted
type fakeTarget struct {
	blobs map[digest.Digest][]byte
	preds []ocispec.Descriptor
	tags  map[string]ocispec.Descriptor
}

func (f *fakeTarget) Fetch(ctx context.Context, d ocispec.Descriptor) (io.ReadCloser, error) {
	b, ok := f.blobs[d.Digest]
	if !ok {
		return nil, errors.New("not found")
	}
	return io.NopCloser(bytes.NewReader(b)), nil
}
func (f *fakeTarget) Exists(ctx context.Context, d ocispec.Descriptor) (bool, error) {
	_, ok := f.blobs[d.Digest]
	return ok, nil
}
func (f *fakeTarget) Push(ctx context.Context, d ocispec.Descriptor, c io.Reader) error {
	return errors.New("read only")
}
func (f *fakeTarget) Resolve(ctx context.Context, ref string) (ocispec.Descriptor, error) {
	d, ok := f.tags[ref]
	if !ok {
		return ocispec.Descriptor{}, errors.New("not found")
	}
	return d, nil
}
func (f *fakeTarget) Tag(ctx context.Context, d ocispec.Descriptor, ref string) error {
	return errors.New("read only")
}
func (f *fakeTarget) Predecessors(ctx context.Context, d ocispec.Descriptor) ([]ocispec.Descriptor, error) {
	return f.preds, nil
}

// hostileSize: a declared size that lies about the content. Sizes above the
// caps of registry/repository.go are chosen just above them: still allocatable,
// so that a missing cap shows as one large allocation instead of killing the run.
func hostileSize(r *Rng, real int, manifest bool) int64 {
	switch r.Intn(6) {
	case 0:
		return -1
	case 1:
		return 0
	case 2:
		return int64(real) + 1
	case 3:
		return int64(real) - 1
	}
	if manifest {
		if r.Chance(1, 4) {
			return 4<<20 + 1 // the first size above the 4 MiB manifest cap
		}
		return 6<<20 + int64(r.Intn(1<<16)) // above the manifest cap, allocatable
	}
	if r.Chance(1, 4) {
		return 32<<20 + 1 // the first size above the 32 MiB blob cap
	}
	return 40<<20 + int64(r.Intn(1<<16)) // above the blob cap, allocatable
}

func exploreGraph(x *xrun, r *Rng, e *env, ctx context.Context, n int) {
	c := &lcase{OCI: docCfg{Kind: 2, Level: "strict"}, PM: pmCfg{Kind: 0}, Sc: okSc()}
	v, _, err := e.build(c, okSc())
	if err != nil {
		panic(err)
	}
	sig := e.envelope(okSc())
	const artNotation = "application/vnd.cncf.notary.signature"
	for k := 0; k < n; k++ {
		ft := &fakeTarget{blobs: map[digest.Digest][]byte{}, tags: map[string]ocispec.Descriptor{}}
		subject := e.desc
		ft.tags[subject.Digest.String()] = subject
		nsig := 1 + r.Intn(3)
		for j := 0; j < nsig; j++ {
			blob := sig
			if r.Chance(1, 4) {
				blob = mutateJWS(r, sig)
			}
			layer := ocispec.Descriptor{MediaType: MtJWS, Digest: digest.FromBytes(blob), Size: int64(len(blob))}
			ft.blobs[layer.Digest] = blob
			if r.Chance(1, 3) {
				layer.Size = hostileSize(r, len(blob), false)
			}
			if r.Chance(1, 8) {
				layer.Digest = digest.Digest(Pick(r, []string{"", "sha256:zz", "md5:00", "sha256:" + strings.Repeat("0", 64), "sha512:00"}))
			}
			man := map[string]any{
				"schemaVersion": 2, "mediaType": ocispec.MediaTypeImageManifest, "artifactType": artNotation,
				"config":      map[string]any{"mediaType": artNotation, "digest": ocispec.DescriptorEmptyJSON.Digest, "size": 2},
				"layers":      []any{layer},
				"subject":     subject,
				"annotations": map[string]any{"io.cncf.notary.x509chain.thumbprint#S256": "[]"},
			}
			mt := ocispec.MediaTypeImageManifest
			if r.Chance(1, 4) {
				mt = mtArtifactManifest // registry/internal/artifactspec.MediaTypeArtifactManifest
				man = map[string]any{"mediaType": mt, "artifactType": artNotation, "blobs": []any{layer}, "subject": subject}
			}
			var mb []byte
			switch r.Intn(5) {
			case 0:
				var tree any
				b0, _ := json.Marshal(man)
				json.Unmarshal(b0, &tree)
				mb, _ = json.Marshal(mutateTree(r, tree, 0))
			case 1:
				b0, _ := json.Marshal(man)
				mb = mutateJSON(r, b0)
			case 2:
				man[Pick(r, []string{"layers", "blobs"})] = Pick(r, []any{[]any{}, []any{layer, layer}, nil, "x", []any{nil}, []any{map[string]any{"size": "big"}}})
				mb, _ = json.Marshal(man)
			default:
				mb, _ = json.Marshal(man)
			}
			md := ocispec.Descriptor{MediaType: mt, Digest: digest.FromBytes(mb), Size: int64(len(mb)), ArtifactType: artNotation}
			ft.blobs[md.Digest] = mb
			if r.Chance(1, 4) {
				md.Size = hostileSize(r, len(mb), true)
			}
			if r.Chance(1, 10) {
				md.MediaType = Pick(r, []string{"", "text/plain", ocispec.MediaTypeImageIndex})
			}
			ft.preds = append(ft.preds, md)
		}
		if r.Chance(1, 20) {
			ft.preds = append(ft.preds, ft.preds...)
		}
		repo := registry.NewRepository(ft)
		desc, _ := json.Marshal(ft.preds)
		x.call("registry-graph", "registry.Repository + notation.Verify", "", desc, boundGraph, func() {
			repo.Resolve(ctx, subject.Digest.String())
			repo.ListSignatures(ctx, subject, func(ms []ocispec.Descriptor) error {
				for _, m := range ms {
					repo.FetchSignatureBlob(ctx, m)
				}
				return nil
			})
			for _, m := range ft.preds {
				repo.FetchSignatureBlob(ctx, m)
			}
			_, outs, err := notation.Verify(ctx, v, repo, notation.VerifyOptions{ArtifactReference: e.ref, MaxSignatureAttempts: 1 + r.Intn(3)})
			if err == nil && (len(outs) != 1 || outs[0] == nil || outs[0].Error != nil) {
				panic("inconsistent: notation.Verify without error and without an error-free outcome")
			}
		})
	}
}

// (iii, continued) hostile OCI layouts on disk
func exploreLayouts(x *xrun, r *Rng, e *env, ctx context.Context, tmp string, n int) {
	c := &lcase{OCI: docCfg{Kind: 2, Level: "strict"}, PM: pmCfg{Kind: 0}, Sc: okSc()}
	v, _, err := e.build(c, okSc())
	if err != nil {
		panic(err)
	}
	sig := e.envelope(okSc())
	const artNotation = "application/vnd.cncf.notary.signature"
	for k := 0; k < n; k++ {
		root := filepath.Join(tmp, fmt.Sprintf("layout%d", k))
		blobs := filepath.Join(root, "blobs", "sha256")
		os.MkdirAll(blobs, 0o755)
		put := func(b []byte) ocispec.Descriptor {
			d := digest.FromBytes(b)
			os.WriteFile(filepath.Join(blobs, d.Encoded()), b, 0o644)
			return ocispec.Descriptor{Digest: d, Size: int64(len(b))}
		}
		art := []byte(`{"schemaVersion":2,"mediaType":"application/vnd.oci.image.manifest.v1+json","config":{"mediaType":"application/vnd.oci.empty.v1+json","digest":"sha256:44136fa355b3678a1146ad16f7e8649e94fb4fc21fe77e8310c060f61caaff8a","size":2},"layers":[]}`)
		put([]byte("{}"))
		ad := put(art)
		ad.MediaType = ocispec.MediaTypeImageManifest
		layer := put(sig)
		layer.MediaType = MtJWS
		if r.Chance(1, 3) {
			layer.Size = hostileSize(r, len(sig), false)
		}
		if r.Chance(1, 6) {
			layer.Digest = digest.FromString("dangling")
		}
		man := map[string]any{"schemaVersion": 2, "mediaType": ocispec.MediaTypeImageManifest, "artifactType": artNotation,
			"config": map[string]any{"mediaType": artNotation, "digest": ocispec.DescriptorEmptyJSON.Digest, "size": 2},
			"layers": []any{layer}, "subject": ad}
		mb, _ := json.Marshal(man)
		if r.Chance(1, 2) {
			mb = mutateJSON(r, mb)
		}
		md := put(mb)
		md.MediaType = ocispec.MediaTypeImageManifest
		md.ArtifactType = artNotation
		if r.Chance(1, 4) {
			md.Size = hostileSize(r, len(mb), true)
		}
		ad2 := ad
		ad2.Annotations = map[string]string{"org.opencontainers.image.ref.name": "v1"}
		idx := map[string]any{"schemaVersion": 2, "manifests": []any{ad2, md}}
		ib, _ := json.Marshal(idx)
		if r.Chance(1, 4) {
			ib = mutateJSON(r, ib)
		}
		os.WriteFile(filepath.Join(root, "index.json"), ib, 0o644)
		lay := []byte(`{"imageLayoutVersion":"1.0.0"}`)
		if r.Chance(1, 10) {
			lay = mutateJSON(r, lay)
		}
		os.WriteFile(filepath.Join(root, "oci-layout"), lay, 0o644)
		x.call("oci-layout", "registry.NewOCIRepository + notation.Verify", root, ib, boundLayout, func() {
			repo, err := registry.NewOCIRepository(root, registry.RepositoryOptions{})
			if err != nil {
				return
			}
			repo.Resolve(ctx, "v1")
			d, err := repo.Resolve(ctx, ad.Digest.String())
			if err != nil {
				d = ad
			}
			repo.ListSignatures(ctx, d, func(ms []ocispec.Descriptor) error {
				for _, m := range ms {
					repo.FetchSignatureBlob(ctx, m)
				}
				return nil
			})
			repo.FetchSignatureBlob(ctx, md)
			notation.Verify(ctx, v, repo, notation.VerifyOptions{ArtifactReference: TestScope + "@" + ad.Digest.String(), MaxSignatureAttempts: 2})
		})
		os.RemoveAll(root)
	}
}

// (iv) plugin answers handed to the plugin signer (in process: the decoded
// form of what a plugin prints)
type scriptedSignPlugin struct {
	meta    *pluginfw.GetMetadataResponse
	key     *pluginfw.DescribeKeyResponse
	sigResp *pluginfw.GenerateSignatureResponse
	envResp *pluginfw.GenerateEnvelopeResponse
	err     error
}

func (p *scriptedSignPlugin) GetMetadata(ctx context.Context, req *pluginfw.GetMetadataRequest) (*pluginfw.GetMetadataResponse, error) {
	return p.meta, nil
}
func (p *scriptedSignPlugin) DescribeKey(ctx context.Context, req *pluginfw.DescribeKeyRequest) (*pluginfw.DescribeKeyResponse, error) {
	return p.key, p.err
}
func (p *scriptedSignPlugin) GenerateSignature(ctx context.Context, req *pluginfw.GenerateSignatureRequest) (*pluginfw.GenerateSignatureResponse, error) {
	return p.sigResp, p.err
}
func (p *scriptedSignPlugin) GenerateEnvelope(ctx context.Context, req *pluginfw.GenerateEnvelopeRequest) (*pluginfw.GenerateEnvelopeResponse, error) {
	return p.envResp, p.err
}

func exploreSignerPlugin(x *xrun, r *Rng, e *env, ctx context.Context, n int) {
	chainDER := [][]byte{}
	for _, c := range e.good.Certs() {
		chainDER = append(chainDER, c.Raw)
	}
	for k := 0; k < n; k++ {
		format := Pick(r, []string{MtJWS, MtCOSE})
		s := okSc()
		s.Format = format
		s.Payload = Pick(r, []int{0, 1, 2, 12, 13})
		envb := e.envelope(s)
		if r.Chance(2, 3) {
			if format == MtJWS {
				envb = mutateJWS(r, envb)
			} else {
				envb = mutateCOSE(r, envb)
			}
		}
		p := &scriptedSignPlugin{
			meta: &pluginfw.GetMetadataResponse{Name: "plug", Description: "d", Version: "1.0.0", URL: "u", SupportedContractVersions: []string{"1.0"}},
			key:  &pluginfw.DescribeKeyResponse{KeyID: "kid", KeySpec: pluginfw.KeySpecEC256},
		}
		entry := "signer.PluginSigner.Sign (envelope generator)"
		var in []byte
		if r.Bool() {
			p.meta.Capabilities = []pluginfw.Capability{pluginfw.CapabilityEnvelopeGenerator}
			p.envResp = &pluginfw.GenerateEnvelopeResponse{SignatureEnvelope: envb, SignatureEnvelopeType: format, Annotations: map[string]string{"a": "b"}}
			if r.Chance(1, 10) {
				p.envResp.SignatureEnvelopeType = Pick(r, []string{"", MtJWS, MtCOSE, "x"})
			}
			in = envb
		} else {
			entry = "signer.PluginSigner.Sign (signature generator)"
			p.meta.Capabilities = []pluginfw.Capability{pluginfw.CapabilitySignatureGenerator}
			chain := append([][]byte(nil), chainDER...)
			switch r.Intn(6) {
			case 0:
				chain = nil
			case 1:
				chain[r.Intn(len(chain))] = mutateBytes(r, chain[0])
			case 2:
				chain = chain[:1]
			case 3:
				chain = append(chain, nil)
			}
			p.key.KeySpec = Pick(r, []pluginfw.KeySpec{pluginfw.KeySpecEC256, pluginfw.KeySpecRSA2048, pluginfw.KeySpecEC521, "", "bogus"})
			if r.Chance(1, 10) {
				p.key.KeyID = "other"
			}
			p.sigResp = &pluginfw.GenerateSignatureResponse{KeyID: "kid", Signature: randBytes(r, Pick(r, []int{0, 1, 64, 70, 256})), SigningAlgorithm: Pick(r, []pluginfw.SignatureAlgorithm{pluginfw.SignatureAlgorithmECDSA_SHA256, pluginfw.SignatureAlgorithmRSASSA_PSS_SHA256, "", "bogus"}), CertificateChain: chain}
			if r.Chance(1, 10) {
				p.sigResp.KeyID = ""
			}
			in, _ = json.Marshal(p.sigResp)
		}
		if r.Chance(1, 15) {
			p.err = errors.New("scripted plugin failure")
		}
		// an in-process plugin answering (nil, nil) (fix 0b937c8: an error, not a panic)
		switch r.Intn(24) {
		case 0:
			p.key = nil
		case 1:
			p.sigResp, p.envResp = nil, nil
		case 2:
			p.key, p.sigResp, p.envResp = nil, nil, nil
		case 3:
			p.meta = nil
		}
		x.call("plugin-answers", entry, format, in, boundSmall, func() {
			ps, err := signer.NewPluginSigner(p, "kid", map[string]string{"c": "d"})
			if err != nil {
				return
			}
			sig, info, err := ps.Sign(ctx, e.desc, notation.SignerSignOptions{SignatureMediaType: format, ExpiryDuration: time.Hour})
			if err == nil && (len(sig) == 0 || info == nil) {
				panic("inconsistent: Sign without error and without signature")
			}
			ps.SignBlob(ctx, e.descGen(okSc()), notation.SignerSignOptions{SignatureMediaType: format})
			ps.PluginAnnotations()
		})
	}
}

// (iv, continued) a plugin process: stdout, stderr and exit code are files
// next to a /bin/sh stub
func explorePluginProcess(x *xrun, r *Rng, e *env, ctx context.Context, tmp string, n int) {
	pdir := filepath.Join(tmp, "plugins", "plug")
	os.MkdirAll(pdir, 0o755)
	path := filepath.Join(pdir, "notation-plug")
	script := "#!/bin/sh\ncat >/dev/null\ncat \"$0.$1.out\"\ncat \"$0.$1.err\" >&2\nexit $(cat \"$0.$1.code\")\n"
	if err := os.WriteFile(path, []byte(script), 0o755); err != nil {
		panic(err)
	}
	meta := []byte(`{"name":"plug","description":"d","version":"1.0.0","url":"u","supportedContractVersions":["1.0"],"capabilities":["SIGNATURE_VERIFIER.TRUSTED_IDENTITY","SIGNATURE_VERIFIER.REVOCATION_CHECK"]}`)
	verifyResp := []byte(`{"verificationResults":{"SIGNATURE_VERIFIER.TRUSTED_IDENTITY":{"success":true},"SIGNATURE_VERIFIER.REVOCATION_CHECK":{"success":false,"reason":"r"}},"processedAttributes":["io.example.critical"]}`)
	errJSON := []byte(`{"errorCode":"VALIDATION_ERROR","errorMessage":"m","errorMetadata":{"a":"b"}}`)
	keyResp := []byte(`{"keyId":"kid","keySpec":"EC-256"}`)
	cp, err := plugin.NewCLIPlugin(ctx, "plug", path)
	if err != nil {
		panic(err)
	}
	for k := 0; k < n; k++ {
		cmd := Pick(r, []int{0, 1, 1, 1, 2, 3, 4})
		base := [][]byte{meta, verifyResp, keyResp, []byte(`{"keyId":"kid","signature":"AAAA","signingAlgorithm":"ECDSA-SHA-256","certificateChain":["AAAA"]}`), []byte(`{"signatureEnvelope":"AAAA","signatureEnvelopeType":"application/jose+json","annotations":{"a":"b"}}`)}[cmd]
		out, errb, code := base, []byte(nil), 0
		shapes := pluginShapeTexts()
		if cmd == 1 && r.Bool() {
			base = []byte(shapes[r.Intn(len(shapes))])
			out = base
		}
		switch r.Intn(6) {
		case 0:
		case 1:
			out = mutateJSON(r, base)
		case 2:
			out = mutateJSON(r, base)
			errb = randBytes(r, r.Intn(100))
		case 3:
			code = 1 + r.Intn(3)
			errb = mutateJSON(r, errJSON)
		case 4:
			code = 1
			errb = nil
		case 5:
			out = bytes.Repeat([]byte("A"), 1<<uint(10+r.Intn(10)))
		}
		cmdName := []string{"get-plugin-metadata", "verify-signature", "describe-key", "generate-signature", "generate-envelope"}[cmd]
		if cmd != 0 {
			os.WriteFile(path+".get-plugin-metadata.out", meta, 0o644)
			os.WriteFile(path+".get-plugin-metadata.err", nil, 0o644)
			os.WriteFile(path+".get-plugin-metadata.code", []byte("0"), 0o644)
		}
		os.WriteFile(path+"."+cmdName+".out", out, 0o644)
		os.WriteFile(path+"."+cmdName+".err", errb, 0o644)
		os.WriteFile(path+"."+cmdName+".code", []byte(fmt.Sprint(code)), 0o644)
		in := append(append(append([]byte(nil), out...), []byte("\n--stderr--\n")...), errb...)
		x.call("plugin-process", []string{"CLIPlugin.GetMetadata", "CLIPlugin.VerifySignature", "CLIPlugin.DescribeKey", "CLIPlugin.GenerateSignature", "CLIPlugin.GenerateEnvelope"}[cmd], fmt.Sprintf("exit=%d", code), in, boundSmall+(4<<20), func() {
			c2, cancel := context.WithTimeout(ctx, 10*time.Second)
			defer cancel()
			switch cmd {
			case 0:
				m, err := cp.GetMetadata(c2, &pluginfw.GetMetadataRequest{})
				if err == nil && m == nil {
					panic("inconsistent: no error and no metadata")
				}
			case 1:
				resp, err := cp.VerifySignature(c2, &pluginfw.VerifySignatureRequest{})
				if err == nil && resp == nil {
					panic("inconsistent: no error and no response")
				}
			case 2:
				cp.DescribeKey(c2, &pluginfw.DescribeKeyRequest{KeyID: "kid"})
			case 3:
				cp.GenerateSignature(c2, &pluginfw.GenerateSignatureRequest{KeyID: "kid"})
			case 4:
				cp.GenerateEnvelope(c2, &pluginfw.GenerateEnvelopeRequest{KeyID: "kid"})
			}
		})
		// the same answers consumed by the verifier (metadata, then verify-signature)
		if cmd == 1 || (cmd == 0 && k%2 == 0) {
			if cmd == 0 {
				os.WriteFile(path+".verify-signature.out", verifyResp, 0o644)
				os.WriteFile(path+".verify-signature.err", nil, 0o644)
				os.WriteFile(path+".verify-signature.code", []byte("0"), 0o644)
			}
			mgr := plugin.NewCLIManager(dir.NewSysFS(filepath.Join(tmp, "plugins")))
			s := okSc()
			s.PAttr, s.Crit = 2, true
			envb := e.envelope(s)
			store := NewMockStore()
			store.Put(truststore.TypeCA, "s", e.good[len(e.good)-1].C)
			x.call("plugin-process", "verifier.Verify with a CLI plugin", fmt.Sprintf("exit=%d", code), in, boundSmall+(4<<20), func() {
				v, err := verifier.NewVerifierWithOptions(store, verifier.VerifierOptions{OCITrustPolicy: OCIPolicy("strict", nil, []string{"ca:s"}, []string{"*"}, ""), PluginManager: mgr})
				if err != nil {
					return
				}
				c2, cancel := context.WithTimeout(ctx, 10*time.Second)
				defer cancel()
				o, err := v.Verify(c2, e.desc, envb, notation.VerifierVerifyOptions{ArtifactReference: e.ref, SignatureMediaType: MtJWS})
				checkPair(o, err, true)
				if o != nil && len(o.VerificationResults) >= 4 {
					x.pluginReached++ // the native validations passed: the plugin's answer was asked for and inspected
				}
			})
		}
	}
}
