package main

// Generators of the lattice cases (part 1).

import (
	"strings"
	. "vh/kit"
)

type levelSpec struct {
	Level string
	Ov    map[string]string
}

var namedLevels = []levelSpec{{"strict", nil}, {"permissive", nil}, {"audit", nil}, {"skip", nil}}
var customLevels = []levelSpec{
	{"strict", map[string]string{"revocation": "skip"}},
	{"strict", map[string]string{"authenticity": "log", "expiry": "log"}},
	{"permissive", map[string]string{"expiry": "enforce", "authenticTimestamp": "enforce"}},
	{"audit", map[string]string{"revocation": "enforce"}},
	{"permissive", map[string]string{"revocation": "skip", "authenticity": "log"}},
	{"strict", map[string]string{"authenticTimestamp": "log"}},
}

func doc(kind int, l levelSpec) docCfg { return docCfg{Kind: kind, Level: l.Level, Ov: l.Ov} }

func pmOK(caps ...string) pmCfg { return pmCfg{Kind: 2, Meta: 2, VerValid: true, Caps: caps} }

// normalize makes the concrete choices of a case consistent with each other
// (facts that cannot be realised together are adjusted, never the model).
func normalize(c *lcase) {
	fix := func(s *scCfg) {
		deriveResp(s)
		if s.Format == "" {
			s.Format = MtJWS
		}
		if s.NonStr || s.NonStrNonCrit {
			s.Format = MtCOSE // integer labels exist in COSE only
		}
		if !s.Crit {
			s.AllProc = true // nothing to process
		}
	}
	fix(&c.Sc)
	for _, d := range []*docCfg{&c.OCI, &c.Blob} {
		if d.Level == "" {
			d.Level = "strict"
		}
		if d.Level == "skip" {
			d.Ov = nil
			d.Global = false // a global skip statement is refused by Validate (C09)
		}
		if d.Kind != 1 {
			d.NoneKind = 0
		}
		if d.AltLevel == "skip" {
			d.AltOv = nil
		}
		if d.AltLevel == "" || d.Kind != 2 {
			d.UseAlt = false
		}
	}
	if c.Entry == "NVerify" {
		base := okSc()
		for _, it := range c.N.Items {
			if it.Sig >= 0 {
				base = it
				break
			}
		}
		fix(&base)
		for i := range c.N.Items {
			it := &c.N.Items[i]
			if it.Sig < 0 {
				*it = scCfg{Sig: -1}
				continue
			}
			fix(it)
			// what belongs to the verifier / request is shared by all signatures
			it.Auth, it.IdentFail, it.TsFail, it.Rev = base.Auth, base.IdentFail, base.TsFail, base.Rev
			it.RespJSON = base.RespJSON
			deriveResp(it)
			if it.RespJSON == "" {
				it.Resp, it.AllProc, it.TI, it.RevV = base.Resp, base.AllProc, base.TI, base.RevV
			}
			it.MetaReq = base.MetaReq
			it.Variant = (it.Variant & 5) | (base.Variant &^ 5)
			it.DescMatch, it.DescGen = true, false
			if !it.Crit {
				it.AllProc = true
			}
		}
		if c.Impl.Kind == 1 && c.N.Ref == 1 && c.OCI.Kind == 2 {
			c.OCI.Kind = 1 // a reference without '@' selects no statement
		}
		c.Sc = okSc()
	}
	if c.Entry != "NVerify" {
		c.N = okN()
	}
	if c.Entry != "NVerifyBlob" {
		c.B = breqCfg{}
	}
	if c.Entry != "NVerify" && c.Entry != "NVerifyBlob" {
		c.Impl = implCfg{Kind: 1}
	}
	if c.Impl.Kind != 2 {
		c.Impl = implCfg{Kind: c.Impl.Kind}
	} else if !c.Impl.HasOut {
		c.Impl.OutErr, c.Impl.Content = false, 0
	}
	if c.Entry != "UserMeta" {
		c.UM = 0
	}
	if c.PM.Kind != 2 {
		c.PM = pmCfg{Kind: c.PM.Kind}
	} else if c.PM.Meta != 2 {
		c.PM.VerValid, c.PM.Caps, c.PM.VerKind = false, nil, 0
	}
	if c.Entry == "NVerify" && c.OCI.NoneKind >= 2 && c.Impl.Kind != 1 {
		c.OCI.NoneKind = 0 // a custom verifier does not look at the reference; notation.Verify must be able to parse it
	}
}

var allEntries = []string{"Verify", "VerifyBlob", "SkipVerify", "NVerify", "NVerifyBlob"}

// deviations from the all-good scenario, one field each
var deviations = []func(s *scCfg){
	func(s *scCfg) { s.Sig = 0 },
	func(s *scCfg) { s.Sig = 1 },
	func(s *scCfg) { s.Format = MtCOSE },
	func(s *scCfg) { s.PAttr = 1; s.PInvKind = 0 },
	func(s *scCfg) { s.PAttr = 1; s.PInvKind = 1 },
	func(s *scCfg) { s.PAttr = 1; s.PInvKind = 2 },
	func(s *scCfg) { s.PAttr = 1; s.PInvKind = 3 },
	func(s *scCfg) { s.NonCritAttr = true },
	func(s *scCfg) { s.NonStrNonCrit = true },
	func(s *scCfg) { s.PAttr = 2; s.NonCritAttr = true },
	func(s *scCfg) { s.PAttr = 2; s.NonStrNonCrit = true },
	func(s *scCfg) { s.PAttr = 2; s.NonStrNonCrit = true; s.Crit = true; s.AttrOrder = 1 },
	func(s *scCfg) { s.PAttr = 2; s.NonCritAttr = true; s.Crit = true; s.AllProc = false },
	func(s *scCfg) { s.PAttr = 2 },
	func(s *scCfg) { s.PAttr = 2; s.Minver = 1 },
	func(s *scCfg) { s.PAttr = 2; s.Minver = 2 },
	func(s *scCfg) { s.PAttr = 2; s.Minver = 3 },
	func(s *scCfg) { s.Minver = 1 },
	func(s *scCfg) { s.NonStr = true },
	func(s *scCfg) { s.Crit = true },
	func(s *scCfg) { s.PAttr = 2; s.Crit = true },
	func(s *scCfg) { s.PAttr = 2; s.Crit = true; s.AllProc = false },
	func(s *scCfg) { s.Auth = 1 },
	func(s *scCfg) { s.Auth = 2 },
	func(s *scCfg) { s.IdentFail = true },
	func(s *scCfg) { s.ExpFail = true },
	func(s *scCfg) { s.TsFail = true },
	func(s *scCfg) { s.Rev = 1 },
	func(s *scCfg) { s.Rev = 2 },
	func(s *scCfg) { s.Rev = 3 },
	func(s *scCfg) { s.Rev = 4 },
	func(s *scCfg) { s.Rev = 5 },
	func(s *scCfg) { s.Rev = 6 },
	func(s *scCfg) { s.Rev = 7 },
	func(s *scCfg) { s.Rev = 8 },
	func(s *scCfg) { s.PAttr = 2; s.Resp = 0 },
	func(s *scCfg) { s.PAttr = 2; s.Resp = 1 },
	func(s *scCfg) { s.PAttr = 2; s.TI = 0 },
	func(s *scCfg) { s.PAttr = 2; s.TI = 2 },
	func(s *scCfg) { s.PAttr = 2; s.RevV = 0 },
	func(s *scCfg) { s.PAttr = 2; s.RevV = 2 },
	func(s *scCfg) { s.Payload = 0 },
	func(s *scCfg) { s.Payload = 2 },
	func(s *scCfg) { s.Payload = 2; s.MetaReq = true },
	func(s *scCfg) { s.Payload = 3; s.MetaReq = true },
	func(s *scCfg) { s.Payload = 1; s.MetaReq = true },
	func(s *scCfg) { s.DescMatch = false },
	func(s *scCfg) { s.DescMatch = false; s.MetaReq = true; s.Payload = 3 },
	func(s *scCfg) { s.DescGen = true },
}

var pmStates = []pmCfg{
	{Kind: 0}, {Kind: 1}, {Kind: 2, Meta: 0}, {Kind: 2, Meta: 1},
	{Kind: 2, Meta: 2, VerValid: false, Caps: []string{"TI"}},
	pmOK(), pmOK("Other"), pmOK("TI"), pmOK("Rev"), pmOK("TI", "Rev"), pmOK("Rev", "TI"), pmOK("Other", "TI", "Rev"),
}

func randSc(r *Rng) scCfg {
	s := okSc()
	if r.Bool() {
		s.Format = MtCOSE
	}
	// plugin side: half of the scenarios demand the plugin
	if r.Bool() {
		s.PAttr = 2
		s.Minver = Pick(r, []int{0, 0, 1, 1, 2, 3})
		s.Resp = Pick(r, []int{2, 2, 2, 2, 0, 1})
		s.TI = Pick(r, []int{1, 1, 1, 2, 2, 0})
		s.RevV = Pick(r, []int{1, 1, 1, 2, 2, 0})
		s.Crit = r.Chance(1, 3)
		s.AllProc = !r.Chance(1, 3)
	} else if r.Chance(1, 6) {
		s.PAttr = 1
		s.PInvKind = r.Intn(3)
	} else {
		s.Crit = r.Chance(1, 6)
		if r.Chance(1, 10) {
			s.Minver = 1
		}
	}
	s.NonStr = r.Chance(1, 12)
	s.NonCritAttr = r.Chance(1, 4)
	s.NonStrNonCrit = r.Chance(1, 6)
	s.AttrOrder = Pick(r, []int{0, 0, 1, 2})
	// 0..3 native deviations
	for k := r.Intn(4); k > 0; k-- {
		switch r.Intn(9) {
		case 0:
			s.Auth = 1 + r.Intn(2)
		case 1:
			s.IdentFail = true
		case 2:
			s.ExpFail = true
		case 3:
			s.TsFail = true
		case 4:
			s.Rev = 1 + r.Intn(2)
		case 5:
			s.Payload = Pick(r, []int{0, 2, 3})
		case 6:
			s.DescMatch = false
		case 7:
			s.MetaReq = true
			s.Payload = Pick(r, []int{1, 2, 2, 3})
		case 8:
			if r.Chance(1, 4) {
				s.Rev = 3 + r.Intn(6)
			} else if r.Chance(1, 3) {
				s.Sig = r.Intn(2)
			} else {
				s.DescGen = true
			}
		}
	}
	return s
}

func genLattice(a *Args, r *Rng, emit func(c *lcase), history func(base lcase, steps []func(c *lcase))) {
	thorough := a.Tier == "thorough"
	put := func(c lcase) {
		normalize(&c)
		emit(&c)
	}
	strict := levelSpec{"strict", nil}

	// ---- corpus (built in): the two fixed panics ----
	// 87f7f59: notation.Verify / SkipVerify on a verifier constructed with a blob policy only
	put(lcase{Fam: "corpus", Entry: "NVerify", Blob: doc(2, strict), PM: pmOK(), Impl: implCfg{Kind: 1}, Sc: okSc(), N: nreqCfg{Max: 1, Ref: 2, Items: []scCfg{okSc()}}})
	put(lcase{Fam: "corpus", Entry: "SkipVerify", Blob: doc(2, strict), PM: pmOK(), Sc: okSc()})
	// 00e9a29: notation.VerifyBlob under a blob statement with level skip
	put(lcase{Fam: "corpus", Entry: "NVerifyBlob", Blob: doc(2, levelSpec{"skip", nil}), PM: pmOK(), Impl: implCfg{Kind: 1}, Sc: okSc()})
	put(lcase{Fam: "corpus", Entry: "NVerifyBlob", OCI: doc(2, strict), Blob: doc(2, levelSpec{"skip", nil}), PM: pmCfg{Kind: 0}, Impl: implCfg{Kind: 1}, Sc: okSc()})

	// ---- lattice: construction x statement x manager x entry x signature ----
	sigs := []func(s *scCfg){
		func(s *scCfg) {},
		func(s *scCfg) { s.Sig = 1 },
		func(s *scCfg) { s.Sig = 0 },
		func(s *scCfg) { s.Auth = 2 },
		func(s *scCfg) { s.PAttr = 2 },
		func(s *scCfg) { s.Payload = 0 },
	}
	docStates := []docCfg{{Kind: 1, Level: "strict"}}
	for _, l := range namedLevels {
		docStates = append(docStates, doc(2, l))
	}
	docStates = append(docStates, doc(2, customLevels[0]), doc(2, customLevels[1]))
	pms := []pmCfg{{Kind: 0}, {Kind: 1}, pmOK("TI", "Rev")}
	for cons := 0; cons < 3; cons++ { // 0 OCI-only, 1 blob-only, 2 both
		for _, ds := range docStates {
			for pi, pm := range pms {
				for _, entry := range allEntries {
					for si, sg := range sigs {
						// the manager only matters when the signature demands a plugin
						if pi != 2 && si != 4 && !(thorough) {
							if !(pi == 0 && si == 0) {
								continue
							}
						}
						if entry == "SkipVerify" && si != 0 {
							continue
						}
						c := lcase{Fam: "lattice", Entry: entry, PM: pm, Impl: implCfg{Kind: 1}, Sc: okSc()}
						sg(&c.Sc)
						other := doc(2, strict)
						blobGlobal := (cons+si+pi)%2 == 0
						switch cons {
						case 0:
							c.OCI = ds
						case 1:
							c.Blob = ds
							c.Blob.Global = blobGlobal
						case 2:
							// the document of the entry point varies, the other one is fixed
							if entry == "VerifyBlob" || entry == "NVerifyBlob" {
								c.Blob, c.OCI = ds, other
								c.Blob.Global = blobGlobal
							} else {
								c.OCI, c.Blob = ds, other
							}
						}
						if entry == "NVerify" {
							c.N = nreqCfg{Max: 2, Ref: 2, Items: []scCfg{c.Sc}}
						}
						put(c)
					}
				}
			}
		}
	}

	// ---- single deviations x level x entry ----
	lv := append(append([]levelSpec{}, namedLevels[:3]...), customLevels...)
	for _, l := range lv {
		for di, dev := range deviations {
			for _, entry := range []string{"Verify", "VerifyBlob", "NVerify", "NVerifyBlob"} {
				if !thorough && (entry == "NVerify" || entry == "NVerifyBlob") && (di+len(l.Ov))%3 != 0 {
					continue
				}
				s := okSc()
				dev(&s)
				pm := pmOK("TI", "Rev")
				if di%5 == 1 {
					pm = pmOK("Rev")
				} else if di%5 == 3 {
					pm = pmOK("TI")
				}
				c := lcase{Fam: "single", Entry: entry, OCI: doc(2, l), Blob: doc(2, l), PM: pm, Impl: implCfg{Kind: 1}, Sc: s}
				c.Blob.Global = di%2 == 0
				if entry == "NVerify" {
					c.N = nreqCfg{Max: 3, Ref: 2, Items: []scCfg{s}}
				}
				put(c)
			}
		}
	}
	// every manager / metadata / capability state with a signature that demands the plugin
	for _, l := range lv {
		for _, pm := range pmStates {
			for k := 0; k < 2; k++ {
				s := okSc()
				s.PAttr = 2
				if k == 1 {
					s.Crit = true
					s.TI, s.RevV = 2, 2
				}
				put(lcase{Fam: "single", Entry: Pick(r, []string{"Verify", "VerifyBlob"}), OCI: doc(2, l), Blob: doc(2, l), PM: pm, Impl: implCfg{Kind: 1}, Sc: s})
			}
		}
	}

	// ---- nil-plugin: an in-process verification plugin answering (nil, nil) to get-plugin-metadata or to
	//      verify-signature (fix 686cc56: ordinary failures) x level x entry x capabilities x critical attribute ----
	for li, l := range lv {
		for _, entry := range []string{"Verify", "VerifyBlob", "NVerify", "NVerifyBlob"} {
			for ci, pm := range []pmCfg{{Kind: 2, Meta: 1}, pmOK("TI"), pmOK("Rev"), pmOK("TI", "Rev"), pmOK("Other", "Rev", "TI")} {
				for _, crit := range []bool{false, true} {
					if !thorough && (entry == "NVerify" || entry == "NVerifyBlob") && (li+ci)%2 == 1 {
						continue
					}
					s := okSc()
					s.PAttr, s.Crit = 2, crit
					if pm.Meta == 2 {
						s.Resp = 1 // (nil, nil)
					}
					c := lcase{Fam: "nil-plugin", Entry: entry, OCI: doc(2, l), Blob: doc(2, l), PM: pm, Impl: implCfg{Kind: 1}, Sc: s}
					c.Blob.Global = (li+ci)%2 == 0
					if entry == "NVerify" {
						good := okSc()
						c.N = nreqCfg{Max: 3, Ref: 2, Items: []scCfg{s, good}}
					}
					put(c)
				}
			}
		}
	}

	// ---- random scenarios ----
	nScen := 900
	if thorough {
		nScen = 40000
	}
	for k := 0; k < nScen; k++ {
		l := Pick(r, lv)
		if r.Chance(1, 25) {
			l = levelSpec{"skip", nil}
		}
		entry := Pick(r, []string{"Verify", "Verify", "VerifyBlob", "VerifyBlob", "NVerifyBlob", "NVerify"})
		s := randSc(r)
		c := lcase{Fam: "scen", Entry: entry, OCI: doc(2, l), Blob: doc(2, l), PM: Pick(r, pmStates), Impl: implCfg{Kind: 1}, Sc: s}
		c.Blob.Global = r.Bool()
		switch r.Intn(12) {
		case 0:
			c.OCI = docCfg{}
		case 1:
			c.Blob = docCfg{}
		case 2:
			c.OCI.Kind = 1
		case 3:
			c.Blob.Kind = 1
		}
		if entry == "NVerify" {
			c.N = nreqCfg{Max: 1 + r.Intn(3), Ref: 2, Items: []scCfg{s}}
		}
		put(c)
	}

	// ---- notation.Verify: the loop and its guards ----
	impls := []implCfg{
		{Kind: 0}, {Kind: 1}, {Kind: 1}, {Kind: 1},
		{Kind: 2, HasOut: false, ErrorSet: false}, // (nil, nil): contract violation
		{Kind: 2, HasOut: false, ErrorSet: true},
		{Kind: 2, HasOut: true, OutErr: true, ErrorSet: true, Content: 2},
		{Kind: 2, HasOut: true, OutErr: false, ErrorSet: true},
		{Kind: 2, HasOut: true, OutErr: false, ErrorSet: false, Content: 2},
		{Kind: 2, HasOut: true, OutErr: false, ErrorSet: false, Content: 0},
		{Kind: 2, HasOut: true, OutErr: false, ErrorSet: false, Content: 1},
		{Kind: 2, HasOut: true, OutErr: true, ErrorSet: false, Content: 2}, // inconsistent custom verifier
	}
	itemKinds := []func(s *scCfg){
		func(s *scCfg) {},
		func(s *scCfg) { s.Sig = 1 },
		func(s *scCfg) { s.Sig = -1 },
		func(s *scCfg) { s.ExpFail = true },
		func(s *scCfg) { s.Payload = 0 },
		func(s *scCfg) { s.Format = MtCOSE },
		func(s *scCfg) { s.PAttr = 1 },
		func(s *scCfg) { s.Sig = 0 },
	}
	nLoop := 500
	if thorough {
		nLoop = 15000
	}
	for k := 0; k < nLoop; k++ {
		impl := Pick(r, impls)
		l := Pick(r, lv)
		if r.Chance(1, 12) {
			l = levelSpec{"skip", nil}
		}
		c := lcase{Fam: "loop", Entry: "NVerify", OCI: doc(2, l), Blob: doc(2, strict), PM: pmOK("TI", "Rev"), Impl: impl}
		switch r.Intn(14) {
		case 0:
			c.OCI = docCfg{}
		case 1:
			c.OCI.Kind = 1
		case 2:
			c.Blob = docCfg{}
		}
		n := nreqCfg{Max: Pick(r, []int{1, 1, 2, 2, 3, 5, 0, -1}), Ref: 2}
		switch r.Intn(16) {
		case 0:
			n.RepoNil = true
		case 1:
			n.Ref = 0
		case 2:
			n.Ref = 1
		case 3:
			n.Resolve = true
		case 4:
			n.Mismatch = true
		case 5:
			n.ListErr = true
		}
		base := okSc()
		if r.Chance(1, 4) {
			base.Auth = 2
		}
		if r.Chance(1, 6) {
			base.Rev = 1
		}
		if r.Chance(1, 8) {
			base.MetaReq = true
		}
		for j := r.Intn(5); j > 0; j-- {
			it := base
			if !r.Chance(1, 3) {
				Pick(r, itemKinds)(&it)
			}
			if r.Chance(1, 6) {
				it.Payload = 2
			}
			n.Items = append(n.Items, it)
		}
		c.N = n
		put(c)
	}

	// ---- notation.VerifyBlob: guards x implementations ----
	for _, impl := range impls {
		for rb := 0; rb < 2; rb++ {
			for ct := 0; ct < 2; ct++ {
				for stt := 0; stt < 2; stt++ {
					for sg := 0; sg < 3; sg++ {
						if !thorough && rb+ct+stt > 1 && sg != 2 {
							continue
						}
						for _, l := range []levelSpec{strict, {"skip", nil}} {
							s := okSc()
							s.Sig = sg
							c := lcase{Fam: "blob", Entry: "NVerifyBlob", OCI: docCfg{}, Blob: doc(2, l), PM: pmOK(), Impl: impl, Sc: s,
								B: breqCfg{ReaderNil: rb == 1, CTypeBad: ct == 1, STypeBad: stt == 1}}
							if (rb+ct+sg)%3 == 0 {
								c.OCI = doc(2, strict)
							}
							put(c)
						}
					}
				}
			}
		}
	}
	// an OCI-only verifier handed to notation.VerifyBlob, a blob-only one to notation.Verify
	for _, l := range append(append([]levelSpec{}, namedLevels...), customLevels[0]) {
		put(lcase{Fam: "blob", Entry: "NVerifyBlob", OCI: doc(2, l), PM: pmOK(), Impl: implCfg{Kind: 1}, Sc: okSc()})
		put(lcase{Fam: "loop", Entry: "NVerify", Blob: doc(2, l), PM: pmOK(), Impl: implCfg{Kind: 1}, N: nreqCfg{Max: 1, Ref: 2, Items: []scCfg{okSc()}}})
	}

	// ---- order: the good signature at every position among failing ones, every attempt limit ----
	kinds := []func(s *scCfg){
		func(s *scCfg) {},
		func(s *scCfg) { s.Sig = 1 },
		func(s *scCfg) { s.Sig = -1 },
		func(s *scCfg) { s.ExpFail = true },
	}
	for a0 := 0; a0 < 4; a0++ {
		for a1 := 0; a1 < 4; a1++ {
			for a2 := 0; a2 < 4; a2++ {
				for _, max := range []int{1, 2, 3, 4} {
					if !thorough && (a0+a1+a2+max)%2 == 1 && a0 != 0 && a1 != 0 && a2 != 0 {
						continue
					}
					var items []scCfg
					for _, k := range []int{a0, a1, a2} {
						it := okSc()
						kinds[k](&it)
						items = append(items, it)
					}
					put(lcase{Fam: "order", Entry: "NVerify", OCI: doc(2, strict), Blob: doc(2, strict), PM: pmOK("TI", "Rev"), Impl: implCfg{Kind: 1}, N: nreqCfg{Max: max, Ref: 2, Items: items}})
				}
			}
		}
	}
	// every ordered arrangement of the capabilities the plugin declares x verdicts
	arrangements := [][]string{{}, {"TI"}, {"Rev"}, {"Other"}, {"TI", "Rev"}, {"Rev", "TI"}, {"TI", "Other"}, {"Other", "TI"}, {"Rev", "Other"}, {"Other", "Rev"},
		{"TI", "Rev", "Other"}, {"TI", "Other", "Rev"}, {"Rev", "TI", "Other"}, {"Rev", "Other", "TI"}, {"Other", "TI", "Rev"}, {"Other", "Rev", "TI"}, {"TI", "TI"}, {"Rev", "TI", "Rev"}}
	for _, caps := range arrangements {
		for _, l := range []levelSpec{strict, {"permissive", nil}, {"audit", nil}, customLevels[0]} {
			for ti := 0; ti < 3; ti++ {
				for rv := 0; rv < 3; rv++ {
					if !thorough && (ti+rv+len(caps))%2 == 1 && ti != 2 && rv != 2 {
						continue
					}
					s0 := okSc()
					s0.PAttr, s0.Crit, s0.TI, s0.RevV = 2, (ti+rv)%2 == 0, ti, rv
					put(lcase{Fam: "order", Entry: Pick(r, []string{"Verify", "VerifyBlob"}), OCI: doc(2, l), Blob: doc(2, l), PM: pmOK(caps...), Impl: implCfg{Kind: 1}, Sc: s0})
				}
			}
		}
	}

	// ---- plugin-json: verify-signature answers as JSON text of the wrong shape that still decodes ----
	texts := pluginShapeTexts()
	for ti2, text := range texts {
		for li, l := range []levelSpec{strict, {"permissive", nil}, customLevels[0]} {
			for _, crit := range []bool{true, false} {
				if !thorough && !crit && (ti2+li)%3 != 0 {
					continue
				}
				s0 := okSc()
				s0.PAttr, s0.Crit, s0.RespJSON = 2, crit, text
				if (ti2+li)%4 == 0 {
					s0.Format = MtCOSE
				}
				put(lcase{Fam: "plugin-json", Entry: []string{"Verify", "VerifyBlob", "NVerifyBlob"}[(ti2+li)%3], OCI: doc(2, l), Blob: doc(2, l), PM: pmOK("TI", "Rev"), Impl: implCfg{Kind: 1}, Sc: s0})
			}
		}
	}
	// through notation.Verify: two signatures, the first without critical attribute
	for ti2, text := range texts {
		if !thorough && ti2%3 != 0 {
			continue
		}
		i0, i1 := okSc(), okSc()
		i0.PAttr, i0.RespJSON, i0.ExpFail = 2, text, true
		i1.PAttr, i1.Crit = 2, true
		put(lcase{Fam: "plugin-json", Entry: "NVerify", OCI: doc(2, strict), Blob: doc(2, strict), PM: pmOK("Rev", "TI"), Impl: implCfg{Kind: 1}, N: nreqCfg{Max: 3, Ref: 2, Items: []scCfg{i0, i1}}})
	}

	// ---- empty vs nil vs absent ----
	for variant := 1; variant < 32; variant++ {
		for _, entry := range []string{"Verify", "VerifyBlob", "NVerifyBlob", "NVerify"} {
			if !thorough && (variant+len(entry))%2 == 0 && variant&(variant-1) != 0 {
				continue
			}
			s0 := okSc()
			s0.Variant = variant
			s0.PAttr, s0.Crit = 2, variant&8 != 0
			if variant&8 != 0 {
				s0.AllProc, s0.TI, s0.RevV = false, 0, 0
			}
			if variant&1 != 0 {
				s0.Sig = 0
			}
			c := lcase{Fam: "empty-nil", Entry: entry, OCI: doc(2, strict), Blob: doc(2, strict), PM: pmOK("TI", "Rev"), Impl: implCfg{Kind: 1}, Sc: s0}
			if entry == "NVerify" {
				c.N = nreqCfg{Max: 2, Ref: 2, Items: []scCfg{s0}}
			}
			put(c)
		}
	}

	// ---- attrs: optional / integer-labelled attributes at every position of the attribute list ----
	for order := 0; order < 3; order++ {
		for mask := 1; mask < 16; mask++ {
			for _, pa := range []int{0, 2} {
				for li, l := range []levelSpec{strict, {"audit", nil}, customLevels[0]} {
					if !thorough && (order+mask+pa+li)%2 == 1 {
						continue
					}
					s0 := okSc()
					s0.PAttr, s0.AttrOrder = pa, order
					s0.NonCritAttr, s0.NonStrNonCrit, s0.Crit, s0.NonStr = mask&1 != 0, mask&2 != 0, mask&4 != 0, mask&8 != 0
					s0.AllProc = (mask+li)%3 != 0
					if pa == 2 && mask&1 != 0 {
						s0.Minver = 1
					}
					put(lcase{Fam: "attrs", Entry: []string{"Verify", "VerifyBlob", "NVerifyBlob"}[(order+mask)%3], OCI: doc(2, l), Blob: doc(2, l), PM: pmOK("TI", "Rev"), Impl: implCfg{Kind: 1}, Sc: s0})
				}
			}
		}
	}
	// ---- keykind: an extra extended attribute of every key kind x criticality x plugin situation x position ----
	type plugSit struct {
		pa int
		pm pmCfg
		l  levelSpec
	}
	sits := []plugSit{
		{0, pmOK("TI", "Rev"), strict},                       // no plugin demanded
		{2, pmOK("TI"), strict},                              // executed: trusted identity
		{2, pmOK("Rev"), strict},                             // executed: revocation
		{2, pmOK("TI", "Rev"), levelSpec{"permissive", nil}}, // executed: both
		{2, pmOK("Rev"), customLevels[0]},                    // installed, not executed (revocation skipped)
		{2, pmCfg{Kind: 1}, strict},                          // not installed
		{2, pmCfg{Kind: 0}, strict},                          // nil manager
	}
	for _, format := range []string{MtCOSE, MtJWS} {
		for kk := -1; kk <= 3; kk++ { // -1: string key
			if format == MtJWS && kk >= 0 {
				continue // JSON member names are strings
			}
			for _, critical := range []bool{true, false} {
				for _, sit := range sits {
					for _, order := range []int{0, 1} {
						for _, entry := range []string{"Verify", "VerifyBlob"} {
							s0 := okSc()
							s0.Format, s0.PAttr, s0.AttrOrder = format, sit.pa, order
							switch {
							case kk < 0 && critical:
								s0.Crit = true
							case kk < 0:
								s0.NonCritAttr = true
							case critical:
								s0.NonStr, s0.IntKeyKind = true, kk
							default:
								s0.NonStrNonCrit, s0.IntKeyKind = true, kk
							}
							put(lcase{Fam: "keykind", Entry: entry, OCI: doc(2, sit.l), Blob: doc(2, sit.l), PM: sit.pm, Impl: implCfg{Kind: 1}, Sc: s0})
						}
					}
				}
			}
		}
	}

	// ---- syntax: rarely used spellings of "no applicable statement", plugin versions with build metadata ----
	for nk := 0; nk <= 5; nk++ {
		for _, entry := range allEntries {
			for _, l := range []levelSpec{strict, {"skip", nil}} {
				c := lcase{Fam: "syntax", Entry: entry, OCI: docCfg{Kind: 1, Level: l.Level, NoneKind: nk}, Blob: docCfg{Kind: 1, Level: l.Level, NoneKind: nk % 3, Global: nk%2 == 0}, PM: pmOK("TI"), Impl: implCfg{Kind: 1}, Sc: okSc()}
				if entry == "NVerify" {
					c.N = nreqCfg{Max: 1, Ref: 2, Items: []scCfg{okSc()}}
				}
				put(c)
			}
		}
	}
	for vk := 0; vk < 3; vk++ {
		for _, valid := range []bool{true, false} {
			for mv := 0; mv <= 3; mv++ {
				s0 := okSc()
				s0.PAttr, s0.Minver, s0.Crit = 2, mv, vk == 1
				put(lcase{Fam: "syntax", Entry: Pick(r, []string{"Verify", "VerifyBlob"}), OCI: doc(2, strict), Blob: doc(2, strict), PM: pmCfg{Kind: 2, Meta: 2, VerValid: valid, VerKind: vk, Caps: []string{"Rev", "TI"}}, Impl: implCfg{Kind: 1}, Sc: s0})
			}
		}
	}

	// ---- history: ONE verifier instance, several calls whose verdicts differ ----
	on := func(entry string, mod func(s *scCfg)) func(c *lcase) {
		return func(c *lcase) {
			c.Entry = entry
			mod(&c.Sc)
			if entry == "NVerify" {
				bad := c.Sc
				bad.Sig = 1
				c.N = nreqCfg{Max: 3, Ref: 2, Items: []scCfg{bad, c.Sc}}
			}
		}
	}
	good := func(s *scCfg) {}
	badSig := func(s *scCfg) { s.Sig = 1 }
	expired := func(s *scCfg) { s.ExpFail = true }
	mism := func(s *scCfg) { s.DescMatch = false }
	noPayload := func(s *scCfg) { s.Payload = 0 }
	wantPlugin := func(s *scCfg) { s.PAttr, s.Crit = 2, true }
	umOK := func(s *scCfg) { s.MetaReq, s.Payload = true, 2 }
	umBad := func(s *scCfg) { s.MetaReq, s.Payload = true, 3 }
	metaErr := func(c *lcase) { c.Entry = "Verify"; c.Sc.PAttr = 2; c.PM = pmCfg{Kind: 2, Meta: 0} }
	metaNil := func(c *lcase) { c.Entry = "Verify"; c.Sc.PAttr = 2; c.PM = pmCfg{Kind: 2, Meta: 1} }
	respNil := func(c *lcase) { c.Entry = "VerifyBlob"; c.Sc.PAttr = 2; c.Sc.Resp = 1; c.PM = pmOK("TI", "Rev") }
	metaOK := func(c *lcase) { c.Entry = "Verify"; c.Sc.PAttr = 2; c.Sc.Crit = true; c.PM = pmOK("TI", "Rev") }
	notInstalled := func(c *lcase) { c.Entry = "VerifyBlob"; c.Sc.PAttr = 2; c.PM = pmCfg{Kind: 1} }
	respErr := func(c *lcase) { c.Entry = "Verify"; c.Sc.PAttr = 2; c.Sc.Resp = 0; c.PM = pmOK("TI") }
	tiFail := func(c *lcase) { c.Entry = "VerifyBlob"; c.Sc.PAttr = 2; c.Sc.TI = 2; c.PM = pmOK("TI", "Rev") }
	untrusted := func(c *lcase) { c.Entry = "Verify"; c.Sc.Auth = 2 }
	storeErr := func(c *lcase) { c.Entry = "VerifyBlob"; c.Sc.Auth = 1 }
	revoked := func(c *lcase) { c.Entry = "Verify"; c.Sc.Rev = 1 }
	revErr := func(c *lcase) { c.Entry = "NVerifyBlob"; c.Sc.Rev = 2 }
	revNilNil := func(c *lcase) { c.Entry = "Verify"; c.Sc.Rev = 6 }
	revNilEntry := func(c *lcase) { c.Entry = "VerifyBlob"; c.Sc.Rev = 4 }
	revNilServer := func(c *lcase) { c.Entry = "Verify"; c.Sc.Rev = 8 }
	otherRepo := func(c *lcase) { c.Entry = "Verify"; c.OCI.Kind, c.OCI.NoneKind = 1, 1 }
	otherRepoSkip := func(c *lcase) { c.Entry = "SkipVerify"; c.OCI.Kind, c.OCI.NoneKind = 1, 4 }
	otherName := func(c *lcase) { c.Entry = "VerifyBlob"; c.Blob.Kind, c.Blob.NoneKind = 1, 1 }
	plain := func(entry string) func(c *lcase) {
		return func(c *lcase) {
			c.Entry = entry
			if entry == "NVerify" {
				c.N = nreqCfg{Max: 2, Ref: 2, Items: []scCfg{c.Sc}}
			}
		}
	}
	scripts := [][]func(c *lcase){
		{metaErr, metaOK, metaErr, plain("Verify"), metaOK},
		{notInstalled, metaOK, respErr, metaOK, tiFail, metaOK, metaNil, metaOK, respNil, metaOK},
		{plain("Verify"), untrusted, plain("Verify"), storeErr, plain("VerifyBlob"), revoked, plain("Verify"), revErr, plain("NVerifyBlob"), revNilNil, plain("Verify"), revNilEntry, plain("VerifyBlob"), revNilServer, plain("Verify")},
		{plain("SkipVerify"), otherRepoSkip, plain("SkipVerify"), otherRepo, plain("Verify"), otherName, plain("VerifyBlob"), plain("NVerify")},
		{otherRepo, plain("NVerify"), otherName, plain("NVerifyBlob"), otherRepoSkip, plain("SkipVerify")},
		{on("Verify", good), on("Verify", badSig), on("Verify", good), on("Verify", mism), on("Verify", good)},
		{on("Verify", badSig), on("Verify", good), on("VerifyBlob", good), on("VerifyBlob", expired), on("VerifyBlob", good)},
		{on("SkipVerify", good), on("Verify", good), on("NVerify", good), on("NVerifyBlob", good), on("Verify", noPayload), on("Verify", good)},
		{on("Verify", wantPlugin), on("Verify", good), on("Verify", wantPlugin), on("VerifyBlob", wantPlugin), on("NVerify", wantPlugin)},
		{on("Verify", umOK), on("Verify", umBad), on("Verify", good), on("NVerifyBlob", umBad), on("NVerifyBlob", umOK)},
		{on("NVerify", good), on("NVerify", expired), on("NVerify", good), on("SkipVerify", good)},
		{on("VerifyBlob", mism), on("VerifyBlob", good), on("NVerifyBlob", mism), on("NVerifyBlob", good)},
	}
	hLevels := []levelSpec{strict, {"permissive", nil}, {"audit", nil}, {"skip", nil}, customLevels[0], customLevels[1]}
	for si, script := range scripts {
		for li, l := range hLevels {
			if !thorough && (si+li)%2 == 1 && l.Level != "skip" {
				continue
			}
			b := okSc()
			switch (si + li) % 4 {
			case 1:
				b.TI = 2
			case 2:
				b.RevV = 2
			case 3:
				b.Rev = 1
			}
			history(lcase{Fam: "history", OCI: doc(2, l), Blob: doc(2, l), PM: pmOK("TI", "Rev"), Impl: implCfg{Kind: 1}, Sc: b}, script)
		}
	}
	// ---- same name, two namespaces: OCI statement "p" and blob statement "p" differ in skip vs non-skip
	//      level (and in whether the plugin's revocation capability runs); Verify and VerifyBlob alternate ----
	pairs := [][2]levelSpec{{strict, {"skip", nil}}, {{"skip", nil}, strict}, {customLevels[0], strict}, {strict, customLevels[0]},
		{{"audit", nil}, strict}, {{"permissive", nil}, {"skip", nil}}, {{"skip", nil}, customLevels[1]}}
	seqs := [][]string{{"Verify", "VerifyBlob"}, {"VerifyBlob", "Verify"}, {"Verify", "VerifyBlob", "Verify"}, {"VerifyBlob", "Verify", "VerifyBlob"},
		{"SkipVerify", "NVerifyBlob", "NVerify", "VerifyBlob", "SkipVerify", "Verify"}, {"NVerifyBlob", "Verify", "NVerify", "VerifyBlob"}}
	for pi, pr := range pairs {
		for qi, seq := range seqs {
			for k := 0; k < 3; k++ {
				if !thorough && (pi+qi+k)%2 == 1 && qi >= 4 {
					continue
				}
				b := okSc()
				switch k {
				case 1:
					b.PAttr, b.Crit, b.RevV = 2, true, 2 // the plugin reports the certificate revoked
				case 2:
					b.Auth = 2 // untrusted: rejected where authenticity is enforced, reported where it is logged
				}
				base := lcase{Fam: "same-name", OCI: doc(2, pr[0]), Blob: doc(2, pr[1]), PM: pmOK("TI", "Rev"), Impl: implCfg{Kind: 1}, Sc: b}
				base.Blob.SameName = true
				var steps []func(c *lcase)
				for _, en := range seq {
					steps = append(steps, plain(en))
				}
				history(base, steps)
			}
		}
	}
	// two OCI statements with different levels on one verifier, addressed alternately
	alt := func(entry string, use bool) func(c *lcase) {
		return func(c *lcase) { c.OCI.UseAlt = use; plain(entry)(c) }
	}
	for pi, pr := range pairs[:5] {
		for k := 0; k < 3; k++ {
			b := okSc()
			switch k {
			case 1:
				b.PAttr, b.Crit, b.RevV = 2, true, 2
			case 2:
				b.Auth = 2
			}
			base := lcase{Fam: "same-name", OCI: doc(2, pr[0]), Blob: doc(2, strict), PM: pmOK("TI", "Rev"), Impl: implCfg{Kind: 1}, Sc: b}
			base.OCI.AltLevel, base.OCI.AltOv = pr[1].Level, pr[1].Ov
			script := []func(c *lcase){alt("Verify", false), alt("Verify", true), alt("Verify", false)}
			if (pi+k)%2 == 0 {
				script = []func(c *lcase){alt("Verify", true), alt("SkipVerify", false), alt("SkipVerify", true), alt("NVerify", false), alt("NVerify", true), alt("Verify", false)}
			}
			history(base, script)
		}
	}

	// random histories
	nHist := 25
	if thorough {
		nHist = 1500
	}
	envMods := []func(s *scCfg){good, badSig, expired, mism, noPayload, wantPlugin, umOK, umBad,
		func(s *scCfg) { s.Auth = 2 }, func(s *scCfg) { s.Rev = 1 }, func(s *scCfg) { s.PAttr, s.TI = 2, 2 }, func(s *scCfg) { s.PAttr, s.Resp = 2, 0 },
		func(s *scCfg) { s.PAttr, s.NonStrNonCrit = 2, true }, func(s *scCfg) { s.PAttr, s.Crit, s.AllProc = 2, true, false },
		func(s *scCfg) { s.Format = MtCOSE }, func(s *scCfg) { s.Sig = 0 }, func(s *scCfg) { s.PAttr = 1 }, func(s *scCfg) { s.Crit = true }, func(s *scCfg) { s.DescGen = true }}
	for k := 0; k < nHist; k++ {
		b := okSc()
		b.Auth = Pick(r, []int{0, 0, 0, 2})
		b.IdentFail = r.Chance(1, 5)
		b.Rev = Pick(r, []int{0, 0, 1, 2})
		b.TI, b.RevV = Pick(r, []int{1, 1, 2, 0}), Pick(r, []int{1, 1, 2, 0})
		b.AllProc = !r.Chance(1, 4)
		l := Pick(r, hLevels)
		base := lcase{Fam: "history", OCI: doc(2, l), Blob: doc(2, l), PM: Pick(r, pmStates[4:]), Impl: implCfg{Kind: 1}, Sc: b}
		if r.Chance(1, 6) {
			base.PM = pmCfg{Kind: r.Intn(2)}
		}
		var steps []func(c *lcase)
		for j := 2 + r.Intn(3); j > 0; j-- {
			st := on(Pick(r, allEntries), Pick(r, envMods))
			if base.PM.Kind != 0 && r.Chance(1, 3) {
				pm := Pick(r, pmStates[1:])
				inner := st
				st = func(c *lcase) { inner(c); c.PM = pm }
			}
			if r.Chance(1, 6) {
				inner := st
				st = func(c *lcase) { inner(c); c.OCI.Kind, c.OCI.NoneKind, c.Blob.Kind, c.Blob.NoneKind = 1, 1, 1, 1 }
			}
			steps = append(steps, st)
		}
		history(base, steps)
	}

	// ---- a policy document edited after the verifier was constructed (outside wf: must agree with the model) ----
	for _, entry := range allEntries {
		for _, sg := range []int{2, 1} {
			for _, other := range []int{0, 2} {
				s0 := okSc()
				s0.Sig = sg
				c := lcase{Fam: "mutated-doc", Entry: entry, OCI: docCfg{Kind: 3, Level: "strict"}, Blob: docCfg{Kind: other, Level: "strict"}, PM: pmOK(), Impl: implCfg{Kind: 1}, Sc: s0}
				if entry == "VerifyBlob" || entry == "NVerifyBlob" {
					c.OCI, c.Blob = docCfg{Kind: other, Level: "strict"}, docCfg{Kind: 3, Level: "permissive", Global: sg == 2}
				}
				if entry == "NVerify" {
					c.N = nreqCfg{Max: 2, Ref: 2, Items: []scCfg{s0}}
				}
				put(c)
			}
		}
		// every error branch of GetVerificationLevel (the verifier ignores the error: the level must be nil)
		for bk := 1; bk <= 7; bk++ {
			c := lcase{Fam: "mutated-doc", Entry: entry, OCI: docCfg{Kind: 3, Level: "strict", BadKind: bk}, Blob: docCfg{Kind: 2, Level: "strict"}, PM: pmOK(), Impl: implCfg{Kind: 1}, Sc: okSc()}
			if entry == "VerifyBlob" || entry == "NVerifyBlob" {
				c.OCI, c.Blob = docCfg{Kind: 2, Level: "strict"}, docCfg{Kind: 3, Level: "permissive", Global: bk%2 == 0, BadKind: bk}
			}
			if entry == "NVerify" {
				c.N = nreqCfg{Max: 2, Ref: 2, Items: []scCfg{okSc()}}
			}
			put(c)
		}
	}

	// ---- constructor refusals ----
	for _, entry := range allEntries {
		put(lcase{Fam: "construct", Entry: entry, TSNil: true, OCI: doc(2, strict), Blob: doc(2, strict), PM: pmOK(), Impl: implCfg{Kind: 1}, Sc: okSc()})
		put(lcase{Fam: "construct", Entry: entry, PM: pmOK(), Impl: implCfg{Kind: 1}, Sc: okSc()})
		put(lcase{Fam: "construct", Entry: entry, TSNil: true, PM: pmCfg{Kind: 0}, Impl: implCfg{Kind: 1}, Sc: okSc()})
	}

	// ---- UserMetadata on hand-made outcomes ----
	for um := 0; um < 3; um++ {
		for _, p := range []int{1, 2} {
			s := okSc()
			s.Payload = p
			put(lcase{Fam: "usermeta", Entry: "UserMeta", UM: um, Sc: s, Impl: implCfg{Kind: 1}})
		}
	}
}

// pluginShapeTexts: stdout texts of a verify-signature command whose JSON has
// the wrong shape in the interface{}-typed / map-typed fields but (mostly)
// still decodes into plugin.VerifySignatureResponse.
func pluginShapeTexts() []string {
	const ti, rv = `"SIGNATURE_VERIFIER.TRUSTED_IDENTITY"`, `"SIGNATURE_VERIFIER.REVOCATION_CHECK"`
	okRes := `{` + ti + `:{"success":true},` + rv + `:{"success":true}}`
	ck := `"` + critKey + `"`
	processed := []string{
		`[` + ck + `]`, `[]`, `null`, `[null]`, `[null,` + ck + `]`, `[` + ck + `,null]`, `[1,2.5,-3e10,` + ck + `]`, `[[` + ck + `]]`, `[[],{}, ` + ck + `]`,
		`[{"` + critKey + `":true}]`, `[[` + ck + `],[1,[2,[3]]],{"a":{"b":[null]}}]`, `[{"a":[1,2]},[{"b":null}],` + ck + `,[{"c":{}}]]`,
		`[true,false,` + ck + `]`, `["IO.EXAMPLE.CRITICAL"]`, `["` + critKey + ` "]`, `[` + ck + `,` + ck + `]`, `["","` + hdrPlugin + `"]`, `[[1,2],[1,2]]`, `[{"k":[1]},{"k":[1]}]`,
		`[1e400]`, `"` + critKey + `"`, `{"0":` + ck + `}`, `[` + strings.Repeat(`[`, 40) + ck + strings.Repeat(`]`, 40) + `]`,
	}
	results := []string{
		okRes, `{}`, `null`, `{` + ti + `:null,` + rv + `:null}`, `{` + ti + `:{"success":true}}`, `{` + rv + `:{"success":false,"reason":"r"}}`,
		`{` + ti + `:{"success":false},` + rv + `:{"success":false}}`, `{"UNKNOWN.CAPABILITY":{"success":true},` + ti + `:{"success":true},` + rv + `:{"success":true}}`,
		`{"signature_verifier.trusted_identity":{"success":true},` + rv + `:{"success":true}}`, `{` + ti + `:{"success":false},` + ti + `:{"success":true},` + rv + `:{"success":true}}`,
		`{` + ti + `:{},` + rv + `:{"SUCCESS":true}}`, `{` + ti + `:{"success":true,"reason":null,"extra":[1,{"a":2}]},` + rv + `:{"success":true}}`,
		`{` + ti + `:{"success":"yes"},` + rv + `:{"success":true}}`, `{` + ti + `:[true],` + rv + `:{"success":true}}`, `[` + ti + `]`, `{"":null}`,
	}
	wrap := func(res, proc string) string {
		return `{"verificationResults":` + res + `,"processedAttributes":` + proc + `}`
	}
	var texts []string
	for _, p := range processed {
		texts = append(texts, wrap(okRes, p))
	}
	for _, q := range results {
		texts = append(texts, wrap(q, `[`+ck+`]`), wrap(q, `[{"x":[null]},`+ck+`]`))
	}
	texts = append(texts, `{}`, `null`, `[]`, `"x"`, `{"processedAttributes":[`+ck+`]}`, `{"verificationResults":`+okRes+`}`,
		`{"VerificationResults":`+okRes+`,"ProcessedAttributes":[`+ck+`]}`, wrap(okRes, `[`+ck+`]`)+` trailing`, `{"verificationResults":`+okRes+`,"processedAttributes":[`+ck+`],"processedAttributes":[[1]]}`,
		`{"verificationResults":`+okRes+`,"processedAttributes":[[1]],"processedAttributes":[`+ck+`]}`)
	return texts
}
