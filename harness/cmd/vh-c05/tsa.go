package main

// A minimal in-process RFC 3161 time-stamping authority: builds a CMS SignedData
// token over TSTInfo with encoding/asn1 and attaches it to a finished signature
// envelope as the unsigned timestamp countersignature. Whether the token is
// acceptable is always asked from tspclient-go (c05TokenOK), never assumed.

import (
	"crypto"
	"crypto/rand"
	"crypto/sha256"
	"crypto/x509"
	"crypto/x509/pkix"
	"encoding/asn1"
	"encoding/json"
	"fmt"
	"math/big"
	"time"

	. "vh/kit"

	"github.com/notaryproject/tspclient-go"
	cose "github.com/veraison/go-cose"
)

var (
	oidSignedData    = asn1.ObjectIdentifier{1, 2, 840, 113549, 1, 7, 2}
	oidTSTInfo       = asn1.ObjectIdentifier{1, 2, 840, 113549, 1, 9, 16, 1, 4}
	oidContentType   = asn1.ObjectIdentifier{1, 2, 840, 113549, 1, 9, 3}
	oidMsgDigest     = asn1.ObjectIdentifier{1, 2, 840, 113549, 1, 9, 4}
	oidSigningCertV2 = asn1.ObjectIdentifier{1, 2, 840, 113549, 1, 9, 16, 2, 47}
	oidSHA256        = asn1.ObjectIdentifier{2, 16, 840, 1, 101, 3, 4, 2, 1}
	oidECDSASHA256   = asn1.ObjectIdentifier{1, 2, 840, 10045, 4, 3, 2}
	oidPolicy        = asn1.ObjectIdentifier{1, 3, 6, 1, 4, 1, 99999, 1}
)

type tsaContentInfo struct {
	ContentType asn1.ObjectIdentifier
	Content     asn1.RawValue `asn1:"explicit,tag:0"`
}
type tsaEncapContentInfo struct {
	ContentType asn1.ObjectIdentifier
	Content     []byte `asn1:"explicit,optional,tag:0"`
}
type tsaIssuerAndSerial struct {
	Issuer       asn1.RawValue
	SerialNumber *big.Int
}
type tsaAttribute struct {
	Type   asn1.ObjectIdentifier
	Values asn1.RawValue `asn1:"set"`
}
type tsaSignerInfo struct {
	Version            int
	SID                tsaIssuerAndSerial
	DigestAlgorithm    pkix.AlgorithmIdentifier
	SignedAttributes   asn1.RawValue `asn1:"optional,tag:0"`
	SignatureAlgorithm pkix.AlgorithmIdentifier
	Signature          []byte
}
type tsaSignedData struct {
	Version          int
	DigestAlgorithms []pkix.AlgorithmIdentifier `asn1:"set"`
	EncapContentInfo tsaEncapContentInfo
	Certificates     asn1.RawValue   `asn1:"optional,tag:0"`
	SignerInfos      []tsaSignerInfo `asn1:"set"`
}
type tsaESSCertIDv2 struct{ CertHash []byte }
type tsaSigningCertificateV2 struct{ Certs []tsaESSCertIDv2 }

func must[T any](v T, err error) T {
	if err != nil {
		panic(err)
	}
	return v
}

func setOf(der []byte) asn1.RawValue {
	return asn1.RawValue{Class: asn1.ClassUniversal, Tag: asn1.TagSet, IsCompound: true, Bytes: der}
}

// makeToken issues a timestamp token over message at genTime.
func makeToken(message []byte, genTime time.Time, tsa *Cert, extra []*x509.Certificate) []byte {
	h := sha256.Sum256(message)
	info := tspclient.TSTInfo{Version: 1, Policy: oidPolicy,
		MessageImprint: tspclient.MessageImprint{HashAlgorithm: pkix.AlgorithmIdentifier{Algorithm: oidSHA256}, HashedMessage: h[:]},
		SerialNumber:   big.NewInt(42), GenTime: genTime.UTC().Truncate(time.Second), Accuracy: tspclient.Accuracy{Seconds: 1}}
	infoDER := must(asn1.Marshal(info))
	md := sha256.Sum256(infoDER)
	ch := sha256.Sum256(tsa.C.Raw)
	a1 := must(asn1.Marshal(tsaAttribute{Type: oidContentType, Values: setOf(must(asn1.Marshal(oidTSTInfo)))}))
	a2 := must(asn1.Marshal(tsaAttribute{Type: oidMsgDigest, Values: setOf(must(asn1.Marshal(md[:])))}))
	a3 := must(asn1.Marshal(tsaAttribute{Type: oidSigningCertV2, Values: setOf(must(asn1.Marshal(tsaSigningCertificateV2{Certs: []tsaESSCertIDv2{{CertHash: ch[:]}}})))}))
	attrs := append(append(append([]byte{}, a1...), a2...), a3...)
	toSign := must(asn1.Marshal(setOf(attrs)))
	d := sha256.Sum256(toSign)
	sig := must(tsa.Key.Sign(rand.Reader, d[:], crypto.SHA256))
	var certs []byte
	certs = append(certs, tsa.C.Raw...)
	for _, c := range extra {
		certs = append(certs, c.Raw...)
	}
	sd := tsaSignedData{Version: 3, DigestAlgorithms: []pkix.AlgorithmIdentifier{{Algorithm: oidSHA256}},
		EncapContentInfo: tsaEncapContentInfo{ContentType: oidTSTInfo, Content: infoDER},
		Certificates:     asn1.RawValue{Class: asn1.ClassContextSpecific, Tag: 0, IsCompound: true, Bytes: certs},
		SignerInfos: []tsaSignerInfo{{Version: 1, SID: tsaIssuerAndSerial{Issuer: asn1.RawValue{FullBytes: tsa.C.RawIssuer}, SerialNumber: tsa.C.SerialNumber},
			DigestAlgorithm:    pkix.AlgorithmIdentifier{Algorithm: oidSHA256},
			SignedAttributes:   asn1.RawValue{Class: asn1.ClassContextSpecific, Tag: 0, IsCompound: true, Bytes: attrs},
			SignatureAlgorithm: pkix.AlgorithmIdentifier{Algorithm: oidECDSASHA256}, Signature: sig}}}
	sdDER := must(asn1.Marshal(sd))
	return must(asn1.Marshal(tsaContentInfo{ContentType: oidSignedData, Content: asn1.RawValue{Class: asn1.ClassContextSpecific, Tag: 0, IsCompound: true, Bytes: sdDER}}))
}

// attachToken adds the token as the unsigned timestamp countersignature of env.
func attachToken(format string, env, token []byte) ([]byte, error) {
	const label = "io.cncf.notary.timestampSignature"
	switch format {
	case MtJWS:
		var m map[string]json.RawMessage
		if err := json.Unmarshal(env, &m); err != nil {
			return nil, err
		}
		hdr := map[string]json.RawMessage{}
		if raw, ok := m["header"]; ok {
			if err := json.Unmarshal(raw, &hdr); err != nil {
				return nil, err
			}
		}
		hdr[label] = must(json.Marshal(token))
		m["header"] = must(json.Marshal(hdr))
		return json.Marshal(m)
	case MtCOSE:
		var msg cose.Sign1Message
		if err := msg.UnmarshalCBOR(env); err != nil {
			return nil, err
		}
		if msg.Headers.Unprotected == nil {
			msg.Headers.Unprotected = cose.UnprotectedHeader{}
		}
		msg.Headers.Unprotected[label] = token
		msg.Headers.RawUnprotected = nil // otherwise go-cose re-emits the decoded raw header
		return msg.MarshalCBOR()
	}
	return nil, fmt.Errorf("unknown format %q", format)
}

// c05TokenOK asks tspclient-go whether token parses and is a timestamp of sig
// (the steps of verifyTimestamp before the tsa trust stores are loaded).
func c05TokenOK(token, sig []byte) bool {
	if len(token) == 0 {
		return false
	}
	st, err := tspclient.ParseSignedToken(token)
	if err != nil {
		return false
	}
	info, err := st.Info()
	if err != nil {
		return false
	}
	_, err = info.Validate(sig)
	return err == nil
}
