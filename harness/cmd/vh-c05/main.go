package main

// C05 driver: runs the real verifier.Verify with scripted revocation
// validators of both interfaces over result vectors, and prints
// (input, observation) cases for C05_Model.

import (
	"context"
	"crypto/x509"
	"crypto/x509/pkix"
	"errors"
	"fmt"
	"strings"
	"time"
	. "vh/kit"

	"github.com/notaryproject/notation-core-go/revocation"
	"github.com/notaryproject/notation-core-go/revocation/purpose"
	revresult "github.com/notaryproject/notation-core-go/revocation/result"
	"github.com/notaryproject/notation-core-go/signature"
	"github.com/notaryproject/notation-go"
	pluginfw "github.com/notaryproject/notation-plugin-framework-go/plugin"
	"github.com/notaryproject/notation-go/verifier"
	"github.com/notaryproject/notation-go/verifier/trustpolicy"
	"github.com/notaryproject/notation-go/verifier/truststore"
	"github.com/opencontainers/go-digest"
	ocispec "github.com/opencontainers/image-spec/specs-go/v1"
)

func main() { Main("c05", runC05) }

var c05ResNames = []string{"ROK", "RNonRevokable", "RUnknown", "RRevoked", "ROther"}

func c05Result(k int) revresult.Result {
	switch k {
	case 0:
		return revresult.ResultOK
	case 1:
		return revresult.ResultNonRevokable
	case 2:
		return revresult.ResultUnknown
	case 3:
		return revresult.ResultRevoked
	}
	return revresult.Result(7)
}

var c05TSARoot, c05TSALeaf *Cert

const c05PluginName = "c05plugin"

var c05Plug *MockPlugin

type c05Env struct {
	chain  Chain
	env    map[string][]byte // key: format|scheme
	stime  map[string]int64  // signing time of the signed attributes (unix seconds, 0 = zero time) as notation-core-go reads it back
	desc   ocispec.Descriptor
	store  *MockStore
	subjs  []string
	defRes []int // what the library-default validator reports for this chain
}

type c05Case struct {
	N       int      `json:"chain_len"`
	Format  string   `json:"format"`
	SA      bool     `json:"signing_authority"`
	Action  string   `json:"action"`
	Level   string   `json:"level"`
	Val     int      `json:"validators"`
	VErr    bool     `json:"validator_error"`
	VErrRes bool     `json:"validator_error_with_results"` // the validator returns its error TOGETHER with a complete result vector (Vec)
	Vec     []int    `json:"vector"`
	Method  int      `json:"method_annotation"`
	SrvErr  bool     `json:"server_errors"`
	Ann     []c05Ann `json:"annotations,omitempty"` // explicit per-certificate annotations (method, server results); nil: derived from Method / SrvErr
	NilRes  bool     `json:"nil_result_slice"`      // the validator returns (nil, nil): no results and no error
	NilAt   []int    `json:"nil_entries,omitempty"` // positions of the result slice that hold a nil pointer
	Stime   int64    `json:"signing_time_unix"`     // signing time in the signed attributes of the envelope (ground truth from notation-core-go)
	Step    int      `json:"history_step"`          // > 0: n-th verification on one and the same verifier instance (the verdict must not depend on earlier calls)
	hist    *c05Hist
	Blob    bool `json:"via_verify_blob"` // this step goes through VerifyBlob under the blob statement of the SAME verifier (named like the OCI one)
	Token   bool `json:"timestamp_token"` // the envelope carries a valid RFC 3161 countersignature (policy lists no tsa store)
	Anchor  int  `json:"trust_anchor"`    // which certificate of the chain the trust store holds: 0 root, 1 middle, 2 leaf
	// subjects of the chain: "" ordinary distinct CN=..; "e<k>" the certificate at position k (0 = leaf) has an EMPTY subject DN
	// (Subject.String() == ""); "d<i><j>" the certificates at positions i and j carry the SAME subject
	Shape string `json:"subject_shape,omitempty"`
	// verification plugin: the envelope names plugin "c05plugin" in its critical extended attributes and the
	// verifier's plugin manager has it installed with these capabilities (TI, Rev, Other); nil: no plugin named
	PCaps  []string `json:"plugin_capabilities,omitempty"`
	Plugin bool     `json:"names_verification_plugin"`
	PRevOK bool     `json:"plugin_revocation_success"` // Success of the plugin's revocation verdict (trusted identity: always success)
	// observation
	Calls    []string `json:"obs_calls"`
	Result   string   `json:"obs_result"`
	Rejected bool     `json:"obs_rejected"`
	Panic    string   `json:"obs_panic,omitempty"` // Verify did not return: recovered run-time panic
}

// c05Ann is the annotation part of one CertRevocationResult: its RevocationMethod and, per
// server result, the method and whether it carries an error.
type c05Ann struct {
	Method  int      `json:"method"`
	Servers [][2]int `json:"servers"` // (method, 1 = Error != nil); method -1 = a nil *ServerResult in the slice
}

// c05ShapedChain mints a chain (leaf first) whose subjects follow shape: "e<k>" = empty subject DN (an empty
// RDNSequence, legal X.509) at position k, "d<i><j>" = the same subject at positions i and j.
func c05ShapedChain(prefix string, n int, shape string, nb, na time.Time) Chain {
	chain := make(Chain, n)
	for i := n - 1; i >= 0; i-- {
		spec := CertSpec{Subject: Name(fmt.Sprintf("%s pos%d", prefix, i)), NotBefore: nb, NotAfter: na, IsCA: i > 0, Leaf: i == 0}
		switch shape[0] {
		case 'e':
			if int(shape[1]-'0') == i {
				spec.Subject = pkix.Name{}
				spec.RawSubject = []byte{0x30, 0x00}
			}
		case 'd':
			if int(shape[1]-'0') == i || int(shape[2]-'0') == i {
				spec.Subject = Name(prefix + " twin")
			}
		}
		var parent *Cert
		if i < n-1 {
			parent = chain[i+1]
		}
		chain[i] = Mint(spec, parent)
	}
	return chain
}

func c05SigningTime(format string, env []byte) int64 {
	content, err := CoreVerify(format, env)
	if err != nil || content.SignerInfo.SignedAttributes.SigningTime.IsZero() {
		return 0
	}
	return content.SignerInfo.SignedAttributes.SigningTime.Unix()
}

func c05OptZ(t int64) string {
	if t == 0 {
		return "None"
	}
	return CSome(CZ(t))
}

// c05Hist is one verifier instance used for a whole history of verifications, with a
// validator whose scripted answer is changed between the steps.
type c05Hist struct {
	bv         notation.BlobVerifier // the same object as v, when the history's verifier also carries a blob document
	blobAction string                // revocation action of the blob statement (differs from the OCI statement's)
	v          notation.Verifier
	script     *RevScript
	calls      *[]RevCall
}

func runC05(a *Args) error {
	rng := NewRng(a.Seed)
	prelude := "From NV Require Import Base C05_Model.\nOpen Scope string_scope.\n"
	w := NewCaseWriter(a, "C05", prelude, "xcase", "xrun")
	w.Rule = "every result vector over {OK,NonRevokable,Unknown,Revoked}^n (n=1..4 exhaustively; thorough adds n=5,6 exhaustively and random n<=12 with out-of-range result values) x action x validator interface x scheme x envelope format x presence of a timestamp countersignature in the unsigned attributes x position of the trust anchor in the chain (root / middle / leaf held by the listed store), plus validator errors (alone, and together with a complete result vector), answers outside the one-result-per-certificate contract without error (fewer results than certificates incl. (nil,nil) and an empty slice, more results, nil entries at every position: all must be inconclusive, none may pass or panic - a panic of Verify is recovered and recorded as an observation), per-certificate method annotations and server results with/without errors and nil server-result entries (printed into the input term; must neither panic nor change the verdict), the signing time of the signed attributes against the time value the validator receives, the library-default validator, chains with an empty subject DN at each position and with two certificates of the same subject (the verdict must not rest on the subject text), signatures naming a verification plugin x the capabilities the installed plugin advertises (none / trusted identity / revocation / both) x validator answers x action x interface (notation's own check iff the level does not skip revocation and the plugin does not own it; otherwise the validator is not consulted and the plugin's verdict decides), and histories of 2-4 verifications on one verifier instance while the validator's answer changes; run through the real verifier.Verify. non-trivial = revocation not skipped and (some certificate not OK, or a validator error); distinct = distinct (vector, action, validators, scheme, format, error) tuples"
	w.Assumptions = []string{
		"the verifier whose two validator fields are both nil (x_val = 4 in the model) cannot be built through the public API and is not exercised",
		"result classes are recognised from the error text of the revocation ValidationResult (\"is revoked\", \"revocation status is unknown\", \"unable to check revocation status\")",
	}
	now := time.Now()
	maxN := 4
	if a.Tier == "thorough" {
		maxN = 12
	}
	c05TSARoot = Mint(CertSpec{Subject: Name("c05 tsa root"), NotBefore: now.Add(-400 * time.Hour), NotAfter: now.Add(400 * time.Hour), IsCA: true}, nil)
	c05TSALeaf = Mint(CertSpec{Subject: Name("c05 tsa leaf"), NotBefore: now.Add(-400 * time.Hour), NotAfter: now.Add(400 * time.Hour), TSA: true}, c05TSARoot)
	envs := map[string]*c05Env{}
	getEnv := func(n int, shape string) *c05Env {
		ekey := fmt.Sprintf("%d|%s", n, shape)
		if e, ok := envs[ekey]; ok {
			return e
		}
		e := &c05Env{env: map[string][]byte{}, stime: map[string]int64{}}
		if shape == "" {
			e.chain = NewChain(fmt.Sprintf("c05n%d", n), n, now.Add(-48*time.Hour), now.Add(48*time.Hour))
		} else {
			e.chain = c05ShapedChain(fmt.Sprintf("c05n%d%s", n, shape), n, shape, now.Add(-48*time.Hour), now.Add(48*time.Hour))
		}
		e.desc = ocispec.Descriptor{MediaType: "application/vnd.oci.image.manifest.v1+json", Digest: digest.Digest(strings.TrimPrefix(TestRef, TestScope+"@")), Size: 528}
		for _, f := range []string{MtJWS, MtCOSE} {
			for _, sc := range []signature.SigningScheme{signature.SigningSchemeX509, signature.SigningSchemeX509SigningAuthority} {
				b, err := SignEnvelope(EnvSpec{Format: f, Chain: e.chain, Payload: PayloadFor(e.desc), Scheme: sc, SigningTime: now.Add(-time.Hour)})
				if err != nil {
					panic(err)
				}
				e.env[f+"|"+string(sc)] = b
				e.stime[f+"|"+string(sc)] = c05SigningTime(f, b)
				// the same envelope with a genuine timestamp countersignature over its signature value in the
				// unsigned attributes: it must not change what the revocation validator is asked
				if content, err := CoreVerify(f, b); err == nil {
					tok := makeToken(content.SignerInfo.Signature, now.Add(-30*time.Minute), c05TSALeaf, []*x509.Certificate{c05TSARoot.C})
					if b2, err := attachToken(f, b, tok); err == nil {
						if _, err := CoreVerify(f, b2); err == nil {
							e.env[f+"|"+string(sc)+"|tok"] = b2
							e.stime[f+"|"+string(sc)+"|tok"] = c05SigningTime(f, b2)
						}
					}
				}
			}
		}
		e.store = NewMockStore()
		root := e.chain[len(e.chain)-1].C
		e.store.Put(truststore.TypeCA, "s", root)
		e.store.Put(truststore.TypeSigningAuthority, "s", root)
		// stores holding another certificate of the chain: the trust anchor need not be the root,
		// and the revocation verdict must not depend on where it sits
		for k, idx := range []int{len(e.chain) - 1, len(e.chain) / 2, 0} {
			e.store.Put(truststore.TypeCA, fmt.Sprintf("a%d", k), e.chain[idx].C)
			e.store.Put(truststore.TypeSigningAuthority, fmt.Sprintf("a%d", k), e.chain[idx].C)
		}
		e.subjs = Subjects(e.chain.Certs())
		// oracle for the library default validator (no OCSP/CRL URLs in these certificates)
		dv, err := revocation.NewWithOptions(revocation.Options{CertChainPurpose: purpose.CodeSigning})
		if err != nil {
			panic(err)
		}
		res, err := dv.ValidateContext(context.Background(), revocation.ValidateContextOptions{CertChain: e.chain.Certs()})
		if err != nil {
			e.defRes = nil
		} else {
			for _, r := range res {
				k := 4
				for j := 0; j < 4; j++ {
					if c05Result(j) == r.Result {
						k = j
					}
				}
				e.defRes = append(e.defRes, k)
			}
		}
		envs[ekey] = e
		return e
	}

	var id int64
	runCase := func(c *c05Case) {
		my := id
		id++
		if !w.Want(my) {
			return
		}
		e := getEnv(c.N, c.Shape)
		// policy: base level + override for revocation so that the action is c.Action
		act := map[string]trustpolicy.ValidationAction{"Enforce": trustpolicy.ActionEnforce, "Log": trustpolicy.ActionLog, "Skip": trustpolicy.ActionSkip}[c.Action]
		var override map[trustpolicy.ValidationType]trustpolicy.ValidationAction
		natural := map[string]string{"strict": "Enforce", "permissive": "Log", "audit": "Log"}[c.Level]
		if natural != c.Action {
			override = map[trustpolicy.ValidationType]trustpolicy.ValidationAction{trustpolicy.TypeRevocation: act}
		}
		storeType := "ca"
		scheme := signature.SigningSchemeX509
		if c.SA {
			storeType = "signingAuthority"
			scheme = signature.SigningSchemeX509SigningAuthority
		}
		doc := OCIPolicy(c.Level, override, []string{fmt.Sprintf("%s:a%d", storeType, c.Anchor)}, []string{"*"}, "")
		var results []*revresult.CertRevocationResult
		var resTerms []string
		for i, k := range c.Vec {
			r := &revresult.CertRevocationResult{Result: c05Result(k), RevocationMethod: revresult.RevocationMethod(c.Method)}
			if c.Ann != nil {
				r.RevocationMethod = revresult.RevocationMethod(c.Ann[i].Method)
				for j, sv := range c.Ann[i].Servers {
					if sv[0] < 0 {
						r.ServerResults = append(r.ServerResults, nil)
						continue
					}
					sr := &revresult.ServerResult{Result: c05Result(k), Server: fmt.Sprintf("http://srv%d-%d.example", i, j), RevocationMethod: revresult.RevocationMethod(sv[0])}
					if sv[1] == 1 {
						sr.Result, sr.Error = revresult.ResultUnknown, errors.New("mock server error")
					}
					r.ServerResults = append(r.ServerResults, sr)
				}
			} else if c.SrvErr {
				r.ServerResults = []*revresult.ServerResult{
					{Result: revresult.ResultUnknown, Server: fmt.Sprintf("http://ocsp%d.example", i), Error: errors.New("mock server error"), RevocationMethod: revresult.RevocationMethodOCSP},
					{Result: c05Result(k), Server: fmt.Sprintf("http://crl%d.example", i), RevocationMethod: revresult.RevocationMethodCRL},
				}
			}
			results = append(results, r)
		}
		var verr error
		if c.VErr {
			verr = errors.New("mock validator failure")
			if !c.VErrRes {
				results = nil
			}
		}
		if c.NilRes {
			results = nil
		} else if results == nil && !c.VErr {
			results = []*revresult.CertRevocationResult{} // an empty, non-nil slice
		}
		for _, pos := range c.NilAt {
			if pos < len(results) {
				results[pos] = nil
			}
		}
		// the input term is printed from what the validator really hands back
		complete := len(results) == c.N
		for _, r := range results {
			if r == nil {
				resTerms = append(resTerms, "None")
				complete = false
				continue
			}
			k := 4
			for j := 0; j < 4; j++ {
				if c05Result(j) == r.Result {
					k = j
				}
			}
			var srv []string
			for _, sr := range r.ServerResults {
				if sr == nil {
					srv = append(srv, "None")
					continue
				}
				srv = append(srv, CSome(CPair(CN(int64(sr.RevocationMethod)), CBool(sr.Error != nil))))
			}
			resTerms = append(resTerms, CSome(CApp("mk_cr", c05ResNames[k], CN(int64(r.RevocationMethod)), CList(srv))))
		}
		var v notation.Verifier
		var calls *[]RevCall
		if c.hist != nil && c.hist.v != nil {
			// same verifier instance as the previous steps; only the validator's answer changes
			v, calls = c.hist.v, c.hist.calls
			c.hist.script.Results, c.hist.script.Err = results, verr
			*calls = nil
		} else {
			var script *RevScript
			script, calls = NewRevScript(results, verr)
			opts := verifier.VerifierOptions{OCITrustPolicy: doc}
			if c.Plugin {
				var caps []pluginfw.Capability
				vr := map[pluginfw.Capability]*pluginfw.VerificationResult{}
				for _, pc := range c.PCaps {
					switch pc {
					case "TI":
						caps = append(caps, pluginfw.CapabilityTrustedIdentityVerifier)
						vr[pluginfw.CapabilityTrustedIdentityVerifier] = &pluginfw.VerificationResult{Success: true}
					case "Rev":
						caps = append(caps, pluginfw.CapabilityRevocationCheckVerifier)
						vr[pluginfw.CapabilityRevocationCheckVerifier] = &pluginfw.VerificationResult{Success: c.PRevOK, Reason: "mock plugin verdict"}
					default:
						caps = append(caps, pluginfw.CapabilitySignatureGenerator)
					}
				}
				c05Plug = &MockPlugin{
					Meta: &pluginfw.GetMetadataResponse{Name: c05PluginName, Version: "1.2.0", Capabilities: caps, Description: "d", URL: "u", SupportedContractVersions: []string{"1.0"}},
					Resp: &pluginfw.VerifySignatureResponse{VerificationResults: vr},
				}
				opts.PluginManager = &MockManager{Plugins: map[string]*MockPlugin{c05PluginName: c05Plug}}
			}
			if c.hist != nil && c.hist.blobAction != "" {
				// a blob statement with the SAME NAME as the OCI statement ("p") but another revocation action
				bact := map[string]trustpolicy.ValidationAction{"Enforce": trustpolicy.ActionEnforce, "Log": trustpolicy.ActionLog, "Skip": trustpolicy.ActionSkip}[c.hist.blobAction]
				opts.BlobTrustPolicy = &trustpolicy.BlobDocument{Version: "1.0", TrustPolicies: []trustpolicy.BlobTrustPolicy{{
					Name: "p",
					SignatureVerification: trustpolicy.SignatureVerification{VerificationLevel: "strict",
						Override: map[trustpolicy.ValidationType]trustpolicy.ValidationAction{trustpolicy.TypeRevocation: bact}},
					TrustStores:       []string{fmt.Sprintf("%s:a%d", storeType, c.Anchor)},
					TrustedIdentities: []string{"*"},
				}}}
			}
			switch c.Val {
			case 1:
				opts.RevocationCodeSigningValidator = script.Validator()
			case 2:
				opts.RevocationClient = script.Client()
			case 3:
				opts.RevocationCodeSigningValidator = script.Validator()
				opts.RevocationClient = script.Client()
			}
			nv, err := verifier.NewVerifierWithOptions(e.store, opts)
			if err != nil {
				panic(fmt.Sprintf("c05: verifier construction: %v", err))
			}
			v = nv
			if c.hist != nil {
				c.hist.v, c.hist.script, c.hist.calls = nv, script, calls
				if bv, ok := notation.Verifier(nv).(notation.BlobVerifier); ok && c.hist.blobAction != "" {
					c.hist.bv = bv
				}
			}
		}
		envBytes := e.env[c.Format+"|"+string(scheme)]
		if c.Plugin {
			key := c.Format + "|" + string(scheme) + "|plug"
			if _, ok := e.env[key]; !ok {
				b, err := SignEnvelope(EnvSpec{Format: c.Format, Chain: e.chain, Payload: PayloadFor(e.desc), Scheme: scheme, SigningTime: now.Add(-time.Hour),
					ExtAttrs: []signature.Attribute{
						{Key: "io.cncf.notary.verificationPlugin", Critical: true, Value: c05PluginName},
						{Key: "io.cncf.notary.verificationPluginMinVersion", Critical: true, Value: "1.0.0"}}})
				if err != nil {
					panic(err)
				}
				e.env[key] = b
				e.stime[key] = c05SigningTime(c.Format, b)
			}
			envBytes = e.env[key]
			c.Token = false
		}
		if c.Token {
			if b, ok := e.env[c.Format+"|"+string(scheme)+"|tok"]; ok {
				envBytes = b
			} else {
				c.Token = false
			}
		}
		c.Stime = e.stime[c.Format+"|"+string(scheme)]
		if c.Plugin {
			c.Stime = e.stime[c.Format+"|"+string(scheme)+"|plug"]
		}
		if c.Token {
			c.Stime = e.stime[c.Format+"|"+string(scheme)+"|tok"]
		}
		var outcome *notation.VerificationOutcome
		var verr2 error
		func() {
			// a result vector longer than the chain makes revocationFinalResult index the chain out of range
			defer func() {
				if r := recover(); r != nil {
					c.Panic = fmt.Sprint(r)
					outcome, verr2 = nil, nil
				}
			}()
			if c.Blob && c.hist != nil && c.hist.bv != nil {
				// the envelope is presented as a blob signature: the descriptor generator answers with the signed descriptor
				gen := func(digest.Algorithm) (ocispec.Descriptor, error) { return e.desc, nil }
				outcome, verr2 = c.hist.bv.VerifyBlob(context.Background(), gen, envBytes, notation.BlobVerifierVerifyOptions{SignatureMediaType: c.Format, TrustPolicyName: "p"})
			} else {
				c.Blob = false
				outcome, verr2 = v.Verify(context.Background(), e.desc, envBytes, notation.VerifierVerifyOptions{ArtifactReference: TestRef, SignatureMediaType: c.Format})
			}
		}()
		// observation
		var callTerms []string
		for _, k := range *calls {
			var t int64
			if k.TimeSet {
				t = k.Time.Unix()
			}
			callTerms = append(callTerms, CApp("mk_xcall", CN(int64(k.Which)), CStrList(Subjects(k.Chain)), c05OptZ(t)))
			c.Calls = append(c.Calls, fmt.Sprintf("%d:%d certs:time=%d", k.Which, len(k.Chain), t))
		}
		resTerm := "None"
		c.Result = "absent"
		if outcome == nil {
			// panic, or an error before any outcome exists
		} else if r, n := FindResult(outcome, trustpolicy.TypeRevocation); r != nil {
			if n > 1 {
				c.Result = "duplicated"
				resTerm = "(Some (Unknown \"<duplicated revocation result>\"))"
			} else if r.Error == nil {
				c.Result, resTerm = "Pass", "(Some Pass)"
			} else {
				msg := r.Error.Error()
				subj, _ := FirstQuoted(msg)
				switch {
				case strings.Contains(msg, "is revoked"):
					c.Result, resTerm = "Revoked:"+subj, CSome(CApp("Revoked", CStr(subj)))
				case strings.Contains(msg, "revocation status is unknown"):
					c.Result, resTerm = "Unknown:"+subj, CSome(CApp("Unknown", CStr(subj)))
				case strings.Contains(msg, "revocation check by verification plugin"):
					c.Result, resTerm = "PluginRejected", "(Some PluginRejected)"
				default:
					c.Result, resTerm = "Inconclusive", "(Some Inconclusive)"
				}
			}
		}
		c.Rejected = verr2 != nil
		// input
		plugTerm := "None"
		if c.Plugin {
			var caps []string
			for _, pc := range c.PCaps {
				caps = append(caps, map[string]string{"TI": "PcapTI", "Rev": "PcapRev"}[pc])
				if caps[len(caps)-1] == "" {
					caps[len(caps)-1] = "PcapOther"
				}
			}
			plugTerm = CSome(CApp("mk_xplugin", CList(caps), CBool(c.PRevOK)))
		}
		in := CApp("mk_xinput_p", c.Action, CBool(c.SA), CN(int64(c.Val)), c05OptZ(c.Stime), CStrList(e.subjs), CBool(c.VErr), CList(resTerms), plugTerm)
		obs := CApp("mk_xobs", CList(callTerms), resTerm, CBool(c.Rejected), CBool(c.Panic != ""))
		term := CApp("mk_xcase", CN(my), in, obs)
		nontriv := c.Action != "Skip" && (c.VErr || hasNonOK(c.Vec) || !complete)
		key := fmt.Sprintf("%v|%v|%v|%v|%v|%v|%v|%v|%v|%v|%v|%v", c.Vec, c.Action, c.Val, c.SA, c.Format, c.VErr, c.Level, c.Anchor, c.Step, c.Token, c.VErrRes, c.Blob) + fmt.Sprint(c.Ann, c.NilRes, c.Method, c.SrvErr, c.NilAt, c.Plugin, c.PCaps, c.PRevOK, c.Shape)
		w.Add(my, term, c, key, nontriv)
		w.Count("chain_len", fmt.Sprint(c.N))
		w.Count("trust_anchor", []string{"root", "middle", "leaf"}[c.Anchor])
		w.Count("timestamp_token", fmt.Sprint(c.Token))
		w.Count("via_verify_blob", fmt.Sprint(c.Blob))
		w.Count("action", c.Action)
		w.Count("validators", fmt.Sprint(c.Val))
		w.Count("obs_result", strings.SplitN(c.Result, ":", 2)[0])
		w.Count("rejected", fmt.Sprint(c.Rejected))
		w.Count("panicked", fmt.Sprint(c.Panic != ""))
		w.Count("nil_entries", fmt.Sprint(len(c.NilAt) > 0))
		w.Count("subject_shape", map[bool]string{true: "distinct", false: c.Shape}[c.Shape == ""])
		if c.Plugin {
			w.Count("plugin_capabilities", fmt.Sprint(c.PCaps))
		} else {
			w.Count("plugin_capabilities", "no plugin named")
		}
		w.Count("results_vs_chain", map[bool]string{true: "error", false: map[int]string{-1: "fewer", 0: "equal", 1: "more"}[sign(len(results)-c.N)]}[c.VErr])
	}

	formats := []string{MtJWS, MtCOSE}
	actions := []string{"Enforce", "Log", "Skip"}
	levels := []string{"strict", "permissive", "audit"}
	vectors := func(n, base int, f func(v []int)) {
		v := make([]int, n)
		var rec func(i int)
		rec = func(i int) {
			if i == n {
				f(append([]int(nil), v...))
				return
			}
			for k := 0; k < base; k++ {
				v[i] = k
				rec(i + 1)
			}
		}
		rec(0)
	}
	// 1. exhaustive vectors
	exhN := 4
	if a.Tier == "thorough" {
		exhN = 6
	}
	for n := 1; n <= exhN; n++ {
		vectors(n, 4, func(v []int) {
			for _, act := range actions {
				if a.Tier == "thorough" && n <= 4 {
					for val := 1; val <= 3; val++ {
						for _, sa := range []bool{false, true} {
							runCase(&c05Case{N: n, Format: Pick(rng, formats), SA: sa, Action: act, Level: Pick(rng, levels), Val: val, Vec: v, Method: rng.Intn(4), SrvErr: rng.Chance(1, 3), Anchor: rng.Intn(3)})
						}
					}
				} else {
					runCase(&c05Case{N: n, Format: Pick(rng, formats), SA: rng.Bool(), Action: act, Level: Pick(rng, levels), Val: 1 + rng.Intn(3), Vec: v, Method: rng.Intn(4), SrvErr: rng.Chance(1, 3), Anchor: rng.Intn(3)})
				}
			}
		})
	}
	w.Exhaustive = false // exhaustive over vectors for n<=exhN, sampled over the other dimensions
	w.Set("exhaustive_part", fmt.Sprintf("all 4^n result vectors for n=1..%d x 3 actions", exhN))
	// 2. validator errors, every configuration
	for n := 1; n <= 4; n++ {
		for _, act := range actions {
			for val := 1; val <= 3; val++ {
				for _, sa := range []bool{false, true} {
					runCase(&c05Case{N: n, Format: Pick(rng, formats), SA: sa, Action: act, Level: Pick(rng, levels), Val: val, VErr: true})
				}
			}
		}
	}
	// 2b. a validator error returned TOGETHER with a complete result vector (all passing, or with one deviation):
	// the error decides (inconclusive), whatever the vector says
	for n := 1; n <= 4; n++ {
		for _, act := range []string{"Enforce", "Log"} {
			for val := 1; val <= 3; val++ {
				for _, dev := range []int{-1, 0, n - 1} {
					v := make([]int, n)
					for i := range v {
						v[i] = rng.Intn(2)
					}
					if dev >= 0 {
						v[dev] = 2 + rng.Intn(2)
					}
					runCase(&c05Case{N: n, Format: Pick(rng, formats), SA: rng.Bool(), Action: act, Level: Pick(rng, levels), Val: val, VErr: true, VErrRes: true, Vec: v, Anchor: rng.Intn(3)})
				}
			}
		}
	}
	// 3. out-of-range result values and random longer chains
	extra := 150
	if a.Tier == "thorough" {
		extra = 6000
	}
	for k := 0; k < extra; k++ {
		n := 1 + rng.Intn(maxN)
		v := make([]int, n)
		for i := range v {
			// mostly OK, so that single deviations at every position are common
			if rng.Chance(2, 3) {
				v[i] = rng.Intn(2)
			} else {
				v[i] = 2 + rng.Intn(3)
			}
		}
		runCase(&c05Case{N: n, Format: Pick(rng, formats), SA: rng.Bool(), Action: Pick(rng, actions), Level: Pick(rng, levels), Val: 1 + rng.Intn(3), Vec: v, Method: rng.Intn(4), SrvErr: rng.Bool(), Anchor: rng.Intn(3)})
	}
	// 4. library default validator (no validator supplied): answer taken from the oracle
	for n := 1; n <= 4; n++ {
		e := getEnv(n, "")
		if e.defRes == nil {
			continue
		}
		for _, act := range actions {
			for _, sa := range []bool{false, true} {
				runCase(&c05Case{N: n, Format: Pick(rng, formats), SA: sa, Action: act, Level: Pick(rng, levels), Val: 0, Vec: e.defRes})
			}
		}
	}
	// 5. trust anchor below the root: every vector for n=2,3 (4 sampled in quick, all in thorough) with the store
	// holding the middle certificate or the leaf — results reported above the anchor count like any other
	for n := 2; n <= 4; n++ {
		vectors(n, 4, func(v []int) {
			if n == 4 && a.Tier != "thorough" && !rng.Chance(1, 4) {
				return
			}
			for anchor := 1; anchor <= 2; anchor++ {
				runCase(&c05Case{N: n, Format: Pick(rng, formats), SA: rng.Bool(), Action: Pick(rng, []string{"Enforce", "Log"}), Level: Pick(rng, levels), Val: 1 + rng.Intn(3), Vec: v, Method: rng.Intn(4), Anchor: anchor})
			}
		})
	}
	// 6. histories: several verifications of the same chain on ONE verifier instance while the validator's
	// answer changes (passing first, then revoked / unknown / error, and back): every verification must consult
	// the validator again and be judged on that answer alone (the model is a function of the step's input only)
	nh := 40
	if a.Tier == "thorough" {
		nh = 600
	}
	for k := 0; k < nh; k++ {
		n := 1 + rng.Intn(4)
		h := &c05Hist{}
		base := c05Case{N: n, Format: Pick(rng, formats), SA: rng.Bool(), Action: Pick(rng, []string{"Enforce", "Enforce", "Log"}), Level: Pick(rng, levels), Val: 1 + rng.Intn(3), Anchor: rng.Intn(3)}
		steps := 2 + rng.Intn(3)
		if k%2 == 0 {
			// the verifier also holds a blob document whose statement has the same name and ANOTHER revocation action
			h.blobAction = map[string]string{"Enforce": "Skip", "Log": "Enforce"}[base.Action]
		}
		for st := 1; st <= steps; st++ {
			c := base
			c.hist, c.Step = h, st
			if h.blobAction != "" && st%2 == 0 {
				c.Blob, c.Action = true, h.blobAction
			}
			c.Vec = make([]int, n)
			switch {
			case st == 1 || rng.Chance(1, 4):
				for i := range c.Vec { // passing answer
					c.Vec[i] = rng.Intn(2)
				}
			case rng.Chance(1, 5):
				c.VErr = true
			default:
				for i := range c.Vec {
					c.Vec[i] = rng.Intn(2)
				}
				c.Vec[rng.Intn(n)] = 2 + rng.Intn(2)
			}
			if k%2 == 1 && st > 1 && rng.Bool() { // the other envelope format of the same chain and scheme
				c.Format = formats[(indexOf(formats, c.Format)+1)%2]
			}
			runCase(&c)
		}
	}
	// 7. envelopes carrying a timestamp countersignature (unsigned, attacker-controllable attribute) under a policy
	// without tsa store: the validator must still be asked with a zero signing time for notary.x509, and with
	// the authentic signing time (not the token's) for signingAuthority; every vector for n=1..3
	for n := 1; n <= 3; n++ {
		vectors(n, 4, func(v []int) {
			for _, sa := range []bool{false, true} {
				runCase(&c05Case{N: n, Format: Pick(rng, formats), SA: sa, Action: Pick(rng, []string{"Enforce", "Log"}), Level: Pick(rng, levels), Val: 1 + rng.Intn(3), Vec: v, Method: rng.Intn(4), Anchor: rng.Intn(3), Token: true})
			}
		})
	}
	// 8. answers OUTSIDE the one-result-per-certificate contract, no error: fewer results than certificates
	// (including none at all: (nil, nil) and an empty slice), more results than certificates, nil entries. Since
	// fix d78db00 (checkRevocationResults) every such answer must fail the validation as inconclusive; before it an
	// all-passing short vector PASSED (finding F1: C05_pass_only_if_v0_refuted) and a longer vector or a nil entry
	// made Verify panic (F2: C05_v0_panic_iff). Ordinary cases: judged by the property oracle like all others.
	for n := 1; n <= 4; n++ {
		for _, m := range []int{0, 1, 2, 3, n + 1, n + 2} {
			if m == n {
				continue
			}
			for pat := 0; pat < 3; pat++ { // 0: all passing, 1: one revoked, 2: one unknown / out-of-range value
				if m == 0 && pat > 0 {
					continue
				}
				v := make([]int, m)
				for i := range v {
					v[i] = rng.Intn(2)
				}
				if pat == 1 {
					v[rng.Intn(m)] = 3
				} else if pat == 2 {
					v[rng.Intn(m)] = []int{2, 4}[rng.Intn(2)]
				}
				for _, act := range []string{"Enforce", "Log"} {
					vals := []int{1 + rng.Intn(3)}
					if pat == 0 && m < n {
						vals = []int{1, 2, 3}
					}
					for _, val := range vals {
						runCase(&c05Case{N: n, Format: Pick(rng, formats), SA: rng.Bool(), Action: act, Level: Pick(rng, levels), Val: val, Vec: v, Method: rng.Intn(4), Anchor: rng.Intn(3), NilRes: m == 0 && val != 2})
					}
				}
			}
		}
		runCase(&c05Case{N: n, Format: Pick(rng, formats), SA: rng.Bool(), Action: "Skip", Level: Pick(rng, levels), Val: 1 + rng.Intn(3), Vec: make([]int, n+1)})
	}
	// 8b. nil entries at every position of an otherwise complete answer (all passing, or with a revoked / unknown
	// result elsewhere), and in short / overlong answers
	for n := 1; n <= 4; n++ {
		for pos := 0; pos < n; pos++ {
			for pat := 0; pat < 3; pat++ {
				v := make([]int, n)
				for i := range v {
					v[i] = rng.Intn(2)
				}
				if pat > 0 {
					v[rng.Intn(n)] = 1 + pat // 2 unknown, 3 revoked (possibly at the nil position itself)
				}
				for _, act := range []string{"Enforce", "Log"} {
					runCase(&c05Case{N: n, Format: Pick(rng, formats), SA: rng.Bool(), Action: act, Level: Pick(rng, levels), Val: 1 + rng.Intn(3), Vec: v, Method: rng.Intn(4), Anchor: rng.Intn(3), NilAt: []int{pos}})
				}
			}
		}
		for _, m := range []int{n - 1, n + 1} {
			if m == 0 {
				continue
			}
			runCase(&c05Case{N: n, Format: Pick(rng, formats), SA: rng.Bool(), Action: Pick(rng, []string{"Enforce", "Log"}), Level: Pick(rng, levels), Val: 1 + rng.Intn(3), Vec: make([]int, m), NilAt: []int{rng.Intn(m)}})
		}
		all := make([]int, n)
		for i := range all {
			all[i] = i
		}
		runCase(&c05Case{N: n, Format: Pick(rng, formats), SA: rng.Bool(), Action: "Enforce", Level: Pick(rng, levels), Val: 1 + rng.Intn(3), Vec: make([]int, n), NilAt: all})
	}
	// 9. annotations varied per certificate: every RevocationMethod value (unknown, OCSP, CRL, OCSP-fallback-CRL and an
	// out-of-range one) at every position, 0-3 server results per certificate with and without errors, combined with
	// every verdict class; the verdict must be the one of the bare result vector (model: C05_independent_of_annotations)
	nAnn := 120
	if a.Tier == "thorough" {
		nAnn = 3000
	}
	for k := 0; k < nAnn; k++ {
		n := 1 + rng.Intn(4)
		v := make([]int, n)
		for i := range v {
			v[i] = rng.Intn(2)
		}
		switch k % 4 {
		case 1:
			v[rng.Intn(n)] = 3
		case 2:
			v[rng.Intn(n)] = 2
		case 3:
			v[rng.Intn(n)] = 2 + rng.Intn(3)
			v[rng.Intn(n)] = 2 + rng.Intn(3)
		}
		ann := make([]c05Ann, n)
		for i := range ann {
			ann[i].Method = (k + i) % 5
			for j := rng.Intn(4); j > 0; j-- {
				ann[i].Servers = append(ann[i].Servers, [2]int{rng.Intn(5), rng.Intn(2)})
			}
		}
		runCase(&c05Case{N: n, Format: Pick(rng, formats), SA: rng.Bool(), Action: Pick(rng, []string{"Enforce", "Log"}), Level: Pick(rng, levels), Val: 1 + rng.Intn(3), Vec: v, Ann: ann, Anchor: rng.Intn(3)})
	}
	// 10. nil *ServerResult entries inside the ServerResults of a (complete) answer, at every position among 1-3 server
	// results and as the only one, under every RevocationMethod, for every verdict class: ordinary cases - Verify must not
	// panic (it did before /repo fix a146158) and the verdict is the one of the bare result vector
	for n := 1; n <= 3; n++ {
		for pat := 0; pat < 4; pat++ {
			for at := 0; at < n; at++ {
				for _, act := range []string{"Enforce", "Log"} {
					v := make([]int, n)
					for i := range v {
						v[i] = rng.Intn(2)
					}
					switch pat {
					case 1:
						v[rng.Intn(n)] = 3
					case 2:
						v[rng.Intn(n)] = 2
					case 3:
						v[rng.Intn(n)] = 4
					}
					ann := make([]c05Ann, n)
					for i := range ann {
						ann[i].Method = rng.Intn(5)
						for j := rng.Intn(3); j > 0; j-- {
							ann[i].Servers = append(ann[i].Servers, [2]int{rng.Intn(5), rng.Intn(2)})
						}
					}
					// certificate `at` gets a nil server result at a random position of its slice; sometimes others too
					k := rng.Intn(len(ann[at].Servers) + 1)
					sv := append([][2]int{}, ann[at].Servers[:k]...)
					sv = append(sv, [2]int{-1, 0})
					ann[at].Servers = append(sv, ann[at].Servers[k:]...)
					if rng.Intn(3) == 0 {
						o := rng.Intn(n)
						ann[o].Servers = append(ann[o].Servers, [2]int{-1, 0})
					}
					runCase(&c05Case{N: n, Format: Pick(rng, formats), SA: rng.Bool(), Action: act, Level: Pick(rng, levels), Val: 1 + rng.Intn(3), Vec: v, Ann: ann, Anchor: rng.Intn(3)})
				}
			}
		}
	}
	// 11. signatures that name a verification plugin: installed plugin capabilities {none (only a non-verification one),
	// TI only, Rev only, both (either order), each with and without an extra non-verification capability} x validator
	// answers {all OK, revoked at each position, unknown, validator error, incomplete (short vector / nil entry)} x action
	// x both validator interfaces x the plugin's own revocation verdict. Notation's own check - validator consulted with
	// the whole chain, answer aggregated - must happen iff the level does not skip revocation and the plugin does not
	// advertise the revocation capability; otherwise the validator must not be consulted and the plugin's verdict decides
	capSets := [][]string{{"Other"}, {}, {"TI"}, {"Other", "TI"}, {"Rev"}, {"Rev", "Other"}, {"TI", "Rev"}, {"Rev", "TI"}}
	for n := 1; n <= 3; n++ {
		type ans struct {
			vec   []int
			verr  bool
			nilAt []int
		}
		var answers []ans
		answers = append(answers, ans{vec: make([]int, n)})
		for pos := 0; pos < n; pos++ {
			v := make([]int, n)
			v[pos] = 3
			answers = append(answers, ans{vec: v})
		}
		u := make([]int, n)
		u[rng.Intn(n)] = 2
		answers = append(answers, ans{vec: u}, ans{vec: make([]int, n), verr: true}, ans{vec: make([]int, n-1)}, ans{vec: make([]int, n), nilAt: []int{rng.Intn(n)}})
		for ci, caps := range capSets {
			if n != 2 && ci%2 == 1 {
				continue // the variants with an extra capability / the other order only for chains of two
			}
			for _, an := range answers {
				for _, act := range actions {
					for _, val := range []int{1, 2} {
						if n != 2 && val == 2 && rng.Intn(2) == 0 {
							val = 3
						}
						runCase(&c05Case{N: n, Format: Pick(rng, formats), SA: rng.Bool(), Action: act, Level: Pick(rng, levels), Val: val, Vec: an.vec, VErr: an.verr, NilAt: an.nilAt,
							Anchor: rng.Intn(3), Plugin: true, PCaps: caps, PRevOK: rng.Intn(3) != 0})
					}
				}
			}
		}
	}
	// 12. subjects the verdict must not rest on: a certificate with an EMPTY subject DN at each position (leaf /
	// intermediate / root), and two certificates with the SAME subject, crossed with revoked / unknown / other at that
	// position (alone, and together with another non-OK result), under enforce and log, both interfaces. Pass iff all OK.
	for n := 1; n <= 3; n++ {
		var shapes []string
		for k := 0; k < n; k++ {
			shapes = append(shapes, fmt.Sprintf("e%d", k))
		}
		for i := 0; i < n; i++ {
			for j := i + 1; j < n; j++ {
				shapes = append(shapes, fmt.Sprintf("d%d%d", i, j))
			}
		}
		for _, sh := range shapes {
			pos := []int{int(sh[1] - '0')}
			if sh[0] == 'd' {
				pos = append(pos, int(sh[2]-'0'))
			}
			var vecs [][]int
			vecs = append(vecs, make([]int, n))
			for _, p := range pos {
				for _, k := range []int{3, 2, 4} {
					v := make([]int, n)
					v[p] = k
					vecs = append(vecs, v)
					if n > 1 {
						v2 := append([]int(nil), v...)
						v2[(p+1)%n] = 2 + rng.Intn(2)
						vecs = append(vecs, v2)
					}
				}
			}
			if n > 1 {
				v := make([]int, n)
				v[(pos[0]+1)%n] = 3 // revoked elsewhere, the special certificate OK
				vecs = append(vecs, v)
			}
			for _, v := range vecs {
				for _, act := range []string{"Enforce", "Log"} {
					for _, val := range []int{1, 2} {
						runCase(&c05Case{N: n, Shape: sh, Format: Pick(rng, formats), SA: rng.Bool(), Action: act, Level: Pick(rng, levels), Val: val, Vec: v, Method: rng.Intn(4), Anchor: rng.Intn(3)})
					}
				}
			}
		}
	}
	return w.Close()
}

func sign(x int) int {
	switch {
	case x < 0:
		return -1
	case x > 0:
		return 1
	}
	return 0
}

func indexOf(xs []string, x string) int {
	for i, y := range xs {
		if y == x {
			return i
		}
	}
	return 0
}

func hasNonOK(v []int) bool {
	for _, k := range v {
		if k >= 2 {
			return true
		}
	}
	return false
}
