package main

// Concurrency family (HOWTO lesson 7): overlapping Sign / SignBlob calls in ONE
// process, every call with its own descriptor, every result judged against
// its OWN request. Two variants:
//   nested   deterministic: at the k-th yield point of call A (a Debug line of
//            the context logger or the entry of a plugin command), a whole
//            call B with another descriptor runs to completion, for every k;
//   parallel K goroutines, a few hundred calls each, runtime.Gosched() at
//            every yield point; own signers in one round, ONE shared
//            PluginSigner (and one plugin object) in the other.
// The family runs in a re-executed child process: a fatal runtime error
// (concurrent map writes ...) ends the child, not the driver.

import (
	"bufio"
	"context"
	"crypto/sha256"
	"encoding/hex"
	"encoding/json"
	"fmt"
	"os"
	"os/exec"
	"runtime"
	"sync"
	"time"

	"github.com/notaryproject/notation-go/log"
	"github.com/notaryproject/notation-go/signer"
	pl "github.com/notaryproject/notation-plugin-framework-go/plugin"
	. "vh/kit"
)

const concBase = 700000

type hookLogger struct{ f func() }

func (l *hookLogger) Debug(args ...interface{})                 { l.f() }
func (l *hookLogger) Debugf(format string, args ...interface{}) { l.f() }
func (l *hookLogger) Debugln(args ...interface{})               { l.f() }
func (l *hookLogger) Info(args ...interface{})                  { l.f() }
func (l *hookLogger) Infof(format string, args ...interface{})  { l.f() }
func (l *hookLogger) Infoln(args ...interface{})                { l.f() }
func (l *hookLogger) Warn(args ...interface{})                  { l.f() }
func (l *hookLogger) Warnf(format string, args ...interface{})  { l.f() }
func (l *hookLogger) Warnln(args ...interface{})                { l.f() }
func (l *hookLogger) Error(args ...interface{})                 { l.f() }
func (l *hookLogger) Errorf(format string, args ...interface{}) { l.f() }
func (l *hookLogger) Errorln(args ...interface{})               { l.f() }

// ctxPlugin is the plugin of the SHARED signer: it hands every command to the
// per-call scripted plugin found in the context.
type ctxPlugin struct{}
type callKey struct{}

func callPlugin(ctx context.Context) *plugin { return ctx.Value(callKey{}).(*plugin) }

func (ctxPlugin) GetMetadata(ctx context.Context, req *pl.GetMetadataRequest) (*pl.GetMetadataResponse, error) {
	return callPlugin(ctx).GetMetadata(ctx, req)
}
func (ctxPlugin) DescribeKey(ctx context.Context, req *pl.DescribeKeyRequest) (*pl.DescribeKeyResponse, error) {
	return callPlugin(ctx).DescribeKey(ctx, req)
}
func (ctxPlugin) GenerateSignature(ctx context.Context, req *pl.GenerateSignatureRequest) (*pl.GenerateSignatureResponse, error) {
	return callPlugin(ctx).GenerateSignature(ctx, req)
}
func (ctxPlugin) GenerateEnvelope(ctx context.Context, req *pl.GenerateEnvelopeRequest) (*pl.GenerateEnvelopeResponse, error) {
	return callPlugin(ctx).GenerateEnvelope(ctx, req)
}

type concResult struct {
	ID    int64    `json:"id"`
	Term  string   `json:"term"`
	S     *script  `json:"script"`
	Key   string   `json:"key"`
	NT    bool     `json:"nt"`
	OK    bool     `json:"ok"`
	Frame []string `json:"frame,omitempty"`
	Calls int      `json:"calls,omitempty"` // trailer line: number of calls made
}

// concDesc: descriptors of one owner; equal-length payloads across owners when
// fixed is true (so that foreign bytes in a reused buffer are still JSON).
func concDesc(owner, n int, fixed bool) reqDesc {
	h := sha256.Sum256([]byte(fmt.Sprintf("owner %d call %d", owner, n)))
	d := reqDesc{MT: poolMT[0], DG: "sha256:" + hex.EncodeToString(h[:]), Size: int64(1000 + owner*37%9000),
		Ann: map[string]string{"owner": fmt.Sprintf("%02d", owner%100), "n": fmt.Sprintf("%04d", n%10000)}}
	if !fixed {
		d.MT = poolMT[(owner+n)%3]
		d.Size = int64(owner) << uint(n%40)
		switch n % 3 {
		case 0:
			d.Ann = nil
		case 1:
			d.Ann[fmt.Sprintf("extra-%d", owner)] = fmt.Sprint(n)
		}
	}
	return d
}

func concScript(raw bool, mt string, d reqDesc, blob bool, spec string, op string) *script {
	s := &script{Family: "concurrency", Blob: blob, MT: mt, KeyID: "key1", Desc: d, DKKeyID: "key1", DKSpec: spec, GSErr: true, GEErr: true, Ops: []string{op}}
	if raw {
		s.CapRaw, s.GSErr, s.GSKeyID, s.GSSigner, s.GSChain, s.GSHash = true, false, "key1", spec+"/0", "own", "asked"
	} else {
		s.CapEnv, s.GEErr, s.GEEcho, s.GEFormat, s.GESigner, s.GEChain, s.GECtype = true, false, "=", mt, spec+"/0", "own", MtPayload
	}
	return s
}

// concSession: a per-call session; shared != nil = the ONE shared signer, whose
// plugin finds this call's scripted plugin in the context.
func concSession(now time.Time, shared *session, hook func()) *session {
	var se *session
	if shared == nil {
		se = newSession("key1", now)
	} else {
		p := &plugin{now: now, respAnn: shared.p.respAnn}
		se = &session{ps: shared.ps, p: p, ctorCfg: shared.ctorCfg, optsCfg: shared.optsCfg, urls: shared.urls}
	}
	ctx := context.WithValue(context.Background(), callKey{}, se.p)
	if hook != nil {
		se.p.hook = hook
		ctx = log.WithLogger(ctx, &hookLogger{f: hook})
	}
	se.ctx = ctx
	return se
}

func newSharedSession(now time.Time) *session {
	se := &session{p: &plugin{now: now, respAnn: map[string]string{"a": "b"}}, ctorCfg: map[string]string{"cfg": "1"}, optsCfg: map[string]string{"shared": "opts"},
		urls: []string{"https://dropped.by.sanitize"}}
	ps, err := signer.NewPluginSigner(ctxPlugin{}, "key1", se.ctorCfg)
	if err != nil {
		panic(err)
	}
	se.ps = ps
	return se
}

func anomalous(s *script) bool { return s.Result != "signature" || s.RetOther }

func concChild(a *Args, outPath string, now time.Time) error {
	f, err := os.Create(outPath)
	if err != nil {
		return err
	}
	defer f.Close()
	bw := bufio.NewWriterSize(f, 1<<20)
	defer bw.Flush()
	var mu sync.Mutex
	calls := 0
	put := func(id int64, s *script, term, key string, nt, ok bool, frame []string) {
		b, _ := json.Marshal(concResult{ID: id, Term: term, S: s, Key: key, NT: nt, OK: ok, Frame: frame})
		mu.Lock()
		bw.Write(b)
		bw.WriteByte('\n')
		mu.Unlock()
	}
	want := func(id int64) bool { return a.Only < 0 || a.Only == id }

	// ---- nested: call B runs to completion at the k-th yield point of call A ----
	id := int64(concBase)
	exp := 0
	for _, raw := range []bool{true, false} {
		for _, mt := range []string{MtJWS, MtCOSE} {
			for _, blob := range []bool{false, true} {
				// number of yield points of A
				n := 0
				sa := concScript(raw, mt, concDesc(1, exp, true), blob, "EC-256", "count")
				runCase(0, sa, now, concSession(now, nil, func() { n++ }))
				for k := 0; k < n; k++ {
					exp++
					fixed := k%3 != 2
					var shared *session
					if k%2 == 1 {
						shared = newSharedSession(now)
					}
					sa := concScript(raw, mt, concDesc(1, exp, fixed), blob, "EC-256", fmt.Sprintf("nested:A,k=%d,shared=%v", k, shared != nil))
					braw := raw
					if k%4 >= 2 {
						braw = !raw
					}
					sb := concScript(braw, mt, concDesc(2, exp, fixed), (k/4)%2 == 1, "EC-256", fmt.Sprintf("nested:B,k=%d,shared=%v", k, shared != nil))
					idA, idB := id, id+1
					id += 2
					if !want(idA) && !want(idB) {
						continue
					}
					ev := 0
					hook := func() {
						if ev == k {
							calls++
							term, key, nt, ok, frame := runCase(idB, sb, now, concSession(now, shared, nil))
							if want(idB) {
								put(idB, sb, term, key, nt, ok, frame)
							}
						}
						ev++
					}
					calls++
					term, key, nt, ok, frame := runCase(idA, sa, now, concSession(now, shared, hook))
					if want(idA) {
						put(idA, sa, term, key, nt, ok, frame)
					}
				}
			}
		}
	}

	// ---- parallel: K goroutines, own descriptors, Gosched at every yield point ----
	const K = 8
	per := 150
	if a.Tier == "thorough" {
		per = 1500
	}
	if a.Only >= 0 && a.Only < concBase+100000 {
		per = 0
	}
	for round := 0; round < 2; round++ {
		var shared *session
		if round == 1 {
			shared = newSharedSession(now)
		}
		var wg sync.WaitGroup
		for g := 0; g < K; g++ {
			wg.Add(1)
			go func(g int) {
				defer wg.Done()
				emitted := 0
				for n := 0; n < per; n++ {
					raw := g%2 == 0
					mt := []string{MtJWS, MtCOSE}[(g/2)%2]
					spec := []string{"EC-256", "EC-384"}[(g/4)%2]
					s := concScript(raw, mt, concDesc(10+g+100*round, n, n%4 != 3), n%5 == 4, spec, fmt.Sprintf("parallel:round=%d,g=%d", round, g))
					cid := int64(concBase+100000) + int64(round)*50000 + int64(g)*5000 + int64(n)
					term, key, nt, ok, frame := runCase(cid, s, now, concSession(now, shared, runtime.Gosched))
					mu.Lock()
					calls++
					mu.Unlock()
					// every anomalous call is a case; of the others the first 12 of each goroutine
					if (anomalous(s) && emitted < 60) || n < 12 {
						emitted++
						if want(cid) {
							put(cid, s, term, key, nt, ok, frame)
						}
					}
				}
			}(g)
		}
		wg.Wait()
	}
	b, _ := json.Marshal(concResult{ID: -1, Calls: calls})
	bw.Write(b)
	bw.WriteByte('\n')
	return nil
}

// runConcFamily re-executes the driver as a child for the concurrency family
// and turns its results into cases.
func runConcFamily(a *Args, w *CaseWriter, record func(id int64, s *script, term, key string, nt, ok bool, frame []string)) {
	if a.Only >= 0 && a.Only < concBase {
		return
	}
	exe, err := os.Executable()
	if err != nil {
		panic(err)
	}
	out := a.Out + "/conc_child.jsonl"
	ctx, cancel := context.WithTimeout(context.Background(), 10*time.Minute)
	defer cancel()
	cmd := exec.CommandContext(ctx, exe, "--tier", a.Tier, "--seed", fmt.Sprint(a.Seed), "--only", fmt.Sprint(a.Only), "conc-child", out)
	msg, err := cmd.CombinedOutput()
	done := false
	if f, e := os.Open(out); e == nil {
		sc := bufio.NewScanner(f)
		sc.Buffer(make([]byte, 1<<20), 1<<26)
		for sc.Scan() {
			var r concResult
			if json.Unmarshal(sc.Bytes(), &r) != nil {
				continue
			}
			if r.ID < 0 {
				done = true
				w.Set("concurrent_calls", r.Calls)
				continue
			}
			record(r.ID, r.S, r.Term, r.Key, r.NT, r.OK, r.Frame)
		}
		f.Close()
		os.Remove(out)
	}
	if err != nil || !done {
		tail := string(msg)
		if len(tail) > 3000 {
			tail = tail[:3000]
		}
		w.ImplViolation(concBase+99999, "overlapping Sign / SignBlob calls ended the process (fatal runtime error, panic outside a call, or timeout)",
			map[string]any{"family": "concurrency", "error": fmt.Sprint(err), "output": tail}, "conc-fatal")
	}
}
