package main

// C18 driver: runs the real signer.PluginSigner (Sign and SignBlob) against a
// scripted plugin.SignPlugin that holds real keys for the six key specs and
// answers adversarially; prints (plugin answers + library facts, observation)
// cases for C18_Model.

import (
	"bytes"
	"context"
	"crypto/x509"
	"encoding/json"
	"errors"
	"fmt"
	"os"
	"path/filepath"
	"sort"
	"strings"
	"time"

	"github.com/notaryproject/notation-core-go/signature"
	nx509 "github.com/notaryproject/notation-core-go/x509"
	"github.com/notaryproject/notation-go"
	"github.com/notaryproject/notation-go/signer"
	pl "github.com/notaryproject/notation-plugin-framework-go/plugin"
	"github.com/opencontainers/go-digest"
	ocispec "github.com/opencontainers/image-spec/specs-go/v1"
	. "vh/kit"
)

func main() { Main("c18", runC18) }

// ---------- the script of one case ----------

type script struct {
	Family string  `json:"family"`
	Blob   bool    `json:"sign_blob"`
	MT     string  `json:"requested_envelope_type"`
	KeyID  string  `json:"key_id"`
	Desc   reqDesc `json:"descriptor"`

	AnnEmptyMap bool   `json:"annotations_empty_map,omitempty"` // requested annotations are an empty, non-nil map
	CapOrder    int    `json:"capability_order,omitempty"`      // order in which the capabilities are listed
	NilAnswers  bool   `json:"nil_slices,omitempty"`            // empty chain / signature / envelope answered as nil
	Hist        string `json:"history,omitempty"`               // "h<k>/<step>": step of a history on ONE long-lived signer

	// commands that answer a nil response with a nil error
	NilMeta bool `json:"metadata_nil,omitempty"`
	NilDK   bool `json:"describe_key_nil,omitempty"`
	NilGS   bool `json:"gensig_nil,omitempty"`
	NilGE   bool `json:"genenv_nil,omitempty"`

	MetaErr bool `json:"metadata_error,omitempty"`
	CapRaw  bool `json:"cap_raw"`
	CapEnv  bool `json:"cap_envelope"`

	DKErr   bool   `json:"describe_key_error,omitempty"`
	DKKeyID string `json:"describe_key_keyid"`
	DKSpec  string `json:"describe_key_keyspec"`

	// generate-signature
	GSErr     bool   `json:"gensig_error,omitempty"`
	GSKeyID   string `json:"gensig_keyid,omitempty"`
	GSSigner  string `json:"gensig_signer,omitempty"`  // identity that signs, "spec/variant"
	GSChain   string `json:"gensig_chain,omitempty"`   // own | other | otherspec | leafonly | reversed | empty | garbage | expired | selfsigned | rootonly
	GSHash    string `json:"gensig_hash,omitempty"`    // asked | other
	GSCorrupt string `json:"gensig_corrupt,omitempty"` // "" | flip | empty | truncate

	// generate-envelope
	GEErr     bool     `json:"genenv_error,omitempty"`
	GEEcho    string   `json:"genenv_type_echo,omitempty"` // "=" means the requested type
	GEFormat  string   `json:"genenv_real_format,omitempty"`
	GESigner  string   `json:"genenv_signer,omitempty"`
	GEChain   string   `json:"genenv_chain,omitempty"` // own | other
	GECtype   string   `json:"genenv_content_type,omitempty"`
	GECorrupt string   `json:"genenv_corrupt,omitempty"` // "" | flip | truncate | garbage | empty
	Payload   string   `json:"genenv_payload,omitempty"` // payload bytes the plugin signs ("" = the request's payload)
	Ops       []string `json:"payload_edits,omitempty"`

	// observation
	RetOther bool   `json:"obs_returned_envelope_not_over_requested_descriptor,omitempty"`
	Result   string `json:"obs_result"`
	ErrMsg   string `json:"obs_error,omitempty"`
}

var (
	errMeta     = errors.New("vh-meta-error")
	errDescribe = errors.New("vh-describe-error")
	errGenSig   = errors.New("vh-gensig-error")
	errGenEnv   = errors.New("vh-genenv-error")
)

// ---------- the scripted plugin ----------

type gsFacts struct {
	called                      bool
	keyID                       string
	chainParse                  bool
	chainLen                    int
	sigEmpty, chainValid, sigOK bool
	leafAlg                     signature.Algorithm
	reqKeySpec, reqHash         string
	chainDER                    [][]byte
	chainSnap                   [][]byte
	sigRef, sigSnap             []byte
}

type geFacts struct {
	called        bool
	failed        bool // the plugin could not build what the script asked for: it answered with an error
	echo          string
	parse, verify bool
	ctype         string
	payload       []byte
	envBytes      []byte
	envSnap       []byte
}

type plugin struct {
	s       *script
	now     time.Time
	gs      gsFacts
	ge      geFacts
	metaCalled, dkCalled bool
	respAnn map[string]string // the plugin's own map, answered by reference in every generate-envelope response
	hook    func()            // concurrency family: called on entry of every plugin command
}

func (p *plugin) enter() {
	if p.hook != nil {
		p.hook()
	}
}

func (p *plugin) GetMetadata(ctx context.Context, req *pl.GetMetadataRequest) (*pl.GetMetadataResponse, error) {
	p.enter()
	p.metaCalled = true
	if p.s.NilMeta {
		return nil, nil
	}
	if p.s.MetaErr {
		return nil, errMeta
	}
	var caps []pl.Capability
	if p.s.CapEnv {
		caps = append(caps, pl.CapabilityEnvelopeGenerator)
	}
	if p.s.CapRaw {
		caps = append(caps, pl.CapabilitySignatureGenerator)
	}
	switch p.s.CapOrder % 4 {
	case 0: // verifier capability first, envelope before raw
		caps = append([]pl.Capability{pl.CapabilityTrustedIdentityVerifier}, caps...)
	case 1: // raw before envelope, verifier last
		for i, j := 0, len(caps)-1; i < j; i, j = i+1, j-1 {
			caps[i], caps[j] = caps[j], caps[i]
		}
		caps = append(caps, pl.CapabilityRevocationCheckVerifier)
	case 2: // signing capabilities only
	case 3: // verifier in the middle, a capability listed twice
		if len(caps) > 0 {
			caps = append(caps[:1:1], append([]pl.Capability{pl.CapabilityTrustedIdentityVerifier}, caps[0:]...)...)
		}
	}
	return &pl.GetMetadataResponse{Name: "vh", Version: "1.0.0", Description: "d", URL: "u", SupportedContractVersions: []string{"1.0"}, Capabilities: caps}, nil
}

func (p *plugin) DescribeKey(ctx context.Context, req *pl.DescribeKeyRequest) (*pl.DescribeKeyResponse, error) {
	p.enter()
	p.dkCalled = true
	if p.s.NilDK {
		return nil, nil
	}
	if p.s.DKErr {
		return nil, errDescribe
	}
	return &pl.DescribeKeyResponse{KeyID: p.s.DKKeyID, KeySpec: pl.KeySpec(p.s.DKSpec)}, nil
}

func identByName(n string) *identity {
	if n == "selfsigned" {
		return selfSigned
	}
	return identities[n]
}

func chainFor(kind string, id *identity) [][]byte {
	der := func(c Chain) [][]byte {
		var out [][]byte
		for _, x := range c {
			out = append(out, x.C.Raw)
		}
		return out
	}
	switch kind {
	case "own":
		return der(id.chain)
	case "other":
		return der(ident(id.spec, 1-id.variant).chain)
	case "otherspec":
		for _, s := range c18Specs {
			if s != id.spec {
				return der(ident(s, 0).chain)
			}
		}
	case "leafonly":
		return der(id.chain[:1])
	case "rootonly":
		return der(id.chain[1:])
	case "reversed":
		return der(Chain{id.chain[1], id.chain[0]})
	case "empty":
		return [][]byte{}
	case "garbage":
		return [][]byte{id.chain[0].C.Raw[:40], id.chain[1].C.Raw}
	case "expired":
		return der(expiredChain)
	case "selfsigned":
		return der(selfSigned.chain)
	case "deep":
		return der(deepChain)
	}
	// deep-<op>@<i>: the three-certificate chain with the odd element at position i
	var op string
	var i int
	if n, _ := fmt.Sscanf(strings.ReplaceAll(kind, "@", " "), "deep-%s %d", &op, &i); n == 2 {
		c := der(deepChain)
		bad := deepChain[0].C.Raw[:40]
		switch op {
		case "garbage": // unparsable bytes instead of certificate i
			c[i] = bad
		case "insgarbage": // unparsable bytes inserted before position i
			c = append(c[:i:i], append([][]byte{bad}, c[i:]...)...)
		case "foreign": // a certificate of another hierarchy instead of certificate i
			c[i] = foreignCert.C.Raw
		case "insforeign":
			c = append(c[:i:i], append([][]byte{foreignCert.C.Raw}, c[i:]...)...)
		case "drop":
			c = append(c[:i:i], c[i+1:]...)
		case "dup": // certificate i twice
			c = append(c[:i:i], append([][]byte{c[i]}, c[i:]...)...)
		case "swap": // certificates i and (i+1) mod 3 exchanged
			j := (i + 1) % 3
			c[i], c[j] = c[j], c[i]
		default:
			panic("chain kind " + kind)
		}
		return c
	}
	panic("chain kind " + kind)
}

func (p *plugin) GenerateSignature(ctx context.Context, req *pl.GenerateSignatureRequest) (*pl.GenerateSignatureResponse, error) {
	p.enter()
	f := &p.gs
	f.called = true
	f.reqKeySpec, f.reqHash = string(req.KeySpec), string(req.Hash)
	if p.s.NilGS {
		return nil, nil
	}
	if p.s.GSErr {
		return nil, errGenSig
	}
	id := identByName(p.s.GSSigner)
	h := id.alg.Hash()
	if p.s.GSHash == "other" {
		for _, x := range []signature.Algorithm{signature.AlgorithmES256, signature.AlgorithmES384, signature.AlgorithmES512} {
			if x.Hash() != h {
				h = x.Hash()
				break
			}
		}
	}
	sig := signRaw(id.key, h, req.Payload)
	switch p.s.GSCorrupt {
	case "flip":
		sig[len(sig)/2] ^= 0x40
	case "empty":
		sig = []byte{}
	case "truncate":
		sig = sig[:len(sig)-1]
	}
	chain := chainFor(p.s.GSChain, id)
	if p.s.NilAnswers {
		if len(chain) == 0 {
			chain = nil
		}
		if len(sig) == 0 {
			sig = nil
		}
	}
	// facts, asked from crypto/x509, notation-core-go and crypto
	f.keyID = p.s.GSKeyID
	f.chainDER = chain
	f.chainSnap = copyBytes2(chain)
	f.sigRef, f.sigSnap = sig, append([]byte(nil), sig...)
	f.chainLen = len(chain)
	f.sigEmpty = len(sig) == 0
	f.chainParse = true
	var certs []*x509.Certificate
	for _, d := range chain {
		c, err := x509.ParseCertificate(d)
		if err != nil {
			f.chainParse = false
			break
		}
		certs = append(certs, c)
	}
	if f.chainParse && len(certs) > 0 {
		t := time.Now()
		f.chainValid = nx509.ValidateCodeSigningCertChain(certs, &t) == nil && nx509.ValidateCodeSigningCertChain(certs, nil) == nil
		if ks, err := signature.ExtractKeySpec(certs[0]); err == nil {
			f.leafAlg = ks.SignatureAlgorithm()
			f.sigOK = verifyRaw(certs[0].PublicKey, f.leafAlg, req.Payload, sig)
		}
	}
	return &pl.GenerateSignatureResponse{KeyID: p.s.GSKeyID, Signature: sig, SigningAlgorithm: "unused", CertificateChain: chain}, nil
}

func (p *plugin) GenerateEnvelope(ctx context.Context, req *pl.GenerateEnvelopeRequest) (*pl.GenerateEnvelopeResponse, error) {
	p.enter()
	f := &p.ge
	f.called = true
	if p.s.NilGE {
		f.failed = true
		return nil, nil
	}
	if p.s.GEErr {
		f.failed = true
		return nil, errGenEnv
	}
	payload := req.Payload
	if p.s.Payload != "" {
		payload = []byte(p.s.Payload)
	}
	id := identByName(p.s.GESigner)
	chain := id.chain
	if p.s.GEChain == "other" {
		chain = ident(id.spec, 1-id.variant).chain
	}
	var env []byte
	if p.s.GECorrupt == "garbage" {
		env = []byte("not an envelope")
	} else if p.s.GECorrupt == "empty" {
		env = []byte{}
		if p.s.NilAnswers {
			env = nil
		}
	} else {
		var err error
		env, err = buildEnvelope(p.s.GEFormat, id, chain, payload, p.s.GECtype, p.now)
		if err != nil {
			f.failed = true
			return nil, errGenEnv
		}
		switch p.s.GECorrupt {
		case "flip":
			env = corruptSignature(p.s.GEFormat, env)
		case "truncate":
			env = env[:len(env)-7]
		}
	}
	f.echo = p.s.GEEcho
	if f.echo == "=" {
		f.echo = req.SignatureEnvelopeType
	}
	f.envBytes = env
	f.envSnap = append([]byte(nil), env...)
	// facts, asked from notation-core-go for the type the signer requested
	if e, err := signature.ParseEnvelope(p.s.MT, env); err == nil {
		f.parse = true
		if c, err := e.Verify(); err == nil {
			f.verify = true
			f.ctype = c.Payload.ContentType
			f.payload = c.Payload.Content
		}
	}
	return &pl.GenerateEnvelopeResponse{SignatureEnvelope: env, SignatureEnvelopeType: f.echo, Annotations: p.respAnn}, nil
}

// corruptSignature flips one bit inside the signature value of the envelope.
func corruptSignature(format string, env []byte) []byte {
	out := append([]byte{}, env...)
	if format == MtJWS {
		var e jwsEnv
		if json.Unmarshal(env, &e) == nil && len(e.Signature) > 10 {
			b := []byte(e.Signature)
			if b[5] == 'A' {
				b[5] = 'B'
			} else {
				b[5] = 'A'
			}
			e.Signature = string(b)
			out, _ = json.Marshal(e)
			return out
		}
	}
	// COSE_Sign1: the signature is the last byte string
	out[len(out)-5] ^= 0x10
	return out
}

// ---------- running one case ----------

func classify(err error, envPath bool) string {
	msg := err.Error()
	for _, t := range []struct{ sub, cls string }{
		{"plugin returned an empty get-plugin-metadata response", "ENilMeta"}, {"plugin returned an empty describe-key response", "ENilDK"},
		{"plugin returned an empty generate-signature response", "ENilGS"}, {"plugin returned an empty generate-envelope response", "ENilGE"},
		{"vh-meta-error", "EMeta"}, {"vh-describe-error", "EDescribe"}, {"vh-gensig-error", "EGenSig"}, {"vh-genenv-error", "EGenEnv"},
		{"plugin does not have signing capabilities", "ENoCap"},
		{"keyID in describeKey response", "EKeyId"}, {"unknown key spec", "EKeySpec"},
		{"keyID in generateSignature response", "EKeyId2"},
		{"signatureEnvelopeType in generateEnvelope response", "EEcho"},
		{"generated signature failed verification", "EVerify"},
		{"payload content type", "ECtype"},
		{"signed envelope payload can't be unmarshalled", "EUnmarshal"},
		{"during signing descriptor subject has changed", "EDescChanged"},
		{"unknown attributes were added", "EUnknownAttr"},
	} {
		if strings.Contains(msg, t.sub) {
			return t.cls
		}
	}
	var uf *signature.UnsupportedSignatureFormatError
	if errors.As(err, &uf) {
		return "EFormat"
	}
	if !envPath && (strings.Contains(msg, "x509: ") || strings.Contains(msg, "asn1: ")) && !strings.Contains(msg, "certificate-chain") {
		return "EChainParse"
	}
	var is *signature.InvalidSignatureError
	var ir *signature.InvalidSignRequestError
	if errors.As(err, &is) || errors.As(err, &ir) {
		if envPath {
			return "EParse"
		}
		return "ECore"
	}
	return "EOther"
}

type payloadView struct {
	TargetArtifact ocispec.Descriptor `json:"targetArtifact"`
}

func coqAnn(m map[string]string) string { return CMap(m) }

func digestBits(a digest.Algorithm) int64 {
	switch a {
	case digest.SHA256:
		return 256
	case digest.SHA384:
		return 384
	case digest.SHA512:
		return 512
	}
	return 1
}

// runCase executes the script on the real signer and returns the Gallina term.
// session is ONE long-lived PluginSigner with its plugin: the steps of a
// history run on it in sequence, the plugin's script changing between calls.
type session struct {
	ps *signer.PluginSigner
	p  *plugin
	// caller-owned objects handed to the library by reference; in a history the SAME objects go into consecutive calls
	ctorCfg map[string]string // plugin config given to NewPluginSigner
	optsCfg map[string]string // SignerSignOptions.PluginConfig
	urls    []string          // Descriptor.URLs
	ann     map[string]string // Descriptor.Annotations (reused while the requested annotations stay the same)
	annSet  bool
	ctx     context.Context // nil = context.Background()
}

func newSession(keyID string, now time.Time) *session {
	p := &plugin{now: now, respAnn: map[string]string{"a": "b", "io.x/plugin": "1"}}
	se := &session{p: p, ctorCfg: map[string]string{"cfg": "1", "shared": "ctor"}, optsCfg: map[string]string{"shared": "opts", "z": ""},
		urls: []string{"https://dropped.by.sanitize", "https://second"}}
	ps, err := signer.NewPluginSigner(p, keyID, se.ctorCfg)
	if err != nil {
		panic(err)
	}
	se.ps = ps
	return se
}

func copyMap(m map[string]string) map[string]string {
	if m == nil {
		return nil
	}
	c := make(map[string]string, len(m))
	for k, v := range m {
		c[k] = v
	}
	return c
}

func sameMap(a, b map[string]string) bool {
	if (a == nil) != (b == nil) || len(a) != len(b) {
		return false
	}
	for k, v := range a {
		if w, ok := b[k]; !ok || w != v {
			return false
		}
	}
	return true
}

func copyBytes2(x [][]byte) [][]byte {
	if x == nil {
		return nil
	}
	c := make([][]byte, len(x))
	for i := range x {
		c[i] = append([]byte(nil), x[i]...)
	}
	return c
}

func sameBytes2(a, b [][]byte) bool {
	if (a == nil) != (b == nil) || len(a) != len(b) {
		return false
	}
	for i := range a {
		if !bytes.Equal(a[i], b[i]) {
			return false
		}
	}
	return true
}

func runCase(id int64, s *script, now time.Time, sess *session) (term string, key string, nontrivial bool, ok bool, frame []string) {
	if sess == nil {
		sess = newSession(s.KeyID, now)
	}
	p, ps := sess.p, sess.ps
	p.s, p.gs, p.ge = s, gsFacts{}, geFacts{}
	p.metaCalled, p.dkCalled = false, false
	ctx := sess.ctx
	if ctx == nil {
		ctx = context.Background()
	}
	want := copyMap(s.Desc.Ann)
	if s.AnnEmptyMap && len(want) == 0 {
		want = map[string]string{}
	}
	if !sess.annSet || !sameMap(sess.ann, want) {
		sess.ann, sess.annSet = want, true // otherwise the very same map object goes into this call again
	}
	desc := ocispec.Descriptor{MediaType: s.Desc.MT, Digest: digest.Digest(s.Desc.DG), Size: s.Desc.Size, Annotations: sess.ann, URLs: sess.urls}
	opts := notation.SignerSignOptions{SignatureMediaType: s.MT, PluginConfig: sess.optsCfg}
	// frame: deep snapshots of every caller-owned object that goes in by reference
	snapAnn, snapCtor, snapOpts, snapResp := copyMap(sess.ann), copyMap(sess.ctorCfg), copyMap(sess.optsCfg), copyMap(p.respAnn)
	snapURLs := append([]string(nil), sess.urls...)
	var sig []byte
	var info *signature.SignerInfo
	var serr error
	panicked := false
	defer func() {
		// the triple (signature, signerInfo, error): an error comes alone, a signature comes with its signer info
		if !panicked && serr != nil && (sig != nil || info != nil) {
			frame = append(frame, "!an error was returned together with signature bytes or signer info")
		}
		if !panicked && serr == nil && (len(sig) == 0 || info == nil) {
			frame = append(frame, "!no error was returned, but the signature is empty or the signer info is nil")
		}
		if !sameMap(snapAnn, sess.ann) {
			frame = append(frame, "descriptor annotations")
		}
		if !sameMap(snapCtor, sess.ctorCfg) {
			frame = append(frame, "plugin config given to NewPluginSigner")
		}
		if !sameMap(snapOpts, sess.optsCfg) {
			frame = append(frame, "SignerSignOptions.PluginConfig")
		}
		if !sameMap(snapResp, p.respAnn) {
			frame = append(frame, "annotations of the plugin's generate-envelope response")
		}
		if len(snapURLs) != len(sess.urls) || strings.Join(snapURLs, "\x00") != strings.Join(sess.urls, "\x00") {
			frame = append(frame, "descriptor URLs")
		}
		if p.gs.called && !p.s.GSErr && (!sameBytes2(p.gs.chainSnap, p.gs.chainDER) || !bytes.Equal(p.gs.sigSnap, p.gs.sigRef)) {
			frame = append(frame, "certificate chain / signature of the plugin's generate-signature response")
		}
		if p.ge.called && !p.ge.failed && !bytes.Equal(p.ge.envSnap, p.ge.envBytes) {
			frame = append(frame, "envelope bytes of the plugin's generate-envelope response")
		}
	}()
	var dalg int64
	func() {
		defer func() {
			if r := recover(); r != nil {
				panicked = true
				s.ErrMsg = fmt.Sprint("panic: ", r)
			}
		}()
		if s.Blob {
			sig, info, serr = ps.SignBlob(ctx, func(a digest.Algorithm) (ocispec.Descriptor, error) {
				dalg = digestBits(a)
				return desc, nil
			}, opts)
		} else {
			sig, info, serr = ps.Sign(ctx, desc, opts)
		}
	}()

	// ---- input term ----
	_, mtErr := signature.NewEnvelope(s.MT)
	meta := "MErr"
	if !s.MetaErr {
		meta = CApp("MCaps", CBool(s.CapRaw), CBool(s.CapEnv))
	}
	dk := "DKErr"
	if !s.DKErr {
		dk = CApp("DKAns", CStr(s.DKKeyID), CStr(s.DKSpec))
	}
	gs := "GSErr"
	if !s.GSErr {
		f := p.gs
		if !f.called || s.NilGS {
			// the answer was never asked for (or it was nil): no facts exist (printed as all-false)
			f = gsFacts{keyID: s.GSKeyID}
		}
		gs = CApp("GSAns", CApp("mk_gs", CStr(f.keyID), CBool(f.chainParse), CN(int64(f.chainLen)), CBool(f.sigEmpty), CBool(f.chainValid), coqAlgOpt(f.leafAlg), CBool(f.sigOK)))
	}
	ge := "GEErr"
	var tree *jnode
	payloadJSON := false
	if !s.GEErr && p.ge.called && !p.ge.failed {
		f := p.ge
		pt := "None"
		if f.verify {
			t, valid, rep := readTree(f.payload)
			if !rep {
				return "", "", false, false, nil
			}
			if valid {
				tree = t
				payloadJSON = true
				pt = CSome(t.coq())
			}
		}
		ge = CApp("GEAns", CApp("mk_ge", CStr(f.echo), CBool(f.parse), CBool(f.verify), CStr(f.ctype), pt))
	} else if !s.GEErr && !p.ge.called {
		// never asked: printed as an answer without facts
		echo := s.GEEcho
		if echo == "=" {
			echo = s.MT
		}
		ge = CApp("GEAns", CApp("mk_ge", CStr(echo), "false", "false", CStr(""), "None"))
	}
	in := CApp("mk_input", CBool(s.Blob), CStr(s.MT), CBool(mtErr == nil), CStr(s.KeyID),
		CStr(s.Desc.MT), CStr(s.Desc.DG), CZ(s.Desc.Size), coqAnn(s.Desc.Ann), meta, dk, gs, ge)

	// ---- observation ----
	var res string
	switch {
	case panicked:
		res = "RPanic"
		s.Result = "panic"
	case serr != nil:
		cls := classify(serr, p.ge.called)
		res = CApp("RErr", cls)
		s.Result = cls
		s.ErrMsg = serr.Error()
		if len(s.ErrMsg) > 300 {
			s.ErrMsg = s.ErrMsg[:300]
		}
	default:
		same := p.ge.called && bytes.Equal(sig, p.ge.envBytes)
		rf := "None"
		if !same {
			rf = CSome(retFacts(s, sig, p))
		}
		res = CApp("RSig", CBool(same), rf)
		s.Result = "signature"
	}
	gsreq := "None"
	if p.gs.called {
		gsreq = CSome(CPair(CStr(p.gs.reqKeySpec), CStr(p.gs.reqHash)))
	}
	ob := CApp("mk_obs", res, gsreq, CN(dalg))
	nl := CApp("mk_nils", CBool(s.NilMeta), CBool(s.NilDK), CBool(s.NilGS), CBool(s.NilGE))
	if !(s.NilMeta || s.NilDK || s.NilGS || s.NilGE) {
		nl = "no_nils"
	}
	term = CApp("mk_case", CN(id), nl, in, ob)
	// distinctness / non-triviality
	k := *s
	k.ErrMsg = ""
	kb, _ := json.Marshal(k)
	key = string(kb)
	// non-trivial: the plugin answered the signing call (the decision depended on the checks)
	nontrivial = (p.ge.called && !p.ge.failed) || (p.gs.called && !s.GSErr && !s.NilGS) ||
		(s.NilMeta && p.metaCalled) || (s.NilDK && p.dkCalled) || (s.NilGS && p.gs.called) || (s.NilGE && p.ge.called)
	_ = payloadJSON
	_ = tree
	return term, key, nontrivial, true, nil
}

// retFacts: what notation-core-go and the tree reader say about returned bytes
// that are not the plugin's own envelope.
func retFacts(s *script, sig []byte, p *plugin) string {
	verifies, ctype := false, ""
	var d ocispec.Descriptor
	clean, chainIs := false, false
	var a signature.Algorithm
	if c, err := CoreVerify(s.MT, sig); err == nil {
		verifies = true
		ctype = c.Payload.ContentType
		var pv payloadView
		if json.Unmarshal(c.Payload.Content, &pv) == nil {
			d = pv.TargetArtifact
		}
		if t, valid, _ := readTree(c.Payload.Content); valid {
			clean = canonicalPayload(t)
		}
		a = c.SignerInfo.SignatureAlgorithm
		if p.gs.called && len(c.SignerInfo.CertificateChain) == len(p.gs.chainDER) {
			chainIs = true
			for i, x := range c.SignerInfo.CertificateChain {
				if !bytes.Equal(x.Raw, p.gs.chainDER[i]) {
					chainIs = false
				}
			}
		}
	}
	annEq := (len(d.Annotations) == 0 && len(s.Desc.Ann) == 0) || sameMap(copyMap(d.Annotations), copyMap(s.Desc.Ann))
	s.RetOther = !(verifies && d.MediaType == s.Desc.MT && string(d.Digest) == s.Desc.DG && d.Size == s.Desc.Size && annEq)
	return CApp("mk_ret", CBool(verifies), CStr(ctype), CStr(d.MediaType), CStr(string(d.Digest)), CZ(d.Size), coqAnn(d.Annotations),
		CBool(clean), CBool(chainIs), coqAlgOpt(a))
}

// ---------- scenarios ----------

func baseScript(r *Rng, family string) *script {
	s := &script{Family: family, MT: Pick(r, []string{MtJWS, MtCOSE}), KeyID: Pick(r, []string{"key1", "arn:key/2"}), Desc: genDesc(r)}
	s.DKKeyID = s.KeyID
	s.DKSpec = Pick(r, c18Specs)
	s.GSErr, s.GEErr = true, true
	return s
}

func envScript(r *Rng, family string) *script {
	s := baseScript(r, family)
	s.CapEnv = true
	s.GEErr = false
	s.GEEcho = "="
	s.GEFormat = s.MT
	s.GESigner = fmt.Sprintf("%s/%d", Pick(r, c18Specs), r.Intn(2))
	s.GEChain = "own"
	s.GECtype = MtPayload
	return s
}

func rawScript(r *Rng, family string) *script {
	s := baseScript(r, family)
	s.CapRaw = true
	s.CapEnv = r.Chance(1, 4)
	s.GSErr = false
	s.GSKeyID = s.KeyID
	s.GSSigner = fmt.Sprintf("%s/%d", s.DKSpec, r.Intn(2))
	s.GSChain = "own"
	s.GSHash = "asked"
	return s
}

func otherKeyID(r *Rng, k string) string {
	return Pick(r, []string{k + "x", "", strings.ToUpper(k), "key2", k[1:], k + " ", " " + k, k + "\n", k[:len(k)-1], k + "/v2", "\t" + k + " "})
}

// family: payload edits on the envelope path
func scenPayload(r *Rng, tier string) *script {
	s := envScript(r, "envelope-payload")
	n := 1
	switch x := r.Intn(10); {
	case x == 0:
		n = 0
	case x >= 7:
		n = 2
	}
	tree, ops := genPayload(r, s.Desc, n)
	s.Payload = string(tree.bytes())
	s.Ops = ops
	if r.Chance(1, 40) {
		s.Payload = Pick(r, []string{`{"targetArtifact":`, `{"targetArtifact":{}} x`, `{'targetArtifact':1}`, "\x00\x01", `{"targetArtifact":{"size":01}}`})
		s.Ops = []string{"not-json"}
	}
	if r.Chance(1, 12) {
		s.Blob = true
		if r.Chance(1, 4) {
			s.DKKeyID = otherKeyID(r, s.KeyID)
		}
	}
	return s
}

// family: envelope-level answers
func scenEnvelope(r *Rng, tier string) *script {
	s := envScript(r, "envelope-level")
	if r.Chance(1, 3) {
		tree, ops := genPayload(r, s.Desc, r.Intn(2))
		s.Payload = string(tree.bytes())
		s.Ops = ops
	}
	op := Pick(r, []string{"echo", "format", "ctype", "chain", "flip", "truncate", "garbage", "empty", "error", "reqtype", "honest", "selfsigned"})
	s.Ops = append(s.Ops, op)
	other := map[string]string{MtJWS: MtCOSE, MtCOSE: MtJWS}
	switch op {
	case "echo":
		s.GEEcho = Pick(r, []string{other[s.MT], "", "application/jose", strings.ToUpper(s.MT), s.MT + " ", " " + s.MT, s.MT + ";q=1", s.MT[:len(s.MT)-1]})
	case "format":
		s.GEFormat = other[s.MT]
		if r.Bool() {
			s.GEEcho = other[s.MT]
		}
	case "ctype":
		s.GECtype = Pick(r, []string{"application/vnd.cncf.notary.payload.v2+json", "application/json", "text/plain", strings.ToUpper(MtPayload), "x",
			MtPayload + "; charset=utf-8", MtPayload + " ", " " + MtPayload, "", MtPayload[:len(MtPayload)-5], MtPayload + "x", MtPayload + "+gzip"})
	case "chain":
		s.GEChain = "other"
	case "flip", "truncate", "garbage", "empty":
		s.GECorrupt = op
	case "error":
		s.GEErr = true
	case "reqtype":
		s.MT = Pick(r, []string{"application/foo", "", "application/jose+json ", "APPLICATION/COSE"})
		s.GEFormat = Pick(r, []string{MtJWS, MtCOSE})
	case "selfsigned":
		s.GESigner = "selfsigned"
	}
	return s
}

// family: raw-signature path
func scenRaw(r *Rng, tier string) *script {
	s := rawScript(r, "raw")
	op := Pick(r, []string{"honest", "honest", "dk-keyid", "dk-spec", "dk-error", "gs-keyid", "gs-error", "chain", "chain", "chain", "hash", "corrupt", "spec-mismatch", "reqtype", "blob", "selfsigned"})
	s.Ops = []string{op}
	switch op {
	case "dk-keyid":
		s.DKKeyID = otherKeyID(r, s.KeyID)
	case "dk-spec":
		s.DKSpec = Pick(r, []string{"RSA-1024", "EC-512", "ec-256", "EC-256 ", "", "RSA-2048\x00", "RSA_2048", "ED25519", " EC-256", "EC-256\n", "EC256", "EC-0256", "Ec-256", "EC-256/0"})
		s.GSSigner = "EC-256/0"
	case "dk-error":
		s.DKErr = true
	case "gs-keyid":
		s.GSKeyID = otherKeyID(r, s.KeyID)
	case "gs-error":
		s.GSErr = true
	case "chain":
		s.GSChain = Pick(r, []string{"other", "otherspec", "leafonly", "rootonly", "reversed", "empty", "garbage", "expired"})
		if s.GSChain == "expired" {
			s.DKSpec, s.GSSigner = "EC-256", "EC-256/0"
		}
	case "hash":
		s.GSHash = "other"
	case "corrupt":
		s.GSCorrupt = Pick(r, []string{"flip", "empty", "truncate"})
	case "spec-mismatch":
		// describe-key names one spec, the key that signs (and its chain) is of another
		for {
			o := Pick(r, c18Specs)
			if o != s.DKSpec {
				s.GSSigner = fmt.Sprintf("%s/%d", o, r.Intn(2))
				break
			}
		}
	case "reqtype":
		s.MT = Pick(r, []string{"application/foo", "", "application/jose+json ", "APPLICATION/COSE"})
	case "blob":
		s.Blob = true
	case "selfsigned":
		s.DKSpec, s.GSSigner, s.GSChain = "EC-256", "selfsigned", "selfsigned"
	}
	if op != "blob" && r.Chance(1, 8) {
		s.Blob = true
	}
	return s
}

// family: dispatch on metadata and capabilities, Sign and SignBlob
func scenDispatch(r *Rng, tier string) *script {
	var s *script
	switch r.Intn(3) {
	case 0:
		s = envScript(r, "dispatch")
	case 1:
		s = rawScript(r, "dispatch")
	default:
		s = envScript(r, "dispatch")
		s.GSErr = false
		s.GSKeyID, s.GSSigner, s.GSChain, s.GSHash = s.KeyID, s.DKSpec+"/0", "own", "asked"
	}
	s.Family = "dispatch"
	s.Blob = r.Bool()
	switch r.Intn(6) {
	case 0:
		s.MetaErr = true
	case 1:
		s.CapRaw, s.CapEnv = false, false
	case 2:
		s.CapRaw, s.CapEnv = true, true
	case 3:
		s.DKErr = r.Bool()
		if !s.DKErr {
			s.DKKeyID = otherKeyID(r, s.KeyID)
		}
	case 4:
		s.DKSpec = Pick(r, []string{"EC-512", "", "rsa-2048"})
	}
	return s
}

// ---------- corpus ----------

type corpusFile struct {
	Comment  string   `json:"comment"`
	Payloads []string `json:"payloads"`
}

func corpusScripts(dir string) []*script {
	var out []*script
	files, _ := filepath.Glob(filepath.Join(dir, "*.json"))
	sort.Strings(files)
	d := reqDesc{MT: poolMT[0], DG: poolDG[0], Size: 528, Ann: map[string]string{"k": "v"}}
	good := fmt.Sprintf(`"mediaType":%q,"digest":%q,"size":528,"annotations":{"k":"v"}`, d.MT, d.DG)
	for _, f := range files {
		b, err := os.ReadFile(f)
		if err != nil {
			continue
		}
		var cf corpusFile
		if json.Unmarshal(b, &cf) != nil {
			continue
		}
		for _, ptxt := range cf.Payloads {
			ptxt = strings.ReplaceAll(ptxt, "$GOOD", good)
			for _, mt := range []string{MtCOSE, MtJWS} {
				s := &script{Family: "corpus", MT: mt, KeyID: "key1", Desc: d, CapEnv: true, DKKeyID: "key1", DKSpec: "EC-256",
					GSErr: true, GEEcho: "=", GEFormat: mt, GESigner: "EC-256/0", GEChain: "own", GECtype: MtPayload, Payload: ptxt, Ops: []string{"corpus:" + filepath.Base(f)}}
				out = append(out, s)
			}
		}
	}
	// the zero descriptor with the payload null (accepted: nothing differs from the request)
	for _, mt := range []string{MtCOSE, MtJWS} {
		out = append(out, &script{Family: "corpus", MT: mt, KeyID: "key1", Desc: reqDesc{}, CapEnv: true, DKKeyID: "key1", DKSpec: "EC-256",
			GSErr: true, GEEcho: "=", GEFormat: mt, GESigner: "EC-256/0", GEChain: "own", GECtype: MtPayload, Payload: "null", Ops: []string{"corpus:zero-descriptor"}})
	}
	return out
}

func runC18(a *Args) error {
	rng := NewRng(a.Seed)
	now := time.Now()
	loadIdentities(now)
	if len(a.Extra) == 2 && a.Extra[0] == "conc-child" {
		return concChild(a, a.Extra[1], now)
	}
	prelude := "From NV Require Import Base C18_Json C18_Model.\nOpen Scope string_scope.\n"
	w := NewCaseWriter(a, "C18", prelude, "case", "run")
	w.Rule = "scripted plugin.SignPlugin with real keys for the six key specs (two keys each) driving the real signer.PluginSigner.Sign / SignBlob. Families: (corpus) hand-written payloads incl. \"TargetArtifact\", duplicated members, null; (envelope-payload) honest payload for a descriptor from a pool, changed by 0-2 of 23 edit operators (other digest/size/media type, literal forms of size, dropped/altered/added/duplicated/split/null annotations, unknown / differently spelled / optional / duplicated descriptor members, extra / differently spelled / duplicated payload members, unknown member hidden behind a duplicate, non-object payloads, non-JSON bytes), signed into a COSE envelope (notation-core-go, remote signer) or a hand-assembled JWS (payload bytes kept as they are), all six key specs; (envelope-level) wrong type echo, other real format, wrong content type, chain of another key, flipped / truncated / garbage / empty envelope, plugin error, unsupported requested type; (raw) describe-key and generate-signature answers: other key id, undecodable key spec, errors, chain of another key / another spec / leaf only / root only / reversed / empty / unparsable / expired / self-signed, wrong hash, flipped / empty / truncated signature, key of another spec than described; (dispatch) metadata error, no / both capabilities, Sign and SignBlob; (nil-answer) each of the four commands answering a nil response with a nil error, alone and in pairs, Sign and SignBlob, every capability set, over honest and over failing other answers, and honest / nil / honest histories on one signer. Every call is also checked for the shape of the returned triple (an error comes with nil signature and nil signer info; a signature with non-nil signer info). The payload tree printed for the model is re-read token by token from the payload bytes the envelope really carries. non-trivial = the plugin answered the signing call (generate-envelope or generate-signature) so the outcome was decided by the signer's checks; distinct = distinct scripts"
	w.Assumptions = []string{
		"the JSON lexer is not modelled: the payload tree is re-read from the envelope's payload bytes by encoding/json's token reader (duplicates and order kept); member names are ASCII, no \"-0\" literal",
		"facts about the plugin's bytes are asked from the dependencies in the same run: signature.ParseEnvelope / Envelope.Verify (notation-core-go), x509.ParseCertificate, notation-core-go x509.ValidateCodeSigningCertChain, signature.ExtractKeySpec, rsa.VerifyPSS / ecdsa.Verify over the bytes the signer asked to be signed",
		"the raw path assumes notation-core-go's Envelope.Sign fails exactly on an empty signature, an empty / invalid code-signing chain or a leaf key whose algorithm differs from the key spec's, and Verify exactly on a signature that does not verify under the leaf key (validated by the correspondence)",
		"error classes are recognised from stable message fragments of signer/plugin.go and the error types of notation-core-go",
		"facts of a plugin call that the signer never made are printed as false",
	}
	type fam struct {
		name  string
		base  int64
		quick int
		thor  int
		gen   func(r *Rng, tier string) *script
	}
	fams := []fam{
		{"envelope-payload", 10000, 2400, 60000, scenPayload},
		{"envelope-level", 200000, 400, 6000, scenEnvelope},
		{"raw", 300000, 900, 12000, scenRaw},
		{"dispatch", 400000, 240, 3000, scenDispatch},
	}
	var record func(id int64, s *script, term, key string, nt, ok bool, frame []string)
	emit := func(id int64, s *script, sess *session) {
		term, key, nt, ok, frame := runCase(id, s, now, sess)
		record(id, s, term, key, nt, ok, frame)
	}
	record = func(id int64, s *script, term, key string, nt, ok bool, frame []string) {
		for _, what := range frame {
			if strings.HasPrefix(what, "!") {
				w.ImplViolation(id, what[1:], s, "return:"+what[1:])
				w.Count("return-violation", what[1:])
				continue
			}
			w.ImplViolation(id, "library mutated caller-owned "+what, s, "frame:"+what)
			w.Count("frame-violation", what)
		}
		if !ok {
			w.Count("skipped", "unrepresentable-payload")
			return
		}
		w.Count("family", s.Family)
		w.Count("result", s.Result)
		w.Count("format", s.MT)
		for _, o := range s.Ops {
			w.Count("edit:"+s.Family, o)
		}
		if !s.GEErr && s.CapEnv && !s.CapRaw {
			w.Count("envelope-signer", s.GESigner)
		}
		if s.CapRaw && !s.GSErr {
			w.Count("raw-signer", s.GSSigner)
		}
		w.Add(id, term, s, key, nt)
	}
	for i, s := range corpusScripts(a.Corpus) {
		id := int64(i)
		if w.Want(id) {
			emit(id, s, nil)
		}
	}
	for _, f := range fams {
		n := f.quick
		if a.Tier == "thorough" {
			n = f.thor
		}
		for i := 0; i < n; i++ {
			id := f.base + int64(i)
			if !w.Want(id) {
				continue
			}
			emit(id, f.gen(rng.Fork(uint64(id)), a.Tier), nil)
		}
	}
	// systematic families (the same in both tiers)
	for _, sf := range []struct {
		base int64
		list []*script
	}{{500000, positionalScripts()}, {510000, matchedScripts()}, {520000, emptyAbsentScripts()}, {530000, rareSyntaxScripts()}, {540000, chainScripts()}, {560000, nilScripts()}} {
		for i, s := range sf.list {
			id := sf.base + int64(i)
			if w.Want(id) {
				emit(id, s, nil)
			}
		}
	}
	// histories: ONE signer, 2-5 calls, every step its own case (a replayed step re-runs the steps before it)
	nh := 140
	if a.Tier == "thorough" {
		nh = 2800
	}
	for h := 0; h < nh; h++ {
		base := int64(600000 + h*8)
		wanted := false
		for k := int64(0); k < 8; k++ {
			wanted = wanted || w.Want(base+k)
		}
		if !wanted {
			continue
		}
		steps := genHistory(rng.Fork(uint64(base)), h)
		sess := newSession("key1", now)
		for k, s := range steps {
			id := base + int64(k)
			if w.Want(id) {
				emit(id, s, sess)
			} else if a.Only >= 0 && id < a.Only {
				runCase(id, s, now, sess) // bring the signer into the state the replayed step saw
			}
		}
	}
	// nil-answer histories: ONE signer, honest / nil / honest / all nil / honest
	for h := 0; h < 32; h++ {
		base := int64(570000 + h*8)
		wanted := false
		for k := int64(0); k < 8; k++ {
			wanted = wanted || w.Want(base+k)
		}
		if !wanted {
			continue
		}
		steps := nilHistory(rng.Fork(uint64(base)), h)
		sess := newSession("key1", now)
		for k, s := range steps {
			id := base + int64(k)
			s.Hist = fmt.Sprintf("n%d/%d", h, k)
			if w.Want(id) {
				emit(id, s, sess)
			} else if a.Only >= 0 && id < a.Only {
				runCase(id, s, now, sess)
			}
		}
	}
	runConcFamily(a, w, record)
	return w.Close()
}
