package main

import (
	"context"
	"fmt"
	"time"

	"github.com/notaryproject/notation-go"
	"github.com/notaryproject/notation-go/signer"
	pl "github.com/notaryproject/notation-plugin-framework-go/plugin"
	"github.com/opencontainers/go-digest"
	ocispec "github.com/opencontainers/image-spec/specs-go/v1"
	. "vh/kit"
)

type fake struct {
	chain   Chain
	payload []byte
}

func (f *fake) GetMetadata(ctx context.Context, req *pl.GetMetadataRequest) (*pl.GetMetadataResponse, error) {
	return &pl.GetMetadataResponse{Name: "p", Version: "1.0.0", Capabilities: []pl.Capability{pl.CapabilityEnvelopeGenerator}}, nil
}
func (f *fake) DescribeKey(ctx context.Context, req *pl.DescribeKeyRequest) (*pl.DescribeKeyResponse, error) {
	return nil, fmt.Errorf("no")
}
func (f *fake) GenerateSignature(ctx context.Context, req *pl.GenerateSignatureRequest) (*pl.GenerateSignatureResponse, error) {
	return nil, fmt.Errorf("no")
}
func (f *fake) GenerateEnvelope(ctx context.Context, req *pl.GenerateEnvelopeRequest) (*pl.GenerateEnvelopeResponse, error) {
	p := f.payload
	if p == nil {
		p = req.Payload
	}
	fmt.Printf("   request payload: %s\n", req.Payload)
	env, err := SignEnvelope(EnvSpec{Format: req.SignatureEnvelopeType, Chain: f.chain, Payload: p})
	if err != nil {
		return nil, err
	}
	return &pl.GenerateEnvelopeResponse{SignatureEnvelope: env, SignatureEnvelopeType: req.SignatureEnvelopeType}, nil
}

func main() {
	now := time.Now()
	chain := NewChain("probe", 2, now.Add(-48*time.Hour), now.Add(48*time.Hour))
	desc := ocispec.Descriptor{MediaType: "application/vnd.oci.image.manifest.v1+json", Digest: digest.FromString("x"), Size: 528, Annotations: map[string]string{"k": "v"}}
	good := fmt.Sprintf(`{"mediaType":%q,"digest":%q,"size":528,"annotations":{"k":"v"}`, desc.MediaType, desc.Digest)
	for _, p := range []string{
		"",
		`{"targetArtifact":` + good + `}}`,
		`{"TargetArtifact":` + good + `}}`,
		`{"targetArtifact":` + good + `,"evil":"x"}}`,
		`{"targetArtifact":` + good + `,"evil":"x"},"targetArtifact":null}`,
		`{"targetArtifact":` + good + `,"evil":"x"},"targetArtifact":{}}`,
		`{"targetArtifact":` + good + `},"targetArtifact":7}`,
		`{"targetArtifact":` + good + `},"extra":1,"extra":2}`,
		`{"targetArtifact":` + good + `,"platform":{"zzz":1}}}`,
		`{"targetArtifact":` + good + `,"data":"!!"}}`,
		`{"targetArtifact":` + good + `,"data":[1,2,3]}}`,
		`{"targetArtifact":` + good + `,"data":[1,2,300]}}`,
		`{"targetArtifact":` + good + `,"annotations":null}}`,
		`{"targetArtifact":` + good + `,"annotations":{"k2":"v2"}}}`,
		`{"targetArtifact":` + good + `,"annotations":{"k":null}}}`,
		`null`,
	} {
		for _, mt := range []string{MtCOSE, MtJWS} {
			f := &fake{chain: chain}
			if p != "" {
				f.payload = []byte(p)
			}
			s, _ := signer.NewPluginSigner(f, "key1", nil)
			func() {
				defer func() {
					if r := recover(); r != nil {
						fmt.Println("   PANIC", r)
					}
				}()
				sig, _, err := s.Sign(context.Background(), desc, notation.SignerSignOptions{SignatureMediaType: mt})
				fmt.Printf("%s %s -> sig=%d err=%v\n", mt, p, len(sig), err)
			}()
		}
	}
}
