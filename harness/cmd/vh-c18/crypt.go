package main

// Keys, chains, raw signatures and envelopes of the scripted plugin.

import (
	"crypto"
	"crypto/ecdsa"
	"crypto/rand"
	"crypto/rsa"
	"crypto/sha256"
	"crypto/sha512"
	"crypto/x509"
	"encoding/base64"
	"encoding/json"
	"encoding/pem"
	"errors"
	"fmt"
	"math/big"
	"time"

	"github.com/notaryproject/notation-core-go/signature"
	. "vh/kit"
)

var c18Specs = []string{"RSA-2048", "RSA-3072", "RSA-4096", "EC-256", "EC-384", "EC-521"}

// identity = one key with its certificate chain [leaf, root].
type identity struct {
	spec    string // key spec name
	variant int
	key     crypto.Signer
	chain   Chain
	alg     signature.Algorithm // what notation-core-go derives from the leaf key
}

var identities = map[string]*identity{}
var expiredChain Chain // leaf no longer valid (key EC-256/0)
var selfSigned *identity
var deepChain Chain   // [leaf, intermediate, root] for key EC-256/0
var foreignCert *Cert // a valid CA certificate of another hierarchy

func loadIdentities(now time.Time) {
	nb, na := now.Add(-48*time.Hour), now.Add(48*time.Hour)
	root := Mint(CertSpec{Subject: Name("c18 root"), NotBefore: nb.Add(-365 * 24 * time.Hour), NotAfter: na, IsCA: true}, nil)
	for name, p := range c18KeyPEM {
		blk, _ := pem.Decode([]byte(p))
		k, err := x509.ParsePKCS8PrivateKey(blk.Bytes)
		if err != nil {
			panic(err)
		}
		key := k.(crypto.Signer)
		leaf := Mint(CertSpec{Subject: Name("c18 leaf " + name), NotBefore: nb, NotAfter: na, Leaf: true, Key: key}, root)
		id := &identity{key: key, chain: Chain{leaf, root}}
		fmt.Sscanf(name[len(name)-1:], "%d", &id.variant)
		id.spec = name[:len(name)-2]
		ks, err := signature.ExtractKeySpec(leaf.C)
		if err != nil {
			panic(err)
		}
		id.alg = ks.SignatureAlgorithm()
		identities[name] = id
	}
	k0 := identities["EC-256/0"]
	old := Mint(CertSpec{Subject: Name("c18 expired leaf"), NotBefore: nb.Add(-300 * 24 * time.Hour), NotAfter: nb.Add(-200 * 24 * time.Hour), Leaf: true, Key: k0.key}, root)
	expiredChain = Chain{old, root}
	inter := Mint(CertSpec{Subject: Name("c18 intermediate"), NotBefore: nb, NotAfter: na, IsCA: true}, root)
	dleaf := Mint(CertSpec{Subject: Name("c18 deep leaf"), NotBefore: nb, NotAfter: na, Leaf: true, Key: k0.key}, inter)
	deepChain = Chain{dleaf, inter, root}
	foreignCert = Mint(CertSpec{Subject: Name("c18 foreign root"), NotBefore: nb, NotAfter: na, IsCA: true}, nil)
	ss := Mint(CertSpec{Subject: Name("c18 self-signed leaf"), NotBefore: nb, NotAfter: na, Leaf: true, Key: identities["EC-256/1"].key}, nil)
	selfSigned = &identity{spec: "EC-256", variant: 1, key: identities["EC-256/1"].key, chain: Chain{ss}, alg: identities["EC-256/1"].alg}
}

func ident(spec string, variant int) *identity {
	return identities[fmt.Sprintf("%s/%d", spec, variant)]
}

func algHash(a signature.Algorithm) crypto.Hash { return a.Hash() }

func algName(a signature.Algorithm) string {
	switch a {
	case signature.AlgorithmPS256:
		return "PS256"
	case signature.AlgorithmPS384:
		return "PS384"
	case signature.AlgorithmPS512:
		return "PS512"
	case signature.AlgorithmES256:
		return "ES256"
	case signature.AlgorithmES384:
		return "ES384"
	case signature.AlgorithmES512:
		return "ES512"
	}
	return ""
}

func coqAlgOpt(a signature.Algorithm) string {
	if n := algName(a); n != "" {
		return "(Some " + n + ")"
	}
	return "None"
}

func hashSum(h crypto.Hash, b []byte) []byte {
	switch h {
	case crypto.SHA256:
		x := sha256.Sum256(b)
		return x[:]
	case crypto.SHA384:
		x := sha512.Sum384(b)
		return x[:]
	case crypto.SHA512:
		x := sha512.Sum512(b)
		return x[:]
	}
	panic("hash")
}

// signRaw signs tbs with key using hash h, in the raw formats JWS and COSE
// share: RSASSA-PSS (salt = hash length) or ECDSA r||s of fixed width.
func signRaw(key crypto.Signer, h crypto.Hash, tbs []byte) []byte {
	d := hashSum(h, tbs)
	switch k := key.(type) {
	case *rsa.PrivateKey:
		sig, err := rsa.SignPSS(rand.Reader, k, h, d, &rsa.PSSOptions{SaltLength: rsa.PSSSaltLengthEqualsHash})
		if err != nil {
			panic(err)
		}
		return sig
	case *ecdsa.PrivateKey:
		r, s, err := ecdsa.Sign(rand.Reader, k, d)
		if err != nil {
			panic(err)
		}
		n := (k.Curve.Params().BitSize + 7) / 8
		out := make([]byte, 2*n)
		r.FillBytes(out[:n])
		s.FillBytes(out[n:])
		return out
	}
	panic("key type")
}

// verifyRaw is the ground truth for "the raw signature verifies over tbs under
// this public key with algorithm a", asked from crypto/rsa and crypto/ecdsa.
func verifyRaw(pub crypto.PublicKey, a signature.Algorithm, tbs, sig []byte) bool {
	h := a.Hash()
	if h == 0 {
		return false
	}
	d := hashSum(h, tbs)
	switch k := pub.(type) {
	case *rsa.PublicKey:
		return rsa.VerifyPSS(k, h, d, sig, &rsa.PSSOptions{SaltLength: rsa.PSSSaltLengthAuto}) == nil
	case *ecdsa.PublicKey:
		n := (k.Curve.Params().BitSize + 7) / 8
		if len(sig) != 2*n {
			return false
		}
		return ecdsa.Verify(k, d, new(big.Int).SetBytes(sig[:n]), new(big.Int).SetBytes(sig[n:]))
	}
	return false
}

// ---------- envelopes built by the plugin ----------

// remote is a signature.Signer that signs with one key and presents a chain
// of its choice (notation-core-go takes this path for non-local signers).
type remote struct {
	key   crypto.Signer
	ks    signature.KeySpec
	certs []*x509.Certificate
}

func (r *remote) Sign(payload []byte) ([]byte, []*x509.Certificate, error) {
	return signRaw(r.key, r.ks.SignatureAlgorithm().Hash(), payload), r.certs, nil
}
func (r *remote) KeySpec() (signature.KeySpec, error) { return r.ks, nil }

type jwsProt struct {
	Alg    string   `json:"alg"`
	Crit   []string `json:"crit"`
	Cty    string   `json:"cty"`
	Scheme string   `json:"io.cncf.notary.signingScheme"`
	Time   string   `json:"io.cncf.notary.signingTime"`
}
type jwsHdr struct {
	X5c   [][]byte `json:"x5c"`
	Agent string   `json:"io.cncf.notary.signingAgent,omitempty"`
}
type jwsEnv struct {
	Payload   string `json:"payload"`
	Protected string `json:"protected"`
	Header    jwsHdr `json:"header"`
	Signature string `json:"signature"`
}

// buildEnvelope signs payload (raw bytes, kept as they are) with signer's key
// and embeds chain. JWS is assembled by hand (notation-core-go's JWS signer
// would re-serialise the payload through a map); COSE goes through
// notation-core-go with a remote signer.
func buildEnvelope(format string, signer *identity, chain Chain, payload []byte, ctype string, now time.Time) ([]byte, error) {
	switch format {
	case MtJWS:
		prot, _ := json.Marshal(jwsProt{Alg: algName(signer.alg), Crit: []string{"io.cncf.notary.signingScheme"}, Cty: ctype,
			Scheme: "notary.x509", Time: now.Add(-time.Minute).UTC().Format(time.RFC3339)})
		p64 := base64.RawURLEncoding.EncodeToString(prot)
		pl64 := base64.RawURLEncoding.EncodeToString(payload)
		sig := signRaw(signer.key, signer.alg.Hash(), []byte(p64+"."+pl64))
		var raw [][]byte
		for _, c := range chain {
			raw = append(raw, c.C.Raw)
		}
		return json.Marshal(jwsEnv{Payload: pl64, Protected: p64, Header: jwsHdr{X5c: raw, Agent: "vh-c18"}, Signature: base64.RawURLEncoding.EncodeToString(sig)})
	case MtCOSE:
		if len(payload) == 0 {
			return nil, errors.New("empty payload")
		}
		ks, err := signature.ExtractKeySpec(signer.chain[0].C)
		if err != nil {
			return nil, err
		}
		env, err := signature.NewEnvelope(MtCOSE)
		if err != nil {
			return nil, err
		}
		return env.Sign(&signature.SignRequest{
			Payload:       signature.Payload{ContentType: ctype, Content: payload},
			Signer:        &remote{key: signer.key, ks: ks, certs: chain.Certs()},
			SigningTime:   now.Add(-time.Minute),
			SigningScheme: signature.SigningSchemeX509,
			SigningAgent:  "vh-c18",
		})
	}
	return nil, fmt.Errorf("format %q", format)
}
