package main

// Generator of adversarial payload trees: the honest payload for the
// requested descriptor, changed by 0-2 edit operators. Every operator is the
// violation of one rule the signer has to enforce (or a harmless variation
// that must still be accepted).

import (
	"fmt"
	"sort"

	. "vh/kit"
)

type reqDesc struct {
	MT   string            `json:"mediaType"`
	DG   string            `json:"digest"`
	Size int64             `json:"size"`
	Ann  map[string]string `json:"annotations,omitempty"`
}

var (
	poolMT = []string{"application/vnd.oci.image.manifest.v1+json", "application/vnd.docker.distribution.manifest.v2+json", "application/octet-stream"}
	poolDG = []string{
		"sha256:2d711642b726b04401627ca9fbac32f5c8530fb1903cc4db02258717921a4881",
		"sha256:9f86d081884c7d659a2feaa0c55ad015a3bf4f1b2b0b822cd15d6c15b0f00a08",
		"sha384:38b060a751ac96384cd9327eb1b1e36a21fdb71114be07434c0cc7bf63f6e1da274edebfe76f65fbd51ad2f14898b95b",
	}
	poolSize = []int64{528, 0, 1 << 40, 7}
	poolAnn  = []map[string]string{
		nil, nil,
		{"k": "v"},
		{"io.x/a": "1", "io.x/b": "two"},
		{"k": ""},
		{"k": "v", "K": "w"},
	}
)

func genDesc(r *Rng) reqDesc {
	d := reqDesc{MT: Pick(r, poolMT), DG: Pick(r, poolDG), Size: Pick(r, poolSize)}
	if a := Pick(r, poolAnn); a != nil {
		d.Ann = map[string]string{}
		for k, v := range a {
			d.Ann[k] = v
		}
	}
	return d
}

func sortedKeys(m map[string]string) []string {
	ks := make([]string, 0, len(m))
	for k := range m {
		ks = append(ks, k)
	}
	sort.Strings(ks)
	return ks
}

func annNode(a map[string]string) *jnode {
	n := jobj()
	for _, k := range sortedKeys(a) {
		n.mem = append(n.mem, m(k, jstr(a[k])))
	}
	return n
}

func descNode(d reqDesc) *jnode {
	n := jobj(m("mediaType", jstr(d.MT)), m("digest", jstr(d.DG)), m("size", jnum(fmt.Sprint(d.Size))))
	if len(d.Ann) > 0 {
		n.mem = append(n.mem, m("annotations", annNode(d.Ann)))
	}
	return n
}

func honestPayload(d reqDesc) *jnode { return jobj(m("targetArtifact", descNode(d))) }

func otherOf(r *Rng, pool []string, cur string) string {
	for {
		x := Pick(r, pool)
		if x != cur {
			return x
		}
	}
}

type editOp struct {
	name string
	f    func(r *Rng, root *jnode, d reqDesc) *jnode // returns the new root
}

// ta returns the first exactly named targetArtifact object of root, or nil.
func ta(root *jnode) *jnode {
	if root == nil || root.k != jObj {
		return nil
	}
	for _, x := range root.mem {
		if x.key == "targetArtifact" && x.val.k == jObj {
			return x.val
		}
	}
	return nil
}

func setMember(o *jnode, key string, v *jnode) {
	if i := o.find(key); i >= 0 {
		o.mem[i].val = v
	} else {
		o.mem = append(o.mem, m(key, v))
	}
}

var junkValues = func(r *Rng) *jnode {
	return Pick(r, []*jnode{jnum("1"), jstr("s"), jnull(), jobj(), jarr(), jbool(true), jnum("1.5")}).clone()
}

var editOps = []editOp{
	// ---- descriptor content ----
	{"digest-other", func(r *Rng, root *jnode, d reqDesc) *jnode {
		if t := ta(root); t != nil {
			setMember(t, "digest", jstr(otherOf(r, poolDG, d.DG)))
		}
		return root
	}},
	{"size-other", func(r *Rng, root *jnode, d reqDesc) *jnode {
		if t := ta(root); t != nil {
			setMember(t, "size", jnum(fmt.Sprint(d.Size+int64(1+r.Intn(3)))))
		}
		return root
	}},
	{"mediatype-other", func(r *Rng, root *jnode, d reqDesc) *jnode {
		if t := ta(root); t != nil {
			setMember(t, "mediaType", jstr(otherOf(r, poolMT, d.MT)))
		}
		return root
	}},
	{"size-literal", func(r *Rng, root *jnode, d reqDesc) *jnode {
		if t := ta(root); t != nil {
			v := Pick(r, []*jnode{jstr(fmt.Sprint(d.Size)), jnum(fmt.Sprint(d.Size) + ".0"), jnum(fmt.Sprint(d.Size) + "e0"),
				jnum("99999999999999999999"), jnum("-1"), jnull(), jbool(true), jnum("9223372036854775807"), jnum("-9223372036854775809")})
			setMember(t, "size", v.clone())
		}
		return root
	}},
	{"string-field-type", func(r *Rng, root *jnode, d reqDesc) *jnode {
		if t := ta(root); t != nil {
			setMember(t, Pick(r, []string{"mediaType", "digest"}), Pick(r, []*jnode{jnum("7"), jnull(), jarr(), jobj(), jbool(false)}).clone())
		}
		return root
	}},
	{"drop-field", func(r *Rng, root *jnode, d reqDesc) *jnode {
		if t := ta(root); t != nil && len(t.mem) > 0 {
			t.remove(r.Intn(len(t.mem)))
		}
		return root
	}},
	// ---- annotations ----
	{"ann-drop", func(r *Rng, root *jnode, d reqDesc) *jnode {
		if t := ta(root); t != nil {
			if i := t.find("annotations"); i >= 0 && t.mem[i].val.k == jObj && len(t.mem[i].val.mem) > 0 {
				a := t.mem[i].val
				a.remove(r.Intn(len(a.mem)))
				if len(a.mem) == 0 && r.Bool() {
					t.remove(i)
				}
			}
		}
		return root
	}},
	{"ann-alter", func(r *Rng, root *jnode, d reqDesc) *jnode {
		if t := ta(root); t != nil {
			if i := t.find("annotations"); i >= 0 && t.mem[i].val.k == jObj && len(t.mem[i].val.mem) > 0 {
				a := t.mem[i].val
				j := r.Intn(len(a.mem))
				a.mem[j].val = Pick(r, []*jnode{jstr(a.mem[j].val.s + "x"), jstr(""), jnull(), jnum("1"), jstr("V")}).clone()
			}
		}
		return root
	}},
	{"ann-add", func(r *Rng, root *jnode, d reqDesc) *jnode {
		if t := ta(root); t != nil {
			i := t.find("annotations")
			if i < 0 {
				t.mem = append(t.mem, m("annotations", jobj()))
				i = len(t.mem) - 1
			}
			if t.mem[i].val.k == jObj {
				a := t.mem[i].val
				a.insert(r.Intn(len(a.mem)+1), m(Pick(r, []string{"added", "K", "k2", "io.x/c"}), Pick(r, []*jnode{jstr("new"), jnull(), jstr("")}).clone()))
			}
		}
		return root
	}},
	{"ann-dupkey", func(r *Rng, root *jnode, d reqDesc) *jnode {
		// the same annotation key twice: the later value is the one that counts
		if t := ta(root); t != nil {
			if i := t.find("annotations"); i >= 0 && t.mem[i].val.k == jObj && len(t.mem[i].val.mem) > 0 {
				a := t.mem[i].val
				j := r.Intn(len(a.mem))
				wrong := m(a.mem[j].key, jstr("wrong"))
				if r.Bool() {
					a.insert(j, wrong) // wrong first, right last
				} else {
					a.insert(len(a.mem), wrong) // right first, wrong last
				}
			}
		}
		return root
	}},
	{"ann-split", func(r *Rng, root *jnode, d reqDesc) *jnode {
		// annotations spread over two members (they accumulate), or reset by a null in between
		if t := ta(root); t != nil {
			if i := t.find("annotations"); i >= 0 && t.mem[i].val.k == jObj {
				a := t.mem[i].val
				k := 0
				if len(a.mem) > 0 {
					k = r.Intn(len(a.mem) + 1)
				}
				first, second := jobj(a.mem[:k]...), jobj(a.mem[k:]...)
				t.mem[i].val = first.clone()
				switch r.Intn(4) {
				case 0:
					t.insert(len(t.mem), m("annotations", second.clone()))
				case 1:
					t.insert(len(t.mem), m("Annotations", second.clone()))
				case 2:
					t.insert(i+1, m("annotations", jnull()))
					t.insert(len(t.mem), m("annotations", second.clone()))
				case 3:
					t.mem[i].val = a.clone()
					t.insert(r.Intn(len(t.mem)+1), m("annotations", jnull()))
				}
			}
		}
		return root
	}},
	{"ann-type", func(r *Rng, root *jnode, d reqDesc) *jnode {
		if t := ta(root); t != nil {
			setMember(t, "annotations", Pick(r, []*jnode{jnull(), jarr(), jstr("x"), jnum("0"), jobj()}).clone())
		}
		return root
	}},
	// ---- members of the descriptor ----
	{"desc-unknown-member", func(r *Rng, root *jnode, d reqDesc) *jnode {
		if t := ta(root); t != nil {
			t.insert(r.Intn(len(t.mem)+1), m(Pick(r, []string{"evil", "x", "", "media_type", "urls ", "subject"}), junkValues(r)))
		}
		return root
	}},
	{"desc-case-variant", func(r *Rng, root *jnode, d reqDesc) *jnode {
		// a differently spelled descriptor member: the struct decoding takes it, the scan must refuse it
		if t := ta(root); t != nil {
			type cv struct {
				name string
				same *jnode
				diff *jnode
			}
			c := Pick(r, []cv{
				{"MediaType", jstr(d.MT), jstr(otherOf(r, poolMT, d.MT))},
				{"mediatype", jstr(d.MT), jstr(otherOf(r, poolMT, d.MT))},
				{"DIGEST", jstr(d.DG), jstr(otherOf(r, poolDG, d.DG))},
				{"Size", jnum(fmt.Sprint(d.Size)), jnum(fmt.Sprint(d.Size + 1))},
				{"Annotations", annNode(d.Ann), jobj(m("k", jstr("other")))},
				{"ArtifactType", jstr("t"), jnum("1")},
				{"URLS", jarr(jstr("u")), jstr("u")},
			})
			v := c.same
			if r.Bool() {
				v = c.diff
			}
			switch r.Intn(3) {
			case 0: // in addition, after
				t.insert(len(t.mem), m(c.name, v.clone()))
			case 1: // in addition, before
				t.insert(0, m(c.name, v.clone()))
			case 2: // instead of the exactly spelled member
				for i := range t.mem {
					if len(t.mem[i].key) == len(c.name) && foldASCII(t.mem[i].key) == foldASCII(c.name) {
						t.mem[i].key = c.name
						if r.Bool() {
							t.mem[i].val = v.clone()
						}
					}
				}
			}
		}
		return root
	}},
	{"desc-optional-member", func(r *Rng, root *jnode, d reqDesc) *jnode {
		// the four known members the signer does not compare: accepted when well typed
		if t := ta(root); t != nil {
			type ov struct {
				name string
				vals []*jnode
			}
			c := Pick(r, []ov{
				{"urls", []*jnode{jarr(jstr("https://a")), jarr(), jnull(), jarr(jstr("a"), jnull()), jarr(jnum("1")), jstr("x"), jobj()}},
				{"data", []*jnode{jstr("aGVsbG8="), jstr(""), jstr("aGVsbG8h"), jstr("aGk="), jstr("aA=="), jnull(), jarr(jnum("1"), jnum("255")),
					jstr("!!"), jstr("abc"), jstr("a==="), jstr("ab=c"), jstr("aGk=aGk="), jarr(jnum("300")), jarr(jnum("-1")), jarr(jstr("a")), jarr(jnum("1.5")), jnum("7"), jobj()}},
				{"platform", []*jnode{jobj(m("architecture", jstr("amd64")), m("os", jstr("linux"))), jnull(), jobj(),
					jobj(m("zzz", jnum("1"))), jobj(m("OS", jstr("linux")), m("os.features", jarr(jstr("f")))),
					jobj(m("os", jnum("1"))), jobj(m("os.features", jarr(jstr("a"), jnum("1")))), jobj(m("os.features", jstr("a"))),
					jobj(m("variant", jnull()), m("os.version", jstr("1"))), jarr(), jstr("linux"), jobj(m("Variant", jbool(true)))}},
				{"artifactType", []*jnode{jstr("application/vnd.x"), jnull(), jstr(""), jnum("3"), jarr()}},
			})
			t.insert(r.Intn(len(t.mem)+1), m(c.name, Pick(r, c.vals).clone()))
		}
		return root
	}},
	{"desc-dup-field", func(r *Rng, root *jnode, d reqDesc) *jnode {
		// a compared member twice: the later one counts
		if t := ta(root); t != nil {
			var wrong jmem
			switch r.Intn(3) {
			case 0:
				wrong = m("digest", jstr(otherOf(r, poolDG, d.DG)))
			case 1:
				wrong = m("size", jnum(fmt.Sprint(d.Size+1)))
			case 2:
				wrong = m("mediaType", jstr(otherOf(r, poolMT, d.MT)))
			}
			if r.Bool() {
				t.insert(0, wrong)
			} else {
				t.insert(len(t.mem), wrong)
			}
		}
		return root
	}},
	{"desc-reorder", func(r *Rng, root *jnode, d reqDesc) *jnode {
		if t := ta(root); t != nil {
			Shuffle(r, t.mem)
		}
		return root
	}},
	{"desc-replace", func(r *Rng, root *jnode, d reqDesc) *jnode {
		if root.k == jObj {
			if i := root.find("targetArtifact"); i >= 0 {
				root.mem[i].val = Pick(r, []*jnode{jnull(), jarr(), jstr("x"), jnum("7"), jobj(), jbool(true)}).clone()
			}
		}
		return root
	}},
	// ---- members of the payload ----
	{"payload-extra-member", func(r *Rng, root *jnode, d reqDesc) *jnode {
		if root.k == jObj {
			v := junkValues(r)
			if r.Chance(1, 3) {
				v = descNode(d)
			}
			root.insert(r.Intn(len(root.mem)+1), m(Pick(r, []string{"extra", "x", "", "target_artifact", "subject", "targetArtifact "}), v))
		}
		return root
	}},
	{"payload-case-variant", func(r *Rng, root *jnode, d reqDesc) *jnode {
		if root.k == jObj {
			name := Pick(r, []string{"TargetArtifact", "targetartifact", "TARGETARTIFACT", "targetARTIFACT"})
			switch r.Intn(3) {
			case 0: // renamed
				if i := root.find("targetArtifact"); i >= 0 {
					root.mem[i].key = name
				}
			case 1: // added with the same descriptor
				root.insert(r.Intn(len(root.mem)+1), m(name, descNode(d)))
			case 2: // added with something else
				root.insert(r.Intn(len(root.mem)+1), m(name, Pick(r, []*jnode{jnull(), jobj(), jobj(m("digest", jstr(otherOf(r, poolDG, d.DG))))}).clone()))
			}
		}
		return root
	}},
	{"payload-dup-member", func(r *Rng, root *jnode, d reqDesc) *jnode {
		// a second "targetArtifact": struct decoding merges, a map would keep the last
		if root.k == jObj {
			evil := descNode(d)
			evil.insert(r.Intn(len(evil.mem)+1), m("evil", jstr("x")))
			other := descNode(d)
			setMember(other, "digest", jstr(otherOf(r, poolDG, d.DG)))
			v := Pick(r, []*jnode{jnull(), jobj(), descNode(d), evil, other, jobj(m("size", jnum(fmt.Sprint(d.Size)))),
				jobj(m("digest", jstr(otherOf(r, poolDG, d.DG)))), jobj(m("evil", jnum("1"))), jnum("7"), jstr("s"), jarr()}).clone()
			if r.Bool() {
				root.insert(len(root.mem), m("targetArtifact", v))
			} else {
				root.insert(0, m("targetArtifact", v))
			}
		}
		return root
	}},
	{"payload-hidden-member", func(r *Rng, root *jnode, d reqDesc) *jnode {
		// the class fixed by 39b2dda: an unknown member in the first targetArtifact, hidden
		// from a last-wins map by a trailing null / {} / clean duplicate
		if t := ta(root); t != nil {
			t.insert(r.Intn(len(t.mem)+1), m(Pick(r, []string{"evil", "MediaType", "x"}), jstr(d.MT)))
			root.insert(len(root.mem), m("targetArtifact", Pick(r, []*jnode{jnull(), jobj(), descNode(d)}).clone()))
		}
		return root
	}},
	{"payload-top", func(r *Rng, root *jnode, d reqDesc) *jnode {
		return Pick(r, []*jnode{jnull(), jarr(), jstr("x"), jnum("7"), jbool(true), jobj(), jarr(honestPayload(d))}).clone()
	}},
}

func foldASCII(s string) string {
	b := []byte(s)
	for i, c := range b {
		if c >= 'a' && c <= 'z' {
			b[i] = c - 32
		}
	}
	return string(b)
}

// genPayload returns the tree and the names of the operators applied.
func genPayload(r *Rng, d reqDesc, nEdits int) (*jnode, []string) {
	root := honestPayload(d)
	var ops []string
	for i := 0; i < nEdits; i++ {
		op := Pick(r, editOps)
		root = op.f(r, root, d)
		ops = append(ops, op.name)
	}
	return root, ops
}
