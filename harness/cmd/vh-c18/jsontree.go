package main

// JSON trees with ordered, possibly duplicated members: the generator builds
// them, the serialiser writes them into the payload of an envelope, and the
// reader re-reads the payload bytes an envelope REALLY carries (token by
// token, so duplicates and order are kept) into the tree that is printed as a
// C18_Json term for the model.

import (
	"bytes"
	"encoding/json"
	"math/big"
	"regexp"

	. "vh/kit"
)

type jkind int

const (
	jNull jkind = iota
	jBool
	jNum
	jStr
	jArr
	jObj
)

type jmem struct {
	key string
	val *jnode
}

type jnode struct {
	k   jkind
	b   bool
	num string // number literal text
	s   string
	arr []*jnode
	mem []jmem
}

func jnull() *jnode           { return &jnode{k: jNull} }
func jbool(b bool) *jnode     { return &jnode{k: jBool, b: b} }
func jnum(lit string) *jnode  { return &jnode{k: jNum, num: lit} }
func jstr(s string) *jnode    { return &jnode{k: jStr, s: s} }
func jarr(x ...*jnode) *jnode { return &jnode{k: jArr, arr: x} }
func jobj(m ...jmem) *jnode   { return &jnode{k: jObj, mem: m} }
func m(k string, v *jnode) jmem {
	return jmem{k, v}
}

func (n *jnode) clone() *jnode {
	c := *n
	c.arr = nil
	c.mem = nil
	for _, x := range n.arr {
		c.arr = append(c.arr, x.clone())
	}
	for _, x := range n.mem {
		c.mem = append(c.mem, jmem{x.key, x.val.clone()})
	}
	return &c
}

func (n *jnode) write(b *bytes.Buffer) {
	switch n.k {
	case jNull:
		b.WriteString("null")
	case jBool:
		if n.b {
			b.WriteString("true")
		} else {
			b.WriteString("false")
		}
	case jNum:
		b.WriteString(n.num)
	case jStr:
		q, _ := json.Marshal(n.s)
		b.Write(q)
	case jArr:
		b.WriteByte('[')
		for i, x := range n.arr {
			if i > 0 {
				b.WriteByte(',')
			}
			x.write(b)
		}
		b.WriteByte(']')
	case jObj:
		b.WriteByte('{')
		for i, x := range n.mem {
			if i > 0 {
				b.WriteByte(',')
			}
			q, _ := json.Marshal(x.key)
			b.Write(q)
			b.WriteByte(':')
			x.val.write(b)
		}
		b.WriteByte('}')
	}
}

func (n *jnode) bytes() []byte {
	var b bytes.Buffer
	n.write(&b)
	return b.Bytes()
}

// find returns the index of the first member with that exact name, or -1.
func (n *jnode) find(key string) int {
	if n.k != jObj {
		return -1
	}
	for i, x := range n.mem {
		if x.key == key {
			return i
		}
	}
	return -1
}

func (n *jnode) insert(at int, mm jmem) {
	if at < 0 || at > len(n.mem) {
		at = len(n.mem)
	}
	n.mem = append(n.mem, jmem{})
	copy(n.mem[at+1:], n.mem[at:])
	n.mem[at] = mm
}

func (n *jnode) remove(at int) {
	n.mem = append(n.mem[:at:at], n.mem[at+1:]...)
}

// ---------- reading the bytes back ----------

var intLit = regexp.MustCompile(`^-?(0|[1-9][0-9]*)$`)

// readTree parses b. valid = b is one JSON value (encoding/json's own lexer
// decides); representable = the tree is inside what C18_Json models (no "-0"
// literal: the model keeps integers as values).
func readTree(b []byte) (tree *jnode, valid bool, representable bool) {
	if !json.Valid(b) {
		return nil, false, true
	}
	dec := json.NewDecoder(bytes.NewReader(b))
	dec.UseNumber()
	rep := true
	var rd func() *jnode
	rd = func() *jnode {
		t, err := dec.Token()
		if err != nil {
			panic(err)
		}
		switch v := t.(type) {
		case nil:
			return jnull()
		case bool:
			return jbool(v)
		case json.Number:
			if string(v) == "-0" {
				rep = false
			}
			return jnum(string(v))
		case string:
			return jstr(v)
		case json.Delim:
			switch v {
			case '[':
				n := jarr()
				for dec.More() {
					n.arr = append(n.arr, rd())
				}
				dec.Token()
				return n
			case '{':
				n := jobj()
				for dec.More() {
					kt, err := dec.Token()
					if err != nil {
						panic(err)
					}
					key := kt.(string)
					n.mem = append(n.mem, jmem{key, rd()})
				}
				dec.Token()
				return n
			}
		}
		panic("readTree: unexpected token")
	}
	tree = rd()
	return tree, true, rep
}

// ---------- Gallina ----------

func (n *jnode) coq() string {
	switch n.k {
	case jNull:
		return "JNull"
	case jBool:
		return "(JBool " + CBool(n.b) + ")"
	case jNum:
		if intLit.MatchString(n.num) {
			z, _ := new(big.Int).SetString(n.num, 10)
			if z.Sign() < 0 {
				return "(JInt (" + z.String() + ")%Z)"
			}
			return "(JInt " + z.String() + "%Z)"
		}
		return "JFrac"
	case jStr:
		return "(JStr " + CStr(n.s) + ")"
	case jArr:
		items := make([]string, len(n.arr))
		for i, x := range n.arr {
			items[i] = x.coq()
		}
		return "(JArr " + CList(items) + ")"
	case jObj:
		items := make([]string, len(n.mem))
		for i, x := range n.mem {
			items[i] = CPair(CStr(x.key), x.val.coq())
		}
		return "(JObj " + CList(items) + ")"
	}
	panic("coq: kind")
}

var knownDescNames = map[string]bool{"mediaType": true, "digest": true, "size": true, "urls": true,
	"annotations": true, "data": true, "platform": true, "artifactType": true}

// canonicalPayload: exactly {"targetArtifact":{distinct known members}}.
func canonicalPayload(t *jnode) bool {
	if t == nil || t.k != jObj || len(t.mem) != 1 || t.mem[0].key != "targetArtifact" || t.mem[0].val.k != jObj {
		return false
	}
	seen := map[string]bool{}
	for _, x := range t.mem[0].val.mem {
		if !knownDescNames[x.key] || seen[x.key] {
			return false
		}
		seen[x.key] = true
	}
	return true
}
