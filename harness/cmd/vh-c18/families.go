package main

// Systematic families (hardening round): the odd element at EVERY position of
// every list-shaped input, empty vs absent vs nil, which duplicate is the good
// one, rarely used legal JSON syntax, certificate-chain positions, and
// histories on ONE long-lived PluginSigner.

import (
	"fmt"
	"strings"

	. "vh/kit"
)

var sysDesc = reqDesc{MT: poolMT[0], DG: poolDG[0], Size: 528, Ann: map[string]string{"a": "1", "b": "2", "c": "3"}}

// sysEnv: an envelope-path script over payload text, deterministic.
func sysEnv(family string, n int, d reqDesc, payload string, op string) *script {
	mt := []string{MtCOSE, MtJWS}[n%2]
	spec := c18Specs[(n/2)%len(c18Specs)]
	return &script{Family: family, MT: mt, KeyID: "key1", Desc: d, CapEnv: true, CapOrder: n % 4, DKKeyID: "key1", DKSpec: spec,
		GSErr: true, GEEcho: "=", GEFormat: mt, GESigner: fmt.Sprintf("%s/%d", spec, (n/12)%2), GEChain: "own", GECtype: MtPayload,
		Payload: payload, Ops: []string{op}}
}

// both formats for one payload
func sysBoth(out *[]*script, family string, d reqDesc, payload *jnode, op string) {
	for k := 0; k < 2; k++ {
		*out = append(*out, sysEnv(family, len(*out), d, string(payload.bytes()), op))
	}
}

const longS = "ſ" // folds to S: "ſize" selects the field size in Go's struct decoding

// positionalScripts: every odd member at every position of the descriptor
// members, the payload members and the annotation members.
func positionalScripts() []*script {
	var out []*script
	d := sysDesc
	other := poolDG[1]
	type odd struct {
		name string
		mem  jmem
	}
	descOdds := []odd{
		{"unknown", m("evil", jstr("x"))},
		{"unknown-empty-name", m("", jnull())},
		{"case-variant-same", m("Digest", jstr(d.DG))},
		{"case-variant-other", m("Digest", jstr(other))},
		{"dup-digest-other", m("digest", jstr(other))},
		{"dup-digest-same", m("digest", jstr(d.DG))},
		{"dup-size-other", m("size", jnum("529"))},
		{"dup-mediatype-null", m("mediaType", jnull())},
		{"optional-urls-ok", m("urls", jarr(jstr("u")))},
		{"optional-urls-illtyped", m("urls", jstr("u"))},
		{"optional-data-badbase64", m("data", jstr("!!"))},
		{"longs-size-same", m(longS+"ize", jnum("528"))},
		{"longs-size-other", m(longS+"ize", jnum("1"))},
		{"dup-annotations-null", m("annotations", jnull())},
		{"dup-annotations-empty", m("annotations", jobj())},
		{"dup-annotations-alter", m("annotations", jobj(m("b", jstr("X"))))},
	}
	for _, o := range descOdds {
		for pos := 0; pos <= 4; pos++ {
			root := honestPayload(d)
			ta(root).insert(pos, jmem{o.mem.key, o.mem.val.clone()})
			sysBoth(&out, "positional", d, root, fmt.Sprintf("desc:%s@%d", o.name, pos))
		}
	}
	// payload level: one extra member before / after targetArtifact
	for _, o := range []odd{{"extra", m("x", jnum("1"))}, {"extra-desc", m("subject", descNode(d))}, {"case-variant", m("TargetArtifact", descNode(d))},
		{"case-variant-null", m("targetartifact", jnull())}, {"kelvin", m("Key", jnull())}} {
		for pos := 0; pos <= 1; pos++ {
			root := honestPayload(d)
			root.insert(pos, jmem{o.mem.key, o.mem.val.clone()})
			sysBoth(&out, "positional", d, root, fmt.Sprintf("payload:%s@%d", o.name, pos))
		}
	}
	// annotations: members a, b, c
	for i := 0; i < 3; i++ {
		key := []string{"a", "b", "c"}[i]
		for _, v := range []struct {
			name string
			f    func(a *jnode)
		}{
			{"drop", func(a *jnode) { a.remove(i) }},
			{"alter", func(a *jnode) { a.mem[i].val = jstr("X") }},
			{"null", func(a *jnode) { a.mem[i].val = jnull() }},
			{"empty", func(a *jnode) { a.mem[i].val = jstr("") }},
			{"nonstring", func(a *jnode) { a.mem[i].val = jnum("1") }},
			{"upper-key", func(a *jnode) { a.mem[i].key = strings.ToUpper(key) }},
		} {
			root := honestPayload(d)
			t := ta(root)
			v.f(t.mem[t.find("annotations")].val)
			sysBoth(&out, "positional", d, root, fmt.Sprintf("ann:%s@%d", v.name, i))
		}
		// the same key again with another value, at every position (before / after the right one)
		for pos := 0; pos <= 3; pos++ {
			root := honestPayload(d)
			t := ta(root)
			t.mem[t.find("annotations")].val.insert(pos, m(key, jstr("wrong")))
			sysBoth(&out, "positional", d, root, fmt.Sprintf("ann:dup-wrong-%s@%d", key, pos))
		}
	}
	for pos := 0; pos <= 3; pos++ {
		root := honestPayload(d)
		t := ta(root)
		t.mem[t.find("annotations")].val.insert(pos, m("z", jstr("9")))
		sysBoth(&out, "positional", d, root, fmt.Sprintf("ann:added@%d", pos))
	}
	return out
}

// matchedScripts: three "targetArtifact" members; which one is the good one,
// with deviations before and after it.
func matchedScripts() []*script {
	var out []*script
	d := sysDesc
	evil := descNode(d)
	evil.insert(2, m("evil", jstr("x")))
	otherDg := descNode(d)
	setMember(otherDg, "digest", jstr(poolDG[1]))
	partial := jobj(m("digest", jstr(poolDG[1])))
	devs := []struct {
		name string
		v    *jnode
	}{{"null", jnull()}, {"empty", jobj()}, {"evil", evil}, {"otherdigest", otherDg}, {"partial-otherdigest", partial}}
	for good := 0; good < 3; good++ {
		for _, x := range devs {
			for _, y := range devs {
				vals := []*jnode{}
				rest := []*jnode{x.v, y.v}
				for i := 0; i < 3; i++ {
					if i == good {
						vals = append(vals, descNode(d))
					} else {
						vals = append(vals, rest[0].clone())
						rest = rest[1:]
					}
				}
				root := jobj(m("targetArtifact", vals[0]), m("targetArtifact", vals[1]), m("targetArtifact", vals[2]))
				sysBoth(&out, "which-matched", d, root, fmt.Sprintf("good@%d:%s,%s", good, x.name, y.name))
			}
		}
	}
	return out
}

// emptyAbsentScripts: empty vs absent vs nil, on both sides.
func emptyAbsentScripts() []*script {
	var out []*script
	type req struct {
		name  string
		ann   map[string]string
		empty bool
	}
	reqs := []req{{"nil", nil, false}, {"emptymap", nil, true}, {"k-empty", map[string]string{"k": ""}, false}, {"k-v", map[string]string{"k": "v"}, false}}
	pays := []struct {
		name string
		v    *jnode // nil = member absent
	}{{"absent", nil}, {"empty", jobj()}, {"null", jnull()}, {"k-empty", jobj(m("k", jstr("")))}, {"k-null", jobj(m("k", jnull()))},
		{"k-v", jobj(m("k", jstr("v")))}, {"K-empty", jobj(m("K", jstr("")))}, {"other-key", jobj(m("j", jstr("")))}}
	for _, rq := range reqs {
		d := reqDesc{MT: poolMT[0], DG: poolDG[0], Size: 528, Ann: rq.ann}
		for _, py := range pays {
			root := jobj(m("targetArtifact", jobj(m("mediaType", jstr(d.MT)), m("digest", jstr(d.DG)), m("size", jnum("528")))))
			if py.v != nil {
				ta(root).insert(3, m("annotations", py.v.clone()))
			}
			for k := 0; k < 2; k++ {
				s := sysEnv("empty-absent", len(out), d, string(root.bytes()), "ann:req="+rq.name+",payload="+py.name)
				s.AnnEmptyMap = rq.empty
				out = append(out, s)
			}
		}
		// raw path with the same requested annotations (the signer builds the payload itself)
		for k := 0; k < 2; k++ {
			spec := c18Specs[(len(out)/2)%6]
			s := &script{Family: "empty-absent", MT: []string{MtCOSE, MtJWS}[k], KeyID: "key1", Desc: d, AnnEmptyMap: rq.empty, CapRaw: true, DKKeyID: "key1", DKSpec: spec,
				GEErr: true, GSKeyID: "key1", GSSigner: spec + "/0", GSChain: "own", GSHash: "asked", Ops: []string{"raw:req=" + rq.name}}
			out = append(out, s)
		}
	}
	// zero-valued scalar fields of the request vs absent / empty / null members
	for _, f := range []string{"mediaType", "digest", "size"} {
		d := reqDesc{MT: poolMT[0], DG: poolDG[0], Size: 528}
		var zero *jnode
		switch f {
		case "mediaType":
			d.MT, zero = "", jstr("")
		case "digest":
			d.DG, zero = "", jstr("")
		case "size":
			d.Size, zero = 0, jnum("0")
		}
		for _, v := range []struct {
			name string
			v    *jnode
		}{{"absent", nil}, {"zero", zero}, {"null", jnull()}} {
			root := honestPayload(d)
			t := ta(root)
			i := t.find(f)
			if v.v == nil {
				t.remove(i)
			} else {
				t.mem[i].val = v.v.clone()
			}
			sysBoth(&out, "empty-absent", d, root, "scalar:"+f+"="+v.name)
			// and the reverse: the request has a value, the payload the absent / zero / null member
			full := reqDesc{MT: poolMT[0], DG: poolDG[0], Size: 528}
			sysBoth(&out, "empty-absent", full, root, "scalar-missing:"+f+"="+v.name)
		}
	}
	// empty vs nil slices answered by the plugin; empty strings
	for k := 0; k < 2; k++ {
		for _, nilAns := range []bool{false, true} {
			mt := []string{MtCOSE, MtJWS}[k]
			mk := func(op string) *script {
				return &script{Family: "empty-absent", MT: mt, KeyID: "key1", Desc: sysDesc, NilAnswers: nilAns, CapRaw: true, DKKeyID: "key1", DKSpec: "EC-256",
					GEErr: true, GSKeyID: "key1", GSSigner: "EC-256/0", GSChain: "own", GSHash: "asked", Ops: []string{fmt.Sprintf("%s,nil=%v", op, nilAns)}}
			}
			a := mk("raw:chain-empty")
			a.GSChain = "empty"
			b := mk("raw:sig-empty")
			b.GSCorrupt = "empty"
			c := mk("raw:both-empty")
			c.GSChain, c.GSCorrupt = "empty", "empty"
			e := sysEnv("empty-absent", k, sysDesc, "", fmt.Sprintf("env:envelope-empty,nil=%v", nilAns))
			e.GECorrupt, e.NilAnswers = "empty", nilAns
			out = append(out, a, b, c, e)
		}
		e := sysEnv("empty-absent", k, sysDesc, "", "env:ctype-empty")
		e.GECtype = ""
		f := sysEnv("empty-absent", k, sysDesc, "", "env:echo-empty")
		f.GEEcho = ""
		g := sysEnv("empty-absent", k, sysDesc, "", "env:dk-spec-empty-blob")
		g.Blob, g.DKSpec = true, ""
		out = append(out, e, f, g)
	}
	return out
}

// rareSyntaxScripts: legal but rarely written JSON. $MT $DG expand to the
// requested media type and digest.
func rareSyntaxScripts() []*script {
	d := reqDesc{MT: poolMT[0], DG: poolDG[0], Size: 100, Ann: map[string]string{"k": "v"}}
	good := `"mediaType":"$MT","digest":"$DG","size":100,"annotations":{"k":"v"}`
	texts := []string{
		" {\n\t\"targetArtifact\" : {" + good + "}\r\n} \n",
		`{"targetArtifact":{` + good + `}}`,
		`{"target\u0041rtifact":{"media\u0054ype":"$MT","\u0064igest":"$DG","size":100,"annotations":{"\u006b":"\u0076"}}}`,
		`{"targetArtifact":{"mediaType":"$MT","digest":"sha256:` + poolDG[0][7:] + `","size":100,"annotations":{"k":"v"}}}`,
		`{"targetArtifact":{"mediaType":"application\/vnd.oci.image.manifest.v1+json","digest":"$DG","size":100,"annotations":{"k":"v"}}}`,
		`{"targetArtifact":{"mediaType":"$MT","digest":"$DG","size":1e2,"annotations":{"k":"v"}}}`,
		`{"targetArtifact":{"mediaType":"$MT","digest":"$DG","size":100.0,"annotations":{"k":"v"}}}`,
		`{"targetArtifact":{"mediaType":"$MT","digest":"$DG","size":1.0E+2,"annotations":{"k":"v"}}}`,
		`{"targetArtifact":{"mediaType":"$MT","digest":"$DG","size":"100","annotations":{"k":"v"}}}`,
		`{"\u0054argetArtifact":{"mediaType":"$MT","digest":"$DG","size":100,"annotations":{"k":"v"}}}`,
		`{"targetArtifact":{"mediaType":"$MT","digest":"$DG","size":100,"annotations":{"k":"v"},"\u017fize":100}}`,
		`{"targetArtifact":{"mediaType":"$MT","digest":"$DG","size":100,"annotations":{"k":"v","k\u0000":"v","😀":"😀"}}}`,
		`{"targetArtifact":{"mediaType":"$MT","digest":"$DG","size":100,"annotations":{"k":"v\n"}}}`,
		`{"targetArtifact":{"mediaType":"$MT","digest":"$DG","size":100,"annotations":{"k":"v","s":"\ud83d\ude00","l":"\ud83d"}}}`,
		`{"targetArtifact":{"mediaType":"$MT","digest":"$DG","size":100,"annotations":{"k":"v"},"ſize":100}}`,
		`{"targetArtifact":{"mediaType":"$MT","digest":"$DG","size":7,"annotations":{"k":"v"},"ſize":100}}`,
		`{"targetArtifact":{"mediaType":"$MT","digest":"$DG","annotations":{"k":"v"},"ſize":100}}`,
		`{"targetArtifact":{"mediaType":"$MT","digest":"$DG","size":100,"annotations":{"k":"v"},"platform":{"oſ":"linux","oſ.version":1}}}`,
		`{"targetArtifact":{"mediaType":"$MT","digest":"$DG","size":100,"annotations":{"k":"v"},"platform":{"os":"linux","os.features":["a","b"],"nested":{"deep":[[[{"x":null}]]]}}}}`,
		`{"targetArtifact":{"mediaType":"$MT","digest":"$DG","size":100,"annotations":{"k":"v"},"data":"aGVs\nbG8=\r\n"}}`,
		`{"targetArtifact":{"mediaType":"$MT","digest":"$DG","size":100,"annotations":{"k":"v"},"data":"aGVsbG8"}}`,
		`{"targetArtifact":{"mediaType":"$MT","digest":"$DG","size":100,"annotations":{"k":"v"},"data":[104,null,105]}}`,
		`{"targetArtifact":{"mediaType":"$MT","digest":"$DG","size":100,"annotations":{"k":"v"},"urls":[]}}`,
		`{"targetArtifact":{"mediaType":"$MT","digest":"$DG","size":100,"annotations":{"k":"v"},"urls":[null,"u",null]}}`,
		`{"targetArtifact":{"mediaType":"$MT","digest":"$DG","size":100,"annotations":{"k":"v"},"artifactType":"é"}}`,
		`{"targetArtifact":{"mediaType":"$MT","digest":"$DG","size":100,"annotations":{"k":"v"},"éxtra":1}}`,
		`{"targetArtifact":{"mediaType":"$MT","digest":"$DG","size":100,"annotations":{"k":"v"}},"targetArtifact\u0000":null}`,
		`{"targetArtifact":{"mediaType":"$MT","digest":"$DG","size":100,"annotations":{"k":"v"}},"":{}}`,
		`{"targetArtifact":{"mediaType":"$MT","digest":"$DG","size":100,"annotations":{"k":"v"}},"targetArtifact":[{"evil":1}]}`,
		`{"targetArtifact":{"mediaType":"$MT","digest":"$DG","size":100,"annotations":{"k":"v"}},"targetArtifact":true}`,
		`{"targetArtifact":{"mediaType":"$MT","digest":"$DG","size":100,"annotations":{"k":"v"},"mediaType":null,"digest":null,"size":null}}`,
		`{"targetArtifact":{"size":100,"digest":"$DG","annotations":{"k":"v"},"mediaType":"$MT","size":100}}`,
		`{"targetArtifact":{"mediaType":"$MT","digest":"$DG","size":00100,"annotations":{"k":"v"}}}`,
		`{"targetArtifact":{"mediaType":"$MT","digest":"$DG","size":+100,"annotations":{"k":"v"}}}`,
		"\ufeff" + `{"targetArtifact":{` + good + `}}`,
		`{"targetArtifact":{` + good + `},}`,
		`{"targetArtifact":{` + good + `}}` + "\n\n",
		`[{"targetArtifact":{` + good + `}}]`,
		`"{\"targetArtifact\":{}}"`,
	}
	var out []*script
	for _, t := range texts {
		t = strings.ReplaceAll(strings.ReplaceAll(t, "$MT", d.MT), "$DG", d.DG)
		for k := 0; k < 2; k++ {
			out = append(out, sysEnv("rare-syntax", len(out), d, t, "text"))
		}
	}
	return out
}

// chainScripts: the odd certificate at every position of a three-certificate chain.
func chainScripts() []*script {
	var out []*script
	kinds := []string{"deep"}
	for _, op := range []struct {
		name string
		n    int
	}{{"garbage", 3}, {"insgarbage", 4}, {"foreign", 3}, {"insforeign", 4}, {"drop", 3}, {"dup", 3}, {"swap", 3}} {
		for i := 0; i < op.n; i++ {
			kinds = append(kinds, fmt.Sprintf("deep-%s@%d", op.name, i))
		}
	}
	for _, kind := range kinds {
		for k := 0; k < 2; k++ {
			out = append(out, &script{Family: "chain-position", MT: []string{MtCOSE, MtJWS}[k], KeyID: "key1", Desc: sysDesc, CapRaw: true, CapOrder: len(out) % 4,
				DKKeyID: "key1", DKSpec: "EC-256", GEErr: true, GSKeyID: "key1", GSSigner: "EC-256/0", GSChain: kind, GSHash: "asked", Ops: []string{kind}})
		}
	}
	return out
}

// ---------- histories on one long-lived signer ----------

func rebase(s *script, kid string) *script {
	old := s.KeyID
	s.KeyID = kid
	if s.DKKeyID == old {
		s.DKKeyID = kid
	}
	if s.GSKeyID == old {
		s.GSKeyID = kid
	}
	return s
}

func rawHonest(r *Rng, spec string, mt string) *script {
	s := rawScript(r, "history")
	s.MT, s.DKSpec, s.GSSigner, s.CapEnv = mt, spec, fmt.Sprintf("%s/%d", spec, r.Intn(2)), false
	s.Ops = []string{"honest"}
	return s
}

func envHonest(r *Rng, d reqDesc, mt string) *script {
	s := envScript(r, "history")
	s.MT, s.GEFormat, s.Desc = mt, mt, d
	s.Payload = string(honestPayload(d).bytes())
	s.Ops = []string{"honest"}
	return s
}

// genHistory returns the steps of history h: inputs whose expected verdict
// changes between the calls (pass/fail/pass, A then B, fail then pass).
func genHistory(r *Rng, h int) []*script {
	mt := Pick(r, []string{MtJWS, MtCOSE})
	omt := map[string]string{MtJWS: MtCOSE, MtCOSE: MtJWS}[mt]
	specA := Pick(r, c18Specs)
	specB := specA
	for specB == specA {
		specB = Pick(r, c18Specs)
	}
	d1, d2 := genDesc(r), genDesc(r)
	for d2.DG == d1.DG {
		d2 = genDesc(r)
	}
	op := func(s *script, name string, f func(s *script)) *script {
		f(s)
		s.Ops = []string{name}
		return s
	}
	var steps []*script
	switch h % 14 {
	case 0: // pass, wrong describe-key key id, pass
		steps = []*script{rawHonest(r, specA, mt),
			op(rawHonest(r, specA, mt), "dk-keyid", func(s *script) { s.DKKeyID = otherKeyID(r, s.KeyID) }),
			rawHonest(r, specA, mt)}
	case 1: // spec A, then describe-key says B while key and chain are still A, then really B
		steps = []*script{rawHonest(r, specA, mt),
			op(rawHonest(r, specA, mt), "spec-mismatch", func(s *script) { s.DKSpec = specB }),
			rawHonest(r, specB, mt),
			op(rawHonest(r, specA, mt), "spec-mismatch-back", func(s *script) { s.GSSigner = specB + "/0" })}
	case 2: // undecodable key spec, pass, describe-key error
		steps = []*script{op(rawHonest(r, specA, mt), "dk-spec", func(s *script) { s.DKSpec = "EC-512" }),
			rawHonest(r, specA, mt),
			op(rawHonest(r, specA, mt), "dk-error", func(s *script) { s.DKErr = true })}
	case 3: // pass, wrong generate-signature key id, pass, foreign chain
		steps = []*script{rawHonest(r, specA, mt),
			op(rawHonest(r, specA, mt), "gs-keyid", func(s *script) { s.GSKeyID = otherKeyID(r, s.KeyID) }),
			rawHonest(r, specA, omt),
			op(rawHonest(r, specA, mt), "chain-other", func(s *script) { s.GSChain = "other" })}
	case 4: // pass, corrupted signature, pass
		steps = []*script{rawHonest(r, specA, mt),
			op(rawHonest(r, specA, mt), "corrupt", func(s *script) { s.GSCorrupt = "flip" }),
			rawHonest(r, specA, mt)}
	case 5: // accepted envelope, unknown member, accepted, other digest
		steps = []*script{envHonest(r, d1, mt),
			op(envHonest(r, d1, mt), "unknown-member", func(s *script) {
				t := honestPayload(d1)
				ta(t).insert(r.Intn(4), m("evil", jstr("x")))
				s.Payload = string(t.bytes())
			}),
			envHonest(r, d1, mt),
			op(envHonest(r, d1, mt), "digest-other", func(s *script) {
				t := honestPayload(d1)
				setMember(ta(t), "digest", jstr(d2.DG))
				s.Payload = string(t.bytes())
			})}
	case 6: // refused first, then accepted
		steps = []*script{op(envHonest(r, d1, mt), "digest-other", func(s *script) { s.Payload = string(honestPayload(d2).bytes()) }),
			envHonest(r, d1, mt)}
	case 7: // descriptor A accepted, then the SAME answer while B is requested, then B
		steps = []*script{envHonest(r, d1, mt),
			op(envHonest(r, d2, mt), "replayed-answer", func(s *script) { s.Payload = string(honestPayload(d1).bytes()) }),
			envHonest(r, d2, mt),
			op(envHonest(r, d1, mt), "replayed-answer", func(s *script) { s.Payload = string(honestPayload(d2).bytes()) })}
	case 8: // SignBlob with describe-key, SignBlob with another key id, Sign
		steps = []*script{op(envHonest(r, d1, mt), "blob", func(s *script) { s.Blob = true }),
			op(envHonest(r, d1, mt), "blob-dk-keyid", func(s *script) { s.Blob, s.DKKeyID = true, otherKeyID(r, s.KeyID) }),
			envHonest(r, d1, mt),
			op(envHonest(r, d1, mt), "blob-dk-spec", func(s *script) { s.Blob, s.DKSpec = true, "ec-256" })}
	case 9: // capabilities change between calls
		steps = []*script{envHonest(r, d1, mt),
			rawHonest(r, specA, mt),
			op(envHonest(r, d1, mt), "metadata-error", func(s *script) { s.MetaErr = true }),
			op(envHonest(r, d1, mt), "no-capability", func(s *script) { s.CapEnv = false }),
			envHonest(r, d1, mt)}
	case 10: // format changes between calls: the previous format's envelope comes back
		steps = []*script{envHonest(r, d1, mt),
			op(envHonest(r, d1, omt), "previous-format", func(s *script) { s.GEFormat = mt }),
			envHonest(r, d1, omt),
			op(envHonest(r, d1, mt), "echo-previous", func(s *script) { s.GEEcho = omt })}
	case 11: // SignBlob and Sign on the raw path
		steps = []*script{op(rawHonest(r, specA, mt), "blob", func(s *script) { s.Blob = true }),
			op(rawHonest(r, specA, mt), "dk-keyid", func(s *script) { s.DKKeyID = otherKeyID(r, s.KeyID) }),
			op(rawHonest(r, specB, mt), "blob", func(s *script) { s.Blob = true }),
			op(rawHonest(r, specA, mt), "blob-dk-keyid", func(s *script) { s.Blob, s.DKKeyID = true, otherKeyID(r, s.KeyID) })}
	case 12: // annotations: requested set changes, the answer keeps the previous one
		a := reqDesc{MT: d1.MT, DG: d1.DG, Size: d1.Size, Ann: map[string]string{"k": "v"}}
		b := reqDesc{MT: d1.MT, DG: d1.DG, Size: d1.Size, Ann: map[string]string{"k": "v", "l": "w"}}
		c := reqDesc{MT: d1.MT, DG: d1.DG, Size: d1.Size}
		steps = []*script{envHonest(r, b, mt),
			op(envHonest(r, b, mt), "previous-annotations", func(s *script) { s.Payload = string(honestPayload(a).bytes()) }),
			envHonest(r, a, mt),
			op(envHonest(r, a, mt), "no-annotations", func(s *script) { s.Payload = string(honestPayload(c).bytes()) }),
			op(envHonest(r, c, mt), "more-annotations", func(s *script) { s.Payload = string(honestPayload(b).bytes()) })}
	default: // random steps of the other families
		n := 2 + r.Intn(3)
		for i := 0; i < n; i++ {
			gen := Pick(r, []func(*Rng, string) *script{scenRaw, scenPayload, scenEnvelope, scenDispatch, scenRaw, scenPayload})
			steps = append(steps, gen(r, "quick"))
		}
	}
	for i, s := range steps {
		rebase(s, "key1")
		s.Family = "history"
		s.Hist = fmt.Sprintf("h%d/%d", h, i)
		if s.Ops != nil {
			s.Ops = []string{fmt.Sprintf("pattern%d:%s", h%14, strings.Join(s.Ops, "+"))}
		}
	}
	return steps
}

// ---------- commands that answer a nil response with a nil error ----------

// nilScripts: every command nil, alone and in pairs, for Sign and SignBlob, each
// capability set, both formats, over an otherwise honest plugin and over a
// plugin whose other answers fail (so that the order of the checks shows).
func nilScripts() []*script {
	var out []*script
	r := NewRng(1818)
	set := func(s *script, mask int) {
		s.NilMeta, s.NilDK, s.NilGS, s.NilGE = mask&1 != 0, mask&2 != 0, mask&4 != 0, mask&8 != 0
	}
	masks := []int{1, 2, 4, 8, 3, 6, 10, 12, 15}
	n := 0
	for _, mask := range masks {
		for _, blob := range []bool{false, true} {
			for caps := 0; caps < 4; caps++ { // 0 none, 1 envelope, 2 raw, 3 both
				for v := 0; v < 4; v++ { // variant of the other answers
					mt := []string{MtJWS, MtCOSE}[n%2]
					spec := c18Specs[n%len(c18Specs)]
					n++
					var s *script
					if caps&2 != 0 {
						s = rawHonest(r, spec, mt)
						s.CapEnv = caps&1 != 0
					} else {
						s = envHonest(r, sysDesc, mt)
						s.CapEnv = caps&1 != 0
						s.DKSpec = spec
					}
					s.Family, s.Blob, s.CapOrder = "nil-answer", blob, n%4
					op := fmt.Sprintf("nil:mask=%d,caps=%d", mask, caps)
					switch v {
					case 1: // describe-key fails on its own
						switch n % 3 {
						case 0:
							s.DKErr = true
						case 1:
							s.DKKeyID = s.KeyID + "x"
						default:
							s.DKSpec = "EC-512"
						}
						op += ",dk-bad"
					case 2: // the signing answer fails on its own
						s.GSKeyID = s.KeyID + "x"
						s.GEEcho = "application/other"
						op += ",answer-bad"
					case 3: // unsupported requested type / metadata error
						if n%2 == 0 {
							s.MT = "application/foo"
						} else {
							s.MetaErr = true
						}
						op += ",request-bad"
					}
					set(s, mask)
					s.Ops = []string{op}
					out = append(out, s)
				}
			}
		}
	}
	return out
}

// nilHistory: on ONE signer a nil answer, then the honest answer (and back):
// a nil answer must leave nothing behind.
func nilHistory(r *Rng, h int) []*script {
	mt := []string{MtJWS, MtCOSE}[h%2]
	spec := c18Specs[h%len(c18Specs)]
	mk := func(mask int) *script {
		var s *script
		if (h/2)%2 == 0 {
			s = rawHonest(r, spec, mt)
		} else {
			s = envHonest(r, sysDesc, mt)
		}
		s.Family, s.Blob = "nil-answer", (h/4)%2 == 1
		s.NilMeta, s.NilDK, s.NilGS, s.NilGE = mask&1 != 0, mask&2 != 0, mask&4 != 0, mask&8 != 0
		s.Ops = []string{fmt.Sprintf("nil-history:mask=%d", mask)}
		return rebase(s, "key1")
	}
	m1 := []int{1, 2, 4, 8}[(h/8)%4]
	return []*script{mk(0), mk(m1), mk(0), mk(15), mk(0)}
}
