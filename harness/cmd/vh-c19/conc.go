package main

// Concurrency family: ONE registry.Repository over ONE oci.Store shared by concGoroutines
// goroutines. Each goroutine signs its OWN subject with its own distinct envelopes and, after
// every push, lists its subject (the listing must be exactly its own pushes so far: all of them
// had returned before the listing started, and nobody else signs that subject) and fetches two of
// its manifests (the bytes, media type and size must be its own). The store wrapper and the
// harness yield inside every call and between the return of a fetch and the use of its bytes.
// The family runs in a re-executed child process: a fatal runtime error, a non-zero exit or a
// timeout is recorded as a violation. The first concSample iterations of every goroutine are
// emitted as an ordinary case (the goroutine's own history; by isolation the other goroutines'
// contents do not show in its observations) and judged by the model and the oracle.

import (
	"bufio"
	"bytes"
	"context"
	"encoding/json"
	"fmt"
	"os"
	"os/exec"
	"strconv"
	"strings"
	"sync"
	"time"

	. "vh/kit"

	"github.com/notaryproject/notation-go/registry"
	"github.com/opencontainers/go-digest"
	ocispec "github.com/opencontainers/image-spec/specs-go/v1"
	"oras.land/oras-go/v2/content/oci"
)

const (
	concEnv        = "VH_C19_CONC"
	concGoroutines = 8
	concIters      = 120 // per goroutine: 120 pushes, 120 listings, 250 fetches
	concSample     = 8  // iterations emitted as a case
)

type concLine struct {
	G     int      `json:"g"`
	Term  string   `json:"term"`
	Key   string   `json:"key"`
	Human []string `json:"history"`
	Viols []string `json:"viols"`
	Calls int      `json:"calls"`
}

type concRec struct {
	md   ocispec.Descriptor
	blob digest.Digest
	n    int
	mt   string
	ann  string
}

// concChild is the re-executed child: spec = seed|first case id|output file|layout directory.
func concChild(spec string) {
	parts := strings.SplitN(spec, "|", 4)
	seed, _ := strconv.ParseUint(parts[0], 10, 64)
	first, _ := strconv.ParseInt(parts[1], 10, 64)
	out, err := os.Create(parts[2])
	if err != nil {
		panic(err)
	}
	dir := parts[3] // made and removed by the parent (a crashed child cleans nothing up)
	st, err := oci.New(dir)
	if err != nil {
		panic(err)
	}
	repo := registry.NewRepository(logTarget{Store: st}) // the ONE instance
	root := NewRng(seed ^ 0xC19C0C)
	lines := make([]concLine, concGoroutines)
	var wg sync.WaitGroup
	for g := 0; g < concGoroutines; g++ {
		wg.Add(1)
		go func(g int) {
			defer wg.Done()
			h := newH(root.Fork(uint64(g)), "quick", g%2 == 0)
			h.store, h.repo, h.dir, h.conc = st, repo, dir, true
			var viols []string
			bad := func(f string, a ...any) {
				if len(viols) < 5 {
					viols = append(viols, fmt.Sprintf("goroutine %d: ", g)+fmt.Sprintf(f, a...))
				}
			}
			subj := h.newSubject(g, true)
			var mine []concRec
			calls := 0
			for i := 0; i < concIters; i++ {
				if i == concSample {
					h.mute = true
				}
				mt := []string{mtJWS, mtCOSE}[(g+i)%2]
				blob := append(h.envelope(mt, 150+h.rng.Intn(300)), []byte(fmt.Sprintf("#g%d.i%d", g, i))...)
				an := map[string]string{"io.cncf.notary.x509chain.thumbprint#S256": fmt.Sprintf(`["%d-%d"]`, g, i), "g": fmt.Sprint(g)}
				h.pushSig(mt, blob, subj, an)
				calls++
				if h.lastPush.cls != 0 {
					bad("PushSignature %d failed (class %d)", i, h.lastPush.cls)
					continue
				}
				if h.lastPush.bd.Digest != digest.FromBytes(blob) || h.lastPush.bd.MediaType != mt {
					bad("PushSignature %d returned the blob descriptor of another call: %s", i, short(h.lastPush.bd))
				}
				if h.lastPush.md.Annotations["io.cncf.notary.x509chain.thumbprint#S256"] != an["io.cncf.notary.x509chain.thumbprint#S256"] {
					bad("PushSignature %d returned a manifest descriptor with another call's annotations", i)
				}
				mine = append(mine, concRec{md: h.lastPush.md, blob: digest.FromBytes(blob), n: len(blob), mt: mt, ann: snap(h.lastPush.md.Annotations)})
				// listing: exactly my pushes so far
				got := h.list(subj)
				calls++
				if len(got) != len(mine) {
					bad("listing after push %d has %d manifests, %d pushed", i, len(got), len(mine))
				}
				seen := map[digest.Digest]bool{}
				for _, m := range got {
					var r *concRec
					for k := range mine {
						if mine[k].md.Digest == m.Digest {
							r = &mine[k]
						}
					}
					switch {
					case r == nil:
						bad("listing after push %d contains a manifest this goroutine did not push: %s", i, short(m))
					case seen[m.Digest]:
						bad("listing after push %d contains %s twice", i, short(m))
					case m.ArtifactType != registry.ArtifactTypeNotation || m.Size != r.md.Size || m.MediaType != r.md.MediaType || snap(m.Annotations) != r.ann:
						bad("listing after push %d shows %s with another type / size / annotations", i, short(m))
					}
					seen[m.Digest] = true
				}
				// fetches: the newest and an earlier one
				for _, k := range []int{len(mine) - 1, h.rng.Intn(len(mine))} {
					r := mine[k]
					h.fetch(ocispec.Descriptor{MediaType: r.md.MediaType, Digest: r.md.Digest, Size: r.md.Size})
					calls++
					if h.lastFetch.cls != 0 {
						bad("FetchSignatureBlob of push %d failed", k)
					} else if h.lastFetch.dg != r.blob || h.lastFetch.n != r.n || h.lastFetch.bd.MediaType != r.mt || h.lastFetch.bd.Digest != r.blob {
						bad("FetchSignatureBlob of push %d returned other bytes / descriptor: %d bytes %s, blob %s", k, h.lastFetch.n, h.lastFetch.dg, short(h.lastFetch.bd))
					}
				}
				if i%10 == 9 { // a tampered descriptor must still be refused
					r := mine[h.rng.Intn(len(mine))]
					h.fetch(ocispec.Descriptor{MediaType: r.md.MediaType, Digest: r.md.Digest, Size: r.md.Size + 1})
					calls++
					if h.lastFetch.cls == 0 {
						bad("FetchSignatureBlob accepted a descriptor with size+1 after push %d", i)
					}
				}
			}
			viols = append(viols, h.viol...)
			lines[g] = concLine{G: g, Term: h.caseTerm(first + int64(g)), Key: strings.Join(h.ops, ";"), Human: h.human, Viols: viols, Calls: calls}
		}(g)
	}
	wg.Wait()
	bw := bufio.NewWriter(out)
	for _, l := range lines {
		b, _ := json.Marshal(l)
		bw.Write(b)
		bw.WriteByte('\n')
	}
	bw.Flush()
	out.Close()
	os.Exit(0)
}

func tmpBase() string {
	base := os.TempDir()
	if st, err := os.Stat("/dev/shm"); err == nil && st.IsDir() {
		if f, err := os.CreateTemp("/dev/shm", "vh-c19-probe"); err == nil {
			f.Close()
			os.Remove(f.Name())
			base = "/dev/shm"
		}
	}
	return base
}

// runConc re-executes the harness as the child, records a crash / anomalies as violations and
// emits the sampled per-goroutine histories as ordinary cases first .. first+concGoroutines-1;
// id first+concGoroutines stands for the run as a whole.
func runConc(a *Args, w *CaseWriter, first int64) {
	runID := first + concGoroutines
	wanted := w.Want(runID)
	for g := int64(0); g < concGoroutines; g++ {
		wanted = wanted || w.Want(first+g)
	}
	if !wanted {
		return
	}
	self, err := os.Executable()
	if err != nil {
		panic(err)
	}
	outFile := fmt.Sprintf("%s/concurrency.jsonl", a.Out)
	dir, err := os.MkdirTemp(tmpBase(), "vh-c19-conc-*")
	if err != nil {
		panic(err)
	}
	defer os.RemoveAll(dir)
	ctx, cancel := context.WithTimeout(context.Background(), 120*time.Second)
	defer cancel()
	cmd := exec.CommandContext(ctx, self)
	cmd.Env = append(os.Environ(), fmt.Sprintf("%s=%d|%d|%s|%s", concEnv, a.Seed, first, outFile, dir), "GOMAXPROCS=8")
	var stderr bytes.Buffer
	cmd.Stderr = &stderr
	t0 := time.Now()
	werr := cmd.Run()
	desc := map[string]any{"family": "concurrency", "goroutines": concGoroutines, "iterations_each": concIters,
		"instance": "one registry.Repository (registry.NewRepository over a yielding wrapper of one oci.Store); every goroutine signs, lists and fetches its own subject"}
	if werr != nil {
		msg := stderr.String()
		head := msg
		if i := strings.Index(head, "\n\n"); i > 0 {
			head = head[:i]
		}
		if len(head) > 1500 {
			head = head[:1500]
		}
		desc["exit"] = werr.Error()
		desc["stderr_head"] = head
		line := strings.SplitN(msg, "\n", 2)[0]
		if ctx.Err() != nil {
			line = "no exit within 120 s"
		}
		w.ImplViolation(runID, "concurrent use of one Repository killed the process: "+line, desc, "concurrency")
	}
	w.Count("concurrency", fmt.Sprintf("child %s", map[bool]string{true: "ok", false: "failed"}[werr == nil]))
	w.Set("concurrency_seconds", time.Since(t0).Seconds())
	f, err := os.Open(outFile)
	if err != nil {
		return
	}
	defer f.Close()
	sc := bufio.NewScanner(f)
	sc.Buffer(make([]byte, 1<<20), 1<<26)
	calls, nviol := 0, 0
	for sc.Scan() {
		var l concLine
		if json.Unmarshal(sc.Bytes(), &l) != nil {
			continue
		}
		calls += l.Calls
		id := first + int64(l.G)
		d := map[string]any{"family": "concurrency", "goroutine": l.G, "history": l.Human}
		for _, v := range l.Viols {
			nviol++
			if nviol <= 20 {
				what, fp := "concurrent calls on one Repository: "+v, "concurrency"
				if strings.HasPrefix(v, "frame: ") {
					what, fp = strings.TrimPrefix(v, "frame: "), "frame"
				}
				w.ImplViolation(id, what, d, fp)
			}
		}
		if l.Term != "" && w.Want(id) {
			w.Add(id, l.Term, d, l.Key, true)
			w.Count("family", "concurrency(sample of one goroutine)")
		}
	}
	w.Set("concurrency_calls", calls)
}
