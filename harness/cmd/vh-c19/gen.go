package main

import (
	"encoding/base64"
	"encoding/json"
	"fmt"
	"strings"

	. "vh/kit"

	"github.com/notaryproject/notation-go/registry"
	"github.com/opencontainers/go-digest"
	ocispec "github.com/opencontainers/image-spec/specs-go/v1"
)

const (
	mtJWS  = "application/jose+json"
	mtCOSE = "application/cose"
)

func (h *H) randBytes(n int) []byte {
	b := make([]byte, n)
	for i := 0; i < n; i += 8 {
		v := h.rng.U64()
		for j := 0; j < 8 && i+j < n; j++ {
			b[i+j] = byte(v >> (8 * j))
		}
	}
	return b
}

func descOf(mt string, b []byte) ocispec.Descriptor {
	return ocispec.Descriptor{MediaType: mt, Digest: digest.FromBytes(b), Size: int64(len(b))}
}

// envelope builds a distinct envelope of roughly the given size.
func (h *H) envelope(mt string, size int) []byte {
	if size <= 0 {
		return []byte{}
	}
	if mt == mtCOSE || (mt != mtJWS && h.rng.Bool()) {
		b := h.randBytes(size)
		b[0] = 0xd2 // COSE_Sign1 tag: never JSON
		return b
	}
	n := size - 60
	if n < 24 {
		n = 24
	}
	sig := base64.RawURLEncoding.EncodeToString(h.randBytes(n * 3 / 4))
	return []byte(`{"payload":"eyJ0YXJnZXRBcnRpZmFjdCI6e319","protected":"eyJhbGciOiJQUzI1NiJ9","signature":"` + sig + `"}`)
}

func (h *H) envSize() int {
	r := h.rng.Intn(100)
	switch {
	case r < 2:
		return 0
	case r < 88:
		return 100 + h.rng.Intn(2000)
	case r < 97:
		return 20000 + h.rng.Intn(60000)
	}
	return 1 << 20
}

func (h *H) annotations() map[string]string {
	if h.share && h.sharedAnn != nil && h.rng.Chance(1, 2) {
		// the SAME map object as in the previous push, sometimes edited in place by the caller
		if h.rng.Bool() {
			h.sharedAnn["user.key"] = fmt.Sprintf("%x", h.rng.U64()&0xff)
		}
		return h.sharedAnn
	}
	a := h.freshAnnotations()
	if h.share && a != nil {
		h.sharedAnn = a
	}
	return a
}

func (h *H) freshAnnotations() map[string]string {
	r := h.rng.Intn(100)
	thumb := `["` + fmt.Sprintf("%x", h.rng.U64()) + `"]`
	switch {
	case r < 12:
		return nil
	case r < 20:
		return map[string]string{}
	case r < 62:
		return map[string]string{"io.cncf.notary.x509chain.thumbprint#S256": thumb}
	case r < 78:
		return map[string]string{"io.cncf.notary.x509chain.thumbprint#S256": thumb, "user.key": Pick(h.rng, []string{"a", "b", "", thumb})}
	case r < 90:
		return map[string]string{"io.cncf.notary.x509chain.thumbprint#S256": thumb, keyCreated: Pick(h.rng, []string{"2023-04-05T06:07:08Z", "2001-01-01T00:00:00+02:00"})}
	case r < 96:
		return map[string]string{keyCreated: Pick(h.rng, []string{"yesterday", "2023-04-05", ""}), "k": "v"}
	}
	return map[string]string{"a": "1", "b": "2", "c": "3", "d": thumb}
}

// variant returns a descriptor differing from d in exactly one field.
func (h *H) variant(d ocispec.Descriptor, k int) ocispec.Descriptor {
	v := ocispec.Descriptor{MediaType: d.MediaType, Digest: d.Digest, Size: d.Size}
	switch k % 6 {
	case 4:
		v.Size = 0 // "unknown size"
		h.sizeVariant = true
	case 5:
		v.MediaType = "" // "unknown media type"
	case 0:
		v.Size = d.Size + 1
		h.sizeVariant = true
	case 1:
		if d.MediaType == mtImage {
			v.MediaType = mtIndex
		} else {
			v.MediaType = mtImage
		}
	case 2:
		v.Digest = digest.FromString(string(d.Digest) + "x")
	case 3:
		v.MediaType = mtDMan
	}
	return v
}

// decorate adds fields content.Equal ignores.
func (h *H) decorate(d ocispec.Descriptor) ocispec.Descriptor {
	if h.share {
		// the SAME decorated descriptor object (its map and pointer) for every call about this artifact
		if c, ok := h.sharedDesc[qkey(d)]; ok {
			return c
		}
		defer func() { h.sharedDesc[qkey(ocispec.Descriptor{MediaType: d.MediaType, Digest: d.Digest, Size: d.Size})] = d }()
	}
	switch h.rng.Intn(6) {
	case 0:
		d.Annotations = map[string]string{"note": "x"}
	case 1:
		d.Platform = &ocispec.Platform{Architecture: "amd64", OS: "linux"}
	case 2:
		d.ArtifactType = "application/x.other"
	}
	return d
}

func (h *H) pickSubject() ocispec.Descriptor {
	s := Pick(h.rng, h.subjects)
	if h.rng.Chance(1, 6) {
		s = h.variant(s, h.rng.Intn(6))
	}
	return s
}

func plain(d ocispec.Descriptor) map[string]any {
	return map[string]any{"mediaType": d.MediaType, "digest": string(d.Digest), "size": d.Size}
}

func mustJSON(v any) []byte {
	b, err := json.Marshal(v)
	if err != nil {
		panic(err)
	}
	return b
}

var cfgNotation = map[string]any{"mediaType": registry.ArtifactTypeNotation, "digest": string(digest.FromString("{}")), "size": 2}

func cfgOther(mt string) map[string]any {
	return map[string]any{"mediaType": mt, "digest": string(digest.FromString("{}")), "size": 2}
}

// a small blob in the store to point layers at
func (h *H) someBlob() ocispec.Descriptor {
	if len(h.blobs) > 0 && h.rng.Chance(2, 3) {
		return Pick(h.rng, h.blobs)
	}
	b := h.envelope(Pick(h.rng, []string{mtJWS, mtCOSE}), 80+h.rng.Intn(200))
	d := descOf(Pick(h.rng, []string{mtJWS, mtCOSE}), b)
	if h.raw(d, b, "blob") == 0 {
		h.blobs = append(h.blobs, d)
	}
	return d
}

func (h *H) imageManifest(cfg map[string]any, layers []any, subject any, artifactType string, an map[string]string) []byte {
	m := map[string]any{"schemaVersion": 2, "mediaType": mtImage, "config": cfg, "layers": layers}
	if subject != nil {
		m["subject"] = subject
	}
	if artifactType != "" {
		m["artifactType"] = artifactType
	}
	if an != nil {
		m["annotations"] = an
	}
	return mustJSON(m)
}

// foreign pushes one foreign referrer of a kind chosen at random.
func (h *H) foreign() { h.foreignKind(h.rng.Intn(nForeignKinds), h.pickSubject()) }

const nForeignKinds = 16

func (h *H) foreignKind(kind int, s ocispec.Descriptor) {
	h.addQuery(s)
	bl := h.someBlob()
	uniq := map[string]string{"n": fmt.Sprintf("%x", h.rng.U64())}
	h.nForeign++
	switch kind {
	case 14: // artifact type differing from notation only in letter case / surrounding space / parameters
		at := Pick(h.rng, []string{"application/vnd.cncf.notary.SIGNATURE", "Application/Vnd.Cncf.Notary.Signature", registry.ArtifactTypeNotation + " ", " " + registry.ArtifactTypeNotation, registry.ArtifactTypeNotation + "; charset=utf-8", registry.ArtifactTypeNotation + ".v2"})
		var b []byte
		mt := mtImage
		if h.rng.Chance(1, 4) {
			mt = mtArtifact
			b = mustJSON(map[string]any{"mediaType": mtArtifact, "artifactType": at, "blobs": []any{plain(bl)}, "subject": plain(s), "annotations": uniq})
		} else {
			b = h.imageManifest(cfgOther(at), []any{plain(bl)}, plain(s), "", uniq)
		}
		h.raw(descOf(mt, b), b, "syntax:artifact-type-case-space-params")
	case 15: // a notation manifest whose subject has size 0 / media type "" ("unknown") and the digest of s, reaching s through a layer
		v := h.variant(s, 4+h.rng.Intn(2))
		h.addQuery(v)
		b := h.imageManifest(cfgNotation, []any{plain(s)}, plain(v), "", uniq)
		d := descOf(mtImage, b)
		h.raw(d, b, "near:subject-size0-or-mt-empty-layer-is-subject")
		h.manis = append(h.manis, d)
	case 0: // another artifact type (config media type), artifactType field set too
		b := h.imageManifest(cfgOther("application/vnd.example.sbom.config"), []any{plain(bl)}, plain(s), "application/spdx+json", uniq)
		h.raw(descOf(mtImage, b), b, "foreign:other-config-type")
	case 1: // artifactType field says notation, config type does not
		b := h.imageManifest(cfgOther("application/vnd.oci.empty.v1+json"), []any{plain(bl)}, plain(s), registry.ArtifactTypeNotation, uniq)
		h.raw(descOf(mtImage, b), b, "foreign:artifactType-field-notation-config-other")
	case 2: // config type notation, artifactType field another: a signature by the code's rule
		b := h.imageManifest(cfgNotation, []any{plain(bl)}, plain(s), "application/x.other", uniq)
		d := descOf(mtImage, b)
		h.raw(d, b, "foreign:config-notation-artifactType-other")
		h.manis = append(h.manis, d)
	case 3: // legacy artifact manifest, notation, with subject: a legitimate legacy signature
		b := mustJSON(map[string]any{"mediaType": mtArtifact, "artifactType": registry.ArtifactTypeNotation, "blobs": []any{plain(bl)}, "subject": plain(s), "annotations": uniq})
		d := descOf(mtArtifact, b)
		h.raw(d, b, "legacy:notation-with-subject")
		h.manis = append(h.manis, d)
	case 4: // legacy artifact manifest without subject that reaches s through its blobs
		b := mustJSON(map[string]any{"mediaType": mtArtifact, "artifactType": registry.ArtifactTypeNotation, "blobs": []any{plain(s)}, "annotations": uniq})
		h.raw(descOf(mtArtifact, b), b, "legacy:notation-no-subject-blob-is-subject")
	case 5: // legacy artifact manifest of another type
		b := mustJSON(map[string]any{"mediaType": mtArtifact, "artifactType": "application/x.sbom", "blobs": []any{plain(bl)}, "subject": plain(s), "annotations": uniq})
		h.raw(descOf(mtArtifact, b), b, "legacy:other-type")
	case 6: // notation manifest of a subject differing in one field, reaching s through a layer
		v := h.variant(s, h.rng.Intn(6))
		h.addQuery(v)
		b := h.imageManifest(cfgNotation, []any{plain(s)}, plain(v), "", uniq)
		d := descOf(mtImage, b)
		h.raw(d, b, "near:subject-variant-layer-is-subject")
		h.manis = append(h.manis, d)
	case 13: // legacy notation manifest of a subject differing in one field, reaching s through its blobs
		v := h.variant(s, h.rng.Intn(6))
		h.addQuery(v)
		b := mustJSON(map[string]any{"mediaType": mtArtifact, "artifactType": registry.ArtifactTypeNotation, "blobs": []any{plain(s)}, "subject": plain(v), "annotations": uniq})
		d := descOf(mtArtifact, b)
		h.raw(d, b, "near:legacy-subject-variant-blob-is-subject")
		h.manis = append(h.manis, d)
	case 7: // notation manifest without subject whose layer (or config) is s
		var b []byte
		if h.rng.Bool() {
			b = h.imageManifest(cfgNotation, []any{plain(s)}, nil, "", uniq)
		} else {
			c := plain(s)
			c["mediaType"] = registry.ArtifactTypeNotation
			b = h.imageManifest(c, []any{plain(bl)}, nil, "", uniq)
		}
		h.raw(descOf(mtImage, b), b, "near:no-subject-layer-or-config-is-subject")
	case 8: // index with subject
		b := mustJSON(map[string]any{"schemaVersion": 2, "mediaType": mtIndex, "artifactType": registry.ArtifactTypeNotation, "manifests": []any{}, "subject": plain(s), "annotations": uniq})
		h.raw(descOf(mtIndex, b), b, "foreign:index-with-subject")
	case 9: // docker manifest carrying a subject field
		b := h.imageManifest(cfgNotation, []any{plain(bl)}, plain(s), "", uniq)
		h.raw(descOf(mtDMan, b), b, "foreign:docker-manifest-with-subject")
	case 10: // signature-shaped JSON stored under a non-manifest media type
		b := h.imageManifest(cfgNotation, []any{plain(bl)}, plain(s), "", uniq)
		d := descOf(Pick(h.rng, []string{mtOctet, "application/json"}), b)
		h.raw(d, b, "foreign:manifest-json-as-blob")
		h.manis = append(h.manis, ocispec.Descriptor{MediaType: mtImage, Digest: d.Digest, Size: d.Size})
	case 11: // JSON of the wrong shape for its media type (index fails after the content was stored)
		var b []byte
		mt := mtImage
		if h.rng.Bool() {
			b = mustJSON(map[string]any{"schemaVersion": 2, "mediaType": mtImage, "config": cfgNotation, "layers": "x", "subject": plain(s), "annotations": uniq})
		} else {
			mt = mtArtifact
			b = mustJSON(map[string]any{"mediaType": mtArtifact, "artifactType": registry.ArtifactTypeNotation, "blobs": 7, "subject": plain(s), "annotations": uniq})
		}
		d := descOf(mt, b)
		h.raw(d, b, "hostile:wrong-shape-json")
		h.manis = append(h.manis, d)
	case 12: // a notation manifest pushed with a wrong declared size, or pushed twice
		b := h.imageManifest(cfgNotation, []any{plain(bl)}, plain(s), "", uniq)
		d := descOf(mtImage, b)
		if h.rng.Bool() {
			w := d
			w.Size += int64(1 - 2*h.rng.Intn(2))
			if h.rng.Chance(1, 4) {
				w.Size = -1
			}
			h.raw(w, b, "hostile:push-with-wrong-size")
		}
		h.raw(d, b, "foreign:notation-direct")
		h.raw(d, b, "foreign:pushed-twice")
		h.manis = append(h.manis, d)
	}
}

// hostile pushes one hand-built signature manifest of subject s that must be refused on fetch.
func (h *H) hostile() { h.hostileKind(h.rng.Intn(nHostileKinds), h.pickSubject()) }

const nHostileKinds = 16

func (h *H) hostileKind(kind int, s ocispec.Descriptor) {
	h.addQuery(s)
	bl := h.someBlob()
	uniq := map[string]string{"n": fmt.Sprintf("%x", h.rng.U64())}
	h.nHostile++
	sized := func(d ocispec.Descriptor, sz int64) map[string]any {
		p := plain(d)
		p["size"] = sz
		return p
	}
	var layers []any
	tag := ""
	missing := map[string]any{"mediaType": mtJWS, "digest": string(digest.FromString(fmt.Sprint(h.rng.U64()))), "size": 100}
	switch kind {
	// the valid blob at every position relative to an odd one
	case 9:
		layers, tag = []any{missing, plain(bl)}, "hostile:2-layers(missing,valid)"
	case 10:
		layers, tag = []any{plain(bl), missing}, "hostile:2-layers(valid,missing)"
	case 11:
		layers, tag = []any{sized(bl, capB+1), plain(bl)}, "hostile:2-layers(oversize,valid)"
	case 12:
		layers, tag = []any{plain(bl), sized(bl, capB+1)}, "hostile:2-layers(valid,oversize)"
	case 13:
		layers, tag = []any{plain(h.someBlob()), plain(bl), plain(h.someBlob())}, "hostile:3-layers"
	case 14:
		layers, tag = []any{plain(bl), map[string]any{"mediaType": "", "digest": "", "size": 0}}, "hostile:2-layers(valid,zero-descriptor)"
	case 15:
		layers, tag = []any{map[string]any{"mediaType": mtJWS, "digest": "sha256:" + strings.ToUpper(bl.Digest.Encoded()), "size": bl.Size}}, "hostile:blob-digest-upper-case-hex"

	case 0:
		layers, tag = []any{}, "hostile:0-layers"
	case 1:
		layers, tag = []any{plain(bl), plain(h.someBlob())}, "hostile:2-layers"
	case 2:
		layers, tag = []any{plain(bl), plain(bl)}, "hostile:2-equal-layers"
	case 3:
		layers, tag = []any{sized(bl, capB+1)}, "hostile:declared-blob-size-cap+1"
	case 4:
		layers, tag = []any{sized(bl, int64(1)<<62)}, "hostile:declared-blob-size-huge"
	case 5:
		layers, tag = []any{sized(bl, -1)}, "hostile:declared-blob-size-negative"
	case 6:
		layers, tag = []any{sized(bl, bl.Size+int64(1-2*h.rng.Intn(2)))}, "hostile:declared-blob-size-off-by-one"
	case 7:
		layers, tag = []any{map[string]any{"mediaType": mtJWS, "digest": string(digest.FromString(fmt.Sprint(h.rng.U64()))), "size": 100}}, "hostile:blob-missing"
	case 8:
		layers, tag = []any{sized(bl, capB)}, "hostile:declared-blob-size-exactly-cap"
	}
	var b []byte
	mt := mtImage
	if h.rng.Chance(1, 4) {
		mt = mtArtifact
		b = mustJSON(map[string]any{"mediaType": mtArtifact, "artifactType": registry.ArtifactTypeNotation, "blobs": layers, "subject": plain(s), "annotations": uniq})
		tag += "(legacy)"
	} else {
		b = h.imageManifest(cfgNotation, layers, plain(s), "", uniq)
	}
	d := descOf(mt, b)
	h.raw(d, b, tag)
	h.manis = append(h.manis, d)
}

// bigManifest stores a signature manifest whose real length is just above (or at) the manifest cap.
func (h *H) bigManifest(over bool) {
	s := Pick(h.rng, h.subjects)
	bl := h.someBlob()
	pad := strings.Repeat("p", capM)
	b := h.imageManifest(cfgNotation, []any{plain(bl)}, plain(s), "", map[string]string{"pad": pad})
	// trim the padding so that the manifest is exactly capM (+1) bytes long
	want := capM
	if over {
		want = capM + 1
	}
	pad = pad[:len(pad)-(len(b)-want)]
	b = h.imageManifest(cfgNotation, []any{plain(bl)}, plain(s), "", map[string]string{"pad": pad})
	if len(b) != want {
		panic("c19: padding arithmetic")
	}
	d := descOf(mtImage, b)
	h.nHostile++
	if over {
		h.raw(d, b, "hostile:manifest-really-above-4MiB")
	} else {
		h.raw(d, b, "edge:manifest-exactly-4MiB")
	}
	h.manis = append(h.manis, d)
}

// bigBlob stores a blob whose real length is at / just above the blob cap and a signature manifest for it.
func (h *H) bigBlob(over bool) {
	s := Pick(h.rng, h.subjects)
	n := capB
	if over {
		n = capB + 1
	}
	blob := make([]byte, n)
	copy(blob, h.randBytes(64))
	blob[0] = 0xd2
	bd := descOf(mtCOSE, blob)
	h.raw(bd, blob, "blob")
	b := h.imageManifest(cfgNotation, []any{plain(bd)}, plain(s), "", map[string]string{"n": fmt.Sprint(h.rng.U64())})
	d := descOf(mtImage, b)
	h.nHostile++
	if over {
		h.raw(d, b, "hostile:blob-really-above-32MiB")
	} else {
		h.raw(d, b, "edge:blob-exactly-32MiB")
	}
	h.manis = append(h.manis, d)
}

// tampered fetch descriptors
func (h *H) hostileFetch() {
	if len(h.manis) == 0 {
		return
	}
	d := Pick(h.rng, h.manis)
	switch h.rng.Intn(10) {
	case 0:
		d.Size++
	case 1:
		d.Size = -1
	case 2:
		d.Size = capM + 1
	case 3:
		d.Size = int64(1) << 62
	case 4:
		if d.MediaType == mtImage {
			d.MediaType = mtArtifact
		} else {
			d.MediaType = mtImage
		}
	case 5:
		d.MediaType = Pick(h.rng, []string{mtIndex, mtDMan, "", mtJWS, strings.ToUpper(d.MediaType), d.MediaType + " ", " " + d.MediaType, d.MediaType + "; charset=utf-8"})
	case 6:
		d.Digest = digest.FromString(fmt.Sprint(h.rng.U64()))
	case 7: // an envelope (or any blob) presented as a manifest
		if len(h.blobs) > 0 {
			b := Pick(h.rng, h.blobs)
			d = ocispec.Descriptor{MediaType: Pick(h.rng, []string{mtImage, mtArtifact}), Digest: b.Digest, Size: b.Size}
		}
	case 8: // the subject itself
		d = Pick(h.rng, h.subjects)
	case 9:
		d.Size = capM
	}
	h.fetch(d)
}

func (h *H) pushOne() {
	mt := Pick(h.rng, []string{mtJWS, mtCOSE})
	if h.rng.Chance(1, 25) {
		mt = Pick(h.rng, []string{"", "application/x.custom-envelope"})
	}
	var blob []byte
	if len(h.envs) > 0 && h.rng.Chance(1, 14) {
		e := Pick(h.rng, h.envs) // the same envelope again
		mt, blob = e.mt, e.b
		h.tags["push:same-envelope-again"] = true
	} else {
		blob = h.envelope(mt, h.envSize())
	}
	h.pushSig(mt, blob, h.decorate(h.pickSubject()), h.annotations())
}

func (h *H) sweep() {
	var listed []ocispec.Descriptor
	for _, q := range append([]ocispec.Descriptor(nil), h.queries...) {
		qq := q
		if h.rng.Chance(1, 3) {
			qq = h.decorate(q)
		}
		listed = append(listed, h.list(qq)...)
		if h.rng.Chance(1, 3) { // the same listing through a callback that returns an error (Go-side check)
			keys, ok := h.lastList[qkey(qq)]
			h.listCb(qq, ok, keys)
		}
	}
	seen := map[digest.Digest]bool{}
	for _, m := range listed {
		if seen[m.Digest] {
			continue
		}
		seen[m.Digest] = true
		h.fetch(m)
	}
}

// newSubject makes a subject artifact (a real image manifest), optionally stored in the layout.
func (h *H) newSubject(k int, store bool) ocispec.Descriptor {
	b := mustJSON(map[string]any{"schemaVersion": 2, "mediaType": mtImage,
		"config": map[string]any{"mediaType": "application/vnd.oci.image.config.v1+json", "digest": string(digest.FromString(fmt.Sprint("cfg", h.rng.U64()))), "size": 100 + k},
		"layers": []any{map[string]any{"mediaType": "application/vnd.oci.image.layer.v1.tar+gzip", "digest": string(digest.FromString(fmt.Sprint("layer", h.rng.U64()))), "size": 1000 + h.rng.Intn(5000)}}})
	d := descOf(mtImage, b)
	h.subjects = append(h.subjects, d)
	h.addQuery(d)
	if store {
		h.raw(d, b, "subject")
	}
	return d
}

// generate drives one history and returns its family name.
func (h *H) generate(id int64, total int) string {
	if id < nScripted {
		return h.scripted(id)
	}
	// subjects: real image manifests; some are stored in the layout
	ns := 1 + h.rng.Intn(3)
	for k := 0; k < ns; k++ {
		h.newSubject(k, h.rng.Chance(2, 3))
	}
	families := []string{"plain", "foreign", "near-subject", "hostile", "mixed", "mixed"}
	family := families[int(id)%len(families)]
	// a few dedicated histories with contents really above / at the caps
	special := ""
	switch {
	case id%97 == 5:
		special = "manifest>4MiB"
	case id%97 == 6:
		special = "manifest=4MiB"
	case h.tier == "thorough" && id%997 == 7, h.tier != "thorough" && id == nScripted+7:
		special = "blob>32MiB"
	case h.tier == "thorough" && id%997 == 8, h.tier != "thorough" && id == nScripted+8:
		special = "blob=32MiB"
	case id%97 == 9:
		special = "annotations>4MiB"
	}
	steps := 3 + h.rng.Intn(14)
	pushes := 0
	for k := 0; k < steps; k++ {
		r := h.rng.Intn(100)
		wPush, wForeign, wHostile := 55, 15, 10
		switch family {
		case "plain":
			wPush, wForeign, wHostile = 85, 3, 0
		case "foreign":
			wPush, wForeign, wHostile = 40, 40, 5
		case "near-subject":
			wPush, wForeign, wHostile = 45, 35, 5
		case "hostile":
			wPush, wForeign, wHostile = 35, 10, 40
		}
		switch {
		case r < wPush && pushes < 12:
			pushes++
			h.pushOne()
		case r < wPush+wForeign:
			h.foreign()
		case r < wPush+wForeign+wHostile:
			h.hostile()
		default:
			if h.rng.Bool() && len(h.queries) > 0 {
				for _, m := range h.list(Pick(h.rng, h.queries)) {
					if h.rng.Chance(1, 3) {
						h.fetch(m)
					}
				}
			} else {
				h.hostileFetch()
			}
		}
		if special != "" && k == steps/2 {
			switch special {
			case "manifest>4MiB":
				h.bigManifest(true)
			case "manifest=4MiB":
				h.bigManifest(false)
			case "blob>32MiB":
				h.bigBlob(true)
			case "blob=32MiB":
				h.bigBlob(false)
			case "annotations>4MiB":
				h.tags["push:annotations-above-4MiB"] = true
				h.pushSig(mtJWS, h.envelope(mtJWS, 300), Pick(h.rng, h.subjects), map[string]string{"pad": strings.Repeat("q", capM)})
			}
		}
	}
	h.sweep()
	nh := 2 + h.rng.Intn(4)
	for k := 0; k < nh; k++ {
		h.hostileFetch()
	}
	if special != "" {
		return family + "+" + special
	}
	return family
}
