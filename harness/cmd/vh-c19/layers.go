package main

// Scripted family "layers" (quick tier): hand-built signature manifests of the notation
// type - OCI image manifests AND legacy artifact manifests - whose layers / blobs number
// k in {0, 2, 3}. One is the genuine envelope, at every position; the extra ones carry
// every media type of a small alphabet: the OCI 1.1 empty-descriptor placeholder
// application/vnd.oci.empty.v1+json (with its canonical content {}, sha256:44136f.., 2
// bytes, which is in the layout: it is the notation config), both envelope types,
// application/octet-stream and the empty string. Plus the 1-layer manifest whose single
// layer IS the empty descriptor (to be fetched like any single blob, as the model says).
// Every manifest is listed and fetched (sweep) and fetched once more directly: a manifest
// with other than exactly one layer / blob must be refused and only the manifest itself
// may have been fetched (oracle rcheck: log = [manifest]); a code that discounts layers by
// their media type before counting them deviates here from the model.

import (
	"fmt"

	. "vh/kit"

	"github.com/notaryproject/notation-go/registry"
	"github.com/opencontainers/go-digest"
	ocispec "github.com/opencontainers/image-spec/specs-go/v1"
)

const mtEmptyJSON = ocispec.MediaTypeEmptyJSON // application/vnd.oci.empty.v1+json

var layerAlphabet = []string{mtEmptyJSON, mtJWS, mtCOSE, mtOctet, ""}

type layerShape struct {
	n      int      // number of layers / blobs
	pos    int      // position of the genuine envelope (-1: none)
	extras []string // media types of the other layers, in order
}

func layerShapes() []layerShape {
	s := []layerShape{
		{n: 0, pos: -1},
		{n: 1, pos: -1, extras: []string{mtEmptyJSON}}, // the single layer is the empty descriptor
	}
	for pos := 0; pos < 2; pos++ {
		for _, x := range layerAlphabet {
			s = append(s, layerShape{n: 2, pos: pos, extras: []string{x}})
		}
	}
	for pos := 0; pos < 3; pos++ {
		for _, x := range layerAlphabet {
			s = append(s, layerShape{n: 3, pos: pos, extras: []string{x, x}})
		}
		s = append(s, layerShape{n: 3, pos: pos, extras: []string{mtEmptyJSON, mtJWS}})
		s = append(s, layerShape{n: 3, pos: pos, extras: []string{mtOctet, mtEmptyJSON}})
	}
	// no genuine envelope at all: only placeholders / only the empty descriptor twice
	s = append(s, layerShape{n: 2, pos: -1, extras: []string{mtEmptyJSON, mtEmptyJSON}})
	s = append(s, layerShape{n: 2, pos: -1, extras: []string{mtEmptyJSON, ""}})
	return s
}

const nLayerShapes = 35
const nLayers = 2 * nLayerShapes // image manifest, legacy artifact manifest

func init() {
	if len(layerShapes()) != nLayerShapes {
		panic(fmt.Sprintf("c19: nLayerShapes = %d, layerShapes() has %d", nLayerShapes, len(layerShapes())))
	}
}

// freshBlob stores a new small envelope and returns its descriptor.
func (h *H) freshBlob() ocispec.Descriptor {
	mt := Pick(h.rng, []string{mtJWS, mtCOSE})
	b := h.envelope(mt, 80+h.rng.Intn(200))
	d := descOf(mt, b)
	h.raw(d, b, "blob")
	return d
}

func (h *H) layers(k int) {
	legacy := k%2 == 1
	sh := layerShapes()[k/2]
	s := h.newSubject(0, k%4 < 2)
	h.sig(s) // a genuine signature: its config {} (sha256:44136f.., 2 bytes) is in the layout from here on
	emptyDesc := map[string]any{"mediaType": mtEmptyJSON, "digest": string(digest.FromString("{}")), "size": 2}
	var ls []any
	xi := 0
	for i := 0; i < sh.n; i++ {
		if i == sh.pos {
			ls = append(ls, plain(h.freshBlob()))
			continue
		}
		x := sh.extras[xi]
		xi++
		if x == mtEmptyJSON {
			ls = append(ls, emptyDesc)
		} else {
			p := plain(h.freshBlob())
			p["mediaType"] = x
			ls = append(ls, p)
		}
	}
	if ls == nil {
		ls = []any{}
	}
	uniq := map[string]string{"n": fmt.Sprintf("%x", h.rng.U64())}
	tag := fmt.Sprintf("layers:%d(envelope@%d;%q)", sh.n, sh.pos, sh.extras)
	var b []byte
	mt := mtImage
	if legacy {
		mt = mtArtifact
		b = mustJSON(map[string]any{"mediaType": mtArtifact, "artifactType": registry.ArtifactTypeNotation, "blobs": ls, "subject": plain(s), "annotations": uniq})
		tag += "(legacy)"
	} else {
		b = h.imageManifest(cfgNotation, ls, plain(s), "", uniq)
	}
	d := descOf(mt, b)
	h.nHostile++
	h.raw(d, b, tag)
	h.manis = append(h.manis, d)
	h.fetch(d)
	h.sig(s)
	h.sweep()
	h.fetch(d)
}
