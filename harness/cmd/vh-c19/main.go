package main

// C19 driver: histories of Repository.PushSignature / ListSignatures /
// FetchSignatureBlob over real OCI layouts (oras-go's oci.Store in temporary
// directories), interleaved with foreign referrers and hostile manifests
// pushed through oras directly. Prints (history, observations) cases for
// C19_Model. Every digest, media type and annotation string is interned per
// history (equal numbers <=> equal byte strings).

import (
	"fmt"
	"os"
	"runtime"
	"sort"
	"strings"
	"sync"

	. "vh/kit"
)

func main() {
	if spec := os.Getenv(concEnv); spec != "" {
		concChild(spec) // the re-executed child of the concurrency family
		return
	}
	Main("c19", runC19)
}

type histOut struct {
	id      int64
	term    string
	desc    map[string]any
	key     string
	nontriv bool
	counts  map[string]string
	tags    []string
	viol    []string
}

func runC19(a *Args) error {
	prelude := "From NV Require Import Base C19_Model.\nOpen Scope N_scope.\n"
	w := NewCaseWriter(a, "C19", prelude, "case", "run")
	w.ShardSize = 400
	w.Rule = "one case = one history on a fresh OCI layout (oci.Store in a temp dir, Repository from registry.NewRepository over a Fetch-logging wrapper of that store; the layout is re-opened with registry.NewOCIRepository at the end): up to 12 PushSignature calls over up to 3 subject artifacts and their one-field variants (size+1, other media type, other digest), envelopes of both media types (distinct random content, 0 B .. 1 MiB; some re-pushed), caller annotations (none, thumbprint, user keys, valid / invalid created), interleaved with foreign referrers pushed through oras (other artifact types, artifactType field vs config type, legacy artifact manifests with and without subject, indexes and docker manifests with subject, manifests reaching the subject only through a layer, the config or (legacy) the blobs while naming a subject that differs in one field or none), hostile signature manifests (0 / 2 layers, declared blob sizes above the cap, negative or off by one, missing blobs, a manifest really above 4 MiB, a blob really above 32 MiB, JSON of the wrong shape, manifest JSON stored under a non-manifest media type), listings of every subject and variant and fetches of every listed manifest plus tampered descriptors (size +1, -1, above the cap, media type swapped, unknown digest, an envelope or the subject as manifest). The first 294 histories of every run are scripted, systematic families (scripted.go, squat.go, layers.go): relist (one long-lived Repository; the same listing / fetch asked again while the expected answer changes: empty -> 1 -> 2 items, pass -> refused -> pass for one digest under tampered descriptors, a subject and its one-field variants including size 0 and empty media type), position (three signatures and ONE odd content of every foreign / hostile kind before, between and after them; the valid blob at every position of 2- and 3-layer manifests), empties (annotations nil / {} / empty value / empty key, empty envelope, empty media type, manifest members absent / null / {} / [], zero descriptors as query, subject and fetch target), syntax (duplicate JSON members, keys in another letter case, numbers as strings / floats / exponents, non-string annotation values, white space, null / array / string documents, trailing garbage, media and artifact types differing in case, surrounding space or parameters, upper-case digests), many (twelve signatures of one subject), squat (the bytes of the manifest a PushSignature is going to make - predicted by the same call on a twin layout, with a caller-supplied creation time - or of its envelope, or of the empty config, are in the layout before the call, stored through oras under a blob media type, the legacy manifest type or the image manifest type: the manifest push meets ErrAlreadyExists, which PackManifest ignores; histogram content_kinds squat:push-reported-success-manifest-not-listed counts the histories in which the real PushSignature reported success and ListSignatures of its subject does not contain its manifest - theorem C19_pushed_but_not_listed_refuted), layers (notation manifests, image and legacy, with 0 / 2 / 3 layers or blobs: the genuine envelope at every position, the other layers under every media type of {application/vnd.oci.empty.v1+json with content {}, jose, cose, octet-stream, empty string}; the 1-layer manifest whose layer is the empty descriptor; each listed and fetched: anything but exactly one layer is refused with only the manifest fetched). non-trivial = at least two successful pushes, at least one foreign or hostile content and a non-empty listing; distinct = distinct operation sequences after interning"
	w.Assumptions = []string{
		"sha256 is injective on the contents of a history (digest numbers stand for byte strings; fetched bytes are identified by their sha256)",
		"the artifact manifest struct of registry/internal/artifactspec is mirrored field by field in the harness (same JSON tags) to ask encoding/json how a content reads as an artifact manifest",
		"oras-go v2.5.0 oci.Store / graph.Memory / content.FetchAll / PackManifest behave as modelled from their source (C19_Model.v header); every history checks it against the real store",
		"error classes are recognised by errors.Is / errors.As and by the fixed message prefixes of registry/repository.go",
		"no deletion and no concurrent writer during a sequential history; the concurrency family (conc.go) shares one Repository between 8 goroutines signing, listing and fetching DIFFERENT subjects, in a child process",
		"frame check on every call of every history: the annotations map, envelope bytes and subject descriptor handed to PushSignature and the descriptors handed to ListSignatures / FetchSignatureBlob (with their Annotations maps, URLs, Platform) are deep-snapshotted before and compared after the call; in every second history the same map / descriptor objects are handed to consecutive calls; the descriptors and bytes the library hands out are scribbled over by the caller after each listing / fetch",
		"extra Go-side check of the delivery of listings (not in the model): after one listing in three of every sweep the same listing is asked again with a callback that returns an error; on success the callback must be invoked exactly once with the manifests of the listing just before and ListSignatures must return the callback's error (errors.Is), on failure the callback must not be invoked",
		"extra Go-side check, outside registry/repository.go: the layout is re-opened with registry.NewOCIRepository and every listing compared with the live one; oras-go's oci.New refuses to re-open a layout in which a stored manifest is referenced (as a subject) with another size, or a manifest-typed reference carries an invalid digest string (histogram reopen: layout-not-reopenable): counted and reported, not judged a violation of C19",
	}
	n := 1200
	if a.Tier == "thorough" {
		n = 24000
	}
	base := tmpBase()
	root := NewRng(a.Seed)
	outs := make([]*histOut, n)
	workers := runtime.NumCPU()
	if workers > 8 {
		workers = 8
	}
	jobs := make(chan int64)
	var wg sync.WaitGroup
	for k := 0; k < workers; k++ {
		wg.Add(1)
		go func() {
			defer wg.Done()
			for id := range jobs {
				outs[id] = runHistory(id, root.Fork(uint64(id)), a.Tier, base, n)
			}
		}()
	}
	for id := int64(0); id < int64(n); id++ {
		if w.Want(id) {
			jobs <- id
		}
	}
	close(jobs)
	wg.Wait()
	for _, o := range outs {
		if o == nil {
			continue
		}
		w.Add(o.id, o.term, o.desc, o.key, o.nontriv)
		for k, v := range o.counts {
			w.Count(k, v)
		}
		for _, t := range o.tags {
			w.Count("content_kinds", t)
		}
		for _, v := range o.viol {
			parts := strings.SplitN(v, ": ", 2)
			what := v
			if len(parts) == 2 && parts[0] == "frame" {
				what = parts[1]
			}
			w.ImplViolation(o.id, what, o.desc, parts[0])
		}
	}
	runConc(a, w, int64(n))
	return w.Close()
}

func sortedKeys(m map[string]string) []string {
	ks := make([]string, 0, len(m))
	for k := range m {
		ks = append(ks, k)
	}
	sort.Strings(ks)
	return ks
}

func bucket(n int) string {
	switch {
	case n == 0:
		return "0"
	case n <= 2:
		return "1-2"
	case n <= 5:
		return "3-5"
	case n <= 9:
		return "6-9"
	}
	return "10+"
}

var _ = fmt.Sprint
