package main

// Added by the theorem audit (docs/audit/C19.md).
//
// squat   scripted family: the bytes of the manifest a PushSignature is going to make (or its
//         envelope, or the empty config) are in the layout BEFORE the call, stored by someone
//         else through oras under various media types. It exercises the branches of the model
//         that no other family reaches: the manifest push meeting ErrAlreadyExists (ignored by
//         oras.PackManifest: PushSignature reports success although nothing was indexed -
//         C19_pushed_but_not_listed_refuted is replayed here on the real code), the config
//         found by Exists under another media type, the envelope refused as already stored.
//         The manifest bytes are predicted by running the same PushSignature (with a caller
//         supplied creation time, so that the manifest is deterministic) on a twin layout.
//
// listCb  Go-side check of the delivery of a listing (not in the model): on success the callback
//         of ListSignatures is invoked exactly once, with all the manifests of the listing, and
//         the error it returns is what ListSignatures returns; on failure it is not invoked.

import (
	"context"
	"errors"
	"fmt"
	"os"
	"path/filepath"
	"sort"
	"strings"

	. "vh/kit"

	"github.com/notaryproject/notation-go/registry"
	ocispec "github.com/opencontainers/image-spec/specs-go/v1"
	"oras.land/oras-go/v2/content"
	"oras.land/oras-go/v2/content/oci"
)

const nSquat = 12

// predictManifest returns the manifest PushSignature makes for these arguments (an must carry a
// valid creation time), by running the real code on a twin layout.
func (h *H) predictManifest(mt string, blob []byte, subj ocispec.Descriptor, an map[string]string) (ocispec.Descriptor, []byte) {
	dir, err := os.MkdirTemp(filepath.Dir(h.dir), "vh-c19-twin-*")
	if err != nil {
		panic(err)
	}
	defer os.RemoveAll(dir)
	st, err := oci.New(dir)
	if err != nil {
		panic(err)
	}
	ctx := context.Background()
	_, md, err := registry.NewRepository(st).PushSignature(ctx, mt, append([]byte(nil), blob...), subj, copyAnn(an))
	if err != nil {
		panic("c19: twin PushSignature failed: " + err.Error())
	}
	b, err := content.FetchAll(ctx, st, md)
	if err != nil {
		panic(err)
	}
	return md, b
}

func (h *H) squat(k int) {
	s := h.newSubject(0, k%2 == 0)
	mt := []string{mtJWS, mtCOSE}[k%2]
	blob := h.envelope(mt, 150+h.rng.Intn(300))
	an := map[string]string{keyCreated: "2023-04-05T06:07:08Z", "io.cncf.notary.x509chain.thumbprint#S256": `["` + fmt.Sprintf("%x", h.rng.U64()) + `"]`}
	md, mb := h.predictManifest(mt, blob, s, an)
	if md.Size != int64(len(mb)) {
		panic("c19: twin manifest size")
	}
	pushedNotListed := func() {
		// what the refuted theorem says: the push reported success and its manifest is not listed
		if h.lastPush.cls != 0 {
			return
		}
		for _, m := range h.list(s) {
			if m.Digest == h.lastPush.md.Digest {
				return
			}
		}
		h.tags["squat:push-reported-success-manifest-not-listed"] = true
	}
	h.list(s)
	switch k % 6 {
	case 0, 1: // the manifest bytes as a plain blob
		other := []string{mtOctet, "application/json"}[k%2]
		h.raw(descOf(other, mb), mb, "squat:manifest-bytes-under-"+other)
		h.list(s)
		h.pushSig(mt, blob, s, an)
		pushedNotListed()
		h.fetch(ocispec.Descriptor{MediaType: mtImage, Digest: md.Digest, Size: md.Size})
	case 2: // the manifest bytes under the LEGACY manifest media type (indexed as a referrer, another type)
		h.raw(descOf(mtArtifact, mb), mb, "squat:manifest-bytes-under-legacy-manifest-type")
		h.list(s)
		h.pushSig(mt, blob, s, an)
		pushedNotListed()
		h.fetch(ocispec.Descriptor{MediaType: mtImage, Digest: md.Digest, Size: md.Size})
		h.fetch(ocispec.Descriptor{MediaType: mtArtifact, Digest: md.Digest, Size: md.Size})
	case 3: // the identical manifest stored first by someone else, as a manifest: listed before its blob exists
		h.raw(descOf(mtImage, mb), mb, "squat:identical-manifest-stored-first")
		h.manis = append(h.manis, ocispec.Descriptor{MediaType: mtImage, Digest: md.Digest, Size: md.Size})
		h.list(s)
		h.fetch(ocispec.Descriptor{MediaType: mtImage, Digest: md.Digest, Size: md.Size}) // blob missing
		h.pushSig(mt, blob, s, an)
		pushedNotListed()
		h.fetch(ocispec.Descriptor{MediaType: mtImage, Digest: md.Digest, Size: md.Size})
	case 4: // the envelope bytes stored first, under another media type: the push is refused, nothing is added
		h.raw(descOf(Pick(h.rng, []string{mtOctet, mtJWS, mtCOSE}), blob), blob, "squat:envelope-bytes-stored-first")
		h.pushSig(mt, blob, s, an)
		h.list(s)
		h.fetch(ocispec.Descriptor{MediaType: mtImage, Digest: md.Digest, Size: md.Size}) // unknown
		// a distinct envelope afterwards goes through
		h.sig(s)
	case 5: // "{}" stored first under another media type: the config is found by Exists and not pushed
		h.raw(descOf(Pick(h.rng, []string{mtOctet, "application/json", "application/vnd.oci.empty.v1+json"}), []byte("{}")), []byte("{}"), "squat:empty-config-bytes-stored-first")
		h.pushSig(mt, blob, s, an)
		pushedNotListed()
		h.fetch(ocispec.Descriptor{MediaType: mtImage, Digest: md.Digest, Size: md.Size})
	}
	h.nForeign++
	// the same signature pushed again: refused (envelope already stored), the listing does not change
	h.pushSig(mt, blob, s, an)
	h.list(s)
	// and a fresh one is listed as ever
	h.sig(s)
	h.sweep()
}

var errCallback = errors.New("vh-c19: callback says stop")

func itemKeys(h *H, ms []ocispec.Descriptor) []string {
	keys := make([]string, len(ms))
	for i, m := range ms {
		keys[i] = "(I " + h.desc(m) + " " + h.mt(m.ArtifactType) + " " + h.ann(m.Annotations) + ")"
	}
	sort.Strings(keys)
	return keys
}

// listCb asks the listing of q again, right after h.list(q) gave want (ok = it succeeded), with a
// callback that returns an error. Nothing is recorded as a case; deviations are violations.
func (h *H) listCb(q ocispec.Descriptor, ok bool, want []string) {
	calls := 0
	var seen []string
	var err error = errors.New("panicked")
	h.guard("ListSignatures(callback returning an error)", func() {
		err = h.repo.ListSignatures(h.ctx, q, func(ms []ocispec.Descriptor) error {
			calls++
			seen = append(seen, itemKeys(h, ms)...)
			return errCallback
		})
	})
	sort.Strings(seen)
	say := func(s string) {
		if !h.frameSeen["callback:"+s] {
			h.frameSeen["callback:"+s] = true
			h.viol = append(h.viol, "callback: "+s)
		}
	}
	if ok {
		if calls != 1 {
			say(fmt.Sprintf("ListSignatures invoked the callback %d times for one successful listing", calls))
		}
		if strings.Join(seen, ";") != strings.Join(want, ";") {
			say("the callback was handed other manifests than the listing just before")
		}
		if !errors.Is(err, errCallback) {
			say(fmt.Sprintf("the error returned by the callback was not returned by ListSignatures (got %v)", err))
		}
	} else {
		if calls != 0 {
			say("the callback was invoked although the listing failed")
		}
		if err == nil || errors.Is(err, errCallback) {
			say("a failed listing returned no error of its own")
		}
	}
}
