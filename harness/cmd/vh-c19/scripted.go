package main

// Scripted (systematic) history families of the quick tier:
//   relist    one long-lived Repository: the same listing / fetch repeated while the
//             expected answer changes between the calls (empty -> 1 -> 2, pass -> refuse -> pass,
//             subject -> its one-field variants)
//   position  three signatures of one subject and ONE odd content at every position
//             (before, between, after), for every foreign / hostile kind; the valid blob at
//             every position of a multi-layer manifest
//   empties   empty vs absent vs null: annotations (nil, {}, empty value, empty key),
//             empty envelope, "" media type, manifests with annotations / subject / layers /
//             config absent, null, {} or [], zero descriptors as query, subject and fetch target
//   many      twelve signatures of one subject
//   squat     (squat.go) the manifest / envelope / config bytes of a push are in the layout before it
//   layers    (layers.go) notation manifests, image and legacy, with 0 / 2 / 3 layers whose extra layers
//             take every media type of a small alphabet (the OCI empty descriptor among them), the
//             genuine envelope at every position; the single layer that IS the empty descriptor
//   syntax    rarely used legal JSON: duplicate members, keys in another letter case, numbers
//             as strings / floats / exponents, non-string annotation values, leading white
//             space, unknown members, null / [] documents, media types differing in case,
//             surrounding space or parameters

import (
	"fmt"
	"strings"
	"time"

	. "vh/kit"

	"github.com/notaryproject/notation-go/registry"
	"github.com/opencontainers/go-digest"
	ocispec "github.com/opencontainers/image-spec/specs-go/v1"
)

const (
	nRelist   = 32
	nPosition = 4 * (nForeignKinds + nHostileKinds) // kind x position
	nEmpties  = 24
	nSyntax   = 24
	nMany     = 4
	nScripted = nRelist + nPosition + nEmpties + nSyntax + nMany + nSquat + nLayers
)

func (h *H) scripted(id int64) string {
	switch {
	case id < nRelist:
		h.relist(int(id))
		return "scripted:relist"
	case id < nRelist+nPosition:
		h.position(int(id) - nRelist)
		return "scripted:position"
	case id < nRelist+nPosition+nEmpties:
		h.empties(int(id) - nRelist - nPosition)
		return "scripted:empties"
	}
	if id < nRelist+nPosition+nEmpties+nSyntax {
		h.syntax(int(id) - nRelist - nPosition - nEmpties)
		return "scripted:syntax"
	}
	if id < nRelist+nPosition+nEmpties+nSyntax+nMany {
		h.many(int(id) - nRelist - nPosition - nEmpties - nSyntax)
		return "scripted:many"
	}
	if id < nRelist+nPosition+nEmpties+nSyntax+nMany+nSquat {
		h.squat(int(id) - nRelist - nPosition - nEmpties - nSyntax - nMany)
		return "scripted:squat"
	}
	h.layers(int(id) - nRelist - nPosition - nEmpties - nSyntax - nMany - nSquat)
	return "scripted:layers"
}

// many: twelve signatures of ONE subject (the listing grows to its largest size), foreign
// referrers in between, listed after every fourth push.
func (h *H) many(k int) {
	s := h.newSubject(0, k%2 == 0)
	for i := 0; i < 12; i++ {
		h.sig(s)
		if i%4 == 3 {
			h.foreignKind((k*3+i)%nForeignKinds, s)
			h.list(s)
		}
	}
	h.sweep()
}

func (h *H) sig(s ocispec.Descriptor) {
	mt := Pick(h.rng, []string{mtJWS, mtCOSE})
	an := h.annotations()
	for {
		v, ok := an[keyCreated]
		if !ok {
			break
		}
		if _, err := time.Parse(time.RFC3339, v); err == nil {
			break
		}
		an = h.annotations()
	}
	h.pushSig(mt, h.envelope(mt, 100+h.rng.Intn(400)), s, an)
}

func (h *H) lastMani() ocispec.Descriptor { return h.manis[len(h.manis)-1] }

func withSize(d ocispec.Descriptor, sz int64) ocispec.Descriptor { d.Size = sz; return d }
func withMT(d ocispec.Descriptor, mt string) ocispec.Descriptor { d.MediaType = mt; return d }

// relist: one Repository, the same questions asked again while the answers change.
func (h *H) relist(k int) {
	s := h.newSubject(0, k%2 == 0)
	v := h.variant(s, k%6) // a one-field variant of s, asked in between
	h.addQuery(v)
	h.list(s) // empty
	h.list(v)
	h.sig(s)
	m1 := h.lastMani()
	h.list(s) // one
	h.list(v) // still empty
	h.fetch(m1)
	h.foreignKind(k%nForeignKinds, s)
	h.list(s)
	h.sig(v)
	mv := h.lastMani()
	h.list(v) // one, another
	h.list(s) // unchanged
	h.sig(s)
	m2 := h.lastMani()
	h.list(s) // two
	// the same digest asked with descriptors that change the verdict between the calls
	h.fetch(m1)
	switch k % 4 {
	case 0:
		h.fetch(withSize(m1, m1.Size+1))
	case 1:
		h.fetch(withMT(m1, mtArtifact))
	case 2:
		h.fetch(withSize(m1, capM+1))
	case 3:
		h.fetch(withMT(m1, strings.ToUpper(m1.MediaType)))
	}
	h.fetch(m1)
	h.fetch(withMT(m1, mtIndex))
	h.fetch(withSize(m1, -1))
	h.fetch(m1)
	// refuse, pass, refuse on neighbouring manifests
	h.hostileKind(k%nHostileKinds, s)
	bad := h.lastMani()
	h.fetch(bad)
	h.fetch(m2)
	h.fetch(bad)
	h.fetch(mv)
	h.list(s)
	// descriptors carrying fields content.Equal ignores
	h.list(h.decorate(s))
	h.list(withSize(s, 0))
	h.list(withMT(s, ""))
	h.sweep()
}

// position: three signatures of s and one odd content before / between / after them.
func (h *H) position(k int) {
	pos := k % 4
	kind := k / 4
	s := h.newSubject(0, kind%2 == 0)
	odd := func() {
		if kind < nForeignKinds {
			h.foreignKind(kind, s)
		} else {
			h.hostileKind(kind-nForeignKinds, s)
		}
	}
	for i := 0; i < 3; i++ {
		if pos == i {
			odd()
		}
		h.sig(s)
		if i == 1 {
			h.list(s)
		}
	}
	if pos == 3 {
		odd()
	}
	h.sweep()
	h.hostileFetch()
}

func (h *H) rawJSON(mt, text, tag string) ocispec.Descriptor {
	d := descOf(mt, []byte(text))
	h.raw(d, []byte(text), tag)
	h.manis = append(h.manis, d)
	return d
}

func djson(d ocispec.Descriptor) string {
	return fmt.Sprintf(`{"mediaType":%q,"digest":%q,"size":%d}`, d.MediaType, string(d.Digest), d.Size)
}

const cfgNotationJSON = `{"mediaType":"application/vnd.cncf.notary.signature","digest":"sha256:44136fa355b3678a1146ad16f7e8649e94fb4fc21fe77e8310c060f61caaff8a","size":2}`

// empties: empty vs absent vs null.
func (h *H) empties(k int) {
	s := h.newSubject(0, k%2 == 0)
	bl := h.someBlob()
	u := func() string { return fmt.Sprintf("%x", h.rng.U64()) }
	anns := []map[string]string{nil, {}, {"k": ""}, {"": "v"}, {"": ""}, {"k": "", "io.cncf.notary.x509chain.thumbprint#S256": "[]"}, {keyCreated: ""}, {"a": " "}}
	// pushes: every annotation shape, empty envelope, "" media type
	h.pushSig(mtJWS, h.envelope(mtJWS, 200), s, anns[k%len(anns)])
	h.pushSig(mtCOSE, h.envelope(mtCOSE, 200), s, anns[(k+1)%len(anns)])
	h.pushSig(Pick(h.rng, []string{"", mtCOSE}), []byte{}, s, anns[(k+2)%len(anns)])
	h.pushSig("", h.envelope(mtCOSE, 90), s, anns[(k+3)%len(anns)])
	h.list(s)
	// manifests with members absent / null / empty
	layer := djson(bl)
	subj := djson(s)
	texts := []struct{ tag, txt string }{
		{"empty:annotations-absent", `{"schemaVersion":2,"mediaType":"` + mtImage + `","config":` + cfgNotationJSON + `,"layers":[` + layer + `],"subject":` + subj + `,"x":"` + u() + `"}`},
		{"empty:annotations-null", `{"schemaVersion":2,"mediaType":"` + mtImage + `","config":` + cfgNotationJSON + `,"layers":[` + layer + `],"subject":` + subj + `,"annotations":null,"x":"` + u() + `"}`},
		{"empty:annotations-empty-object", `{"schemaVersion":2,"mediaType":"` + mtImage + `","config":` + cfgNotationJSON + `,"layers":[` + layer + `],"subject":` + subj + `,"annotations":{},"x":"` + u() + `"}`},
		{"empty:annotation-empty-value-and-key", `{"schemaVersion":2,"mediaType":"` + mtImage + `","config":` + cfgNotationJSON + `,"layers":[` + layer + `],"subject":` + subj + `,"annotations":{"":"","k":""},"x":"` + u() + `"}`},
		{"empty:subject-null", `{"schemaVersion":2,"mediaType":"` + mtImage + `","config":` + cfgNotationJSON + `,"layers":[` + subj + `],"subject":null,"x":"` + u() + `"}`},
		{"empty:subject-empty-object", `{"schemaVersion":2,"mediaType":"` + mtImage + `","config":` + cfgNotationJSON + `,"layers":[` + subj + `],"subject":{},"x":"` + u() + `"}`},
		{"empty:layers-null", `{"schemaVersion":2,"mediaType":"` + mtImage + `","config":` + cfgNotationJSON + `,"layers":null,"subject":` + subj + `,"x":"` + u() + `"}`},
		{"empty:layers-absent", `{"schemaVersion":2,"mediaType":"` + mtImage + `","config":` + cfgNotationJSON + `,"subject":` + subj + `,"x":"` + u() + `"}`},
		{"empty:layers-empty-array", `{"schemaVersion":2,"mediaType":"` + mtImage + `","config":` + cfgNotationJSON + `,"layers":[],"subject":` + subj + `,"x":"` + u() + `"}`},
		{"empty:config-absent", `{"schemaVersion":2,"mediaType":"` + mtImage + `","layers":[` + layer + `],"subject":` + subj + `,"x":"` + u() + `"}`},
		{"empty:config-null-artifactType-notation", `{"schemaVersion":2,"mediaType":"` + mtImage + `","artifactType":"` + registry.ArtifactTypeNotation + `","config":null,"layers":[` + layer + `],"subject":` + subj + `,"x":"` + u() + `"}`},
		{"empty:config-mediaType-empty", `{"schemaVersion":2,"mediaType":"` + mtImage + `","config":{"mediaType":"","digest":"sha256:44136fa355b3678a1146ad16f7e8649e94fb4fc21fe77e8310c060f61caaff8a","size":2},"layers":[` + layer + `],"subject":` + subj + `,"x":"` + u() + `"}`},
		{"empty:legacy-artifactType-empty", `{"mediaType":"` + mtArtifact + `","artifactType":"","blobs":[` + layer + `],"subject":` + subj + `,"x":"` + u() + `"}`},
		{"empty:legacy-artifactType-absent", `{"mediaType":"` + mtArtifact + `","blobs":[` + layer + `],"subject":` + subj + `,"x":"` + u() + `"}`},
		{"empty:legacy-blobs-absent", `{"mediaType":"` + mtArtifact + `","artifactType":"` + registry.ArtifactTypeNotation + `","subject":` + subj + `,"x":"` + u() + `"}`},
		{"empty:legacy-subject-null-blob-is-subject", `{"mediaType":"` + mtArtifact + `","artifactType":"` + registry.ArtifactTypeNotation + `","blobs":[` + subj + `],"subject":null,"x":"` + u() + `"}`},
		{"empty:subject-size-0-layer-is-subject", `{"schemaVersion":2,"mediaType":"` + mtImage + `","config":` + cfgNotationJSON + `,"layers":[` + subj + `],"subject":` + djson(withSize(s, 0)) + `,"x":"` + u() + `"}`},
		{"empty:subject-mediaType-empty-layer-is-subject", `{"schemaVersion":2,"mediaType":"` + mtImage + `","config":` + cfgNotationJSON + `,"layers":[` + subj + `],"subject":` + djson(withMT(s, "")) + `,"x":"` + u() + `"}`},
		{"empty:subject-digest-empty-layer-is-subject", `{"schemaVersion":2,"mediaType":"` + mtImage + `","config":` + cfgNotationJSON + `,"layers":[` + subj + `],"subject":{"mediaType":"` + mtImage + `","digest":"","size":` + fmt.Sprint(s.Size) + `},"x":"` + u() + `"}`},
	}
	// each history takes a window of the table (all of it over the family), in rotating order
	for i := 0; i < 8; i++ {
		t := texts[(k*5+i)%len(texts)]
		mt := mtImage
		if strings.Contains(t.tag, "legacy") {
			mt = mtArtifact
		}
		h.rawJSON(mt, t.txt, t.tag)
	}
	h.nForeign += 8
	h.sizeVariant = true
	zero := ocispec.Descriptor{}
	h.addQuery(zero)
	h.addQuery(withSize(s, 0))
	h.addQuery(withMT(s, ""))
	h.addQuery(ocispec.Descriptor{MediaType: s.MediaType, Size: s.Size})
	h.sweep()
	h.fetch(zero)
	h.fetch(ocispec.Descriptor{MediaType: mtImage})
	h.fetch(withSize(h.manis[0], 0))
	h.hostileFetch()
}

// syntax: rarely used but legal (or nearly legal) JSON and media types.
func (h *H) syntax(k int) {
	s := h.newSubject(0, k%2 == 0)
	o := h.newSubject(1, false) // another subject
	bl := h.someBlob()
	u := func() string { return fmt.Sprintf("%x", h.rng.U64()) }
	layer, subj, other := djson(bl), djson(s), djson(o)
	img := func(members string) string {
		return `{"schemaVersion":2,"mediaType":"` + mtImage + `",` + members + `,"x":"` + u() + `"}`
	}
	texts := []struct{ tag, txt string }{
		{"syntax:duplicate-subject(other,s)", img(`"config":` + cfgNotationJSON + `,"layers":[` + layer + `],"subject":` + other + `,"subject":` + subj)},
		{"syntax:duplicate-subject(s,other)", img(`"config":` + cfgNotationJSON + `,"layers":[` + layer + `],"subject":` + subj + `,"subject":` + other)},
		{"syntax:duplicate-subject(s,null)", img(`"config":` + cfgNotationJSON + `,"layers":[` + layer + `],"subject":` + subj + `,"subject":null`)},
		{"syntax:duplicate-layers([],[blob])", img(`"config":` + cfgNotationJSON + `,"layers":[],"layers":[` + layer + `],"subject":` + subj)},
		{"syntax:duplicate-layers([blob],[blob,blob])", img(`"config":` + cfgNotationJSON + `,"layers":[` + layer + `],"layers":[` + layer + `,` + layer + `],"subject":` + subj)},
		{"syntax:duplicate-config(other,notation)", img(`"config":{"mediaType":"application/x.other","digest":"sha256:44136fa355b3678a1146ad16f7e8649e94fb4fc21fe77e8310c060f61caaff8a","size":2},"config":` + cfgNotationJSON + `,"layers":[` + layer + `],"subject":` + subj)},
		{"syntax:duplicate-config(notation,other)", img(`"config":` + cfgNotationJSON + `,"config":{"mediaType":"application/x.other","digest":"sha256:44136fa355b3678a1146ad16f7e8649e94fb4fc21fe77e8310c060f61caaff8a","size":2},"layers":[` + layer + `],"subject":` + subj)},
		{"syntax:duplicate-annotation-key", img(`"config":` + cfgNotationJSON + `,"layers":[` + layer + `],"subject":` + subj + `,"annotations":{"k":"1","k":"2"}`)},
		{"syntax:keys-upper-case", img(`"CONFIG":` + cfgNotationJSON + `,"LAYERS":[` + layer + `],"SUBJECT":` + subj + `,"Annotations":{"K":"v"}`)},
		{"syntax:descriptor-keys-mixed-case", img(`"config":` + cfgNotationJSON + `,"layers":[` + layer + `],"subject":{"MediaType":"` + s.MediaType + `","DIGEST":"` + string(s.Digest) + `","Size":` + fmt.Sprint(s.Size) + `}`)},
		{"syntax:subject-size-as-string", img(`"config":` + cfgNotationJSON + `,"layers":[` + layer + `],"subject":{"mediaType":"` + s.MediaType + `","digest":"` + string(s.Digest) + `","size":"` + fmt.Sprint(s.Size) + `"}`)},
		{"syntax:subject-size-float", img(`"config":` + cfgNotationJSON + `,"layers":[` + layer + `],"subject":{"mediaType":"` + s.MediaType + `","digest":"` + string(s.Digest) + `","size":` + fmt.Sprint(s.Size) + `.0}`)},
		{"syntax:layer-size-exponent", img(`"config":` + cfgNotationJSON + `,"layers":[{"mediaType":"` + bl.MediaType + `","digest":"` + string(bl.Digest) + `","size":1e2}],"subject":` + subj)},
		{"syntax:annotation-value-number", img(`"config":` + cfgNotationJSON + `,"layers":[` + layer + `],"subject":` + subj + `,"annotations":{"k":7}`)},
		{"syntax:annotation-value-null", img(`"config":` + cfgNotationJSON + `,"layers":[` + layer + `],"subject":` + subj + `,"annotations":{"k":null}`)},
		{"syntax:subject-is-array", img(`"config":` + cfgNotationJSON + `,"layers":[` + layer + `],"subject":[` + subj + `]`)},
		{"syntax:layers-is-object", img(`"config":` + cfgNotationJSON + `,"layers":` + layer + `,"subject":` + subj)},
		{"syntax:leading-white-space", " \n\t" + img(`"config":`+cfgNotationJSON+`,"layers":[`+layer+`],"subject":`+subj) + "\n"},
		{"syntax:escaped-strings", img(`"config":{"mediaType":"application\/vnd.cncf.notary.signature","digest":"sha256:44136fa355b3678a1146ad16f7e8649e94fb4fc21fe77e8310c060f61caaff8a","size":2},"layers":[` + layer + `],"subject":` + subj)},
		{"syntax:document-null", "null"},
		{"syntax:document-array", "[" + subj + "]"},
		{"syntax:document-string", `"` + u() + `"`},
		{"syntax:trailing-garbage", img(`"config":`+cfgNotationJSON+`,"layers":[`+layer+`],"subject":`+subj) + "}"},
		{"syntax:config-type-upper-case", img(`"config":{"mediaType":"APPLICATION/VND.CNCF.NOTARY.SIGNATURE","digest":"sha256:44136fa355b3678a1146ad16f7e8649e94fb4fc21fe77e8310c060f61caaff8a","size":2},"layers":[` + layer + `],"subject":` + subj)},
		{"syntax:config-type-trailing-space", img(`"config":{"mediaType":"application/vnd.cncf.notary.signature ","digest":"sha256:44136fa355b3678a1146ad16f7e8649e94fb4fc21fe77e8310c060f61caaff8a","size":2},"layers":[` + layer + `],"subject":` + subj)},
		{"syntax:subject-mediaType-upper-case-layer-is-subject", img(`"config":` + cfgNotationJSON + `,"layers":[` + subj + `],"subject":` + djson(withMT(s, strings.ToUpper(s.MediaType))))},
		{"syntax:subject-digest-upper-case-layer-is-subject", img(`"config":` + cfgNotationJSON + `,"layers":[` + subj + `],"subject":{"mediaType":"` + s.MediaType + `","digest":"sha256:` + strings.ToUpper(s.Digest.Encoded()) + `","size":` + fmt.Sprint(s.Size) + `}`)},
		{"syntax:subject-digest-algorithm-upper-case-layer-is-subject", img(`"config":` + cfgNotationJSON + `,"layers":[` + subj + `],"subject":{"mediaType":"` + s.MediaType + `","digest":"SHA256:` + s.Digest.Encoded() + `","size":` + fmt.Sprint(s.Size) + `}`)},
	}
	h.sig(s)
	h.sizeVariant = true // upper-case digests in manifest-typed references: oci.New gives up on re-opening
	for i := 0; i < 9; i++ {
		t := texts[(k*7+i)%len(texts)]
		d := h.rawJSON(mtImage, t.txt, t.tag)
		if i%3 == 2 {
			// the same text under the legacy media type and under a media type in another letter case
			h.fetch(withMT(d, mtArtifact))
			h.fetch(withMT(d, "Application/vnd.oci.image.manifest.v1+json"))
			h.fetch(withMT(d, mtImage+" "))
		}
	}
	h.nForeign += 9
	h.sig(o)
	h.sig(s)
	h.addQuery(withMT(s, strings.ToUpper(s.MediaType)))
	h.addQuery(ocispec.Descriptor{MediaType: s.MediaType, Digest: digest.Digest("sha256:" + strings.ToUpper(s.Digest.Encoded())), Size: s.Size})
	h.addQuery(ocispec.Descriptor{MediaType: s.MediaType, Digest: digest.Digest("SHA256:" + s.Digest.Encoded()), Size: s.Size})
	h.sweep()
	h.hostileFetch()
	h.hostileFetch()
}
