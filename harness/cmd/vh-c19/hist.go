package main

import (
	"bytes"
	"context"
	"crypto/sha256"
	"encoding/hex"
	"encoding/json"
	"errors"
	"fmt"
	"io"
	"os"
	"runtime"
	"sort"
	"strings"
	"time"

	. "vh/kit"

	"github.com/notaryproject/notation-go/registry"
	"github.com/opencontainers/go-digest"
	ocispec "github.com/opencontainers/image-spec/specs-go/v1"
	"oras.land/oras-go/v2"
	"oras.land/oras-go/v2/content"
	"oras.land/oras-go/v2/content/oci"
	"oras.land/oras-go/v2/errdef"
)

const (
	mtImage    = ocispec.MediaTypeImageManifest
	mtArtifact = "application/vnd.oci.artifact.manifest.v1+json"
	mtIndex    = ocispec.MediaTypeImageIndex
	mtDMan     = "application/vnd.docker.distribution.manifest.v2+json"
	mtDList    = "application/vnd.docker.distribution.manifest.list.v2+json"
	mtOctet    = "application/octet-stream"
	keyCreated = ocispec.AnnotationCreated
	capM       = 4 * 1024 * 1024
	capB       = 32 * 1024 * 1024
)

// artifact mirrors registry/internal/artifactspec.Artifact (same JSON tags).
type artifact struct {
	MediaType    string               `json:"mediaType"`
	ArtifactType string               `json:"artifactType"`
	Blobs        []ocispec.Descriptor `json:"blobs,omitempty"`
	Subject      *ocispec.Descriptor  `json:"subject,omitempty"`
	Annotations  map[string]string    `json:"annotations,omitempty"`
}

// logTarget logs the digests handed to Fetch; everything else is oci.Store.
// It is neither a registry.Repository nor a registry.ReferrerLister, like the
// store it wraps.
type logTarget struct {
	*oci.Store
}

type hKey struct{}

func hOf(ctx context.Context) *H {
	h, _ := ctx.Value(hKey{}).(*H)
	return h
}

// yield lets other goroutines run inside the window of a library call (concurrency family).
func yield(ctx context.Context) {
	if h := hOf(ctx); h != nil && h.conc {
		runtime.Gosched()
	}
}

func (t logTarget) Fetch(ctx context.Context, d ocispec.Descriptor) (io.ReadCloser, error) {
	if h := hOf(ctx); h != nil {
		h.flog = append(h.flog, string(d.Digest))
	}
	yield(ctx)
	rc, err := t.Store.Fetch(ctx, d)
	yield(ctx)
	return rc, err
}

func (t logTarget) Push(ctx context.Context, d ocispec.Descriptor, r io.Reader) error {
	yield(ctx)
	err := t.Store.Push(ctx, d, r)
	yield(ctx)
	return err
}

func (t logTarget) Exists(ctx context.Context, d ocispec.Descriptor) (bool, error) {
	yield(ctx)
	return t.Store.Exists(ctx, d)
}

func (t logTarget) Predecessors(ctx context.Context, d ocispec.Descriptor) ([]ocispec.Descriptor, error) {
	yield(ctx)
	ps, err := t.Store.Predecessors(ctx, d)
	yield(ctx)
	return ps, err
}

var _ oras.GraphTarget = logTarget{}

type H struct {
	rng   *Rng
	ctx   context.Context
	tier  string
	dir   string
	store *oci.Store
	repo  registry.Repository
	flog  []string

	dgs  map[string]int64
	mts  map[string]int64
	strs map[string]int64

	ops, obs []string
	human    []string
	tags     map[string]bool
	viol     []string

	subjects []ocispec.Descriptor // base subject artifacts
	queries  []ocispec.Descriptor // every descriptor used as a subject (plain)
	envs     []envRec             // envelopes pushed so far
	manis    []ocispec.Descriptor // signature-manifest descriptors known (pushed, listed, hostile)
	blobs    []ocispec.Descriptor // blobs known to be in the store
	lastList map[string][]string  // query key -> sorted item keys of the latest successful listing

	nPushOK, nPush, nForeign, nHostile, nListed, nFetchOK, nRefused int
	sizeVariant                                                      bool // a descriptor with the digest of a subject and another size was used
	reopen                                                           string
	// caller-owned objects handed to consecutive calls as the SAME object (half of the histories)
	share      bool
	sharedAnn  map[string]string
	sharedDesc map[string]ocispec.Descriptor // decorated descriptor (its Annotations map, Platform pointer) per triple
	frameSeen  map[string]bool
	// concurrency family: yields inside the calls, recording switched off after the sample
	conc      bool
	mute      bool
	lastPush  struct {
		cls    int
		bd, md ocispec.Descriptor
	}
	lastFetch struct {
		cls int
		dg  digest.Digest
		n   int
		bd  ocispec.Descriptor
	}
}

type envRec struct {
	mt string
	b  []byte
}

func newH(rng *Rng, tier string, share bool) *H {
	h := &H{rng: rng, tier: tier,
		dgs: map[string]int64{"": 0, string(digest.FromString("{}")): 1},
		mts: map[string]int64{"": 0, mtImage: 1, mtArtifact: 2, mtIndex: 3, mtDMan: 4, mtDList: 5, registry.ArtifactTypeNotation: 6, mtOctet: 7},
		strs: map[string]int64{keyCreated: 1}, tags: map[string]bool{}, lastList: map[string][]string{}}
	h.ctx = context.WithValue(context.Background(), hKey{}, h)
	h.share = share
	h.sharedDesc = map[string]ocispec.Descriptor{}
	h.frameSeen = map[string]bool{}
	return h
}

func (h *H) rec(op, ob, human string) {
	if h.mute {
		return
	}
	h.ops = append(h.ops, op)
	h.obs = append(h.obs, ob)
	h.human = append(h.human, human)
}

func (h *H) caseTerm(id int64) string {
	return CApp("mk_case", CN(id), CApp("mk_input", CList(h.ops)), CList(h.obs))
}

func runHistory(id int64, rng *Rng, tier, base string, total int) (out *histOut) {
	h := newH(rng, tier, id%2 == 0)
	dir, err := os.MkdirTemp(base, "vh-c19-*")
	if err != nil {
		panic(err)
	}
	h.dir = dir
	defer os.RemoveAll(dir)
	st, err := oci.New(dir)
	if err != nil {
		panic(err)
	}
	h.store = st
	h.repo = registry.NewRepository(logTarget{Store: st})
	family := h.generate(id, total)
	h.reopenCheck()
	term := h.caseTerm(id)
	tags := make([]string, 0, len(h.tags))
	for t := range h.tags {
		tags = append(tags, t)
	}
	sort.Strings(tags)
	out = &histOut{id: id, term: term, key: strings.Join(h.ops, ";"),
		desc: map[string]any{"family": family, "history": h.human},
		nontriv: h.nPushOK >= 2 && (h.nForeign+h.nHostile) >= 1 && h.nListed >= 1,
		counts: map[string]string{"family": family, "pushes": bucket(h.nPush), "pushes_ok": bucket(h.nPushOK),
			"foreign": bucket(h.nForeign), "hostile": bucket(h.nHostile), "listed_items": bucket(h.nListed),
			"reopen": h.reopen, "fetch_ok": bucket(h.nFetchOK), "refusals": bucket(h.nRefused), "ops": bucket(len(h.ops) / 4)},
		tags: tags, viol: h.viol}
	return out
}

// ---------- interning and printing ----------

func (h *H) dg(d digest.Digest) string {
	s := string(d)
	v, ok := h.dgs[s]
	if !ok {
		v = int64(len(h.dgs))
		h.dgs[s] = v
	}
	return fmt.Sprint(v)
}

func (h *H) mt(s string) string {
	v, ok := h.mts[s]
	if !ok {
		v = int64(len(h.mts))
		h.mts[s] = v
	}
	return fmt.Sprint(v)
}

func (h *H) str(s string) string {
	v, ok := h.strs[s]
	if !ok {
		v = int64(len(h.strs)) + 1
		h.strs[s] = v
	}
	return fmt.Sprint(v)
}

func cz(i int64) string {
	if i < 0 {
		return fmt.Sprintf("(%d)", i)
	}
	return fmt.Sprint(i)
}

func (h *H) desc(d ocispec.Descriptor) string {
	return "(D " + h.mt(d.MediaType) + " " + h.dg(d.Digest) + " " + cz(d.Size) + ")"
}

func (h *H) descs(ds []ocispec.Descriptor) string {
	items := make([]string, len(ds))
	for i, d := range ds {
		items[i] = h.desc(d)
	}
	return CList(items)
}

func (h *H) ann(m map[string]string) string {
	type kv struct {
		k, v int64
	}
	var kvs []kv
	for k, v := range m {
		var a, b int64
		fmt.Sscan(h.str(k), &a)
		fmt.Sscan(h.str(v), &b)
		kvs = append(kvs, kv{a, b})
	}
	sort.Slice(kvs, func(i, j int) bool { return kvs[i].k < kvs[j].k })
	items := make([]string, len(kvs))
	for i, x := range kvs {
		items[i] = fmt.Sprintf("(%d,%d)", x.k, x.v)
	}
	return CList(items)
}

func triple(a, b ocispec.Descriptor) bool {
	return a.MediaType == b.MediaType && a.Digest == b.Digest && a.Size == b.Size
}

func sameAnn(a, b map[string]string) bool {
	if len(a) != len(b) {
		return false
	}
	for k, v := range a {
		if w, ok := b[k]; !ok || w != v {
			return false
		}
	}
	return true
}

// content asks encoding/json how the bytes read as image manifest, artifact
// manifest and index, and prints the content record.
func (h *H) content(b []byte) string {
	var img ocispec.Manifest
	var art artifact
	var idx ocispec.Index
	eImg := json.Unmarshal(b, &img)
	eArt := json.Unmarshal(b, &art)
	eIdx := json.Unmarshal(b, &idx)
	sz := cz(int64(len(b)))
	if eImg != nil && eArt != nil && eIdx != nil {
		return "(CB " + sz + ")"
	}
	var subj *ocispec.Descriptor
	var annots map[string]string
	var atype string
	set := false
	merge := func(s *ocispec.Descriptor, an map[string]string, at string) {
		if !set {
			subj, annots, atype, set = s, an, at, true
			return
		}
		if (s == nil) != (subj == nil) || (s != nil && !triple(*s, *subj)) || !sameAnn(an, annots) || at != atype {
			panic("c19: the JSON views of one content disagree on subject / annotations / artifactType")
		}
	}
	if eImg == nil {
		merge(img.Subject, img.Annotations, img.ArtifactType)
	}
	if eArt == nil {
		merge(art.Subject, art.Annotations, art.ArtifactType)
	}
	if eIdx == nil {
		merge(idx.Subject, idx.Annotations, idx.ArtifactType)
	}
	var cfg ocispec.Descriptor
	var layers, blobs, manifests []ocispec.Descriptor
	if eImg == nil {
		cfg, layers = img.Config, img.Layers
	}
	if eArt == nil {
		blobs = art.Blobs
	}
	if eIdx == nil {
		manifests = idx.Manifests
	}
	empty := subj == nil && len(annots) == 0 && atype == "" && cfg.MediaType == "" && cfg.Digest == "" && cfg.Size == 0 &&
		len(layers) == 0 && len(blobs) == 0 && len(manifests) == 0
	if empty && eImg == nil && eArt == nil && eIdx == nil {
		return "(CO " + sz + ")"
	}
	s := "None"
	if subj != nil {
		s = "(Some " + h.desc(*subj) + ")"
	}
	m := "(M " + s + " " + h.desc(cfg) + " " + h.descs(layers) + " " + h.mt(atype) + " " + h.descs(blobs) + " " + h.descs(manifests) + " " + h.ann(annots) + ")"
	return "(C " + sz + " " + CBool(eImg == nil) + " " + CBool(eArt == nil) + " " + CBool(eIdx == nil) + " " + m + ")"
}

func isJSONErr(err error) bool {
	var se *json.SyntaxError
	var ute *json.UnmarshalTypeError
	return errors.As(err, &se) || errors.As(err, &ute)
}

func pushClass(err error) int {
	switch {
	case err == nil:
		return 0
	case errors.Is(err, errdef.ErrAlreadyExists):
		return 1
	case errors.Is(err, content.ErrMismatchedDigest), errors.Is(err, content.ErrTrailingData), errors.Is(err, io.ErrUnexpectedEOF), errors.Is(err, content.ErrInvalidDescriptorSize):
		return 2
	case isJSONErr(err):
		return 3
	case errors.Is(err, oras.ErrInvalidDateTimeFormat):
		return 4
	}
	return 9
}

func qkey(d ocispec.Descriptor) string { return d.MediaType + "|" + string(d.Digest) + "|" + fmt.Sprint(d.Size) }

func short(d ocispec.Descriptor) string {
	dg := string(d.Digest)
	if len(dg) > 15 {
		dg = dg[7:15]
	}
	return fmt.Sprintf("%s@%s/%d", d.MediaType, dg, d.Size)
}

func (h *H) guard(what string, f func()) {
	defer func() {
		if r := recover(); r != nil {
			h.viol = append(h.viol, fmt.Sprintf("panic: %s panicked: %v", what, r))
		}
	}()
	f()
}

// ---------- operations ----------

func (h *H) pushSig(mt string, blob []byte, subj ocispec.Descriptor, an map[string]string) {
	h.nPush++
	var bd, md ocispec.Descriptor
	var err error = errors.New("panicked")
	// frame: the caller's annotation map, envelope bytes and subject descriptor are handed over
	// themselves (not copies), snapshotted before and compared after the call
	given := an
	an = copyAnn(given) // what the call was given, for the case term
	preAnn, preSubj, preBlob := snap(given), snap(subj), append([]byte(nil), blob...)
	h.guard("PushSignature", func() { bd, md, err = h.repo.PushSignature(h.ctx, mt, blob, subj, given) })
	yield(h.ctx)
	h.lastPush.cls, h.lastPush.bd, h.lastPush.md = pushClass(err), bd, md
	h.frame("the annotations map handed to PushSignature", preAnn, snap(given))
	h.frame("the subject descriptor handed to PushSignature", preSubj, snap(subj))
	h.frame("the envelope bytes handed to PushSignature", string(preBlob), string(blob))
	cls := pushClass(err)
	now, mdg, msz := "0", "0", "0"
	cvalid := true
	if v, ok := an[keyCreated]; ok {
		_, e := time.Parse(time.RFC3339, v)
		cvalid = e == nil
	}
	res := ""
	if cls == 0 {
		h.nPushOK++
		if _, ok := an[keyCreated]; !ok {
			now = h.str(md.Annotations[keyCreated])
		}
		mdg, msz = h.dg(md.Digest), cz(md.Size)
		res = "(RPush 0 " + h.desc(bd) + " " + h.desc(md) + " " + h.ann(md.Annotations) + ")"
		h.manis = append(h.manis, ocispec.Descriptor{MediaType: md.MediaType, Digest: md.Digest, Size: md.Size})
		h.blobs = append(h.blobs, bd)
		h.envs = append(h.envs, envRec{mt, blob})
	} else {
		res = fmt.Sprintf("(RPush %d d0 d0 [])", cls)
	}
	blobDg := digest.FromBytes(blob)
	p := "(P " + h.mt(mt) + " " + h.dg(blobDg) + " " + h.content(blob) + " " + h.desc(subj) + " " + h.ann(an) + " " + now + " " + CBool(cvalid) + " " + mdg + " " + msz + ")"
	h.rec("OpPush "+p, res, fmt.Sprintf("PushSignature(%q, %d bytes sha256:%s.., subject %s, %d annotations) -> class %d %v", mt, len(blob), hex.EncodeToString(sha256sum(blob))[:8], short(subj), len(an), cls, errStr(err)))
	h.addQuery(subj)
}

func snap(v any) string {
	b, err := json.Marshal(v)
	if err != nil {
		panic(err)
	}
	return string(b)
}

func copyAnn(m map[string]string) map[string]string {
	if m == nil {
		return nil
	}
	c := make(map[string]string, len(m))
	for k, v := range m {
		c[k] = v
	}
	return c
}

// frame records a mutation of a caller-owned object by the library.
func (h *H) frame(what, before, after string) {
	if before != after && !h.frameSeen[what] {
		h.frameSeen[what] = true
		h.viol = append(h.viol, "frame: library mutated caller-owned "+what)
	}
}

func sha256sum(b []byte) []byte { s := sha256.Sum256(b); return s[:] }

func errStr(err error) string {
	if err == nil {
		return ""
	}
	s := err.Error()
	if len(s) > 160 {
		s = s[:160]
	}
	return s
}

func (h *H) addQuery(d ocispec.Descriptor) {
	p := ocispec.Descriptor{MediaType: d.MediaType, Digest: d.Digest, Size: d.Size}
	for _, q := range h.queries {
		if triple(q, p) {
			return
		}
	}
	h.queries = append(h.queries, p)
}

// raw pushes content through oras directly onto the store.
func (h *H) raw(d ocispec.Descriptor, b []byte, tag string) int {
	h.tags[tag] = true
	var err error = errors.New("panicked")
	h.guard("oci.Store.Push", func() { err = h.store.Push(h.ctx, d, bytes.NewReader(b)) })
	cls := pushClass(err)
	// the content is identified by its real digest; a descriptor with another digest is not generated
	h.rec("OpRaw "+h.desc(d)+" "+h.content(b), fmt.Sprintf("(RRaw %d)", cls), fmt.Sprintf("raw push [%s] %s (%d bytes) -> class %d %v", tag, short(d), len(b), cls, errStr(err)))
	return cls
}

func (h *H) logTerm() string {
	items := make([]string, len(h.flog))
	for i, s := range h.flog {
		items[i] = h.dg(digest.Digest(s))
	}
	return CList(items)
}

func (h *H) list(q ocispec.Descriptor) []ocispec.Descriptor {
	h.flog = h.flog[:0]
	var got []ocispec.Descriptor
	var err error = errors.New("panicked")
	preQ := snap(q)
	h.guard("ListSignatures", func() {
		err = h.repo.ListSignatures(h.ctx, q, func(ms []ocispec.Descriptor) error {
			yield(h.ctx)
			for i := range ms {
				m := ms[i]
				m.Annotations = copyAnn(m.Annotations)
				got = append(got, m)
				// the caller then scribbles over what it was handed: later listings must not show it
				if ms[i].Annotations != nil {
					for k := range ms[i].Annotations {
						delete(ms[i].Annotations, k)
					}
					ms[i].Annotations["scribbled-by-caller"] = "x"
				}
				ms[i] = ocispec.Descriptor{MediaType: "scribbled", Size: -7}
			}
			return nil
		})
	})
	h.frame("the descriptor handed to ListSignatures", preQ, snap(q))
	cls := 0
	if err != nil {
		switch {
		case strings.Contains(err.Error(), "referrer node too large"):
			cls = 1
		case isJSONErr(err):
			cls = 3
		default:
			cls = 2
		}
		got = nil
		h.nRefused++
	}
	items := make([]string, len(got))
	keys := make([]string, len(got))
	for i, m := range got {
		items[i] = "(I " + h.desc(m) + " " + h.mt(m.ArtifactType) + " " + h.ann(m.Annotations) + ")"
		keys[i] = items[i]
		h.manis = append(h.manis, ocispec.Descriptor{MediaType: m.MediaType, Digest: m.Digest, Size: m.Size})
	}
	sort.Strings(keys)
	if cls == 0 {
		h.lastList[qkey(q)] = keys
	} else {
		delete(h.lastList, qkey(q))
	}
	h.nListed += len(got)
	h.rec("OpList "+h.desc(q), fmt.Sprintf("(RList %d %s %s)", cls, CList(items), h.logTerm()), fmt.Sprintf("ListSignatures(%s) -> class %d, %d manifests, %d fetches %v", short(q), cls, len(got), len(h.flog), errStr(err)))
	return got
}

func (h *H) fetch(d ocispec.Descriptor) {
	h.flog = h.flog[:0]
	var blob []byte
	var bd ocispec.Descriptor
	var err error = errors.New("panicked")
	preD := snap(d)
	h.guard("FetchSignatureBlob", func() { blob, bd, err = h.repo.FetchSignatureBlob(h.ctx, d) })
	if h.conc { // the window between the return of the call and the use of the bytes
		for k := 0; k < 3; k++ {
			runtime.Gosched()
		}
	}
	h.lastFetch.cls, h.lastFetch.dg, h.lastFetch.n, h.lastFetch.bd = 0, digest.FromBytes(blob), len(blob), bd
	if err != nil {
		h.lastFetch.cls = 9
	}
	h.frame("the descriptor handed to FetchSignatureBlob", preD, snap(d))
	defer func() { // the caller scribbles over the returned bytes and descriptor: later fetches must not show it
		for i := range blob {
			blob[i] ^= 0xff
		}
		for k := range bd.Annotations {
			delete(bd.Annotations, k)
		}
	}()
	cls := 0
	if err != nil {
		msg := err.Error()
		switch {
		case strings.HasPrefix(msg, "sigManifestDesc.MediaType requires"):
			cls = 1
		case strings.HasPrefix(msg, "signature manifest too large"):
			cls = 2
		case strings.HasPrefix(msg, "signature blob too large"):
			cls = 6
		case strings.HasPrefix(msg, "signature manifest requries exactly one"):
			cls = 5
		case isJSONErr(err):
			cls = 4
		default:
			cls = 3
		}
		h.nRefused++
	}
	res := ""
	if cls == 0 {
		h.nFetchOK++
		res = "(RFetch 0 " + h.dg(digest.FromBytes(blob)) + " " + h.desc(bd) + " " + h.logTerm() + ")"
	} else {
		res = fmt.Sprintf("(RFetch %d 0 d0 %s)", cls, h.logTerm())
	}
	h.rec("OpFetch "+h.desc(d), res, fmt.Sprintf("FetchSignatureBlob(%s) -> class %d, %d bytes, blob %s, %d fetches %v", short(d), cls, len(blob), short(bd), len(h.flog), errStr(err)))
}

// reopenCheck re-opens the layout with registry.NewOCIRepository and compares
// the listings of every subject with the latest live listing.
func (h *H) reopenCheck() {
	if len(h.lastList) == 0 {
		h.reopen = "not-compared(no successful listing)"
		return
	}
	h.guard("NewOCIRepository", func() {
		repo, err := registry.NewOCIRepository(h.dir, registry.RepositoryOptions{})
		if err != nil {
			// oras-go's oci.New indexes the whole graph and gives up on a stored manifest that is
			// referenced with another size (a subject descriptor differing in the size field) or on a
			// manifest-typed reference whose digest string is invalid (upper-case hex):
			// outside registry/repository.go, counted and reported, not a violation of C19
			if h.sizeVariant && strings.Contains(err.Error(), "invalid OCI Image Index") {
				h.reopen = "layout-not-reopenable(a manifest-typed reference with another size or an invalid digest)"
				return
			}
			h.viol = append(h.viol, "reopen: NewOCIRepository failed on the layout just written: "+err.Error())
			return
		}
		h.reopen = "same-listings"

		for _, q := range h.queries {
			want, ok := h.lastList[qkey(q)]
			if !ok {
				continue
			}
			var keys []string
			err := repo.ListSignatures(h.ctx, q, func(ms []ocispec.Descriptor) error {
				for _, m := range ms {
					keys = append(keys, "(I "+h.desc(m)+" "+h.mt(m.ArtifactType)+" "+h.ann(m.Annotations)+")")
				}
				return nil
			})
			sort.Strings(keys)
			if err != nil || strings.Join(keys, ";") != strings.Join(want, ";") {
				h.viol = append(h.viol, fmt.Sprintf("reopen: listing of %s after re-opening the layout differs from the live listing (%d vs %d manifests, err %v)", short(q), len(keys), len(want), err))
			}
		}
	})
}
