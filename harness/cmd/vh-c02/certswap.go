package main

// Replacing the certificate chain of a signed envelope (it lives in the unprotected header of both
// formats): the harness signs with a chain that is valid at the signing time and swaps in a chain with
// the SAME keys and other validity windows. notation-core-go refuses to SIGN with a certificate that is
// not valid at the signing time, but such an envelope verifies (integrity passes): the genuine failure
// of the authentic-timestamp validation under the signing scheme notary.x509.signingAuthority.

import (
	"crypto/x509"
	"encoding/base64"
	"encoding/json"

	"github.com/veraison/go-cose"
	. "vh/kit"
)

func withCerts(format string, env []byte, certs []*x509.Certificate) []byte {
	switch format {
	case MtJWS:
		var m map[string]json.RawMessage
		if err := json.Unmarshal(env, &m); err != nil {
			panic(err)
		}
		var h map[string]any
		if err := json.Unmarshal(m["header"], &h); err != nil {
			panic(err)
		}
		x5c := make([]string, len(certs))
		for i, c := range certs {
			x5c[i] = base64.StdEncoding.EncodeToString(c.Raw)
		}
		h["x5c"] = x5c
		hb, err := json.Marshal(h)
		if err != nil {
			panic(err)
		}
		m["header"] = hb
		out, err := json.Marshal(m)
		if err != nil {
			panic(err)
		}
		return out
	default:
		var msg cose.Sign1Message
		if err := msg.UnmarshalCBOR(env); err != nil {
			panic(err)
		}
		x5 := make([]any, len(certs))
		for i, c := range certs {
			x5[i] = c.Raw
		}
		msg.Headers.Unprotected[cose.HeaderLabelX5Chain] = x5
		msg.Headers.RawUnprotected = nil // re-encode the edited map (the protected bucket keeps its signed bytes)
		out, err := msg.MarshalCBOR()
		if err != nil {
			panic(err)
		}
		return out
	}
}
