package main

// C02 driver: realises scenarios (level x native validation facts x plugin
// situation x plugin verdicts x critical attributes) on the real
// verifier.Verify with injected trust store, revocation validator, plugin
// manager and plugin, and prints (input, observation) cases for C02_Model.

import (
	"context"
	"errors"
	"fmt"
	"sort"
	"strings"
	"time"

	revresult "github.com/notaryproject/notation-core-go/revocation/result"
	"github.com/notaryproject/notation-core-go/signature"
	"github.com/notaryproject/notation-go"
	"github.com/notaryproject/notation-go/verifier"
	"github.com/notaryproject/notation-go/verifier/trustpolicy"
	"github.com/notaryproject/notation-go/verifier/truststore"
	pluginfw "github.com/notaryproject/notation-plugin-framework-go/plugin"
	"github.com/opencontainers/go-digest"
	ocispec "github.com/opencontainers/image-spec/specs-go/v1"
	"golang.org/x/mod/semver"
	. "vh/kit"
)

func main() { Main("c02", run) }

const (
	hdrPlugin = "io.cncf.notary.verificationPlugin"
	hdrMinVer = "io.cncf.notary.verificationPluginMinVersion"
)

// attribute states
const (
	aAbsent = iota
	aNotCritical
	aNotString
	aStr
)

type attrSpec struct {
	State int    `json:"state"`
	Val   string `json:"val,omitempty"`
}

func (a attrSpec) coq() string {
	switch a.State {
	case aAbsent:
		return "AAbsent"
	case aNotCritical:
		return "ANotCritical"
	case aNotString:
		return "ANotString"
	}
	return CApp("AStr", CStr(a.Val))
}

type scen struct {
	Level     string            `json:"level"`
	Override  map[string]string `json:"override,omitempty"`
	Format    string            `json:"format"`
	Integrity bool              `json:"integrity_ok"`
	Plugin    attrSpec          `json:"plugin_attr"`
	MinVer    attrSpec          `json:"minver_attr"`
	OtherCrit []string          `json:"other_critical"`
	OtherNon  []string          `json:"other_noncritical,omitempty"`
	NonString bool              `json:"nonstring_critical"`
	Auth      int               `json:"auth"`
	Identity  bool              `json:"identity_ok"`
	Expired   bool              `json:"expired"`
	TsOK      bool              `json:"timestamp_ok"`
	RevOK     bool              `json:"revocation_ok"`
	RevMode   int               `json:"revocation_mode"` // 0 ok, 1 revoked, 2 unknown, 3 validator error
	PM        int               `json:"pm"` // 0 nil, 1 not installed, 2 metadata error, 3 plugin
	Version   string            `json:"plugin_version,omitempty"`
	Caps      []string          `json:"caps,omitempty"` // TI, Rev, Other
	RespErr   bool              `json:"plugin_error"`
	Processed []string          `json:"processed,omitempty"`
	TI        int               `json:"ti_verdict"` // 0 missing, 1 success, 2 failure, 3 nil entry
	Rev       int               `json:"rev_verdict"`
	// observation
	ObsErr     string   `json:"obs_err"`
	ObsResults []string `json:"obs_results"`
	ObsBuilt   bool     `json:"obs_verifier_built"`
}

type envKey struct {
	format               string
	plugin, minver       attrSpec
	other, othernon      string
	nonstring            bool
	expired, chainExpird bool
	integrity            bool
}

func capCoq(c string) string {
	switch c {
	case "TI":
		return "CapTI"
	case "Rev":
		return "CapRev"
	}
	return "CapOther"
}

func capFw(c string) pluginfw.Capability {
	switch c {
	case "TI":
		return pluginfw.CapabilityTrustedIdentityVerifier
	case "Rev":
		return pluginfw.CapabilityRevocationCheckVerifier
	}
	return pluginfw.CapabilitySignatureGenerator
}

func sameErr(a, b error) (eq bool) {
	defer func() {
		if recover() != nil {
			eq = false
		}
	}()
	return a == b
}

func run(a *Args) error {
	rng := NewRng(a.Seed)
	prelude := "From NV Require Import Base Regex Generated C02_Levels VerifyCore C02_Model.\nOpen Scope string_scope.\n"
	w := NewCaseWriter(a, "C02", prelude, "case", "run")
	w.Rule = "scenarios realised on the real verifier.Verify: every (base level, legal override) combination cycled (all 24 enforcement maps) x {trust anchor found, store load error, empty store, untrusted chain} x identity match x expired x certificate-time valid x revocation ok/revoked x plugin situation {none, malformed attributes, no manager, not installed, metadata error, invalid or too low version, no verification capability, trusted-identity, revocation, both, either order, with foreign capabilities} x verdicts {success, failure, missing, nil} x critical attributes {none, processed, unprocessed, integer-labelled}, both envelope formats; plus illegal levels/overrides. non-trivial = at least one failed validation or a plugin attribute present; distinct = distinct scenario tuples"
	w.Assumptions = []string{
		"plugin metadata lists each verification capability at most once (wf_sc)",
		"semver validity/order of plugin versions are oracle facts computed with golang.org/x/mod/semver on a fixed version table (semantics proved in C20)",
		"native validation facts (authentic, identity, expiry, certificate time, revocation) are realised with real certificates, stores and validators and confirmed per case by construction of the scenario; their own semantics are C03/C04/C05/C06",
	}
	now := time.Now()
	good := NewChain("c02 good", 3, now.Add(-96*time.Hour), now.Add(96*time.Hour))
	old := NewChain("c02 old", 3, now.Add(-96*time.Hour), now.Add(-24*time.Hour))
	other := NewChain("c02 unrelated", 2, now.Add(-96*time.Hour), now.Add(96*time.Hour))
	desc := ocispec.Descriptor{MediaType: "application/vnd.oci.image.manifest.v1+json", Digest: digest.Digest(strings.TrimPrefix(TestRef, TestScope+"@")), Size: 528}
	payload := PayloadFor(desc)
	envCache := map[envKey][]byte{}
	getEnv := func(k envKey) []byte {
		if b, ok := envCache[k]; ok {
			return b
		}
		var attrs []signature.Attribute
		mk := func(key string, s attrSpec) {
			switch s.State {
			case aNotCritical:
				attrs = append(attrs, signature.Attribute{Key: key, Critical: false, Value: "plug"})
			case aNotString:
				attrs = append(attrs, signature.Attribute{Key: key, Critical: true, Value: 42})
			case aStr:
				attrs = append(attrs, signature.Attribute{Key: key, Critical: true, Value: s.Val})
			}
		}
		mk(hdrPlugin, k.plugin)
		mk(hdrMinVer, k.minver)
		if k.other != "" {
			for _, o := range strings.Split(k.other, ",") {
				attrs = append(attrs, signature.Attribute{Key: o, Critical: true, Value: "v-" + o})
			}
		}
		if k.nonstring {
			attrs = append(attrs, signature.Attribute{Key: int64(1000), Critical: true, Value: "int-labelled"})
		}
		chain := good
		st := now.Add(-2 * time.Hour)
		if k.chainExpird {
			chain = old
			st = now.Add(-48 * time.Hour)
		}
		var exp time.Time
		if k.expired {
			exp = st.Add(30 * time.Minute)
		}
		b, err := SignEnvelope(EnvSpec{Format: k.format, Chain: chain, Payload: payload, SigningTime: st, Expiry: exp, ExtAttrs: attrs})
		if err != nil {
			panic(fmt.Sprintf("c02: sign %+v: %v", k, err))
		}
		if !k.integrity {
			// corrupt the envelope: flip a byte near the end (signature / payload area)
			c := append([]byte(nil), b...)
			pos := len(c) - 20
			c[pos] ^= 0x01
			if _, err := CoreVerify(k.format, c); err == nil {
				// the flip did not invalidate it: replace by garbage
				c = []byte("not an envelope")
			}
			b = c
		} else if _, err := CoreVerify(k.format, b); err != nil {
			panic(fmt.Sprintf("c02: oracle rejects a fresh envelope: %v", err))
		}
		envCache[k] = b
		return b
	}

	// all legal (level, override) combinations, cycled
	type lv struct {
		name string
		ov   map[string]string
	}
	var levels []lv
	opt := func(t string, acts ...string) []map[string]string {
		out := []map[string]string{{}}
		for _, x := range acts {
			out = append(out, map[string]string{t: x})
		}
		return out
	}
	for _, n := range []string{"strict", "permissive", "audit"} {
		for _, o1 := range opt("authenticity", "enforce", "log") {
			for _, o2 := range opt("authenticTimestamp", "enforce", "log") {
				for _, o3 := range opt("expiry", "enforce", "log") {
					for _, o4 := range opt("revocation", "enforce", "log", "skip") {
						m := map[string]string{}
						for _, o := range []map[string]string{o1, o2, o3, o4} {
							for k, v := range o {
								m[k] = v
							}
						}
						levels = append(levels, lv{n, m})
					}
				}
			}
		}
	}
	Shuffle(rng, levels)

	versions := []string{"1.2.0", "1.2.0", "1.2.0", "0.9.0", "2.0.0-rc.1", "v1", "1.2"}
	minvers := []string{"1.0.0", "1.2.0", "1.10.0", "2.0.0", "1.0", "  ", "x"}
	capSets := [][]string{{}, {"Other"}, {"TI"}, {"Rev"}, {"TI", "Rev"}, {"Rev", "TI"}, {"Other", "TI"}, {"Rev", "Other"}, {"TI", "Other", "Rev"}}
	otherSets := [][]string{{}, {}, {"foo"}, {"bar", "foo"}}

	var id int64
	exec := func(s *scen) {
		my := id
		id++
		if !w.Want(my) {
			return
		}
		// ---- realise ----
		ov := map[trustpolicy.ValidationType]trustpolicy.ValidationAction{}
		for k, v := range s.Override {
			ov[trustpolicy.ValidationType(k)] = trustpolicy.ValidationAction(v)
		}
		if len(ov) == 0 {
			ov = nil
		}
		identities := []string{"*"}
		if !s.Identity {
			identities = []string{"x509.subject: CN=somebody else,O=Verif,ST=WA,C=US"}
		}
		doc := OCIPolicy(s.Level, ov, []string{"ca:s"}, identities, "")
		store := NewMockStore()
		switch s.Auth {
		case 0:
			store.Put(truststore.TypeCA, "s", good[2].C, old[2].C)
		case 1:
			store.Fail[StoreKey{Type: truststore.TypeCA, Name: "s"}] = true
		case 2:
			store.Put(truststore.TypeCA, "s")
		case 3:
			store.Put(truststore.TypeCA, "s", other[1].C)
		}
		nChain := 3
		var results []*revresult.CertRevocationResult
		for i := 0; i < nChain; i++ {
			r := revresult.ResultOK
			if !s.RevOK && i == 0 {
				r = revresult.ResultRevoked
			}
			results = append(results, &revresult.CertRevocationResult{Result: r})
		}
		script, revCalls := NewRevScript(results, nil)
		opts := verifier.VerifierOptions{OCITrustPolicy: doc, RevocationCodeSigningValidator: script.Validator()}
		var mgr *MockManager
		var plug *MockPlugin
		if s.PM != 0 {
			mgr = &MockManager{Plugins: map[string]*MockPlugin{}}
			opts.PluginManager = mgr
			if s.PM >= 2 && s.Plugin.State == aStr {
				plug = &MockPlugin{}
				mgr.Plugins[s.Plugin.Val] = plug
				if s.PM == 2 {
					plug.MetaErr = errors.New("mock: metadata failure")
				} else {
					var caps []pluginfw.Capability
					for _, c := range s.Caps {
						caps = append(caps, capFw(c))
					}
					plug.Meta = &pluginfw.GetMetadataResponse{Name: s.Plugin.Val, Version: s.Version, Capabilities: caps,
						Description: "d", URL: "u", SupportedContractVersions: []string{"1.0"}}
					if s.RespErr {
						plug.VerifyErr = errors.New("mock: plugin failure")
					} else {
						vr := map[pluginfw.Capability]*pluginfw.VerificationResult{}
						set := func(c pluginfw.Capability, v int) {
							switch v {
							case 1:
								vr[c] = &pluginfw.VerificationResult{Success: true}
							case 2:
								vr[c] = &pluginfw.VerificationResult{Success: false, Reason: "mock says no"}
							case 3:
								vr[c] = nil
							}
						}
						set(pluginfw.CapabilityTrustedIdentityVerifier, s.TI)
						set(pluginfw.CapabilityRevocationCheckVerifier, s.Rev)
						var processed []interface{}
						for _, p := range s.Processed {
							processed = append(processed, p)
						}
						plug.Resp = &pluginfw.VerifySignatureResponse{VerificationResults: vr, ProcessedAttributes: processed}
					}
				}
			}
		}
		v, err := verifier.NewVerifierWithOptions(store, opts)
		obs := "None"
		if err == nil {
			s.ObsBuilt = true
			env := getEnv(envKey{s.Format, s.Plugin, s.MinVer, strings.Join(s.OtherCrit, ","), s.NonString, s.Expired, !s.TsOK, s.Integrity})
			outcome, verr := v.Verify(context.Background(), desc, env, notation.VerifierVerifyOptions{ArtifactReference: TestRef, SignatureMediaType: s.Format})
			// error class
			errT := "ENone"
			if verr != nil {
				errT = ""
				if outcome != nil {
					for _, r := range outcome.VerificationResults {
						if r != nil && r.Error != nil && sameErr(r.Error, verr) {
							errT = CApp("EResult", vtypeCoq(r.Type))
							break
						}
					}
				}
				if errT == "" {
					var inc notation.ErrorVerificationInconclusive
					if errors.As(verr, &inc) {
						errT = "EInconclusive"
					} else {
						errT = "EOther"
					}
				}
			}
			s.ObsErr = errT
			var rs []string
			if outcome != nil {
				for _, r := range outcome.VerificationResults {
					if r == nil {
						continue
					}
					rs = append(rs, CApp("mk_res", vtypeCoq(r.Type), CApp("parse_action", CStr(string(r.Action))), CBool(r.Error != nil)))
					s.ObsResults = append(s.ObsResults, fmt.Sprintf("%s/%s/failed=%v", r.Type, r.Action, r.Error != nil))
				}
			}
			var gets []string
			if mgr != nil {
				gets = mgr.Gets
			}
			execT := "None"
			if plug != nil && len(plug.VerifyReq) > 0 {
				req := plug.VerifyReq[0]
				var cs []string
				for _, c := range req.TrustPolicy.SignatureVerification {
					switch c {
					case pluginfw.CapabilityTrustedIdentityVerifier:
						cs = append(cs, "CapTI")
					case pluginfw.CapabilityRevocationCheckVerifier:
						cs = append(cs, "CapRev")
					default:
						cs = append(cs, "CapOther")
					}
				}
				un := append([]string(nil), req.Signature.UnprocessedAttributes...)
				sort.Strings(un)
				execT = CSome(CPair(CList(cs), CStrList(un)))
				if len(plug.VerifyReq) > 1 {
					execT = CSome(CPair(CList(append(cs, "CapOther", "CapOther")), CStrList(un))) // executed twice: never matches the model
				}
			}
			obs = CSome(CApp("mk_obs", errT, CList(rs), CBool(len(*revCalls) > 0), CStrList(gets), execT))
		}
		// ---- input term ----
		pm := "PMNil"
		switch s.PM {
		case 1:
			pm = "PMNotInstalled"
		case 2:
			pm = "PMMetaErr"
		case 3:
			valid := validSemver[s.Version]
			ge := true
			if s.MinVer.State == aStr {
				ge = semver.Compare("v"+s.Version, "v"+s.MinVer.Val) != -1
			}
			var cs []string
			for _, c := range s.Caps {
				cs = append(cs, capCoq(c))
			}
			pm = CApp("PMPlugin", CBool(valid), CBool(ge), CList(cs))
		}
		if s.PM >= 1 && s.Plugin.State != aStr {
			// the manager is present but never consulted for a name; any pm value
			// is equivalent for the model: keep PMNotInstalled
			pm = "PMNotInstalled"
		}
		presp := "PErr"
		if !s.RespErr {
			verd := func(v int) string {
				switch v {
				case 1:
					return "(Some true)"
				case 2:
					return "(Some false)"
				}
				return "None"
			}
			presp = CApp("PResp", CStrList(s.Processed), verd(s.TI), verd(s.Rev))
		}
		minValid := s.MinVer.State == aStr && validSemver[s.MinVer.Val]
		other := append([]string(nil), s.OtherCrit...)
		sort.Strings(other)
		sc := CApp("mk_sc", CBool(s.Integrity), s.Plugin.coq(), s.MinVer.coq(), CBool(minValid), CStrList(other), CBool(s.NonString),
			CN(int64(s.Auth)), CBool(s.Identity), CBool(s.Expired), CBool(s.TsOK), CBool(s.RevOK), pm, presp)
		in := CApp("mk_input", CStr(s.Level), CMap(s.Override), sc)
		term := CApp("mk_case", CN(my), in, obs)
		nontriv := s.Plugin.State != aAbsent || s.Auth != 0 || !s.Identity || s.Expired || !s.TsOK || !s.RevOK || len(s.OtherCrit) > 0 || s.NonString
		key := fmt.Sprintf("%+v", *s)
		if i := strings.Index(key, "ObsErr"); i > 0 {
			key = key[:i]
		}
		w.Add(my, term, s, key, nontriv)
		w.Count("level", s.Level)
		w.Count("plugin_attr", fmt.Sprint(s.Plugin.State))
		w.Count("pm", fmt.Sprint(s.PM))
		w.Count("obs_err", strings.Trim(strings.SplitN(s.ObsErr, " ", 2)[0], "("))
		w.Count("auth", fmt.Sprint(s.Auth))
		w.Count("built", fmt.Sprint(s.ObsBuilt))
		nf := 0
		for _, b := range []bool{s.Auth != 0, !s.Identity, s.Expired, !s.TsOK, !s.RevOK} {
			if b {
				nf++
			}
		}
		w.Count("simultaneous_native_failures", fmt.Sprint(nf))
	}

	gen := func(k int) *scen {
		l := levels[k%len(levels)]
		s := &scen{Level: l.name, Override: l.ov, Format: Pick(rng, []string{MtJWS, MtCOSE}), Integrity: true,
			Identity: true, TsOK: true, RevOK: true, TI: 1, Rev: 1}
		if rng.Chance(1, 40) {
			s.Integrity = false
		}
		// native failures: each with probability ~1/4, at least pairs appear often
		if rng.Chance(1, 3) {
			s.Auth = 1 + rng.Intn(3)
		}
		s.Identity = !rng.Chance(1, 4)
		s.Expired = rng.Chance(1, 4)
		s.TsOK = !rng.Chance(1, 4)
		s.RevOK = !rng.Chance(1, 4)
		s.OtherCrit = append([]string(nil), Pick(rng, otherSets)...)
		if s.Format == MtCOSE && rng.Chance(1, 12) {
			s.NonString = true
		}
		if rng.Chance(1, 2) {
			// no plugin demanded; sometimes a stray min-version attribute
			if rng.Chance(1, 10) {
				s.MinVer = attrSpec{State: 1 + rng.Intn(3), Val: "1.0.0"}
				if s.MinVer.State != aStr {
					s.MinVer.Val = ""
				}
			}
			s.PM = rng.Intn(2)
			return s
		}
		// plugin demanded
		switch rng.Intn(12) {
		case 0:
			s.Plugin = attrSpec{State: aNotCritical}
		case 1:
			s.Plugin = attrSpec{State: aNotString}
		case 2:
			s.Plugin = attrSpec{State: aStr, Val: Pick(rng, []string{"", " ", " \t "})}
		default:
			s.Plugin = attrSpec{State: aStr, Val: Pick(rng, []string{"plug", "plug", "other-plugin", " padded "})}
		}
		switch rng.Intn(10) {
		case 0:
			s.MinVer = attrSpec{State: aNotCritical}
		case 1:
			s.MinVer = attrSpec{State: aNotString}
		case 2, 3, 4:
			s.MinVer = attrSpec{State: aStr, Val: Pick(rng, minvers)}
		}
		switch rng.Intn(10) {
		case 0:
			s.PM = 0
		case 1:
			s.PM = 1
		case 2:
			s.PM = 2
		default:
			s.PM = 3
		}
		s.Version = Pick(rng, versions)
		s.Caps = append([]string(nil), Pick(rng, capSets)...)
		s.RespErr = rng.Chance(1, 12)
		switch rng.Intn(4) {
		case 0:
			s.Processed = nil
		case 1:
			if len(s.OtherCrit) > 0 {
				s.Processed = s.OtherCrit[:len(s.OtherCrit)-1]
			}
		default:
			s.Processed = append([]string{"extra"}, s.OtherCrit...)
		}
		s.TI = Pick(rng, []int{1, 1, 1, 2, 2, 0, 3})
		s.Rev = Pick(rng, []int{1, 1, 1, 2, 2, 0, 3})
		return s
	}

	// 1. corpus: the scenarios of the fixed defects and of the known finding
	corpus := []*scen{
		// F12a: critical attribute, no plugin named
		{Level: "strict", Format: MtJWS, Integrity: true, Identity: true, TsOK: true, RevOK: true, OtherCrit: []string{"foo"}},
		// F15: integer-labelled critical attribute (COSE)
		{Level: "strict", Format: MtCOSE, Integrity: true, Identity: true, TsOK: true, RevOK: true, NonString: true},
		{Level: "strict", Format: MtCOSE, Integrity: true, Identity: true, TsOK: true, RevOK: true, NonString: true,
			Plugin: attrSpec{State: aStr, Val: "plug"}, PM: 3, Version: "1.2.0", Caps: []string{"TI"}, TI: 1, Rev: 1},
		// F12b (known finding): plugin with only the revocation capability, revocation skipped, critical attribute
		{Level: "strict", Override: map[string]string{"revocation": "skip"}, Format: MtJWS, Integrity: true, Identity: true, TsOK: true, RevOK: true,
			OtherCrit: []string{"foo"}, Plugin: attrSpec{State: aStr, Val: "plug"}, PM: 3, Version: "1.2.0", Caps: []string{"Rev"}, TI: 1, Rev: 1},
		// lone critical min-version attribute
		{Level: "strict", Format: MtJWS, Integrity: true, Identity: true, TsOK: true, RevOK: true, MinVer: attrSpec{State: aStr, Val: "1.0.0"}},
	}
	for _, s := range corpus {
		exec(s)
	}
	// 2. illegal levels / overrides: the verifier must not be constructed
	illegal := []lv{
		{"strict", map[string]string{"integrity": "log"}},
		{"strict", map[string]string{"integrity": "enforce"}},
		{"permissive", map[string]string{"authenticity": "skip"}},
		{"audit", map[string]string{"expiry": "skip"}},
		{"strict", map[string]string{"authenticTimestamp": "skip"}},
		{"strict", map[string]string{"revocation": "ignore"}},
		{"strict", map[string]string{"Revocation": "skip"}},
		{"strict", map[string]string{"revocations": "log"}},
		{"strict", map[string]string{"expiry": ""}},
		{"skip", map[string]string{"revocation": "skip"}},
		{"skip", map[string]string{"expiry": "log"}},
		{"Strict", nil}, {"", nil}, {"custom", nil}, {"strict ", nil},
		{"audit", map[string]string{"revocation": "skip", "authenticity": "skip"}},
	}
	for _, l := range illegal {
		exec(&scen{Level: l.name, Override: l.ov, Format: MtJWS, Integrity: true, Identity: true, TsOK: true, RevOK: true})
	}
	// 3. stratified random scenarios
	n := 3800
	if a.Tier == "thorough" {
		n = 70000
	}
	for k := 0; k < n; k++ {
		exec(gen(k))
	}
	return w.Close()
}

// validity of the version strings used by this driver under SemVer 2.0 (a fixed
// table: the oracle is the specification, not the code under test)
var validSemver = map[string]bool{"1.2.0": true, "0.9.0": true, "2.0.0-rc.1": true, "v1": false, "1.2": false,
	"1.0.0": true, "1.10.0": true, "2.0.0": true, "1.0": false, "  ": false, "x": false}

func vtypeCoq(t trustpolicy.ValidationType) string {
	switch t {
	case trustpolicy.TypeIntegrity:
		return "TIntegrity"
	case trustpolicy.TypeAuthenticity:
		return "TAuth"
	case trustpolicy.TypeExpiry:
		return "TExpiry"
	case trustpolicy.TypeAuthenticTimestamp:
		return "TTimestamp"
	case trustpolicy.TypeRevocation:
		return "TRev"
	}
	return "TIntegrity"
}
