package main

// C02 driver: realises scenarios (level x native validation facts x plugin
// situation x plugin verdicts x critical attributes) on the real
// verifier.Verify with injected trust store, revocation validator, plugin
// manager and plugin, and prints (input, observation) cases for C02_Model.

import (
	"context"
	"crypto/sha256"
	"crypto/x509"
	"encoding/json"
	"errors"
	"fmt"
	"sort"
	"strings"
	"time"

	revresult "github.com/notaryproject/notation-core-go/revocation/result"
	"github.com/notaryproject/notation-core-go/signature"
	"github.com/notaryproject/notation-go"
	"github.com/notaryproject/notation-go/verifier"
	"github.com/notaryproject/notation-go/verifier/trustpolicy"
	"github.com/notaryproject/notation-go/verifier/truststore"
	pluginfw "github.com/notaryproject/notation-plugin-framework-go/plugin"
	"github.com/opencontainers/go-digest"
	ocispec "github.com/opencontainers/image-spec/specs-go/v1"
	. "vh/kit"
)

func main() { Main("c02", run) }

const (
	hdrPlugin = "io.cncf.notary.verificationPlugin"
	hdrMinVer = "io.cncf.notary.verificationPluginMinVersion"
)

// attribute states
const (
	aAbsent = iota
	aNotCritical
	aNotString
	aStr
)

type attrSpec struct {
	State int    `json:"state"`
	Val   string `json:"val,omitempty"`
}

func (a attrSpec) coq() string {
	switch a.State {
	case aAbsent:
		return "AAbsent"
	case aNotCritical:
		return "ANotCritical"
	case aNotString:
		return "ANotString"
	}
	return CApp("AStr", CStr(a.Val))
}

type scen struct {
	Family    string            `json:"family"`
	Level     string            `json:"level"`
	Override  map[string]string `json:"override,omitempty"`
	Format    string            `json:"format"`
	Integrity bool              `json:"integrity_ok"`
	Plugin    attrSpec          `json:"plugin_attr"`
	MinVer    attrSpec          `json:"minver_attr"`
	OtherCrit []string          `json:"other_critical"`
	OtherNon  []string          `json:"other_noncritical,omitempty"`
	NonString bool              `json:"nonstring_critical"`
	Auth      int               `json:"auth"` // 0 anchor found, 1 store load error, 2 empty store, 3 chain not anchored
	Identity  bool              `json:"identity_ok"`
	Expired   bool              `json:"expired"`
	TsOK      bool              `json:"timestamp_ok"`
	RevMode   int               `json:"revocation"` // 0 ok, 1 revoked, 2 unknown, 3 validator error, 4 one result too few, 5 a nil entry, 6 one result too many (all OK), 7 intermediate unknown, 8 root unknown, 9 intermediate revoked, 10 leaf OK + CAs non-revokable (passes), 11 leaf non-revokable + root revoked
	PM        int               `json:"pm"`         // 0 nil, 1 not installed, 2 metadata error, 3 plugin
	Version   string            `json:"plugin_version,omitempty"`
	Caps      []string          `json:"caps,omitempty"` // TI, Rev, Other
	RespErr   bool              `json:"plugin_error"`
	SA        bool              `json:"signing_authority_scheme,omitempty"` // signing scheme notary.x509.signingAuthority (trust store type signingAuthority; a failed authentic-timestamp validation = the authentic signing time lies outside the leaf certificate's validity)
	NilResp   bool              `json:"plugin_nil_response,omitempty"`      // the plugin answers (nil, nil): refused like an error (fix 686cc56)
	Processed []string          `json:"processed,omitempty"`
	TI        int               `json:"ti_verdict"` // 0 missing, 1 success, 2 failure, 3 nil entry
	Rev       int               `json:"rev_verdict"`
	EmptyOv   bool              `json:"empty_override_map,omitempty"`     // override = empty non-nil map
	NilVR     bool              `json:"nil_verdict_map,omitempty"`        // plugin answers with a nil verificationResults map
	EmptyProc bool              `json:"empty_processed,omitempty"`        // processedAttributes = empty non-nil slice
	FoldKeys  bool              `json:"verdict_keys_lowercase,omitempty"` // verdicts filed under the lower-cased capability name: not the asked capability
	HdrLast   bool              `json:"plugin_headers_last,omitempty"`    // plugin headers after the other attributes in the envelope
	Entry     string            `json:"entry_point,omitempty"`            // "", "oci2" (second OCI statement), "blob" (VerifyBlob, same-named blob statement)
	Step      string            `json:"history_step,omitempty"`           // position in a history on one verifier instance
	// observation
	ObsErr     string   `json:"obs_err"`
	ObsResults []string `json:"obs_results"`
	ObsBuilt   bool     `json:"obs_verifier_built"`
	ObsEnf     string   `json:"obs_enforcement,omitempty"`
}

type envKey struct {
	format               string
	plugin, minver       attrSpec
	other, othernon      string
	nonstring            bool
	expired, chainExpird bool
	integrity            bool
	hdrLast              bool
	sa                   bool
}

func capCoq(c string) string {
	switch c {
	case "TI":
		return "CapTI"
	case "Rev":
		return "CapRev"
	}
	return "CapOther"
}

func capFw(c string) pluginfw.Capability {
	switch c {
	case "TI":
		return pluginfw.CapabilityTrustedIdentityVerifier
	case "Rev":
		return pluginfw.CapabilityRevocationCheckVerifier
	case "ti-lower": // near miss: not a verification capability
		return pluginfw.Capability(strings.ToLower(string(pluginfw.CapabilityTrustedIdentityVerifier)))
	case "rev-padded":
		return pluginfw.Capability(" " + string(pluginfw.CapabilityRevocationCheckVerifier))
	}
	return pluginfw.CapabilitySignatureGenerator
}

func sameErr(a, b error) (eq bool) {
	defer func() {
		if recover() != nil {
			eq = false
		}
	}()
	return a == b
}

// order of actions for the Go-side monotonicity check: enforce <= log <= skip
func actRank(a trustpolicy.ValidationAction) int {
	switch a {
	case trustpolicy.ActionEnforce:
		return 0
	case trustpolicy.ActionLog:
		return 1
	}
	return 2
}

var vTypes = []trustpolicy.ValidationType{trustpolicy.TypeIntegrity, trustpolicy.TypeAuthenticity, trustpolicy.TypeAuthenticTimestamp, trustpolicy.TypeExpiry, trustpolicy.TypeRevocation}

type lv struct {
	name string
	ov   map[string]string
	enf  [5]int // ranks per vTypes, asked from the real GetVerificationLevel
	key  string
}

func run(a *Args) error {
	rng := NewRng(a.Seed)
	// run_all (C02_Struct.v) = correspondence with the model + the oracle spec_ok on well-formed inputs + the
	// contract-free oracle (acceptance rule, what is performed, what the plugin is asked, truthful results) on ALL inputs
	prelude := "From NV Require Import Base Regex Generated C02_Levels VerifyCore C02_Model C02_Struct C02_Versions.\nOpen Scope string_scope.\n"
	w := NewCaseWriter(a, "C02", prelude, "case", "run_all")
	w.Rule = "scenarios realised on the real verifier.Verify. Family table: every enforcement map reachable from {strict,permissive,audit} x legal overrides (24 maps, a random (level, override) representative each) x every subset of simultaneously failing native validations {trust store authenticity, identity, expiry, certificate time, revocation} (quick) resp. the full product {anchor found, load error, not anchored} x identity x expired x certificate time x revocation {ok, revoked, unknown, validator error} (thorough) x plugin situation {none, not installed, version too low, no verification capability, trusted-identity, revocation, both} x verdicts {success, failure, missing} x critical attributes {none, processed, unprocessed}; the cells that differ only in the map form a group on which monotonicity of acceptance is checked directly. Family random: malformed plugin headers, blank names, missing manager, metadata error, invalid versions, capability orders with foreign capabilities, plugin errors, nil verdict entries, non-critical attributes, integer-labelled critical attributes (COSE), corrupted envelopes, both envelope formats. Family versions: (plugin version, demanded minimum) pairs around SemVer precedence. Family corpus: the fixed defects and the known finding. Family illegal: level/override combinations GetVerificationLevel must refuse. Family duplicates: a verification capability declared several times (outside wf_sc; judged by the contract-free oracle spec_all). Family revshape: validator answers with a result too few / too many / a nil entry (fix d78db00) under enforce, log, skip and with a revocation plugin. Family revchain: the bad / non-revokable revocation status sits on the intermediate or root certificate (the verdict depends on every certificate of the chain). Family pertype: exactly one validation (integrity: tampered envelope; authenticity: untrusted chain; authenticTimestamp: expired chain without countersignature under notary.x509, authentic signing time before the leaf's validity under notary.x509.signingAuthority; expiry: expired signature; revocation: scripted validator), and timestamp + expiry together, fails under each of the 24 reachable enforcement maps and both signing schemes. Family nilresp: the plugin answers (nil, nil). Family uspace: plugin name / minimum version made of or containing Unicode white space. non-trivial = at least one failed validation or a plugin header / extended attribute present; distinct = distinct scenario tuples"
	w.Assumptions = []string{
		"plugin metadata lists each verification capability at most once (wf_sc): needed only for the clause 'each result type at most once, in the fixed order'; the acceptance rule, monotonicity, what is performed / asked and the truthfulness of the results are proved and checked without it (families random and duplicates)",
		"validity and order of the plugin version / demanded minimum are computed inside Coq from the version strings by C20's model of internal/semver.IsValid and x/mod/semver.Compare (C02_Versions.plugin_of, minver_valid_of); family versions holds the pairs around SemVer precedence",
		"native validation facts (authentic, identity, expiry, certificate time, revocation) are realised with real certificates, stores and validators; their own semantics are C03/C04/C05/C06",
		"the level seen by processSignature is the one GetVerificationLevel returns for the statement (model: C02_Levels.get_level over Generated.v)",
	}
	now := time.Now()
	good := NewChain("c02 good", 3, now.Add(-96*time.Hour), now.Add(96*time.Hour))
	old := NewChain("c02 old", 3, now.Add(-96*time.Hour), now.Add(-24*time.Hour))
	other := NewChain("c02 unrelated", 2, now.Add(-96*time.Hour), now.Add(96*time.Hour))
	// the chain of `good` with another leaf certificate for the SAME key, valid only from one hour ago: not yet
	// valid at the signing time (two hours ago) of an envelope signed with `good`
	lateLeaf := Mint(CertSpec{Subject: good[0].C.Subject, Leaf: true, Key: good[0].Key, NotBefore: now.Add(-1 * time.Hour), NotAfter: now.Add(96 * time.Hour)}, good[1])
	late := Chain{lateLeaf, good[1], good[2]}
	desc := ocispec.Descriptor{MediaType: "application/vnd.oci.image.manifest.v1+json", Digest: digest.Digest(strings.TrimPrefix(TestRef, TestScope+"@")), Size: 528}
	payload := PayloadFor(desc)
	// caller-owned objects handed to the library by reference; the same objects for every case
	// (slices with spare capacity, so that an in-place append would be visible too)
	descArg := desc
	descArg.Annotations = map[string]string{"org.example.note": "caller-owned", "a": "b"}
	descArg.URLs = append(make([]string, 0, 4), "https://example.invalid/blob")
	sharedConfig := map[string]string{"zeta": "1", "alpha": "2"}
	mkCerts := func(cs ...*x509.Certificate) []*x509.Certificate {
		return append(make([]*x509.Certificate, 0, len(cs)+2), cs...)
	}
	rootsGood := mkCerts(old[2].C, good[2].C) // deliberately not sorted by subject
	rootsNone := mkCerts()
	rootsOther := mkCerts(other[1].C)
	envCache := map[envKey][]byte{}
	getEnv := func(k envKey, otherCrit, otherNon []string) []byte {
		if b, ok := envCache[k]; ok {
			return b
		}
		var attrs []signature.Attribute
		mk := func(key string, s attrSpec) {
			switch s.State {
			case aNotCritical:
				attrs = append(attrs, signature.Attribute{Key: key, Critical: false, Value: "plug"})
			case aNotString:
				attrs = append(attrs, signature.Attribute{Key: key, Critical: true, Value: 42})
			case aStr:
				attrs = append(attrs, signature.Attribute{Key: key, Critical: true, Value: s.Val})
			}
		}
		if !k.hdrLast {
			mk(hdrPlugin, k.plugin)
			mk(hdrMinVer, k.minver)
		}
		for _, o := range otherCrit {
			attrs = append(attrs, signature.Attribute{Key: o, Critical: true, Value: "v-" + o})
		}
		for _, o := range otherNon {
			attrs = append(attrs, signature.Attribute{Key: o, Critical: false, Value: "n-" + o})
		}
		if k.nonstring {
			attrs = append(attrs, signature.Attribute{Key: int64(1000), Critical: true, Value: "int-labelled"})
		}
		if k.hdrLast {
			mk(hdrMinVer, k.minver)
			mk(hdrPlugin, k.plugin)
		}
		chain := good
		st := now.Add(-2 * time.Hour)
		if k.chainExpird && !k.sa {
			chain = old
			st = now.Add(-48 * time.Hour)
		}
		var exp time.Time
		if k.expired {
			exp = st.Add(30 * time.Minute)
		}
		spec := EnvSpec{Format: k.format, Chain: chain, Payload: payload, SigningTime: st, Expiry: exp, ExtAttrs: attrs}
		if k.sa {
			spec.Scheme = signature.SigningSchemeX509SigningAuthority
		}
		b, err := SignEnvelope(spec)
		if err != nil {
			panic(fmt.Sprintf("c02: sign %+v: %v", k, err))
		}
		if k.sa && k.chainExpird {
			// signing authority scheme: the authentic signing time precedes the validity of the leaf certificate
			b = withCerts(k.format, b, late.Certs())
			content, err := CoreVerify(k.format, b)
			if err != nil {
				panic(fmt.Sprintf("c02: envelope with the swapped leaf does not verify: %v", err))
			}
			if !content.SignerInfo.CertificateChain[0].Equal(lateLeaf.C) || !st.Before(lateLeaf.C.NotBefore) {
				panic("c02: the swapped leaf is not in the envelope")
			}
		}
		if !k.integrity {
			// corrupt the envelope: flip a byte near the end (signature / payload area)
			c := append([]byte(nil), b...)
			pos := len(c) - 20
			c[pos] ^= 0x01
			if _, err := CoreVerify(k.format, c); err == nil {
				// the flip did not invalidate it: replace by garbage
				c = []byte("not an envelope")
			}
			b = c
		} else {
			// ground truth from notation-core-go: the envelope verifies and carries the attributes as intended
			content, err := CoreVerify(k.format, b)
			if err != nil {
				panic(fmt.Sprintf("c02: oracle rejects a fresh envelope: %v", err))
			}
			nCrit, nNon := 0, 0
			for _, at := range content.SignerInfo.SignedAttributes.ExtendedAttributes {
				if at.Critical {
					nCrit++
				} else {
					nNon++
				}
			}
			if nCrit+nNon != len(attrs) {
				panic(fmt.Sprintf("c02: envelope carries %d extended attributes, wanted %d", nCrit+nNon, len(attrs)))
			}
		}
		envCache[k] = b
		return b
	}

	// all legal (level, override) combinations; the effective map is asked from the real code
	var levels []lv
	opt := func(t string, acts ...string) []map[string]string {
		out := []map[string]string{{}}
		for _, x := range acts {
			out = append(out, map[string]string{t: x})
		}
		return out
	}
	for _, n := range []string{"strict", "permissive", "audit"} {
		for _, o1 := range opt("authenticity", "enforce", "log") {
			for _, o2 := range opt("authenticTimestamp", "enforce", "log") {
				for _, o3 := range opt("expiry", "enforce", "log") {
					for _, o4 := range opt("revocation", "enforce", "log", "skip") {
						m := map[string]string{}
						ov := map[trustpolicy.ValidationType]trustpolicy.ValidationAction{}
						for _, o := range []map[string]string{o1, o2, o3, o4} {
							for k, v := range o {
								m[k] = v
								ov[trustpolicy.ValidationType(k)] = trustpolicy.ValidationAction(v)
							}
						}
						l := lv{name: n, ov: m}
						sv := trustpolicy.SignatureVerification{VerificationLevel: n, Override: ov}
						if vl, err := sv.GetVerificationLevel(); err == nil && vl != nil {
							for i, t := range vTypes {
								l.enf[i] = actRank(vl.Enforcement[t])
							}
							l.key = fmt.Sprint(l.enf)
						} else {
							l.key = "refused"
						}
						levels = append(levels, l)
					}
				}
			}
		}
	}
	Shuffle(rng, levels)
	byMap := map[string][]lv{}
	var mapKeys []string
	for _, l := range levels {
		if _, ok := byMap[l.key]; !ok {
			mapKeys = append(mapKeys, l.key)
		}
		byMap[l.key] = append(byMap[l.key], l)
	}
	sort.Strings(mapKeys)
	w.Set("enforcement_maps_reached_by_legal_overrides", len(mapKeys))

	versions := []string{"1.2.0", "1.2.0", "1.2.0", "0.9.0", "2.0.0-rc.1", "v1", "1.2"}
	minvers := []string{"1.0.0", "1.2.0", "1.10.0", "2.0.0", "1.0", "  ", "x"}
	capSets := [][]string{{}, {"Other"}, {"TI"}, {"Rev"}, {"TI", "Rev"}, {"Rev", "TI"}, {"Other", "TI"}, {"Rev", "Other"}, {"TI", "Other", "Rev"},
		{"TI", "TI"}, {"Rev", "TI", "Rev"}} // the last two are outside wf_sc: correspondence only
	otherSets := [][]string{{}, {}, {"foo"}, {"bar", "foo"}}

	// a rig is one verifier instance with its injected components; a fresh one per case, except in
	// the history family where several cases run in sequence on ONE instance (state across calls)
	type rig struct {
		key      string
		store    *MockStore
		script   *RevScript
		revCalls *[]RevCall
		mgr      *MockManager
		v        notation.Verifier
		err      error
		multi    bool // holds two OCI statements and a same-named blob statement
		blobDoc  *trustpolicy.BlobDocument
		doc      *trustpolicy.OCIDocument // caller-owned, kept by the verifier by reference
		config   map[string]string        // plugin config handed to every Verify on this rig
	}
	rigKey := func(s *scen) string {
		return fmt.Sprintf("%s|%v|%v|%v|%v|%v", s.Level, s.Override, s.EmptyOv, s.Identity, s.PM == 0, s.SA)
	}
	newRig := func(s *scen) *rig {
		ov := map[trustpolicy.ValidationType]trustpolicy.ValidationAction{}
		for k, v := range s.Override {
			ov[trustpolicy.ValidationType(k)] = trustpolicy.ValidationAction(v)
		}
		if len(ov) == 0 && !s.EmptyOv {
			ov = nil
		}
		identities := []string{"*"}
		if !s.Identity {
			identities = []string{"x509.subject: CN=somebody else,O=Verif,ST=WA,C=US"}
		}
		stores := []string{"ca:s"}
		if s.SA {
			stores = []string{"ca:s", "signingAuthority:s"}
		}
		doc := OCIPolicy(s.Level, ov, stores, identities, "")
		r := &rig{key: rigKey(s), store: NewMockStore(), doc: doc, config: sharedConfig}
		r.script, r.revCalls = NewRevScript(nil, nil)
		opts := verifier.VerifierOptions{OCITrustPolicy: doc, RevocationCodeSigningValidator: r.script.Validator()}
		if s.PM != 0 {
			r.mgr = &MockManager{Plugins: map[string]*MockPlugin{}}
			opts.PluginManager = r.mgr
		}
		r.v, r.err = verifier.NewVerifierWithOptions(r.store, opts)
		return r
	}

	const otherScope = "reg.example/other"
	otherRef := otherScope + strings.TrimPrefix(TestRef, TestScope)
	mkOv := func(m map[string]string) map[trustpolicy.ValidationType]trustpolicy.ValidationAction {
		if len(m) == 0 {
			return nil
		}
		ov := map[trustpolicy.ValidationType]trustpolicy.ValidationAction{}
		for k, v := range m {
			ov[trustpolicy.ValidationType(k)] = trustpolicy.ValidationAction(v)
		}
		return ov
	}
	// one verifier holding an OCI document with statements "p" (TestScope, level a) and "q"
	// (otherScope, level c) AND a blob document whose statement is also named "p" (level b)
	newRigMulti := func(a, b, c lv, identity bool) *rig {
		identities := []string{"*"}
		if !identity {
			identities = []string{"x509.subject: CN=somebody else,O=Verif,ST=WA,C=US"}
		}
		doc := OCIPolicy(a.name, mkOv(a.ov), []string{"ca:s"}, identities, "")
		doc.TrustPolicies = append(doc.TrustPolicies, trustpolicy.OCITrustPolicy{Name: "q", RegistryScopes: []string{otherScope},
			SignatureVerification: trustpolicy.SignatureVerification{VerificationLevel: c.name, Override: mkOv(c.ov)},
			TrustStores:           []string{"ca:s"}, TrustedIdentities: identities})
		blob := &trustpolicy.BlobDocument{Version: "1.0", TrustPolicies: []trustpolicy.BlobTrustPolicy{{Name: "p",
			SignatureVerification: trustpolicy.SignatureVerification{VerificationLevel: b.name, Override: mkOv(b.ov)},
			TrustStores:           []string{"ca:s"}, TrustedIdentities: identities}}}
		r := &rig{multi: true, store: NewMockStore(), doc: doc, blobDoc: blob, config: sharedConfig}
		r.script, r.revCalls = NewRevScript(nil, nil)
		r.mgr = &MockManager{Plugins: map[string]*MockPlugin{}}
		r.v, r.err = verifier.NewVerifierWithOptions(r.store, verifier.VerifierOptions{OCITrustPolicy: doc, BlobTrustPolicy: blob,
			RevocationCodeSigningValidator: r.script.Validator(), PluginManager: r.mgr})
		return r
	}

	var id int64
	frameChecked := 0
	prime := map[int64]bool{} // replay of a history step: the earlier steps are executed, not recorded
	// exec realises one scenario (on the given rig, or on a fresh one); returns whether the verifier accepted (nil error)
	exec := func(s *scen, shared *rig) (ran, accepted bool) {
		my := id
		id++
		want := w.Want(my)
		if !want && !prime[my] {
			return false, false
		}
		// ---- realise ----
		rg := shared
		if rg == nil {
			rg = newRig(s)
		} else if !rg.multi && rg.key != rigKey(s) {
			panic("c02: history step does not fit its verifier instance")
		}
		store, script, revCalls, mgr := rg.store, rg.script, rg.revCalls, rg.mgr
		store.Certs = map[StoreKey][]*x509.Certificate{}
		store.Fail = map[StoreKey]bool{}
		switch s.Auth {
		case 0:
			store.Certs[StoreKey{Type: truststore.TypeCA, Name: "s"}] = rootsGood
		case 1:
			store.Fail[StoreKey{Type: truststore.TypeCA, Name: "s"}] = true
		case 2:
			store.Certs[StoreKey{Type: truststore.TypeCA, Name: "s"}] = rootsNone
		case 3:
			store.Certs[StoreKey{Type: truststore.TypeCA, Name: "s"}] = rootsOther
		}
		if s.SA {
			// the signing-authority scheme reads the stores of type signingAuthority only; the ca store of the
			// statement holds an unrelated certificate
			saKey, caKey := StoreKey{Type: truststore.TypeSigningAuthority, Name: "s"}, StoreKey{Type: truststore.TypeCA, Name: "s"}
			if store.Fail[caKey] {
				store.Fail[saKey] = true
			} else {
				store.Certs[saKey] = store.Certs[caKey]
			}
			delete(store.Fail, caKey)
			store.Certs[caKey] = rootsOther
		}
		nChain := 3
		var results []*revresult.CertRevocationResult
		for i := 0; i < nChain; i++ {
			r := revresult.ResultOK
			if i == 0 {
				switch s.RevMode {
				case 1:
					r = revresult.ResultRevoked
				case 2:
					r = revresult.ResultUnknown
				}
			}
			// the verdict must depend on EVERY certificate of the chain, not on the leaf only
			switch {
			case s.RevMode == 7 && i == 1, s.RevMode == 8 && i == 2:
				r = revresult.ResultUnknown
			case s.RevMode == 9 && i == 1, s.RevMode == 11 && i == 2:
				r = revresult.ResultRevoked
			case s.RevMode == 10 && i > 0, s.RevMode == 11 && i == 0:
				r = revresult.ResultNonRevokable
			}
			results = append(results, &revresult.CertRevocationResult{Result: r})
		}
		switch s.RevMode {
		case 4: // fix d78db00: not one result per certificate
			results = results[:nChain-1]
		case 5:
			results[1] = nil
		case 6:
			results = append(results, &revresult.CertRevocationResult{Result: revresult.ResultOK})
		}
		script.Results, script.Err = results, nil
		if s.RevMode == 3 {
			script.Err = errors.New("mock: validator failure")
		}
		*revCalls = nil
		var plug *MockPlugin
		if mgr != nil {
			mgr.Gets = nil
			mgr.Plugins = map[string]*MockPlugin{}
			if s.PM >= 2 && s.Plugin.State == aStr {
				plug = &MockPlugin{}
				mgr.Plugins[s.Plugin.Val] = plug
				if s.PM == 2 {
					plug.MetaErr = errors.New("mock: metadata failure")
				} else {
					var caps []pluginfw.Capability
					if s.Caps != nil {
						caps = []pluginfw.Capability{}
					}
					for _, c := range s.Caps {
						caps = append(caps, capFw(c))
					}
					plug.Meta = &pluginfw.GetMetadataResponse{Name: s.Plugin.Val, Version: s.Version, Capabilities: caps,
						Description: "d", URL: "u", SupportedContractVersions: []string{"1.0"}}
					if s.RespErr {
						plug.VerifyErr = errors.New("mock: plugin failure")
					} else if s.NilResp {
						plug.Resp = nil // and no error
					} else {
						vr := map[pluginfw.Capability]*pluginfw.VerificationResult{}
						set := func(c pluginfw.Capability, v int) {
							if s.FoldKeys {
								c = pluginfw.Capability(strings.ToLower(string(c)))
							}
							switch v {
							case 1:
								vr[c] = &pluginfw.VerificationResult{Success: true}
							case 2:
								vr[c] = &pluginfw.VerificationResult{Success: false, Reason: "mock says no"}
							case 3:
								vr[c] = nil
							}
						}
						set(pluginfw.CapabilityTrustedIdentityVerifier, s.TI)
						set(pluginfw.CapabilityRevocationCheckVerifier, s.Rev)
						if s.NilVR {
							vr = nil
						}
						var processed []interface{}
						if s.EmptyProc {
							processed = []interface{}{}
						}
						for _, p := range s.Processed {
							processed = append(processed, p)
						}
						plug.Resp = &pluginfw.VerifySignatureResponse{VerificationResults: vr, ProcessedAttributes: processed}
					}
				}
			}
		}
		v, err := rg.v, rg.err

		obs := "None"
		if err == nil {
			s.ObsBuilt = true
			env := getEnv(envKey{s.Format, s.Plugin, s.MinVer, fmt.Sprintf("%q", s.OtherCrit), fmt.Sprintf("%q", s.OtherNon), s.NonString, s.Expired, !s.TsOK, s.Integrity, s.HdrLast, s.SA}, s.OtherCrit, s.OtherNon)
			vopts := notation.VerifierVerifyOptions{ArtifactReference: TestRef, SignatureMediaType: s.Format, PluginConfig: rg.config}
			snap := func() []string {
				docJ, _ := json.Marshal(rg.doc)
				if rg.blobDoc != nil {
					bj, _ := json.Marshal(rg.blobDoc)
					docJ = append(docJ, bj...)
				}
				certs := func(cs []*x509.Certificate) string {
					var b strings.Builder
					for _, c := range cs[:cap(cs)] {
						if c == nil {
							b.WriteString("-;")
						} else {
							fmt.Fprintf(&b, "%p/%x;", c, sha256.Sum256(c.Raw))
						}
					}
					return fmt.Sprintf("len=%d %s", len(cs), b.String())
				}
				var revs []string
				for _, r := range script.Results {
					if r == nil {
						revs = append(revs, "nil")
						continue
					}
					revs = append(revs, fmt.Sprintf("%p:%v:%d", r, r.Result, len(r.ServerResults)))
				}
				plugS := ""
				if plug != nil {
					if plug.Meta != nil {
						plugS += fmt.Sprintf("meta=%q %q %q;", plug.Meta.Name, plug.Meta.Version, plug.Meta.Capabilities)
					}
					if plug.Resp != nil {
						var vr []string
						for k, v := range plug.Resp.VerificationResults {
							if v == nil {
								vr = append(vr, string(k)+"=nil")
							} else {
								vr = append(vr, fmt.Sprintf("%s=%v/%q", k, v.Success, v.Reason))
							}
						}
						sort.Strings(vr)
						plugS += fmt.Sprintf("resp=%q nil=%v processed=%q nilp=%v", vr, plug.Resp.VerificationResults == nil, plug.Resp.ProcessedAttributes, plug.Resp.ProcessedAttributes == nil)
					}
				}
				var lvls []string
				for _, l := range trustpolicy.VerificationLevels {
					lvls = append(lvls, fmt.Sprintf("%s=%v", l.Name, l.Enforcement))
				}
				return []string{
					"the trust policy document held by the verifier", string(docJ),
					"the descriptor's annotations / URLs", fmt.Sprintf("%v|%q|cap=%q|%v", descArg.Annotations, descArg.URLs, descArg.URLs[:cap(descArg.URLs)], descArg.Annotations == nil),
					"the signature envelope bytes", fmt.Sprintf("%x", sha256.Sum256(env[:cap(env)])),
					"the plugin config map of the verify options", fmt.Sprintf("%v nil=%v", rg.config, rg.config == nil),
					"the certificate slice returned by the trust store", certs(rootsGood) + "|" + certs(rootsNone) + "|" + certs(rootsOther),
					"the result slice returned by the revocation validator", strings.Join(revs, ","),
					"the plugin's metadata / verify-signature response", plugS,
					"the package's verification level tables", strings.Join(lvls, ";"),
				}
			}
			before := snap()
			var outcome *notation.VerificationOutcome
			var verr error
			func() {
				// a panic inside the library is a violation of its own (recorded with the case), not a crash of the driver
				defer func() {
					if r := recover(); r != nil {
						outcome, verr = nil, fmt.Errorf("panic: %v", r)
						w.ImplViolation(my, fmt.Sprintf("verification panicked: %v", r), s, "")
						w.Count("panic", "verify")
					}
				}()
				switch s.Entry {
				case "blob":
					bv := v.(notation.BlobVerifier)
					outcome, verr = bv.VerifyBlob(context.Background(), func(digest.Algorithm) (ocispec.Descriptor, error) { return descArg, nil }, env,
						notation.BlobVerifierVerifyOptions{SignatureMediaType: s.Format, PluginConfig: rg.config, TrustPolicyName: "p"})
				case "oci2":
					vopts.ArtifactReference = otherRef
					outcome, verr = v.Verify(context.Background(), descArg, env, vopts)
				default:
					outcome, verr = v.Verify(context.Background(), descArg, env, vopts)
				}
			}()
			after := snap()
			for i := 0; i+1 < len(before); i += 2 {
				if before[i+1] != after[i+1] {
					w.ImplViolation(my, "library mutated caller-owned "+before[i], s, "")
					w.Count("frame_violation", before[i])
				}
			}
			frameChecked++
			accepted = verr == nil
			// error class
			errT := "ENone"
			if verr != nil {
				errT = ""
				if outcome != nil {
					for _, r := range outcome.VerificationResults {
						if r != nil && r.Error != nil && sameErr(r.Error, verr) {
							errT = CApp("EResult", vtypeCoq(r.Type))
							break
						}
					}
				}
				if errT == "" {
					var inc notation.ErrorVerificationInconclusive
					if errors.As(verr, &inc) {
						errT = "EInconclusive"
					} else {
						errT = "EOther"
					}
				}
			}
			s.ObsErr = errT
			var rs []string
			if outcome != nil {
				for _, r := range outcome.VerificationResults {
					if r == nil {
						continue
					}
					rs = append(rs, CApp("mk_res", vtypeCoq(r.Type), CApp("parse_action", CStr(string(r.Action))), CBool(r.Error != nil)))
					s.ObsResults = append(s.ObsResults, fmt.Sprintf("%s/%s/failed=%v", r.Type, r.Action, r.Error != nil))
				}
				if outcome.VerificationLevel != nil {
					var e []string
					for _, t := range vTypes {
						e = append(e, string(outcome.VerificationLevel.Enforcement[t]))
					}
					s.ObsEnf = strings.Join(e, ",")
				}
			}
			var gets []string
			if mgr != nil {
				gets = mgr.Gets
			}
			execT := "None"
			if plug != nil && len(plug.VerifyReq) > 0 {
				req := plug.VerifyReq[0]
				var cs []string
				for _, c := range req.TrustPolicy.SignatureVerification {
					switch c {
					case pluginfw.CapabilityTrustedIdentityVerifier:
						cs = append(cs, "CapTI")
					case pluginfw.CapabilityRevocationCheckVerifier:
						cs = append(cs, "CapRev")
					default:
						cs = append(cs, "CapOther")
					}
				}
				un := append([]string(nil), req.Signature.UnprocessedAttributes...)
				sort.Strings(un)
				execT = CSome(CPair(CList(cs), CStrList(un)))
				if len(plug.VerifyReq) > 1 {
					execT = CSome(CPair(CList(append(cs, "CapOther", "CapOther")), CStrList(un))) // executed twice: never matches the model
				}
			}
			obs = CSome(CApp("mk_obs", errT, CList(rs), CBool(len(*revCalls) > 0), CStrList(gets), execT))
		}
		if !want {
			return true, accepted
		}
		// ---- input term ----
		pm := "PMNil"
		switch s.PM {
		case 1:
			pm = "PMNotInstalled"
		case 2:
			pm = "PMMetaErr"
		case 3:
			// the version facts (IsValid(version), version >= demanded minimum) are NOT supplied by the
			// harness: C02_Versions.plugin_of computes them inside Coq from the strings, with the model of
			// internal/semver and x/mod/semver.Compare (C20_Semver.v)
			var cs []string
			for _, c := range s.Caps {
				cs = append(cs, capCoq(c))
			}
			pm = CApp("plugin_of", CStr(s.Version), s.MinVer.coq(), CList(cs))
		}
		if s.PM >= 1 && s.Plugin.State != aStr {
			// the manager is present but never consulted for a name; any pm value
			// is equivalent for the model: keep PMNotInstalled
			pm = "PMNotInstalled"
		}
		presp := "PErr"
		if !s.RespErr && !s.NilResp {
			verd := func(v int) string {
				if s.NilVR || s.FoldKeys {
					return "None"
				}
				switch v {
				case 1:
					return "(Some true)"
				case 2:
					return "(Some false)"
				}
				return "None"
			}
			presp = CApp("PResp", CStrList(s.Processed), verd(s.TI), verd(s.Rev))
		}
		minValid := CApp("minver_valid_of", s.MinVer.coq())
		type kv struct {
			k string
			c bool
		}
		var others []kv
		for _, o := range s.OtherCrit {
			others = append(others, kv{o, true})
		}
		for _, o := range s.OtherNon {
			others = append(others, kv{o, false})
		}
		sort.Slice(others, func(i, j int) bool { return others[i].k < others[j].k })
		var otherT []string
		for _, o := range others {
			otherT = append(otherT, CPair(CStr(o.k), CBool(o.c)))
		}
		sc := CApp("mk_sc", CBool(s.Integrity), s.Plugin.coq(), s.MinVer.coq(), minValid, CList(otherT), CBool(s.NonString),
			CN(int64(s.Auth)), CBool(s.Identity), CBool(s.Expired), CBool(s.TsOK), CBool(revOK(s.RevMode)), pm, presp)
		in := CApp("mk_input", CStr(s.Level), CMap(s.Override), sc)
		term := CApp("mk_case", CN(my), in, obs)
		nontriv := s.Plugin.State != aAbsent || s.MinVer.State != aAbsent || s.Auth != 0 || !s.Identity || s.Expired || !s.TsOK || !revOK(s.RevMode) ||
			len(s.OtherCrit) > 0 || len(s.OtherNon) > 0 || s.NonString || !s.Integrity
		key := fmt.Sprintf("%+v", *s)
		if i := strings.Index(key, "ObsErr"); i > 0 {
			key = key[:i]
		}
		key = strings.Replace(key, "Family:"+s.Family, "", 1)
		w.Add(my, term, s, key, nontriv)
		w.Count("family", s.Family)
		w.Count("level", s.Level)
		if s.ObsEnf != "" {
			w.Count("enforcement_map", s.ObsEnf)
		}
		w.Count("plugin_attr", fmt.Sprint(s.Plugin.State))
		w.Count("pm", fmt.Sprint(s.PM))
		w.Count("obs_err", strings.Trim(strings.SplitN(s.ObsErr, " ", 2)[0], "("))
		w.Count("auth", fmt.Sprint(s.Auth))
		w.Count("revocation", fmt.Sprint(s.RevMode))
		w.Count("built", fmt.Sprint(s.ObsBuilt))
		nf := 0
		for _, b := range []bool{s.Auth != 0, !s.Identity, s.Expired, !s.TsOK, !revOK(s.RevMode)} {
			if b {
				nf++
			}
		}
		w.Count("simultaneous_native_failures", fmt.Sprint(nf))
		return true, accepted
	}

	base := func(fam string, l lv) *scen {
		return &scen{Family: fam, Level: l.name, Override: l.ov, Format: MtJWS, Integrity: true, Identity: true, TsOK: true, TI: 1, Rev: 1}
	}

	// ---- plugin situations of the table family ----
	// sit: 0 none, 1 not installed, 2 version too low, 3 no verification capability, 4 TI, 5 Rev, 6 both
	type sitCombo struct{ sit, ti, rev, crit, variant int }
	var combos [7][]sitCombo
	for sit := 0; sit < 7; sit++ {
		tis, revs := []int{1}, []int{1}
		if sit == 4 || sit == 6 {
			tis = []int{1, 2, 0}
		}
		if sit == 5 || sit == 6 {
			revs = []int{1, 2, 0}
		}
		for _, ti := range tis {
			for _, rv := range revs {
				for crit := 0; crit < 3; crit++ {
					combos[sit] = append(combos[sit], sitCombo{sit, ti, rv, crit, 0})
				}
			}
		}
	}
	applySit := func(s *scen, c sitCombo, r *Rng) {
		switch c.crit { // 0 none, 1 processed, 2 unprocessed
		case 1:
			s.OtherCrit = append([]string(nil), Pick(r, [][]string{{"foo"}, {"bar", "foo"}})...)
			s.Processed = append([]string{}, s.OtherCrit...)
			if r.Bool() {
				s.Processed = append([]string{"extra"}, s.Processed...)
			}
		case 2:
			s.OtherCrit = append([]string(nil), Pick(r, [][]string{{"foo"}, {"bar", "foo"}})...)
			s.Processed = append([]string{}, s.OtherCrit[:len(s.OtherCrit)-1]...)
		}
		s.TI, s.Rev = c.ti, c.rev
		if c.sit == 0 {
			s.PM = r.Intn(2)
			return
		}
		s.Plugin = attrSpec{State: aStr, Val: "plug"}
		s.PM = 3
		s.Version = "1.2.0"
		if r.Chance(1, 3) {
			s.MinVer = attrSpec{State: aStr, Val: Pick(r, []string{"1.0.0", "1.2.0"})}
		}
		switch c.sit {
		case 1:
			s.PM = 1
		case 2:
			s.Caps = []string{"TI", "Rev"}
			if r.Bool() {
				s.Version, s.MinVer = "0.9.0", attrSpec{State: aStr, Val: "1.0.0"}
			} else {
				s.Version, s.MinVer = "1.2.0", attrSpec{State: aStr, Val: "1.10.0"}
			}
		case 3:
			s.Caps = append([]string(nil), Pick(r, [][]string{{}, {"Other"}})...)
		case 4:
			s.Caps = append([]string(nil), Pick(r, [][]string{{"TI"}, {"TI"}, {"Other", "TI"}})...)
		case 5:
			s.Caps = append([]string(nil), Pick(r, [][]string{{"Rev"}, {"Rev"}, {"Rev", "Other"}})...)
		case 6:
			s.Caps = append([]string(nil), Pick(r, [][]string{{"TI", "Rev"}, {"Rev", "TI"}, {"TI", "Other", "Rev"}})...)
		}
	}

	// a group: the same scenario under every enforcement map; monotonicity is checked on the implementation directly
	monoPairs, monoViol := 0, 0
	group := func(fam string, mk func(s *scen)) {
		type res struct {
			enf [5]int
			acc bool
			id  int64
			s   *scen
		}
		var rs []res
		for _, mkKey := range mapKeys {
			if mkKey == "refused" {
				continue
			}
			l := Pick(rng, byMap[mkKey])
			s := base(fam, l)
			mk(s)
			my := id
			ran, acc := exec(s, nil)
			if ran && s.ObsBuilt {
				rs = append(rs, res{l.enf, acc, my, s})
			}
		}
		if a.Only >= 0 {
			return
		}
		for i := range rs {
			for j := range rs {
				le := true
				for k := 0; k < 5; k++ {
					if rs[i].enf[k] > rs[j].enf[k] {
						le = false
					}
				}
				if i != j && le {
					monoPairs++
					if rs[i].acc && !rs[j].acc {
						monoViol++
						w.ImplViolation(rs[j].id, fmt.Sprintf("acceptance is not monotone: the same signature is accepted under the stricter map of case %d and rejected under this more permissive one", rs[i].id), rs[j].s, "")
					}
				}
			}
		}
	}

	// 1. corpus: the scenarios of the fixed defects and of the known finding
	strict := lv{name: "strict"}
	corp := func(f func(s *scen)) {
		s := base("corpus", strict)
		f(s)
		exec(s, nil)
	}
	// F12a: critical attribute, no plugin named
	corp(func(s *scen) { s.OtherCrit = []string{"foo"} })
	// 8993cd3: integer-labelled critical attribute (COSE), without and with plugin
	corp(func(s *scen) { s.Format = MtCOSE; s.NonString = true })
	corp(func(s *scen) {
		s.Format = MtCOSE
		s.NonString = true
		s.Plugin = attrSpec{State: aStr, Val: "plug"}
		s.PM, s.Version, s.Caps = 3, "1.2.0", []string{"TI"}
	})
	// F12b (known finding): plugin with only the revocation capability, revocation skipped, critical attribute
	corp(func(s *scen) {
		s.Override = map[string]string{"revocation": "skip"}
		s.OtherCrit = []string{"foo"}
		s.Plugin = attrSpec{State: aStr, Val: "plug"}
		s.PM, s.Version, s.Caps = 3, "1.2.0", []string{"Rev"}
	})
	// lone critical min-version attribute
	corp(func(s *scen) { s.MinVer = attrSpec{State: aStr, Val: "1.0.0"} })
	// 089b7ea: a non-critical extended attribute without plugin must not fail
	corp(func(s *scen) { s.OtherNon = []string{"note"} })
	// non-critical attribute, plugin executed: listed as processed / not listed
	corp(func(s *scen) {
		s.OtherNon = []string{"note"}
		s.Processed = []string{"note"}
		s.Plugin = attrSpec{State: aStr, Val: "plug"}
		s.PM, s.Version, s.Caps = 3, "1.2.0", []string{"TI"}
	})
	corp(func(s *scen) {
		s.OtherNon = []string{"note"}
		s.Plugin = attrSpec{State: aStr, Val: "plug"}
		s.PM, s.Version, s.Caps = 3, "1.2.0", []string{"TI"}
	})

	// 2. illegal levels / overrides: the verifier must not be constructed
	illegal := []lv{
		{name: "strict", ov: map[string]string{"integrity": "log"}},
		{name: "strict", ov: map[string]string{"integrity": "enforce"}},
		{name: "permissive", ov: map[string]string{"authenticity": "skip"}},
		{name: "audit", ov: map[string]string{"expiry": "skip"}},
		{name: "strict", ov: map[string]string{"authenticTimestamp": "skip"}},
		{name: "strict", ov: map[string]string{"revocation": "ignore"}},
		{name: "strict", ov: map[string]string{"Revocation": "skip"}},
		{name: "strict", ov: map[string]string{"revocations": "log"}},
		{name: "strict", ov: map[string]string{"expiry": ""}},
		{name: "strict", ov: map[string]string{"": "log"}},
		{name: "skip", ov: map[string]string{"revocation": "skip"}},
		{name: "skip", ov: map[string]string{"expiry": "log"}},
		{name: "Strict"}, {name: ""}, {name: "custom"}, {name: "strict "},
		{name: "audit", ov: map[string]string{"revocation": "skip", "authenticity": "skip"}},
	}
	for _, l := range illegal {
		exec(base("illegal", l), nil)
	}

	// 3. plugin version against the demanded minimum
	verPairs := [][2]string{{"1.2.0", "1.2.0"}, {"1.2.0", "1.10.0"}, {"1.10.0", "1.2.0"}, {"0.9.0", "1.0.0"}, {"2.0.0", "1.0.0"},
		{"2.0.0-rc.1", "2.0.0"}, {"2.0.0", "2.0.0-rc.1"}, {"1.0.0", "2.0.0"}, {"1.2.0", "1.0"}, {"1.2", "1.0.0"}, {"v1", "1.0.0"}, {"1.2.0", "x"},
		// rarely used legal syntax: build metadata (ignored by precedence), pre-release ordering, leading zeros (illegal)
		{"1.2.0+build.5", "1.2.0"}, {"1.2.0", "1.2.0+build.5"}, {"1.2.0-alpha", "1.2.0-alpha.1"}, {"1.2.0-alpha.1", "1.2.0-alpha"},
		{"1.2.0-rc.10", "1.2.0-rc.9"}, {"1.2.0-rc.9", "1.2.0-rc.10"}, {"01.2.0", "1.0.0"}, {"1.2.0", "01.0.0"}, {"", "1.0.0"}}
	pluginNames := []string{"plug", "Plug.V2", ".hidden-plug", "plug+x"}
	for _, vp := range verPairs {
		for _, ln := range []string{"strict", "audit"} {
			s := base("versions", lv{name: ln})
			s.Plugin = attrSpec{State: aStr, Val: pluginNames[int(id)%len(pluginNames)]}
			s.MinVer = attrSpec{State: aStr, Val: vp[1]}
			s.PM, s.Version, s.Caps = 3, vp[0], []string{"TI", "Rev"}
			exec(s, nil)
		}
	}

	// 4. the table
	if a.Tier != "thorough" {
		// every subset of simultaneously failing native validations x every plugin situation, under every map;
		// situations whose outcome cannot depend on the native validations (not installed, too old,
		// no capability) get four subsets only, the plugin-executing ones two verdict/attribute combinations each
		for f := 0; f < 32; f++ {
			for sit := 0; sit < 7; sit++ {
				reps := 1
				switch {
				case sit >= 1 && sit <= 3:
					if f != 0 && f != 1 && f != 6 && f != 31 {
						continue
					}
				case sit >= 4:
					reps = 2
				}
				for rep := 0; rep < reps; rep++ {
					c := combos[sit][(f*5+sit+rep*13)%len(combos[sit])]
					r := rng.Fork(uint64((f*7+sit)*2 + rep))
					auth, rev, format := 1+r.Intn(3), 1+r.Intn(3), Pick(r, []string{MtJWS, MtCOSE})
					group("table", func(s *scen) {
						rr := *r // same choices for every map of the group
						s.Format = format
						if f&1 != 0 {
							s.Auth = auth
						}
						s.Identity = f&2 == 0
						s.Expired = f&4 != 0
						s.TsOK = f&8 == 0
						if f&16 != 0 {
							s.RevMode = rev
						}
						applySit(s, c, &rr)
					})
				}
			}
		}
	} else {
		w.Exhaustive = true
		n := 0
		for _, auth := range []int{0, 1, 3} {
			for nat := 0; nat < 8; nat++ {
				for rev := 0; rev < 4; rev++ {
					for sit := 0; sit < 7; sit++ {
						for _, c := range combos[sit] {
							r := rng.Fork(uint64(n))
							n++
							format := Pick(r, []string{MtJWS, MtCOSE})
							group("table", func(s *scen) {
								rr := *r
								s.Format = format
								s.Auth = auth
								s.Identity = nat&1 == 0
								s.Expired = nat&2 != 0
								s.TsOK = nat&4 == 0
								s.RevMode = rev
								applySit(s, c, &rr)
							})
						}
					}
				}
			}
		}
	}

	// 5. histories: ONE verifier instance, several verifications in sequence whose expected verdict changes
	plugScen := func(fam string, l lv, caps ...string) *scen {
		s := base(fam, l)
		s.Plugin = attrSpec{State: aStr, Val: "plug"}
		s.PM, s.Version, s.Caps = 3, "1.2.0", caps
		return s
	}
	type step func(s *scen)
	noop := func(s *scen) {}
	withPlug := func(caps ...string) step {
		return func(s *scen) {
			s.Plugin = attrSpec{State: aStr, Val: "plug"}
			s.PM, s.Version, s.Caps = 3, "1.2.0", caps
		}
	}
	seq := func(fs ...step) step {
		return func(s *scen) {
			for _, f := range fs {
				f(s)
			}
		}
	}
	histories := [][]step{
		{noop, func(s *scen) { s.Expired = true }, noop},
		{func(s *scen) { s.RevMode = 1 }, noop, func(s *scen) { s.RevMode = 3 }, noop},
		{noop, func(s *scen) { s.Auth = 1 }, noop, func(s *scen) { s.Auth = 3 }},
		{func(s *scen) { s.TsOK = false }, noop},
		{withPlug("TI"), seq(withPlug("TI"), func(s *scen) { s.TI = 2 }), withPlug("TI")},
		{seq(withPlug("Rev"), func(s *scen) { s.Rev = 2 }), withPlug("Rev"), seq(withPlug("Rev"), func(s *scen) { s.Rev = 0 })},
		// the capabilities of the same plugin change between calls (a metadata memo would be wrong)
		{withPlug("TI"), seq(withPlug("Rev"), func(s *scen) { s.TI = 2 }), seq(withPlug("TI", "Rev"), func(s *scen) { s.Rev = 2 }), withPlug("Other")},
		// plugin installed, then not, then installed; another plugin in between
		{withPlug("TI"), seq(withPlug("TI"), func(s *scen) { s.PM = 1 }), withPlug("TI"),
			seq(withPlug("TI"), func(s *scen) { s.Plugin.Val = "other-plugin"; s.TI = 2 }), withPlug("TI")},
		// no plugin demanded / demanded / not demanded (a memo of "needs plugin" would be wrong)
		{func(s *scen) { s.OtherCrit = []string{"foo"} }, seq(withPlug("TI"), func(s *scen) { s.OtherCrit = []string{"foo"}; s.Processed = []string{"foo"} }),
			func(s *scen) { s.OtherCrit = []string{"foo"} }, noop},
		// critical attribute processed / unprocessed / processed
		{seq(withPlug("TI"), func(s *scen) { s.OtherCrit = []string{"foo"}; s.Processed = []string{"foo"} }),
			seq(withPlug("TI"), func(s *scen) { s.OtherCrit = []string{"foo"} }),
			seq(withPlug("TI"), func(s *scen) { s.OtherCrit = []string{"foo"}; s.Processed = []string{"foo"} })},
		// plugin version good / too low / good; plugin error / fine
		{withPlug("TI"), seq(withPlug("TI"), func(s *scen) { s.Version = "0.9.0"; s.MinVer = attrSpec{State: aStr, Val: "1.0.0"} }), withPlug("TI"),
			seq(withPlug("TI"), func(s *scen) { s.RespErr = true }), withPlug("TI")},
		// the known finding between two ordinary verifications
		{withPlug("Rev"), seq(withPlug("Rev"), func(s *scen) { s.OtherCrit = []string{"foo"} }), withPlug("Rev")},
	}
	histLevels := []lv{{name: "strict"}, {name: "permissive"}, {name: "audit"},
		{name: "strict", ov: map[string]string{"revocation": "skip"}},
		{name: "permissive", ov: map[string]string{"expiry": "enforce", "revocation": "enforce"}},
		{name: "audit", ov: map[string]string{"authenticity": "enforce", "authenticTimestamp": "enforce"}}}
	runHistory := func(l lv, identity bool, freshObjects bool, steps []*scen) {
		if a.Only >= id && a.Only < id+int64(len(steps)) {
			for j := id; j < a.Only; j++ {
				prime[j] = true
			}
		}
		var rg *rig
		for i, s := range steps {
			s.Identity = identity
			if s.PM == 0 {
				s.PM = 1 // the instance has a plugin manager
			}
			s.Step = fmt.Sprintf("%d/%d", i+1, len(steps))
			if rg == nil {
				rg = newRig(s)
			}
			if freshObjects {
				// an equal fresh literal per step (the other histories pass the SAME object to every step)
				rg.config = map[string]string{"zeta": "1", "alpha": "2"}
			}
			exec(s, rg)
		}
	}
	for li, l := range histLevels {
		for hi, h := range histories {
			var steps []*scen
			for _, st := range h {
				s := base("history", l)
				st(s)
				steps = append(steps, s)
			}
			runHistory(l, (li+hi)%5 != 0, (li+hi)%3 == 2, steps)
		}
	}

	// 5b. the same statement NAME in two namespaces: one verifier with an OCI statement "p", a blob
	// statement "p" and a second OCI statement "q", whose levels / override maps differ; Verify and
	// VerifyBlob (and the two OCI statements) alternate, each step judged on the statement of ITS entry point
	triples := [][3]lv{
		{{name: "strict"}, {name: "audit"}, {name: "permissive"}},
		{{name: "audit"}, {name: "strict"}, {name: "strict", ov: map[string]string{"expiry": "log", "revocation": "skip"}}},
		{{name: "permissive", ov: map[string]string{"expiry": "enforce"}}, {name: "permissive"}, {name: "permissive", ov: map[string]string{"revocation": "enforce"}}},
		{{name: "strict", ov: map[string]string{"revocation": "skip"}}, {name: "strict", ov: map[string]string{"revocation": "log"}}, {name: "strict"}},
		{{name: "audit", ov: map[string]string{"authenticity": "enforce"}}, {name: "audit"}, {name: "audit", ov: map[string]string{"authenticTimestamp": "enforce"}}},
	}
	facts := []step{
		func(s *scen) { s.Expired = true },
		func(s *scen) { s.RevMode = 1 },
		func(s *scen) { s.Auth = 3 },
		func(s *scen) { s.TsOK = false; s.RevMode = 2 },
		seq(withPlug("Rev"), func(s *scen) { s.Rev = 2 }),
		seq(withPlug("TI", "Rev"), func(s *scen) { s.TI = 2; s.Rev = 0 }),
	}
	orders := [][]string{{"", "blob"}, {"blob", ""}, {"", "blob", ""}, {"blob", "", "blob"}, {"", "oci2", ""}, {"oci2", "", "oci2"}, {"blob", "oci2", ""}}
	for ti, tr := range triples {
		for fi, fact := range facts {
			for oi, ord := range orders {
				if (ti+fi+oi)%2 == 1 && a.Tier != "thorough" {
					continue
				}
				if a.Only >= id && a.Only < id+int64(len(ord)) {
					for j := id; j < a.Only; j++ {
						prime[j] = true
					}
				}
				var rg *rig
				for i, entry := range ord {
					l := tr[0]
					switch entry {
					case "blob":
						l = tr[1]
					case "oci2":
						l = tr[2]
					}
					s := base("history2", l)
					s.PM = 1
					fact(s)
					s.Entry = entry
					s.Identity = (ti+fi)%4 != 3
					s.Step = fmt.Sprintf("%d/%d", i+1, len(ord))
					if rg == nil {
						rg = newRigMulti(tr[0], tr[1], tr[2], s.Identity)
					}
					exec(s, rg)
				}
			}
		}
	}

	// 6. positions: the foreign capability at every position, both orders of the two verification
	// capabilities; the unprocessed attribute first / middle / last; plugin headers first or last
	capOrders := [][]string{{"Other", "TI", "Rev"}, {"TI", "Other", "Rev"}, {"TI", "Rev", "Other"}, {"Other", "Rev", "TI"}, {"Rev", "Other", "TI"},
		{"Rev", "TI", "Other"}, {"Other", "TI"}, {"TI", "Other"}, {"Other", "Rev"}, {"Rev", "Other"}, {"Other", "Other", "TI"}, {"Other", "TI", "Other", "Rev", "Other"}}
	posLevels := []lv{{name: "strict"}, {name: "permissive"}, {name: "strict", ov: map[string]string{"revocation": "skip"}}}
	for _, co := range capOrders {
		for _, vd := range [][2]int{{2, 1}, {1, 2}, {0, 1}, {1, 0}, {1, 1}} {
			for _, l := range posLevels {
				s := plugScen("positions", l, co...)
				s.TI, s.Rev = vd[0], vd[1]
				exec(s, nil)
			}
		}
	}
	type attrCase struct {
		crit, non, processed []string
	}
	attrCases := []attrCase{
		{[]string{"a", "m", "z"}, nil, []string{"m", "z"}}, {[]string{"a", "m", "z"}, nil, []string{"a", "z"}}, {[]string{"a", "m", "z"}, nil, []string{"a", "m"}},
		{[]string{"a", "m", "z"}, nil, []string{"z", "m", "a"}},
		{[]string{"a", "z"}, []string{"m"}, []string{"a", "z"}}, {[]string{"a", "z"}, []string{"m"}, []string{"z", "m", "a"}},
		{[]string{"a", "z"}, []string{"m"}, []string{"m", "z"}}, {[]string{"a", "z"}, []string{"m"}, []string{"a", "m"}},
		{[]string{"m"}, []string{"a", "z"}, []string{"m"}}, {[]string{"m"}, []string{"a", "z"}, []string{"a", "z"}},
	}
	for _, ac := range attrCases {
		for _, format := range []string{MtJWS, MtCOSE} {
			for _, last := range []bool{false, true} {
				s := plugScen("positions", lv{name: "strict"}, "TI")
				s.Format, s.HdrLast = format, last
				s.OtherCrit, s.OtherNon, s.Processed = ac.crit, ac.non, ac.processed
				exec(s, nil)
				// the same attributes on a signature that demands no plugin
				s2 := base("positions", lv{name: "audit"})
				s2.Format, s2.HdrLast = format, last
				s2.OtherCrit, s2.OtherNon = ac.crit, ac.non
				exec(s2, nil)
			}
		}
	}

	// near misses: what is listed / declared / answered is almost, but not, what was asked
	for _, l := range []lv{{name: "strict"}, {name: "audit"}} {
		for _, crit := range [][]string{{"foo"}, {"bar", "foo"}} {
			for _, variant := range []string{"FOO", "Foo", " foo", "foo ", "fo", "foobar", "foo\x00", "\"foo\""} {
				s := plugScen("positions", l, "TI")
				s.OtherCrit = crit
				s.Processed = append([]string{}, crit[:len(crit)-1]...)
				s.Processed = append(s.Processed, variant)
				exec(s, nil)
			}
		}
		for _, caps := range [][]string{{"ti-lower"}, {"rev-padded"}, {"ti-lower", "Rev"}, {"TI", "rev-padded"}, {"ti-lower", "rev-padded"}} {
			for _, vd := range [][2]int{{1, 1}, {2, 2}} {
				s := plugScen("positions", l, caps...)
				s.TI, s.Rev = vd[0], vd[1]
				s.Identity = false
				s.RevMode = 1
				exec(s, nil)
			}
		}
		for _, caps := range [][]string{{"TI"}, {"Rev"}, {"TI", "Rev"}} {
			s := plugScen("positions", l, caps...)
			s.FoldKeys = true
			exec(s, nil)
		}
	}

	// 7. empty vs absent vs nil
	edge := func(l lv, f func(s *scen), caps ...string) {
		defer func() {
			if r := recover(); r != nil {
				w.Count("edge_not_realisable", fmt.Sprint(r)[:40])
			}
		}()
		var s *scen
		if caps != nil {
			s = plugScen("edge", l, caps...)
		} else {
			s = base("edge", l)
		}
		f(s)
		exec(s, nil)
	}
	for _, l := range []lv{{name: "strict"}, {name: "audit"}, {name: "permissive", ov: map[string]string{}}} {
		edge(l, func(s *scen) { s.EmptyOv = true })
		edge(l, func(s *scen) { s.EmptyOv = true; s.Expired = true; s.RevMode = 1 })
		edge(l, func(s *scen) { s.Expired = true; s.RevMode = 1 })
		edge(l, func(s *scen) { s.NilVR = true }, "TI", "Rev")
		edge(l, func(s *scen) { s.NilVR = true }, "Rev")
		edge(l, func(s *scen) { s.TI, s.Rev = 3, 1 }, "TI", "Rev")
		edge(l, func(s *scen) { s.TI, s.Rev = 1, 3 }, "TI", "Rev")
		edge(l, func(s *scen) { s.TI, s.Rev = 0, 0 }, "Rev", "TI")
		edge(l, func(s *scen) { s.EmptyProc = true }, "TI")
		edge(l, func(s *scen) { s.EmptyProc = true; s.OtherCrit = []string{"foo"} }, "TI")
		edge(l, func(s *scen) { s.EmptyProc = true; s.OtherNon = []string{"note"} }, "TI")
		edge(l, func(s *scen) { s.Plugin.Val = "" }, "TI")
		edge(l, func(s *scen) { s.Plugin.Val = " " }, "TI")
		edge(l, func(s *scen) { s.MinVer = attrSpec{State: aStr, Val: ""} }, "TI")
		edge(l, func(s *scen) { s.MinVer = attrSpec{State: aStr, Val: "  "} }, "TI")
		edge(l, func(s *scen) { s.MinVer = attrSpec{State: aStr, Val: ""} })
		edge(l, func(s *scen) { s.MinVer = attrSpec{State: aNotCritical} })
		edge(l, func(s *scen) { s.MinVer = attrSpec{State: aNotString} })
		edge(l, func(s *scen) { s.Version = "" }, "TI")
		edge(l, func(s *scen) { s.Caps = nil }, "TI")
		edge(l, func(s *scen) { s.Caps = []string{} }, "TI")
		edge(l, func(s *scen) { s.OtherCrit = []string{""} })
		edge(l, func(s *scen) { s.OtherCrit = []string{""}; s.Processed = []string{""} }, "TI")
		edge(l, func(s *scen) { s.OtherCrit = []string{""} }, "TI")
		edge(l, func(s *scen) { s.OtherNon = []string{""} })
		edge(l, func(s *scen) { s.PM = 0 }, "TI")
		edge(l, func(s *scen) { s.PM = 2 }, "TI")
	}

	// 8. random scenarios (malformed headers, rare plugin situations, both formats)
	gen := func(k int) *scen {
		l := levels[k%len(levels)]
		s := base("random", l)
		s.Format = Pick(rng, []string{MtJWS, MtCOSE})
		if rng.Chance(1, 40) {
			s.Integrity = false
		}
		if rng.Chance(1, 3) {
			s.Auth = 1 + rng.Intn(3)
		}
		s.Identity = !rng.Chance(1, 4)
		s.Expired = rng.Chance(1, 4)
		s.TsOK = !rng.Chance(1, 4)
		if rng.Chance(1, 4) {
			s.RevMode = 1 + rng.Intn(3)
		}
		s.OtherCrit = append([]string(nil), Pick(rng, otherSets)...)
		if rng.Chance(1, 5) {
			s.OtherNon = append([]string(nil), Pick(rng, [][]string{{"note"}, {"alpha", "note"}})...)
		}
		if s.Format == MtCOSE && rng.Chance(1, 12) {
			s.NonString = true
		}
		if rng.Chance(1, 3) {
			// no plugin demanded; sometimes a stray min-version attribute
			if rng.Chance(1, 6) {
				s.MinVer = attrSpec{State: 1 + rng.Intn(3), Val: "1.0.0"}
				if s.MinVer.State != aStr {
					s.MinVer.Val = ""
				}
			}
			s.PM = rng.Intn(2)
			return s
		}
		// plugin demanded
		switch rng.Intn(12) {
		case 0:
			s.Plugin = attrSpec{State: aNotCritical}
		case 1:
			s.Plugin = attrSpec{State: aNotString}
		case 2:
			s.Plugin = attrSpec{State: aStr, Val: Pick(rng, []string{"", " ", " \t "})}
		default:
			s.Plugin = attrSpec{State: aStr, Val: Pick(rng, []string{"plug", "plug", "other-plugin", " padded "})}
		}
		switch rng.Intn(10) {
		case 0:
			s.MinVer = attrSpec{State: aNotCritical}
		case 1:
			s.MinVer = attrSpec{State: aNotString}
		case 2, 3, 4:
			s.MinVer = attrSpec{State: aStr, Val: Pick(rng, minvers)}
		}
		switch rng.Intn(10) {
		case 0:
			s.PM = 0
		case 1:
			s.PM = 1
		case 2:
			s.PM = 2
		default:
			s.PM = 3
		}
		s.Version = Pick(rng, versions)
		s.Caps = append([]string(nil), Pick(rng, capSets)...)
		s.RespErr = rng.Chance(1, 12)
		all := append(append([]string{}, s.OtherCrit...), s.OtherNon...)
		switch rng.Intn(5) {
		case 0:
			s.Processed = nil
		case 1:
			if len(all) > 0 {
				s.Processed = all[:len(all)-1]
			}
		case 2:
			s.Processed = append([]string{}, s.OtherCrit...)
		default:
			s.Processed = append([]string{"extra"}, all...)
		}
		s.TI = Pick(rng, []int{1, 1, 1, 2, 2, 0, 3})
		s.Rev = Pick(rng, []int{1, 1, 1, 2, 2, 0, 3})
		return s
	}
	n := 2200
	if a.Tier == "thorough" {
		n = 40000
	}
	for k := 0; k < n; k++ {
		exec(gen(k), nil)
	}
	// 9. duplicates: a verification capability listed more than once (outside wf_sc): the plugin is asked, and
	// its verdict examined, once per occurrence; acceptance, what is performed and the reported outcomes must
	// still follow the level (judged by the contract-free oracle)
	dupCaps := [][]string{{"TI", "TI"}, {"Rev", "Rev"}, {"Rev", "TI", "Rev"}, {"TI", "Rev", "TI"}, {"TI", "Other", "TI", "Rev", "Rev"}}
	dupLevels := []lv{{name: "strict"}, {name: "audit"}, {name: "strict", ov: map[string]string{"revocation": "skip"}},
		{name: "permissive", ov: map[string]string{"authenticity": "log", "revocation": "enforce"}}}
	for _, dc := range dupCaps {
		for _, vd := range [][2]int{{1, 1}, {2, 1}, {1, 2}, {2, 2}, {0, 1}, {1, 0}} {
			for li, l := range dupLevels {
				s := plugScen("duplicates", l, dc...)
				s.TI, s.Rev = vd[0], vd[1]
				s.Identity = li%2 == 0
				if li == 1 {
					s.RevMode = 1
				}
				if li == 2 {
					s.OtherCrit, s.Processed = []string{"foo"}, []string{"foo"}
				}
				exec(s, nil)
			}
		}
	}
	// 10. a validator answer that is not one result per certificate (fix d78db00) is a failed revocation
	// validation like any other: rejected under enforce, reported under log, not consulted under skip / plugin
	for _, rm := range []int{4, 5, 6} {
		for _, l := range []lv{{name: "strict"}, {name: "permissive"}, {name: "audit"}, {name: "strict", ov: map[string]string{"revocation": "skip"}},
			{name: "audit", ov: map[string]string{"revocation": "enforce"}}} {
			s := base("revshape", l)
			s.RevMode = rm
			exec(s, nil)
			s2 := plugScen("revshape", l, "Rev")
			s2.RevMode = rm
			exec(s2, nil)
		}
	}

	// 11. the revocation verdict depends on every certificate of the chain (GoLite mutant "unknown status
	// tolerated on CA certificates" was not found by inputs whose bad status sits on the leaf only)
	for _, rm := range []int{7, 8, 9, 10, 11} {
		for _, l := range []lv{{name: "strict"}, {name: "permissive"}, {name: "audit", ov: map[string]string{"revocation": "enforce"}}} {
			s := base("revchain", l)
			s.RevMode = rm
			exec(s, nil)
		}
	}

	// 12. Unicode white space: strings.TrimSpace(name) == "" also holds for names made of U+0085, U+00A0,
	// U+2028, U+3000 ... (found by the GoLite equivalence of getVerificationPlugin: the model's [blank] was
	// ASCII-only); a name that merely contains such characters is an ordinary plugin name
	for _, l := range []lv{{name: "strict"}, {name: "audit"}} {
		for _, nm := range []string{"\u00a0", "\u3000\u2028 ", "\u0085\t", "\u00a0plug\u00a0", "\u2003x"} {
			nm := nm
			func() {
				defer func() {
					if r := recover(); r != nil {
						w.Count("uspace_not_realisable", fmt.Sprint(r)[:40])
					}
				}()
				s := plugScen("uspace", l, "TI")
				s.Plugin.Val = nm
				exec(s, nil)
				s2 := plugScen("uspace", l, "TI")
				s2.MinVer = attrSpec{State: aStr, Val: nm}
				exec(s2, nil)
			}()
		}
	}

	// 13. the plugin answers (nil, nil): executePlugin must refuse it (GoLite mutant "nil answer read as an
	// empty answer" changes the error from a plain one to ErrorVerificationInconclusive)
	for _, l := range []lv{{name: "strict"}, {name: "audit"}, {name: "strict", ov: map[string]string{"revocation": "skip"}}} {
		for _, caps := range [][]string{{"TI"}, {"Rev"}, {"TI", "Rev"}} {
			s := plugScen("nilresp", l, caps...)
			s.NilResp = true
			exec(s, nil)
			s2 := plugScen("nilresp", l, caps...)
			s2.NilResp = true
			s2.OtherCrit = []string{"foo"}
			exec(s2, nil)
		}
	}

	// 14. ONE validation genuinely fails, under every reachable enforcement map and both signing schemes: the
	// signature is rejected iff the action of THAT validation is enforce; it is reported under that type with
	// that action; every type at most once (regression "the certificate-validity failure of the signing
	// authority scheme reported as a second expiry result" was not reachable: no signing-authority envelopes)
	for _, key := range mapKeys {
		if key == "refused" {
			continue
		}
		l := byMap[key][0]
		for _, sa := range []bool{false, true} {
			for _, fail := range []func(s *scen){
				noop,
				func(s *scen) { s.Integrity = false },
				func(s *scen) { s.Auth = 3 },
				func(s *scen) { s.TsOK = false },
				func(s *scen) { s.Expired = true },
				func(s *scen) { s.RevMode = 1 },
				func(s *scen) { s.TsOK = false; s.Expired = true },
			} {
				s := base("pertype", l)
				s.SA = sa
				fail(s)
				exec(s, nil)
			}
		}
	}

	w.Set("frame_checks_caller_owned_objects", frameChecked)
	w.Set("monotonicity_pairs_checked_on_implementation", monoPairs)
	w.Set("monotonicity_violations_on_implementation", monoViol)
	return w.Close()
}

// revOK: does the scripted validator answer make the native revocation validation pass?
func revOK(mode int) bool { return mode == 0 || mode == 10 }

func vtypeCoq(t trustpolicy.ValidationType) string {
	switch t {
	case trustpolicy.TypeIntegrity:
		return "TIntegrity"
	case trustpolicy.TypeAuthenticity:
		return "TAuth"
	case trustpolicy.TypeExpiry:
		return "TExpiry"
	case trustpolicy.TypeAuthenticTimestamp:
		return "TTimestamp"
	case trustpolicy.TypeRevocation:
		return "TRev"
	}
	return "TIntegrity"
}
