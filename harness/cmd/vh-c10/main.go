package main

// C10 driver: runs the real notation.Verify against an instrumented
// registry.Repository (scripted listing, paging, fetch failures) and an
// instrumented notation.Verifier (with or without SkipVerify), records the
// full call log, and prints (input, observation) cases for C10_Model.
// A second family runs it against the real OCI-layout repository of
// notation-go/registry wrapped in a recording decorator.

import (
	"context"
	"encoding/json"
	"errors"
	"fmt"
	"io/fs"
	"math"
	"os"
	"path/filepath"
	"reflect"
	"sort"
	"strings"
	. "vh/kit"

	"github.com/notaryproject/notation-go"
	"github.com/notaryproject/notation-go/registry"
	"github.com/notaryproject/notation-go/verifier/trustpolicy"
	"github.com/opencontainers/go-digest"
	ocispec "github.com/opencontainers/image-spec/specs-go/v1"
	"oras.land/oras-go/v2/errdef"
	orasreg "oras.land/oras-go/v2/registry"
)

func main() { Main("c10", runC10) }

const (
	kG  = 0 // fetched, verifies
	kBd = 1 // fetched, fails verification with an outcome
	kU  = 2 // cannot be fetched
	kNO = 3 // fetched, verifier fails without an outcome
)

var kindNames = []string{"G", "Bd", "U", "NO"}

const (
	c10D1 = "sha256:9834876dcfb05cb167a5c24953eba58c4ac89b1adf57f28f2f9d09af107ee8f0"
	c10D2 = "sha256:60043cf45eaebc4c0867fea485a039b598f52fd09fd5b07b0b2d2f88fad9d74e"
)

type c10Case struct {
	Family     string  `json:"family"`
	NilV       bool    `json:"nil_verifier"`
	NilR       bool    `json:"nil_repo"`
	Max        int64   `json:"max_attempts"`
	Skip       string  `json:"skipper"` // NoSkipper | SkipErr | SkipYes | SkipNo
	Ref        string  `json:"reference"`
	RefClass   string  `json:"ref_class"` // as classified by oras ParseReference and the repository's answer (for the statistics; the Coq case computes it itself, see RefParsed / ResolvedDg)
	RefParsed  string  `json:"ref_parsed,omitempty"`      // ref.Reference as oras parses it (a digest reference: the digest string)
	ResolvedDg string  `json:"resolved_digest,omitempty"` // String() of the digest of the descriptor the repository resolves to
	ResolveErr bool    `json:"resolve_error"`
	Pages      [][]int `json:"pages"` // 0 G, 1 Bd, 2 U, 3 NO
	ListErr    bool    `json:"list_error"`
	WithMeta   bool    `json:"with_metadata"`
	RealRepo   bool    `json:"real_oci_repo"`
	// dimensions that do not change the model's input class (the model is told the class the oracle reports)
	Prior           []*c10Case `json:"prior_calls,omitempty"`       // earlier Verify calls made on the SAME verifier and repository instances (history)
	Resolved        string     `json:"resolved_variant,omitempty"`  // digest the repository resolves to: "" = the sample digest, upper / longer / shorter / algo / space / other
	FetchErr        int        `json:"fetch_error_flavour"`         // 0 plain, 1 wraps errdef.ErrNotFound, 2 fs.ErrNotExist path error, 3 context.DeadlineExceeded
	EmptyMeta       bool       `json:"empty_nonnil_maps,omitempty"` // PluginConfig / UserMetadata are empty non-nil maps (instead of nil)
	NilPages        bool       `json:"nil_pages,omitempty"`         // empty pages are handed over as nil slices
	SkipNilLevel    bool       `json:"skip_nil_level,omitempty"`    // SkipVerify answers (true, nil, nil)
	SkipTrueWithErr bool       `json:"skip_true_with_error,omitempty"` // SkipVerify answers (true, level, err)
	SameObjects     bool       `json:"same_option_objects,omitempty"`  // history: the SAME PluginConfig / UserMetadata map objects are passed to every call
	MutVerifier     bool       `json:"mutating_verifier,omitempty"`    // the verifier writes into the option maps it receives (its own fault; the library must still not mutate and must pass on the caller's maps)
	Frame           []string   `json:"frame_violations,omitempty"`     // caller-owned objects the library changed during the call
	Rogue           [][2]int   `json:"rogue_windows,omitempty"`        // family X: the repository ignores the callback's errors and delivers these windows (start, length) of the listing Pages[0], in this order, then returns nil
	// observation
	Res      string   `json:"obs_result"`
	Desc     string   `json:"obs_descriptor"`
	Outs     string   `json:"obs_outcomes"`
	Log      []string `json:"obs_log"`
	ArgsOK   bool     `json:"obs_args_ok"`
	ArgNotes []string `json:"obs_arg_notes,omitempty"`
	ErrText  string   `json:"obs_error_text,omitempty"`
}

// ---------- instrumentation ----------

type event struct {
	kind byte // 'S','R','L','F','V'
	k    int
}

type world struct {
	c        *c10Case
	events   []event
	argsOK   bool
	notes    []string
	resolved ocispec.Descriptor
	wantRef  string // ref.Reference as parsed by oras (oracle)
	// per signature (position in listing)
	kinds    []int
	manifest []ocispec.Descriptor
	blob     [][]byte
	blobMT   []string
	outcome  []*notation.VerificationOutcome
	badErr   []error
	nilErr   []error
	// verifier side
	level     *trustpolicy.VerificationLevel
	skipErr   error
	listErr   error
	resolvErr error
	fetched   map[int]string // media type handed out by the last fetch of k
	plugin    map[string]string // the caller's objects, passed to notation.Verify
	meta      map[string]string
	// frame check: pristine deep copies, never handed to the library
	pluginOrig, metaOrig map[string]string
	pluginExp, metaExp   map[string]string // originals + what a mutating verifier wrote itself
	resolvedOrig         ocispec.Descriptor
	manifestOrig         []ocispec.Descriptor
	shareMaps, mapsBuilt bool
	frame                []string
}

func copyMap(m map[string]string) map[string]string {
	if m == nil {
		return nil
	}
	c := make(map[string]string, len(m))
	for k, v := range m {
		c[k] = v
	}
	return c
}

func copyDesc(d ocispec.Descriptor) ocispec.Descriptor {
	c := d
	c.Annotations = copyMap(d.Annotations)
	if d.URLs != nil {
		c.URLs = append([]string{}, d.URLs...)
	}
	if d.Data != nil {
		c.Data = append([]byte{}, d.Data...)
	}
	if d.Platform != nil {
		pl := *d.Platform
		if pl.OSFeatures != nil {
			pl.OSFeatures = append([]string{}, pl.OSFeatures...)
		}
		c.Platform = &pl
	}
	return c
}

// snapshotDescs takes the pristine copies of the descriptors the repository hands out.
func (w *world) snapshotDescs() {
	w.resolvedOrig = copyDesc(w.resolved)
	w.manifestOrig = nil
	for _, m := range w.manifest {
		w.manifestOrig = append(w.manifestOrig, copyDesc(m))
	}
}

func (w *world) framed(format string, a ...any) {
	if len(w.frame) < 8 {
		w.frame = append(w.frame, fmt.Sprintf(format, a...))
	}
}

// mapOK: the content is the caller's original content (or that plus what a mutating verifier wrote itself)
func mapOK(got, orig, exp map[string]string) bool {
	return reflect.DeepEqual(got, orig) || reflect.DeepEqual(got, exp)
}

// frameCheck compares every caller-owned / repository-owned object that was passed by
// reference into notation.Verify with its snapshot. (Outcome.Error of a failing outcome is
// the library's to set: notation.Verify wraps it, as modelled.)
func (w *world) frameCheck() {
	if !mapOK(w.plugin, w.pluginOrig, w.pluginExp) {
		w.framed("VerifyOptions.PluginConfig: now %v, was %v", w.plugin, w.pluginOrig)
	}
	if !mapOK(w.meta, w.metaOrig, w.metaExp) {
		w.framed("VerifyOptions.UserMetadata: now %v, was %v", w.meta, w.metaOrig)
	}
	if !reflect.DeepEqual(w.resolved, w.resolvedOrig) {
		w.framed("descriptor returned by Repository.Resolve (Annotations / URLs / Platform)")
	}
	for k := range w.manifest {
		if k < len(w.manifestOrig) && !reflect.DeepEqual(w.manifest[k], w.manifestOrig[k]) {
			w.framed("signature manifest descriptor %d (Annotations)", k)
		}
	}
}

func (w *world) bad(format string, a ...any) {
	w.argsOK = false
	if len(w.notes) < 8 {
		w.notes = append(w.notes, fmt.Sprintf(format, a...))
	}
}

func (w *world) sigOfManifest(d ocispec.Descriptor) int {
	for k, m := range w.manifest {
		if m.Digest == d.Digest {
			if k < len(w.manifestOrig) && !reflect.DeepEqual(w.manifestOrig[k], d) {
				w.bad("descriptor of signature %d altered", k)
			}
			return k
		}
	}
	return 99
}

func (w *world) sigOfBlob(b []byte) int {
	for k, x := range w.blob {
		if string(x) == string(b) {
			return k
		}
	}
	return 99
}

// scripted repository
type mockRepo struct{ w *world }

func (r mockRepo) Resolve(ctx context.Context, reference string) (ocispec.Descriptor, error) {
	w := r.w
	w.events = append(w.events, event{'R', 0})
	if reference != w.wantRef {
		w.bad("Resolve got %q, want %q", reference, w.wantRef)
	}
	if w.c.ResolveErr {
		return ocispec.Descriptor{}, w.resolvErr
	}
	return w.resolved, nil
}

func (r mockRepo) ListSignatures(ctx context.Context, desc ocispec.Descriptor, fn func([]ocispec.Descriptor) error) error {
	w := r.w
	w.events = append(w.events, event{'L', 0})
	if !reflect.DeepEqual(desc, w.resolvedOrig) {
		w.bad("ListSignatures got a descriptor other than the resolved one")
	}
	if len(w.c.Rogue) > 0 {
		// a repository that does not honour the contract: it drops the callback's error,
		// delivers the scripted windows (repeated, out of order) and reports success
		for _, win := range w.c.Rogue {
			page := make([]ocispec.Descriptor, win[1])
			copy(page, w.manifest[win[0]:win[0]+win[1]])
			_ = fn(page)
		}
		return nil
	}
	pos := 0
	for _, p := range w.c.Pages {
		page := make([]ocispec.Descriptor, len(p))
		copy(page, w.manifest[pos:pos+len(p)])
		pos += len(p)
		if len(p) == 0 && w.c.NilPages {
			page = nil
		}
		err := fn(page)
		// the page slice belongs to the repository: the callback must not reorder or rewrite it
		for j := range page {
			if !reflect.DeepEqual(page[j], w.manifestOrig[pos-len(p)+j]) {
				w.framed("page slice handed to the ListSignatures callback (element %d of the page)", j)
				break
			}
		}
		if err != nil {
			return err
		}
	}
	if w.c.ListErr {
		return w.listErr
	}
	return nil
}

func (r mockRepo) FetchSignatureBlob(ctx context.Context, desc ocispec.Descriptor) ([]byte, ocispec.Descriptor, error) {
	w := r.w
	k := w.sigOfManifest(desc)
	w.events = append(w.events, event{'F', k})
	if k == 99 {
		w.bad("FetchSignatureBlob got an unlisted descriptor")
		return nil, ocispec.Descriptor{}, errors.New("mock: unknown signature manifest")
	}
	if w.kinds[k] == kU {
		switch w.c.FetchErr {
		case 1:
			return nil, ocispec.Descriptor{}, fmt.Errorf("mock: blob of signature %d: %w", k, errdef.ErrNotFound)
		case 2:
			return nil, ocispec.Descriptor{}, &fs.PathError{Op: "open", Path: fmt.Sprintf("blobs/sha256/sig%d", k), Err: fs.ErrNotExist}
		case 3:
			return nil, ocispec.Descriptor{}, context.DeadlineExceeded
		}
		return nil, ocispec.Descriptor{}, fmt.Errorf("mock: blob of signature %d is gone", k)
	}
	w.fetched[k] = w.blobMT[k]
	return append([]byte(nil), w.blob[k]...), ocispec.Descriptor{MediaType: w.blobMT[k], Digest: digest.FromBytes(w.blob[k]), Size: int64(len(w.blob[k]))}, nil
}

func (r mockRepo) PushSignature(ctx context.Context, mediaType string, blob []byte, subject ocispec.Descriptor, annotations map[string]string) (ocispec.Descriptor, ocispec.Descriptor, error) {
	r.w.bad("PushSignature called during Verify")
	return ocispec.Descriptor{}, ocispec.Descriptor{}, errors.New("mock: push not expected")
}

// scripted verifier without SkipVerify
type plainVerifier struct{ w *world }

func (v *plainVerifier) Verify(ctx context.Context, desc ocispec.Descriptor, sig []byte, opts notation.VerifierVerifyOptions) (*notation.VerificationOutcome, error) {
	w := v.w
	k := w.sigOfBlob(sig)
	w.events = append(w.events, event{'V', k})
	if k == 99 {
		w.bad("Verify got a blob that no fetch returned")
		return nil, errors.New("mock: unknown blob")
	}
	if !reflect.DeepEqual(desc, w.resolvedOrig) {
		w.bad("Verify(%d) got a descriptor other than the resolved one", k)
	}
	w.checkOpts(fmt.Sprintf("Verify(%d)", k), opts, w.fetched[k])
	if w.c.MutVerifier {
		// a badly behaved verifier: writes into the maps it was given (and the harness
		// does the same to its expectation of what the caller's maps then hold)
		for _, pair := range [][2]map[string]string{{opts.PluginConfig, w.pluginExp}, {opts.UserMetadata, w.metaExp}} {
			for _, m := range pair {
				if m != nil {
					m["touched-by-verifier"] = fmt.Sprint(k)
					delete(m, "mk")
					delete(m, "pk")
				}
			}
		}
	}
	switch w.kinds[k] {
	case kG:
		return w.outcome[k], nil
	case kBd:
		w.outcome[k].Error = w.badErr[k]
		return w.outcome[k], w.badErr[k]
	default: // kNO (a kU signature never gets here: its blob was not handed out)
		if w.kinds[k] == kU {
			w.bad("Verify(%d): blob of an unfetchable signature", k)
		}
		return nil, w.nilErr[k]
	}
}

func (w *world) checkOpts(who string, opts notation.VerifierVerifyOptions, wantMT string) {
	if opts.ArtifactReference != w.c.Ref {
		w.bad("%s: ArtifactReference %q, want %q", who, opts.ArtifactReference, w.c.Ref)
	}
	if opts.SignatureMediaType != wantMT {
		w.bad("%s: SignatureMediaType %q, want %q", who, opts.SignatureMediaType, wantMT)
	}
	// compared with pristine copies of the caller's content (not with the caller's own map
	// objects, which the library may have been handed and changed)
	if !mapOK(opts.PluginConfig, w.pluginOrig, w.pluginExp) {
		w.bad("%s: PluginConfig received %v, the caller's is %v", who, opts.PluginConfig, w.pluginOrig)
	}
	if !mapOK(opts.UserMetadata, w.metaOrig, w.metaExp) {
		w.bad("%s: UserMetadata received %v, the caller's is %v", who, opts.UserMetadata, w.metaOrig)
	}
}

// scripted verifier with SkipVerify
type skipVerifier struct{ plainVerifier }

func (v *skipVerifier) SkipVerify(ctx context.Context, opts notation.VerifierVerifyOptions) (bool, *trustpolicy.VerificationLevel, error) {
	w := v.w
	w.events = append(w.events, event{'S', 0})
	w.checkOpts("SkipVerify", opts, "")
	switch w.c.Skip {
	case "SkipErr":
		if w.c.SkipTrueWithErr {
			return true, w.level, w.skipErr
		}
		return false, nil, w.skipErr
	case "SkipYes":
		return true, w.level, nil
	}
	return false, trustpolicy.LevelStrict, nil
}

// ---------- one case on the mock repository ----------

const c10Hex = "9834876dcfb05cb167a5c24953eba58c4ac89b1adf57f28f2f9d09af107ee8f0"

// resolvedDigest is what the scripted repository resolves to. Every variant
// but "" differs, as a string, from the sample digest c10D1.
func resolvedDigest(variant string) digest.Digest {
	switch variant {
	case "upper":
		return digest.Digest("sha256:" + strings.ToUpper(c10Hex))
	case "longer":
		return digest.Digest(c10D1 + "00")
	case "shorter":
		return digest.Digest(c10D1[:len(c10D1)-2])
	case "algo":
		return digest.Digest("sha512:" + c10Hex)
	case "space":
		return digest.Digest(c10D1 + " ")
	case "other":
		return digest.FromString("c10-another-artifact")
	}
	return digest.Digest(c10D1)
}

func newWorld(c *c10Case) *world {
	w := &world{}
	w.skipErr = errors.New("mock: trust policy unreadable")
	w.listErr = errors.New("mock: referrers API failed")
	w.resolvErr = errors.New("mock: resolve failed")
	w.script(c)
	return w
}

// script (re)programs the world for one Verify call. The verifier and the
// repository instances that point to the world stay the same (histories); the
// signature at position k keeps its manifest descriptor and blob across calls,
// outcomes are fresh objects for every call.
func (w *world) script(c *c10Case) {
	w.c = c
	w.events, w.argsOK, w.notes, w.fetched, w.frame = nil, true, nil, map[int]string{}, nil
	w.resolved = ocispec.Descriptor{MediaType: "application/vnd.oci.image.manifest.v1+json", Digest: resolvedDigest(c.Resolved), Size: 528}
	if c.WithMeta {
		// a descriptor with every optional field set: a copy that drops fields is visible
		w.resolved.ArtifactType = "application/vnd.c10.artifact"
		w.resolved.Annotations = map[string]string{"org.opencontainers.image.created": "2024-01-01T00:00:00Z", "c10": ""}
		w.resolved.URLs = []string{"https://mirror.example/c10"}
		w.resolved.Platform = &ocispec.Platform{Architecture: "amd64", OS: "linux"}
	}
	w.level = nil
	if !c.SkipNilLevel {
		lv := *trustpolicy.LevelSkip
		w.level = &lv
	}
	if !(w.shareMaps && w.mapsBuilt) {
		w.plugin, w.meta = nil, nil
		if c.WithMeta {
			w.plugin = map[string]string{"pk": "pv", "empty": "", "pk2": "pv2"}
			w.meta = map[string]string{"mk": "mv", "mk2": ""}
		} else if c.EmptyMeta {
			w.plugin = map[string]string{}
			w.meta = map[string]string{}
		}
		w.pluginOrig, w.metaOrig = copyMap(w.plugin), copyMap(w.meta)
		w.pluginExp, w.metaExp = copyMap(w.plugin), copyMap(w.meta)
		w.mapsBuilt = true
	}
	w.kinds = nil
	for _, p := range c.Pages {
		w.kinds = append(w.kinds, p...)
	}
	for k := len(w.manifest); k < len(w.kinds); k++ {
		b := []byte(fmt.Sprintf("c10-signature-envelope-%d", k))
		mt := "application/jose+json"
		if k%2 == 1 {
			mt = "application/cose"
		}
		w.blob = append(w.blob, b)
		w.blobMT = append(w.blobMT, mt)
		m := ocispec.Descriptor{MediaType: "application/vnd.oci.image.manifest.v1+json",
			ArtifactType: registry.ArtifactTypeNotation, Digest: digest.FromString(fmt.Sprintf("c10-signature-manifest-%d", k)), Size: int64(700 + k)}
		if k%3 == 2 {
			m.Annotations = map[string]string{"io.cncf.notary.x509chain.thumbprint#S256": "[]", "empty": ""}
		}
		w.manifest = append(w.manifest, m)
		w.badErr = append(w.badErr, fmt.Errorf("mock: signature %d is not trusted", k))
		w.nilErr = append(w.nilErr, fmt.Errorf("mock: verifier broke on signature %d", k))
	}
	w.outcome = nil
	for k := range w.manifest {
		w.outcome = append(w.outcome, &notation.VerificationOutcome{RawSignature: w.blob[k], VerificationLevel: trustpolicy.LevelStrict})
	}
	w.snapshotDescs()
}

// classifyRef asks oras (the oracle) what the reference is.
func classifyRef(ref string, resolvedDigest string) (class string, wantRef string) {
	r, err := orasreg.ParseReference(ref)
	if err != nil {
		return "RInvalid", ""
	}
	if r.Reference == "" {
		return "RNone", ""
	}
	if r.ValidateReferenceAsDigest() != nil {
		return "RTag", r.Reference
	}
	if r.Reference == resolvedDigest {
		return "RDigSame", r.Reference
	}
	return "RDigDiff", r.Reference
}

func execMock(c *c10Case) (panicked any) {
	w := &world{shareMaps: c.SameObjects}
	w.skipErr = errors.New("mock: trust policy unreadable")
	w.listErr = errors.New("mock: referrers API failed")
	w.resolvErr = errors.New("mock: resolve failed")
	if c.SameObjects {
		// one pair of option maps for the whole history: same content wanted at every call
		for _, p := range c.Prior {
			p.WithMeta, p.EmptyMeta, p.SameObjects = c.WithMeta, c.EmptyMeta, true
		}
	}
	// ONE verifier and ONE repository instance for the whole history
	var vInst notation.Verifier
	if c.Skip == "NoSkipper" {
		vInst = &plainVerifier{w}
	} else {
		vInst = &skipVerifier{plainVerifier{w}}
	}
	var rInst registry.Repository = mockRepo{w}
	call := func(c *c10Case) (panicked any) {
		w.script(c)
		c.RefClass, w.wantRef = classifyRef(c.Ref, w.resolved.Digest.String())
		c.RefParsed, c.ResolvedDg = w.wantRef, w.resolved.Digest.String()
		var v notation.Verifier
		var repo registry.Repository
		if !c.NilV {
			v = vInst
		}
		if !c.NilR {
			repo = rInst
		}
		opts := notation.VerifyOptions{ArtifactReference: c.Ref, MaxSignatureAttempts: int(c.Max), PluginConfig: w.plugin, UserMetadata: w.meta}
		var desc ocispec.Descriptor
		var outs []*notation.VerificationOutcome
		var err error
		func() {
			defer func() { panicked = recover() }()
			desc, outs, err = notation.Verify(context.Background(), v, repo, opts)
		}()
		if panicked != nil {
			return panicked
		}
		c.Res, c.Desc, c.Outs, c.Log, c.ArgNotes, c.ErrText, c.Frame = "", "", "", nil, nil, "", nil
		observe(c, w, desc, outs, err, func(k int) int { return k })
		return nil
	}
	for _, p := range c.Prior {
		if pan := call(p); pan != nil {
			return fmt.Sprintf("in an earlier call of the history: %v", pan)
		}
	}
	return call(c)
}

// observe canonicalises what Verify returned. pos maps a signature number of
// the world to its position in the listing (identity for the mock repository).
func observe(c *c10Case, w *world, desc ocispec.Descriptor, outs []*notation.VerificationOutcome, err error, pos func(int) int) {
	// descriptor
	switch {
	case reflect.DeepEqual(desc, ocispec.Descriptor{}):
		c.Desc = "DZero"
	case reflect.DeepEqual(desc, w.resolvedOrig):
		c.Desc = "DResolved"
	default:
		c.Desc = "DOther"
	}
	// outcomes
	c.Outs = "OOther"
	switch {
	case outs == nil:
		c.Outs = "ONone"
	case len(outs) == 1 && outs[0] != nil:
		o := outs[0]
		if o.VerificationLevel == w.level && o.Error == nil && o.EnvelopeContent == nil && o.RawSignature == nil && o.VerificationResults == nil {
			c.Outs = "OSkip"
		}
		for k, x := range w.outcome {
			if x == o && o.Error == nil && string(o.RawSignature) == string(w.blob[k]) && o.VerificationLevel == trustpolicy.LevelStrict {
				c.Outs = fmt.Sprintf("OSig %d", pos(k))
			}
		}
	}
	// result
	c.Res = classifyErr(c, w, err, pos)
	if err != nil {
		c.ErrText = Short(err.Error(), 160)
	}
	// log
	for _, e := range w.events {
		switch e.kind {
		case 'F', 'V':
			k := e.k
			if k != 99 {
				k = pos(k)
			}
			c.Log = append(c.Log, fmt.Sprintf("%c%d", e.kind, k))
		default:
			c.Log = append(c.Log, string(e.kind))
		}
	}
	c.ArgsOK = w.argsOK
	c.ArgNotes = w.notes
	w.frameCheck()
	c.Frame = w.frame
}

func classifyErr(c *c10Case, w *world, err error, pos func(int) int) string {
	if err == nil {
		return "ROk"
	}
	if err == w.skipErr {
		return "RSkipErr"
	}
	if err == w.listErr {
		return "RListErr"
	}
	for k, e := range w.nilErr {
		if err == e {
			return fmt.Sprintf("(RNilOutcome %d)", pos(k))
		}
	}
	msg := err.Error()
	var rf notation.ErrorSignatureRetrievalFailed
	if errors.As(err, &rf) && err == error(rf) {
		switch {
		case msg == fmt.Sprintf("verifyOptions.MaxSignatureAttempts expects a positive number, got %d", c.Max):
			return "RBadMax"
		case msg == "reference is missing digest or tag":
			return "RNoRef"
		case w.resolvErr != nil && msg == w.resolvErr.Error():
			return "RResolveErr"
		case strings.Contains(msg, "does not match the resolved digest") && strings.Contains(msg, w.resolved.Digest.String()):
			return "RDigestMismatch"
		case strings.HasPrefix(msg, "no signature is associated with"):
			return "RNoSignature"
		case strings.HasPrefix(msg, "unable to retrieve digital signature with digest"):
			for k, m := range w.manifest {
				if strings.Contains(msg, fmt.Sprintf("%q", m.Digest)) {
					return fmt.Sprintf("(RFetch %d)", pos(k))
				}
			}
			return "ROther"
		}
		if _, perr := orasreg.ParseReference(c.Ref); perr != nil && msg == perr.Error() {
			return "RBadRef"
		}
		return "ROther"
	}
	var vf notation.ErrorVerificationFailed
	if errors.As(err, &vf) && err == error(vf) {
		if msg == fmt.Sprintf("signature evaluation stopped. The configured limit of %d signatures to verify per artifact exceeded", c.Max) {
			return "RExceeded"
		}
		return "ROther"
	}
	if j, ok := err.(interface{ Unwrap() []error }); ok {
		es := j.Unwrap()
		if len(es) >= 1 && es[0] == error(notation.ErrorVerificationFailed{}) {
			var ks []string
			for _, e := range es[1:] {
				found := -1
				for k, b := range w.badErr {
					if errors.Is(e, b) && w.outcome[k].Error == e &&
						strings.HasPrefix(e.Error(), fmt.Sprintf("failed to verify signature with digest %v, ", w.manifest[k].Digest)) {
						found = k
					}
				}
				if found < 0 {
					return "ROther"
				}
				ks = append(ks, fmt.Sprint(pos(found)))
			}
			return "(RAllFailed [" + strings.Join(ks, ";") + "])"
		}
		return "ROther"
	}
	switch msg {
	case "verifier cannot be nil":
		return "RNilVerifier"
	case "repo cannot be nil":
		return "RNilRepo"
	}
	return "ROther"
}

// ---------- Gallina printing ----------

func pagesTerm(pages [][]int) string {
	ps := make([]string, len(pages))
	for i, p := range pages {
		xs := make([]string, len(p))
		for j, k := range p {
			xs[j] = kindNames[k]
		}
		ps[i] = "[" + strings.Join(xs, ";") + "]"
	}
	return "[" + strings.Join(ps, ";") + "]"
}

func logTerm(log []string) string {
	xs := make([]string, len(log))
	for i, e := range log {
		switch e[0] {
		case 'S':
			xs[i] = "ES"
		case 'R':
			xs[i] = "ER"
		case 'L':
			xs[i] = "EL"
		case 'F':
			xs[i] = "EF " + e[1:]
		default:
			xs[i] = "EV " + e[1:]
		}
	}
	return "[" + strings.Join(xs, ";") + "]"
}

func caseTerm(id int64, c *c10Case) string {
	outs := c.Outs
	if strings.HasPrefix(outs, "OSig") {
		outs = "(" + outs + ")"
	}
	// a digest reference: the model compares the two digest strings itself (C10_Model.classify);
	// the other classes are what oras reports
	refTerm := c.RefClass
	if c.RefClass == "RDigSame" || c.RefClass == "RDigDiff" {
		refTerm = CApp("classify", CApp("PDigest", CStr(c.RefParsed)), CStr(c.ResolvedDg))
	}
	in := CApp("mk_input", CBool(c.NilV), CBool(c.NilR), CZ(c.Max), c.Skip, refTerm, CBool(c.ResolveErr), pagesTerm(c.Pages), CBool(c.ListErr))
	obs := CApp("mk_obs", c.Res, c.Desc, outs, logTerm(c.Log), CBool(c.ArgsOK))
	return CApp("mk_case", CN(id), in, obs)
}

// rogueTerm prints a case of family X: only the call log is compared (what Verify returns
// depends on what such a repository returns).
func rogueTerm(id int64, c *c10Case) string {
	calls := make([]string, len(c.Rogue))
	for i, win := range c.Rogue {
		xs := make([]string, win[1])
		for j := range xs {
			xs[j] = kindNames[c.Pages[0][win[0]+j]]
		}
		calls[i] = CPair(fmt.Sprint(win[0]), "["+strings.Join(xs, ";")+"]")
	}
	d := CApp("mk_dinput", CZ(c.Max), CBool(c.Skip == "NoSkipper"), "["+strings.Join(calls, ";")+"]")
	return CApp("mk_dcase", CN(id), d, logTerm(c.Log))
}

// ---------- generators ----------

// caseKey identifies the input of one call (for the count of distinct cases)
func caseKey(c *c10Case) string {
	return fmt.Sprintf("%v|%v|%d|%s|%s|%s|%s|%v|%v|%v|%v|%d|%v|%v|%v|%v|%v|%v|%v", c.NilV, c.NilR, c.Max, c.Skip, c.RefClass, c.Ref, c.Resolved, c.ResolveErr, c.Pages, c.ListErr, c.RealRepo,
		c.FetchErr, c.EmptyMeta, c.NilPages, c.SkipNilLevel, c.SkipTrueWithErr, c.SameObjects, c.MutVerifier, c.WithMeta)
}

func compositions(n int) [][]int {
	if n == 0 {
		return [][]int{{}}
	}
	var out [][]int
	for first := 1; first <= n; first++ {
		for _, rest := range compositions(n - first) {
			out = append(out, append([]int{first}, rest...))
		}
	}
	return out
}

func split(l []int, sizes []int) [][]int {
	pages := [][]int{}
	pos := 0
	for _, s := range sizes {
		pages = append(pages, append([]int{}, l[pos:pos+s]...))
		pos += s
	}
	return pages
}

func listings(n, base int, f func(l []int)) {
	l := make([]int, n)
	var rec func(i int)
	rec = func(i int) {
		if i == n {
			f(append([]int(nil), l...))
			return
		}
		for k := 0; k < base; k++ {
			l[i] = k
			rec(i + 1)
		}
	}
	rec(0)
}

var tagRefs = []string{"reg.example/app/c10:v1", "localhost:5000/c10:latest", "reg.example/a/b/c:1.0.0"}
var sameRefs = []string{"reg.example/app/c10@" + c10D1, "reg.example/app/c10:v1@" + c10D1, "localhost:5000/c10@" + c10D1}
var diffRefs = []string{"reg.example/app/c10@" + c10D2, "reg.example/app/c10:v1@" + c10D2}
var noneRefs = []string{"reg.example/app/c10", "localhost:5000/c10"}
var badRefs = []string{"", "reg.example/UPPER/c10:v1", "reg.example/app/c10@sha256:zz", "noslash", "reg.example/app/c10:bad tag", "reg.example/app/c10@" + c10D1[:40]}

func runC10(a *Args) error {
	rng := NewRng(a.Seed)
	prelude := "From NV Require Import Base C10_Model.\n"
	w := NewCaseWriter(a, "C10", prelude, "case", "run")
	quick := a.Tier != "thorough"
	w.Rule = "the real notation.Verify driven by a scripted registry.Repository and Verifier. Family A (exhaustive, seed-independent): every listing of n signatures over {verifies, fails, unfetchable, fails-without-outcome} x every composition of n into non-empty pages x every limit 1..n+1 (quick: n<=3 over 4 kinds exhaustively, plus seeded samples of n=4 over 4 kinds and n=5,6 over {verifies, fails, unfetchable} with limits around the decisive position and the end of the listing; thorough: n<=5 over 4 kinds exhaustively, seeded samples of n=6,7 over 3 kinds with all limits). Family B: empty pages inserted at every position. Family C: nil arguments, non-positive and huge limits, the four SkipVerify behaviours, tag / matching-digest / mismatching-digest / tagless / malformed references (classified by oras ParseReference itself), Resolve and ListSignatures failures, crossed with 8 representative listings. Family D: random listings of up to 14 signatures (mostly failing, so that the limit decides), random pagings with empty pages, random limits. Family H (first): histories of 2-4 Verify calls on ONE verifier and ONE repository instance whose script changes between the calls (pass then fail, fail then pass, limit / reference / resolved digest / skip changed: all ordered pairs of 16 call templates plus random histories of 3-4), each case being the last call judged on its own input. Family F: n=5..8 failing signatures with one verifying / unfetchable / outcome-less signature at EVERY position, limits below / at / beyond it, page breaks before / at / after it; and a good signature with a second odd one before or after it. Family R: 36 rarely used or nearly legal reference spellings (upper-case host, IPv6, tag+digest, several '@', sha512, upper-case hex, trailing space, empty tag or digest) x the digest the repository resolves to (equal, upper-cased, longer, shorter, other algorithm, trailing space, other). Unfetchable signatures fail with four error flavours (plain, errdef.ErrNotFound, fs.ErrNotExist, deadline); empty pages as nil or empty slices; PluginConfig/UserMetadata nil, empty or filled; SkipVerify answering a nil level or (true, err). Family X: a scripted repository that IGNORES the callback's errors (keeps delivering after done / exceeded / failure, repeats pages, delivers out of order): only the call log is observed and compared with the callback model driven over the same invocations (C10_Model.drive); at most N fetches and fetch-then-verify pairing are checked on the observed log. Family W: the witness of C10_iff_without_contract_refuted and the inputs of the Examples of props/C10_Property.v (fixed). Family E: the real OCI-layout repository of notation-go/registry, signatures pushed with PushSignature, blobs deleted to make them unfetchable, listing order as delivered by the repository. non-trivial = the listing is reached and holds at least 2 signatures, or the case exercises a skip / pin / limit<=0 rule; distinct = distinct (arguments, reference class, paged listing, limit) tuples"
	w.Assumptions = []string{
		"Repository.ListSignatures hands the callback consecutive pages in listing order and returns the callback's first error (contract of registry.Repository; the scripted repository and the real OCI-layout repository both do)",
		"reference classes (invalid / no tag or digest / tag / digest) are those reported by oras registry.ParseReference and ValidateReferenceAsDigest, asked by the harness for every reference string; for a digest reference the case carries ref.Reference and the String() of the digest the repository resolves to, and the MODEL compares them (C10_Model.classify)",
		"a Verifier that returns no error returns a non-nil outcome (a verifier failing WITHOUT an outcome is modelled: kind NO)",
		"frame check (Go side, every case): PluginConfig / UserMetadata maps of VerifyOptions, the descriptor Resolve returned, the signature manifest descriptors and the page slices are deep-snapshotted before the call; any change by notation.Verify is an implementation violation (footprint frame); every SkipVerify / Verify call must receive option maps with the caller's original content (a verifier that itself writes into them is scripted in some cases: only its own writes are tolerated)",
		"error classes are recognised by Go type (errors.As), identity of the injected errors, and the fixed message texts of notation.go",
	}

	var id int64
	emit := func(c *c10Case) {
		my := id
		id++
		if !w.Want(my) {
			return
		}
		var pan any
		if c.RealRepo {
			pan = execReal(a, c, my)
		} else {
			pan = execMock(c)
		}
		n := 0
		for _, p := range c.Pages {
			n += len(p)
		}
		key := caseKey(c)
		for _, p := range c.Prior {
			key = caseKey(p) + " ; " + key
		}
		if pan != nil {
			c.Res = "panic"
			w.ImplViolation(my, fmt.Sprintf("notation.Verify panicked: %v", pan), c, "panic")
			w.Count("result", "panic")
			return
		}
		for _, p := range c.Prior {
			if len(p.Frame) > 0 {
				w.ImplViolation(my, "library mutated caller-owned "+p.Frame[0]+" (in an earlier call of this history)", c, "frame")
				break
			}
		}
		if len(c.Frame) > 0 {
			w.ImplViolation(my, "library mutated caller-owned "+c.Frame[0], c, "frame")
		}
		if c.SameObjects {
			w.Count("history_same_option_objects", fmt.Sprint(len(c.Prior)+1))
		}
		if c.MutVerifier {
			w.Count("mutating_verifier", "yes")
		}
		if len(c.Rogue) > 0 {
			// family X: the log only (judged by dspec_ok / dmodel); wrong arguments are a Go-side violation
			if !c.ArgsOK {
				w.ImplViolation(my, "a call received wrong arguments under a repository that ignores the callback's errors: "+strings.Join(c.ArgNotes, "; "), c, "args")
			}
			w.Add(my, rogueTerm(my, c), c, key+fmt.Sprintf("|rogue%v", c.Rogue), len(c.Rogue) >= 2)
			w.Count("family", c.Family)
			w.Count("rogue_windows", fmt.Sprint(len(c.Rogue)))
			w.Count("listing_len", fmt.Sprint(n))
			nf := 0
			for _, e := range c.Log {
				if e[0] == 'F' {
					nf++
				}
			}
			switch {
			case int64(nf) == c.Max:
				w.Count("rogue_fetches", "=limit")
			case int64(nf) < c.Max:
				w.Count("rogue_fetches", "<limit")
			default:
				w.Count("rogue_fetches", ">limit")
			}
			return
		}
		reaches := !c.NilV && !c.NilR && c.Max > 0 && (c.Skip == "NoSkipper" || c.Skip == "SkipNo") && (c.RefClass == "RTag" || c.RefClass == "RDigSame") && !c.ResolveErr
		nontriv := (reaches && (n >= 2 || len(c.Prior) > 0)) || (!c.NilV && !c.NilR && (c.Max <= 0 || c.Skip == "SkipYes" || c.RefClass == "RDigDiff" || c.RefClass == "RNone"))
		w.Add(my, caseTerm(my, c), c, key, nontriv)
		w.Count("family", c.Family)
		w.Count("history_len", fmt.Sprint(len(c.Prior)+1))
		w.Count("resolved_variant", "v:"+c.Resolved)
		if n > 0 {
			w.Count("fetch_error_flavour", fmt.Sprint(c.FetchErr))
		}
		w.Count("listing_len", fmt.Sprint(n))
		w.Count("pages", fmt.Sprint(len(c.Pages)))
		w.Count("ref_class", c.RefClass)
		w.Count("skipper", c.Skip)
		res := strings.Trim(strings.SplitN(c.Res, " ", 2)[0], "()")
		w.Count("result", res)
		if c.Max <= 0 {
			w.Count("limit", "<=0")
		} else if int(c.Max) > n {
			w.Count("limit", ">len")
		} else if int(c.Max) == n {
			w.Count("limit", "=len")
		} else {
			w.Count("limit", "<len")
		}
	}

	reachSkip := []string{"NoSkipper", "SkipNo"}
	reachRef := func() string {
		if rng.Bool() {
			return Pick(rng, tagRefs)
		}
		return Pick(rng, sameRefs)
	}
	listingCase := func(fam string, pages [][]int, max int64) *c10Case {
		c := &c10Case{Family: fam, Max: max, Skip: Pick(rng, reachSkip), Ref: reachRef(), Pages: pages, ListErr: rng.Chance(1, 8), WithMeta: rng.Bool(),
			FetchErr: rng.Intn(4), NilPages: rng.Bool()}
		c.EmptyMeta = !c.WithMeta && rng.Bool()
		c.MutVerifier = rng.Chance(1, 4)
		return c
	}

	// corpus first
	if a.Corpus != "" {
		files, _ := filepath.Glob(filepath.Join(a.Corpus, "*.json"))
		sort.Strings(files)
		for _, f := range files {
			b, err := os.ReadFile(f)
			if err != nil {
				continue
			}
			var cs []c10Case
			if json.Unmarshal(b, &cs) != nil {
				continue
			}
			for i := range cs {
				c := cs[i]
				c.Family = "corpus"
				c.Res, c.Desc, c.Outs, c.Log, c.ArgNotes, c.ErrText = "", "", "", nil, nil, ""
				if c.Pages == nil {
					c.Pages = [][]int{}
				}
				emit(&c)
			}
		}
	}

	// H. histories: 2-4 Verify calls on ONE verifier instance and ONE repository instance, the
	// expected verdict changing between the calls; every case is the LAST call of its history,
	// judged on its own input (the model is stateless); replay re-runs the earlier calls first.
	// This family comes first so that a regression that keeps state across calls is reported
	// with a history that reproduces it.
	type tmpl func(plain bool) *c10Case
	hcase := func(plain bool, ref string, max int64, pages [][]int) *c10Case {
		sk := "SkipNo"
		if plain {
			sk = "NoSkipper"
		}
		return &c10Case{Family: "H", Max: max, Skip: sk, Ref: ref, Pages: pages}
	}
	tagRef, digRef := tagRefs[0], sameRefs[0]
	tmpls := []tmpl{
		func(p bool) *c10Case { return hcase(p, tagRef, 2, [][]int{{kG}}) },                // ok with signature 0
		func(p bool) *c10Case { return hcase(p, tagRef, 2, [][]int{{kBd}}) },               // signature 0 now fails
		func(p bool) *c10Case { return hcase(p, tagRef, 2, [][]int{{kBd}, {kG}}) },         // ok with signature 1
		func(p bool) *c10Case { return hcase(p, tagRef, 1, [][]int{{kBd}, {kG}}) },         // same listing, smaller limit
		func(p bool) *c10Case { return hcase(p, tagRef, 3, [][]int{{kU}, {kG}}) },          // signature 0 no longer fetchable
		func(p bool) *c10Case { return hcase(p, tagRef, 3, [][]int{}) },                    // no signature any more
		func(p bool) *c10Case { return hcase(p, digRef, 1, [][]int{{kG}}) },                // digest reference, matching
		func(p bool) *c10Case { c := hcase(p, digRef, 1, [][]int{{kG}}); c.Resolved = "other"; return c }, // the repository now resolves it elsewhere
		func(p bool) *c10Case { c := hcase(p, tagRef, 2, [][]int{{kG}}); c.Resolved = "other"; c.WithMeta = true; return c }, // the tag moved
		func(p bool) *c10Case { c := hcase(p, tagRef, 2, [][]int{{kG}}); c.ResolveErr = true; return c },
		func(p bool) *c10Case { // skip (or, without SkipVerify, a non-positive limit)
			c := hcase(p, tagRef, 2, [][]int{{kBd}})
			if p {
				c.Max = 0
			} else {
				c.Skip = "SkipYes"
			}
			return c
		},
		func(p bool) *c10Case { return hcase(p, tagRef, 3, [][]int{{kG, kBd}}) },
		func(p bool) *c10Case { return hcase(p, tagRef, 3, [][]int{{kBd, kBd}, {kG}}) },
		func(p bool) *c10Case { c := hcase(p, tagRef, 3, [][]int{{kBd}}); c.ListErr = true; return c },
		func(p bool) *c10Case { return hcase(p, diffRefs[0], 3, [][]int{{kG}}) },           // digest reference, not matching
		func(p bool) *c10Case { return hcase(p, tagRefs[1], 2, [][]int{{kBd, kG}}) },       // another repository name, same instance
	}
	for x := range tmpls {
		for y := range tmpls {
			plain := (x+y)%2 == 0
			c := tmpls[y](plain)
			c.Prior = []*c10Case{tmpls[x](plain)}
			if (x+2*y)%3 != 0 { // two thirds of the histories pass the SAME option maps to every call
				c.SameObjects, c.WithMeta = true, true
				c.MutVerifier = (x+y)%5 == 0
			}
			emit(c)
		}
	}
	nH := 80
	if !quick {
		nH = 1500
	}
	for k := 0; k < nH; k++ {
		plain := rng.Bool()
		steps := 3 + rng.Intn(2)
		same, mut := rng.Chance(2, 3), rng.Chance(1, 4)
		var hist []*c10Case
		for j := 0; j < steps; j++ {
			c := Pick(rng, tmpls)(plain)
			c.WithMeta = c.WithMeta || rng.Bool() || same
			c.SameObjects, c.MutVerifier = same, mut
			c.FetchErr = rng.Intn(4)
			if j >= 2 {
				c.Prior = append([]*c10Case{}, hist...)
				emit(c)
			}
			// the copy kept in the history is a fresh object (observations of prior calls are written into it)
			cp := *c
			cp.Prior = nil
			hist = append(hist, &cp)
		}
	}

	// A. exhaustive listings x pagings x limits
	// quick:    n<=3 over 4 kinds exhaustively; n=4 over 4 kinds and n=5,6 over 3 kinds sampled,
	//           with limits around the decisive position and the end of the listing
	// thorough: n<=5 over 4 kinds exhaustively; n=6,7 over 3 kinds sampled
	exh4, maxN := 3, 6
	if !quick {
		exh4, maxN = 5, 7
	}
	// empty listing: no page, one empty page, two empty pages
	for _, pages := range [][][]int{{}, {{}}, {{}, {}}} {
		for max := int64(1); max <= 2; max++ {
			emit(listingCase("A", pages, max))
		}
	}
	for n := 1; n <= maxN; n++ {
		base := 4
		if n > exh4 && !(quick && n == 4) {
			base = 3
		}
		// sampling rate (1 in keep) of the (listing, paging, limit) cells beyond the exhaustive part
		keep := 1
		if n > exh4 {
			if quick {
				keep = map[int]int{4: 4, 5: 24, 6: 160}[n]
			} else {
				keep = map[int]int{6: 4, 7: 40}[n]
			}
		}
		comps := compositions(n)
		listings(n, base, func(l []int) {
			// position of the first decisive signature (or n)
			dec := n
			for i, k := range l {
				if k != kBd {
					dec = i
					break
				}
			}
			for _, sizes := range comps {
				for max := 1; max <= n+1; max++ {
					if n > exh4 {
						if quick {
							// limits around the decisive position and around the end only
							near := max == dec || max == dec+1 || max == dec+2 || max == n || max == n+1
							if !near {
								continue
							}
						}
						if !rng.Chance(1, keep) {
							continue
						}
					}
					emit(listingCase("A", split(l, sizes), int64(max)))
				}
			}
		})
	}
	w.Exhaustive = false
	w.Set("exhaustive_part", fmt.Sprintf("family A: all listings of n<=%d signatures over 4 kinds x all compositions into non-empty pages x all limits 1..n+1 (seed-independent); sampled beyond, up to n=%d", exh4, maxN))

	// F. the odd element at EVERY position of a longer listing: n-1 failing signatures and one
	// signature that verifies / cannot be fetched / fails without outcome at position p, limits just
	// below, at and beyond p, four pagings that put the page break before, at and after p
	fMax := 8
	if !quick {
		fMax = 12
	}
	for n := 5; n <= fMax; n++ {
		for p := 0; p < n; p++ {
			for _, odd := range []int{kG, kU, kNO} {
				l := make([]int, n)
				for i := range l {
					l[i] = kBd
				}
				l[p] = odd
				ones := make([]int, n)
				for i := range ones {
					ones[i] = 1
				}
				pagings := [][]int{{n}, ones}
				if p > 0 {
					pagings = append(pagings, []int{p, n - p}) // break right before p
				} else {
					pagings = append(pagings, []int{0, n})
				}
				if p+1 < n {
					pagings = append(pagings, []int{p + 1, 0, n - p - 1}) // break (and an empty page) right after p
				} else {
					pagings = append(pagings, []int{n, 0})
				}
				for pi, sizes := range pagings {
					for _, max := range []int{p, p + 1, n + 1} {
						if max == 0 || (max == n+1 && pi != 0) {
							continue
						}
						emit(listingCase("F", split(l, sizes), int64(max)))
					}
				}
			}
		}
	}
	// F2. which element matched, with a deviation before and after it: a good signature at p and a
	// second odd one (good / unfetchable / no outcome) at q != p, limits at min+1 and max+1
	for n := 5; n <= 6; n++ {
		for p := 0; p < n; p++ {
			for q := 0; q < n; q++ {
				if p == q {
					continue
				}
				for _, odd := range []int{kG, kU, kNO} {
					if odd == kG && q < p {
						continue // symmetric
					}
					l := make([]int, n)
					for i := range l {
						l[i] = kBd
					}
					l[p], l[q] = kG, odd
					lo, hi := p, q
					if q < p {
						lo, hi = q, p
					}
					ones := make([]int, n)
					for i := range ones {
						ones[i] = 1
					}
					for _, sizes := range [][]int{ones, {lo + 1, hi - lo, n - hi - 1}, {n}} {
						for _, max := range []int{lo + 1, hi + 1} {
							if quick && n == 5 && !rng.Chance(1, 2) {
								continue
							}
							emit(listingCase("F", split(l, sizes), int64(max)))
						}
					}
				}
			}
		}
	}

	// R. rarely used but legal (and nearly legal) reference syntax, classified by oras itself, crossed
	// with what the repository resolves to (for a digest reference every variant but "" must be refused)
	upHex := strings.ToUpper(c10Hex)
	oddRefs := []string{
		"REG.EXAMPLE/app/c10:v1", "Reg.Example:5000/app/c10@" + c10D1, "reg.example:5000/app/c10:V1.0_rc-1", "[::1]:5000/c10:v1", "[::1]:5000/c10@" + c10D1,
		"127.0.0.1:5000/c10:v1", "reg.example/c10:_leading", "reg.example/c10:" + strings.Repeat("a", 128), "reg.example/c10:" + strings.Repeat("a", 129),
		"reg.example/a_b/c__d/e-f.g:latest", "reg.example/app/c10:v1@" + c10D1, "reg.example/app/c10:not a tag@" + c10D1, "reg.example/app/c10:v1:v2@" + c10D1,
		"reg.example/app/c10@" + c10D1 + "@" + c10D1, "reg.example/app/c10@" + c10D2 + "@" + c10D1, "reg.example/app/c10@" + c10D1 + "@" + c10D2,
		"reg.example/app/c10@sha256:" + upHex, "reg.example/app/c10@SHA256:" + c10Hex, "reg.example/app/c10@sha512:" + c10Hex + c10Hex, "reg.example/app/c10@sha512:" + c10Hex,
		"reg.example/app/c10@" + c10D1 + " ", " reg.example/app/c10@" + c10D1, "reg.example/app/c10@" + c10D1 + "00", "reg.example/app/c10@" + c10D1[:len(c10D1)-2],
		"reg.example/app/c10:", "reg.example/app/c10@", "reg.example/app/c10/", "reg.example/", "reg.example:5000", "reg.example/app/c10:v1@", "reg.example/app/c10:@" + c10D1,
		"reg.example/app/c10:sha256", "reg.example/app/c10:" + c10Hex, "reg.example/app:v1/c10", "reg.example/app/c10:v1\n", "reg.example/app/c10:latest:" + c10D1,
	}
	variants := []string{"", "upper", "longer", "shorter", "algo", "space", "other"}
	for ri, ref := range oddRefs {
		for vi, variant := range variants {
			if quick && vi > 0 && (ri+vi)%2 == 1 {
				continue
			}
			c := listingCase("R", [][]int{{kBd}, {kG}}, 3)
			c.Ref, c.Resolved, c.ListErr = ref, variant, false
			emit(c)
		}
	}
	// the usual references against every resolved variant, on listings that would succeed
	for _, ref := range append(append(append([]string{}, tagRefs...), sameRefs...), diffRefs...) {
		for _, variant := range variants[1:] {
			for _, pages := range [][][]int{{{kG}}, {{kBd, kG}}} {
				c := listingCase("R", pages, 2)
				c.Ref, c.Resolved, c.ListErr = ref, variant, false
				emit(c)
			}
		}
	}

	// B. empty pages inserted
	bN := 3
	if !quick {
		bN = 4
	}
	for n := 1; n <= bN; n++ {
		comps := compositions(n)
		listings(n, 4, func(l []int) {
			for _, sizes := range comps {
				for at := 0; at <= len(sizes); at++ {
					if quick && !rng.Chance(1, 3) {
						continue
					}
					s2 := append(append(append([]int{}, sizes[:at]...), 0), sizes[at:]...)
					if rng.Chance(1, 4) {
						s2 = append(s2, 0)
					}
					max := int64(1 + rng.Intn(n+1))
					emit(listingCase("B", split(l, s2), max))
				}
			}
		})
	}

	// C. everything before the listing
	reps := [][][]int{{}, {{kG}}, {{kBd}, {kG}}, {{kU}}, {{kBd, kBd}}, {{kNO}}, {{kBd}, {kBd, kG}}, {{kBd, kU, kG}}}
	skips := []string{"NoSkipper", "SkipErr", "SkipYes", "SkipNo"}
	var allRefs []string
	for _, rs := range [][]string{tagRefs[:2], sameRefs[:2], diffRefs, noneRefs, badRefs} {
		allRefs = append(allRefs, rs...)
	}
	// C1 nil arguments
	for _, nv := range []bool{false, true} {
		for _, nr := range []bool{false, true} {
			if !nv && !nr {
				continue
			}
			for _, max := range []int64{-1, 0, 1, 3} {
				for _, sk := range skips {
					emit(&c10Case{Family: "C", NilV: nv, NilR: nr, Max: max, Skip: sk, Ref: Pick(rng, allRefs), Pages: Pick(rng, reps), ResolveErr: rng.Chance(1, 4), ListErr: rng.Chance(1, 4)})
				}
			}
		}
	}
	// C2 non-positive limits
	for _, max := range []int64{0, -1, -7, math.MinInt64} {
		for _, sk := range skips {
			for _, ref := range allRefs {
				emit(&c10Case{Family: "C", Max: max, Skip: sk, Ref: ref, Pages: Pick(rng, reps), ResolveErr: rng.Chance(1, 4), ListErr: rng.Chance(1, 4), WithMeta: rng.Bool()})
			}
		}
	}
	// C3 skip x reference x resolve error x listing
	for _, sk := range skips {
		for _, ref := range allRefs {
			for _, rerr := range []bool{false, true} {
				for _, pages := range reps {
					if quick && rerr && rng.Chance(1, 2) {
						continue
					}
					max := Pick(rng, []int64{1, 2, 3, math.MaxInt64})
					c := &c10Case{Family: "C", Max: max, Skip: sk, Ref: ref, Pages: pages, ResolveErr: rerr, ListErr: rng.Chance(1, 4), WithMeta: rng.Bool(), FetchErr: rng.Intn(4)}
					c.EmptyMeta = !c.WithMeta && rng.Bool()
					c.SkipNilLevel = sk == "SkipYes" && rng.Bool()
					c.SkipTrueWithErr = sk == "SkipErr" && rng.Bool()
					emit(c)
				}
			}
		}
	}
	// C4 listing errors and huge limits on every representative listing
	for _, pages := range reps {
		for _, lerr := range []bool{false, true} {
			for _, max := range []int64{1, 2, 3, 4, math.MaxInt32, math.MaxInt64} {
				c := listingCase("C", pages, max)
				c.ListErr = lerr
				emit(c)
			}
		}
	}

	// D. random longer listings
	nD := 300
	if !quick {
		nD = 10000
	}
	for k := 0; k < nD; k++ {
		n := 1 + rng.Intn(14)
		l := make([]int, n)
		for i := range l {
			switch {
			case rng.Chance(4, 5):
				l[i] = kBd
			default:
				l[i] = rng.Intn(4)
			}
		}
		var pages [][]int
		for pos := 0; pos < n; {
			if rng.Chance(1, 6) {
				pages = append(pages, []int{})
				continue
			}
			s := 1 + rng.Intn(4)
			if pos+s > n {
				s = n - pos
			}
			pages = append(pages, append([]int{}, l[pos:pos+s]...))
			pos += s
		}
		if rng.Chance(1, 6) {
			pages = append(pages, []int{})
		}
		max := int64(1 + rng.Intn(n+2))
		if rng.Chance(1, 12) {
			max = math.MaxInt64
		}
		emit(listingCase("D", pages, max))
	}

	// X. a repository that ignores the callback's errors: it keeps delivering pages after the
	// callback said "done" / "limit exceeded" / failed, repeats pages and delivers them out of
	// order. The counter lives in the closure, so the bound of N fetches must hold regardless
	// (theorem C10_callback_never_exceeds); the log is compared with C10_Model.drive.
	rogue := func(l []int, wins [][2]int, max int64) {
		c := listingCase("X", [][]int{l}, max)
		c.Ref, c.ListErr, c.Rogue = Pick(rng, tagRefs), false, wins
		emit(c)
	}
	for _, l := range [][]int{{kG, kG, kG}, {kBd, kG, kBd, kG}, {kBd, kBd, kBd, kBd}, {kU, kG, kG}, {kNO, kG, kBd}, {kBd, kU, kG, kBd, kG}} {
		n := len(l)
		for max := 1; max <= n+1; max++ {
			rogue(l, [][2]int{{0, n}, {0, n}}, int64(max))                         // the whole listing twice
			rogue(l, [][2]int{{0, 1}, {0, n}}, int64(max))                         // first element, then everything again
			rogue(l, [][2]int{{n - 1, 1}, {0, n - 1}, {0, 0}, {1, n - 1}}, int64(max)) // out of order, with an empty page
			ones := [][2]int{}
			for k := 0; k < n; k++ {
				ones = append(ones, [2]int{k, 1})
			}
			rogue(l, append(ones, ones...), int64(max)) // one by one, twice
		}
	}
	nX := 60
	if !quick {
		nX = 2000
	}
	for k := 0; k < nX; k++ {
		n := 2 + rng.Intn(6)
		l := make([]int, n)
		for i := range l {
			switch {
			case rng.Chance(1, 2):
				l[i] = kBd
			case rng.Chance(1, 2):
				l[i] = kG
			default:
				l[i] = rng.Intn(4)
			}
		}
		var wins [][2]int
		for j := 2 + rng.Intn(4); j > 0; j-- {
			st := rng.Intn(n)
			wins = append(wins, [2]int{st, rng.Intn(n - st + 1)})
		}
		rogue(l, wins, int64(1+rng.Intn(n+2)))
	}

	// W. the inputs named in props/C10_Property.v, run on the real code: the witness of
	// C10_iff_without_contract_refuted and the inputs of the non-vacuity Examples (fixed, seed-independent)
	wit := func(max int64, sk, ref string, pages [][]int, lerr bool) *c10Case {
		return &c10Case{Family: "W", Max: max, Skip: sk, Ref: ref, Pages: pages, ListErr: lerr}
	}
	for _, c := range []*c10Case{
		wit(2, "NoSkipper", tagRef, [][]int{{kNO}, {kG}}, false),                         // witness_no_contract
		wit(3, "SkipNo", digRef, [][]int{{kBd}, {}, {kBd, kG}, {kG}}, false),             // C10_example_success
		wit(2, "SkipNo", digRef, [][]int{{kBd}, {}, {kBd, kG}, {kG}}, false),             // C10_example_limit
		wit(5, "NoSkipper", tagRef, [][]int{{kBd, kU}, {kG}}, false),                     // C10_example_unfetchable
		wit(4, "SkipNo", tagRef, [][]int{{kBd, kG}, {kG, kU}}, false),                    // C10_example_first_good_wins
		wit(3, "NoSkipper", tagRef, [][]int{{kBd}, {kNO, kG}}, false),                    // C10_example_nil_outcome
		wit(2, "SkipNo", digRef, [][]int{{kBd}, {kBd}, {kG}}, false),                     // C10_example_exceeded
		wit(5, "NoSkipper", tagRef, [][]int{{kBd}, {}, {kBd}}, false),                    // C10_example_all_failed
		wit(5, "NoSkipper", tagRef, [][]int{{kBd}, {}, {kBd}}, true),                     // C10_example_list_error
		wit(1, "SkipNo", tagRef, [][]int{}, false),                                       // C10_example_empty_listing
		wit(1, "SkipNo", tagRef, [][]int{{}, {}}, true),
		wit(3, "SkipNo", diffRefs[0], [][]int{{kG}}, false),                              // C10_example_pin
		wit(3, "SkipNo", digRef, [][]int{{kG}}, false),                                   // C10_example_pin_same
		wit(3, "NoSkipper", noneRefs[0], [][]int{{kG}}, false),                           // C10_example_early_errors
		wit(3, "SkipNo", badRefs[1], [][]int{{kG}}, false),
		{Family: "W", Max: 3, Skip: "SkipNo", Ref: tagRef, Pages: [][]int{{kG}}, ResolveErr: true},
		wit(0, "SkipYes", tagRef, [][]int{{kG}}, false),
		wit(1, "SkipYes", diffRefs[0], [][]int{{kG}}, false),
	} {
		emit(c)
	}
	{ // C10_example_drive
		c := wit(2, "NoSkipper", tagRef, [][]int{{kG, kG, kG}}, false)
		c.Rogue = [][2]int{{0, 3}, {0, 3}}
		emit(c)
	}

	// E. the real OCI-layout repository
	nE := 40
	if !quick {
		nE = 600
	}
	for k := 0; k < nE; k++ {
		n := rng.Intn(6)
		l := make([]int, n)
		for i := range l {
			if rng.Chance(1, 2) {
				l[i] = kBd
			} else {
				l[i] = rng.Intn(4)
			}
		}
		max := int64(1 + rng.Intn(n+2))
		c := &c10Case{Family: "E", RealRepo: true, Max: max, Skip: Pick(rng, reachSkip), Pages: [][]int{l}, WithMeta: rng.Bool()}
		if rng.Bool() {
			c.Ref = "tag" // replaced by execReal
		} else {
			c.Ref = "digest"
		}
		emit(c)
	}
	return w.Close()
}
