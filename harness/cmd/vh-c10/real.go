package main

// Family E of the C10 driver: notation.Verify against the real repository
// implementation of notation-go/registry over an OCI image layout on disk.
// Signatures are pushed with PushSignature; a signature is made unfetchable by
// deleting its envelope blob from the layout. A recording decorator logs the
// calls; because oras enumerates referrers in Go map order, the decorator puts
// the delivered listing into a canonical order (by manifest digest) and
// re-pages it, so that a case replays exactly.

import (
	"context"
	"fmt"
	"os"
	"path/filepath"
	"reflect"
	"sort"
	. "vh/kit"

	"github.com/notaryproject/notation-go"
	"github.com/notaryproject/notation-go/registry"
	ocispec "github.com/opencontainers/image-spec/specs-go/v1"
	"oras.land/oras-go/v2"
	"oras.land/oras-go/v2/content/oci"
)

type recRepo struct {
	inner     registry.Repository
	w         *world
	sizes     []int                // page sizes to re-page the delivered listing with (0 = empty page)
	delivered [][]ocispec.Descriptor // pages handed to the callback of Verify
}

func (r *recRepo) Resolve(ctx context.Context, reference string) (ocispec.Descriptor, error) {
	w := r.w
	w.events = append(w.events, event{'R', 0})
	if reference != w.wantRef {
		w.bad("Resolve got %q, want %q", reference, w.wantRef)
	}
	return r.inner.Resolve(ctx, reference)
}

func (r *recRepo) ListSignatures(ctx context.Context, desc ocispec.Descriptor, fn func([]ocispec.Descriptor) error) error {
	w := r.w
	w.events = append(w.events, event{'L', 0})
	if !reflect.DeepEqual(desc, w.resolvedOrig) {
		w.bad("ListSignatures got a descriptor other than the resolved one")
	}
	var all []ocispec.Descriptor
	if err := r.inner.ListSignatures(ctx, desc, func(page []ocispec.Descriptor) error {
		all = append(all, page...)
		return nil
	}); err != nil {
		return err
	}
	sort.Slice(all, func(i, j int) bool { return all[i].Digest < all[j].Digest })
	pos := 0
	sizes := append(append([]int{}, r.sizes...), len(all)) // whatever is left goes into a last page
	for _, s := range sizes {
		if pos+s > len(all) {
			s = len(all) - pos
		}
		page := append([]ocispec.Descriptor{}, all[pos:pos+s]...)
		pos += s
		r.delivered = append(r.delivered, page)
		if err := fn(append([]ocispec.Descriptor{}, page...)); err != nil {
			return err
		}
		if pos == len(all) {
			break
		}
	}
	return nil
}

func (r *recRepo) FetchSignatureBlob(ctx context.Context, desc ocispec.Descriptor) ([]byte, ocispec.Descriptor, error) {
	w := r.w
	k := 99
	for j, m := range w.manifest {
		if m.Digest == desc.Digest {
			k = j
		}
	}
	w.events = append(w.events, event{'F', k})
	found := false
	for _, p := range r.delivered {
		for _, d := range p {
			if reflect.DeepEqual(d, desc) {
				found = true
			}
		}
	}
	if !found {
		w.bad("FetchSignatureBlob got a descriptor that was not listed (or altered)")
	}
	b, bd, err := r.inner.FetchSignatureBlob(ctx, desc)
	if err == nil && k != 99 {
		w.fetched[k] = bd.MediaType
	}
	return b, bd, err
}

func (r *recRepo) PushSignature(ctx context.Context, mediaType string, blob []byte, subject ocispec.Descriptor, annotations map[string]string) (ocispec.Descriptor, ocispec.Descriptor, error) {
	r.w.bad("PushSignature called during Verify")
	return r.inner.PushSignature(ctx, mediaType, blob, subject, annotations)
}

func execReal(a *Args, c *c10Case, id int64) (panicked any) {
	ctx := context.Background()
	dir := filepath.Join(a.Out, fmt.Sprintf("oci_%d", id))
	os.RemoveAll(dir)
	defer os.RemoveAll(dir)
	must := func(err error) {
		if err != nil {
			panic(fmt.Sprintf("c10 family E setup: %v", err))
		}
	}
	store, err := oci.New(dir)
	must(err)
	created := map[string]string{ocispec.AnnotationCreated: "2024-01-01T00:00:00Z"}
	subject, err := oras.PackManifest(ctx, store, oras.PackManifestVersion1_1, "application/vnd.c10.artifact", oras.PackManifestOptions{ManifestAnnotations: created})
	must(err)
	must(store.Tag(ctx, subject, "v1"))
	repo := registry.NewRepository(store)

	kinds := c.Pages[0] // kinds in push order
	w := newWorld(&c10Case{Pages: [][]int{kinds}, WithMeta: c.WithMeta})
	w.c = c
	w.resolved, err = repo.Resolve(ctx, "v1")
	must(err)
	for k := range kinds {
		blobDesc, manDesc, err := repo.PushSignature(ctx, w.blobMT[k], w.blob[k], subject, created)
		must(err)
		w.manifest[k] = manDesc
		if kinds[k] == kU {
			must(os.Remove(filepath.Join(dir, "blobs", blobDesc.Digest.Algorithm().String(), blobDesc.Digest.Encoded())))
		}
	}
	if c.Ref == "tag" {
		c.Ref = "local.example/c10:v1"
	} else {
		c.Ref = "local.example/c10@" + subject.Digest.String()
	}
	c.RefClass, w.wantRef = classifyRef(c.Ref, w.resolved.Digest.String())
	c.RefParsed, c.ResolvedDg = w.wantRef, w.resolved.Digest.String()
	// the descriptor the repository answers for exactly this reference (a tag
	// and a digest resolve to descriptors that differ in their annotations)
	w.resolved, err = repo.Resolve(ctx, w.wantRef)
	must(err)

	w.snapshotDescs()

	// page sizes from the case id (stable under replay)
	prng := NewRng(uint64(id)*7919 + 13)
	var sizes []int
	for left := len(kinds); left > 0; {
		s := prng.Intn(3)
		if s > left {
			s = left
		}
		sizes = append(sizes, s)
		left -= s
	}
	rr := &recRepo{inner: repo, w: w, sizes: sizes}
	var v notation.Verifier
	if c.Skip == "NoSkipper" {
		v = &plainVerifier{w}
	} else {
		v = &skipVerifier{plainVerifier{w}}
	}
	opts := notation.VerifyOptions{ArtifactReference: c.Ref, MaxSignatureAttempts: int(c.Max), PluginConfig: w.plugin, UserMetadata: w.meta}
	var desc ocispec.Descriptor
	var outs []*notation.VerificationOutcome
	func() {
		defer func() { panicked = recover() }()
		desc, outs, err = notation.Verify(ctx, v, rr, opts)
	}()
	if panicked != nil {
		return panicked
	}
	// the listing as delivered: position of every pushed signature, kinds per page
	posOf := map[int]int{}
	var pages [][]int
	p := 0
	for _, page := range rr.delivered {
		ks := []int{}
		for _, d := range page {
			for j, m := range w.manifest {
				if m.Digest == d.Digest {
					posOf[j] = p
					ks = append(ks, kinds[j])
				}
			}
			p++
		}
		pages = append(pages, ks)
	}
	if pages == nil {
		pages = [][]int{}
	}
	c.Pages = pages
	observe(c, w, desc, outs, err, func(k int) int {
		if q, ok := posOf[k]; ok {
			return q
		}
		return 98
	})
	return nil
}
