package main

// Writer child processes: this binary re-executed with VH_C14_CHILD set.

import (
	"bufio"
	"context"
	"crypto/x509"
	"fmt"
	"io"
	"os"
	"os/exec"
	"os/signal"
	"path/filepath"
	"strconv"
	"strings"
	"syscall"
	"time"
	. "vh/kit"

	corecrl "github.com/notaryproject/notation-core-go/revocation/crl"
	"github.com/notaryproject/notation-go/verifbridge"
	"github.com/notaryproject/notation-go/verifier/crl"
)

func loadBundle(prefix string, parse bool) *corecrl.Bundle {
	base, err := os.ReadFile(prefix + ".base")
	if err != nil {
		fmt.Println("ERR", err)
		os.Exit(3)
	}
	mk := func(raw []byte) *x509.RevocationList {
		if !parse {
			return &x509.RevocationList{Raw: raw}
		}
		rl, err := x509.ParseRevocationList(raw)
		if err != nil {
			fmt.Println("ERR", err)
			os.Exit(3)
		}
		return rl
	}
	b := &corecrl.Bundle{BaseCRL: mk(base)}
	if delta, err := os.ReadFile(prefix + ".delta"); err == nil {
		b.DeltaCRL = mk(delta)
	}
	return b
}

// childMain: VH_C14_CHILD = once | loop; VH_C14_ROOT, VH_C14_URL, VH_C14_BUNDLE
// (loop: VH_C14_BUNDLE2 as well); VH_C14_WAIT=1: wait for a line on stdin first.
func childMain(mode string) {
	root, url := os.Getenv("VH_C14_ROOT"), os.Getenv("VH_C14_URL")
	fc, err := crl.NewFileCache(root)
	if err != nil {
		fmt.Println("ERR", err)
		os.Exit(3)
	}
	out := os.Stdout
	switch mode {
	case "once":
		b := loadBundle(os.Getenv("VH_C14_BUNDLE"), true)
		if v := os.Getenv("VH_C14_FSIZE"); v != "" {
			// fault injection below os.File: no file of this process may grow beyond n bytes, so the
			// write(2) inside WriteFile moves n bytes and then fails with EFBIG (SIGXFSZ ignored)
			n, _ := strconv.ParseUint(v, 10, 64)
			signal.Ignore(syscall.SIGXFSZ)
			lim := syscall.Rlimit{Cur: n, Max: n}
			if err := syscall.Setrlimit(syscall.RLIMIT_FSIZE, &lim); err != nil {
				fmt.Println("ERR", err)
				os.Exit(3)
			}
		}
		if os.Getenv("VERIF_HOOK_DIR") == "" {
			verifbridge.SetWriteFileHook(func(point, path string) {
				out.WriteString("H " + point + " " + path + "\n")
			})
		}
		if os.Getenv("VH_C14_WAIT") != "" {
			out.WriteString("READY\n")
			bufio.NewReader(os.Stdin).ReadString('\n')
		}
		if err := fc.Set(context.Background(), url, b); err != nil {
			out.WriteString("RET err " + strings.ReplaceAll(err.Error(), "\n", " ") + "\n")
		} else {
			out.WriteString("RET ok\n")
		}
	case "loopraw":
		// the same entries stored through internal/file.WriteFile directly (the bytes a Set writes)
		c1, err1 := os.ReadFile(os.Getenv("VH_C14_BUNDLE") + ".ref")
		c2, err2 := os.ReadFile(os.Getenv("VH_C14_BUNDLE2") + ".ref")
		if err1 != nil || err2 != nil {
			fmt.Println("ERR", err1, err2)
			os.Exit(3)
		}
		path := os.Getenv("VH_C14_KEYPATH")
		out.WriteString("START\n")
		for {
			verifbridge.WriteFile(root, path, c1)
			verifbridge.WriteFile(root, path, c2)
		}
	case "loop":
		b1 := loadBundle(os.Getenv("VH_C14_BUNDLE"), false)
		b2 := loadBundle(os.Getenv("VH_C14_BUNDLE2"), false)
		out.WriteString("START\n")
		for {
			fc.Set(context.Background(), url, b1)
			fc.Set(context.Background(), url, b2)
		}
	}
}

func pointCode(p string) int {
	switch p {
	case "created":
		return 1
	case "written":
		return 2
	case "closed":
		return 3
	case "return":
		return 4
	}
	return 7
}

var pointNames = []string{"", "created", "written", "closed", "return"}

func (g *gen) childCmd(mode, root, url string, b *bundleT, extra ...string) *exec.Cmd {
	self, err := os.Executable()
	if err != nil {
		self = os.Args[0]
	}
	cmd := exec.Command(self)
	cmd.Env = append(os.Environ(), "VH_C14_CHILD="+mode, "VH_C14_ROOT="+root, "VH_C14_URL="+url,
		"VH_C14_BUNDLE="+filepath.Join(g.e.bdir, b.Name))
	cmd.Env = append(cmd.Env, extra...)
	cmd.Stderr = io.Discard
	return cmd
}

func relName(root, path string) string {
	if filepath.Dir(path) == root {
		return filepath.Base(path)
	}
	return path
}

// runChildOnce runs a writer process to completion or to its self-kill at
// crashAt ("" = none). It returns the hook points it reported, its temporary
// name, whether it was killed by a signal and whether Set returned nil.
func (g *gen) runChildOnce(root, url string, b *bundleT, crashAt string) (points []int, tmp string, killed bool, ret string) {
	var extra []string
	if crashAt != "" {
		extra = append(extra, "VERIF_CRASH_AT="+crashAt)
	}
	cmd := g.childCmd("once", root, url, b, extra...)
	outp, err := cmd.Output()
	if ee, ok := err.(*exec.ExitError); ok {
		if ws, ok := ee.Sys().(syscall.WaitStatus); ok && ws.Signaled() {
			killed = true
		}
	}
	for _, line := range strings.Split(string(outp), "\n") {
		f := strings.SplitN(line, " ", 3)
		switch f[0] {
		case "H":
			if len(f) == 3 {
				points = append(points, pointCode(f[1]))
				if f[1] == "created" {
					tmp = relName(root, f[2])
				}
			}
		case "RET":
			ret = "err"
			if len(f) > 1 && f[1] == "ok" {
				ret = "ok"
			}
		}
	}
	if ret == "err" && len(points) > 0 && points[len(points)-1] == 4 {
		points[len(points)-1] = 5
	}
	return
}

// parentSet performs a complete Set in this process with a recording hook.
func (g *gen) parentSet(fc *crl.FileCache, root, url string, b *bundleT) (points []int, tmp string, ok bool) {
	verifbridge.SetWriteFileHook(func(point, path string) {
		points = append(points, pointCode(point))
		if point == "created" {
			tmp = relName(root, path)
		}
	})
	err := fc.Set(context.Background(), url, b.B)
	verifbridge.SetWriteFileHook(nil)
	if err != nil && len(points) > 0 && points[len(points)-1] == 4 {
		points[len(points)-1] = 5
	}
	ok = err == nil
	return
}

func padPoints(p []int, n int) []int {
	for len(p) < n {
		p = append(p, 8)
	}
	return p[:n]
}

// ---------- family 2: SIGKILL at each hook point ----------

func (g *gen) killAtPoints() {
	e := g.e
	reps := 2
	if g.a.Tier == "thorough" {
		reps = 60
	}
	for rep := 0; rep < reps; rep++ {
		for k := 1; k <= 4; k++ {
			for _, pre := range []bool{false, true} {
				for _, after := range []int{0, 1, 2} { // nothing / complete write by the parent / by another process
					if g.a.Tier != "thorough" && after == 2 && rep > 0 {
						continue // quick tier: the process variant once per point
					}
					id, want := g.next()
					if !want {
						continue
					}
					r := g.rng.Fork(uint64(id))
					u := e.urls[r.Intn(2)]
					ou := e.urls[2]
					root := e.newRoot()
					fc, err := crl.NewFileCache(root)
					if err != nil {
						panic(err)
					}
					perm := []int{0, 1, 2, 3, 4}
					Shuffle(r, perm)
					var writers []wspec
					var sched []sev
					var points []int
					tmps := map[int]string{}
					var reads []readObs
					rd := 0
					read := func(url string) {
						sched = append(sched, sev{Kind: "R", Idx: rd, URL: url})
						reads = append(reads, readObs{Reader: rd, URL: url, Res: e.get(fc, url)})
						rd++
					}
					full := func(inProc bool, url string, b *bundleT) {
						wi := len(writers)
						writers = append(writers, wspec{url, b})
						var p []int
						var t string
						retOK := false
						if inProc {
							p, t, retOK = g.parentSet(fc, root, url, b)
						} else {
							var ret string
							p, t, _, ret = g.runChildOnce(root, url, b, "")
							retOK = ret == "ok"
						}
						p = padPoints(p, 4)
						if retOK {
							p[3] = 4 // Set returned nil: the API-level return, whatever hooks were seen
						}
						if t != "" {
							tmps[wi] = t
						}
						for j := 0; j < 4; j++ {
							sched = append(sched, sev{Kind: "W", Idx: wi})
						}
						points = append(points, padPoints(p, 4)...)
					}
					if pre {
						full(true, u, e.small[perm[0]])
					}
					// the killed writer
					wi := len(writers)
					writers = append(writers, wspec{u, e.small[perm[1]]})
					p, t, killed, ret := g.runChildOnce(root, u, e.small[perm[1]], pointNames[k])
					if t != "" {
						tmps[wi] = t
					}
					for j := 0; j < k; j++ {
						sched = append(sched, sev{Kind: "W", Idx: wi})
					}
					points = append(points, padPoints(p, k)...)
					note := fmt.Sprintf("writer w%d is a child process SIGKILLed at hook point %q (killed by signal: %v)", wi, pointNames[k], killed)
					if !killed {
						note += "; the process was NOT killed: the hook point was never reached (Set returned " + ret + ")"
						if ret != "" {
							// it ran to completion: tell the model the steps it really made
							for j := k; j < 4; j++ {
								sched = append(sched, sev{Kind: "W", Idx: wi})
							}
							points = append(points[:len(points)-k], padPoints(p, 4)...)
						}
					}
					read(u)
					read(ou)
					switch after {
					case 1:
						full(true, u, e.small[perm[2]])
						read(u)
					case 2:
						full(false, u, e.small[perm[2]])
						read(u)
					}
					g.emit(id, "proc-kill-at-point", false, writers, tmps, sched, points, reads, root, true, note)
					g.w.Count("kill_point", pointNames[k])
					os.RemoveAll(root)
				}
			}
		}
	}
}

// ---------- family 3: two writer processes stepped through named pipes ----------

type pipeChild struct {
	cmd    *exec.Cmd
	stdin  io.WriteCloser
	stdout *bufio.Reader
	pid    int
	dir    string
	steps  int
	dead   bool
	exited chan struct{}
}

func (g *gen) startPipeChild(hookDir, root, url string, b *bundleT) (*pipeChild, error) {
	cmd := g.childCmd("once", root, url, b, "VERIF_HOOK_DIR="+hookDir, "VH_C14_WAIT=1")
	in, err := cmd.StdinPipe()
	if err != nil {
		return nil, err
	}
	outp, err := cmd.StdoutPipe()
	if err != nil {
		return nil, err
	}
	if err := cmd.Start(); err != nil {
		return nil, err
	}
	c := &pipeChild{cmd: cmd, stdin: in, stdout: bufio.NewReader(outp), pid: cmd.Process.Pid, dir: hookDir}
	for _, suf := range []string{".evt", ".go"} {
		if err := syscall.Mkfifo(filepath.Join(hookDir, strconv.Itoa(c.pid)+suf), 0o600); err != nil {
			cmd.Process.Kill()
			cmd.Wait()
			return nil, err
		}
	}
	line, _ := c.stdout.ReadString('\n')
	if strings.TrimSpace(line) != "READY" {
		cmd.Process.Kill()
		cmd.Wait()
		return nil, fmt.Errorf("child not ready: %q", line)
	}
	c.exited = make(chan struct{})
	go func() {
		// the child prints RET when Set returned; EOF when it died
		for {
			line, err := c.stdout.ReadString('\n')
			if err != nil || strings.HasPrefix(line, "RET") {
				close(c.exited)
				return
			}
		}
	}()
	return c, nil
}

// advance releases the child from its current hold and waits for its next hook
// report. Returns the point code and the path reported (0 = the child finished
// or reported nothing within the timeout).
func (c *pipeChild) advance() (int, string) {
	if c.dead {
		return 0, ""
	}
	base := filepath.Join(c.dir, strconv.Itoa(c.pid))
	if c.steps == 0 {
		c.stdin.Write([]byte("\n"))
	} else {
		f, err := os.OpenFile(base+".go", os.O_WRONLY, 0)
		if err != nil {
			c.dead = true
			return 0, ""
		}
		f.Write([]byte{1})
		f.Close()
	}
	c.steps++
	type res struct{ line string }
	ch := make(chan res, 1)
	go func() {
		f, err := os.OpenFile(base+".evt", os.O_RDONLY, 0)
		if err != nil {
			ch <- res{""}
			return
		}
		line, _ := bufio.NewReader(f).ReadString('\n')
		f.Close()
		ch <- res{line}
	}()
	exited := c.exited
	unblock := func() {
		if f, err := os.OpenFile(base+".evt", os.O_WRONLY|syscall.O_NONBLOCK, 0); err == nil {
			f.Close()
		}
	}
	select {
	case r := <-ch:
		f := strings.SplitN(strings.TrimSpace(r.line), " ", 2)
		if len(f) == 2 {
			return pointCode(f[0]), f[1]
		}
		c.dead = true
		return 0, ""
	case <-exited:
		c.dead = true
		time.Sleep(2 * time.Millisecond)
		unblock()
		return 0, ""
	case <-time.After(15 * time.Second):
		c.dead = true
		unblock()
		return 9, ""
	}
}

func (c *pipeChild) kill() {
	c.cmd.Process.Kill()
	c.cmd.Wait()
}

func (g *gen) pipeSchedules() {
	e := g.e
	n := 10
	if g.a.Tier == "thorough" {
		n = 300
	}
	il := interleavings(4, 4)
	for rep := 0; rep < n; rep++ {
		id, want := g.next()
		if !want {
			continue
		}
		r := g.rng.Fork(uint64(id))
		u0 := e.urls[0]
		u1 := u0
		if r.Chance(1, 4) {
			u1 = e.urls[1]
		}
		i := r.Intn(len(e.small))
		j := (i + 1 + r.Intn(len(e.small)-1)) % len(e.small)
		writers := []wspec{{u0, e.small[i]}, {u1, e.small[j]}}
		ws := il[r.Intn(len(il))]
		// abandon (kill) the writers somewhere in a third of the cases
		if r.Chance(1, 3) {
			ws = ws[:r.Intn(len(ws)+1)]
		}
		sched := insertReads(ws, []int{r.Intn(len(ws) + 1), r.Intn(len(ws) + 1), len(ws)}, []string{u0, u1, u0})
		root := e.newRoot()
		fc, err := crl.NewFileCache(root)
		if err != nil {
			panic(err)
		}
		hookDir := root + ".hook"
		os.MkdirAll(hookDir, 0o700)
		var kids []*pipeChild
		okStart := true
		for _, ws := range writers {
			c, err := g.startPipeChild(hookDir, root, ws.URL, ws.Bundle)
			if err != nil {
				okStart = false
				break
			}
			kids = append(kids, c)
		}
		if !okStart {
			for _, c := range kids {
				c.kill()
			}
			os.RemoveAll(root)
			os.RemoveAll(hookDir)
			panic("c14: cannot start stepped child processes")
		}
		var points []int
		tmps := map[int]string{}
		var reads []readObs
		for _, s := range sched {
			switch s.Kind {
			case "W":
				p, path := kids[s.Idx].advance()
				if p == 1 {
					tmps[s.Idx] = relName(root, path)
				}
				points = append(points, p)
			case "R":
				reads = append(reads, readObs{Reader: s.Idx, URL: s.URL, Res: e.get(fc, s.URL)})
			}
		}
		// every child still alive is held at a hook point: kill it there
		for _, c := range kids {
			c.kill()
		}
		g.emit(id, "proc-stepped", false, writers, tmps, sched, points, reads, root, true, "writers are child processes held at the hook points through named pipes and killed at the end of the schedule")
		os.RemoveAll(root)
		os.RemoveAll(hookDir)
	}
}

// ---------- family 8: write(2) fails inside WriteFile ----------

// writeFaults: a writer child process whose files may not grow beyond n bytes (RLIMIT_FSIZE; n = 0, 1,
// half, all but one byte of the entry): Write moves n bytes into the temporary file and fails, the error
// path of WriteFile at the open stage (the model's EFail at POpen) runs. Free-running case: the history
// (an optional complete earlier Set, the failing Set and its return, two reads) is judged by the oracle -
// a read must be a miss or a complete bundle, a key-shaped entry of the listing complete.
func (g *gen) writeFaults() {
	e := g.e
	reps := 1
	if g.a.Tier == "thorough" {
		reps = 25
	}
	for rep := 0; rep < reps; rep++ {
		for _, pre := range []bool{false, true} {
			for frac := 0; frac < 4; frac++ {
				id, want := g.next()
				if !want {
					continue
				}
				r := g.rng.Fork(uint64(id))
				u := e.urls[r.Intn(2)]
				root := e.newRoot()
				fc, err := crl.NewFileCache(root)
				if err != nil {
					panic(err)
				}
				perm := []int{0, 1, 2, 3, 4}
				Shuffle(r, perm)
				var writers []wspec
				var sched []sev
				if pre {
					b := e.small[perm[0]]
					writers = append(writers, wspec{u, b})
					ok := fc.Set(context.Background(), u, b.B) == nil
					sched = append(sched, sev{Kind: "S", Idx: 0}, sev{Kind: "T", Idx: 0, OK: ok})
				}
				wi := len(writers)
				b := e.small[perm[1]]
				writers = append(writers, wspec{u, b})
				n := len(b.Ref)
				limit := []int{0, 1, n / 2, n - 1}[frac]
				sched = append(sched, sev{Kind: "S", Idx: wi})
				cmd := g.childCmd("once", root, u, b, fmt.Sprintf("VH_C14_FSIZE=%d", limit))
				outp, _ := cmd.Output()
				ret := ""
				for _, line := range strings.Split(string(outp), "\n") {
					f := strings.SplitN(line, " ", 3)
					if f[0] == "RET" && len(f) > 1 {
						ret = "err"
						if f[1] == "ok" {
							ret = "ok"
						}
					}
				}
				if ret != "" {
					sched = append(sched, sev{Kind: "T", Idx: wi, OK: ret == "ok"})
				}
				var reads []readObs
				for k, ru := range []string{u, e.urls[2]} {
					sched = append(sched, sev{Kind: "B", Idx: k, URL: ru}, sev{Kind: "E", Idx: k})
					reads = append(reads, readObs{Reader: k, URL: ru, Res: e.get(fc, ru)})
				}
				g.emit(id, "proc-write-fault", true, writers, nil, sched, nil, reads, root, ret == "err",
					fmt.Sprintf("a child process storing a %d-byte entry under RLIMIT_FSIZE=%d (write(2) moves %d bytes, then fails with EFBIG): Set returned %q; earlier complete Set for the URL: %v", n, limit, limit, ret, pre))
				g.w.Count("write_fault_ret", ret)
				os.RemoveAll(root)
			}
		}
	}
}
