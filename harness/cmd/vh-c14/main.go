package main

// C14 driver: runs the real verifier/crl.FileCache (Set = internal/file.WriteFile,
// Get = os.ReadFile + decode) in private cache directories under
//
//	1. goroutine schedules driven by the verif hook of WriteFile: every writer is
//	   held at each hook point (created / written / closed / return) and the
//	   driver executes an interleaving of writer steps and whole reads,
//	2. child processes (this binary re-executed as the writer) killed with
//	   SIGKILL at each hook point, followed by reads and later writers,
//	3. child processes stepped through named pipes (two writer processes
//	   interleaved with reads of the parent),
//	4. free-running goroutine storms (writers and readers of the same URLs with
//	   medium-size bundles), recorded as API-level histories on a global clock,
//	5. free-running writer processes storing multi-megabyte bundles in a loop,
//	   killed at a random time, then read back,
//
// and prints (input, observation) cases for C14_Model.
//
// Oracle inputs asked from dependencies outside /repo: crypto/sha256 of every
// URL; the temporary names os.CreateTemp chose (reported by the hook); which
// minted bundle a Get result is (byte comparison of the Raw CRLs).

import (
	"context"
	"crypto"
	"crypto/rand"
	"crypto/sha256"
	"crypto/x509"
	"crypto/x509/pkix"
	"encoding/asn1"
	"errors"
	"fmt"
	"math/big"
	"os"
	"path/filepath"
	"sort"
	"strings"
	"time"
	. "vh/kit"

	corecrl "github.com/notaryproject/notation-core-go/revocation/crl"
	"github.com/notaryproject/notation-go/verifier/crl"
)

func main() {
	if mode := os.Getenv("VH_C14_CHILD"); mode != "" {
		childMain(mode)
		return
	}
	Main("c14", runC14)
}

// ---------- bundles ----------

type bundleT struct {
	Name string
	B    *corecrl.Bundle
	Ref  []byte // bytes of the cache file a Set of this bundle produces (learned from a reference Set)
}

type envT struct {
	a       *Args
	issuer  *x509.Certificate
	key     crypto.Signer
	serial  int64
	small   []*bundleT
	alt     []*bundleT // a1 (1 revoked entry) and a200 (200): very different encoded sizes
	shared  []*bundleT // d0=(X,P) d1=(X,Q): same base, re-issued delta; d2=(Y,P): same delta, other base; d3=(X,nil)
	eq      []*bundleT // e0, e1: different bundles whose cache files have the same length
	mid     []*bundleT
	big     []*bundleT
	all     []*bundleT
	urls    []string
	urlName map[string]string // url -> Coq identifier
	keyOf   map[string]string // url -> hex(sha256(url)) by crypto/sha256
	tmpRoot string
	bdir    string // DER files of the bundles, for child processes
	dirSeq  int
}

func (e *envT) mintCRL(n int, delta bool) *x509.RevocationList {
	e.serial++
	now := time.Now()
	tpl := &x509.RevocationList{Number: big.NewInt(e.serial), ThisUpdate: now.Add(-time.Hour), NextUpdate: now.Add(240 * time.Hour)}
	for i := 0; i < n; i++ {
		tpl.RevokedCertificateEntries = append(tpl.RevokedCertificateEntries,
			x509.RevocationListEntry{SerialNumber: big.NewInt(int64(100000 + i)), RevocationTime: now.Add(-2 * time.Hour)})
	}
	if delta {
		v, _ := asn1.Marshal(big.NewInt(1))
		tpl.ExtraExtensions = []pkix.Extension{{Id: asn1.ObjectIdentifier{2, 5, 29, 27}, Critical: true, Value: v}}
	}
	der, err := x509.CreateRevocationList(rand.Reader, tpl, e.issuer, e.key)
	if err != nil {
		panic(fmt.Sprintf("c14: CreateRevocationList: %v", err))
	}
	rl, err := x509.ParseRevocationList(der)
	if err != nil {
		panic(err)
	}
	return rl
}

func (e *envT) bundle(name string, n int, deltaN int) *bundleT {
	var delta *x509.RevocationList
	if deltaN >= 0 {
		delta = e.mintCRL(deltaN, true)
	}
	return e.bundleFrom(name, e.mintCRL(n, false), delta)
}

// bundleFrom builds a bundle from given CRL objects (bundles may share a base or a delta).
func (e *envT) bundleFrom(name string, base, delta *x509.RevocationList) *bundleT {
	b := &corecrl.Bundle{BaseCRL: base, DeltaCRL: delta}
	bt := &bundleT{Name: name, B: b}
	// reference Set in a scratch cache: the bytes a complete entry consists of
	root := e.newRoot()
	fc, err := crl.NewFileCache(root)
	if err != nil {
		panic(err)
	}
	if err := fc.Set(context.Background(), "ref", b); err != nil {
		panic(fmt.Sprintf("c14: reference Set failed: %v", err))
	}
	ents, _ := os.ReadDir(root)
	for _, en := range ents {
		if data, err := os.ReadFile(filepath.Join(root, en.Name())); err == nil && len(data) > len(bt.Ref) {
			bt.Ref = data
		}
	}
	os.RemoveAll(root)
	os.WriteFile(filepath.Join(e.bdir, name+".ref"), bt.Ref, 0o600)
	// DER files for child processes
	os.WriteFile(filepath.Join(e.bdir, name+".base"), b.BaseCRL.Raw, 0o600)
	if b.DeltaCRL != nil {
		os.WriteFile(filepath.Join(e.bdir, name+".delta"), b.DeltaCRL.Raw, 0o600)
	}
	e.all = append(e.all, bt)
	return bt
}

func (e *envT) newRoot() string {
	e.dirSeq++
	d := filepath.Join(e.tmpRoot, fmt.Sprintf("r%d", e.dirSeq))
	os.RemoveAll(d)
	return d
}

// identify names the minted bundle a Get returned ("" = none of them).
func (e *envT) identify(b *corecrl.Bundle) string {
	if b == nil || b.BaseCRL == nil {
		return ""
	}
	for _, bt := range e.all {
		if string(bt.B.BaseCRL.Raw) != string(b.BaseCRL.Raw) {
			continue
		}
		if (bt.B.DeltaCRL == nil) != (b.DeltaCRL == nil) {
			continue
		}
		if b.DeltaCRL != nil && string(bt.B.DeltaCRL.Raw) != string(b.DeltaCRL.Raw) {
			continue
		}
		return bt.Name
	}
	return ""
}

// classify tags the content of a file of the cache directory.
func (e *envT) classify(data []byte) string {
	if len(data) == 0 {
		return ""
	}
	for _, bt := range e.all {
		if string(bt.Ref) == string(data) {
			return bt.Name
		}
	}
	for _, bt := range e.all {
		if len(data) < len(bt.Ref) && string(bt.Ref[:len(data)]) == string(data) {
			return "<"
		}
	}
	return "?"
}

type readObs struct {
	Reader int
	URL    string
	Res    string // miss | hit:<bundle> | err:<text> | corrupt
}

func (r readObs) term() string {
	switch {
	case r.Res == "miss":
		return "OMiss"
	case strings.HasPrefix(r.Res, "hit:"):
		return CApp("OHit", CStr(r.Res[4:]))
	case r.Res == "corrupt":
		return "OCorrupt"
	}
	return "OErr"
}

func (e *envT) get(fc *crl.FileCache, url string) (res string) {
	defer func() {
		// a panic inside Get (e.g. unsynchronised shared state under concurrent readers) is an
		// undecodable read for the caller
		if p := recover(); p != nil {
			res = "err:panic: " + Short(fmt.Sprint(p), 100)
		}
	}()
	b, err := fc.Get(context.Background(), url)
	if err != nil {
		if errors.Is(err, corecrl.ErrCacheMiss) {
			return "miss"
		}
		return "err:" + Short(err.Error(), 120)
	}
	if n := e.identify(b); n != "" {
		return "hit:" + n
	}
	return "corrupt"
}

func (e *envT) listing(root string) (items []string, desc []string) {
	ents, _ := os.ReadDir(root)
	sort.Slice(ents, func(i, j int) bool { return ents[i].Name() < ents[j].Name() })
	for _, en := range ents {
		tag := "?"
		if en.Type().IsRegular() {
			if data, err := os.ReadFile(filepath.Join(root, en.Name())); err == nil {
				tag = e.classify(data)
			}
		}
		items = append(items, CPair(CStr(en.Name()), CStr(tag)))
		desc = append(desc, en.Name()+"="+tag)
	}
	return
}

func (e *envT) urlTerm(u string) string { return e.urlName[u] }

func (e *envT) prelude() string {
	var b strings.Builder
	b.WriteString("From NV Require Import Base C14_Model.\nOpen Scope string_scope.\n")
	var tab []string
	for _, u := range e.urls {
		b.WriteString("Definition " + e.urlName[u] + " : string := " + CStr(u) + ".\n")
		h := sha256.Sum256([]byte(u))
		items := make([]string, len(h))
		for i, x := range h {
			items[i] = CN(int64(x))
		}
		tab = append(tab, CPair(e.urlName[u], CList(items)))
	}
	b.WriteString("Definition sha_tab : list (string * list N) := " + CList(tab) + ".\n")
	return b.String()
}

func newEnv(a *Args) *envT {
	e := &envT{a: a, urlName: map[string]string{}, keyOf: map[string]string{}}
	e.tmpRoot = filepath.Join(a.Out, "c14tmp")
	os.RemoveAll(e.tmpRoot)
	e.bdir = filepath.Join(e.tmpRoot, "bundles")
	if err := os.MkdirAll(e.bdir, 0o755); err != nil {
		panic(err)
	}
	return e
}

func runC14(a *Args) error {
	e := newEnv(a)
	defer os.RemoveAll(e.tmpRoot)
	if err := e.setup(); err != nil {
		return err
	}
	w := NewCaseWriter(a, "C14", e.prelude(), "case", "run")
	w.Rule = "(1) hook-driven goroutine schedules: every interleaving of the 4 hook steps of 2 writers (70 orders; thorough: with every placement of 2 readers = 6300, plus sampled 3x3) x same/different URL x bundles of different lengths, with 2 whole reads at sampled positions, plus every interleaving of a complete writer A with a writer B of the same URL abandoned after 1..3 steps with reads just before A's rename, right after it and at the end, plus sequential histories on one long-lived reader instance (Set A, Get, Set B, Get, Set C abandoned after k steps, Get), plus truncated schedules (writers abandoned at every hook point); plus fault injection (while a writer is held at the closed point os.Rename is made to fail - a directory in place of the absent key, or the temporary file replaced by an empty directory - so the error path of WriteFile runs and its clean-up is observable: the failing Set in every interleaving with a complete one, and in sequential histories Set A, Get, Set B fails, Get, Set C, Get); readers share one FileCache instance, every writer has its own; (2) writer child processes SIGKILLed at each hook point, read back, followed by a complete write and a second read; (3) two writer processes stepped through named pipes; (4) free-running goroutine storms with 150 KB bundles (2 URLs x 1-2 writer goroutines, and 8 writer goroutines x 4 readers on one URL) as API-level histories on a global clock: every read must be a miss or a complete bundle some writer stored for that key and not stale; (5) writer processes storing 4 MB bundles in a loop killed at a random time and read back; (6) alternating storms: one writer goroutine (or two writer processes) alternates a 1-entry and a 200-entry bundle on one URL for 1.5 s while 4 readers Get continuously: every read must be byte-identical to one of the two bundles (all bad reads and a sample of good ones are evaluated by the oracle); (7) reader ping-pong without hooks: a Get is started, a Set of the other-size bundle completes, thousands of times; (8) bundles that share the base CRL bytes and differ only in the delta (and vice versa, and identical = idempotent): Set A / Get / Set A' / Get sequentially, overlapping in every sampled interleaving, and in storms; (9) URL variants (upper-case twin, empty URL) and bundles whose cache files have equal length; (10) write faults: a writer process under RLIMIT_FSIZE = 0, 1, half, all-but-one byte of the entry, so that write(2) inside WriteFile fails after a partial write (error path at the open stage), with and without an earlier complete Set, read back. non-trivial = at least one read or listing entry observed after some writer passed the created point; distinct = distinct (family, writers, schedule, observation) tuples"
	w.Assumptions = []string{
		"rename(2) atomically replaces a directory entry; an opened inode is unaffected by rename/unlink of its name; O_EXCL creation never returns an existing name (kernel semantics, the meaning of the model's events)",
		"crypto/sha256 is collision free on the URLs used; hex(sha256(url)) is taken from crypto/sha256 (outside /repo) as an input table",
		"encoding/json and crypto/x509 round-trip a bundle (a Get result is identified by comparing the Raw CRLs with the minted ones)",
		"bundles are unexpired (expiry handling of Get is property C15)",
		"killed processes, not power loss: durability of the page cache is not claimed",
	}
	w.Set("partial", "the theorems are about the directory semantics of C14_Model: atomicity of rename(2), stability of an opened inode under rename/unlink and O_EXCL freshness are assumptions about the kernel (they are the meaning of the events); durability after power loss is not claimed")
	g := &gen{e: e, w: w, rng: NewRng(a.Seed), a: a}
	g.hookSchedules()
	g.killAtPoints()
	g.pipeSchedules()
	g.storms()
	g.randomKills()
	g.altStorms()
	g.pingPong()
	g.writeFaults()
	return w.Close()
}
