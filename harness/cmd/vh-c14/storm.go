package main

// Free-running families: goroutine storms and writer processes killed at a random time.

import (
	"bufio"
	"context"
	"fmt"
	"os"
	"os/exec"
	"path/filepath"
	"runtime"
	"sort"
	"sync"
	"sync/atomic"
	"time"

	"github.com/notaryproject/notation-go/verifbridge"
	"github.com/notaryproject/notation-go/verifier/crl"
)

type tev struct {
	t int64
	s sev
}

// ---------- family 4: goroutine storms ----------

func (g *gen) storms() {
	e := g.e
	n := 5
	if g.a.Tier == "thorough" {
		n = 150
	}
	for rep := 0; rep < n; rep++ {
		id, want := g.next()
		if !want {
			continue
		}
		e.needMid()
		r := g.rng.Fork(uint64(id))
		pool := append(append([]*bundleT{}, e.mid...), e.small[r.Intn(len(e.small))])
		urls := e.urls[:2]
		perURL := 1 + r.Intn(2) // writer goroutines per URL
		sets := 8 + r.Intn(6)
		if rep%3 == 0 {
			// bundles that share the base (or the delta) and differ only in the other part
			pool = append([]*bundleT{}, e.shared...)
		}
		if rep%3 == 1 {
			// eight writers and four readers on ONE url
			urls = e.urls[:1]
			perURL = 8
			sets = 5
		}
		var writers []wspec
		type wjob struct{ ids []int }
		var jobs []wjob
		for _, u := range urls {
			for k := 0; k < perURL; k++ {
				var j wjob
				for s := 0; s < sets; s++ {
					j.ids = append(j.ids, len(writers))
					writers = append(writers, wspec{u, pool[r.Intn(len(pool))]})
				}
				jobs = append(jobs, j)
			}
		}
		nr := 4
		maxReads := 30
		readURL := make([][]string, nr)
		for i := range readURL {
			for k := 0; k < maxReads; k++ {
				readURL[i] = append(readURL[i], urls[r.Intn(len(urls))])
			}
		}
		root := e.newRoot()
		fc, err := crl.NewFileCache(root)
		if err != nil {
			panic(err)
		}
		verifbridge.SetWriteFileHook(nil)
		var clock int64
		tick := func() int64 { return atomic.AddInt64(&clock, 1) }
		var mu sync.Mutex
		var evs []tev
		var reads []readObs
		var wg, wwg sync.WaitGroup
		start := make(chan struct{})
		var writersDone atomic.Bool
		for _, j := range jobs {
			wg.Add(1)
			wwg.Add(1)
			go func(j wjob) {
				defer wg.Done()
				defer wwg.Done()
				<-start
				var local []tev
				for _, wi := range j.ids {
					local = append(local, tev{tick(), sev{Kind: "S", Idx: wi}})
					err := fc.Set(context.Background(), writers[wi].URL, writers[wi].Bundle.B)
					local = append(local, tev{tick(), sev{Kind: "T", Idx: wi, OK: err == nil}})
				}
				mu.Lock()
				evs = append(evs, local...)
				mu.Unlock()
			}(j)
		}
		for i := 0; i < nr; i++ {
			wg.Add(1)
			go func(i int) {
				defer wg.Done()
				<-start
				var local []tev
				var lr []readObs
				for k := 0; k < maxReads; k++ {
					if writersDone.Load() && k > 2 {
						break
					}
					rid := i*maxReads + k
					u := readURL[i][k]
					local = append(local, tev{tick(), sev{Kind: "B", Idx: rid, URL: u}})
					res := e.get(fc, u)
					local = append(local, tev{tick(), sev{Kind: "E", Idx: rid}})
					lr = append(lr, readObs{Reader: rid, URL: u, Res: res})
				}
				mu.Lock()
				evs = append(evs, local...)
				reads = append(reads, lr...)
				mu.Unlock()
			}(i)
		}
		go func() { wwg.Wait(); writersDone.Store(true) }()
		close(start)
		wg.Wait()
		sort.Slice(evs, func(a, b int) bool { return evs[a].t < evs[b].t })
		sort.Slice(reads, func(a, b int) bool { return reads[a].Reader < reads[b].Reader })
		sched := make([]sev, len(evs))
		for i, x := range evs {
			sched[i] = x.s
		}
		hits := 0
		for _, rd := range reads {
			if len(rd.Res) > 4 && rd.Res[:4] == "hit:" {
				hits++
			}
		}
		g.emit(id, "storm", true, writers, nil, sched, nil, reads, root, hits > 0,
			fmt.Sprintf("free-running: %d writer goroutines x %d Sets over %d URLs, %d reader goroutines; history ordered by a global atomic clock read before each call and after each return", len(jobs), sets, len(urls), nr))
		g.w.Count("storm_reads", fmt.Sprint(len(reads)/20*20)+"+")
		os.RemoveAll(root)
	}
}

// ---------- family 5: looping writer process killed at a random time ----------

func (g *gen) randomKills() {
	e := g.e
	n := 16
	if g.a.Tier == "thorough" {
		n = 400
	}
	var span time.Duration
	for rep := 0; rep < n; rep++ {
		id, want := g.next()
		if !want {
			continue
		}
		e.needBig()
		if span == 0 {
			// calibrate: how long one Set of a big bundle takes here
			root := e.newRoot()
			fc, _ := crl.NewFileCache(root)
			t0 := time.Now()
			fc.Set(context.Background(), e.urls[0], e.big[0].B)
			span = time.Since(t0)
			os.RemoveAll(root)
			if span < time.Millisecond {
				span = time.Millisecond
			}
		}
		r := g.rng.Fork(uint64(id))
		u := e.urls[r.Intn(2)]
		root := e.newRoot()
		fc, err := crl.NewFileCache(root)
		if err != nil {
			panic(err)
		}
		var writers []wspec
		var sched []sev
		if r.Chance(2, 3) {
			b := e.small[r.Intn(len(e.small))]
			writers = append(writers, wspec{u, b})
			ok := fc.Set(context.Background(), u, b.B) == nil
			sched = append(sched, sev{Kind: "S", Idx: 0}, sev{Kind: "T", Idx: 0, OK: ok})
		}
		w1, w2 := len(writers), len(writers)+1
		writers = append(writers, wspec{u, e.big[0]}, wspec{u, e.big[1]})
		sched = append(sched, sev{Kind: "S", Idx: w1}, sev{Kind: "S", Idx: w2})
		mode := "loop"
		if rep%2 == 1 {
			mode = "loopraw" // all of the loop is file.WriteFile: the kill lands inside it almost surely
		}
		cmd := g.childCmd(mode, root, u, e.big[0], "VH_C14_BUNDLE2="+filepath.Join(e.bdir, e.big[1].Name),
			"VH_C14_KEYPATH="+filepath.Join(root, e.keyOf[u]))
		outp, err := cmd.StdoutPipe()
		if err != nil {
			panic(err)
		}
		if err := cmd.Start(); err != nil {
			panic(err)
		}
		line, _ := bufio.NewReader(outp).ReadString('\n')
		mult := 4
		if mode == "loopraw" {
			mult = 2
		}
		delay := time.Duration(r.Intn(int(time.Duration(mult)*span/time.Microsecond)+1)) * time.Microsecond
		time.Sleep(delay)
		cmd.Process.Kill()
		cmd.Wait()
		var reads []readObs
		for k, ru := range []string{u, e.urls[2]} {
			sched = append(sched, sev{Kind: "B", Idx: k, URL: ru}, sev{Kind: "E", Idx: k})
			reads = append(reads, readObs{Reader: k, URL: ru, Res: e.get(fc, ru)})
		}
		g.emit(id, "proc-random-kill", true, writers, nil, sched, nil, reads, root, line != "",
			fmt.Sprintf("a child process (%s) storing the %d-byte and %d-byte entries alternately in a loop was SIGKILLed %v after it started (one Set takes about %v here); loopraw = the entry bytes stored with internal/file.WriteFile directly", mode, len(e.big[0].Ref), len(e.big[1].Ref), delay, span))
		g.w.Count("random_kill_mode", mode)
		os.RemoveAll(root)
	}
}

// ---------- families 6 and 7: long alternating storms, judged read by read ----------

// emitSummary prints a free-running case in which writer 0 (the first Set, of
// bundle first) has returned and two writers storing the two alternated bundles
// are in flight for ever, followed by the given reads. Every read that is not a
// complete bundle of the two (also: a miss after the first Set returned) is a
// violation of the oracle; all bad reads and a sample of good ones are passed.
func (g *gen) emitSummary(id int64, family, u string, first *bundleT, pair []*bundleT, bad, good []string, total int, root, note string) {
	writers := []wspec{{u, first}, {u, pair[0]}, {u, pair[1]}}
	sched := []sev{{Kind: "S", Idx: 0}, {Kind: "T", Idx: 0, OK: true}, {Kind: "S", Idx: 1}, {Kind: "S", Idx: 2}}
	var reads []readObs
	for _, res := range append(append([]string{}, bad...), good...) {
		k := len(reads)
		sched = append(sched, sev{Kind: "B", Idx: k, URL: u}, sev{Kind: "E", Idx: k})
		reads = append(reads, readObs{Reader: k, URL: u, Res: res})
	}
	g.emit(id, family, true, writers, nil, sched, nil, reads, root, total > 0,
		fmt.Sprintf("%s; %d reads in all, %d of them not a complete stored bundle (all listed first), %d good ones sampled", note, total, len(bad), len(good)))
	g.w.Count(family+"_reads", fmt.Sprint(total/1000*1000)+"+")
	g.w.Count(family+"_bad_reads", fmt.Sprint(len(bad)))
}

type readTally struct {
	mu    sync.Mutex
	bad   []string
	good  []string
	total int
}

func (t *readTally) add(res string, okNames map[string]bool) {
	t.mu.Lock()
	t.total++
	if len(res) > 4 && res[:4] == "hit:" && okNames[res[4:]] {
		if len(t.good) < 6 && t.total%97 == 1 {
			t.good = append(t.good, res)
		}
	} else if len(t.bad) < 12 {
		t.bad = append(t.bad, res)
	} else {
		t.bad[11] = res
	}
	t.mu.Unlock()
}

func (g *gen) altStorms() {
	e := g.e
	n := 4
	if g.a.Tier == "thorough" {
		n = 24
	}
	for rep := 0; rep < n; rep++ {
		id, want := g.next()
		if !want {
			continue
		}
		procs := rep%4 == 3
		pair := e.alt
		if rep%4 == 2 {
			pair = []*bundleT{e.small[4], e.alt[1]} // with a delta CRL
		}
		u := e.urls[rep%2]
		root := e.newRoot()
		fc, err := crl.NewFileCache(root)
		if err != nil {
			panic(err)
		}
		verifbridge.SetWriteFileHook(nil)
		fc.Set(context.Background(), u, pair[0].B)
		okNames := map[string]bool{pair[0].Name: true, pair[1].Name: true}
		tally := &readTally{}
		deadline := time.Now().Add(1500 * time.Millisecond)
		var stop atomic.Bool
		var wg sync.WaitGroup
		var kids []*exec.Cmd
		sets := int64(0)
		if procs {
			for k := 0; k < 2; k++ {
				cmd := g.childCmd("loop", root, u, pair[k], "VH_C14_BUNDLE2="+filepath.Join(e.bdir, pair[1-k].Name))
				if err := cmd.Start(); err != nil {
					panic(err)
				}
				kids = append(kids, cmd)
			}
		} else {
			fw, _ := crl.NewFileCache(root)
			wg.Add(1)
			go func() {
				defer wg.Done()
				for k := 1; !stop.Load(); k++ {
					fw.Set(context.Background(), u, pair[k%2].B)
					atomic.AddInt64(&sets, 1)
				}
			}()
		}
		for i := 0; i < 4; i++ {
			wg.Add(1)
			go func() {
				defer wg.Done()
				for !stop.Load() {
					tally.add(e.get(fc, u), okNames)
				}
			}()
		}
		time.Sleep(time.Until(deadline))
		stop.Store(true)
		wg.Wait()
		for _, c := range kids {
			c.Process.Kill()
			c.Wait()
		}
		fam := "alt-storm"
		note := fmt.Sprintf("one writer goroutine alternated %s (%d bytes) and %s (%d bytes) on one URL %d times for 1.5 s while 4 readers called Get continuously", pair[0].Name, len(pair[0].Ref), pair[1].Name, len(pair[1].Ref), atomic.LoadInt64(&sets))
		if procs {
			fam = "alt-storm-procs"
			note = fmt.Sprintf("two writer processes alternated %s (%d bytes) and %s (%d bytes) on one URL for 1.5 s (then killed) while 4 readers called Get continuously", pair[0].Name, len(pair[0].Ref), pair[1].Name, len(pair[1].Ref))
		}
		g.emitSummary(id, fam, u, pair[0], pair, tally.bad, tally.good, tally.total, root, note)
		os.RemoveAll(root)
	}
}

// pingPong: a Get is started, a Set of the other-size bundle completes, many times.
func (g *gen) pingPong() {
	e := g.e
	n, iters := 2, 4000
	if g.a.Tier == "thorough" {
		n, iters = 10, 20000
	}
	for rep := 0; rep < n; rep++ {
		id, want := g.next()
		if !want {
			continue
		}
		r := g.rng.Fork(uint64(id))
		pair := e.alt
		u := e.urls[rep%2]
		root := e.newRoot()
		fc, _ := crl.NewFileCache(root)
		fw, _ := crl.NewFileCache(root)
		verifbridge.SetWriteFileHook(nil)
		fw.Set(context.Background(), u, pair[0].B)
		okNames := map[string]bool{pair[0].Name: true, pair[1].Name: true}
		tally := &readTally{}
		done := make(chan string, 1)
		for k := 1; k <= iters; k++ {
			go func() { done <- e.get(fc, u) }()
			for spin := r.Intn(400); spin > 0; spin-- {
				runtime.Gosched()
			}
			fw.Set(context.Background(), u, pair[k%2].B)
			tally.add(<-done, okNames)
		}
		g.emitSummary(id, "reader-ping-pong", u, pair[0], pair, tally.bad, tally.good, tally.total, root,
			fmt.Sprintf("%d times: a Get is started, then a Set of the other bundle (%d / %d bytes) completes through another instance", iters, len(pair[0].Ref), len(pair[1].Ref)))
		os.RemoveAll(root)
	}
}
