package main

// Free-running families: goroutine storms and writer processes killed at a random time.

import (
	"bufio"
	"context"
	"fmt"
	"os"
	"path/filepath"
	"sort"
	"sync"
	"sync/atomic"
	"time"

	"github.com/notaryproject/notation-go/verifbridge"
	"github.com/notaryproject/notation-go/verifier/crl"
)

type tev struct {
	t int64
	s sev
}

// ---------- family 4: goroutine storms ----------

func (g *gen) storms() {
	e := g.e
	n := 5
	if g.a.Tier == "thorough" {
		n = 150
	}
	for rep := 0; rep < n; rep++ {
		id, want := g.next()
		if !want {
			continue
		}
		e.needMid()
		r := g.rng.Fork(uint64(id))
		pool := append(append([]*bundleT{}, e.mid...), e.small[r.Intn(len(e.small))])
		urls := e.urls[:2]
		perURL := 1 + r.Intn(2) // writer goroutines per URL
		sets := 8 + r.Intn(6)
		if rep%3 == 1 {
			// eight writers and four readers on ONE url
			urls = e.urls[:1]
			perURL = 8
			sets = 5
		}
		var writers []wspec
		type wjob struct{ ids []int }
		var jobs []wjob
		for _, u := range urls {
			for k := 0; k < perURL; k++ {
				var j wjob
				for s := 0; s < sets; s++ {
					j.ids = append(j.ids, len(writers))
					writers = append(writers, wspec{u, pool[r.Intn(len(pool))]})
				}
				jobs = append(jobs, j)
			}
		}
		nr := 4
		maxReads := 30
		readURL := make([][]string, nr)
		for i := range readURL {
			for k := 0; k < maxReads; k++ {
				readURL[i] = append(readURL[i], urls[r.Intn(len(urls))])
			}
		}
		root := e.newRoot()
		fc, err := crl.NewFileCache(root)
		if err != nil {
			panic(err)
		}
		verifbridge.SetWriteFileHook(nil)
		var clock int64
		tick := func() int64 { return atomic.AddInt64(&clock, 1) }
		var mu sync.Mutex
		var evs []tev
		var reads []readObs
		var wg, wwg sync.WaitGroup
		start := make(chan struct{})
		var writersDone atomic.Bool
		for _, j := range jobs {
			wg.Add(1)
			wwg.Add(1)
			go func(j wjob) {
				defer wg.Done()
				defer wwg.Done()
				<-start
				var local []tev
				for _, wi := range j.ids {
					local = append(local, tev{tick(), sev{Kind: "S", Idx: wi}})
					err := fc.Set(context.Background(), writers[wi].URL, writers[wi].Bundle.B)
					local = append(local, tev{tick(), sev{Kind: "T", Idx: wi, OK: err == nil}})
				}
				mu.Lock()
				evs = append(evs, local...)
				mu.Unlock()
			}(j)
		}
		for i := 0; i < nr; i++ {
			wg.Add(1)
			go func(i int) {
				defer wg.Done()
				<-start
				var local []tev
				var lr []readObs
				for k := 0; k < maxReads; k++ {
					if writersDone.Load() && k > 2 {
						break
					}
					rid := i*maxReads + k
					u := readURL[i][k]
					local = append(local, tev{tick(), sev{Kind: "B", Idx: rid, URL: u}})
					res := e.get(fc, u)
					local = append(local, tev{tick(), sev{Kind: "E", Idx: rid}})
					lr = append(lr, readObs{Reader: rid, URL: u, Res: res})
				}
				mu.Lock()
				evs = append(evs, local...)
				reads = append(reads, lr...)
				mu.Unlock()
			}(i)
		}
		go func() { wwg.Wait(); writersDone.Store(true) }()
		close(start)
		wg.Wait()
		sort.Slice(evs, func(a, b int) bool { return evs[a].t < evs[b].t })
		sort.Slice(reads, func(a, b int) bool { return reads[a].Reader < reads[b].Reader })
		sched := make([]sev, len(evs))
		for i, x := range evs {
			sched[i] = x.s
		}
		hits := 0
		for _, rd := range reads {
			if len(rd.Res) > 4 && rd.Res[:4] == "hit:" {
				hits++
			}
		}
		g.emit(id, "storm", true, writers, nil, sched, nil, reads, root, hits > 0,
			fmt.Sprintf("free-running: %d writer goroutines x %d Sets over %d URLs, %d reader goroutines; history ordered by a global atomic clock read before each call and after each return", len(jobs), sets, len(urls), nr))
		g.w.Count("storm_reads", fmt.Sprint(len(reads)/20*20)+"+")
		os.RemoveAll(root)
	}
}

// ---------- family 5: looping writer process killed at a random time ----------

func (g *gen) randomKills() {
	e := g.e
	n := 16
	if g.a.Tier == "thorough" {
		n = 400
	}
	var span time.Duration
	for rep := 0; rep < n; rep++ {
		id, want := g.next()
		if !want {
			continue
		}
		e.needBig()
		if span == 0 {
			// calibrate: how long one Set of a big bundle takes here
			root := e.newRoot()
			fc, _ := crl.NewFileCache(root)
			t0 := time.Now()
			fc.Set(context.Background(), e.urls[0], e.big[0].B)
			span = time.Since(t0)
			os.RemoveAll(root)
			if span < time.Millisecond {
				span = time.Millisecond
			}
		}
		r := g.rng.Fork(uint64(id))
		u := e.urls[r.Intn(2)]
		root := e.newRoot()
		fc, err := crl.NewFileCache(root)
		if err != nil {
			panic(err)
		}
		var writers []wspec
		var sched []sev
		if r.Chance(2, 3) {
			b := e.small[r.Intn(len(e.small))]
			writers = append(writers, wspec{u, b})
			ok := fc.Set(context.Background(), u, b.B) == nil
			sched = append(sched, sev{Kind: "S", Idx: 0}, sev{Kind: "T", Idx: 0, OK: ok})
		}
		w1, w2 := len(writers), len(writers)+1
		writers = append(writers, wspec{u, e.big[0]}, wspec{u, e.big[1]})
		sched = append(sched, sev{Kind: "S", Idx: w1}, sev{Kind: "S", Idx: w2})
		mode := "loop"
		if rep%2 == 1 {
			mode = "loopraw" // all of the loop is file.WriteFile: the kill lands inside it almost surely
		}
		cmd := g.childCmd(mode, root, u, e.big[0], "VH_C14_BUNDLE2="+filepath.Join(e.bdir, e.big[1].Name),
			"VH_C14_KEYPATH="+filepath.Join(root, e.keyOf[u]))
		outp, err := cmd.StdoutPipe()
		if err != nil {
			panic(err)
		}
		if err := cmd.Start(); err != nil {
			panic(err)
		}
		line, _ := bufio.NewReader(outp).ReadString('\n')
		mult := 4
		if mode == "loopraw" {
			mult = 2
		}
		delay := time.Duration(r.Intn(int(time.Duration(mult)*span/time.Microsecond)+1)) * time.Microsecond
		time.Sleep(delay)
		cmd.Process.Kill()
		cmd.Wait()
		var reads []readObs
		for k, ru := range []string{u, e.urls[2]} {
			sched = append(sched, sev{Kind: "B", Idx: k, URL: ru}, sev{Kind: "E", Idx: k})
			reads = append(reads, readObs{Reader: k, URL: ru, Res: e.get(fc, ru)})
		}
		g.emit(id, "proc-random-kill", true, writers, nil, sched, nil, reads, root, line != "",
			fmt.Sprintf("a child process (%s) storing the %d-byte and %d-byte entries alternately in a loop was SIGKILLed %v after it started (one Set takes about %v here); loopraw = the entry bytes stored with internal/file.WriteFile directly", mode, len(e.big[0].Ref), len(e.big[1].Ref), delay, span))
		g.w.Count("random_kill_mode", mode)
		os.RemoveAll(root)
	}
}
