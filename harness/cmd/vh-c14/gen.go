package main

import (
	"context"
	"crypto/rand"
	"crypto/sha256"
	"crypto/x509"
	"encoding/hex"
	"fmt"
	"math/big"
	"os"
	"path/filepath"
	"strings"
	"sync"
	"sync/atomic"
	"time"
	. "vh/kit"

	"github.com/notaryproject/notation-go/verifbridge"
	"github.com/notaryproject/notation-go/verifier/crl"
)

func (e *envT) setup() error {
	key := NewECKey()
	tpl := &x509.Certificate{SerialNumber: big.NewInt(1), Subject: Name("c14 crl issuer"),
		NotBefore: time.Now().Add(-24 * time.Hour), NotAfter: time.Now().Add(24 * 365 * time.Hour),
		IsCA: true, BasicConstraintsValid: true, KeyUsage: x509.KeyUsageCertSign | x509.KeyUsageCRLSign,
		SubjectKeyId: []byte{1, 4, 1, 4}}
	der, err := x509.CreateCertificate(rand.Reader, tpl, tpl, key.Public(), key)
	if err != nil {
		return err
	}
	e.issuer, err = x509.ParseCertificate(der)
	if err != nil {
		return err
	}
	e.key = key
	// small bundles of pairwise different encoded lengths
	e.small = []*bundleT{
		e.bundle("b0", 0, -1), e.bundle("b1", 3, -1), e.bundle("b2", 9, 1), e.bundle("b3", 20, -1), e.bundle("b4", 1, 6),
	}
	{
		x, y := e.mintCRL(4, false), e.mintCRL(4, false)
		pd, qd := e.mintCRL(2, true), e.mintCRL(2, true)
		e.shared = []*bundleT{e.bundleFrom("d0", x, pd), e.bundleFrom("d1", x, qd), e.bundleFrom("d2", y, pd), e.bundleFrom("d3", x, nil)}
	}
	e.alt = []*bundleT{e.bundle("a1", 1, -1), e.bundle("a200", 200, -1)}
	// two different bundles whose cache files have the same length (ECDSA signatures vary in length: retry)
	e0 := e.bundle("e0", 2, -1)
	for k := 0; k < 200 && len(e.eq) == 0; k++ {
		e.all = append([]*bundleT(nil), e.all...) // keep candidates out of the identification tables unless kept
		n := len(e.all)
		c := e.bundle("e1", 2, -1)
		if len(c.Ref) == len(e0.Ref) {
			e.eq = []*bundleT{e0, c}
		} else {
			e.all = e.all[:n]
		}
	}
	if len(e.eq) == 0 {
		return fmt.Errorf("c14: could not mint two bundles with cache files of equal length")
	}
	e.urls = []string{"http://crl.example.com/a.crl", "http://crl.example.com/b.crl", "http://other.example.org/ca/int.crl?x=1",
		"HTTP://CRL.EXAMPLE.COM/A.CRL", "", " http://crl.example.com/a.crl"}
	for i, u := range e.urls {
		e.urlName[u] = fmt.Sprintf("u%d", i)
		h := sha256.Sum256([]byte(u))
		e.keyOf[u] = hex.EncodeToString(h[:])
	}
	return nil
}

func (e *envT) needMid() {
	if e.mid == nil {
		e.mid = []*bundleT{e.bundle("m0", 5000, -1), e.bundle("m1", 6000, -1), e.bundle("m2", 4000, 1500)}
	}
}

func (e *envT) needBig() {
	if e.big == nil {
		e.big = []*bundleT{e.bundle("B0", 150000, -1), e.bundle("B1", 170000, -1)}
	}
}

type gen struct {
	e   *envT
	w   *CaseWriter
	rng *Rng
	a   *Args
	id  int64
}

func (g *gen) next() (int64, bool) {
	my := g.id
	g.id++
	return my, g.w.Want(my)
}

type wspec struct {
	URL    string
	Bundle *bundleT
}

type sev struct {
	Kind string // W R F(ault) S(tart) T(ret) B(eg) E(nd)
	Idx  int
	URL  string
	OK   bool
}

func (g *gen) sevTerm(s sev) string {
	switch s.Kind {
	case "W":
		return CApp("SW", CN(int64(s.Idx)))
	case "R":
		return CApp("SR", CN(int64(s.Idx)), g.e.urlTerm(s.URL))
	case "F":
		return CApp("SF", CN(int64(s.Idx)))
	case "S":
		return CApp("AStart", CN(int64(s.Idx)))
	case "T":
		return CApp("ARet", CN(int64(s.Idx)), CBool(s.OK))
	case "B":
		return CApp("ABeg", CN(int64(s.Idx)), g.e.urlTerm(s.URL))
	}
	return CApp("AEnd", CN(int64(s.Idx)))
}

func (s sev) String() string {
	switch s.Kind {
	case "W":
		return fmt.Sprintf("W%d", s.Idx)
	case "F":
		return fmt.Sprintf("F%d", s.Idx)
	case "R", "B":
		return fmt.Sprintf("%s%d(%s)", s.Kind, s.Idx, s.URL)
	case "T":
		return fmt.Sprintf("T%d:%v", s.Idx, s.OK)
	}
	return fmt.Sprintf("%s%d", s.Kind, s.Idx)
}

// caseDesc is the JSON description of a case (replay files, samples).
type caseDesc struct {
	Family  string   `json:"family"`
	Writers []string `json:"writers"`
	Sched   string   `json:"schedule"`
	Tmps    []string `json:"temp_names,omitempty"`
	Points  []int    `json:"obs_hook_points,omitempty"`
	Reads   []string `json:"obs_reads"`
	Dir     []string `json:"obs_listing"`
	Note    string   `json:"note,omitempty"`
}

// emit prints one case.
func (g *gen) emit(id int64, family string, free bool, writers []wspec, tmps map[int]string, sched []sev, points []int, reads []readObs, root string, nontrivial bool, note string) {
	e := g.e
	var wt, tt, st, pt, rt []string
	d := &caseDesc{Family: family, Points: points, Note: note}
	for i, ws := range writers {
		wt = append(wt, CPair(CN(int64(i)), CPair(e.urlTerm(ws.URL), CStr(ws.Bundle.Name))))
		d.Writers = append(d.Writers, fmt.Sprintf("w%d: Set(%s, %s)", i, ws.URL, ws.Bundle.Name))
	}
	for i := range writers {
		if t, ok := tmps[i]; ok {
			tt = append(tt, CPair(CN(int64(i)), CStr(t)))
			d.Tmps = append(d.Tmps, fmt.Sprintf("w%d:%s", i, t))
		}
	}
	var ss []string
	for _, s := range sched {
		st = append(st, g.sevTerm(s))
		ss = append(ss, s.String())
	}
	d.Sched = strings.Join(ss, " ")
	for _, p := range points {
		pt = append(pt, CN(int64(p)))
	}
	for _, r := range reads {
		rt = append(rt, CPair(CPair(CN(int64(r.Reader)), e.urlTerm(r.URL)), r.term()))
		d.Reads = append(d.Reads, fmt.Sprintf("r%d Get(%s) = %s", r.Reader, r.URL, r.Res))
	}
	items, desc := e.listing(root)
	d.Dir = desc
	in := CApp("mk_input", CBool(free), "sha_tab", CList(wt), CList(tt), CList(st))
	ob := CApp("mk_obs", CList(pt), CList(rt), CList(items))
	term := CApp("mk_case", CN(id), in, ob)
	// distinctness: everything but the random temporary names
	var dk []string
	for _, x := range desc {
		if i := strings.Index(x, "="); i >= 0 && !isKeyName(x[:i]) {
			x = "tmp" + x[i:]
		}
		dk = append(dk, x)
	}
	key := fmt.Sprintf("%s|%v|%s|%v|%v|%v", family, d.Writers, d.Sched, points, d.Reads, dk)
	g.w.Add(id, term, d, key, nontrivial)
	g.w.Count("family", family)
	for _, r := range reads {
		g.w.Count("read_result", strings.SplitN(r.Res, ":", 2)[0])
	}
	for _, x := range desc {
		i := strings.Index(x, "=")
		cls := "temp-or-other"
		if isKeyName(x[:i]) {
			cls = "key"
		}
		tag := x[i+1:]
		switch {
		case tag == "":
			tag = "empty"
		case tag == "<":
			tag = "partial"
		case tag == "?":
			tag = "other"
		default:
			tag = "complete"
		}
		g.w.Count("listing", cls+":"+tag)
	}
}

func isKeyName(n string) bool {
	if len(n) != 64 {
		return false
	}
	for i := 0; i < len(n); i++ {
		c := n[i]
		if !(c >= '0' && c <= '9' || c >= 'a' && c <= 'f') {
			return false
		}
	}
	return true
}

// ---------- family 1: goroutine schedules driven by the hook ----------

type hookEvt struct {
	point, path string
	finished    bool
	err         error
}

// runHooked executes sched (W/R events) on a fresh cache with the writers as
// goroutines held at the hook points.
func (g *gen) runHooked(root string, writers []wspec, sched []sev) (points []int, tmps map[int]string, reads []readObs, midflight bool, finish func()) {
	e := g.e
	// one long-lived FileCache instance for all reads of the case, a separate instance per
	// writer (as separate processes would have): state kept inside an instance must not matter
	fc, err := crl.NewFileCache(root)
	if err != nil {
		panic(err)
	}
	n := len(writers)
	fcW := make([]*crl.FileCache, n)
	for k := range fcW {
		if fcW[k], err = crl.NewFileCache(root); err != nil {
			panic(err)
		}
	}
	evt := make(chan hookEvt, 16)
	gos := make([]chan struct{}, n)
	state := make([]int, n) // 0 not started, 1 held at a hook point, 2 finished
	last := make([]int, n)  // the hook point a held writer is at
	cur := -1
	tmps = map[int]string{}
	var released atomic.Bool
	var wg sync.WaitGroup
	verifbridge.SetWriteFileHook(func(point, path string) {
		if released.Load() {
			return
		}
		i := cur
		evt <- hookEvt{point: point, path: path}
		if point != "return" && i >= 0 {
			<-gos[i]
		}
	})
	// finish releases the writers still held (after the observations were taken) and waits for them
	finish = func() {
		released.Store(true)
		for i := range gos {
			if state[i] == 1 {
				close(gos[i])
			}
		}
		done := make(chan struct{})
		go func() { wg.Wait(); close(done) }()
	loop:
		for {
			select {
			case <-evt:
			case <-done:
				break loop
			case <-time.After(20 * time.Second):
				break loop
			}
		}
		verifbridge.SetWriteFileHook(nil)
	}
	advance := func(i int) int {
		if state[i] == 2 {
			return 0
		}
		cur = i
		if state[i] == 0 {
			gos[i] = make(chan struct{})
			state[i] = 1
			wg.Add(1)
			go func(i int) {
				defer wg.Done()
				<-gos[i]
				err := fcW[i].Set(context.Background(), writers[i].URL, writers[i].Bundle.B)
				evt <- hookEvt{finished: true, err: err}
			}(i)
		}
		gos[i] <- struct{}{}
		sawReturn := false
		for {
			select {
			case ev := <-evt:
				switch {
				case ev.finished:
					state[i] = 2
					if ev.err != nil {
						return 5
					}
					// Set returned nil: the API-level return of this writer, whether or not
					// the "return" hook was seen (the model predicts the step at which it happens)
					_ = sawReturn
					return 4
				case ev.point == "return":
					sawReturn = true
				default:
					name := ev.path
					if filepath.Dir(ev.path) == root {
						name = filepath.Base(ev.path)
					}
					switch ev.point {
					case "created":
						tmps[i] = name
						return 1
					case "written":
						return 2
					case "closed":
						return 3
					}
					return 7
				}
			case <-time.After(20 * time.Second):
				state[i] = 2
				return 9
			}
		}
	}
	for _, s := range sched {
		switch s.Kind {
		case "W":
			last[s.Idx] = advance(s.Idx)
			points = append(points, last[s.Idx])
		case "F":
			// fault injection: the writer is held at "closed"; os.Rename is made to fail, so WriteFile
			// takes its error path (Close, Remove the temporary file, return the error)
			if state[s.Idx] == 1 && last[s.Idx] == 3 {
				// os.Rename(temp, key) is made to fail WITHOUT taking the temporary name away, so that the
				// deferred clean-up is observable: if the key does not exist yet a directory is put in its
				// place for the duration of the step (rename file -> directory: EISDIR); otherwise the
				// temporary file is replaced by an empty directory of the same name (rename directory ->
				// file: ENOTDIR), which the clean-up's os.Remove removes just the same
				keyPath := filepath.Join(root, e.keyOf[writers[s.Idx].URL])
				tmpPath := filepath.Join(root, tmps[s.Idx])
				blocked := false
				if _, err := os.Lstat(keyPath); err != nil {
					blocked = os.Mkdir(keyPath, 0o700) == nil
				}
				if !blocked {
					os.Remove(tmpPath)
					os.Mkdir(tmpPath, 0o700)
				}
				last[s.Idx] = advance(s.Idx)
				if blocked {
					os.Remove(keyPath)
				}
				points = append(points, last[s.Idx])
			} else {
				points = append(points, 0)
			}
		case "R":
			for i := range state {
				if state[i] == 1 {
					midflight = true
				}
			}
			reads = append(reads, readObs{Reader: s.Idx, URL: s.URL, Res: e.get(fc, s.URL)})
		}
	}
	return
}

func interleavings(a, b int) [][]int {
	var out [][]int
	var rec func(x, y int, cur []int)
	rec = func(x, y int, cur []int) {
		if x == 0 && y == 0 {
			out = append(out, append([]int(nil), cur...))
			return
		}
		if x > 0 {
			rec(x-1, y, append(cur, 0))
		}
		if y > 0 {
			rec(x, y-1, append(cur, 1))
		}
	}
	rec(a, b, nil)
	return out
}

// insertReads places reads at the given positions (positions refer to the
// writer-step sequence; 0 = before the first step).
func insertReads(ws []int, pos []int, urls []string) []sev {
	var out []sev
	r := 0
	for i := 0; i <= len(ws); i++ {
		for k, p := range pos {
			if p == i {
				out = append(out, sev{Kind: "R", Idx: k, URL: urls[k]})
				r++
			}
		}
		if i < len(ws) {
			out = append(out, sev{Kind: "W", Idx: ws[i]})
		}
	}
	return out
}

func (g *gen) hookCase(family string, writers []wspec, sched []sev) {
	id, want := g.next()
	if !want {
		return
	}
	root := g.e.newRoot()
	points, tmps, reads, mid, finish := g.runHooked(root, writers, sched)
	g.emit(id, family, false, writers, tmps, sched, points, reads, root, mid || len(tmps) > 0 && len(reads) > 0, "")
	finish()
	os.RemoveAll(root)
}

func (g *gen) hookSchedules() {
	e := g.e
	rng := g.rng
	u0, u1 := e.urls[0], e.urls[1]
	pickB := func(r *Rng) (*bundleT, *bundleT) {
		i := r.Intn(len(e.small))
		j := (i + 1 + r.Intn(len(e.small)-1)) % len(e.small)
		return e.small[i], e.small[j]
	}
	full := interleavings(4, 4)
	if g.a.Tier == "thorough" {
		// every placement of two reads in every interleaving of two complete writers
		for _, ws := range full {
			for p0 := 0; p0 <= 8; p0++ {
				for p1 := 0; p1 <= 8; p1++ {
					r := rng.Fork(uint64(g.id))
					b0, b1 := pickB(r)
					wu1 := u0
					if r.Chance(1, 4) {
						wu1 = u1
					}
					ru := []string{u0, u0}
					if r.Chance(1, 3) {
						ru[r.Intn(2)] = u1
					}
					g.hookCase("hook-2x2", []wspec{{u0, b0}, {wu1, b1}}, insertReads(ws, []int{p0, p1}, ru))
				}
			}
		}
	} else {
		for _, ws := range full {
			for k := 0; k < 6; k++ {
				r := rng.Fork(uint64(g.id))
				b0, b1 := pickB(r)
				wu1 := u0
				if k == 5 {
					wu1 = u1
				}
				ru := []string{u0, u0}
				if k >= 4 {
					ru[r.Intn(2)] = u1
				}
				g.hookCase("hook-2x2", []wspec{{u0, b0}, {wu1, b1}}, insertReads(ws, []int{r.Intn(9), r.Intn(9)}, ru))
			}
		}
	}
	// overlapping writers of the same URL, systematically: A runs its four steps, B is abandoned
	// after k of its steps, in every interleaving; reads just before A's rename, right after it
	// (B possibly created / written / closed but not renamed) and at the end
	for k1 := 1; k1 <= 3; k1++ {
		for _, ws := range interleavings(4, k1) {
			r := rng.Fork(uint64(g.id))
			b0, b1 := pickB(r)
			pA, seen := 0, 0
			for j, x := range ws {
				if x == 0 {
					seen++
					if seen == 4 {
						pA = j + 1
					}
				}
			}
			g.hookCase("hook-overlap", []wspec{{u0, b0}, {u0, b1}}, insertReads(ws, []int{pA - 1, pA, len(ws)}, []string{u0, u0, u0}))
		}
	}
	// histories on ONE long-lived reader instance, nothing overlapping: Set A, Get, Set B, Get,
	// Set C abandoned after k steps (k = 4: complete), Get; every Get must follow the latest
	// returned Set of its URL (the verdict changes between calls)
	for k := 0; k <= 4; k++ {
		for _, sameURL := range []bool{true, false} {
			for _, firstMiss := range []bool{false, true} {
				r := rng.Fork(uint64(g.id))
				perm := []int{0, 1, 2, 3, 4}
				Shuffle(r, perm)
				ub := u0
				if !sameURL {
					ub = u1
				}
				wr := []wspec{{u0, e.small[perm[0]]}, {ub, e.small[perm[1]]}, {u0, e.small[perm[2]]}}
				var sc []sev
				rd := 0
				read := func(u string) { sc = append(sc, sev{Kind: "R", Idx: rd, URL: u}); rd++ }
				steps := func(w, n int) {
					for j := 0; j < n; j++ {
						sc = append(sc, sev{Kind: "W", Idx: w})
					}
				}
				if firstMiss {
					read(u0)
				}
				steps(0, 4)
				read(u0)
				steps(1, 4)
				read(u0)
				read(u1)
				steps(2, k)
				read(u0)
				g.hookCase("hook-history", wr, sc)
			}
		}
	}
	// the same history with bundles whose cache files have EQUAL length (a "size unchanged" shortcut
	// must not keep the old entry)
	for rep := 0; rep < 4; rep++ {
		a, b := e.eq[rep%2], e.eq[1-rep%2]
		var sc []sev
		for j := 0; j < 4; j++ {
			sc = append(sc, sev{Kind: "W", Idx: 0})
		}
		sc = append(sc, sev{Kind: "R", Idx: 0, URL: u0})
		for j := 0; j < 4; j++ {
			sc = append(sc, sev{Kind: "W", Idx: 1})
		}
		sc = append(sc, sev{Kind: "R", Idx: 1, URL: u0})
		if rep >= 2 {
			for j := 0; j < 4; j++ {
				sc = append(sc, sev{Kind: "W", Idx: 2})
			}
			sc = append(sc, sev{Kind: "R", Idx: 2, URL: u0})
		}
		g.hookCase("hook-equal-length", []wspec{{u0, a}, {u0, b}, {u0, a}}, sc)
	}
	// bundles that share parts: same base / re-issued delta, same delta / other base, delta dropped or
	// added, identical (idempotent). Set A, Get, Set A', Get sequentially; then overlapping writers
	// (sampled interleavings) with a read after each return and at the end
	{
		d := e.shared
		pairs := [][2]*bundleT{{d[0], d[1]}, {d[1], d[0]}, {d[0], d[2]}, {d[2], d[0]}, {d[0], d[3]}, {d[3], d[0]}, {d[0], d[0]}}
		for _, pr := range pairs {
			var sc []sev
			for j := 0; j < 4; j++ {
				sc = append(sc, sev{Kind: "W", Idx: 0})
			}
			sc = append(sc, sev{Kind: "R", Idx: 0, URL: u0})
			for j := 0; j < 4; j++ {
				sc = append(sc, sev{Kind: "W", Idx: 1})
			}
			sc = append(sc, sev{Kind: "R", Idx: 1, URL: u0})
			for j := 0; j < 4; j++ {
				sc = append(sc, sev{Kind: "W", Idx: 2})
			}
			sc = append(sc, sev{Kind: "R", Idx: 2, URL: u0})
			g.hookCase("hook-shared-parts", []wspec{{u0, pr[0]}, {u0, pr[1]}, {u0, pr[0]}}, sc)
			for k := 0; k < 4; k++ {
				r := rng.Fork(uint64(g.id))
				ws := full[r.Intn(len(full))]
				// reads after the 4th step of each writer and at the end
				var pos []int
				cnt := [2]int{}
				for j, x := range ws {
					cnt[x]++
					if cnt[x] == 4 {
						pos = append(pos, j+1)
					}
				}
				pos = append(pos, len(ws))
				g.hookCase("hook-shared-parts", []wspec{{u0, pr[0]}, {u0, pr[1]}}, insertReads(ws, pos, []string{u0, u0, u0}))
			}
		}
	}
	// the error path of WriteFile (fault injection F: the rename of a writer held at "closed" is made to
	// fail): the failed Set leaves no temporary file and no entry, never disturbs the entry of another
	// writer of the same or another URL, and a later Set of the same URL works. Every interleaving of a
	// complete writer with a failing one, reads after every return and at the end
	for n, ws := range full {
		r := rng.Fork(uint64(g.id))
		b0, b1 := pickB(r)
		bad := n % 2 // which writer fails: its 4th step is the fault
		wu1 := u0
		if n%5 == 4 {
			wu1 = u1
		}
		var sc []sev
		cnt := [2]int{}
		rd := 0
		for _, x := range ws {
			cnt[x]++
			if x == bad && cnt[x] == 4 {
				sc = append(sc, sev{Kind: "F", Idx: x})
			} else {
				sc = append(sc, sev{Kind: "W", Idx: x})
			}
			if cnt[x] == 4 {
				sc = append(sc, sev{Kind: "R", Idx: rd, URL: u0})
				rd++
			}
		}
		sc = append(sc, sev{Kind: "R", Idx: rd, URL: wu1})
		g.hookCase("hook-fault", []wspec{{u0, b0}, {wu1, b1}}, sc)
	}
	// histories with a failing Set on one long-lived reader instance: (Get,) Set A, Get, Set B FAILS, Get
	// (still A, not a miss, not B), Set C, Get (C); and a failing Set as the very first one (Get = miss);
	// plus F where it has no effect (writer not started / not at "closed" / already finished)
	for v := 0; v < 6; v++ {
		r := rng.Fork(uint64(g.id))
		perm := []int{0, 1, 2, 3, 4}
		Shuffle(r, perm)
		wr := []wspec{{u0, e.small[perm[0]]}, {u0, e.small[perm[1]]}, {u0, e.small[perm[2]]}}
		var sc []sev
		rd := 0
		read := func(u string) { sc = append(sc, sev{Kind: "R", Idx: rd, URL: u}); rd++ }
		steps := func(w, n int) {
			for j := 0; j < n; j++ {
				sc = append(sc, sev{Kind: "W", Idx: w})
			}
		}
		fail := func(w int) { steps(w, 3); sc = append(sc, sev{Kind: "F", Idx: w}) }
		switch v {
		case 0, 1:
			if v == 1 {
				read(u0)
			}
			steps(0, 4)
			read(u0)
			fail(1)
			read(u0)
			steps(2, 4)
			read(u0)
		case 2:
			fail(0)
			read(u0)
			steps(1, 4)
			read(u0)
			fail(2)
			read(u0)
		case 3:
			// F without effect: on a writer not started, at "created", at "written", and finished
			sc = append(sc, sev{Kind: "F", Idx: 0})
			steps(0, 1)
			sc = append(sc, sev{Kind: "F", Idx: 0})
			steps(0, 1)
			sc = append(sc, sev{Kind: "F", Idx: 0})
			read(u0)
			steps(0, 2)
			sc = append(sc, sev{Kind: "F", Idx: 0})
			read(u0)
		case 4:
			// two failing writers overlapping a complete one
			steps(1, 2)
			steps(0, 3)
			steps(2, 3)
			sc = append(sc, sev{Kind: "F", Idx: 0})
			read(u0)
			steps(1, 2)
			read(u0)
			sc = append(sc, sev{Kind: "F", Idx: 2})
			read(u0)
		case 5:
			// a failed writer is advanced again (nothing left to do), then abandoned writers remain
			fail(0)
			steps(0, 1)
			steps(1, 2)
			read(u0)
			steps(2, 4)
			read(u0)
		}
		g.hookCase("hook-fault-history", wr, sc)
	}
	// URL variants: an upper-case twin, a twin with a leading blank and the empty URL are different
	// keys: what is stored for one is never read for another (odd URL written first / last / only)
	for _, odd := range e.urls[3:] {
		for order := 0; order < 3; order++ {
			r := rng.Fork(uint64(g.id))
			b0, b1 := pickB(r)
			wr := []wspec{{u0, b0}, {odd, b1}}
			if order == 1 {
				wr = []wspec{{odd, b1}, {u0, b0}}
			}
			var sc []sev
			rd := 0
			read := func(u string) { sc = append(sc, sev{Kind: "R", Idx: rd, URL: u}); rd++ }
			for j := 0; j < 4; j++ {
				sc = append(sc, sev{Kind: "W", Idx: 0})
			}
			read(u0)
			read(odd)
			if order < 2 {
				for j := 0; j < 4; j++ {
					sc = append(sc, sev{Kind: "W", Idx: 1})
				}
				read(odd)
				read(u0)
			}
			g.hookCase("hook-url-variants", wr, sc)
		}
	}
	// truncated schedules: writers abandoned at every hook point (a crash of a thread of the process)
	for k0 := 0; k0 <= 4; k0++ {
		for k1 := 0; k1 <= 4; k1++ {
			reps := 3
			if g.a.Tier == "thorough" {
				reps = 40
			}
			for rep := 0; rep < reps; rep++ {
				r := rng.Fork(uint64(g.id))
				b0, b1 := pickB(r)
				il := interleavings(k0, k1)
				ws := il[r.Intn(len(il))]
				wu1 := u0
				if r.Chance(1, 5) {
					wu1 = u1
				}
				n := len(ws)
				g.hookCase("hook-abandoned", []wspec{{u0, b0}, {wu1, b1}}, insertReads(ws, []int{r.Intn(n + 1), n}, []string{u0, wu1}))
			}
		}
	}
	// three writers, three readers (sampled)
	reps := 60
	if g.a.Tier == "thorough" {
		reps = 6000
	}
	for rep := 0; rep < reps; rep++ {
		r := rng.Fork(uint64(g.id))
		var ws []int
		for i := 0; i < 3; i++ {
			k := 4
			if r.Chance(1, 4) {
				k = r.Intn(5)
			}
			for j := 0; j < k; j++ {
				ws = append(ws, i)
			}
		}
		// a random interleaving that keeps each writer's steps in order = a shuffle of the multiset
		Shuffle(r, ws)
		urls := []string{u0, u0, u1}
		Shuffle(r, urls)
		wr := []wspec{{urls[0], e.small[r.Intn(5)]}, {urls[1], e.small[r.Intn(5)]}, {urls[2], e.small[r.Intn(5)]}}
		n := len(ws)
		g.hookCase("hook-3x3", wr, insertReads3(ws, []int{r.Intn(n + 1), r.Intn(n + 1), r.Intn(n + 1)}, []string{u0, Pick(r, e.urls[:2]), u1}))
	}
}

func insertReads3(ws []int, pos []int, urls []string) []sev { return insertReads(ws, pos, urls) }

// ---------- stubs filled in proc.go / storm.go ----------

