package main

// C15 driver: runs the real verifier/crl.FileCache (public API) in a private
// directory tree over histories of Set / Get and of environment operations on
// the stored files (corruption, removal, a directory in the way), and prints
// (input, observation) cases for C15_Model.
//
// Facts about objects outside /repo are asked from the dependency itself and
// handed to the model as tables: crypto/sha256 of every url, encoding/json
// decoding of every file content into a private copy of the entry struct,
// crypto/x509.ParseRevocationList of every byte string a content can hold.

import (
	"context"
	"crypto/ed25519"
	"crypto/rand"
	"crypto/sha256"
	"crypto/x509"
	"crypto/x509/pkix"
	"encoding/asn1"
	"encoding/hex"
	"encoding/json"
	"errors"
	"fmt"
	"math/big"
	"os"
	"path/filepath"
	"regexp"
	"sort"
	"strings"
	"sync"
	"time"
	. "vh/kit"

	corecrl "github.com/notaryproject/notation-core-go/revocation/crl"
	"github.com/notaryproject/notation-go/verifbridge"
	"github.com/notaryproject/notation-go/verifier/crl"
)

func main() { Main("c15", runC15) }

// ---------- CRL objects ----------

type crlObj struct {
	Label  string               // F1, E1, Z1 ... (for descriptions)
	Kind   string               // F fresh, E expired, Z zero NextUpdate, W raw bytes that are no CRL, N nil raw
	Raw    []byte               // Raw of the object handed to Set
	RL     *x509.RevocationList // the object handed to Set
	parsed *x509.RevocationList // big CRLs: what x509.ParseRevocationList answered (Raw, NextUpdate), never handed out
}

type entryCopy struct {
	BaseCRL  []byte `json:"baseCRL"`
	DeltaCRL []byte `json:"deltaCRL,omitempty"`
}

type env struct {
	t0       time.Time
	issuer   *x509.Certificate
	key      ed25519.PrivateKey
	serial   int64
	pool     map[string]string // static strings -> Coq identifier
	prelude  strings.Builder
	crls     map[string]*crlObj
	nus      []time.Time // every non-zero NextUpdate ever minted
	urlNames int
	tab      []string                  // crl_tab: parse facts of the pool
	lazy     map[string]func() *crlObj // big CRLs, minted the first time a history needs them
	absMu    sync.Mutex
	absCache map[string]string
}

// ---------- byte strings too big for a Coq case ----------

// bigT: a byte string longer than this never reaches Coq as a literal. It is
// replaced by a stand-in, consistently everywhere in the case (operations,
// results, file contents, keys and values of the fact tables):
//   - a file content that is byte for byte the canonical encoding of an entry
//     (json.Marshal of the harness' own entry struct, checked here) becomes the
//     canonical encoding of the stand-ins of its parts, so that the model's
//     enc_json / dec_canon still see an entry text;
//   - any other big byte string (the Raw of a CRL, a content that is not
//     canonical) becomes "<big N bytes sha256 H>".
//
// The map is injective unless SHA-256 collides, and the model treats byte
// strings as opaque apart from the entry text, so equalities between the
// real byte strings are exactly the equalities between the stand-ins.
const bigT = 1 << 16

func bigToken(x string) string {
	h := sha256.Sum256([]byte(x))
	return fmt.Sprintf("<big %d bytes sha256 %x>", len(x), h)
}

func (e *env) abs(s string) string {
	if len(s) <= bigT {
		return s
	}
	e.absMu.Lock()
	defer e.absMu.Unlock()
	if a, ok := e.absCache[s]; ok {
		return a
	}
	a := bigToken(s)
	var ec entryCopy
	if s[0] == '{' && json.Unmarshal([]byte(s), &ec) == nil && string(canon(ec.BaseCRL, ec.DeltaCRL)) == s {
		part := func(b []byte) []byte {
			if len(b) > bigT {
				return []byte(bigToken(string(b)))
			}
			return b
		}
		a = string(canon(part(ec.BaseCRL), part(ec.DeltaCRL)))
	}
	e.absCache[s] = a
	return a
}

func (e *env) mint(label, kind string, next time.Time, delta bool, revoked int, exts ...pkix.Extension) *crlObj {
	e.serial++
	tpl := &x509.RevocationList{Number: big.NewInt(e.serial)}
	if !next.IsZero() {
		tpl.NextUpdate = next
		tpl.ThisUpdate = next.Add(-240 * time.Hour)
	}
	if revoked > 1000 {
		// the size ladder: 16-byte serial numbers, 35 bytes of DER per entry
		hi := new(big.Int).Lsh(big.NewInt(0x5a5a5a5a00+e.serial), 88)
		tpl.RevokedCertificateEntries = make([]x509.RevocationListEntry, revoked)
		for i := range tpl.RevokedCertificateEntries {
			tpl.RevokedCertificateEntries[i] = x509.RevocationListEntry{SerialNumber: new(big.Int).Add(hi, big.NewInt(int64(i))),
				RevocationTime: e.t0.Add(-time.Duration(i%1000+1) * time.Hour)}
		}
	}
	for i := 0; i < revoked && revoked <= 1000; i++ {
		tpl.RevokedCertificateEntries = append(tpl.RevokedCertificateEntries,
			x509.RevocationListEntry{SerialNumber: big.NewInt(int64(1000 + i)), RevocationTime: e.t0.Add(-time.Duration(i+1) * time.Hour)})
	}
	if delta {
		v, _ := asn1.Marshal(big.NewInt(1))
		tpl.ExtraExtensions = []pkix.Extension{{Id: asn1.ObjectIdentifier{2, 5, 29, 27}, Critical: true, Value: v}}
	}
	tpl.ExtraExtensions = append(tpl.ExtraExtensions, exts...)
	der, err := x509.CreateRevocationList(rand.Reader, tpl, e.issuer, e.key)
	if err != nil {
		panic(fmt.Sprintf("c15: CreateRevocationList %s: %v", label, err))
	}
	rl, err := x509.ParseRevocationList(der)
	if err != nil {
		panic(err)
	}
	if !rl.NextUpdate.IsZero() {
		e.nus = append(e.nus, rl.NextUpdate)
	}
	c := &crlObj{Label: label, Kind: kind, Raw: rl.Raw, RL: rl}
	if len(rl.Raw) > bigT {
		c.parsed = &x509.RevocationList{Raw: cloneBytes(rl.Raw), NextUpdate: rl.NextUpdate}
	}
	return c
}

// ---------- extensions that carry URLs ----------

func mustDER(v any) []byte {
	b, err := asn1.Marshal(v)
	if err != nil {
		panic(err)
	}
	return b
}

// GeneralNames content: uniformResourceIdentifier [6] IA5String, one per uri
func uriNames(uris []string) []byte {
	var out []byte
	for _, u := range uris {
		out = append(out, mustDER(asn1.RawValue{Class: asn1.ClassContextSpecific, Tag: 6, Bytes: []byte(u)})...)
	}
	return out
}

// DistributionPointName: [0] { fullName [0] GeneralNames }
func dpName(uris []string) []byte {
	full := mustDER(asn1.RawValue{Class: asn1.ClassContextSpecific, Tag: 0, IsCompound: true, Bytes: uriNames(uris)})
	return mustDER(asn1.RawValue{Class: asn1.ClassContextSpecific, Tag: 0, IsCompound: true, Bytes: full})
}

// IssuingDistributionPoint (2.5.29.28, critical): SEQUENCE { distributionPoint [0] DistributionPointName }
func extIDP(uris ...string) pkix.Extension {
	return pkix.Extension{Id: asn1.ObjectIdentifier{2, 5, 29, 28}, Critical: true,
		Value: mustDER(asn1.RawValue{Class: asn1.ClassUniversal, Tag: asn1.TagSequence, IsCompound: true, Bytes: dpName(uris)})}
}

// FreshestCRL (2.5.29.46): SEQUENCE OF DistributionPoint { distributionPoint [0] DistributionPointName }
func extFreshest(uris ...string) pkix.Extension {
	var dps []byte
	for _, u := range uris {
		dps = append(dps, mustDER(asn1.RawValue{Class: asn1.ClassUniversal, Tag: asn1.TagSequence, IsCompound: true, Bytes: dpName([]string{u})})...)
	}
	return pkix.Extension{Id: asn1.ObjectIdentifier{2, 5, 29, 46},
		Value: mustDER(asn1.RawValue{Class: asn1.ClassUniversal, Tag: asn1.TagSequence, IsCompound: true, Bytes: dps})}
}

// AuthorityInfoAccess (1.3.6.1.5.5.7.1.1): SEQUENCE OF { accessMethod caIssuers, accessLocation [6] uri }
func extAIA(uris ...string) pkix.Extension {
	var ads []byte
	for _, u := range uris {
		ad := append(mustDER(asn1.ObjectIdentifier{1, 3, 6, 1, 5, 5, 7, 48, 2}), uriNames([]string{u})...)
		ads = append(ads, mustDER(asn1.RawValue{Class: asn1.ClassUniversal, Tag: asn1.TagSequence, IsCompound: true, Bytes: ad})...)
	}
	return pkix.Extension{Id: asn1.ObjectIdentifier{1, 3, 6, 1, 5, 5, 7, 1, 1},
		Value: mustDER(asn1.RawValue{Class: asn1.ClassUniversal, Tag: asn1.TagSequence, IsCompound: true, Bytes: ads})}
}

// add puts a CRL into the pool: a Coq name for its Raw (the stand-in for a big
// one) and, unless it is no CRL, its parse fact in crl_tab.
func (e *env) add(c *crlObj) *crlObj {
	e.crls[c.Label] = c
	S := func(s string) string {
		s = e.abs(s)
		if n, ok := e.pool[s]; ok {
			return n
		}
		return cstr(s)
	}
	if c.Kind != "N" {
		e.define("crl_"+c.Label, e.abs(string(c.Raw)))
	}
	if c.Kind != "W" && c.Kind != "N" {
		e.tab = append(e.tab, CPair("crl_"+c.Label, e.parseFact(c.Raw, S)))
	}
	return c
}

func (e *env) define(name string, s string) {
	if _, ok := e.pool[s]; ok {
		return
	}
	e.pool[s] = name
	fmt.Fprintf(&e.prelude, "Definition %s : string := Eval vm_compute in %s.\n", name, cstr(s))
}

func (e *env) ms(t time.Time) int64 { return t.UnixMilli() - e.t0.UnixMilli() }

// parseFact asks crypto/x509 about some bytes; S prints a byte string.
func (e *env) parseFact(b []byte, S func(string) string) string {
	var rl *x509.RevocationList
	var err error
	if len(b) > bigT {
		for _, c := range e.crls {
			if c.parsed != nil && len(c.Raw) == len(b) && string(c.Raw) == string(b) {
				rl = c.parsed
			}
		}
	}
	if rl == nil {
		rl, err = x509.ParseRevocationList(b)
	}
	if err != nil {
		return "PErr"
	}
	if rl.NextUpdate.IsZero() {
		return CApp("POk", S(string(rl.Raw)), "None")
	}
	return CApp("POk", S(string(rl.Raw)), CSome(CZ(e.ms(rl.NextUpdate))))
}

// cstr prints a byte string; a mostly printable string with a few other bytes
// is printed as a concatenation of literals and short byte lists.
func cstr(s string) string {
	bad := 0
	for i := 0; i < len(s); i++ {
		if s[i] < 0x20 || s[i] > 0x7e {
			bad++
		}
	}
	if bad == 0 || bad*4 > len(s) || len(s) < 16 {
		return CStr(s)
	}
	var parts []string
	i := 0
	for i < len(s) {
		j := i
		isBad := func(c byte) bool { return c < 0x20 || c > 0x7e }
		b := isBad(s[i])
		for j < len(s) && isBad(s[j]) == b {
			j++
		}
		parts = append(parts, CStr(s[i:j]))
		i = j
	}
	return "(" + strings.Join(parts, " ++ ") + ")"
}

func keyOf(u string) string {
	h := sha256.Sum256([]byte(u))
	return hex.EncodeToString(h[:])
}

// canonical content of an entry, from the harness' own copy of the struct
func canon(base, delta []byte) []byte {
	b, err := json.Marshal(entryCopy{BaseCRL: base, DeltaCRL: delta})
	if err != nil {
		panic(err)
	}
	return b
}

// ---------- histories ----------

type hop struct {
	K       string  `json:"op"` // set get put del mkdir
	U       string  `json:"-"`
	UQ      string  `json:"url"`
	NilB    bool    `json:"nil_bundle,omitempty"`
	Base    *crlObj `json:"-"`
	Delta   *crlObj `json:"-"`
	BaseL   string  `json:"base,omitempty"`
	DeltaL  string  `json:"delta,omitempty"`
	Content []byte  `json:"-"`
	What    string  `json:"what,omitempty"` // corruption kind
	WaitMs  int64   `json:"wait_until_ms,omitempty"`
	Inst    int     `json:"instance,omitempty"` // which FileCache object on the same root makes the call
	Res     string  `json:"result,omitempty"`
	resTerm func(S func(string) string) string
	tMs     int64
}

type hcase struct {
	Family    string   `json:"family"`
	Ops       []*hop   `json:"ops"`
	Files     []string `json:"final_files,omitempty"`
	Outside   []string `json:"outside_effects,omitempty"`
	Writes    []string `json:"write_destinations,omitempty"`
	TempsOK   bool     `json:"temps_ok"`
	Shared    bool     `json:"same_bundle_objects_reused"` // Sets of equal content pass the SAME *Bundle / *RevocationList objects
	Frame     []string `json:"caller_owned_objects_mutated,omitempty"`
	RootFrame []string `json:"root_entries_changed_by_an_operation_on_another_url,omitempty"`
	Panics    []string `json:"panics,omitempty"`
}

type panicError struct{ v any }

func (p panicError) Error() string { return fmt.Sprintf("panic: %v", p.v) }

func safeGet(c *crl.FileCache, ctx context.Context, u string) (b *corecrl.Bundle, err error) {
	defer func() {
		if r := recover(); r != nil {
			b, err = nil, panicError{r}
		}
	}()
	return c.Get(ctx, u)
}

func safeSet(c *crl.FileCache, ctx context.Context, u string, b *corecrl.Bundle) (err error) {
	defer func() {
		if r := recover(); r != nil {
			err = panicError{r}
		}
	}()
	return c.Set(ctx, u, b)
}

// ---------- caller-owned objects ----------

// snapRL is a deep fingerprint of a RevocationList (every exported field, byte
// slices by content and nil-ness, big integers and times by value).
func snapRL(rl *x509.RevocationList) string {
	if rl == nil {
		return "nil"
	}
	if len(rl.Raw) > bigT {
		// the size ladder: Raw, Signature and TBS by digest, the rest by value
		h := sha256.New()
		h.Write(rl.Raw)
		h.Write(rl.Signature)
		h.Write(rl.RawTBSRevocationList)
		n := len(rl.RevokedCertificateEntries)
		var first, last string
		if n > 0 {
			first = fmt.Sprint(rl.RevokedCertificateEntries[0].SerialNumber, rl.RevokedCertificateEntries[0].RevocationTime.Unix())
			last = fmt.Sprint(rl.RevokedCertificateEntries[n-1].SerialNumber, rl.RevokedCertificateEntries[n-1].RevocationTime.Unix())
		}
		return fmt.Sprintf("%p:%d:%x:%v:%v:%v:%d:%s:%s", rl, len(rl.Raw), h.Sum(nil)[:8], rl.Number, rl.NextUpdate.UnixNano(), rl.ThisUpdate.UnixNano(), n, first, last)
	}
	j, err := json.Marshal(rl)
	if err != nil {
		j = []byte(fmt.Sprintf("%+v", *rl))
	}
	h := sha256.Sum256(j)
	return fmt.Sprintf("%p:%d:%x", rl, len(j), h[:8])
}

func snapBundle(b *corecrl.Bundle) string {
	if b == nil {
		return "nil"
	}
	return fmt.Sprintf("%p base=%s delta=%s", b, snapRL(b.BaseCRL), snapRL(b.DeltaCRL))
}

func cloneBytes(b []byte) []byte {
	if b == nil {
		return nil
	}
	return append([]byte{}, b...)
}

// cloneRL gives the caller a private copy it may scribble on after the call
func cloneRL(rl *x509.RevocationList) *x509.RevocationList {
	if rl == nil {
		return nil
	}
	c := *rl
	c.Raw = cloneBytes(rl.Raw)
	c.RawTBSRevocationList = cloneBytes(rl.RawTBSRevocationList)
	c.Signature = cloneBytes(rl.Signature)
	if rl.Number != nil {
		c.Number = new(big.Int).Set(rl.Number)
	}
	c.RevokedCertificateEntries = append([]x509.RevocationListEntry(nil), rl.RevokedCertificateEntries...)
	return &c
}

// scribble: what a caller may do with an object it owns once the call has returned
func scribbleRL(rl *x509.RevocationList) {
	if rl == nil {
		return
	}
	for i := range rl.Raw {
		rl.Raw[i] ^= 0xff
	}
	for i := range rl.Signature {
		rl.Signature[i] = 0
	}
	rl.NextUpdate = time.Time{}
	rl.ThisUpdate = time.Time{}
	if rl.Number != nil {
		rl.Number.SetInt64(-1)
	}
	rl.RevokedCertificateEntries = nil
	rl.Raw = rl.Raw[:len(rl.Raw)/2]
}

func scribbleBundle(b *corecrl.Bundle) {
	if b == nil {
		return
	}
	scribbleRL(b.BaseCRL)
	scribbleRL(b.DeltaCRL)
	b.BaseCRL, b.DeltaCRL = b.DeltaCRL, nil
}

var (
	hookMu   sync.Mutex
	hookCur  *recorder
	tempName = regexp.MustCompile(`^notation-[0-9]+$`)
)

type recorder struct {
	caseDir string
	root    string
	writes  []string
	tempsOK bool
}

func (r *recorder) rel(p string) string {
	if strings.HasPrefix(p, r.caseDir+"/") {
		return p[len(r.caseDir)+1:]
	}
	return p
}

func installHook() {
	verifbridge.SetWriteFileHook(func(point, path string) {
		r := hookCur // set under hookMu by the goroutine that calls Set
		if r == nil {
			return
		}
		switch point {
		case "created":
			if filepath.Dir(path) != r.root || !tempName.MatchString(filepath.Base(path)) {
				r.tempsOK = false
			}
		case "return":
			r.writes = append(r.writes, r.rel(path))
		}
	})
}

type snapEntry struct {
	dir bool
	sum [32]byte
}

// snapshot of everything under caseDir except the children of root
func snapshot(caseDir, root string) map[string]snapEntry {
	m := map[string]snapEntry{}
	filepath.Walk(caseDir, func(p string, info os.FileInfo, err error) error {
		if err != nil || p == caseDir {
			return nil
		}
		if filepath.Dir(p) == root {
			if info.IsDir() {
				return filepath.SkipDir
			}
			return nil
		}
		rel := p[len(caseDir)+1:]
		if info.IsDir() {
			m[rel] = snapEntry{dir: true}
		} else {
			b, _ := os.ReadFile(p)
			m[rel] = snapEntry{sum: sha256.Sum256(b)}
		}
		return nil
	})
	return m
}

// listRoot fingerprints every entry of the cache root (name -> "dir" | size and
// digest of the content; entries above 1 MiB by size, modification time and the
// digest of their first and last 64 KiB).
func listRoot(root string) map[string]string {
	m := map[string]string{}
	ents, _ := os.ReadDir(root)
	for _, de := range ents {
		p := filepath.Join(root, de.Name())
		if de.IsDir() {
			m[de.Name()] = "dir"
			continue
		}
		info, err := os.Lstat(p)
		if err != nil {
			m[de.Name()] = "unreadable: " + err.Error()
			continue
		}
		if info.Mode()&os.ModeType != 0 {
			m[de.Name()] = "special " + info.Mode().String()
			continue
		}
		if info.Size() > 1<<20 {
			h := sha256.New()
			if f, err := os.Open(p); err == nil {
				buf := make([]byte, 1<<16)
				n, _ := f.Read(buf)
				h.Write(buf[:n])
				n, _ = f.ReadAt(buf, info.Size()-int64(len(buf)))
				h.Write(buf[:n])
				f.Close()
			}
			m[de.Name()] = fmt.Sprintf("%d bytes mtime %d ends %x", info.Size(), info.ModTime().UnixNano(), h.Sum(nil)[:8])
			continue
		}
		b, _ := os.ReadFile(p)
		h := sha256.Sum256(b)
		m[de.Name()] = fmt.Sprintf("%d bytes sha256 %x", len(b), h[:12])
	}
	return m
}

func qurl(u string) string {
	if len(u) > 120 {
		return fmt.Sprintf("%q...(%d bytes, sha256 %s)", u[:100], len(u), keyOf(u)[:12])
	}
	return fmt.Sprintf("%q", u)
}

// rootFrame compares two listings of the cache root taken before and after one operation.
func (e *env) rootFrame(hc *hcase, idx int, o *hop, before, after map[string]string) {
	own := ""
	if o.K != "get" {
		own = keyOf(o.U)
	}
	var names []string
	for n := range before {
		names = append(names, n)
	}
	for n := range after {
		if _, ok := before[n]; !ok {
			names = append(names, n)
		}
	}
	sort.Strings(names)
	for _, n := range names {
		b, inB := before[n]
		a, inA := after[n]
		if n == own || (inB && inA && a == b) {
			continue
		}
		what := "modified"
		if !inB {
			what = "created"
		} else if !inA {
			what = "removed"
		}
		hc.RootFrame = append(hc.RootFrame, fmt.Sprintf("op %d: %s(%s) %s the root entry %s (before: %q, after: %q); the key of its url is %s",
			idx, o.K, qurl(o.U), what, n, b, a, keyOf(o.U)))
	}
}

// execute runs one history on the real FileCache and returns the Gallina term
// of the case.
func (e *env) execute(id int64, sb string, hc *hcase) string {
	caseDir := filepath.Join(sb, fmt.Sprintf("c%d", id))
	os.RemoveAll(caseDir)
	root := filepath.Join(caseDir, "a", "cache")
	if err := os.MkdirAll(filepath.Join(caseDir, "a"), 0o755); err != nil {
		panic(err)
	}
	defer os.RemoveAll(caseDir)
	// decoys outside the root: valid fresh entries a traversal would find
	decoy := canon(e.crls["F1"].Raw, nil)
	os.WriteFile(filepath.Join(caseDir, "a", "evil"), decoy, 0o644)
	os.WriteFile(filepath.Join(caseDir, "evil2"), decoy, 0o644)
	os.WriteFile(filepath.Join(caseDir, "a", "cache.txt"), decoy, 0o644)
	// two long-lived FileCache objects on the same root (two processes sharing the cache)
	var caches [2]*crl.FileCache
	for k := range caches {
		c, err := crl.NewFileCache(root)
		if err != nil {
			panic(err)
		}
		caches[k] = c
	}
	before := snapshot(caseDir, root)
	rec := &recorder{caseDir: caseDir, root: root, tempsOK: true}
	ctx := context.Background()

	decFacts := map[string]bool{}   // contents needing a decode fact
	parseFacts := map[string]bool{} // byte strings needing a parse fact
	shaFacts := map[string]bool{}
	noteContent := func(c []byte) { decFacts[string(c)] = true }

	hc.Shared = id%2 == 0
	sharedBundles := map[string]*corecrl.Bundle{}
	listing := listRoot(root)
	for opIdx, o := range hc.Ops {
		o.UQ = qurl(o.U)
		shaFacts[o.U] = true
		path := filepath.Join(root, keyOf(o.U))
		if opIdx > 0 {
			// full-root frame (C15_set_frame, C15_isolated_files, C15_get_changes_nothing): the
			// previous operation may have changed the entry at the key of ITS url only (a Get: nothing)
			prev := hc.Ops[opIdx-1]
			now := listRoot(root)
			e.rootFrame(hc, opIdx-1, prev, listing, now)
			listing = now
		}
		switch o.K {
		case "set":
			var b *corecrl.Bundle
			bkey := ""
			if !o.NilB {
				b = &corecrl.Bundle{}
				if o.Base != nil {
					bkey = o.Base.Label
				}
				bkey += "|"
				if o.Delta != nil {
					bkey += o.Delta.Label
				}
				if sb, ok := sharedBundles[bkey]; ok && hc.Shared {
					b = sb // the SAME object as in an earlier step of this history
				}
				if o.Base != nil {
					b.BaseCRL = o.Base.RL
					o.BaseL = o.Base.Label
					parseFacts[string(o.Base.Raw)] = true
				}
				if o.Delta != nil {
					b.DeltaCRL = o.Delta.RL
					o.DeltaL = o.Delta.Label
					if len(o.Delta.Raw) > 0 {
						parseFacts[string(o.Delta.Raw)] = true
					}
				}
				if o.Base != nil {
					var d []byte
					if o.Delta != nil {
						d = o.Delta.Raw
					}
					noteContent(canon(o.Base.Raw, d))
				}
			}
			if b != nil && hc.Shared {
				sharedBundles[bkey] = b
			} else if b != nil {
				// private copies the caller scribbles on after the call
				b.BaseCRL, b.DeltaCRL = cloneRL(b.BaseCRL), cloneRL(b.DeltaCRL)
			}
			before := snapBundle(b)
			hookMu.Lock()
			hookCur = rec
			err := safeSet(caches[o.Inst&1], ctx, o.U, b)
			hookCur = nil
			hookMu.Unlock()
			if pe, ok := err.(panicError); ok {
				hc.Panics = append(hc.Panics, fmt.Sprintf("op %d: Set(%s): %v", opIdx, qurl(o.U), pe.v))
			}
			if after := snapBundle(b); after != before {
				hc.Frame = append(hc.Frame, fmt.Sprintf("op %d: Set(%s) changed the caller's Bundle / RevocationList: before {%s} after {%s}", opIdx, qurl(o.U), before, after))
			}
			if b != nil && !hc.Shared {
				scribbleBundle(b)
			}
			switch {
			case err == nil:
				o.Res = "ok"
				o.resTerm = func(S func(string) string) string { return "ROk" }
			default:
				k := int64(9)
				if strings.Contains(err.Error(), "bundle cannot be nil") {
					k = 7
				} else if strings.Contains(err.Error(), "BaseCRL cannot be nil") {
					k = 8
				}
				o.Res = fmt.Sprintf("err%d: %s", k, Short(err.Error(), 160))
				o.resTerm = func(S func(string) string) string { return CApp("RErr", CN(k)) }
			}
		case "get":
			if o.WaitMs != 0 {
				if d := time.Until(e.t0.Add(time.Duration(o.WaitMs) * time.Millisecond)); d > 0 {
					time.Sleep(d)
				}
			}
			var bundle *corecrl.Bundle
			var gerr error
			var t0, t1 time.Time
			for try := 0; try < 50; try++ {
				t0 = time.Now()
				bundle, gerr = safeGet(caches[o.Inst&1], ctx, o.U)
				t1 = time.Now()
				amb := false
				for _, nu := range e.nus {
					if !t0.Add(-3*time.Millisecond).After(nu) && !t1.Add(3*time.Millisecond).Before(nu) {
						amb = true
					}
				}
				if !amb {
					break
				}
				time.Sleep(7 * time.Millisecond)
			}
			o.tMs = e.ms(t0)
			if pe, ok := gerr.(panicError); ok {
				hc.Panics = append(hc.Panics, fmt.Sprintf("op %d: Get(%s): %v", opIdx, qurl(o.U), pe.v))
			}
			switch {
			case gerr == nil && bundle != nil && bundle.BaseCRL != nil:
				base := string(bundle.BaseCRL.Raw)
				var delta *string
				if bundle.DeltaCRL != nil {
					d := string(bundle.DeltaCRL.Raw)
					delta = &d
				}
				o.Res = "hit base=" + e.label([]byte(base))
				if delta != nil {
					o.Res += " delta=" + e.label([]byte(*delta))
				}
				o.resTerm = func(S func(string) string) string {
					d := "None"
					if delta != nil {
						d = CSome(S(*delta))
					}
					return CApp("RHit", S(base), d)
				}
				// the caller owns what Get returned: whatever it does to it must not show in a later Get
				scribbleBundle(bundle)
			case gerr == nil:
				// a nil error with no usable bundle: reported as a hit of nothing
				o.Res = "nil error without bundle"
				o.resTerm = func(S func(string) string) string { return CApp("RHit", S(""), "None") }
			case errors.Is(gerr, corecrl.ErrCacheMiss):
				k := int64(0)
				if strings.HasPrefix(gerr.Error(), "check BaseCRL expiry failed") {
					k = 1
				} else if strings.HasPrefix(gerr.Error(), "check DeltaCRL expiry failed") {
					k = 2
				}
				o.Res = fmt.Sprintf("miss%d", k)
				o.resTerm = func(S func(string) string) string { return CApp("RMiss", CN(k)) }
			default:
				msg := gerr.Error()
				k := int64(99)
				switch {
				case strings.HasPrefix(msg, "failed to get crl bundle from file cache"):
					k = 1
				case strings.HasPrefix(msg, "failed to decode file"):
					k = 2
				case strings.HasPrefix(msg, "failed to parse base CRL"):
					k = 3
				case strings.HasPrefix(msg, "failed to parse delta CRL"):
					k = 4
				case strings.HasPrefix(msg, "check BaseCRL expiry failed"):
					k = 5
				case strings.HasPrefix(msg, "check DeltaCRL expiry failed"):
					k = 6
				}
				o.Res = fmt.Sprintf("err%d: %s", k, Short(msg, 160))
				o.resTerm = func(S func(string) string) string { return CApp("RErr", CN(k)) }
			}
		case "put":
			os.RemoveAll(path)
			if err := os.WriteFile(path, o.Content, 0o644); err != nil {
				panic(err)
			}
			noteContent(o.Content)
			o.resTerm = func(S func(string) string) string { return "RNone" }
		case "del":
			os.RemoveAll(path)
			o.resTerm = func(S func(string) string) string { return "RNone" }
		case "mkdir":
			os.RemoveAll(path)
			if err := os.Mkdir(path, 0o755); err != nil {
				panic(err)
			}
			o.resTerm = func(S func(string) string) string { return "RNone" }
		}
	}
	if n := len(hc.Ops); n > 0 {
		e.rootFrame(hc, n-1, hc.Ops[n-1], listing, listRoot(root))
	}
	// final listing of the root
	type fent struct {
		name    string
		dir     bool
		content []byte
	}
	var files []fent
	ents, _ := os.ReadDir(root)
	for _, de := range ents {
		f := fent{name: de.Name(), dir: de.IsDir()}
		if !f.dir {
			f.content, _ = os.ReadFile(filepath.Join(root, de.Name()))
			noteContent(f.content)
			hc.Files = append(hc.Files, fmt.Sprintf("%s (%d bytes)", f.name, len(f.content)))
		} else {
			hc.Files = append(hc.Files, f.name+"/")
		}
		files = append(files, f)
	}
	after := snapshot(caseDir, root)
	var outside []string
	for p, a := range after {
		if b, ok := before[p]; !ok || b != a {
			outside = append(outside, p)
		}
	}
	for p := range before {
		if _, ok := after[p]; !ok {
			outside = append(outside, p)
		}
	}
	sort.Strings(outside)
	hc.Outside, hc.Writes, hc.TempsOK = outside, rec.writes, rec.tempsOK

	// facts
	type dfact struct {
		c     string
		ok    bool
		base  string
		delta *string
	}
	var dfs []dfact
	var dkeys []string
	for c := range decFacts {
		dkeys = append(dkeys, c)
	}
	sort.Strings(dkeys)
	for _, c := range dkeys {
		var ec entryCopy
		f := dfact{c: c}
		if err := json.Unmarshal([]byte(c), &ec); err == nil {
			f.ok = true
			f.base = string(ec.BaseCRL)
			parseFacts[f.base] = true
			if ec.DeltaCRL != nil {
				d := string(ec.DeltaCRL)
				f.delta = &d
				parseFacts[d] = true
			}
		}
		dfs = append(dfs, f)
	}
	var pkeys []string
	for b := range parseFacts {
		pkeys = append(pkeys, b)
	}
	sort.Strings(pkeys)
	var skeys []string
	for u := range shaFacts {
		skeys = append(skeys, u)
	}
	sort.Strings(skeys)

	build := func(S func(string) string) string {
		var shaT []string
		for _, u := range skeys {
			h := sha256.Sum256([]byte(u))
			shaT = append(shaT, CPair(S(u), S(string(h[:]))))
		}
		var decT []string
		for _, f := range dfs {
			v := "None"
			if f.ok {
				d := "None"
				if f.delta != nil {
					d = CSome(S(*f.delta))
				}
				v = CSome(CPair(S(f.base), d))
			}
			decT = append(decT, CPair(S(f.c), v))
		}
		var parT []string
		for _, b := range pkeys {
			if _, ok := e.crlPoolFact(b); ok {
				continue // in crl_tab
			}
			parT = append(parT, CPair(S(b), e.parseFact([]byte(b), S)))
		}
		var opT, resT []string
		for _, o := range hc.Ops {
			switch o.K {
			case "set":
				bd := "None"
				if !o.NilB {
					b, d := "None", "None"
					if o.Base != nil {
						b = CSome(S(string(o.Base.Raw)))
					}
					if o.Delta != nil {
						d = CSome(S(string(o.Delta.Raw)))
					}
					bd = CSome(CPair(b, d))
				}
				emptyBase := !o.NilB && o.Base != nil && o.Base.Raw != nil && len(o.Base.Raw) == 0
				opT = append(opT, CApp("OSet", S(o.U), CBool(emptyBase), bd))
			case "get":
				opT = append(opT, CApp("OGet", S(o.U), CZ(o.tMs)))
			case "put":
				opT = append(opT, CApp("OPut", S(o.U), S(string(o.Content))))
			case "del":
				opT = append(opT, CApp("ODel", S(o.U)))
			case "mkdir":
				opT = append(opT, CApp("OMkdir", S(o.U)))
			}
			resT = append(resT, o.resTerm(S))
		}
		var fileT []string
		for _, f := range files {
			if f.dir {
				fileT = append(fileT, CPair(S(f.name), "None"))
			} else {
				fileT = append(fileT, CPair(S(f.name), CSome(S(string(f.content)))))
			}
		}
		var wT, oT []string
		for _, p := range rec.writes {
			wT = append(wT, S(p))
		}
		for _, p := range outside {
			oT = append(oT, S(p))
		}
		in := CApp("mk_input", CList(shaT), CList(decT), CApp("app", CList(parT), "crl_tab"), CList(opT))
		ob := CApp("mk_obs", CList(resT), CList(wT), CList(fileT), CList(oT), CBool(rec.tempsOK))
		return CApp("mk_case", CN(id), in, ob)
	}
	return e.emit(build)
}

// emit builds the term twice: once to count the strings, once to print them,
// binding long strings that occur more than once in the case with a let.
func (e *env) emit(build func(S func(string) string) string) string {
	cnt := map[string]int{}
	build(func(s string) string { cnt[e.abs(s)]++; return "" })
	names := map[string]string{}
	var lets []string
	term := build(func(s string) string {
		s = e.abs(s)
		if n, ok := e.pool[s]; ok {
			return n
		}
		if len(s) > 24 && cnt[s] >= 2 {
			if nm, ok := names[s]; ok {
				return nm
			}
			nm := fmt.Sprintf("k%d_", len(names))
			names[s] = nm
			lets = append(lets, "let "+nm+" := "+cstr(s)+" in ")
			return nm
		}
		return cstr(s)
	})
	if len(lets) == 0 {
		return term
	}
	return "(" + strings.Join(lets, "") + term + ")"
}

func (e *env) crlPoolFact(b string) (string, bool) {
	for _, c := range e.crls {
		if len(c.Raw) == len(b) && string(c.Raw) == b && c.Kind != "W" && c.Kind != "N" {
			return c.Label, true
		}
	}
	return "", false
}

func (e *env) label(b []byte) string {
	for _, c := range e.crls {
		if len(c.Raw) == len(b) && string(c.Raw) == string(b) {
			return c.Label
		}
	}
	h := sha256.Sum256(b)
	return fmt.Sprintf("?%d:%s", len(b), hex.EncodeToString(h[:6]))
}

// ---------- the driver ----------

func runC15(a *Args) error {
	rng := NewRng(a.Seed)
	w := NewCaseWriter(a, "C15", "", "case", "run")
	w.Rule = "histories of FileCache.Set / Get and environment operations (corrupt, remove, directory in the way) on a fresh cache directory, run on the real verifier/crl.FileCache; families: expiry matrix (base x delta in fresh / expired / zero NextUpdate / not a CRL / nil), isolation scripts over all pairs of near-identical urls, hostile urls (traversal, empty, the file name of another url, 5 kB) with decoy entries planted outside the root, ~70 kinds of corruption of a stored entry (truncation at every length class, bit flips, swapped fields, foreign JSON, wrong types, bad base64, damaged DER), duplicate JSON members with the odd one first / middle / last and rarely used legal JSON syntax (escaped keys and characters, case-folded keys, CR LF inside base64, pretty printing), nil bundles and directories in the way, overwrite of every ordered pair of stored bundles (same length, older/newer, with/without delta), scripts on ONE long-lived FileCache object and on TWO objects sharing the root whose expected answer changes between calls (A then B, miss then hit, hit then miss, fail then pass), random histories (half of them spread over the two objects) of 3..12 operations followed by a sweep of Gets, and entries that expire while the history runs (real clock), and the freshness matrix repeated over parts of about 0.2 / 0.5 / 5 kB (fresh, expired, zero NextUpdate at every size, base and delta independently), and a size ladder of Set / Get round trips (two urls, two objects, overwrite by a small bundle) with bundles as large as the library may fetch: raw DER of 1 and 8 MiB and an expired 8 MiB delta in the quick tier, 20 / 26 / 31 MiB bases and 14 MiB base + 14 MiB delta in the thorough tier (35 bytes per revoked entry, up to 930 000 entries), and CRLs whose own extensions name urls (Issuing Distribution Point with the url of the Set / another url of the history / a url never stored / https, ldap and upper-case scheme URIs / several URIs; Freshest CRL; Authority Information Access; all three; expired; as delta) stored under one url while the urls they name are read, stored before and after, and removed; after EVERY operation of EVERY history the whole cache root is listed and compared with the listing before it: only the entry at the key of the url of the operation may differ (nothing after a Get). non-trivial = some Get addresses a url that was stored or corrupted earlier in the history, or the history touches a hostile url; distinct = distinct (family, urls, operations, CRL kinds, corruption, results) sequences"
	w.Assumptions = []string{
		"crypto/sha256 has no collision among the urls of a history (checked per case inside Coq: wf)",
		"encoding/json + encoding/base64 decode what they encoded (checked per Set inside Coq: wf); x509.ParseRevocationList is an oracle giving (Raw, NextUpdate) | error for every byte string met (it ignores bytes after the first DER element, so Raw may be a proper prefix of a stored part)",
		"the cache directory is writable and the process can read its files (no I/O errors other than a directory sitting at an entry's name)",
		"no NextUpdate lies within 3 ms of a Get (the driver repeats the Get otherwise); the boundary now = NextUpdate is not explored",
		"a byte string of more than 64 KiB is given to Coq as a stand-in: \"<big N bytes sha256 H>\", and a file content that is byte for byte the canonical entry text (checked Go-side against json.Marshal of the harness' own entry struct) as the canonical entry text over the stand-ins of its parts; injective unless SHA-256 collides, applied consistently to operations, results, file contents and fact tables",
	}
	e := &env{t0: time.Now().Truncate(time.Second), pool: map[string]string{}, crls: map[string]*crlObj{}, lazy: map[string]func() *crlObj{}, absCache: map[string]string{}}
	pub, priv, err := ed25519.GenerateKey(rand.Reader)
	_ = pub
	if err != nil {
		return err
	}
	e.key = priv
	e.issuer = &x509.Certificate{Subject: pkix.Name{CommonName: "c"}, SubjectKeyId: []byte{1, 2, 3, 4}, KeyUsage: x509.KeyUsageCRLSign}
	installHook()

	// --- CRL pool ---
	h := time.Hour
	add := e.add
	add(e.mint("F1", "F", e.t0.Add(1*h), false, 0))
	add(e.mint("F2", "F", e.t0.Add(24*h), false, 1))
	add(e.mint("F3", "F", e.t0.Add(30*24*h), false, 0))
	add(e.mint("FD1", "F", e.t0.Add(2*h), true, 0))
	add(e.mint("FD2", "F", e.t0.Add(1*h), true, 2))
	add(e.mint("E1", "E", e.t0.Add(-1*h), false, 0))
	add(e.mint("E2", "E", e.t0.Add(-2*time.Second), false, 0))
	add(e.mint("ED1", "E", e.t0.Add(-24*h), true, 0))
	add(e.mint("ED2", "E", e.t0.Add(-3*time.Second), true, 1))
	// larger than one 4 KiB buffer once stored (150 revoked certificates)
	add(e.mint("B1", "F", e.t0.Add(48*h), false, 150))
	add(e.mint("BD1", "F", e.t0.Add(48*h), true, 150))
	// the same sizes expired / without NextUpdate: freshness must not depend on the size of a part
	// (12 revoked certificates: about 0.5 kB, 150: about 5 kB)
	add(e.mint("EM1", "E", e.t0.Add(-1*h), false, 12))
	add(e.mint("EMD1", "E", e.t0.Add(-1*h), true, 12))
	add(e.mint("EB1", "E", e.t0.Add(-1*h), false, 150))
	add(e.mint("EBD1", "E", e.t0.Add(-2*h), true, 150))
	add(e.mint("ZB1", "Z", time.Time{}, false, 150))
	add(e.mint("M1", "F", e.t0.Add(3*h), false, 12))
	add(e.mint("MD1", "F", e.t0.Add(3*h), true, 12))
	add(e.mint("Z1", "Z", time.Time{}, false, 0))
	add(e.mint("ZD1", "Z", time.Time{}, true, 0))
	add(&crlObj{Label: "W1", Kind: "W", Raw: []byte("this is not a CRL"), RL: &x509.RevocationList{Raw: []byte("this is not a CRL")}})
	add(&crlObj{Label: "N1", Kind: "N", Raw: nil, RL: &x509.RevocationList{}})
	// an empty but non-nil Raw: as a base it is stored as "" (a nil one as null), as a delta omitempty drops it like a nil one
	add(&crlObj{Label: "N2", Kind: "N", Raw: []byte{}, RL: &x509.RevocationList{Raw: []byte{}}})
	// a valid DER with one trailing byte: refused by the parser
	add(&crlObj{Label: "W2", Kind: "W", Raw: append(append([]byte{}, e.crls["F1"].Raw...), 0), RL: &x509.RevocationList{Raw: append(append([]byte{}, e.crls["F1"].Raw...), 0)}})

	// the size ladder (family I): minted only when a history of the run uses them
	for _, L := range []struct {
		label, kind string
		next        time.Duration
		delta       bool
		mib         int
	}{{"L1", "F", 72 * h, false, 1}, {"L8", "F", 72 * h, false, 8}, {"EL8D", "E", -5 * h, true, 8}, {"L20", "F", 72 * h, false, 20},
		{"L26", "F", 72 * h, false, 26}, {"L31", "F", 72 * h, false, 31}, {"L14", "F", 72 * h, false, 14}, {"LD14", "F", 48 * h, true, 14}} {
		L := L
		e.lazy[L.label] = func() *crlObj {
			return e.add(e.mint(L.label, L.kind, e.t0.Add(L.next), L.delta, L.mib*(1<<20)/35-20))
		}
	}

	// --- url pool ---
	u0 := "http://crl.example.com/ca.crl"
	near := []string{u0, u0 + " ", " " + u0, "http://crl.example.com/CA.crl", "HTTP://crl.example.com/ca.crl",
		"http://CRL.example.com/ca.crl", u0 + "/", "http://crl.example.com//ca.crl", "http://crl.example.com/ca%2Ecrl",
		"http://crl.example.com/a%2Fb.crl", "http://crl.example.com/a/b.crl", "http://crl.example.com/a%2fb.crl",
		u0 + "?", u0 + "#", "http://crl.example.com:80/ca.crl", "https://crl.example.com/ca.crl", u0 + "\x00", u0 + "\n",
		"http://crl.example.com/c\u00e4.crl", "http://crl.example.com/ca\u0308.crl", "http://crl.example.com/ca.cr",
		"http://crl.example.com/ca.crll", "http://crl.example.com./ca.crl", "http://crl.example.com/ca.crl%00",
		// rarely used but legal url syntax, and byte strings that are no urls at all
		"http://user:p@ss@crl.example.com/ca.crl", "http://@crl.example.com/ca.crl", "http://[::1]/ca.crl", "http://[0:0:0:0:0:0:0:1]/ca.crl",
		"ldap://crl.example.com/cn=ca?certificateRevocationList;binary", "//crl.example.com/ca.crl", "crl.example.com/ca.crl",
		"http://crl.example.com/ca.crl;v=1", "http://crl.example.com/./ca.crl", "http://crl.example.com/x/../ca.crl",
		"http://crl.example.com/ca.crl\xff", "http://crl.example.com/ca.crl\xfe", "http://crl.example.com/ca.crl\t", "http://crl.example.com/ca.crl\r\n",
		"http://crl.example.com/ca.crl?a=1&b=2", "http://crl.example.com/ca.crl?b=2&a=1", "http://crl.example.com/ca.crl#frag", "http://crl.example.com/%63a.crl"}
	hostile := []string{"../evil", "../../evil2", "..", ".", "", "/", "a/../../evil", "../cache/" + keyOf(u0), keyOf(u0),
		"./" + keyOf(u0), "x/../" + keyOf(u0), strings.ToUpper(keyOf(u0)), keyOf(u0)[:63], "..\\evil", "%2e%2e/evil", "notation-123456", "../evil\x00",
		strings.Repeat("../", 40) + "evil2", "../cache.txt", "../cache", "cache", "../../a/cache/" + keyOf(u0)}
	long := []string{"http://h/" + strings.Repeat("a", 5000), "http://h/" + strings.Repeat("a", 4999) + "b",
		"http://h/" + strings.Repeat("ab/", 100), strings.Repeat("x", 255), strings.Repeat("x", 256), "http://h/" + strings.Repeat("ab/", 100) + "/"}
	n := 0
	for _, fam := range [][]string{near, hostile, long} {
		for _, u := range fam {
			if _, ok := e.pool[u]; ok {
				continue
			}
			name := fmt.Sprintf("u%d_", n)
			n++
			e.define(name, u)
			hh := sha256.Sum256([]byte(u))
			e.define(fmt.Sprintf("h%d_", n-1), string(hh[:]))
		}
	}

	// CRLs whose own content names urls (family J): an Issuing Distribution Point, a Freshest CRL
	// or an Authority Information Access extension must never choose a cache key
	iu, iv, iw := near[0], near[3], near[20] // the url of the Set, another url of the history, a url never stored
	add(e.mint("XS", "F", e.t0.Add(5*h), false, 0, extIDP(iu)))
	add(e.mint("XO", "F", e.t0.Add(5*h), false, 1, extIDP(iv)))
	add(e.mint("XN", "F", e.t0.Add(5*h), false, 0, extIDP(iw)))
	add(e.mint("XH", "F", e.t0.Add(5*h), false, 0, extIDP("https://crl.example.com/CA.crl", "ldap://crl.example.com/cn=ca?certificateRevocationList;binary", "HTTP://crl.example.com/ca.crl")))
	add(e.mint("XM", "F", e.t0.Add(5*h), false, 2, extIDP(iu, iv, iw, "http://crl.example.com/extra.crl")))
	add(e.mint("XF", "F", e.t0.Add(5*h), false, 0, extFreshest(iv, iw)))
	add(e.mint("XA", "F", e.t0.Add(5*h), false, 0, extAIA(iv, iw)))
	add(e.mint("XALL", "F", e.t0.Add(5*h), false, 0, extIDP(iv), extFreshest(iw), extAIA(iv)))
	add(e.mint("XE", "E", e.t0.Add(-5*h), false, 0, extIDP(iv, iw)))
	add(e.mint("XD", "F", e.t0.Add(5*h), true, 0, extIDP(iv), extFreshest(iw)))
	add(e.mint("XDE", "E", e.t0.Add(-5*h), true, 0, extIDP(iv, iw)))

	sb := filepath.Join(a.Out, "sb")
	if err := os.MkdirAll(sb, 0o755); err != nil {
		return err
	}
	defer os.RemoveAll(sb)

	g := &gen{e: e, near: near, hostile: hostile, long: long}
	var id int64
	emitCase := func(hc *hcase) {
		my := id
		id++
		if !w.Want(my) {
			return
		}
		term := e.execute(my, sb, hc)
		g.account(w, my, term, hc)
	}
	emitLazy := func(mk func() *hcase) {
		my := id
		id++
		if !w.Want(my) {
			return
		}
		hc := mk()
		term := e.execute(my, sb, hc)
		g.account(w, my, term, hc)
	}
	type slow struct {
		id   int64
		mk   func(r *Rng) *hcase
		r    *Rng
		hc   *hcase
		term string
	}
	var deferred []*slow
	g.families(a, rng, emitCase, func(mk func(r *Rng) *hcase) {
		// cases that sleep: executed concurrently at the end, ids fixed now
		my := id
		id++
		if !w.Want(my) {
			return
		}
		deferred = append(deferred, &slow{id: my, mk: mk, r: rng.Fork(uint64(my))})
	}, emitLazy)
	if len(deferred) > 0 {
		// CRLs that expire while the histories run, minted now
		now := time.Now().Truncate(time.Second)
		add(e.mint("S1", "S", now.Add(3*time.Second), false, 0))
		add(e.mint("S2", "S", now.Add(4*time.Second), false, 1))
		add(e.mint("SD1", "S", now.Add(3*time.Second), true, 0))
		add(e.mint("SD2", "S", now.Add(4*time.Second), true, 1))
		var wg sync.WaitGroup
		for _, s := range deferred {
			s.hc = s.mk(s.r)
			wg.Add(1)
			go func(s *slow) { defer wg.Done(); s.term = e.execute(s.id, sb, s.hc) }(s)
		}
		wg.Wait()
		for _, s := range deferred {
			g.account(w, s.id, s.term, s.hc)
		}
	}
	fmt.Fprintf(&e.prelude, "Definition crl_tab : list (string * crlfact) := %s.\n", CList(e.tab))
	w.Prelude = "From NV Require Import Base C15_Model.\nOpen Scope string_scope.\n" + e.prelude.String()
	return w.Close()
}
