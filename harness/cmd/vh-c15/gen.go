package main

// C15 generators: the families of histories run on the real FileCache.

import (
	"bytes"
	"encoding/base64"
	"fmt"
	"strings"
	. "vh/kit"
)

type gen struct {
	e       *env
	near    []string
	hostile []string
	long    []string
}

func (g *gen) c(l string) *crlObj {
	if l == "" {
		return nil
	}
	c, ok := g.e.crls[l]
	if !ok {
		if mk, lz := g.e.lazy[l]; lz {
			return mk() // a big CRL of the size ladder: minted once, on first use
		}
		panic("c15: no crl " + l)
	}
	return c
}

func (g *gen) set(u, b, d string) *hop { return &hop{K: "set", U: u, Base: g.c(b), Delta: g.c(d)} }
func setNil(u string) *hop             { return &hop{K: "set", U: u, NilB: true} }
func get(u string) *hop                { return &hop{K: "get", U: u} }
func getAt(u string, ms int64) *hop    { return &hop{K: "get", U: u, WaitMs: ms} }
func del(u string) *hop                { return &hop{K: "del", U: u} }
func mkdir(u string) *hop              { return &hop{K: "mkdir", U: u} }
func on(inst int, o *hop) *hop         { o.Inst = inst; return o }
func put(u, what string, c []byte) *hop {
	return &hop{K: "put", U: u, What: what, Content: c}
}

// ---------- corruptions of a stored entry ----------

type corruption struct {
	what    string
	content []byte
}

func b64(b []byte) string { return base64.StdEncoding.EncodeToString(b) }

// corruptions of the entry (base, delta) -- delta may be nil. other is a valid
// entry of another url. Deterministic except for the bit flips (rng).
func (g *gen) corruptions(base, delta *crlObj, r *Rng) []corruption {
	var dr []byte
	if delta != nil {
		dr = delta.Raw
	}
	c := canon(base.Raw, dr)
	cs := string(c)
	var out []corruption
	addc := func(what string, b []byte) { out = append(out, corruption{what, b}) }
	adds := func(what string, s string) { out = append(out, corruption{what, []byte(s)}) }

	// truncation at every length class
	iBaseVal := strings.Index(cs, `"baseCRL":"`) + len(`"baseCRL":"`)
	iBaseEnd := iBaseVal + len(b64(base.Raw))
	cuts := map[string]int{
		"trunc:0": 0, "trunc:1": 1, "trunc:2": 2, "trunc:in-key": 6, "trunc:after-colon": iBaseVal - 1,
		"trunc:value-open": iBaseVal, "trunc:mid-base64": iBaseVal + 101, "trunc:base64-boundary": iBaseVal + 100,
		"trunc:before-close-quote": iBaseEnd, "trunc:after-base": iBaseEnd + 1, "trunc:len-2": len(c) - 2, "trunc:len-1": len(c) - 1,
	}
	if delta != nil {
		iD := strings.Index(cs, `,"deltaCRL":"`)
		cuts["trunc:after-comma"] = iD + 1
		cuts["trunc:in-delta-key"] = iD + 6
		cuts["trunc:mid-delta"] = iD + len(`,"deltaCRL":"`) + 57
	}
	for _, k := range sortedKeys(cuts) {
		n := cuts[k]
		if n < 0 || n > len(c) {
			continue
		}
		addc(k, append([]byte{}, c[:n]...))
	}
	// a truncation that stays valid JSON: the base value cut at a base64 quantum and the object closed
	adds("trunc:closed-after-100", cs[:iBaseVal+100]+`"}`)
	adds("trunc:closed-after-4", cs[:iBaseVal+4]+`"}`)

	// bit flips: structural bytes, key, base64 body
	flipAt := func(what string, pos int, bit uint) {
		b := append([]byte{}, c...)
		b[pos] ^= 1 << bit
		addc(fmt.Sprintf("%s@%d^%d", what, pos, bit), b)
	}
	flipAt("flip:open-brace", 0, 0)
	flipAt("flip:key", 3, 0)      // baseCRL -> bbseCRL
	flipAt("flip:key-case", 2, 5) // baseCRL -> BaseCRL (encoding/json folds case)
	flipAt("flip:colon", iBaseVal-2, 0)
	flipAt("flip:quote", iBaseVal-1, 1)
	flipAt("flip:close-brace", len(c)-1, 1)
	flipAt("flip:b64-first", iBaseVal, 2)   // DER tag
	flipAt("flip:b64-high", iBaseVal+10, 7) // not a base64 character
	for k := 0; k < 6; k++ {
		flipAt("flip:b64-random", iBaseVal+r.Intn(iBaseEnd-iBaseVal), uint(r.Intn(7)))
	}
	flipAt("flip:b64-last", iBaseEnd-1-strings.Count(b64(base.Raw), "="), 0) // inside the signature
	if delta != nil {
		iDv := strings.Index(cs, `,"deltaCRL":"`) + len(`,"deltaCRL":"`)
		flipAt("flip:delta-b64", iDv+40, 1)
		flipAt("flip:delta-key", iDv-6, 0)
	}

	// swapped fields
	if delta != nil {
		adds("swap:order", `{"deltaCRL":"`+b64(delta.Raw)+`","baseCRL":"`+b64(base.Raw)+`"}`)
		adds("swap:values", `{"baseCRL":"`+b64(delta.Raw)+`","deltaCRL":"`+b64(base.Raw)+`"}`)
		adds("swap:delta-only", `{"deltaCRL":"`+b64(delta.Raw)+`"}`)
		adds("type:delta-number", `{"baseCRL":"`+b64(base.Raw)+`","deltaCRL":123}`)
	}
	adds("swap:base-as-delta-too", `{"baseCRL":"`+b64(base.Raw)+`","deltaCRL":"`+b64(base.Raw)+`"}`)
	adds("dup:base-twice-expired-last", `{"baseCRL":"`+b64(base.Raw)+`","baseCRL":"`+b64(g.c("E1").Raw)+`"}`)
	adds("dup:base-twice-garbage-first", `{"baseCRL":"AAAA","baseCRL":"`+b64(base.Raw)+`"}`)
	// duplicate members: the odd one at every position relative to the good one
	exp, junk := b64(g.c("E1").Raw), "AAAA"
	good := b64(base.Raw)
	adds("dup:expired-first", `{"baseCRL":"`+exp+`","baseCRL":"`+good+`"}`)
	adds("dup:garbage-last", `{"baseCRL":"`+good+`","baseCRL":"`+junk+`"}`)
	adds("dup:garbage-middle", `{"baseCRL":"`+good+`","baseCRL":"`+junk+`","baseCRL":"`+good+`"}`)
	adds("dup:null-last", `{"baseCRL":"`+good+`","baseCRL":null}`)
	adds("dup:case-variant-last", `{"baseCRL":"`+good+`","BaseCrl":"`+exp+`"}`)
	adds("dup:case-variant-first", `{"BASECRL":"`+exp+`","baseCRL":"`+good+`"}`)
	adds("dup:delta-twice-expired-last", `{"baseCRL":"`+good+`","deltaCRL":"`+b64(g.c("FD1").Raw)+`","deltaCRL":"`+b64(g.c("ED1").Raw)+`"}`)
	adds("dup:delta-twice-expired-first", `{"deltaCRL":"`+b64(g.c("ED1").Raw)+`","baseCRL":"`+good+`","deltaCRL":"`+b64(g.c("FD1").Raw)+`"}`)
	adds("dup:delta-then-null", `{"baseCRL":"`+good+`","deltaCRL":"`+b64(g.c("ED1").Raw)+`","deltaCRL":null}`)
	adds("key:unknown-first", `{"extra":"`+exp+`","baseCRL":"`+good+`"}`)
	adds("key:unknown-middle", `{"baseCRL":"`+good+`","extra":[{"baseCRL":"`+exp+`"}],"deltaCRL":"`+b64(g.c("FD1").Raw)+`"}`)
	adds("key:nested-entry", `{"entry":{"baseCRL":"`+good+`"}}`)
	// rarely used legal JSON syntax
	adds("syntax:escaped-key", `{"base\u0043RL":"`+good+`"}`)
	adds("syntax:escaped-slash", `{"baseCRL":"`+strings.ReplaceAll(good, "/", `\/`)+`"}`)
	adds("syntax:escaped-plus", `{"baseCRL":"`+strings.ReplaceAll(strings.ReplaceAll(good, "+", `\u002b`), "=", `\u003d`)+`"}`)
	adds("syntax:crlf-in-base64", `{"baseCRL":"`+good[:20]+`\r\n`+good[20:60]+`\r\n`+good[60:]+`"}`)
	adds("syntax:space-in-base64", `{"baseCRL":"`+good[:20]+` `+good[20:]+`"}`)
	adds("syntax:pretty-printed", "{\n\t\"baseCRL\" :\t\""+good+"\" ,\r\n  \"deltaCRL\" : null\n}\n")
	adds("syntax:kelvin-key", "{\"baseCRL\":\""+exp+"\",\"base\u212aRL\":\"x\"}")
	adds("syntax:long-s-key", "{\"ba\u017feCRL\":\""+good+"\"}")
	adds("syntax:base64-array-of-bytes", `{"baseCRL":[48,130,1,2]}`)
	adds("syntax:base64-object", `{"baseCRL":{"raw":"`+good+`"}}`)
	adds("syntax:number-exponent", `{"baseCRL":1e3}`)
	adds("syntax:missing-padding-one", `{"baseCRL":"`+strings.TrimRight(good, "=")+`"}`)
	adds("syntax:extra-padding", `{"baseCRL":"`+good+`="}`)
	adds("key:upper", `{"BASECRL":"`+b64(base.Raw)+`"}`)
	adds("key:unknown-extra", `{"baseCRL":"`+b64(base.Raw)+`","extra":{"a":[1,2,3]}}`)
	adds("delta:null", `{"baseCRL":"`+b64(base.Raw)+`","deltaCRL":null}`)
	adds("delta:empty-string", `{"baseCRL":"`+b64(base.Raw)+`","deltaCRL":""}`)
	adds("delta:expired", `{"baseCRL":"`+b64(base.Raw)+`","deltaCRL":"`+b64(g.c("ED1").Raw)+`"}`)
	adds("delta:zero", `{"baseCRL":"`+b64(base.Raw)+`","deltaCRL":"`+b64(g.c("ZD1").Raw)+`"}`)
	adds("delta:not-a-crl", `{"baseCRL":"`+b64(base.Raw)+`","deltaCRL":"`+b64([]byte("junk"))+`"}`)

	// foreign JSON and wrong types
	for _, s := range []string{``, ` `, `{}`, `[]`, `null`, `"x"`, `123`, `true`, `{"foo":"bar"}`, `{"baseCRL":null}`, `{"baseCRL":""}`,
		`{"baseCRL":{}}`, `{"baseCRL":123}`, `{"baseCRL":["QUJD"]}`, `{"baseCRL":"!!!not base64!!!"}`, `{"baseCRL":"QUJD"}`,
		`{"version":"1.0","trustPolicies":[{"name":"p","registryScopes":["*"]}]}`, `[{"baseCRL":"QUJD"}]`, `{"baseCRL":"QUJD"`, `{"baseCRL":"QUJD"}}`,
		`<?xml version="1.0"?><crl/>`, "\xef\xbb\xbf{}", "\x00\x00\x00\x00"} {
		adds("foreign:"+Short(fmt.Sprintf("%q", s), 40), s)
	}
	// encodings of the right bytes the decoder must or must not accept
	adds("b64:url-safe", `{"baseCRL":"`+base64.URLEncoding.EncodeToString(base.Raw)+`"}`)
	np := base.Raw
	if len(np)%3 == 0 {
		np = np[:len(np)-1]
	}
	adds("b64:no-padding", `{"baseCRL":"`+base64.RawStdEncoding.EncodeToString(np)+`"}`)
	adds("b64:newline-inside", `{"baseCRL":"`+b64(base.Raw)[:40]+`\n`+b64(base.Raw)[40:]+`"}`)
	adds("json:trailing-newline", cs+"\n")
	adds("json:trailing-garbage", cs+"x")
	adds("json:two-values", cs+cs)
	adds("json:leading-space", "  \n"+cs)
	adds("json:raw-der", string(base.Raw))
	adds("json:pem", "-----BEGIN X509 CRL-----\n"+b64(base.Raw)+"\n-----END X509 CRL-----\n")
	adds("json:5k-A", strings.Repeat("A", 5000))
	// damaged DER inside a well-formed entry
	adds("der:short-by-1", string(canon(base.Raw[:len(base.Raw)-1], nil)))
	adds("der:trailing-byte", string(canon(append(append([]byte{}, base.Raw...), 0), nil)))
	adds("der:first-half", string(canon(base.Raw[:len(base.Raw)/2], nil)))
	adds("der:doubled", string(canon(append(append([]byte{}, base.Raw...), base.Raw...), nil)))
	// still a well-formed entry: another valid entry in its place
	adds("valid:other-entry", string(canon(g.c("F3").Raw, nil)))
	adds("valid:expired-entry", string(canon(g.c("E1").Raw, g.c("FD1").Raw)))
	adds("valid:same", cs)
	return out
}

func sortedKeys(m map[string]int) []string {
	var ks []string
	for k := range m {
		ks = append(ks, k)
	}
	for i := 1; i < len(ks); i++ {
		for j := i; j > 0 && ks[j] < ks[j-1]; j-- {
			ks[j], ks[j-1] = ks[j-1], ks[j]
		}
	}
	return ks
}

// ---------- families ----------

var baseLabels = []string{"F1", "F2", "F3", "E1", "E2", "Z1", "W1", "W2", "N1", "N2", ""}
var deltaLabels = []string{"", "FD1", "FD2", "ED1", "ED2", "ZD1", "W1", "N1", "N2", "F2", "E1"}

func (g *gen) randURL(r *Rng, pools ...[]string) string {
	p := Pick(r, pools)
	u := Pick(r, p)
	if r.Chance(1, 12) && len(u) > 0 && len(u) < 200 {
		// a one-byte edit of a pool url (not in the digest pool)
		b := []byte(u)
		i := r.Intn(len(b))
		switch r.Intn(3) {
		case 0:
			b[i] ^= 1 << uint(r.Intn(8))
		case 1:
			b = append(b[:i], b[i+1:]...)
		default:
			b = append(b[:i+1], b[i:]...)
		}
		u = string(b)
	}
	return u
}

func (g *gen) randSet(r *Rng, u string) *hop {
	switch r.Intn(20) {
	case 0:
		return setNil(u)
	case 1:
		return g.set(u, "", Pick(r, deltaLabels))
	}
	b := Pick(r, baseLabels[:10])
	if r.Chance(3, 5) {
		b = Pick(r, []string{"F1", "F2", "F3"})
	}
	d := ""
	if r.Chance(1, 2) {
		d = Pick(r, deltaLabels)
		if r.Chance(1, 2) {
			d = Pick(r, []string{"FD1", "FD2", "ED1"})
		}
	}
	return g.set(u, b, d)
}

func (g *gen) families(a *Args, rng *Rng, emit func(*hcase), deferCase func(mk func(r *Rng) *hcase), emitLazy func(mk func() *hcase)) {
	thorough := a.Tier == "thorough"
	u0 := g.near[0]
	all := [][]string{g.near, g.near, g.near, g.near, g.near, g.hostile, g.hostile, g.hostile, g.hostile, g.long}

	// A. expiry matrix: base x delta
	k := 0
	for _, b := range baseLabels {
		for _, d := range deltaLabels {
			u := g.near[k%len(g.near)]
			v := g.near[(k+7)%len(g.near)]
			k++
			emit(&hcase{Family: "matrix", Ops: []*hop{get(u), g.set(u, b, d), get(u), get(v), get(u)}})
		}
	}

	// B. isolation: every pair of near-identical urls (and the long ones)
	iso := append(append([]string{}, g.near...), g.long...)
	scripts := 1
	if thorough {
		scripts = 5
	}
	for i := 0; i < len(iso); i++ {
		for j := i + 1; j < len(iso); j++ {
			if dd := j - i; !thorough && i != 0 && dd != 1 && dd != 2 && dd != 7 {
				// quick: every url against the plain one, against its neighbours (the
				// pool lists look-alikes next to each other) and one far partner
				continue
			}
			for s := 0; s < scripts; s++ {
				r := rng.Fork(uint64(1_000_000 + (i*100+j)*8 + s))
				x, y := iso[i], iso[j]
				if r.Bool() {
					x, y = y, x
				}
				fresh := []string{"F1", "F2", "F3"}
				A, B, C := Pick(r, fresh), Pick(r, fresh), Pick(r, fresh)
				for B == A {
					B = Pick(r, fresh)
				}
				var ops []*hop
				switch (i + j + s) % 5 {
				case 0:
					ops = []*hop{g.set(x, A, "FD1"), g.set(y, B, ""), get(x), get(y)}
				case 1:
					ops = []*hop{g.set(x, A, ""), get(y), g.set(y, "E1", ""), get(x), get(y)}
				case 2:
					ops = []*hop{g.set(x, A, ""), g.set(y, B, "FD2"), g.set(x, C, "FD1"), get(y), get(x)}
				case 3:
					ops = []*hop{g.set(x, A, "FD1"), g.set(y, B, ""), del(y), get(x), get(y), put(y, "foreign", []byte(`{"foo":1}`)), get(x), get(y)}
				default:
					ops = []*hop{g.set(x, A, ""), g.set(y, B, "ED1"), get(x), get(y), setNil(y), g.set(y, "", "FD1"), get(y), get(x)}
				}
				emit(&hcase{Family: "isolation", Ops: ops})
			}
		}
	}

	// C. hostile urls: decoys outside the root, the file name of another url as url
	hs := append(append([]string{}, g.hostile...), g.long...)
	for i, u := range hs {
		emit(&hcase{Family: "hostile", Ops: []*hop{get(u), get(u0)}})
		emit(&hcase{Family: "hostile", Ops: []*hop{g.set(u0, "F1", ""), get(u), g.set(u, "F2", "FD1"), get(u), get(u0)}})
		emit(&hcase{Family: "hostile", Ops: []*hop{g.set(u, "F1", ""), g.set(u0, "F2", ""), get(u), get(u0), setNil(u), get(u), g.set(u, "E1", ""), get(u), get(u0)}})
		v := hs[(i+1)%len(hs)]
		emit(&hcase{Family: "hostile", Ops: []*hop{g.set(u, "F3", "FD2"), get(v), g.set(v, "F1", ""), get(u), get(v), del(u), get(u), get(v)}})
	}

	// D. corruptions of a stored entry
	rounds := 1
	if thorough {
		rounds = 6
	}
	for rd := 0; rd < rounds; rd++ {
		for ei, ent := range [][2]string{{"F1", "FD1"}, {"F2", ""}} {
			r := rng.Fork(uint64(2_000_000 + rd*10 + ei))
			for ci, co := range g.corruptions(g.c(ent[0]), g.c(ent[1]), r) {
				u := g.near[(ci+rd)%len(g.near)]
				v := g.near[(ci+rd+5)%len(g.near)]
				ops := []*hop{g.set(v, "F3", ""), g.set(u, ent[0], ent[1]), get(u), put(u, co.what, co.content), get(u), get(v)}
				if ci%2 == 0 {
					ops = append(ops, g.set(u, "F1", ""), get(u))
				}
				emit(&hcase{Family: "corrupt", Ops: ops})
			}
		}
	}
	// a corrupted file where nothing was stored, and removal
	for ci, co := range g.corruptions(g.c("F2"), g.c("FD2"), rng.Fork(2_500_000)) {
		if ci%4 != 0 && !thorough {
			continue
		}
		u := Pick(rng, hs)
		emit(&hcase{Family: "corrupt", Ops: []*hop{put(u, co.what, co.content), get(u), get(u0), del(u), get(u)}})
	}

	// E. nil bundles and a directory in the way
	for i, u := range []string{u0, g.near[1], g.hostile[0], g.hostile[4], g.long[0], g.hostile[8]} {
		v := g.near[(i+3)%len(g.near)]
		emit(&hcase{Family: "nil", Ops: []*hop{setNil(u), get(u), g.set(u, "", ""), get(u), g.set(u, "", "FD1"), get(u)}})
		emit(&hcase{Family: "nil", Ops: []*hop{g.set(u, "F1", "FD1"), setNil(u), get(u), g.set(u, "", "FD2"), get(u), g.set(u, "N1", ""), get(u)}})
		emit(&hcase{Family: "dir", Ops: []*hop{mkdir(u), get(u), g.set(u, "F1", ""), get(u), get(v), del(u), get(u), g.set(u, "F2", ""), get(u)}})
		emit(&hcase{Family: "dir", Ops: []*hop{g.set(u, "F1", ""), g.set(v, "F2", ""), mkdir(u), g.set(u, "F3", ""), get(u), get(v)}})
	}

	// E2. overwrite: the last Set wins, for every ordered pair of stored bundles (same
	// length, older / newer ThisUpdate and Number, fresh / expired, with / without delta)
	owB := []string{"F1", "F2", "F3", "E1", "E2", "Z1"}
	owD := []string{"", "FD1", "ED1", "FD2"}
	k = 0
	for _, x := range owB {
		for _, y := range owB {
			u := g.near[k%len(g.near)]
			dx, dy := owD[k%4], owD[(k/4+k+1)%4]
			k++
			emit(&hcase{Family: "overwrite", Ops: []*hop{g.set(u, x, dx), get(u), g.set(u, y, dy), get(u), on(1, get(u))}})
		}
	}
	for _, p := range [][4]string{{"F1", "FD1", "F1", "FD2"}, {"F1", "FD1", "F1", ""}, {"F1", "", "F1", "FD1"}, {"F1", "FD1", "F1", "ED1"},
		{"F1", "ED1", "F1", "FD1"}, {"F1", "FD2", "F3", "FD2"}, {"F1", "FD1", "F1", "N2"}, {"F1", "FD1", "F1", "N1"}, {"F1", "FD1", "F1", "ZD1"}, {"F1", "ZD1", "F1", "FD1"}} {
		u := g.near[k%len(g.near)]
		k++
		emit(&hcase{Family: "overwrite", Ops: []*hop{g.set(u, p[0], p[1]), get(u), g.set(u, p[2], p[3]), get(u), g.set(u, p[0], p[1]), get(u)}})
	}

	// E2b. entries larger than a read buffer
	for i, p := range [][2]string{{"B1", ""}, {"B1", "BD1"}, {"F1", "BD1"}, {"B1", "ED1"}} {
		u, v := g.near[(i*5)%len(g.near)], g.near[(i*5+1)%len(g.near)]
		emit(&hcase{Family: "large", Ops: []*hop{g.set(u, p[0], p[1]), g.set(v, "F2", ""), get(u), on(1, get(u)), get(v), g.set(u, "F1", "FD1"), get(u)}})
	}

	// E3. one long-lived object, and two objects on the same root (two processes):
	// whatever an object remembers between calls must not change an answer
	instU := []string{u0, g.near[3], g.hostile[0], g.hostile[4], g.long[1], g.near[len(g.near)-1]}
	for i, u := range instU {
		v := g.near[(i+9)%len(g.near)]
		cor := g.corruptions(g.c("F2"), g.c("FD2"), rng.Fork(uint64(2_700_000+i)))
		bad := cor[(i*7)%len(cor)]
		for _, ops := range [][]*hop{
			// A then B
			{g.set(u, "F1", ""), on(1, get(u)), on(1, g.set(u, "F2", "FD1")), get(u), on(1, get(u))},
			// miss then hit: another object stores after this one saw nothing
			{get(u), get(u), on(1, g.set(u, "F1", "")), get(u), on(1, get(u))},
			// hit then miss: the other object stores an expired bundle / the file is removed
			{g.set(u, "F1", "FD1"), get(u), on(1, g.set(u, "E1", "")), get(u), on(1, g.set(u, "F3", "")), get(u)},
			{g.set(u, "F1", ""), get(u), get(u), del(u), get(u), on(1, get(u)), g.set(u, "F2", ""), on(1, get(u))},
			// delta present then absent then present, across objects and urls
			{g.set(u, "F1", "FD1"), g.set(v, "F2", ""), get(u), get(v), on(1, get(u)), on(1, get(v)), g.set(u, "F3", ""), get(u), get(v), on(1, g.set(v, "F1", "FD2")), get(v), get(u)},
			// pass then fail then pass: the file is corrupted and repaired under a live object
			{g.set(u, "F1", ""), get(u), put(u, bad.what, bad.content), get(u), on(1, get(u)), on(1, g.set(u, "F2", "")), get(u)},
			// fail then pass
			{put(u, bad.what, bad.content), get(u), on(1, get(u)), put(u, "valid:entry", canon(g.c("F3").Raw, g.c("FD1").Raw)), get(u), on(1, get(u))},
			// an entry appears without any Set of either object
			{get(u), on(1, get(u)), put(u, "valid:entry", canon(g.c("F2").Raw, nil)), get(u), on(1, get(u)), put(u, "valid:expired", canon(g.c("E1").Raw, nil)), get(u)},
			// a directory comes and goes
			{get(u), mkdir(u), get(u), on(1, g.set(u, "F1", "")), del(u), get(u), on(1, g.set(u, "F1", "")), get(u)},
			// the same bundle object handed to consecutive Sets of both objects and urls
			{g.set(u, "F1", "FD1"), on(1, g.set(v, "F1", "FD1")), get(u), get(v), g.set(u, "F1", "FD1"), on(1, get(u)), g.set(v, "F1", "N2"), g.set(u, "F1", "N2"), get(v), get(u)},
			// errors are not remembered either
			{g.set(u, "Z1", ""), get(u), g.set(u, "F1", "ZD1"), get(u), on(1, g.set(u, "F1", "")), get(u), setNil(u), get(u)},
		} {
			emit(&hcase{Family: "instances", Ops: ops})
		}
	}

	// F. random histories
	nRand := 950
	if thorough {
		nRand = 16000
	}
	for i := 0; i < nRand; i++ {
		r := rng.Fork(uint64(3_000_000 + i))
		nu := 2 + r.Intn(3)
		var us []string
		for len(us) < nu {
			us = append(us, g.randURL(r, all...))
		}
		if r.Chance(1, 2) {
			// near-identical pair
			a := r.Intn(len(g.near))
			us[0], us[1] = g.near[a], g.near[(a+1+r.Intn(len(g.near)-1))%len(g.near)]
		}
		var cors []corruption
		nops := 3 + r.Intn(10)
		var ops []*hop
		stored := map[string][2]string{}
		for len(ops) < nops {
			u := Pick(r, us)
			switch x := r.Intn(100); {
			case x < 40:
				o := g.randSet(r, u)
				if !o.NilB && o.Base != nil {
					dl := ""
					if o.Delta != nil {
						dl = o.Delta.Label
					}
					stored[u] = [2]string{o.Base.Label, dl}
				}
				ops = append(ops, o)
			case x < 75:
				ops = append(ops, get(u))
			case x < 87:
				if cors == nil {
					ent := [2]string{"F1", "FD1"}
					if s, ok := stored[u]; ok && g.c(s[0]).Kind != "N" && len(g.c(s[0]).Raw) > 150 {
						ent = s
						if ent[1] != "" && len(g.c(ent[1]).Raw) < 150 {
							ent[1] = ""
						}
					}
					cors = g.corruptions(g.c(ent[0]), g.c(ent[1]), r)
				}
				co := Pick(r, cors)
				ops = append(ops, put(u, co.what, co.content))
			case x < 94:
				ops = append(ops, del(u))
			default:
				ops = append(ops, mkdir(u))
			}
		}
		seen := map[string]bool{}
		for _, u := range us {
			if !seen[u] {
				seen[u] = true
				ops = append(ops, get(u))
			}
		}
		if i%2 == 1 {
			// every other history is spread over two objects on the same root
			for _, o := range ops {
				o.Inst = r.Intn(2)
			}
		}
		emit(&hcase{Family: "random", Ops: ops})
	}

	// G. entries that expire while the history runs (real clock)
	nSlow := 2
	if thorough {
		nSlow = 8
	}
	for rep := 0; rep < nSlow; rep++ {
		for sc := 0; sc < 8; sc++ {
			sc := sc
			deferCase(func(r *Rng) *hcase {
				s1 := g.e.ms(g.c("S1").RL.NextUpdate) + 25
				s2 := g.e.ms(g.c("S2").RL.NextUpdate) + 25
				u := g.randURL(r, g.near, g.hostile)
				v := g.randURL(r, g.near)
				for v == u {
					v = g.randURL(r, g.near)
				}
				var ops []*hop
				switch sc {
				case 0:
					ops = []*hop{g.set(u, "S1", ""), get(u), getAt(u, s1), get(v)}
				case 1:
					ops = []*hop{g.set(u, "F1", "SD1"), get(u), getAt(u, s1)}
				case 2:
					ops = []*hop{g.set(u, "S1", "FD1"), get(u), getAt(u, s1)}
				case 3:
					ops = []*hop{g.set(u, "S2", "SD1"), get(u), getAt(u, s1), getAt(u, s2)}
				case 4:
					ops = []*hop{g.set(u, "S1", "SD2"), get(u), getAt(u, s1), getAt(u, s2)}
				case 5:
					ops = []*hop{g.set(u, "F2", "SD1"), g.set(v, "F2", "FD1"), get(u), getAt(u, s1), get(v), g.set(u, "F2", "FD1"), get(u)}
				case 6:
					ops = []*hop{g.set(u, "S1", ""), g.set(v, "S2", ""), getAt(u, s1), get(v), getAt(v, s2), get(u)}
				default:
					ops = []*hop{g.set(u, "S1", "ZD1"), get(u), getAt(u, s1), g.set(u, "Z1", "SD2"), get(u), getAt(u, s2)}
				}
				return &hcase{Family: "expiring", Ops: ops}
			})
		}
	}

	// H. sizes: the verdict of a part must not depend on its size or on the size of the
	// other part (small ~0.2 kB, medium ~0.5 kB, big ~5 kB; fresh / expired / zero)
	k = 0
	for _, p := range [][2]string{{"F1", "EMD1"}, {"F1", "EBD1"}, {"M1", "ED1"}, {"M1", "EMD1"}, {"B1", "EBD1"}, {"B1", "EMD1"},
		{"EM1", ""}, {"EM1", "FD1"}, {"EM1", "MD1"}, {"EB1", ""}, {"EB1", "FD1"}, {"EB1", "BD1"}, {"E1", "BD1"}, {"E1", "MD1"},
		{"ZB1", ""}, {"ZB1", "FD1"}, {"M1", ""}, {"M1", "MD1"}, {"F1", "MD1"}, {"M1", "FD1"}} {
		u := g.near[(k*3)%len(g.near)]
		k++
		emit(&hcase{Family: "sizes", Ops: []*hop{g.set(u, p[0], p[1]), get(u), on(1, get(u)), g.set(u, "F1", ""), get(u)}})
	}

	// I. size ladder: Set / Get round trips of bundles as large as the library may fetch
	// (notation-core-go reads up to 32 MiB per CRL): whatever Set stored, Get must give back.
	// The entry on disk is JSON with base64 (4/3 of the raw size, base plus delta). Raw sizes:
	// quick 1 and 8 MiB, and an EXPIRED 8 MiB delta under a fresh 1 MiB base; thorough adds
	// 20, 26, 31 MiB bases and a 14 MiB base with a 14 MiB delta. Each CRL is minted once per
	// run (on first use); Coq sees "<big N bytes sha256 H>" for its bytes (main.go, bigT).
	ladder := [][2]string{{"L1", ""}, {"L8", ""}, {"L1", "EL8D"}, {"L8", "FD1"}}
	if thorough {
		ladder = append(ladder, [2]string{"L20", ""}, [2]string{"L26", ""}, [2]string{"L31", ""}, [2]string{"L14", "LD14"}, [2]string{"F1", "LD14"})
	}
	for i, p := range ladder {
		p := p
		u := g.near[(i*5+2)%len(g.near)]
		v := g.near[(i*5+3)%len(g.near)]
		emitLazy(func() *hcase {
			return &hcase{Family: "ladder", Ops: []*hop{g.set(u, p[0], p[1]), get(u), on(1, get(u)), get(v), g.set(u, "F1", ""), get(u), g.set(v, p[0], p[1]), on(1, get(v))}}
		})
	}

	// J. urls named INSIDE a CRL (Issuing Distribution Point, Freshest CRL, Authority Information
	// Access) never choose a cache key: iu = the url of the Set, iv = another url of the history,
	// iw = a url nobody stores. Every named url is read before and after; iv holds a genuine
	// bundle that must survive; the full-root listing after every operation does the rest.
	iu, iv, iw := g.near[0], g.near[3], g.near[20]
	extra := "http://crl.example.com/extra.crl"
	for _, x := range []string{"XS", "XO", "XN", "XH", "XM", "XF", "XA", "XALL", "XE"} {
		// stored before: iv's own bundle must still be answered, iw and the extra url stay misses
		emit(&hcase{Family: "named-urls", Ops: []*hop{g.set(iv, "F2", "FD1"), g.set(iu, x, ""), get(iv), get(iu), get(iw), get(extra), on(1, get(iv))}})
		// stored after, and the named url removed / overwritten afterwards
		emit(&hcase{Family: "named-urls", Ops: []*hop{g.set(iu, x, ""), get(iv), get(iw), g.set(iv, "F3", ""), get(iv), get(iu), del(iu), get(iv), get(iu)}})
	}
	for _, p := range [][2]string{{"F1", "XD"}, {"XO", "XD"}, {"F1", "XDE"}, {"XM", "FD1"}, {"XE", "XD"}} {
		emit(&hcase{Family: "named-urls", Ops: []*hop{g.set(iv, "F2", ""), g.set(iu, p[0], p[1]), get(iv), get(iu), get(iw), g.set(iw, p[0], p[1]), on(1, get(iw)), get(iv)}})
	}
	// the Set is refused or fails: nothing anywhere
	emit(&hcase{Family: "named-urls", Ops: []*hop{g.set(iv, "F2", ""), g.set(iu, "", "XD"), get(iv), get(iw), mkdir(iu), g.set(iu, "XM", ""), get(iv), get(iw), get(extra)}})
}

// ---------- accounting ----------

func (g *gen) isHostile(u string) bool {
	for _, h := range g.hostile {
		if h == u {
			return true
		}
	}
	return false
}

func (g *gen) account(w *CaseWriter, id int64, term string, hc *hcase) {
	touched := map[string]bool{}
	nontrivial := false
	var key bytes.Buffer
	key.WriteString(hc.Family)
	for _, o := range hc.Ops {
		fmt.Fprintf(&key, "|%d%s %q %v %s %s %s", o.Inst, o.K, o.U, o.NilB, o.BaseL, o.DeltaL, o.What)
		if o.K == "put" {
			fmt.Fprintf(&key, " %x", keyOf(string(o.Content)))
		}
		res := o.Res
		if i := strings.IndexByte(res, ':'); i >= 0 {
			res = res[:i]
		}
		if i := strings.IndexByte(res, ' '); i >= 0 {
			res = res[:i]
		}
		key.WriteString(" -> " + res)
		if g.isHostile(o.U) {
			nontrivial = true
		}
		switch o.K {
		case "get":
			if touched[o.U] {
				nontrivial = true
			}
			w.Count("get_result", res)
		case "set":
			touched[o.U] = true
			w.Count("set_result", res)
		case "put":
			touched[o.U] = true
			w.Count("corruption", strings.SplitN(o.What, ":", 2)[0])
		case "mkdir":
			touched[o.U] = true
		}
	}
	w.Count("family", hc.Family)
	w.Count("history_length", fmt.Sprint(len(hc.Ops)))
	if len(hc.Outside) > 0 {
		w.Count("outside_effects", "yes")
	}
	if len(hc.Panics) > 0 {
		w.Count("panic", "yes")
		w.ImplViolation(id, "FileCache panicked: "+hc.Panics[0], hc, "")
	}
	if len(hc.RootFrame) > 0 {
		w.Count("root_frame", "an operation changed the root entry of another key")
		w.ImplViolation(id, "FileCache changed an entry of the cache root that is not the entry of the url of the operation: "+hc.RootFrame[0], hc, "")
	}
	if len(hc.Frame) > 0 {
		w.Count("frame", "library mutated a caller-owned object")
		w.ImplViolation(id, "library mutated caller-owned Bundle / RevocationList passed to FileCache.Set: "+hc.Frame[0], hc, "")
	}
	w.Add(id, term, hc, key.String(), nontrivial)
}
