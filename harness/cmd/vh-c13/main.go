package main

// C13 driver: builds real directory trees, runs the real
// truststore.NewX509TrustStore(dir.NewSysFS(root)).GetCertificates on them and
// prints (input, observation) cases for C13_Model.
//
// The input handed to the model is read back from the operating system and
// the dependencies, not taken from how the tree was constructed:
//   - kinds and order of directory entries: os.Lstat / os.ReadDir / EvalSymlinks
//   - what a file holds: notation-core-go x509.ReadCertificateFile
//   - per certificate: IsCA, CheckSignature on itself, CheckSignatureFrom(itself),
//     RawSubject == RawIssuer (crypto/x509)

import (
	"bytes"
	"context"
	"crypto"
	"crypto/ecdsa"
	"crypto/ed25519"
	"crypto/elliptic"
	"crypto/rand"
	"crypto/rsa"
	"crypto/sha256"
	"crypto/x509"
	"crypto/x509/pkix"
	"encoding/json"
	"encoding/pem"
	"errors"
	"fmt"
	"math/big"
	"os"
	"os/exec"
	"path"
	"path/filepath"
	"sort"
	"strings"
	"sync"
	"syscall"
	"time"
	. "vh/kit"

	corex509 "github.com/notaryproject/notation-core-go/x509"
	"github.com/notaryproject/notation-go/dir"
	"github.com/notaryproject/notation-go/verifier/truststore"
)

func main() {
	if os.Getenv("VH_C13_CHILD") != "" {
		childMain()
		return
	}
	Main("c13", runC13)
}

// ---------- one call in a child process (a call that may never return) ----------

type childOut struct {
	Certs   [][]byte `json:"certs"`    // DER of the certificates returned
	NilList bool     `json:"nil_list"` // the returned slice was nil
	IsErr   bool     `json:"is_err"`
	Cls     string   `json:"cls"`
	Kind    string   `json:"kind"`
	Entry   string   `json:"entry"`
	Msg     string   `json:"msg"`
}

// childErr carries the classification made in the child.
type childErr struct{ o childOut }

func (e *childErr) Error() string { return e.o.Msg }

// childMain: VH_C13_CHILD=1 vh-c13 <root> <type> <name>; prints one JSON line.
func childMain() {
	root, ty, nm := os.Args[1], os.Args[2], os.Args[3]
	ts := truststore.NewX509TrustStore(dir.NewSysFS(root))
	certs, err := ts.GetCertificates(context.Background(), truststore.Type(ty), nm)
	o := childOut{NilList: certs == nil}
	for _, c := range certs {
		if c == nil {
			o.Certs = append(o.Certs, nil)
		} else {
			o.Certs = append(o.Certs, c.Raw)
		}
	}
	if err != nil {
		o.IsErr = true
		o.Cls, o.Kind, o.Entry = classify(err)
		o.Msg = err.Error()
	}
	b, _ := json.Marshal(o)
	os.Stdout.Write(append(b, '\n'))
}

// callInChild runs GetCertificates(root, ty, nm) in a re-executed child; hung reports
// that it did not return within the limit (the child is killed).
func callInChild(root, ty, nm string, limit time.Duration) (certs []*x509.Certificate, err error, hung bool) {
	ctx, cancel := context.WithTimeout(context.Background(), limit)
	defer cancel()
	cmd := exec.CommandContext(ctx, os.Args[0], root, ty, nm)
	cmd.Env = append(os.Environ(), "VH_C13_CHILD=1")
	out, runErr := cmd.Output()
	if ctx.Err() != nil {
		return nil, nil, true
	}
	if runErr != nil {
		panic(fmt.Sprintf("c13 child: %v: %s", runErr, out))
	}
	var o childOut
	if e := json.Unmarshal(out, &o); e != nil {
		panic(fmt.Sprintf("c13 child output: %v: %q", e, out))
	}
	if !o.NilList {
		certs = []*x509.Certificate{}
	}
	for _, der := range o.Certs {
		if der == nil {
			certs = append(certs, nil)
			continue
		}
		x, e := x509.ParseCertificate(der)
		if e != nil {
			panic(e)
		}
		certs = append(certs, x)
	}
	if o.IsErr {
		err = &childErr{o}
	}
	return certs, err, false
}

// ---------- certificate pool ----------

type pcert struct {
	label string
	der   []byte
	x     *x509.Certificate
	key   crypto.Signer
	// oracle facts
	ca, selfsig, sigfrom, subjiss bool
}

func (p *pcert) okCA() bool  { return p.ca || p.selfsig }
func (p *pcert) okTSA() bool { return p.okCA() && p.sigfrom && p.subjiss }

type pool struct {
	certs []*pcert
	byDER map[string]int // DER -> id (index+1)
}

var serial int64 = 7000

type mintSpec struct {
	cn       string
	issuerCN string // when set and parent == nil: issuer name differs from the subject although signed with the own key
	ca       bool
	noBC     bool // no basic constraints extension at all
	usage    x509.KeyUsage
	expired  bool
	key      crypto.Signer
}

func name(cn string) pkix.Name {
	return pkix.Name{CommonName: cn, Organization: []string{"Verif C13"}, Country: []string{"US"}, Province: []string{"WA"}}
}

func ecKey() crypto.Signer {
	k, err := ecdsa.GenerateKey(elliptic.P256(), rand.Reader)
	if err != nil {
		panic(err)
	}
	return k
}

// mint issues a certificate; parent == nil means signed with its own key.
// parentName overrides the issuer name taken from the parent.
func mint(s mintSpec, parent *pcert, parentName *pkix.Name) *pcert {
	key := s.key
	if key == nil {
		key = ecKey()
	}
	serial++
	nb, na := time.Now().Add(-24*time.Hour), time.Now().Add(240*time.Hour)
	if s.expired {
		nb, na = time.Now().Add(-1000*time.Hour), time.Now().Add(-900*time.Hour)
	}
	tpl := &x509.Certificate{SerialNumber: big.NewInt(serial), Subject: name(s.cn), NotBefore: nb, NotAfter: na,
		BasicConstraintsValid: !s.noBC, IsCA: s.ca && !s.noBC, KeyUsage: s.usage}
	if tpl.KeyUsage == 0 {
		if s.ca {
			tpl.KeyUsage = x509.KeyUsageCertSign
		} else {
			tpl.KeyUsage = x509.KeyUsageDigitalSignature
		}
	}
	var signer crypto.Signer = key
	parentTpl := tpl
	if parent != nil {
		signer = parent.key
		cp := *parent.x
		parentTpl = &cp
	}
	if s.issuerCN != "" {
		cp := *parentTpl
		cp.Subject = name(s.issuerCN)
		cp.RawSubject = nil
		parentTpl = &cp
	}
	if parentName != nil {
		cp := *parentTpl
		cp.Subject = *parentName
		cp.RawSubject = nil
		parentTpl = &cp
	}
	der, err := x509.CreateCertificate(rand.Reader, tpl, parentTpl, key.Public(), signer)
	if err != nil {
		panic(fmt.Sprintf("c13 mint %s: %v", s.cn, err))
	}
	x, err := x509.ParseCertificate(der)
	if err != nil {
		panic(err)
	}
	return &pcert{label: s.cn, der: der, x: x, key: key}
}

func facts(x *x509.Certificate) (ca, selfsig, sigfrom, subjiss bool) {
	ca = x.IsCA
	selfsig = x.CheckSignature(x.SignatureAlgorithm, x.RawTBSCertificate, x.Signature) == nil
	sigfrom = x.CheckSignatureFrom(x) == nil
	subjiss = bytes.Equal(x.RawSubject, x.RawIssuer)
	return
}

func newPool() *pool {
	p := &pool{byDER: map[string]int{}}
	add := func(c *pcert) *pcert {
		c.ca, c.selfsig, c.sigfrom, c.subjiss = facts(c.x)
		p.certs = append(p.certs, c)
		p.byDER[string(c.der)] = len(p.certs)
		return c
	}
	rootA := add(mint(mintSpec{cn: "rootA", ca: true}, nil, nil))
	add(mint(mintSpec{cn: "rootB", ca: true}, nil, nil))
	rk, err := rsa.GenerateKey(rand.Reader, 2048)
	if err != nil {
		panic(err)
	}
	add(mint(mintSpec{cn: "rootRSA", ca: true, key: rk}, nil, nil))
	_, ek, err := ed25519.GenerateKey(rand.Reader)
	if err != nil {
		panic(err)
	}
	add(mint(mintSpec{cn: "rootEd", ca: true, key: ek}, nil, nil))
	add(mint(mintSpec{cn: "rootExpired", ca: true, expired: true}, nil, nil))
	interA := add(mint(mintSpec{cn: "interA", ca: true}, rootA, nil))
	add(mint(mintSpec{cn: "inter2", ca: true}, interA, nil))
	add(mint(mintSpec{cn: "leafA"}, interA, nil))
	add(mint(mintSpec{cn: "leafRoot"}, rootA, nil))
	add(mint(mintSpec{cn: "selfLeaf"}, nil, nil))
	add(mint(mintSpec{cn: "selfLeafNoBC", noBC: true}, nil, nil))
	add(mint(mintSpec{cn: "caCrossName", ca: true, issuerCN: "someone else"}, nil, nil))
	// issuer name equal to the subject, signed by another key
	n1 := name("fakeSelfIssuedLeaf")
	add(mint(mintSpec{cn: "fakeSelfIssuedLeaf"}, rootA, &n1))
	n2 := name("fakeSelfIssuedCA")
	add(mint(mintSpec{cn: "fakeSelfIssuedCA", ca: true}, rootA, &n2))
	add(mint(mintSpec{cn: "caNoCertSign", ca: true, usage: x509.KeyUsageDigitalSignature}, nil, nil))
	return p
}

func (p *pool) pick(rng *Rng, pred func(*pcert) bool) *pcert {
	var c []*pcert
	for _, x := range p.certs {
		if pred(x) {
			c = append(c, x)
		}
	}
	return c[rng.Intn(len(c))]
}

func (p *pool) id(der []byte) int {
	if i, ok := p.byDER[string(der)]; ok {
		return i
	}
	// a certificate the pool does not know: intern it (facts asked from crypto/x509)
	x, err := x509.ParseCertificate(der)
	if err != nil {
		return 0
	}
	c := &pcert{label: "interned", der: der, x: x}
	c.ca, c.selfsig, c.sigfrom, c.subjiss = facts(x)
	p.certs = append(p.certs, c)
	p.byDER[string(der)] = len(p.certs)
	return len(p.certs)
}

// ---------- in-memory description of a tree to build ----------

type fnode struct {
	kind   byte // 'f' file, 'd' directory, 'l' symbolic link; outside the property's alphabet: 'p' FIFO (data = what a writer feeds), 's' socket, 'c' character device (null)
	data   []byte
	ents   map[string]*fnode
	target string // link target; a leading '@' stands for the scenario directory (parent of root)
	note   string
}

func newDir() *fnode                       { return &fnode{kind: 'd', ents: map[string]*fnode{}} }
func newFile(b []byte, note string) *fnode { return &fnode{kind: 'f', data: b, note: note} }
func newLink(t string) *fnode              { return &fnode{kind: 'l', target: t} }
func newFifo(b []byte, note string) *fnode { return &fnode{kind: 'p', data: b, note: note} }
func newSocket() *fnode                    { return &fnode{kind: 's'} }
func newNullDev() *fnode                   { return &fnode{kind: 'c'} }

// put places n at the slash-separated path below d, creating directories.
func (d *fnode) put(p string, n *fnode) {
	parts := strings.Split(p, "/")
	cur := d
	for i, c := range parts {
		if i == len(parts)-1 {
			cur.ents[c] = n
			return
		}
		nx, ok := cur.ents[c]
		if !ok || nx.kind != 'd' {
			nx = newDir()
			cur.ents[c] = nx
		}
		cur = nx
	}
}

func (d *fnode) mkdir(p string) *fnode {
	cur := d
	if p == "" {
		return cur
	}
	for _, c := range strings.Split(p, "/") {
		nx, ok := cur.ents[c]
		if !ok || nx.kind != 'd' {
			nx = newDir()
			cur.ents[c] = nx
		}
		cur = nx
	}
	return cur
}

// lookupDir reports whether the slash-separated path exists below d as a directory.
func (d *fnode) lookupDir(p string) (*fnode, bool) {
	cur := d
	for _, c := range strings.Split(p, "/") {
		nx, ok := cur.ents[c]
		if !ok || nx.kind != 'd' {
			return nil, false
		}
		cur = nx
	}
	return cur, true
}

// fifos records, per FIFO created, the bytes a writer will feed into it;
// unfed the FIFOs nobody will ever write to (a reader that opens one blocks for ever).
var fifos = map[string][]byte{}
var unfed = map[string]bool{}

func materialise(scn string, at string, n *fnode) error {
	switch n.kind {
	case 'f':
		return os.WriteFile(at, n.data, 0o644)
	case 'p':
		if n.note == "fifo-no-writer" {
			unfed[at] = true
		} else {
			fifos[at] = n.data
		}
		return syscall.Mkfifo(at, 0o644)
	case 's':
		return syscall.Mknod(at, syscall.S_IFSOCK|0o644, 0)
	case 'c':
		return syscall.Mknod(at, syscall.S_IFCHR|0o644, 1<<8|3) // the null device
	case 'l':
		t := n.target
		if strings.HasPrefix(t, "@") {
			t = filepath.Join(scn, t[1:])
		}
		return os.Symlink(t, at)
	default:
		if err := os.MkdirAll(at, 0o755); err != nil {
			return err
		}
		for k, c := range n.ents {
			if err := materialise(scn, filepath.Join(at, k), c); err != nil {
				return err
			}
		}
	}
	return nil
}

// ---------- reading a real tree back as a Gallina term ----------

type describer struct {
	p     *pool
	cache map[[32]byte][2]string
	short map[string]string // full mk_cert term -> name defined in the prelude
	certs int               // regular files holding at least one certificate
	x     bool              // describe with the constructors of C13_Special.xnode (FIFOs, sockets, devices allowed)
	tmp   string            // scratch directory (content of what a FIFO delivers is asked through a regular file)
}

// content asks notation-core-go what the file at pth holds: the Gallina term of
// type content and a text for the replay files.
func (d *describer) content(pth string) (term, text string) {
	b, err := os.ReadFile(pth)
	var key [32]byte
	if err == nil {
		key = sha256.Sum256(b)
		if v, ok := d.cache[key]; ok {
			if strings.HasPrefix(v[0], "(CCerts [") && v[0] != "(CCerts [])" {
				d.certs++
			}
			return v[0], v[1]
		}
	}
	certs, rerr := corex509.ReadCertificateFile(pth)
	if rerr != nil {
		term, text = "CErr", "unparsable"
	} else {
		items := make([]string, len(certs))
		labels := make([]string, len(certs))
		for i, c := range certs {
			id := d.p.id(c.Raw)
			ca, ss, sf, si := facts(c)
			items[i] = CApp("mk_cert", CN(int64(id)), CBool(ca), CBool(ss), CBool(sf), CBool(si))
			if short, ok := d.short[items[i]]; ok {
				items[i] = short // defined in the prelude as exactly this term
			}
			labels[i] = fmt.Sprintf("#%d %s", id, d.p.certs[id-1].label)
		}
		term = "(CCerts " + CList(items) + ")"
		text = "certs[" + strings.Join(labels, ", ") + "]"
	}
	if err == nil {
		d.cache[key] = [2]string{term, text}
	}
	if strings.HasPrefix(term, "(CCerts [") && term != "(CCerts [])" {
		d.certs++
	}
	return term, text
}

// ctor names a constructor of node (base alphabet) or xnode (larger alphabet).
func (d *describer) ctor(k string) string {
	if d.x {
		return "X" + k
	}
	return "N" + k
}

func (d *describer) node(pth, rel string, depth int, lines *[]string) string {
	fi, err := os.Lstat(pth)
	if err != nil {
		panic(fmt.Sprintf("c13 describe %s: %v", pth, err))
	}
	switch {
	case fi.Mode()&os.ModeSymlink != 0:
		tgt, err := filepath.EvalSymlinks(pth)
		if err != nil || depth > 6 {
			*lines = append(*lines, rel+" -> (dangling)")
			return "(" + d.ctor("Link") + " None)"
		}
		*lines = append(*lines, rel+" -> symlink, resolves to:")
		return "(" + d.ctor("Link") + " (Some " + d.node(tgt, rel+"@", depth+1, lines) + "))"
	case fi.IsDir():
		es, err := os.ReadDir(pth)
		if err != nil {
			panic(err)
		}
		if len(es) == 0 {
			*lines = append(*lines, rel+"/ (empty directory)")
		}
		items := make([]string, len(es))
		for i, e := range es {
			items[i] = CPair(CStr(e.Name()), d.node(filepath.Join(pth, e.Name()), rel+"/"+e.Name(), depth, lines))
		}
		return "(" + d.ctor("Dir") + " " + CList(items) + ")"
	case fi.Mode().IsRegular():
		term, text := d.content(pth)
		*lines = append(*lines, rel+": "+text)
		return "(" + d.ctor("File") + " " + term + ")"
	case d.x && fi.Mode()&os.ModeNamedPipe != 0:
		// what a read of the FIFO delivers is what the feeder writes: ask the parser about these bytes
		if unfed[pth] {
			// nobody writes: a read would never deliver anything; the content is immaterial to a
			// model that does not open the file (C13_x_other_content_irrelevant)
			*lines = append(*lines, rel+": FIFO, no writer (opening it for reading blocks for ever)")
			return "(XOther CErr)"
		}
		data, ok := fifos[pth]
		if !ok {
			panic("c13: FIFO without feeder data at " + pth)
		}
		tf := filepath.Join(d.tmp, "fifo-content")
		if err := os.WriteFile(tf, data, 0o644); err != nil {
			panic(err)
		}
		term, text := d.content(tf)
		*lines = append(*lines, rel+": FIFO, a writer feeds "+text)
		return "(XOther " + term + ")"
	case d.x && fi.Mode()&os.ModeSocket != 0:
		term, text := d.content(pth) // open(2) of a socket fails: the parser reports an error
		*lines = append(*lines, rel+": socket ("+text+")")
		return "(XOther " + term + ")"
	case d.x && fi.Mode()&os.ModeCharDevice != 0:
		term, text := d.content(pth) // the null device: an empty read
		*lines = append(*lines, rel+": character device null ("+text+")")
		return "(XOther " + term + ")"
	}
	panic("c13: unsupported file kind at " + pth)
}

// ---------- observation ----------

func classify(err error) (cls, kind, entry string) {
	if ce, ok := err.(*childErr); ok {
		return ce.o.Cls, ce.o.Kind, ce.o.Entry
	}
	switch err.(type) {
	case truststore.TrustStoreError, *truststore.TrustStoreError:
		cls = "ETrustStore"
	case truststore.CertificateError, *truststore.CertificateError:
		cls = "ECertificate"
	default:
		var te truststore.TrustStoreError
		var ce truststore.CertificateError
		switch {
		case errors.As(err, &te):
			cls = "ETrustStore"
		case errors.As(err, &ce):
			cls = "ECertificate"
		default:
			cls = "EOther"
		}
	}
	msg := err.Error()
	after := func(prefix string) string {
		rest := strings.TrimPrefix(msg, prefix)
		if i := strings.Index(rest, " in trust store "); i >= 0 {
			return rest[:i]
		}
		return rest
	}
	switch {
	case strings.HasPrefix(msg, "unsupported trust store type: "):
		kind = "KType"
	case strings.HasPrefix(msg, "trust store name needs to follow "):
		kind = "KName"
	case strings.HasPrefix(msg, "the trust store ") && strings.HasSuffix(msg, " does not exist"):
		kind = "KNotExist"
	case strings.HasPrefix(msg, "failed to access the trust store "):
		kind = "KAccess"
	case strings.HasPrefix(msg, "the trust store ") && strings.Contains(msg, " is not a regular directory"):
		kind = "KNotDir"
	case strings.HasPrefix(msg, "trusted certificate ") && strings.Contains(msg, " is not a regular file"):
		kind, entry = "KEntryKind", after("trusted certificate ")
	case strings.HasPrefix(msg, "failed to read the trusted certificate "):
		kind, entry = "KRead", after("failed to read the trusted certificate ")
	case strings.HasPrefix(msg, "failed to validate the trusted certificate "):
		kind, entry = "KValidate", after("failed to validate the trusted certificate ")
	case strings.HasPrefix(msg, "trusted certificate ") && strings.Contains(msg, " is invalid: "):
		kind, entry = "KNotRoot", after("trusted certificate ")
	case strings.HasPrefix(msg, "no x509 certificates were found in trust store "):
		kind = "KEmpty"
	default:
		kind = "KUnknown"
	}
	return
}

// ---------- scenarios ----------

// ctx: 0 = context.Background(); 's' = scripted context that reports done from its
// (after+1)-th poll on (after = 0: done from the first poll); 'c' = a real context
// cancelled before the call
type query struct{ ty, name string }

type ctxSpec struct {
	ctx   byte
	after int
}

// scriptCtx is a context.Context whose Err / Done report "deadline exceeded" after a given
// number of polls (each call of Err or Done is one poll). It never fires on its own:
// an implementation that polls its context between two files sees it become done at an
// exactly reproducible place of the scan.
type scriptCtx struct {
	mu    sync.Mutex
	after int
	polls int
	ch    chan struct{}
	open  bool
}

func newScriptCtx(after int) *scriptCtx {
	return &scriptCtx{after: after, ch: make(chan struct{}), open: true}
}

func (c *scriptCtx) poll() bool {
	c.mu.Lock()
	defer c.mu.Unlock()
	c.polls++
	done := c.polls > c.after
	if done && c.open {
		close(c.ch)
		c.open = false
	}
	return done
}
func (c *scriptCtx) Deadline() (time.Time, bool) { return time.Time{}, false }
func (c *scriptCtx) Done() <-chan struct{}       { c.poll(); return c.ch }
func (c *scriptCtx) Err() error {
	if c.poll() {
		return context.DeadlineExceeded
	}
	return nil
}
func (c *scriptCtx) Value(any) any { return nil }
func (c *scriptCtx) Polls() int {
	c.mu.Lock()
	defer c.mu.Unlock()
	return c.polls
}

type scenario struct {
	family  string
	root    *fnode
	outside *fnode // sibling of root (targets of links that leave the root); may be nil
	queries []query
	// history: further states of the same directory, queried one after the
	// other through the SAME X509TrustStore instance (root path unchanged)
	next []*scenario
	// as a later step of a history: files are rewritten in place (same names;
	// the directory itself is not touched, its modification time stays)
	inPlace bool
	// the tree holds FIFOs / sockets / devices (outside the property's alphabet):
	// described as C13_Special.xnode, judged by xmodel
	special bool
	// the call is made in a child process with a time limit (it may never return)
	child bool
	// family ctx: the context of each query (same length as queries)
	ctxs []ctxSpec
}

func (sc *scenario) steps() []*scenario { return append([]*scenario{sc}, sc.next...) }

func (sc *scenario) nq() int {
	n := 0
	for _, st := range sc.steps() {
		n += len(st.queries)
	}
	return n
}

type c13Case struct {
	Family string   `json:"family"`
	Type   string   `json:"store_type"`
	Name   string   `json:"store_name"`
	Tree   []string `json:"tree_below_root"`
	Obs    string   `json:"observed"`
	Step   string   `json:"history_step,omitempty"`
	Ctx    string   `json:"context,omitempty"`
}

type gen struct {
	rng     *Rng
	p       *pool
	nullDev bool // this process may create character device nodes
}

func pemBlock(typ string, der []byte) []byte {
	return pem.EncodeToMemory(&pem.Block{Type: typ, Bytes: der})
}

// encode writes the certificates in one of the supported file formats.
func (g *gen) encode(cs []*pcert) ([]byte, string) {
	var b bytes.Buffer
	f := g.rng.Intn(10)
	switch {
	case f < 4:
		for _, c := range cs {
			b.Write(pemBlock("CERTIFICATE", c.der))
		}
		return b.Bytes(), "pem"
	case f < 7:
		for _, c := range cs {
			b.Write(c.der)
		}
		return b.Bytes(), "der"
	case f == 7:
		b.WriteString("subject=some text in front of the first block\n\n")
		for _, c := range cs {
			b.Write(pemBlock("CERTIFICATE", c.der))
			b.WriteString("\n")
		}
		b.WriteString("trailing text\n")
		return b.Bytes(), "pem+text"
	case f == 8:
		for _, c := range cs {
			b.Write(pemBlock("TRUSTED THING", c.der)) // the block type is not looked at
		}
		return b.Bytes(), "pem-other-type"
	default:
		for _, c := range cs {
			b.WriteString(strings.ReplaceAll(string(pemBlock("CERTIFICATE", c.der)), "\n", "\r\n"))
		}
		return b.Bytes(), "pem-crlf"
	}
}

func okFor(ty string) func(*pcert) bool {
	if ty == "tsa" {
		return (*pcert).okTSA
	}
	return (*pcert).okCA
}

// goodFile: 1..3 certificates every one of which the store type accepts.
func (g *gen) goodFile(ty string) *fnode {
	n := 1
	if g.rng.Chance(1, 3) {
		n = 2 + g.rng.Intn(2)
	}
	cs := make([]*pcert, n)
	for i := range cs {
		cs[i] = g.p.pick(g.rng, okFor(ty))
	}
	b, f := g.encode(cs)
	return newFile(b, "good/"+f)
}

var badKinds = []string{"garbage", "empty", "whitespace", "pem-empty-block", "text", "truncated", "pem-garbage", "key", "cert+garbage", "badcert", "badcert-multi",
	"subdir-empty", "subdir-certs", "link-file-in", "link-file-out", "link-dangling", "link-dir", "tsa-nonroot", "tsa-nonroot-multi"}

// badEntry builds an entry that must make the whole store fail for type ty.
// It may add a link target to the scenario.
func (g *gen) badEntry(kind, ty string, sc *scenario, storeRel string) *fnode {
	rng := g.rng
	switch kind {
	case "garbage":
		b := make([]byte, 16+rng.Intn(80))
		for i := range b {
			b[i] = byte(rng.Intn(256))
		}
		if b[0] == 0x30 {
			b[0] = 0x31
		}
		return newFile(b, kind)
	case "empty":
		return newFile(nil, kind)
	case "whitespace":
		return newFile([]byte(Pick(rng, []string{"\n", " ", "\r\n\r\n", "\t\n"})), kind)
	case "pem-empty-block":
		return newFile([]byte("-----BEGIN CERTIFICATE-----\n-----END CERTIFICATE-----\n"), kind)
	case "text":
		return newFile([]byte("this is not a certificate\n"), kind)
	case "truncated":
		c := g.p.pick(rng, okFor(ty))
		return newFile(c.der[:len(c.der)/2], kind)
	case "pem-garbage":
		return newFile(pemBlock("CERTIFICATE", []byte("certainly not DER")), kind)
	case "key":
		k, _ := x509.MarshalPKCS8PrivateKey(ecKey())
		return newFile(pemBlock("PRIVATE KEY", k), kind)
	case "cert+garbage":
		c := g.p.pick(rng, okFor(ty))
		if rng.Bool() {
			return newFile(append(append([]byte{}, c.der...), 0x30, 0x03, 0x01), kind)
		}
		return newFile(append(pemBlock("CERTIFICATE", c.der), pemBlock("CERTIFICATE", []byte{1, 2, 3})...), kind)
	case "badcert":
		c := g.p.pick(rng, func(c *pcert) bool { return !c.okCA() })
		b, f := g.encode([]*pcert{c})
		return newFile(b, kind+"/"+f)
	case "badcert-multi":
		n := 2 + rng.Intn(2)
		cs := make([]*pcert, n)
		for i := range cs {
			cs[i] = g.p.pick(rng, okFor(ty))
		}
		cs[rng.Intn(n)] = g.p.pick(rng, func(c *pcert) bool { return !c.okCA() })
		b, f := g.encode(cs)
		return newFile(b, kind+"/"+f)
	case "tsa-nonroot": // acceptable to ca/signingAuthority, not a self-signed root
		c := g.p.pick(rng, func(c *pcert) bool { return c.okCA() && !c.okTSA() })
		b, f := g.encode([]*pcert{c})
		return newFile(b, kind+"/"+f)
	case "tsa-nonroot-multi":
		n := 2 + rng.Intn(2)
		cs := make([]*pcert, n)
		for i := range cs {
			cs[i] = g.p.pick(rng, (*pcert).okTSA)
		}
		cs[rng.Intn(n)] = g.p.pick(rng, func(c *pcert) bool { return c.okCA() && !c.okTSA() })
		b, f := g.encode(cs)
		return newFile(b, kind+"/"+f)
	case "subdir-empty":
		return newDir()
	case "subdir-certs":
		d := newDir()
		d.ents["inner.pem"] = g.goodFile(ty)
		return d
	case "link-file-in": // link to a good file elsewhere inside the root
		sc.root.put("elsewhere/target.pem", g.goodFile(ty))
		return newLink("@root/elsewhere/target.pem")
	case "link-file-out":
		if sc.outside == nil {
			sc.outside = newDir()
		}
		sc.outside.put("target.crt", g.goodFile(ty))
		return newLink("@outside/target.crt")
	case "link-dangling":
		return newLink("no-such-file.pem")
	case "link-dir":
		if sc.outside == nil {
			sc.outside = newDir()
		}
		sc.outside.put("dir/inner.pem", g.goodFile(ty))
		return newLink("@outside/dir")
	}
	panic("bad kind " + kind)
}

// badEntryFile: a bad entry of a kind that needs no link target.
func (g *gen) badEntryFile(kind string) *fnode {
	tmp := &scenario{root: newDir()}
	return g.badEntry(kind, "tsa", tmp, "")
}

func (g *gen) badKindFor(ty string) string {
	for {
		k := Pick(g.rng, badKinds)
		if strings.HasPrefix(k, "tsa-") && ty != "tsa" {
			continue
		}
		return k
	}
}

var fileNames = []string{"a.pem", "b.crt", "root.cer", "0", "Z.der", ".hidden", "x y.pem", "\xc3\xbcni.crt", "-", "cert", "~tmp", "#a#", "CA.PEM", "m.p7b", "zz", "1.crt", "_", "..pem", "ca-bundle.crt", "README"}

func (g *gen) names(k int) []string {
	seen := map[string]bool{}
	var out []string
	for len(out) < k {
		n := Pick(g.rng, fileNames)
		if !seen[n] {
			seen[n] = true
			out = append(out, n)
		}
	}
	sort.Strings(out)
	return out
}

var validTypes = []string{"ca", "signingAuthority", "tsa"}
var plainNames = []string{"web", "my.store-1_x", "...", "a..b", ".hidden", "-", "_", "-rf", "UPPER.lower-09_", "..a", "a.", "0", "x509", "ca", "tsa", "....", ".a.", "--", "Web", "WEB",
	"aaaaaaaaaaaaaaaaaaaaaaaaaaaaaaaaaaaaaaaaaaaaaaaaaaaaaaaaaaaaaaaaaaaaaaaaaaaaaaaaaaaaaaaaaaaaaaaaaaaaaaaaaaaaaaaaaaaaaaaaaaaaaaaaaaaaaaaaaaaaaaaaaaaaaa"}

// names that are not plain file names; those without '/' can exist as directories
var oddNames = []string{"we b", "w\xc3\xa9b", "web\n", "a\\b", "web:1", "*", "web ", " web", "a+b", "~", "caf\xc3\xa9", "web\t", "@", "a,b", "(x)", "web\r\n", "\xff\xfe"}
var invalidTypes = []string{"", "CA", "Ca", "x509", "signingauthority", "tsa ", " ca", ".", "..", "ca/", "ca/sub", "../x509/ca", "TSA", "ca\n", "root", "signingAuthority/", "./tsa", "truststore"}

// store builds a directory of k good entries for ty below sc.root at rel.
func (g *gen) goodStore(sc *scenario, rel, ty string, k int) {
	d := sc.root.mkdir(rel)
	for _, n := range g.names(k) {
		d.ents[n] = g.goodFile(ty)
	}
}

func storeRel(ty, name string) string { return "truststore/x509/" + ty + "/" + name }

// wouldBe is the path an implementation without validation would read
// (what path.Join makes of the elements); "" when it leaves the root or
// cannot be created.
func wouldBe(ty, name string) string {
	p := path.Join("truststore", "x509", ty, name)
	if p == ".." || strings.HasPrefix(p, "../") || strings.ContainsAny(p, "\x00") {
		return ""
	}
	for _, c := range strings.Split(p, "/") {
		if len(c) > 255 {
			return ""
		}
	}
	return p
}

func (g *gen) scenarios(tier string, emit func(*scenario)) {
	rng := g.rng
	mult := 1
	if tier == "thorough" {
		mult = 12
	}
	// F1: valid stores of every type, 1..4 entries
	for r := 0; r < 8*mult; r++ {
		for _, ty := range validTypes {
			for k := 1; k <= 4; k++ {
				sc := &scenario{family: "valid", root: newDir()}
				nm := Pick(rng, plainNames)
				g.goodStore(sc, storeRel(ty, nm), ty, k)
				sc.queries = []query{{ty, nm}}
				if r%4 == 0 {
					// the same name under the other types does not exist
					for _, t2 := range validTypes {
						if t2 != ty {
							sc.queries = append(sc.queries, query{t2, nm})
						}
					}
				}
				emit(sc)
			}
		}
	}
	// F2: one bad entry at every position among k entries, every bad kind
	for r := 0; r < 1*mult; r++ {
		for _, ty := range validTypes {
			for _, kind := range badKinds {
				if strings.HasPrefix(kind, "tsa-") && ty != "tsa" {
					continue
				}
				for k := 1; k <= 4; k++ {
					for pos := 0; pos < k; pos++ {
						sc := &scenario{family: "one-bad:" + kind, root: newDir()}
						nm := Pick(rng, plainNames)
						d := sc.root.mkdir(storeRel(ty, nm))
						for i, n := range g.names(k) {
							if i == pos {
								d.ents[n] = g.badEntry(kind, ty, sc, storeRel(ty, nm))
							} else {
								d.ents[n] = g.goodFile(ty)
							}
						}
						sc.queries = []query{{ty, nm}}
						emit(sc)
					}
				}
			}
		}
	}
	// F2b: a store good for ca/signingAuthority holding non-roots, asked under every type
	// (the same files are placed under all three types)
	for r := 0; r < 12*mult; r++ {
		sc := &scenario{family: "same-files-all-types", root: newDir()}
		nm := Pick(rng, plainNames)
		k := 1 + rng.Intn(3)
		names := g.names(k)
		files := make([]*fnode, k)
		for i := range files {
			if rng.Chance(1, 2) {
				files[i] = g.goodFile("tsa")
			} else {
				files[i] = g.goodFile("ca")
			}
		}
		for _, ty := range validTypes {
			d := sc.root.mkdir(storeRel(ty, nm))
			for i, n := range names {
				d.ents[n] = files[i]
			}
			sc.queries = append(sc.queries, query{ty, nm})
		}
		emit(sc)
	}
	// F3: what the store path itself is
	storeKinds := []string{"link-to-dir-in", "link-to-dir-out", "link-relative", "link-dangling", "file", "absent", "empty-dir", "type-absent", "type-is-file",
		"type-is-link", "x509-is-file", "nothing", "truststore-is-link", "link-to-link"}
	for r := 0; r < 3*mult; r++ {
		for _, ty := range validTypes {
			for _, sk := range storeKinds {
				sc := &scenario{family: "store:" + sk, root: newDir()}
				nm := Pick(rng, plainNames)
				rel := storeRel(ty, nm)
				switch sk {
				case "link-to-dir-in":
					g.goodStore(sc, "truststore/x509/"+ty+"/real-one", ty, 1+rng.Intn(3))
					sc.root.put(rel, newLink("@root/truststore/x509/"+ty+"/real-one"))
					sc.queries = append(sc.queries, query{ty, "real-one"})
				case "link-relative":
					g.goodStore(sc, "truststore/x509/"+ty+"/real-one", ty, 1+rng.Intn(3))
					sc.root.put(rel, newLink("real-one"))
				case "link-to-dir-out":
					sc.outside = newDir()
					d := sc.outside.mkdir("certs")
					for _, n := range g.names(1 + rng.Intn(3)) {
						d.ents[n] = g.goodFile(ty)
					}
					sc.root.put(rel, newLink("@outside/certs"))
				case "link-to-link":
					g.goodStore(sc, "truststore/x509/"+ty+"/real-one", ty, 1+rng.Intn(2))
					sc.root.put("truststore/x509/"+ty+"/hop", newLink("real-one"))
					sc.root.put(rel, newLink("hop"))
				case "link-dangling":
					sc.root.put(rel, newLink("nowhere"))
				case "file":
					sc.root.put(rel, g.goodFile(ty))
				case "absent":
					g.goodStore(sc, "truststore/x509/"+ty+"/other-store", ty, 1)
				case "empty-dir":
					sc.root.mkdir(rel)
				case "type-absent":
					other := validTypes[(indexOf(validTypes, ty)+1)%3]
					g.goodStore(sc, storeRel(other, nm), other, 1)
				case "type-is-file":
					sc.root.put("truststore/x509/"+ty, g.goodFile(ty))
				case "type-is-link": // a link in the middle of the path is followed by the kernel
					sc.outside = newDir()
					d := sc.outside.mkdir("types/" + nm)
					for _, n := range g.names(1 + rng.Intn(2)) {
						d.ents[n] = g.goodFile(ty)
					}
					sc.root.put("truststore/x509/"+ty, newLink("@outside/types"))
				case "truststore-is-link":
					sc.outside = newDir()
					d := sc.outside.mkdir("ts/x509/" + ty + "/" + nm)
					for _, n := range g.names(1 + rng.Intn(2)) {
						d.ents[n] = g.goodFile(ty)
					}
					sc.root.put("truststore", newLink("@outside/ts"))
				case "x509-is-file":
					sc.root.put("truststore/x509", g.goodFile(ty))
				case "nothing":
				}
				sc.queries = append(sc.queries, query{ty, nm})
				emit(sc)
			}
		}
	}
	// F4: names that are not plain; a good store sits where an unvalidated path would lead
	for r := 0; r < 2*mult; r++ {
		for _, ty := range validTypes {
			base := Pick(rng, plainNames[:6])
			cands := []string{".", "..", "", "a/b", base + "/", "/" + base, "./" + base, base + "/.", base + "/../" + base, "../" + ty + "/" + base,
				"../../x509/" + ty + "/" + base, "..//" + base, base + "\x00", "../" + validTypes[(indexOf(validTypes, ty)+1)%3] + "/" + base, "a/b/c", "/"}
			cands = append(cands, oddNames...)
			for _, nm := range cands {
				sc := &scenario{family: "name-not-plain", root: newDir()}
				if wb := wouldBe(ty, nm); wb != "" {
					g.goodStore(sc, wb, ty, 1+rng.Intn(2))
				} else {
					g.goodStore(sc, storeRel(ty, base), ty, 1)
				}
				sc.queries = []query{{ty, nm}}
				if nm == "a/b" {
					sc.queries = append(sc.queries, query{ty, "a"}) // plain name, but its only entry is a directory
				}
				emit(sc)
			}
		}
	}
	// F4b: the dot names with certificates directly in the type directory and in x509/ (F11)
	for r := 0; r < 4*mult; r++ {
		for _, ty := range validTypes {
			sc := &scenario{family: "dot-names", root: newDir()}
			d := sc.root.mkdir("truststore/x509/" + ty)
			for _, n := range g.names(1 + rng.Intn(3)) {
				d.ents[n] = g.goodFile(ty)
			}
			sc.queries = []query{{ty, "."}, {ty, ""}, {ty, "./"}, {ty, "x/.."}}
			emit(sc)
			sc = &scenario{family: "dot-names", root: newDir()}
			d = sc.root.mkdir("truststore/x509")
			for _, n := range g.names(1 + rng.Intn(3)) {
				d.ents[n] = g.goodFile(ty)
			}
			sc.queries = []query{{ty, ".."}, {ty, "../"}, {ty, "../."}, {ty, "..."}}
			emit(sc)
		}
	}
	// F5: store types that are not known; a good store sits where the path would lead
	for r := 0; r < 2*mult; r++ {
		for _, ty := range invalidTypes {
			sc := &scenario{family: "type-unknown", root: newDir()}
			nm := Pick(rng, plainNames[:6])
			if r%2 == 1 && rng.Chance(1, 3) {
				nm = Pick(rng, []string{".", "..", "a/b", ""})
			}
			if wb := wouldBe(ty, nm); wb != "" && wb != "." {
				g.goodStore(sc, wb, Pick(rng, validTypes), 1+rng.Intn(2))
			}
			sc.queries = []query{{ty, nm}}
			emit(sc)
		}
	}
	// F7: histories — ONE X509TrustStore instance, the directory changes between calls
	// (a result remembered from an earlier call would be wrong for the later state)
	histBad := []string{"garbage", "empty", "badcert", "subdir-empty"}
	for r := 0; r < 1*mult; r++ {
		for _, ty := range validTypes {
			nm := Pick(rng, plainNames[:6])
			other := Pick(rng, []string{"other", "second.store", "B"})
			mk := func(fam string, stores ...map[string]*fnode) *scenario {
				// stores[0] -> (ty,nm), stores[1] -> (ty,other); nil = absent
				st := &scenario{family: fam, root: newDir()}
				for i, ents := range stores {
					if ents == nil {
						continue
					}
					d := st.root.mkdir(storeRel(ty, []string{nm, other}[i]))
					for k, v := range ents {
						d.ents[k] = v
					}
				}
				st.queries = []query{{ty, nm}}
				return st
			}
			chain := func(steps ...*scenario) *scenario {
				steps[0].next = steps[1:]
				return steps[0]
			}
			gA, gB, gC := g.goodFile(ty), g.goodFile(ty), g.goodFile(ty)
			for _, bk := range histBad {
				tmp := &scenario{root: newDir()}
				bad := g.badEntry(bk, ty, tmp, "")
				// pass, fail, pass
				emit(chain(mk("history:pass-fail-pass", map[string]*fnode{"a.pem": gA, "m.crt": gB}),
					mk("history:pass-fail-pass", map[string]*fnode{"a.pem": gA, "b-new": bad, "m.crt": gB}),
					mk("history:pass-fail-pass", map[string]*fnode{"a.pem": gA, "m.crt": gB})))
				// fail, pass, fail (the offending entry first, then last)
				emit(chain(mk("history:fail-pass-fail", map[string]*fnode{"0bad": bad, "a.pem": gA}),
					mk("history:fail-pass-fail", map[string]*fnode{"a.pem": gA}),
					mk("history:fail-pass-fail", map[string]*fnode{"a.pem": gA, "zbad": bad})))
			}
			if ty == "tsa" {
				tmp := &scenario{root: newDir()}
				nr := g.badEntry("tsa-nonroot", ty, tmp, "")
				emit(chain(mk("history:pass-fail-pass", map[string]*fnode{"a.pem": gA}),
					mk("history:pass-fail-pass", map[string]*fnode{"a.pem": gA, "n.pem": nr}),
					mk("history:pass-fail-pass", map[string]*fnode{"a.pem": gA})))
			}
			// the certificates change: A, then B and C, then C alone, then nothing, then A
			emit(chain(mk("history:content-changes", map[string]*fnode{"a.pem": gA}),
				mk("history:content-changes", map[string]*fnode{"a.pem": gB, "c.pem": gC}),
				mk("history:content-changes", map[string]*fnode{"c.pem": gC}),
				mk("history:content-changes", map[string]*fnode{}),
				mk("history:content-changes", map[string]*fnode{"a.pem": gA})))
			// files rewritten in place: the directory listing and its modification time do not change
			for _, bk := range []string{"garbage", "badcert"} {
				bad := g.badEntryFile(bk)
				p1 := mk("history:rewritten-in-place", map[string]*fnode{"a.pem": gA, "b.pem": gB})
				p2 := mk("history:rewritten-in-place", map[string]*fnode{"a.pem": gA, "b.pem": bad})
				p3 := mk("history:rewritten-in-place", map[string]*fnode{"a.pem": gC, "b.pem": gA})
				p4 := mk("history:rewritten-in-place", map[string]*fnode{"a.pem": bad, "b.pem": gA})
				p5 := mk("history:rewritten-in-place", map[string]*fnode{"a.pem": gB, "b.pem": gB})
				p2.inPlace, p3.inPlace, p4.inPlace, p5.inPlace = true, true, true, true
				emit(chain(p1, p2, p3, p4, p5))
			}
			// the store disappears and comes back; another store is asked in between
			s1 := mk("history:store-comes-and-goes", map[string]*fnode{"a.pem": gA}, map[string]*fnode{"b.pem": gB})
			s1.queries = []query{{ty, nm}, {ty, other}, {ty, nm}}
			s2 := mk("history:store-comes-and-goes", nil, map[string]*fnode{"b.pem": gB})
			s2.queries = []query{{ty, nm}, {ty, other}}
			s3 := mk("history:store-comes-and-goes", map[string]*fnode{"c.pem": gC}, nil)
			s3.queries = []query{{ty, other}, {ty, nm}}
			emit(chain(s1, s2, s3))
			// the store becomes a symbolic link to a directory with the same files, then a file, then real again
			l1 := mk("history:store-becomes-link", map[string]*fnode{"a.pem": gA})
			l2 := &scenario{family: "history:store-becomes-link", root: newDir(), outside: newDir()}
			l2.outside.put("moved/a.pem", gA)
			l2.root.put(storeRel(ty, nm), newLink("@outside/moved"))
			l2.queries = []query{{ty, nm}}
			l3 := &scenario{family: "history:store-becomes-link", root: newDir()}
			l3.root.put(storeRel(ty, nm), gA)
			l3.queries = []query{{ty, nm}}
			l4 := mk("history:store-becomes-link", map[string]*fnode{"a.pem": gA})
			emit(chain(l1, l2, l3, l4))
			// an entry becomes a symbolic link to the file it was
			e1 := mk("history:entry-becomes-link", map[string]*fnode{"a.pem": gA, "b.pem": gB})
			e2 := mk("history:entry-becomes-link", map[string]*fnode{"a.pem": gA, "b.pem": newLink("@outside/b.pem")})
			e2.outside = newDir()
			e2.outside.put("b.pem", gB)
			emit(chain(e1, e2, mk("history:entry-becomes-link", map[string]*fnode{"a.pem": gA, "b.pem": gB})))
			// the same name under another type, one instance: files good for ca only
			t2 := validTypes[(indexOf(validTypes, ty)+1)%3]
			x1 := &scenario{family: "history:same-name-other-type", root: newDir()}
			nrf := g.badEntryFile("tsa-nonroot")
			x1.root.put(storeRel(ty, nm)+"/a.pem", g.goodFile("tsa"))
			x1.root.put(storeRel(t2, nm)+"/a.pem", nrf)
			x1.queries = []query{{ty, nm}, {t2, nm}, {ty, nm}, {"tsa", nm}}
			emit(x1)
		}
	}
	// F8: names and types one normalisation away from a valid one (trimmed, case-folded,
	// last / first path element, cleaned): loadable stores sit at every place a normalising
	// implementation would read
	type near struct {
		q     string
		lands []string
		noLit bool // nothing is placed at the literal path of q
	}
	for r := 0; r < 1*mult; r++ {
		for _, ty := range validTypes {
			base := Pick(rng, []string{"web", "Store-1", "my.store"})
			up, low := strings.ToUpper(base), strings.ToLower(base)
			nears := []near{
				{" " + base, []string{base}, false}, {base + " ", []string{base}, false}, {base + "\n", []string{base}, false}, {base + "\t", []string{base}, false},
				{base + "\r\n", []string{base}, false}, {"\t" + base + " ", []string{base}, false},
				{up, []string{low}, true}, {low, []string{up}, true}, {strings.Title(low), []string{low, up}, true},
				{"sub/" + base, []string{base}, false}, {"sub/" + base, []string{"sub"}, false}, {base + "/sub", []string{base}, false},
				{base + "/", []string{base}, false}, {"/" + base, []string{base}, false}, {"./" + base, []string{base}, false}, {base + "/.", []string{base}, false},
				{base + "\x00", []string{base}, false}, {base + "\x00.pem", []string{base}, false}, {base + ".", []string{base}, true}, {"." + base, []string{base}, true},
				{base + "*", []string{base}, false}, {"\"" + base + "\"", []string{base}, false}, {base + ",other", []string{base, "other"}, false},
				{"%2e%2e", []string{"other"}, false}, {base + "%20", []string{base}, false},
			}
			for _, n := range nears {
				sc := &scenario{family: "near-name", root: newDir()}
				var placed []string
				cands := append([]string{}, n.lands...)
				if !n.noLit {
					cands = append(cands, n.q)
				}
			place:
				for _, l := range cands {
					wb := wouldBe(ty, l)
					if wb == "" || !strings.HasPrefix(wb, "truststore/x509/"+ty+"/") {
						continue
					}
					for _, pl := range placed {
						if wb == pl || strings.HasPrefix(wb, pl+"/") || strings.HasPrefix(pl, wb+"/") {
							continue place
						}
					}
					g.goodStore(sc, wb, ty, 1+rng.Intn(2))
					placed = append(placed, wb)
				}
				sc.queries = []query{{ty, n.q}}
				emit(sc)
			}
			nm := Pick(rng, plainNames[:2])
			canon := map[string]string{"ca": "CA", "signingAuthority": "SigningAuthority", "tsa": "Tsa"}[ty]
			for _, qt := range []string{" " + ty, ty + " ", ty + "\n", "\t" + ty, strings.ToUpper(ty), strings.ToLower(ty) + "", canon, ty + "/", "/" + ty, "./" + ty,
				ty + "/.", "x/../" + ty, ty + "\x00", ty + "s", "x509/" + ty, ty + "," + ty, "\"" + ty + "\""} {
				if qt == ty {
					continue
				}
				sc := &scenario{family: "near-type", root: newDir()}
				g.goodStore(sc, storeRel(ty, nm), ty, 1+rng.Intn(2))
				if wb := wouldBe(qt, nm); wb != "" && wb != storeRel(ty, nm) && !strings.HasPrefix(storeRel(ty, nm), wb+"/") && !strings.HasPrefix(wb, storeRel(ty, nm)+"/") {
					g.goodStore(sc, wb, ty, 1)
				}
				sc.queries = []query{{qt, nm}}
				emit(sc)
			}
		}
	}
	// F9: entries with names a "clean-up" would skip (hidden, backup, readme, unknown
	// extension): as the offending entry, as one good file among others, as the only files
	skipNames := []string{".hidden", ".DS_Store", ".gitkeep", "README", "notes.txt", "cert.pem.bak", "~tmp", "Thumbs.db", "ca.PEM", "noext", "x.p7b", "x.key"}
	for r := 0; r < 1*mult; r++ {
		for _, ty := range validTypes {
			nm := Pick(rng, plainNames[:6])
			for _, sn := range skipNames {
				for v := 0; v < 4; v++ {
					sc := &scenario{family: "skippable-entry-name", root: newDir()}
					d := sc.root.mkdir(storeRel(ty, nm))
					switch v {
					case 0: // offending file with that name among good ones
						d.ents["a.pem"], d.ents["z.crt"] = g.goodFile(ty), g.goodFile(ty)
						d.ents[sn] = g.badEntry(Pick(rng, []string{"garbage", "empty", "text", "badcert"}), ty, sc, "")
					case 1: // good file with that name among good ones: its certificates belong to the result
						d.ents["a.pem"], d.ents["z.crt"] = g.goodFile(ty), g.goodFile(ty)
						d.ents[sn] = g.goodFile(ty)
					case 2: // the only file
						d.ents[sn] = g.goodFile(ty)
					case 3: // a directory or a link with that name
						d.ents["a.pem"] = g.goodFile(ty)
						if rng.Bool() {
							d.ents[sn] = newDir()
						} else {
							d.ents[sn] = g.badEntry("link-file-out", ty, sc, "")
						}
					}
					sc.queries = []query{{ty, nm}}
					emit(sc)
				}
			}
		}
	}
	// F10: the unacceptable certificate at every position inside a multi-certificate file,
	// that file first and last among the entries
	for r := 0; r < 1*mult; r++ {
		for _, ty := range validTypes {
			preds := []func(*pcert) bool{func(c *pcert) bool { return !c.okCA() }}
			if ty == "tsa" {
				preds = append(preds, func(c *pcert) bool { return c.okCA() && !c.okTSA() })
			}
			for pi, pred := range preds {
				for n := 2; n <= 4; n++ {
					for pos := 0; pos < n; pos++ {
						for _, fileFirst := range []bool{true, false} {
							sc := &scenario{family: "cert-position", root: newDir()}
							nm := Pick(rng, plainNames[:6])
							cs := make([]*pcert, n)
							for i := range cs {
								cs[i] = g.p.pick(rng, okFor(ty))
							}
							cs[pos] = g.p.pick(rng, pred)
							b, f := g.encode(cs)
							d := sc.root.mkdir(storeRel(ty, nm))
							if fileFirst {
								d.ents["a-multi"] = newFile(b, fmt.Sprintf("bad%d@%d/%s", pi, pos, f))
								d.ents["b.pem"] = g.goodFile(ty)
							} else {
								d.ents["a.pem"] = g.goodFile(ty)
								d.ents["z-multi"] = newFile(b, fmt.Sprintf("bad%d@%d/%s", pi, pos, f))
							}
							sc.queries = []query{{ty, nm}}
							emit(sc)
						}
					}
				}
			}
		}
	}
	// F11: entries that are neither regular files nor directories nor links (outside the
	// property's alphabet; C13_Special): a FIFO fed by a writer with a good certificate /
	// garbage / nothing / an unacceptable certificate, a socket, the null device - at every
	// position among 1-3 entries; the store path or the type directory being such a file
	specialKinds := []string{"fifo-good", "fifo-garbage", "fifo-empty", "fifo-badcert", "socket"}
	if g.nullDev {
		specialKinds = append(specialKinds, "chardev-null")
	}
	for r := 0; r < 1*mult; r++ {
		for _, ty := range validTypes {
			kinds := specialKinds
			if ty == "tsa" {
				kinds = append(append([]string{}, kinds...), "fifo-nonroot")
			}
			mkSpecial := func(kind string) *fnode {
				switch kind {
				case "fifo-good":
					c := g.p.pick(rng, okFor(ty))
					return newFifo(pemBlock("CERTIFICATE", c.der), kind)
				case "fifo-garbage":
					return newFifo([]byte("not a certificate at all\n"), kind)
				case "fifo-empty":
					return newFifo(nil, kind)
				case "fifo-badcert":
					c := g.p.pick(rng, func(c *pcert) bool { return !c.okCA() })
					return newFifo(c.der, kind)
				case "fifo-nonroot":
					c := g.p.pick(rng, func(c *pcert) bool { return c.okCA() && !c.okTSA() })
					return newFifo(pemBlock("CERTIFICATE", c.der), kind)
				case "socket":
					return newSocket()
				case "chardev-null":
					return newNullDev()
				}
				panic("special kind " + kind)
			}
			for _, kind := range kinds {
				for k := 1; k <= 3; k++ {
					for pos := 0; pos < k; pos++ {
						sc := &scenario{family: "special-entry:" + kind, root: newDir(), special: true}
						nm := Pick(rng, plainNames[:6])
						d := sc.root.mkdir(storeRel(ty, nm))
						for i, n := range g.names(k) {
							if i == pos {
								d.ents[n] = mkSpecial(kind)
							} else {
								d.ents[n] = g.goodFile(ty)
							}
						}
						sc.queries = []query{{ty, nm}}
						emit(sc)
					}
				}
			}
			// a FIFO nobody writes to, at every position among 1-3 entries, and before an entry that
			// fails for another reason: the call must return (refusing the FIFO for its kind)
			for k := 1; k <= 3; k++ {
				for pos := 0; pos <= k; pos++ {
					sc := &scenario{family: "special-entry:fifo-no-writer", root: newDir(), special: true, child: true}
					nm := Pick(rng, plainNames[:6])
					d := sc.root.mkdir(storeRel(ty, nm))
					names := g.names(k)
					for i, n := range names {
						switch {
						case i == pos || (pos == k && i == 0):
							d.ents[n] = newFifo(nil, "fifo-no-writer")
						case pos == k && i == k-1:
							d.ents[n] = g.badEntryFile("garbage")
						default:
							d.ents[n] = g.goodFile(ty)
						}
					}
					sc.queries = []query{{ty, nm}}
					emit(sc)
				}
			}
			// two FIFOs in one store, both delivering good certificates
			{
				sc := &scenario{family: "special-entry:two-fifos", root: newDir(), special: true}
				nm := Pick(rng, plainNames[:6])
				d := sc.root.mkdir(storeRel(ty, nm))
				d.ents["a.fifo"], d.ents["m.pem"], d.ents["z.fifo"] = mkSpecial("fifo-good"), g.goodFile(ty), mkSpecial("fifo-good")
				sc.queries = []query{{ty, nm}}
				emit(sc)
			}
			// the store path / the type directory is a FIFO or a socket
			for _, kind := range []string{"fifo-good", "socket"} {
				sc := &scenario{family: "special-entry:store-is-" + kind, root: newDir(), special: true}
				nm := Pick(rng, plainNames[:6])
				g.goodStore(sc, storeRel(ty, "other"), ty, 1)
				sc.root.put(storeRel(ty, nm), mkSpecial(kind))
				sc.queries = []query{{ty, nm}, {ty, "other"}}
				emit(sc)
				sc = &scenario{family: "special-entry:type-is-" + kind, root: newDir(), special: true}
				sc.root.put("truststore/x509/"+ty, mkSpecial(kind))
				sc.queries = []query{{ty, nm}}
				emit(sc)
			}
		}
	}
	// F6: randomly assembled trees, every store asked, plus names that are not there
	nrand := 260 * mult
	for r := 0; r < nrand; r++ {
		sc := &scenario{family: "random", root: newDir()}
		for _, ty := range validTypes {
			ns := rng.Intn(3)
			for s := 0; s < ns; s++ {
				nm := Pick(rng, plainNames)
				d := sc.root.mkdir(storeRel(ty, nm))
				k := rng.Intn(5)
				for _, n := range g.names(k) {
					switch {
					case rng.Chance(3, 4):
						d.ents[n] = g.goodFile(ty)
					case rng.Chance(1, 3):
						// a file acceptable to another type
						d.ents[n] = g.goodFile("ca")
					default:
						d.ents[n] = g.badEntry(g.badKindFor(ty), ty, sc, storeRel(ty, nm))
					}
				}
				sc.queries = append(sc.queries, query{ty, nm})
			}
		}
		if rng.Chance(1, 3) {
			sc.queries = append(sc.queries, query{Pick(rng, validTypes), Pick(rng, plainNames)})
		}
		if rng.Chance(1, 4) {
			sc.queries = append(sc.queries, query{Pick(rng, invalidTypes), Pick(rng, plainNames)})
		}
		if rng.Chance(1, 4) {
			sc.queries = append(sc.queries, query{Pick(rng, validTypes), Pick(rng, oddNames)})
		}
		if len(sc.queries) == 0 {
			sc.queries = append(sc.queries, query{Pick(rng, validTypes), Pick(rng, plainNames)})
		}
		emit(sc)
	}
	// F7 (ctx): the caller's context. Loadable stores of k = 2..6 files of every type, asked
	// through ONE instance with a scripted context that is done from poll n+1 on, n = 0..k+1
	// (an implementation that polls between files gives up before file 1, 2, .., k, after the
	// last, or never), then with a really cancelled context, then with context.Background()
	// (nothing of an abandoned scan may stay in the instance); the same with an offending
	// entry last. Cases GC: judged by cagree / cspec_ok (everything, or an error - never a
	// proper subset; an error for a loadable store only when the context can be done).
	for r := 0; r < 1*mult; r++ {
		for _, ty := range validTypes {
			for k := 2; k <= 6; k++ {
				sc := &scenario{family: "ctx:loadable", root: newDir()}
				nm := Pick(rng, plainNames)
				g.goodStore(sc, storeRel(ty, nm), ty, k)
				for n := 0; n <= k+1; n++ {
					sc.queries = append(sc.queries, query{ty, nm})
					sc.ctxs = append(sc.ctxs, ctxSpec{'s', n})
				}
				sc.queries = append(sc.queries, query{ty, nm}, query{ty, nm})
				sc.ctxs = append(sc.ctxs, ctxSpec{'c', 0}, ctxSpec{})
				emit(sc)
			}
			sc := &scenario{family: "ctx:bad-last", root: newDir()}
			nm := Pick(rng, plainNames)
			d := sc.root.mkdir(storeRel(ty, nm))
			ns := g.names(3)
			for i, n := range ns {
				if i == len(ns)-1 {
					d.ents[n] = g.badEntryFile("garbage")
				} else {
					d.ents[n] = g.goodFile(ty)
				}
			}
			for n := 0; n <= 4; n++ {
				sc.queries = append(sc.queries, query{ty, nm})
				sc.ctxs = append(sc.ctxs, ctxSpec{'s', n})
			}
			sc.queries = append(sc.queries, query{ty, nm})
			sc.ctxs = append(sc.ctxs, ctxSpec{})
			emit(sc)
		}
	}
}

// feed starts one writer per FIFO below dir: it waits (non-blocking opens) until a
// reader has the FIFO open, writes the bytes registered for it once and closes.
// The returned function stops the writers that were never needed.
func feed(dir string) (stop func()) {
	done := make(chan struct{})
	var wg sync.WaitGroup
	for pth, data := range fifos {
		if !strings.HasPrefix(pth, dir+string(filepath.Separator)) {
			continue
		}
		wg.Add(1)
		go func(pth string, data []byte) {
			defer wg.Done()
			for {
				select {
				case <-done:
					return
				default:
				}
				fd, err := syscall.Open(pth, syscall.O_WRONLY|syscall.O_NONBLOCK, 0)
				if err != nil {
					time.Sleep(100 * time.Microsecond)
					continue
				}
				syscall.SetNonblock(fd, false)
				for len(data) > 0 {
					n, err := syscall.Write(fd, data)
					if err != nil || n <= 0 {
						break
					}
					data = data[n:]
				}
				syscall.Close(fd)
				return
			}
		}(pth, data)
	}
	return func() { close(done); wg.Wait() }
}

// mknodOK reports whether this process may create a character device node.
func mknodOK(dir string) bool {
	p := filepath.Join(dir, "probe-null")
	os.MkdirAll(dir, 0o755)
	err := syscall.Mknod(p, syscall.S_IFCHR|0o644, 1<<8|3)
	if err != nil {
		return false
	}
	b, rerr := os.ReadFile(p)
	os.Remove(p)
	return rerr == nil && len(b) == 0
}

func indexOf(xs []string, x string) int {
	for i, y := range xs {
		if x == y {
			return i
		}
	}
	return 0
}

func runC13(a *Args) error {
	rng := NewRng(a.Seed)
	prelude := "From NV Require Import Base C13_Model C13_Special.\nOpen Scope string_scope.\n"
	p := newPool()
	short := map[string]string{}
	for i, c := range p.certs {
		full := CApp("mk_cert", CN(int64(i+1)), CBool(c.ca), CBool(c.selfsig), CBool(c.sigfrom), CBool(c.subjiss))
		short[full] = fmt.Sprintf("k%d", i+1)
		prelude += fmt.Sprintf("Definition k%d : cert := %s. (* %s *)\n", i+1, full, c.label)
	}
	// gcase = a case over the property's alphabet (GB, judged by C13_Model.run's functions) or over the
	// larger alphabet with FIFOs / sockets / devices (GX, C13_Special); grun (map GB cs) = run cs is proved
	w := NewCaseWriter(a, "C13", prelude, "gcase", "grun")
	w.Rule = "real temporary directory trees queried through truststore.NewX509TrustStore(dir.NewSysFS(root)).GetCertificates: (valid) stores of 1-4 good files per type; (one-bad) one offending entry of each of 17 kinds at every position among 1-4 entries; the same files under all three types; 14 shapes of the store path itself (symlinked store inside/outside/relative/chained, dangling, file, absent, empty, type directory absent/file/symlink, x509 a file, truststore a symlink); non-plain names and unknown types with a loadable store placed where an unvalidated path.Join would lead (incl. '.', '..', '' with certificates directly in the type directory and in x509/); randomly assembled trees; (history) 2-5 states of one directory queried through ONE X509TrustStore instance: pass/fail/pass, fail/pass/fail, certificates replaced, store removed and recreated, store turned into a symlink / a file and back, an entry turned into a symlink, same name under another type - each call is its own case judged on the tree as read back at that moment; (near-name / near-type) a name or type one normalisation away from a valid one (surrounding white space, case, first / last path element, trailing separator, NUL, trailing dot, quotes, list) with loadable stores at every place a normalising implementation would read and nothing at the literal plain name; (skippable-entry-name) hidden / backup / readme / odd-extension names as the offending entry, as a good file among others, as the only file, as directory or link; (cert-position) the unacceptable certificate at every position of a 2-4 certificate file, that file first and last; (special-entry: entries that are neither regular files, directories nor links; cases over C13_Special.xnode, model xmodel, oracle xspec_ok: loading anything from, or a store passing over, such an entry is a violation) a FIFO that nobody writes to at every position among 1-3 entries and before an unparsable file (the call is made in a re-executed child process with a 3 s limit: not returning is recorded as a violation), a FIFO fed by a concurrent writer with a good certificate / garbage / nothing / an unacceptable certificate / a non-root (tsa), a socket, the null device (where mknod is permitted) at every position among 1-3 entries, two FIFOs in one store, the store path or the type directory being a FIFO / socket. (ctx: the caller's context; cases GC over C13_Special.ccase, judged by cagree / cspec_ok) loadable stores of 2-6 files of every type and a store with an unparsable last file, queried through one instance with a scripted context.Context whose Err()/Done() report deadline exceeded from poll n+1 on (n = 0..k+1: before any file, between any two files, after the last, never), then with a context cancelled before the call, then with context.Background(): either an error with a nil slice or exactly the full set - a proper subset (certificates collected before the scan was given up) is an oracle violation; an error for a loadable store is accepted only when the context can be done. File formats: PEM, DER, multi-certificate, PEM with surrounding text, other block type, CRLF. The tree handed to the model is read back with Lstat/ReadDir/EvalSymlinks and file facts are asked from notation-core-go and crypto/x509. non-trivial = some regular file with at least one certificate exists below the root or behind a link; distinct = distinct (tree, type, name)"
	w.Assumptions = []string{
		"directory entries are regular files, directories or symbolic links; FIFOs, sockets and the null device are covered by the family special-entry over the larger alphabet of C13_Special (what a FIFO would deliver = what the parser says of the bytes the harness's writer stands ready to feed; block devices and other kinds are not created)",
		"os.ReadDir of an existing real directory succeeds and files are readable (the harness runs as the owner); a read error is covered by the same branch as a parse error (CErr)",
		"the root handed to dir.NewSysFS is a clean absolute path",
		"symbolic links are represented by what the kernel resolves them to (no link cycles)",
		"error sites are recognised from the fixed prefixes of the error messages; the error type by Go type (TrustStoreError / CertificateError)",
	}
	g := &gen{rng: rng, p: p}
	d := &describer{p: p, cache: map[[32]byte][2]string{}, short: short}
	fsBase := filepath.Join(a.Out, "fs")
	if a.Out == "" {
		var err error
		fsBase, err = os.MkdirTemp("", "vh-c13-")
		if err != nil {
			return err
		}
	}
	fsBase, _ = filepath.Abs(fsBase)
	defer os.RemoveAll(fsBase)
	g.nullDev = mknodOK(fsBase)
	d.tmp = fsBase
	w.Set("special_entries_character_device", map[bool]string{true: "created with mknod", false: "skipped: mknod of a character device is not permitted here"}[g.nullDev])

	var id int64
	var scn int
	var fail error
	hangs := 0 // calls that never returned (each costs the time limit: stop after two)
	g.scenarios(a.Tier, func(sc *scenario) {
		first := id
		id += int64(sc.nq())
		scn++
		if fail != nil {
			return
		}
		wanted := false
		for k := 0; k < sc.nq(); k++ {
			if w.Want(first + int64(k)) {
				wanted = true
			}
		}
		if !wanted {
			return
		}
		scDir := filepath.Join(fsBase, fmt.Sprintf("t%d", scn))
		root := filepath.Join(scDir, "root")
		// ONE instance for all steps of a history: the root path stays, the content changes
		ts := truststore.NewX509TrustStore(dir.NewSysFS(root))
		steps := sc.steps()
		my := first - 1
		for si, st := range steps {
			if si > 0 && !st.inPlace {
				os.RemoveAll(root)
				os.RemoveAll(filepath.Join(scDir, "outside"))
			}
			if err := materialise(scDir, root, st.root); err != nil {
				fail = fmt.Errorf("materialise scenario %d: %w", scn, err)
				return
			}
			if st.outside != nil {
				if err := materialise(scDir, filepath.Join(scDir, "outside"), st.outside); err != nil {
					fail = fmt.Errorf("materialise scenario %d: %w", scn, err)
					return
				}
			}
			var lines []string
			d.certs = 0
			d.x = st.special
			tree := d.node(root, "", 0, &lines)
			hasCerts := d.certs > 0
			stepText := ""
			if len(steps) > 1 {
				stepText = fmt.Sprintf("state %d of %d of one directory, all calls on one X509TrustStore instance", si+1, len(steps))
			}
			for qi, q := range st.queries {
				my++
				var qc ctxSpec
				if qi < len(st.ctxs) {
					qc = st.ctxs[qi]
				}
				// every call of the scenario is made (earlier calls are the state of the instance); only wanted ones are emitted
				stopFeed := func() {}
				if st.special {
					stopFeed = feed(scDir) // a FIFO blocks its reader until a writer opens it
				}
				var certs []*x509.Certificate
				var err error
				if st.child {
					if hangs >= 2 {
						w.Count("skipped", "fifo-no-writer call after two calls that never returned")
						stopFeed()
						continue
					}
					var hung bool
					certs, err, hung = callInChild(root, q.ty, q.name, 3*time.Second)
					if hung {
						stopFeed()
						hangs++
						if w.Want(my) {
							w.ImplViolation(my, "GetCertificates did not return within 3 s: it opens a FIFO entry of the store that nobody writes to (an entry that is not a regular file must be refused, not read)",
								c13Case{sc.family, q.ty, q.name, lines, "no result: the call blocks", stepText, ""}, "blocks-on-fifo")
						}
						continue
					}
				} else {
					var ctx context.Context = context.Background()
					switch qc.ctx {
					case 's':
						ctx = newScriptCtx(qc.after)
					case 'c':
						c2, cancel := context.WithCancel(context.Background())
						cancel()
						ctx = c2
					}
					certs, err = ts.GetCertificates(ctx, truststore.Type(q.ty), q.name)
					if sx, ok := ctx.(*scriptCtx); ok && w.Want(my) {
						w.Count("ctx_polls_seen", fmt.Sprint(sx.Polls()))
					}
				}
				stopFeed()
				if !w.Want(my) {
					continue
				}
				var obs, obsText string
				if err != nil {
					cls, kind, entry := classify(err)
					obs = CApp("OErr", cls, kind, CStr(entry))
					obsText = "error " + cls + "/" + kind + " entry=" + fmt.Sprintf("%q", entry) + ": " + Short(err.Error(), 160)
					w.Count("observed", kind)
					if certs != nil {
						// an error together with certificates: report as a returned list
						w.ImplViolation(my, "GetCertificates returned certificates together with an error", c13Case{sc.family, q.ty, q.name, lines, obsText, stepText, ""}, "partial-with-error")
					}
				} else {
					ids := make([]string, len(certs))
					for i, c := range certs {
						if c == nil {
							ids[i] = CN(0)
						} else {
							ids[i] = CN(int64(p.id(c.Raw)))
						}
					}
					obs = CApp("OOk", CList(ids))
					obsText = "ok " + CList(ids)
					w.Count("observed", "loaded")
					w.Count("loaded_certificates", fmt.Sprint(len(certs)))
				}
				var term string
				ctxText := ""
				if st.special {
					term = CApp("GX", CApp("mk_xcase", CN(my), CApp("mk_xinput", CStr(q.ty), CStr(q.name), tree), obs))
				} else if strings.HasPrefix(sc.family, "ctx:") {
					doneAt := "None"
					ctxText = "context.Background()"
					switch qc.ctx {
					case 's':
						doneAt = CSome(CN(int64(qc.after)))
						ctxText = fmt.Sprintf("scripted context: Err()/Done() report deadline exceeded from poll %d on", qc.after+1)
					case 'c':
						doneAt = CSome(CN(0))
						ctxText = "context.WithCancel, cancelled before the call"
					}
					term = CApp("GC", CApp("mk_ccase", CN(my), CApp("mk_input", CStr(q.ty), CStr(q.name), tree), doneAt, obs))
					w.Count("ctx", map[byte]string{0: "background", 's': "scripted", 'c': "cancelled"}[qc.ctx])
				} else {
					term = CApp("GB", CApp("mk_case", CN(my), CApp("mk_input", CStr(q.ty), CStr(q.name), tree), obs))
				}
				desc := c13Case{Family: sc.family, Type: q.ty, Name: q.name, Tree: lines, Obs: obsText, Step: stepText, Ctx: ctxText}
				w.Add(my, term, desc, q.ty+"\x00"+q.name+"\x00"+tree+"\x00"+ctxText, hasCerts)
				w.Count("family", strings.SplitN(sc.family, ":", 2)[0])
				if strings.HasPrefix(sc.family, "history:") {
					w.Count("history", strings.SplitN(sc.family, ":", 2)[1])
				}
				w.Count("store_type", fmt.Sprintf("%q", q.ty))
			}
		}
		os.RemoveAll(scDir)
	})
	if fail != nil {
		return fail
	}
	w.Set("scenarios", scn)
	w.Set("certificate_pool", func() []string {
		var out []string
		for i, c := range p.certs {
			out = append(out, fmt.Sprintf("#%d %s ca=%v selfsig=%v sigfrom=%v subj=iss=%v", i+1, c.label, c.ca, c.selfsig, c.sigfrom, c.subjiss))
		}
		return out
	}())
	return w.Close()
}
