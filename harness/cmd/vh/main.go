// Command vh is the Go side of the notation-go verification framework:
// it regenerates Generated.v from /repo's sources (gen-constants) and, per
// property, drives the real implementation on generated cases and writes
// them as Gallina terms for evaluation against the Coq model.
package main

import (
	"flag"
	"fmt"
	"os"
	"sort"
)

// Args are the common arguments of every property driver.
type Args struct {
	Tier   string // quick | thorough
	Seed   uint64
	Out    string // output directory for cases_*.v, stats.json, cases.jsonl
	Only   int64  // when >= 0, run only this case id (replay)
	Corpus string // corpus directory of this property (may not exist)
	Extra  []string
}

var drivers = map[string]func(a *Args) error{}

func register(name string, f func(a *Args) error) { drivers[name] = f }

func main() {
	if len(os.Args) < 2 {
		usage()
	}
	cmd := os.Args[1]
	fs := flag.NewFlagSet(cmd, flag.ExitOnError)
	a := &Args{}
	fs.StringVar(&a.Tier, "tier", "quick", "quick|thorough")
	fs.Uint64Var(&a.Seed, "seed", 1, "PRNG seed")
	fs.StringVar(&a.Out, "out", "", "output directory")
	fs.Int64Var(&a.Only, "only", -1, "run only this case id")
	fs.StringVar(&a.Corpus, "corpus", "", "corpus directory")
	fs.Parse(os.Args[2:])
	a.Extra = fs.Args()
	f, ok := drivers[cmd]
	if !ok {
		usage()
	}
	if a.Out != "" {
		if err := os.MkdirAll(a.Out, 0o755); err != nil {
			fmt.Fprintln(os.Stderr, err)
			os.Exit(2)
		}
	}
	if err := f(a); err != nil {
		fmt.Fprintln(os.Stderr, "vh", cmd, "error:", err)
		os.Exit(2)
	}
}

func usage() {
	var names []string
	for n := range drivers {
		names = append(names, n)
	}
	sort.Strings(names)
	fmt.Fprintln(os.Stderr, "usage: vh <command> [--tier quick|thorough] [--seed N] [--out DIR] [--only ID]\ncommands:", names)
	os.Exit(2)
}
