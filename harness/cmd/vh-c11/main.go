package main

// C11 driver: histories of up to 3 consecutive notation.SignOCI calls with an
// instrumented Signer against
//   (mem) an in-memory registry.Repository whose Resolve returns the stored
//         descriptor including its annotation map (shared), and
//   (oci) a real on-disk OCI layout (registry.NewOCIRepository over oras
//         oci.Store) with a tag whose index entry carries annotations.
// Every Go map that exists before the first call (repository maps, the
// caller's UserMetadata / PluginConfig, the signer's plugin annotations) is a
// heap object identified by its pointer; the driver records, per call, deep
// snapshots of every argument with the identity of its maps, the result, all
// heap objects after the call, what the repository resolves and which
// signatures it holds. Printed as (input, observation) cases for C11_Model.

import (
	"context"
	"crypto/sha256"
	"crypto/x509"
	"encoding/hex"
	"encoding/json"
	"errors"
	"fmt"
	"os"
	"path/filepath"
	"reflect"
	"sort"
	"strings"
	"time"
	. "vh/kit"

	"github.com/notaryproject/notation-core-go/signature"
	"github.com/notaryproject/notation-go"
	"github.com/notaryproject/notation-go/registry"
	"github.com/opencontainers/go-digest"
	ocispec "github.com/opencontainers/image-spec/specs-go/v1"
	"oras.land/oras-go/v2"
	"oras.land/oras-go/v2/content"
	"oras.land/oras-go/v2/content/oci"
	orasRegistry "oras.land/oras-go/v2/registry"
	"oras.land/oras-go/v2/registry/remote"
)

func main() { Main("c11", runC11) }

const (
	kThumb   = "io.cncf.notary.x509chain.thumbprint#S256"
	kCreated = "org.opencontainers.image.created"
)

// ---------- heap of map objects ----------

type heapT struct {
	objs []map[string]string
	ptr  map[uintptr]int
}

func newHeap() *heapT { return &heapT{ptr: map[uintptr]int{}} }

func mapPtr(m map[string]string) uintptr {
	if m == nil {
		return 0
	}
	return reflect.ValueOf(m).Pointer()
}

// track registers a map object (idempotent) and returns its address; -1 for nil.
func (h *heapT) track(m map[string]string) int {
	p := mapPtr(m)
	if p == 0 {
		return -1
	}
	if a, ok := h.ptr[p]; ok {
		return a
	}
	a := len(h.objs)
	h.objs = append(h.objs, m)
	h.ptr[p] = a
	return a
}

// mref of a map as an observer sees it: MNil, (MKnown a) or MFresh.
func (h *heapT) mref(m map[string]string) string {
	p := mapPtr(m)
	if p == 0 {
		return "MNil"
	}
	if a, ok := h.ptr[p]; ok {
		return CApp("MKnown", CN(int64(a)))
	}
	return "MFresh"
}

func (h *heapT) snapshot() string {
	items := make([]string, len(h.objs))
	for a, m := range h.objs {
		items[a] = CPair(CN(int64(a)), CMap(m))
	}
	return CList(items)
}

func optAddr(a int) string {
	if a < 0 {
		return "None"
	}
	return CSome(CN(int64(a)))
}

// ---------- descriptors ----------

func restOf(d ocispec.Descriptor) string {
	if d.ArtifactType == "" && len(d.URLs) == 0 && len(d.Data) == 0 && d.Platform == nil {
		return ""
	}
	b, _ := json.Marshal(struct {
		A string            `json:"a,omitempty"`
		U []string          `json:"u,omitempty"`
		D []byte            `json:"d,omitempty"`
		P *ocispec.Platform `json:"p,omitempty"`
	}{d.ArtifactType, d.URLs, d.Data, d.Platform})
	return string(b)
}

func copyMapNil(m map[string]string) map[string]string {
	if m == nil {
		return nil
	}
	return copyMap(m)
}

func copyMap(m map[string]string) map[string]string {
	c := make(map[string]string, len(m))
	for k, v := range m {
		c[k] = v
	}
	return c
}

// deep prints the descriptor as a ddesc: fields, identity of the annotation map, content now.
func (h *heapT) deep(d ocispec.Descriptor) string {
	return CApp("mk_dd", CStr(d.MediaType), CStr(string(d.Digest)), CZ(d.Size), CStr(restOf(d)), h.mref(d.Annotations), CMap(d.Annotations))
}

func deepStored(d ocispec.Descriptor) string {
	return CApp("mk_dd", CStr(d.MediaType), CStr(string(d.Digest)), CZ(d.Size), CStr(restOf(d)), "MNil", CMap(d.Annotations))
}

func isZeroDesc(d ocispec.Descriptor) bool {
	return d.MediaType == "" && d.Digest == "" && d.Size == 0 && d.Annotations == nil && restOf(d) == ""
}

// ---------- recorder, signer, repositories ----------

type recorder struct {
	h        *heapT
	on       bool
	resolves []string
	signs    []string
	pushes   []string
	pushRet  []string // digest returned by PushSignature, or "!err"
}

func (r *recorder) reset() { r.resolves, r.signs, r.pushes, r.pushRet = nil, nil, nil, nil }

var errScriptSigner = errors.New("scripted signer failure")
var errScriptPush = errors.New("scripted push failure")

type signScript struct {
	err     bool
	sig     string
	infoNil bool
	chain   []*x509.Certificate
	time    time.Time
}

type recSigner struct {
	rec    *recorder
	script signScript
	pool   *x509.CertPool // the TSARootCAs the caller passed (identity is checked)
	optBad *string
}

func (s *recSigner) Sign(ctx context.Context, desc ocispec.Descriptor, opts notation.SignerSignOptions) ([]byte, *signature.SignerInfo, error) {
	h := s.rec.h
	s.rec.signs = append(s.rec.signs, CApp("mk_sign_call", h.deep(desc), CStr(opts.SignatureMediaType), CZ(int64(opts.ExpiryDuration)), CStr(opts.SigningAgent), h.mref(opts.PluginConfig)))
	if opts.TSARootCAs != s.pool || opts.Timestamper != nil || opts.TSARevocationValidator != nil {
		*s.optBad = "the signer did not receive the caller's TSARootCAs / Timestamper / TSARevocationValidator"
	}
	if s.script.err {
		return nil, nil, errScriptSigner
	}
	if s.script.infoNil {
		return []byte(s.script.sig), nil, nil
	}
	info := &signature.SignerInfo{CertificateChain: s.script.chain}
	info.SignedAttributes.SigningTime = s.script.time
	return []byte(s.script.sig), info, nil
}

type recSignerPA struct {
	recSigner
	pa map[string]string
}

func (s *recSignerPA) PluginAnnotations() map[string]string { return s.pa }

type storedSig struct {
	mt, sig string
	subject ocispec.Descriptor // deep copy
	ann     map[string]string
}

func (s storedSig) term() string {
	return CApp("mk_stored", CStr(s.mt), CStr(s.sig), deepStored(s.subject), CMap(s.ann))
}

// memRepo: Resolve hands out the stored descriptor including its annotation map.
type memRepo struct {
	rec    *recorder
	table  map[string]ocispec.Descriptor
	stored []storedSig
	push   string // "ok" | "err" | "refdel"
	pushDg string
}

func (m *memRepo) Resolve(ctx context.Context, ref string) (ocispec.Descriptor, error) {
	if m.rec.on {
		m.rec.resolves = append(m.rec.resolves, ref)
	}
	d, ok := m.table[ref]
	if !ok {
		return ocispec.Descriptor{}, fmt.Errorf("%s: not found", ref)
	}
	return d, nil
}

func (m *memRepo) ListSignatures(ctx context.Context, desc ocispec.Descriptor, fn func([]ocispec.Descriptor) error) error {
	return fn(nil)
}

func (m *memRepo) FetchSignatureBlob(ctx context.Context, desc ocispec.Descriptor) ([]byte, ocispec.Descriptor, error) {
	return nil, ocispec.Descriptor{}, errors.New("not implemented")
}

func recordPush(rec *recorder, mediaType string, blob []byte, subject ocispec.Descriptor, annotations map[string]string) {
	h := rec.h
	rec.pushes = append(rec.pushes, CApp("mk_push_call", CStr(mediaType), CStr(string(blob)), h.deep(subject), h.mref(annotations), CMap(annotations)))
}

func (m *memRepo) PushSignature(ctx context.Context, mediaType string, blob []byte, subject ocispec.Descriptor, annotations map[string]string) (ocispec.Descriptor, ocispec.Descriptor, error) {
	recordPush(m.rec, mediaType, blob, subject, annotations)
	if m.push == "err" {
		return ocispec.Descriptor{}, ocispec.Descriptor{}, errScriptPush
	}
	sub := subject
	sub.Annotations = nil
	if subject.Annotations != nil {
		sub.Annotations = copyMap(subject.Annotations)
	}
	m.stored = append(m.stored, storedSig{mediaType, string(blob), sub, copyMap(annotations)})
	blobDesc := ocispec.Descriptor{MediaType: mediaType, Digest: digest.FromBytes(blob), Size: int64(len(blob))}
	manDesc := ocispec.Descriptor{MediaType: ocispec.MediaTypeImageManifest, Digest: digest.Digest(m.pushDg), Size: 7}
	if m.push == "refdel" {
		return blobDesc, manDesc, &remote.ReferrersError{Op: "DeleteReferrersIndex", Subject: subject, Err: errors.New("scripted referrers index deletion failure")}
	}
	return blobDesc, manDesc, nil
}

// wrapRepo records and delegates to the real repository.
type wrapRepo struct {
	rec   *recorder
	inner registry.Repository
}

func (w *wrapRepo) Resolve(ctx context.Context, ref string) (ocispec.Descriptor, error) {
	if w.rec.on {
		w.rec.resolves = append(w.rec.resolves, ref)
	}
	return w.inner.Resolve(ctx, ref)
}
func (w *wrapRepo) ListSignatures(ctx context.Context, desc ocispec.Descriptor, fn func([]ocispec.Descriptor) error) error {
	return w.inner.ListSignatures(ctx, desc, fn)
}
func (w *wrapRepo) FetchSignatureBlob(ctx context.Context, desc ocispec.Descriptor) ([]byte, ocispec.Descriptor, error) {
	return w.inner.FetchSignatureBlob(ctx, desc)
}
func (w *wrapRepo) PushSignature(ctx context.Context, mediaType string, blob []byte, subject ocispec.Descriptor, annotations map[string]string) (ocispec.Descriptor, ocispec.Descriptor, error) {
	recordPush(w.rec, mediaType, blob, subject, annotations)
	b, m, err := w.inner.PushSignature(ctx, mediaType, blob, subject, annotations)
	if err != nil {
		w.rec.pushRet = append(w.rec.pushRet, "!err")
	} else {
		w.rec.pushRet = append(w.rec.pushRet, string(m.Digest))
	}
	return b, m, err
}

// ---------- classification ----------

func classify(err error) (string, bool) {
	if err == nil {
		return "ROk", true
	}
	var re *remote.ReferrersError
	if errors.As(err, &re) && re.IsReferrersIndexDelete() {
		return "RRefDel", true
	}
	msg := err.Error()
	var pf notation.ErrorPushSignatureFailed
	switch {
	case msg == "signer cannot be nil":
		return "EArgSigner", true
	case msg == "expiry duration cannot be a negative value":
		return "EArgExpiryNeg", true
	case msg == "expiry duration supports minimum granularity of seconds":
		return "EArgExpiryGran", true
	case msg == "signature media-type cannot be empty":
		return "EArgMtEmpty", true
	case strings.HasPrefix(msg, "invalid signature media-type"):
		return "EArgMtInvalid", true
	case msg == "repo cannot be nil":
		return "ERepoNil", true
	case strings.HasPrefix(msg, "failed to resolve reference"):
		return "EResolve", true
	case strings.HasPrefix(msg, "user input digest"):
		return "EDigestMismatch", true
	case strings.HasPrefix(msg, "error adding user metadata") && strings.Contains(msg, " has reserved prefix "):
		return "EMetaReserved", true
	case strings.HasPrefix(msg, "error adding user metadata") && strings.HasSuffix(msg, " is already present in the target artifact"):
		return "EMetaPresent", true
	case errors.Is(err, errScriptSigner):
		return "ESigner", true
	case msg == "failed to generate annotations: signerInfo cannot be nil":
		return "EAnnInfoNil", true
	case msg == "signing time is missing":
		return "EAnnTime", true
	case errors.As(err, &pf):
		return "EPush", true
	}
	return "EPush", false
}

// offendingKey extracts the metadata key named by the refusal.
func offendingKey(msg string) (string, bool) {
	const pre = "error adding user metadata: metadata key "
	if !strings.HasPrefix(msg, pre) {
		return "", false
	}
	rest := msg[len(pre):]
	if i := strings.LastIndex(rest, " has reserved prefix "); i >= 0 {
		return rest[:i], true
	}
	const suf = " is already present in the target artifact"
	if strings.HasSuffix(rest, suf) {
		return rest[:len(rest)-len(suf)], true
	}
	return "", false
}

// ---------- generation ----------

type callSpec struct {
	SignerNil bool              `json:"signer_nil,omitempty"`
	RepoNil   bool              `json:"repo_nil,omitempty"`
	Ref       string            `json:"ref"`
	RefKind   string            `json:"ref_kind"`
	MetaKind  string            `json:"metadata_kind"`
	Mt        string            `json:"media_type"`
	Expiry    int64             `json:"expiry_ns"`
	Agent     string            `json:"agent,omitempty"`
	Meta      map[string]string `json:"metadata"`
	MetaNil   bool              `json:"metadata_nil,omitempty"`
	meta      map[string]string // the object
	pcfg      map[string]string
	Sign      string `json:"signer"` // ok | err | infonil | timezero
	ChainIdx  int    `json:"chain"`
	Time      int64  `json:"signing_time_unix"`
	PA        string `json:"plugin_annotations"` // none | nil | map
	pa        map[string]string
	Push      string `json:"push"` // ok | err | refdel
	// fault family (mode flt)
	Fault      string `json:"store_fault,omitempty"`
	SameSig    bool   `json:"signer_repeats_envelope_bytes,omitempty"`
	faultAt    int
	faultAfter bool
	faultCtx   bool
	sigFixed   string
	// observation
	Result string   `json:"obs_result"`
	Err    string   `json:"obs_error,omitempty"`
	Ops    []string `json:"obs_store_operations,omitempty"`
}

type histDesc struct {
	Mode  string                       `json:"mode"`
	Table map[string]map[string]string `json:"resolve_table_annotations"`
	Calls []*callSpec                  `json:"calls"`
}

var (
	annKeyPool  = []string{"a", "b", "org.example.k", "io.cncf.notary.x", "io.cncf.notar", "m1"}
	metaKeyPool = []string{"m1", "m2", "user.key", "io.cncf.notar", "Io.cncf.notary", " io.cncf.notary.x", "xio.cncf.notary.k", "io.cncf", "", "io.cncf.notarY"}
	resKeyPool  = []string{"io.cncf.notary", "io.cncf.notary.x", "io.cncf.notaryfoo", "io.cncf.notary.verificationPlugin", kThumb}
	valPool     = []string{"v", "", "1", "x y", "w"}
	mtPool      = []string{"application/vnd.oci.image.manifest.v1+json", "application/vnd.test", "application/vnd.oci.image.index.v1+json"}
)

type chainInfo struct {
	certs  []*x509.Certificate
	thumbs []string
}

type genCtx struct {
	chains []chainInfo
	dgs    []string
	fsBase string
}

func randMap(r *Rng, pool []string, n int) map[string]string {
	m := map[string]string{}
	for i := 0; i < n; i++ {
		m[Pick(r, pool)] = Pick(r, valPool)
	}
	return m
}

func runC11(a *Args) error {
	rng := NewRng(a.Seed)
	prelude := "From NV Require Import Base C11_Model C11_Registry.\nOpen Scope string_scope.\n"
	w := NewCaseWriter(a, "C11", prelude, "xcase", "xrun")
	w.ShardSize = 270 // quick: 6 shards, one per coqc process of bin/check
	w.Rule = "(systematic) for 3 annotation sets of the artifact (empty-valued, two entries, nil) x 22 second steps B (colliding / same-value / reserved exact, without dot, with dot / near misses of the prefix / digest resolving elsewhere / empty media type / signer error / push error / zero time / other artifact colliding there or only here / by digest / full, tag+digest, upper-case host, reference-less forms / empty and nil metadata / plugin annotations / other chain and time) the sequences A-B-A, B-A-B, B-B-A on ONE repository instance with the same option and map objects for equal steps, in both modes; (random) histories of 1-3 consecutive notation.SignOCI calls with an instrumented signer against (mem) an in-memory repository whose Resolve returns its stored descriptor with the stored annotation map, and (oci) a real on-disk OCI layout opened with registry.NewOCIRepository whose tag entry carries annotations. Resolved descriptors with nil / empty / 1-3 annotations; user metadata nil / empty / disjoint / colliding with an annotation / under the reserved prefix (and near misses of the prefix) / mixed; references: tag, digest, full reference with tag or digest, unknown, digest resolving to another digest; option errors; signer errors, nil SignerInfo, zero signing time, chains of 0-3 certificates; signer with/without PluginAnnotations (nil, empty, populated, stale thumbprint); push ok / error / referrers-index-deletion error; 60% of the later calls repeat the first call's options with the same map objects; (faults, XFault cases of C11_Registry) ONE registry.NewRepository client over a wrapper around a real on-disk oci.Store that fails exactly one store operation of one call of a 3-call history with the same reference, options and map objects: for 4 variants (tag+metadata / digest+plugin annotations / full reference+COSE+plugin config / empty config blob already in the layout) the operation index ranges over every operation of a recorded clean run (Resolve, Push envelope blob, Exists config, Push config, Push manifest) and one beyond, failing before or after the operation takes effect (plain error or context.DeadlineExceeded), in the first call (fail, good, good) and in the second (good, fail, good); the answer of PushSignature is NOT an input there but computed by the model from the store content (the client keeps no state: every call on the healthy store must succeed and add exactly its signature); plus a signer that repeats its envelope bytes (the layout refuses the second Push of the blob); (referrers fallback, XRef cases) ONE registry.NewRepository client over oras remote.Repository against ONE long-lived in-memory distribution registry WITHOUT the Referrers API: 2-3 SignOCI calls on one artifact (tag / digest, with / without metadata), every pattern of calls during which the manifest DELETE (of the superseded referrers index) fails while blob DELETE works; after every call the store is inspected: signature manifest over the resolved subject listed in its referrers index, layers[0] fetchable with the signer's bytes, store entries removed. non-trivial = some call reached the signer or was refused for digest mismatch / reserved / colliding metadata; distinct = distinct (input, observation) terms"
	w.Assumptions = []string{
		"every Go map that exists before the first call is a heap object identified by its pointer; a map allocated by SignOCI and handed to one callee is a value (MFresh)",
		"orasRegistry.ParseReference and digest.Parse are oracles (their answer on the case's reference is an input of the model)",
		"thumbprints are computed by the driver with crypto/sha256 over cert.Raw of the chain the signer returns (SHA-256 itself is not modelled)",
		"signing times are within years 1..9999 (time.RFC3339 formatting of other years is not modelled)",
		"the metadata key that Go's map iteration reaches first is recovered from the error message (unobservable otherwise)",
		"result classes are recognised from fixed error texts / error types of notation-go",
		"fault family: the store is content addressed (oci.Store): a Push of bytes it holds fails with ErrAlreadyExists, the empty config exists iff the blob {} is held; manifests packed by oras.PackManifest have bytes no other blob of the history has; what the store itself does when an operation fails is observed (the wrapper either skips the operation or performs it and reports failure)",
	}
	g := &genCtx{}
	now := time.Now()
	g.chains = append(g.chains, chainInfo{})
	for n := 1; n <= 3; n++ {
		certs := NewChain(fmt.Sprintf("c11n%d", n), n, now.Add(-time.Hour), now.Add(time.Hour)).Certs()
		ci := chainInfo{certs: certs}
		for _, c := range certs {
			s := sha256.Sum256(c.Raw)
			ci.thumbs = append(ci.thumbs, hex.EncodeToString(s[:]))
		}
		g.chains = append(g.chains, ci)
	}
	for i := 0; i < 4; i++ {
		g.dgs = append(g.dgs, digest.FromString(fmt.Sprintf("c11 artifact %d", i)).String())
	}
	g.fsBase = filepath.Join(a.Out, "fs")
	if a.Out == "" {
		d, err := os.MkdirTemp("", "vh-c11-")
		if err != nil {
			return err
		}
		g.fsBase = d
	}
	g.fsBase, _ = filepath.Abs(g.fsBase)
	defer os.RemoveAll(g.fsBase)

	nMem, nOci := 850, 170
	if a.Tier == "thorough" {
		nMem, nOci = 33000, 5500
	}
	var id int64
	// systematic histories A-B-A / B-A-B / B-B-A on one repository instance, in both modes
	for _, sc := range scenarios() {
		for _, mode := range []string{"mem", "oci"} {
			if mode == "oci" && sc.memOnly {
				continue
			}
			my := id
			id++
			if !w.Want(my) {
				continue
			}
			if err := g.history(w, rng.Fork(uint64(my)), my, mode, sc.scenario); err != nil {
				return fmt.Errorf("scenario %s (%d): %w", sc.name, my, err)
			}
		}
	}
	for k := 0; k < nMem+nOci; k++ {
		my := id
		id++
		if !w.Want(my) {
			continue
		}
		mode := "mem"
		// interleave: every 6th history is on disk
		if k%6 == 5 && nOci > 0 {
			mode = "oci"
		}
		if err := g.history(w, rng.Fork(uint64(my)), my, mode, nil); err != nil {
			return fmt.Errorf("history %d: %w", my, err)
		}
	}
	// fault family: one repository client, the store fails once, the later calls run on the healthy store
	cleanMemo := map[int][2]int{}
	cleanOps := func(v int) (int, int) {
		if c, ok := cleanMemo[v]; ok {
			return c[0], c[1]
		}
		// record a clean run of this variant (always executed, never emitted: ids stay stable)
		ops, err := g.historyOps(w, rng.Fork(uint64(1000000+v)), int64(900000000+v), "flt", faultScenario(faultPlan{variant: v, faultCall: -1, nCalls: 2}), false)
		c := [2]int{5, 4}
		if err == nil && len(ops) == 2 {
			c = [2]int{ops[0], ops[1]}
		}
		cleanMemo[v] = c
		w.Count("clean_run_store_operations", fmt.Sprintf("v%d first=%d later=%d", v, c[0], c[1]))
		return c[0], c[1]
	}
	for _, fp := range faultPlans(a.Tier, cleanOps) {
		my := id
		id++
		if !w.Want(my) {
			continue
		}
		if err := g.history(w, rng.Fork(uint64(my)), my, "flt", faultScenario(fp)); err != nil {
			return fmt.Errorf("fault history %s (%d): %w", fp.name(), my, err)
		}
	}
	// referrers tag-schema family: one long-lived registry without the Referrers API, the DELETE of
	// the superseded referrers index fails during chosen calls (XRef cases)
	for _, rp := range refPlans() {
		my := id
		id++
		if !w.Want(my) {
			continue
		}
		if err := refHistory(w, my, rp); err != nil {
			return fmt.Errorf("referrers history %s (%d): %w", rp.name(), my, err)
		}
	}
	return w.Close()
}

// genMeta builds a UserMetadata map of the given kind against the annotations [ann] of the target.
func genMeta(r *Rng, kind string, ann map[string]string) map[string]string {
	annKeys := make([]string, 0, len(ann))
	for k := range ann {
		annKeys = append(annKeys, k)
	}
	sort.Strings(annKeys)
	disjoint := func(n int) map[string]string {
		m := map[string]string{}
		for i := 0; i < n*3 && len(m) < n; i++ {
			k := Pick(r, metaKeyPool)
			if _, ok := ann[k]; !ok {
				m[k] = Pick(r, valPool)
			}
		}
		return m
	}
	switch kind {
	case "nil":
		return nil
	case "empty":
		return map[string]string{}
	case "disjoint":
		return disjoint(1 + r.Intn(3))
	case "colliding":
		m := disjoint(r.Intn(3))
		if len(annKeys) > 0 {
			k := Pick(r, annKeys)
			if r.Bool() {
				m[k] = ann[k] // same value: still refused
			} else {
				m[k] = Pick(r, valPool)
			}
		}
		return m
	case "reserved":
		m := disjoint(r.Intn(3))
		m[Pick(r, resKeyPool)] = Pick(r, valPool)
		return m
	default: // mixed
		m := disjoint(r.Intn(2))
		m[Pick(r, resKeyPool)] = Pick(r, valPool)
		if len(annKeys) > 0 {
			m[Pick(r, annKeys)] = Pick(r, valPool)
		}
		return m
	}
}

func pickKind(r *Rng) string {
	x := r.Intn(100)
	switch {
	case x < 12:
		return "nil"
	case x < 20:
		return "empty"
	case x < 60:
		return "disjoint"
	case x < 76:
		return "colliding"
	case x < 90:
		return "reserved"
	}
	return "mixed"
}

// scenario: a systematically built history (two artifacts v1, v2 with fixed annotations;
// steps share their map objects when the same step occurs twice).
type scenario struct {
	name         string
	annV1, annV2 map[string]string
	steps        []*callSpec // the sequence; Ref is symbolic (see resolveRef)
	preConfig    bool        // the empty notation config blob is in the layout from the start
}

// resolveRef turns the symbolic reference of a scenario step into a reference string.
func resolveRef(sym string, digests map[string]string, bad string) string {
	switch {
	case strings.HasPrefix(sym, "digest:"):
		return digests[sym[7:]]
	case strings.HasPrefix(sym, "full:"):
		return "reg.example.test/repo:" + sym[5:]
	case strings.HasPrefix(sym, "fulldigest:"):
		return "reg.example.test/repo@" + digests[sym[11:]]
	case strings.HasPrefix(sym, "tagdigest:"):
		return "reg.example.test/repo:ignored-tag@" + digests[sym[10:]]
	case strings.HasPrefix(sym, "upper:"):
		return "REG.example.test:5000/a/b_c/d:" + sym[6:]
	case sym == "noref":
		return "reg.example.test/repo"
	case sym == "bad":
		return bad
	case sym == "fullbad":
		return "reg.example.test/repo@" + bad
	case sym == "tagbad":
		return "reg.example.test/repo:ignored-tag@" + bad
	}
	return sym
}

// history runs one history and emits it (emit = false: run only, for the recording of a
// clean run); it returns the number of store operations of every call (mode flt).
func (g *genCtx) history(w *CaseWriter, r *Rng, id int64, mode string, scen *scenario) error {
	_, err := g.historyOps(w, r, id, mode, scen, true)
	return err
}

func (g *genCtx) historyOps(w *CaseWriter, r *Rng, id int64, mode string, scen *scenario, emit bool) ([]int, error) {
	ctx := context.Background()
	var fs *faultStore
	var opCounts []int
	h := newHeap()
	rec := &recorder{h: h}
	var repo registry.Repository
	var mem *memRepo
	var ociDir string
	var probes []string
	tableTerms := []string{}
	hd := &histDesc{Mode: mode, Table: map[string]map[string]string{}}
	// candidate references with the annotations their resolution carries
	type target struct {
		ref string
		ann map[string]string
	}
	var targets []target
	var badRefs []string // references that resolve to another digest
	D := g.dgs
	var subjects []ocispec.Descriptor // distinct artifacts (for listing signatures on disk)

	if mode == "mem" {
		mem = &memRepo{rec: rec, table: map[string]ocispec.Descriptor{}}
		mkAnn := func() map[string]string {
			switch x := r.Intn(100); {
			case x < 22:
				return nil
			case x < 32:
				return map[string]string{}
			default:
				return randMap(r, annKeyPool, 1+r.Intn(3))
			}
		}
		dA := ocispec.Descriptor{MediaType: Pick(r, mtPool), Digest: digest.Digest(D[0]), Size: int64(1 + r.Intn(5000)), Annotations: mkAnn()}
		if scen != nil {
			dA.Annotations = copyMapNil(scen.annV1)
			dB := ocispec.Descriptor{MediaType: mtPool[0], Digest: digest.Digest(D[1]), Size: 77, Annotations: copyMapNil(scen.annV2)}
			mem.table["v1"], mem.table[D[0]] = dA, dA
			mem.table["v2"], mem.table[D[1]] = dB, dB
			mem.table[D[2]] = dA
			mem.table["sha256:abc"] = dA
		} else {
			if r.Chance(1, 5) {
				dA.ArtifactType = "application/vnd.example.thing"
			}
			if r.Chance(1, 10) {
				dA.URLs = []string{"https://example.test/blob"}
			}
			mem.table["v1"] = dA
			plainA := dA
			plainA.Annotations = nil
			if r.Bool() {
				mem.table[D[0]] = dA // the digest resolves to the stored descriptor, same map
			} else {
				mem.table[D[0]] = plainA
			}
			if r.Chance(2, 5) {
				dB := ocispec.Descriptor{MediaType: Pick(r, mtPool), Digest: digest.Digest(D[1]), Size: int64(1 + r.Intn(5000)), Annotations: mkAnn()}
				if r.Chance(1, 8) && dA.Annotations != nil {
					dB.Annotations = dA.Annotations // two descriptors sharing one map object
				}
				mem.table["v2"] = dB
				mem.table[D[1]] = dB
			}
			if r.Chance(1, 2) {
				mem.table[D[2]] = dA // a digest reference that resolves to a different digest
			}
			if r.Chance(1, 6) {
				mem.table["sha256:abc"] = dA // looks like a digest, is not one: a tag
			}
		}
		repo = mem
	} else {
		ociDir = filepath.Join(g.fsBase, fmt.Sprintf("h%d", id))
		if err := os.MkdirAll(ociDir, 0o755); err != nil {
			return nil, err
		}
		defer os.RemoveAll(ociDir)
		store, err := oci.New(ociDir)
		if err != nil {
			return nil, err
		}
		nArt := 1 + r.Intn(2)
		if scen != nil {
			nArt = 2
		}
		extras := map[string]map[string]string{}
		for i := 0; i < nArt; i++ {
			popts := oras.PackManifestOptions{ManifestAnnotations: map[string]string{kCreated: "2024-01-02T03:04:05Z", "n": fmt.Sprint(i)}}
			if mode == "flt" && !scen.preConfig {
				// an artifact with a config and a layer of its own: oras.PackManifest would otherwise write the
				// empty blob "{}", the very blob the notation manifest config is
				cfg, err := oras.PushBytes(ctx, store, "application/vnd.c11.config+json", []byte(fmt.Sprintf(`{"c11":%d}`, i)))
				if err != nil {
					return nil, err
				}
				popts.ConfigDescriptor = &cfg
				layer, err := oras.PushBytes(ctx, store, "application/vnd.c11.layer", []byte(fmt.Sprintf("layer %d", i)))
				if err != nil {
					return nil, err
				}
				popts.Layers = []ocispec.Descriptor{layer}
			}
			man, err := oras.PackManifest(ctx, store, oras.PackManifestVersion1_1, fmt.Sprintf("application/vnd.c11.test%d", i), popts)
			if err != nil {
				return nil, err
			}
			tag := fmt.Sprintf("v%d", i+1)
			if err := store.Tag(ctx, man, tag); err != nil {
				return nil, err
			}
			if i == 0 && (scen != nil || r.Chance(1, 2)) {
				// oci.Store.Tag accepts any string: a tag spelled like the digest of something
				// else (a digest reference that resolves to another digest), and a tag that
				// only looks like a digest
				if err := store.Tag(ctx, man, D[2]); err != nil {
					return nil, err
				}
				if err := store.Tag(ctx, man, "sha256:abc"); err != nil {
					return nil, err
				}
			}
			if scen != nil {
				extras[tag] = map[string]map[string]string{"v1": scen.annV1, "v2": scen.annV2}[tag]
			} else if r.Chance(3, 4) {
				extras[tag] = randMap(r, annKeyPool, 1+r.Intn(3))
			}
		}
		// rewrite index.json: annotations on the tagged entries
		idxPath := filepath.Join(ociDir, "index.json")
		var idx ocispec.Index
		b, err := os.ReadFile(idxPath)
		if err != nil {
			return nil, err
		}
		if err := json.Unmarshal(b, &idx); err != nil {
			return nil, err
		}
		for i := range idx.Manifests {
			tag := idx.Manifests[i].Annotations[ocispec.AnnotationRefName]
			for k, v := range extras[tag] {
				idx.Manifests[i].Annotations[k] = v
			}
		}
		b, _ = json.Marshal(idx)
		if err := os.WriteFile(idxPath, b, 0o644); err != nil {
			return nil, err
		}
		var inner registry.Repository
		if mode == "flt" {
			// ONE repository client over the fault wrapper around a store opened on the finished layout
			st2, err := oci.New(ociDir)
			if err != nil {
				return nil, err
			}
			fs = &faultStore{inner: st2, at: -1}
			inner = registry.NewRepository(fs)
		} else {
			inner, err = registry.NewOCIRepository(ociDir, registry.RepositoryOptions{})
			if err != nil {
				return nil, err
			}
		}
		repo = &wrapRepo{rec: rec, inner: inner}
	}

	// probes and the resolve table (asked from the repository itself)
	if mode == "mem" {
		for k := range mem.table {
			probes = append(probes, k)
		}
		sort.Strings(probes)
		probes = append(probes, "missing")
	} else {
		probes = []string{"v1", "v2", "missing", D[3], D[2], "sha256:abc"}
		for _, t := range []string{"v1", "v2"} {
			if d, err := repo.Resolve(ctx, t); err == nil {
				probes = append(probes, string(d.Digest))
			}
		}
		if mode != "flt" {
			// (mode flt: the empty config is not in the layout before the first signature; oci.Store
			// resolves the digest of any blob it holds, and the config blob belongs to the signature)
			probes = append(probes, string(ocispec.DescriptorEmptyJSON.Digest))
		}
	}
	seenDg := map[string]bool{}
	var tableMaps []map[string]string
	for _, p := range probes {
		d, err := repo.Resolve(ctx, p)
		if err != nil {
			continue
		}
		a := h.track(d.Annotations)
		aref := "ANil"
		if a >= 0 {
			aref = CApp("AShared", CN(int64(a)))
		}
		tableTerms = append(tableTerms, CPair(CStr(p), CApp("mk_desc", CStr(d.MediaType), CStr(string(d.Digest)), CZ(d.Size), CStr(restOf(d)), aref)))
		hd.Table[p] = copyMapNil(d.Annotations)
		if d.Annotations != nil {
			tableMaps = append(tableMaps, d.Annotations)
		}
		isBad := false
		if p != string(d.Digest) {
			if _, e := digest.Parse(p); e == nil {
				isBad = true
			}
		}
		if !isBad {
			targets = append(targets, target{p, d.Annotations})
		} else {
			badRefs = append(badRefs, p)
		}
		if !seenDg[string(d.Digest)] {
			seenDg[string(d.Digest)] = true
			pd := d
			pd.Annotations = nil
			subjects = append(subjects, pd)
		}
	}
	initialView := map[string]string{}
	var initialIndex []ocispec.Descriptor
	if mode != "mem" {
		initialView = diskView(ctx, ociDir, probes)
		initialIndex = readIndex(ociDir)
	}

	// ---- the calls ----
	nCalls := 1 + r.Intn(3)
	if r.Chance(1, 2) {
		nCalls = 2 + r.Intn(2)
	}
	newCall := func(prev *callSpec) *callSpec {
		c := &callSpec{}
		// reference
		t := Pick(r, targets)
		c.RefKind = "as-resolved"
		switch x := r.Intn(100); {
		case x < 55:
			c.Ref = t.ref
		case x < 72:
			c.RefKind = "full"
			if _, e := digest.Parse(t.ref); e == nil {
				c.Ref = "reg.example.test/repo@" + t.ref
			} else {
				c.Ref = "reg.example.test/repo:" + t.ref
			}
		case x < 80 && len(badRefs) > 0:
			c.RefKind = "digest-resolving-elsewhere"
			c.Ref = Pick(r, badRefs)
			if r.Chance(1, 3) {
				c.Ref = "localhost:5000/r@" + c.Ref
			}
		case x < 85:
			c.RefKind = "unresolvable"
			c.Ref = Pick(r, []string{"missing", "", "reg.example.test/repo:missing", D[3], "sha256:zz", "reg.example.test/repo@" + D[3], "BAD REF:v1"})
		default:
			c.Ref = t.ref
		}
		// options
		c.Mt = Pick(r, []string{MtJWS, MtCOSE})
		c.Expiry = Pick(r, []int64{0, 0, int64(time.Second), int64(24 * time.Hour)})
		c.Agent = Pick(r, []string{"", "vh-c11/1"})
		if r.Chance(1, 12) {
			switch r.Intn(6) {
			case 0:
				c.SignerNil = true
			case 1:
				c.RepoNil = true
			case 2:
				c.Expiry = -int64(time.Second)
			case 3:
				c.Expiry = Pick(r, []int64{1, int64(1500 * time.Millisecond), -1})
			case 4:
				c.Mt = ""
			case 5:
				c.Mt = Pick(r, []string{"application/json", "application/cose ", "application/JOSE+json"})
			}
		}
		// metadata against the annotations of what the reference resolves to
		targetAnn := t.ann
		if prev != nil && r.Chance(1, 2) {
			c.meta, c.MetaKind = prev.meta, prev.MetaKind
		} else {
			c.MetaKind = pickKind(r)
			c.meta = genMeta(r, c.MetaKind, targetAnn)
		}
		if r.Chance(1, 40) && targetAnn != nil {
			c.meta = targetAnn // the caller passes the artifact's own annotation map as metadata
		}
		if prev != nil && r.Bool() {
			c.pcfg = prev.pcfg
		} else if r.Chance(1, 3) {
			c.pcfg = map[string]string{"cfg": Pick(r, valPool)}
		}
		if r.Chance(1, 50) && c.meta != nil {
			c.pcfg = c.meta
		}
		// signer
		c.Sign = "ok"
		switch x := r.Intn(100); {
		case x < 6:
			c.Sign = "err"
		case x < 9:
			c.Sign = "infonil"
		case x < 13:
			c.Sign = "timezero"
		}
		c.ChainIdx = r.Intn(len(g.chains))
		// years 1..9999
		c.Time = -62135596800 + 1 + int64(r.U64()%uint64(253402300799+62135596800-1))
		if r.Bool() {
			c.Time = 1500000000 + int64(r.Intn(400000000))
		}
		switch x := r.Intn(100); {
		case x < 55:
			c.PA = "none"
		case x < 65:
			c.PA = "nil"
		default:
			c.PA = "map"
			if prev != nil && prev.pa != nil && r.Bool() {
				c.pa = prev.pa
			} else {
				switch r.Intn(4) {
				case 0:
					c.pa = map[string]string{}
				case 1:
					c.pa = map[string]string{"plugin.k": Pick(r, valPool)}
				case 2:
					c.pa = map[string]string{kThumb: "stale", "p": "q"}
				default:
					c.pa = map[string]string{kCreated: "old", "a": Pick(r, valPool)}
				}
			}
			if r.Chance(1, 25) {
				// aliasing outside the contract: the signer returns a map somebody else holds
				if c.meta != nil && r.Bool() {
					c.pa = c.meta
				} else if targetAnn != nil {
					c.pa = targetAnn
				}
			}
		}
		c.Push = "ok"
		if mode == "mem" {
			switch x := r.Intn(100); {
			case x < 7:
				c.Push = "err"
			case x < 12:
				c.Push = "refdel"
			}
		}
		return c
	}
	var calls []*callSpec
	if scen != nil {
		digests := map[string]string{}
		for _, t := range []string{"v1", "v2"} {
			if d, err := repo.Resolve(ctx, t); err == nil {
				digests[t] = string(d.Digest)
			}
		}
		for _, st := range scen.steps {
			cp := *st // the same step twice: the same map objects
			cp.Ref = resolveRef(st.Ref, digests, D[2])
			cp.Result, cp.Err = "", ""
			calls = append(calls, &cp)
		}
		nCalls = 0
		w.Count("scenario", scen.name)
	}
	for k := 0; k < nCalls; k++ {
		var c *callSpec
		if k > 0 && r.Chance(3, 5) {
			cp := *calls[0] // the same options, the same map objects
			cp.Result, cp.Err = "", ""
			c = &cp
		} else if k > 0 {
			c = newCall(calls[k-1])
		} else {
			c = newCall(nil)
		}
		calls = append(calls, c)
	}
	// all option maps are heap objects from the start
	for _, c := range calls {
		h.track(c.meta)
		h.track(c.pcfg)
		if c.PA == "map" {
			h.track(c.pa)
		}
	}
	heap0 := h.snapshot()

	var callTerms, obsTerms []string
	// fault family: the blob contents whose presence in the layout is observed
	var cands, blobs0 []string
	if mode == "flt" {
		seen := map[string]bool{}
		for k, c := range calls {
			sg := fmt.Sprintf("s%d#%d", k, id)
			if c.sigFixed != "" {
				sg = c.sigFixed
			}
			if !seen[sg] {
				seen[sg] = true
				cands = append(cands, sg)
			}
		}
		cands = append(cands, "{}")
		for _, x := range cands {
			if blobPresent(ociDir, x) {
				blobs0 = append(blobs0, x)
			}
		}
	}
	nontrivial := false
	for k, c := range calls {
		c.Meta, c.MetaNil = c.meta, c.meta == nil
		sig := fmt.Sprintf("s%d#%d", k, id)
		if c.sigFixed != "" {
			sig = c.sigFixed
		}
		ci := g.chains[c.ChainIdx]
		script := signScript{sig: sig, chain: ci.certs}
		switch c.Sign {
		case "err":
			script.err = true
		case "infonil":
			script.infoNil = true
		case "timezero":
		default:
			zone := time.FixedZone("z", (r.Intn(27)-12)*3600+r.Intn(2)*1800)
			script.time = time.Unix(c.Time, int64(r.Intn(1000000000))).In(zone)
		}
		var signer notation.Signer
		var pool *x509.CertPool
		if r.Chance(1, 3) {
			pool = x509.NewCertPool()
		}
		optBad := ""
		base := recSigner{rec: rec, script: script, pool: pool, optBad: &optBad}
		switch c.PA {
		case "none":
			s := base
			signer = &s
		case "nil":
			signer = &recSignerPA{recSigner: base}
		default:
			signer = &recSignerPA{recSigner: base, pa: c.pa}
		}
		if c.SignerNil {
			signer = nil
		}
		var rp registry.Repository = repo
		if c.RepoNil {
			rp = nil
		}
		pushDg := digest.FromString("manifest of " + sig).String()
		if mem != nil {
			mem.push, mem.pushDg = c.Push, pushDg
		}
		opts := notation.SignOptions{
			SignerSignOptions: notation.SignerSignOptions{SignatureMediaType: c.Mt, ExpiryDuration: time.Duration(c.Expiry), PluginConfig: c.pcfg, SigningAgent: c.Agent, TSARootCAs: pool},
			ArtifactReference: c.Ref, UserMetadata: c.meta}
		// oracles
		parse := "None"
		eff := c.Ref
		if pr, err := orasRegistry.ParseReference(c.Ref); err == nil {
			parse = CSome(CStr(pr.Reference))
			eff = pr.Reference
		}
		_, derr := digest.Parse(eff)

		rec.reset()
		rec.on = true
		if fs != nil {
			fs.arm(c.faultAt, c.faultAfter, c.faultCtx)
		}
		art, sigDesc, err := notation.SignOCI(ctx, signer, rp, opts)
		if fs != nil {
			fs.disarm()
			c.Ops = fs.ops
			opCounts = append(opCounts, len(fs.ops))
			if c.faultAt >= 0 {
				w.Count("fault_fired", fmt.Sprint(fs.fired))
			}
		}
		rec.on = false

		class, known := classify(err)
		c.Result = class
		if err != nil {
			c.Err = Short(err.Error(), 160)
		}
		if optBad != "" {
			w.ImplViolation(id, optBad, hd, "")
		}
		if !known {
			w.ImplViolation(id, "unclassified error from SignOCI: "+Short(err.Error(), 200), hd, "")
		}
		first := "None"
		if err != nil {
			if k, ok := offendingKey(err.Error()); ok {
				first = CSome(CStr(k))
			}
		}
		// input of the call
		signTerm := "SErr"
		switch c.Sign {
		case "ok":
			signTerm = CApp("SOk", CStr(sig), CSome(CApp("mk_sinfo", CStrList(ci.thumbs), CSome(CZ(script.time.Unix())))))
		case "timezero":
			signTerm = CApp("SOk", CStr(sig), CSome(CApp("mk_sinfo", CStrList(ci.thumbs), "None")))
		case "infonil":
			signTerm = CApp("SOk", CStr(sig), "None")
		}
		paTerm := "PANone"
		switch c.PA {
		case "nil":
			paTerm = "PANil"
		case "map":
			paTerm = CApp("PAMap", CN(int64(h.track(c.pa))))
		}
		pushTerm := "PushErr"
		switch {
		case mem != nil && c.Push == "ok":
			pushTerm = CApp("PushOK", CStr(pushDg))
		case mem != nil && c.Push == "refdel":
			pushTerm = CApp("PushRefDel", CStr(pushDg))
		case mem == nil:
			// the real repository: what it answered is the oracle
			pushTerm = CApp("PushOK", CStr(""))
			if len(rec.pushRet) > 0 {
				if rec.pushRet[0] == "!err" {
					pushTerm = "PushErr"
				} else {
					pushTerm = CApp("PushOK", CStr(rec.pushRet[0]))
				}
			}
		}
		callTerm := CApp("mk_call_in", CBool(c.SignerNil), CBool(c.RepoNil), CStr(c.Ref), parse, CBool(derr == nil),
			CStr(c.Mt), CZ(c.Expiry), CStr(c.Agent), optAddr(h.track(c.meta)), first, optAddr(h.track(c.pcfg)), signTerm, paTerm, pushTerm)
		if fs != nil {
			// the answer of PushSignature is not an input here: the model computes it
			flt := "None"
			if c.faultAt >= 0 {
				kind := "FBefore"
				if c.faultAfter {
					kind = "FAfter"
				}
				flt = CSome(CPair(CN(int64(c.faultAt)), kind))
			}
			callTerm = CApp("mk_fcall", callTerm, CStr(string(sigDesc.Digest)), flt)
		}
		callTerms = append(callTerms, callTerm)

		// observation of the call
		artTerm := "None"
		if !isZeroDesc(art) {
			artTerm = CSome(h.deep(art))
		}
		trace := CApp("mk_trace", class, artTerm, CStr(string(sigDesc.Digest)), CStrList(rec.resolves), CList(rec.signs), CList(rec.pushes))
		var viewTerms []string
		for _, p := range probes {
			d, e := repo.Resolve(ctx, p)
			if e != nil {
				viewTerms = append(viewTerms, CPair(CStr(p), "None"))
			} else {
				viewTerms = append(viewTerms, CPair(CStr(p), CSome(h.deep(d))))
			}
		}
		var stored []storedSig
		if mem != nil {
			stored = mem.stored
		} else {
			var e error
			stored, e = diskStored(ctx, ociDir, subjects)
			if e != nil {
				return nil, e
			}
		}
		st := make([]string, len(stored))
		for i, s := range stored {
			st[i] = s.term()
		}
		obsTerm := CApp("mk_co", trace, h.snapshot(), CList(viewTerms), CList(st))
		if fs != nil {
			pres := make([]string, len(cands))
			for i, x := range cands {
				pres[i] = CBool(blobPresent(ociDir, x))
			}
			obsTerm = CApp("mk_fco", obsTerm, CList(fs.ops), CList(pres))
		}
		obsTerms = append(obsTerms, obsTerm)
		if len(rec.signs) > 0 || class == "EDigestMismatch" || class == "EMetaReserved" || class == "EMetaPresent" {
			nontrivial = true
		}
		w.Count("result", class)
		w.Count("mode", mode)
		w.Count("metadata_kind", c.MetaKind)
		w.Count("reference_kind", c.RefKind)
		w.Count("plugin_annotations", c.PA)
		w.Count("call_index", fmt.Sprint(k))
		if k > 0 && calls[k-1].Result == "ROk" && class == "ROk" {
			w.Count("consecutive_successes", "yes")
		}
	}
	hd.Calls = calls
	w.Count("calls_per_history", fmt.Sprint(len(calls)))

	// Go-side check of the files of the layout (within the input contract wf of the model
	// only: a signer whose PluginAnnotations() is one of the repository's own maps makes
	// generateAnnotations write into the repository)
	contract := true
	for _, c := range calls {
		if c.PA == "map" {
			for _, t := range tableMaps {
				if mapPtr(t) == mapPtr(c.pa) {
					contract = false
				}
			}
		}
	}
	if !contract {
		w.Count("outside_contract", "signer returns a repository map")
	}
	if mode != "mem" && contract {
		final := diskView(ctx, ociDir, probes)
		for _, p := range probes {
			if initialView[p] != final[p] {
				w.ImplViolation(id, fmt.Sprintf("on-disk layout: a fresh repository resolves %q to %s, before the calls to %s", p, final[p], initialView[p]), hd, "")
				break
			}
		}
		fin := readIndex(ociDir)
		for _, e := range initialIndex {
			found := false
			for _, f := range fin {
				if reflect.DeepEqual(e, f) {
					found = true
				}
			}
			if !found {
				b, _ := json.Marshal(e)
				w.ImplViolation(id, "index.json: an entry that existed before signing was changed or removed: "+string(b), hd, "")
				break
			}
		}
	}

	in := CApp("mk_input", heap0, CList(tableTerms), CStrList(probes), CList(callTerms))
	body := in + " " + CList(obsTerms)
	term := "(XPlain (mk_case " + CN(id) + " " + body + "))"
	if mode == "flt" {
		in = CApp("mk_finput", heap0, CList(tableTerms), CStrList(probes), CStrList(blobs0), CStrList(cands), CList(callTerms))
		body = in + " " + CList(obsTerms)
		term = "(XFault " + CN(id) + " " + body + ")"
	}
	if emit {
		w.Add(id, term, hd, body, nontrivial)
	}
	return opCounts, nil
}

// diskView resolves the probes through a fresh repository over the directory.
func diskView(ctx context.Context, dir string, probes []string) map[string]string {
	out := map[string]string{}
	repo, err := registry.NewOCIRepository(dir, registry.RepositoryOptions{})
	if err != nil {
		return map[string]string{"": "open: " + err.Error()}
	}
	for _, p := range probes {
		d, err := repo.Resolve(ctx, p)
		if err != nil {
			out[p] = "unresolvable"
			continue
		}
		out[p] = deepStored(d)
	}
	return out
}

func readIndex(dir string) []ocispec.Descriptor {
	var idx ocispec.Index
	b, err := os.ReadFile(filepath.Join(dir, "index.json"))
	if err != nil {
		return nil
	}
	json.Unmarshal(b, &idx)
	return idx.Manifests
}

// diskStored reads, through a fresh store over the directory, the signature
// manifests that refer to the subjects, with blob and annotations.
func diskStored(ctx context.Context, dir string, subjects []ocispec.Descriptor) ([]storedSig, error) {
	store, err := oci.New(dir)
	if err != nil {
		return nil, err
	}
	repo := registry.NewRepository(store)
	var out []storedSig
	for _, sub := range subjects {
		var mans []ocispec.Descriptor
		if err := repo.ListSignatures(ctx, sub, func(ms []ocispec.Descriptor) error {
			mans = append(mans, ms...)
			return nil
		}); err != nil {
			return nil, err
		}
		for _, md := range mans {
			b, err := content.FetchAll(ctx, store, md)
			if err != nil {
				return nil, err
			}
			var man ocispec.Manifest
			if err := json.Unmarshal(b, &man); err != nil {
				return nil, err
			}
			s := storedSig{ann: man.Annotations}
			if man.Subject != nil {
				s.subject = *man.Subject
			}
			if len(man.Layers) == 1 {
				s.mt = man.Layers[0].MediaType
				blob, err := content.FetchAll(ctx, store, man.Layers[0])
				if err != nil {
					return nil, err
				}
				s.sig = string(blob)
			}
			out = append(out, s)
		}
	}
	sort.Slice(out, func(i, j int) bool { return out[i].sig < out[j].sig })
	return out, nil
}

// ---------- systematic histories ----------

type scenEntry struct {
	*scenario
	memOnly bool
}

// okStep: a call that succeeds on its own.
func okStep(ref string, meta map[string]string) *callSpec {
	kind := "disjoint"
	if meta == nil {
		kind = "nil"
	} else if len(meta) == 0 {
		kind = "empty"
	}
	return &callSpec{Ref: ref, RefKind: "scenario", MetaKind: kind, Mt: MtJWS, meta: meta, Sign: "ok", ChainIdx: 2, Time: 1700000000, PA: "none", Push: "ok"}
}

func scenarios() []scenEntry {
	var out []scenEntry
	annV2 := map[string]string{"b": "2"}
	for vi, annV1 := range []map[string]string{{"a": ""}, {"a": "1", "k": "v"}, nil} {
		type bstep struct {
			name    string
			mk      func() *callSpec
			memOnly bool
		}
		with := func(c *callSpec, f func(c *callSpec)) *callSpec { f(c); return c }
		bs := []bstep{
			{"collide", func() *callSpec { return okStep("v1", map[string]string{"a": "x", "m2": "1"}) }, false},
			{"collide-same-value", func() *callSpec { return okStep("v1", map[string]string{"a": annV1["a"]}) }, false},
			{"reserved-exact", func() *callSpec { return okStep("v1", map[string]string{"io.cncf.notary": "x"}) }, false},
			{"reserved-nodot", func() *callSpec { return okStep("v1", map[string]string{"io.cncf.notaryfoo": "x", "m2": "1"}) }, false},
			{"reserved-dot", func() *callSpec { return okStep("v1", map[string]string{"m2": "", "io.cncf.notary.z": ""}) }, false},
			{"near-prefix", func() *callSpec {
				return okStep("v1", map[string]string{"io.cncf.notar": "x", "Io.cncf.notary": "y", "": "z", " io.cncf.notary": "w"})
			}, false},
			{"digest-elsewhere", func() *callSpec { return okStep("bad", map[string]string{"m1": "v"}) }, false},
			{"full-digest-elsewhere", func() *callSpec { return okStep("fullbad", map[string]string{"m1": "v"}) }, false},
			{"tag-digest-elsewhere", func() *callSpec { return okStep("tagbad", nil) }, false},
			{"tag-like-digest", func() *callSpec { return okStep("sha256:abc", map[string]string{"m1": "v"}) }, false},
			{"mt-empty", func() *callSpec {
				return with(okStep("v1", map[string]string{"m1": "v"}), func(c *callSpec) { c.Mt = "" })
			}, false},
			{"signer-error", func() *callSpec {
				return with(okStep("v1", map[string]string{"m1": "v"}), func(c *callSpec) { c.Sign = "err" })
			}, false},
			{"push-error", func() *callSpec {
				return with(okStep("v1", map[string]string{"m1": "v"}), func(c *callSpec) { c.Push = "err" })
			}, true},
			{"time-zero", func() *callSpec {
				return with(okStep("v1", map[string]string{"m1": "v"}), func(c *callSpec) { c.Sign = "timezero" })
			}, false},
			{"v2-collide-there", func() *callSpec { return okStep("v2", map[string]string{"b": "x"}) }, false},
			{"v2-fine-there", func() *callSpec { return okStep("v2", map[string]string{"a": "x"}) }, false},
			{"by-digest", func() *callSpec { return okStep("digest:v1", map[string]string{"a": "x"}) }, false},
			{"by-full-digest", func() *callSpec { return okStep("fulldigest:v1", map[string]string{"m1": "v"}) }, false},
			{"tag-and-digest", func() *callSpec { return okStep("tagdigest:v1", map[string]string{"m1": "v"}) }, false},
			{"upper-host", func() *callSpec { return okStep("upper:v1", map[string]string{"m1": "v"}) }, false},
			{"no-reference", func() *callSpec { return okStep("noref", map[string]string{"m1": "v"}) }, false},
			{"meta-empty", func() *callSpec { return okStep("v1", map[string]string{}) }, false},
			{"meta-nil", func() *callSpec { return okStep("v1", nil) }, false},
			{"plugin-annotations", func() *callSpec {
				return with(okStep("v1", map[string]string{"m1": "v"}), func(c *callSpec) {
					c.PA, c.pa = "map", map[string]string{kThumb: "stale", "p": ""}
				})
			}, false},
			{"other-chain-time", func() *callSpec {
				return with(okStep("v1", map[string]string{"m1": "v"}), func(c *callSpec) { c.ChainIdx, c.Time = 3, 951782399 })
			}, false},
		}
		for _, b := range bs {
			if vi == 2 && strings.HasPrefix(b.name, "collide") {
				continue // no annotation to collide with
			}
			A := okStep("v1", map[string]string{"m1": "v"})
			A.pcfg = map[string]string{}
			B := b.mk()
			for si, seq := range [][]*callSpec{{A, B, A}, {B, A, B}, {B, B, A}} {
				out = append(out, scenEntry{&scenario{name: fmt.Sprintf("%s/%s", b.name, []string{"ABA", "BAB", "BBA"}[si]), annV1: annV1, annV2: annV2, steps: seq}, b.memOnly})
			}
		}
	}
	return out
}
